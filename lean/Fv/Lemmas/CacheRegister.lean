import Fv.Lemmas.CacheFrame
/-
RegisterSpec for C11 ("cache reads return only the latest live value of their own key") and the
per-function lemmas of the refinement proof.

* `Reg` : key ↦ value id of the latest write of that key that has not been followed by
  `remove` / `invalidate` / `clear` (a per-key register); `Spec` = the register plus the content of
  the last snapshot (because `restore` replaces the cache by one built from it).
* `specStep` : effect of one API call (with its outcome) on the spec state.
* `admissible` : every value the call hands to its caller is the register content of ITS key
  (reads may also return nothing: the cache "may forget" — expiry, eviction).
* `Agree s sp` : every binding of the model map is the register content of its key.

Everything is stated for every configuration, every eviction policy and every oracle.
-/
namespace Fv.Cache
variable {P : Type}

/-! ### the register spec -/
abbrev Reg := Nat → Option Nat

def Reg.empty : Reg := fun _ => none
def Reg.set (r : Reg) (k v : Nat) : Reg := fun k' => if k' = k then some v else r k'
def Reg.unset (r : Reg) (k : Nat) : Reg := fun k' => if k' = k then none else r k'
/-- later pairs overwrite earlier ones -/
def Reg.setAll (r : Reg) (l : List (Nat × Nat)) : Reg := l.foldl (fun r p => r.set p.1 p.2) r
def Reg.unsetAll (r : Reg) (ks : List Nat) : Reg := ks.foldl Reg.unset r
def Reg.ofPairs (l : List (Nat × Nat)) : Reg := Reg.empty.setAll l

structure Spec where
  reg : Reg := Reg.empty
  /-- `(key, vid)` content of the last snapshot taken -/
  snap : Option (List (Nat × Nat)) := none

def Spec.empty : Spec := {}

def Snapshot.pairs (sn : Snapshot) : List (Nat × Nat) := sn.entries.map (fun p => (p.key, p.vid))

/-- effect of the call `op` that returned `ret` on the spec state -/
def specStep (sp : Spec) (op : Op) (ret : Ret) : Spec :=
  match op with
  | .insert _ k v _ => { sp with reg := sp.reg.set k v }
  | .insertTtl _ k v _ _ => { sp with reg := sp.reg.set k v }
  | .multiInsert items => { sp with reg := sp.reg.setAll (items.map (fun it => (it.1, it.2.1))) }
  | .remove k => { sp with reg := sp.reg.unset k }
  | .invalidate k => { sp with reg := sp.reg.unset k }
  | .multiRemove ks => { sp with reg := sp.reg.unsetAll ks }
  | .clear => { sp with reg := Reg.empty }
  | .orInsert k v _ => if ret = .val (some v) then { sp with reg := sp.reg.set k v } else sp
  | .compute k v =>
    match ret with
    | .computed (some (some _)) => { sp with reg := sp.reg.set k v }
    | _ => sp
  | .fetchWith k v _ =>
    match ret with
    | .loaded _ _ true => { sp with reg := sp.reg.set k v }
    | _ => sp
  | .snapshot =>
    match ret with
    | .snap sn => { sp with snap := some sn.pairs }
    | _ => sp
  | .restore =>
    match sp.snap with
    | some l => { sp with reg := Reg.ofPairs l }
    | none => sp
  | _ => sp

/-- a single-key read: nothing, or the register content of `k` -/
def okRead (r : Reg) (k : Nat) (v : Option Nat) : Prop := ∀ x, v = some x → r k = some x
/-- a multi-key read: every returned pair is the register content of its key -/
def okPairs (r : Reg) (l : List (Nat × Nat)) : Prop := ∀ p, p ∈ l → r p.1 = some p.2

/-- every value `op` handed to its caller (outcome `ret`) is admissible for the register
    BEFORE the call (or is the value the call itself just wrote) -/
def admissible (sp : Spec) (op : Op) (ret : Ret) : Prop :=
  match op with
  | .get k => ∃ v, ret = .val v ∧ okRead sp.reg k v
  | .peek k => ∃ v, ret = .val v ∧ okRead sp.reg k v
  | .hold k => ∃ v, ret = .val v ∧ okRead sp.reg k v
  | .remove k => ∃ v, ret = .val v ∧ okRead sp.reg k v
  | .multiget _ ks => ∃ l, ret = .pairs l ∧ okPairs sp.reg l ∧ ∀ p, p ∈ l → p.1 ∈ ks
  | .multiRemove ks => ∃ l, ret = .pairs l ∧ okPairs sp.reg l ∧ ∀ p, p ∈ l → p.1 ∈ ks
  | .iter _ _ => ∃ l, ret = .pairs l ∧ okPairs sp.reg l
  | .iterSnapshot _ => ∃ l, ret = .pairs l ∧ okPairs sp.reg l
  | .snapshot => ∃ sn, ret = .snap sn ∧ okPairs sp.reg sn.pairs
  | .compute k _ => ∃ r, ret = .computed r ∧ ∀ old, r = some (some old) → sp.reg k = some old
  | .orInsert k v _ => ∃ x, ret = .val (some x) ∧ (sp.reg k = some x ∨ x = v)
  | .fetchWith k v _ =>
    ∃ x stale loader, ret = .loaded x stale loader ∧
      (if stale || !loader then sp.reg k = some x else x = v)
  | _ => True

/-- the refinement relation: the model map only holds register contents; the model's last
    snapshot is the spec's -/
def Agree (s : State P) (sp : Spec) : Prop :=
  (∀ k e, (k, e) ∈ s.map → sp.reg k = some e.vid) ∧
  sp.snap = s.snap.map Snapshot.pairs

/-! ### register algebra -/
@[simp] theorem Reg.set_same (r : Reg) (k v : Nat) : r.set k v k = some v := by simp [Reg.set]
theorem Reg.set_other (r : Reg) {k k' : Nat} (v : Nat) (h : k' ≠ k) : r.set k v k' = r k' := by simp [Reg.set, h]
@[simp] theorem Reg.unset_same (r : Reg) (k : Nat) : r.unset k k = none := by simp [Reg.unset]
theorem Reg.unset_other (r : Reg) {k k' : Nat} (h : k' ≠ k) : r.unset k k' = r k' := by simp [Reg.unset, h]

theorem Reg.set_eq_self (r : Reg) {k v : Nat} (h : r k = some v) : r.set k v = r := by
  funext k'
  by_cases hk : k' = k
  · subst hk; simp [h]
  · exact Reg.set_other _ _ hk

theorem Reg.unsetAll_mem (ks : List Nat) : ∀ (r : Reg) (k : Nat), k ∈ ks → r.unsetAll ks k = none := by
  induction ks with
  | nil => intro r k h; cases h
  | cons a rest ih =>
    intro r k h
    by_cases hk : k ∈ rest
    · exact ih _ _ hk
    · have : k = a := by cases h with
        | head => rfl
        | tail _ h' => exact absurd h' hk
      subst this
      clear h ih
      show Reg.unsetAll (r.unset k) rest k = none
      generalize hr : r.unset k = r'
      have h0 : r' k = none := by rw [← hr]; simp
      clear hr
      induction rest generalizing r' with
      | nil => exact h0
      | cons b rest ih2 =>
        have hb : k ≠ b := fun e => hk (by rw [e]; exact List.mem_cons_self)
        have hr2 : k ∉ rest := fun e => hk (List.mem_cons_of_mem _ e)
        exact ih2 hr2 (r'.unset b) (by rw [Reg.unset_other _ hb]; exact h0)

theorem Reg.unsetAll_none (ks : List Nat) : ∀ (r : Reg) (k : Nat), r k = none → r.unsetAll ks k = none := by
  induction ks with
  | nil => intro r k h; exact h
  | cons a rest ih =>
    intro r k h
    apply ih
    by_cases hk : k = a
    · subst hk; simp
    · rw [Reg.unset_other _ hk]; exact h

theorem Reg.unsetAll_not_mem (ks : List Nat) : ∀ (r : Reg) (k : Nat), k ∉ ks → r.unsetAll ks k = r k := by
  induction ks with
  | nil => intro r k _; rfl
  | cons a rest ih =>
    intro r k h
    have h1 : k ≠ a := fun e => h (by rw [e]; exact List.mem_cons_self)
    have h2 : k ∉ rest := fun e => h (List.mem_cons_of_mem _ e)
    show Reg.unsetAll (r.unset a) rest k = r k
    rw [ih _ _ h2, Reg.unset_other _ h1]

theorem Reg.setAll_not_mem (l : List (Nat × Nat)) : ∀ (r : Reg) (k : Nat), (∀ p, p ∈ l → p.1 ≠ k) → r.setAll l k = r k := by
  induction l with
  | nil => intro r k _; rfl
  | cons a rest ih =>
    intro r k h
    show Reg.setAll (r.set a.1 a.2) rest k = r k
    rw [ih _ _ (fun p hp => h p (List.mem_cons_of_mem _ hp))]
    exact Reg.set_other _ _ (fun e => h a List.mem_cons_self e.symm)

/-! ### association-list facts -/
theorem lookup_none_not_mem {m : List (Nat × Entry)} {k : Nat} (h : lookup m k = none) (e : Entry) : (k, e) ∉ m := by
  induction m with
  | nil => simp
  | cons p rest ih =>
    obtain ⟨k', e'⟩ := p
    unfold lookup at h
    split at h
    · cases h
    · next hk =>
      intro hm
      cases hm with
      | head => exact hk rfl
      | tail _ h' => exact ih h h'

theorem lookup_erase_same (m : List (Nat × Entry)) (k : Nat) : lookup (erase m k) k = none := by
  induction m with
  | nil => rfl
  | cons p rest ih =>
    obtain ⟨k', e'⟩ := p
    by_cases hk : k' = k
    · simpa [erase, hk] using ih
    · have : erase ((k', e') :: rest) k = (k', e') :: erase rest k := by simp [erase, hk]
      rw [this]; unfold lookup; simp [hk]; exact ih

theorem lookup_erase_other (m : List (Nat × Entry)) {k k' : Nat} (h : k' ≠ k) : lookup (erase m k) k' = lookup m k' := by
  induction m with
  | nil => rfl
  | cons p rest ih =>
    obtain ⟨k1, e1⟩ := p
    by_cases hk : k1 = k
    · have : erase ((k1, e1) :: rest) k = erase rest k := by simp [erase, hk]
      rw [this, ih]
      have hne : k1 ≠ k' := by rw [hk]; exact fun e => h e.symm
      conv => rhs; unfold lookup
      simp [hne]
    · have : erase ((k1, e1) :: rest) k = (k1, e1) :: erase rest k := by simp [erase, hk]
      rw [this]
      conv => lhs; unfold lookup
      conv => rhs; unfold lookup
      rw [ih]

theorem lookup_put_same (m : List (Nat × Entry)) (k : Nat) (e : Entry) : lookup (put m k e) k = some e := by
  simp [put, lookup]

theorem lookup_put_other (m : List (Nat × Entry)) {k k' : Nat} (e : Entry) (h : k' ≠ k) :
    lookup (put m k e) k' = lookup m k' := by
  have hne : k ≠ k' := fun x => h x.symm
  show lookup ((k, e) :: erase m k) k' = lookup m k'
  conv => lhs; unfold lookup
  simp [hne]
  exact lookup_erase_other m h

theorem touch_vid (e : Entry) (now : Nat) (tti : Option Nat) : (e.touch now tti).vid = e.vid := by
  unfold Entry.touch; split <;> rfl

/-! ### `Agree` algebra -/
theorem Agree.of_sub {s s' : State P} {sp : Spec} (h : Agree s sp) (hm : MapSub s'.map s.map)
    (hs : s'.snap = s.snap) : Agree s' sp :=
  ⟨fun k e he => h.1 k e (hm _ he), by rw [hs]; exact h.2⟩

theorem Agree.of_eq {s s' : State P} {sp : Spec} (h : Agree s sp) (hm : s'.map = s.map)
    (hs : s'.snap = s.snap) : Agree s' sp :=
  h.of_sub (by rw [hm]; exact MapSub.refl _) hs

/-- overwrite: `put k e` against `set k e.vid` -/
theorem Agree.put_set {s s' : State P} {sp : Spec} (h : Agree s sp) {k : Nat} {e : Entry}
    (hm : s'.map = put s.map k e) (hs : s'.snap = s.snap) : Agree s' { sp with reg := sp.reg.set k e.vid } := by
  refine ⟨?_, by rw [hs]; exact h.2⟩
  intro k' e' he
  rw [hm, mem_put] at he
  cases he with
  | inl h1 => obtain ⟨rfl, rfl⟩ := h1; simp
  | inr h1 => show sp.reg.set k e.vid k' = _; rw [Reg.set_other _ _ h1.2]; exact h.1 _ _ h1.1

/-- re-binding a key to an entry with the value id the register already holds -/
theorem Agree.put_same {s s' : State P} {sp : Spec} (h : Agree s sp) {k : Nat} {e : Entry}
    (hr : sp.reg k = some e.vid) (hm : s'.map = put s.map k e) (hs : s'.snap = s.snap) : Agree s' sp := by
  refine ⟨?_, by rw [hs]; exact h.2⟩
  intro k' e' he
  rw [hm, mem_put] at he
  cases he with
  | inl h1 => obtain ⟨rfl, rfl⟩ := h1; exact hr
  | inr h1 => exact h.1 _ _ h1.1

theorem Agree.erase_unset {s s' : State P} {sp : Spec} (h : Agree s sp) {k : Nat}
    (hm : MapSub s'.map (erase s.map k)) (hs : s'.snap = s.snap) : Agree s' { sp with reg := sp.reg.unset k } := by
  refine ⟨?_, by rw [hs]; exact h.2⟩
  intro k' e' he
  have := mem_erase.1 (hm _ he)
  show sp.reg.unset k k' = _
  rw [Reg.unset_other _ this.2]; exact h.1 _ _ this.1

theorem Agree.of_lookup {s : State P} {sp : Spec} (h : Agree s sp) {k : Nat} {e : Entry}
    (he : lookup s.map k = some e) : sp.reg k = some e.vid := h.1 k e (lookup_mem he)

/-- a key the register does not hold is not resident -/
theorem Agree.absent {s : State P} {sp : Spec} (h : Agree s sp) {k : Nat} (hk : sp.reg k = none) :
    lookup s.map k = none := by
  cases hl : lookup s.map k with
  | none => rfl
  | some e => rw [h.of_lookup hl] at hk; cases hk

/-! ### `snap` is untouched by everything except `snapshot` / `restore` -/
theorem foldl_snap {α} (f : State P → α → State P) (hf : ∀ s a, (f s a).snap = s.snap) :
    ∀ (l : List α) (s : State P), (l.foldl f s).snap = s.snap := by
  intro l
  induction l with
  | nil => intro s; rfl
  | cons a rest ih => intro s; exact (ih (f s a)).trans (hf s a)

theorem foldl_map_eq {α} (f : State P → α → State P) (hf : ∀ s a, (f s a).map = s.map) :
    ∀ (l : List α) (s : State P), (l.foldl f s).map = s.map := by
  intro l
  induction l with
  | nil => intro s; rfl
  | cons a rest ih => intro s; exact (ih (f s a)).trans (hf s a)

@[simp] theorem resetLogs_map (s : State P) : s.resetLogs.map = s.map := rfl
@[simp] theorem resetLogs_snap (s : State P) : s.resetLogs.snap = s.snap := rfl
@[simp] theorem resetLogs_now (s : State P) : s.resetLogs.now = s.now := rfl
@[simp] theorem modAux_snap (s : State P) (i : Nat) (f : Aux P → Aux P) : (s.modAux i f).snap = s.snap := rfl
@[simp] theorem cancelTimer_snap (s : State P) (i : Nat) (h : Option Nat) : (s.cancelTimer i h).snap = s.snap := rfl
@[simp] theorem subCost_snap (s : State P) (c : Nat) : (s.subCost c).snap = s.snap := rfl
@[simp] theorem addCost_snap (s : State P) (c : Nat) : (s.addCost c).snap = s.snap := rfl
@[simp] theorem logRemoved_snap (s : State P) (k : Nat) (e : Entry) (r : Reason) : (s.logRemoved k e r).snap = s.snap := rfl
@[simp] theorem pushEvent_snap (cfg : Cfg) (s : State P) (k c : Nat) : (s.pushEvent cfg k c).snap = s.snap := rfl
@[simp] theorem polAccess_snap (ops : PolicyOps P) (s : State P) (i k c : Nat) : (s.polAccess ops i k c).snap = s.snap := rfl
@[simp] theorem polRemove_snap (ops : PolicyOps P) (s : State P) (i k : Nat) : (s.polRemove ops i k).snap = s.snap := rfl
@[simp] theorem polClear_snap (ops : PolicyOps P) (s : State P) (i : Nat) : (s.polClear ops i).snap = s.snap := rfl
@[simp] theorem hit_map (s : State P) (n : Nat) : (s.hit n).map = s.map := rfl
@[simp] theorem hit_snap (s : State P) (n : Nat) : (s.hit n).snap = s.snap := rfl
@[simp] theorem hit_now (s : State P) (n : Nat) : (s.hit n).now = s.now := rfl
@[simp] theorem miss_map (s : State P) (n : Nat) : (s.miss n).map = s.map := rfl
@[simp] theorem miss_snap (s : State P) (n : Nat) : (s.miss n).snap = s.snap := rfl
@[simp] theorem miss_now (s : State P) (n : Nat) : (s.miss n).now = s.now := rfl

theorem notify_snap (cfg : Cfg) (s : State P) (n : Notif) : (s.notify cfg n).snap = s.snap := by
  unfold State.notify; dsimp only; (repeat' split) <;> rfl
theorem polAdmit_snap (ops : PolicyOps P) (s : State P) (i k c : Nat) : (s.polAdmit ops i k c).1.snap = s.snap := by
  unfold State.polAdmit; split <;> rfl
theorem polEvict_snap (ops : PolicyOps P) (s : State P) (i n : Nat) (h : List Nat) : (s.polEvict ops i n h).1.snap = s.snap := by
  unfold State.polEvict; dsimp only; (repeat' split) <;> rfl

theorem notifyAll_snap (cfg : Cfg) : ∀ (ns : List Notif) (s : State P), (State.notifyAll cfg s ns).snap = s.snap := by
  intro ns
  induction ns with
  | nil => intro s; rfl
  | cons n rest ih => intro s; exact (ih _).trans (notify_snap cfg s n)

theorem applyAccesses_snap (ops : PolicyOps P) (i : Nat) :
    ∀ (l : List (Nat × Nat)) (s : State P), (State.applyAccesses ops i s l).snap = s.snap := by
  intro l
  induction l with
  | nil => intro s; rfl
  | cons a rest ih =>
    intro s
    obtain ⟨k, c⟩ := a
    exact (ih _).trans rfl

theorem evictVictim_snap (cfg : Cfg) (ops : PolicyOps P) (s : State P) (v : Nat) :
    (s.evictVictim cfg ops v).1.snap = s.snap := by
  unfold State.evictVictim
  split <;> rfl

theorem evictVictims_snap (cfg : Cfg) (ops : PolicyOps P) :
    ∀ (vs : List Nat) (s : State P) (rel : Nat) (ns : List Notif),
      (State.evictVictims cfg ops s vs rel ns).1.snap = s.snap := by
  intro vs
  induction vs with
  | nil => intro s rel ns; rfl
  | cons v rest ih =>
    intro s rel ns
    have hv := evictVictim_snap cfg ops s v
    unfold State.evictVictims
    split
    · next s' c n heq => rw [heq] at hv; exact (ih _ _ _).trans hv
    · next s' c heq => rw [heq] at hv; exact (ih _ _ _).trans hv

theorem applyWrite_snap (cfg : Cfg) (ops : PolicyOps P) (s : State P) (i : Nat) (w : Nat × Nat) :
    (s.applyWrite cfg ops i w).snap = s.snap := by
  have ha := polAdmit_snap ops s i w.1 w.2
  unfold State.applyWrite
  generalize s.polAdmit ops i w.1 w.2 = r at ha
  obtain ⟨s1, d⟩ := r
  cases d with
  | admit => exact ha
  | reject => exact ha
  | admitAndEvict vs =>
    simp only
    have hv := evictVictims_snap cfg ops vs s1 0 []
    generalize State.evictVictims cfg ops s1 vs 0 [] = r at hv
    obtain ⟨s2, rel, ns⟩ := r
    exact ((notifyAll_snap cfg ns _).trans (by simpa using hv)).trans ha

theorem applyWrites_snap (cfg : Cfg) (ops : PolicyOps P) (i : Nat) :
    ∀ (ws : List (Nat × Nat)) (s : State P), (State.applyWrites cfg ops i s ws).snap = s.snap := by
  intro ws
  induction ws with
  | nil => intro s; rfl
  | cons w rest ih => intro s; exact (ih _).trans (applyWrite_snap cfg ops s i w)

theorem performShard_snap (cfg : Cfg) (ops : PolicyOps P) (o : Oracle) (s : State P) (i limit : Nat) :
    (s.performShard cfg ops o i limit).snap = s.snap := by
  unfold State.performShard
  split
  · rfl
  · next a _ =>
    refine (applyAccesses_snap ops i _ _).trans ?_
    refine (applyWrites_snap cfg ops i _ _).trans ?_
    exact (applyAccesses_snap ops i _ _).trans rfl

theorem ttlRemove_snap (cfg : Cfg) (ops : PolicyOps P) (i : Nat) (s : State P) (k : Nat) :
    (State.ttlRemove cfg ops i s k).snap = s.snap := by
  unfold State.ttlRemove
  split
  · simp only [logRemoved_snap, notify_snap, subCost_snap, polRemove_snap]
  · rfl

theorem cleanupTtl_snap (cfg : Cfg) (ops : PolicyOps P) (o : Oracle) (s : State P) (i : Nat) :
    (s.cleanupTtl cfg ops o i).snap = s.snap := by
  unfold State.cleanupTtl
  split
  · rfl
  · exact (foldl_snap _ (ttlRemove_snap cfg ops i) _ _).trans rfl

theorem ttiRemove_snap (cfg : Cfg) (ops : PolicyOps P) (i : Nat) (s : State P) (k : Nat) :
    (State.ttiRemove cfg ops i s k).snap = s.snap := by
  unfold State.ttiRemove
  split
  · simp only [notify_snap, cancelTimer_snap, subCost_snap, polRemove_snap, logRemoved_snap]
  · rfl

theorem cleanupTti_snap (cfg : Cfg) (ops : PolicyOps P) (o : Oracle) (s : State P) (i : Nat) :
    (s.cleanupTti cfg ops o i).snap = s.snap := by
  unfold State.cleanupTti
  split
  · rfl
  · exact foldl_snap _ (ttiRemove_snap cfg ops i) _ _

theorem capRemove_snap (cfg : Cfg) (i : Nat) (s : State P) (k : Nat) : (State.capRemove cfg i s k).snap = s.snap := by
  unfold State.capRemove
  split
  · split
    · simp only [notify_snap, logRemoved_snap]
    · rfl
  · rfl

theorem cleanupCapacity_snap (cfg : Cfg) (ops : PolicyOps P) (o : Oracle) (s : State P) (i : Nat) :
    (s.cleanupCapacity cfg ops o i).snap = s.snap := by
  unfold State.cleanupCapacity
  simp only
  split
  · rfl
  · have he := polEvict_snap ops s i (s.met.currentCost - cfg.capacity) (o.evictHint.getD i [])
    generalize s.polEvict ops i (s.met.currentCost - cfg.capacity) (o.evictHint.getD i []) = r at he
    obtain ⟨s1, victims, released⟩ := r
    simp only
    split
    · exact he
    · exact (Eq.trans rfl (foldl_snap _ (capRemove_snap cfg i) victims s1)).trans he

theorem runMaintenance_snap (cfg : Cfg) (ops : PolicyOps P) (o : Oracle) (s : State P) :
    (s.runMaintenance cfg ops o).snap = s.snap := by
  unfold State.runMaintenance
  apply foldl_snap
  intro s i
  exact (cleanupCapacity_snap cfg ops o _ i).trans
    ((cleanupTti_snap cfg ops o _ i).trans
      ((cleanupTtl_snap cfg ops o _ i).trans (performShard_snap cfg ops o s i cfg.drainLimit)))

theorem flush_snap (cfg : Cfg) (ops : PolicyOps P) (o : Oracle) (s : State P) : (s.flush cfg ops o).snap = s.snap := by
  unfold State.flush
  split
  · apply foldl_snap; intro s i; exact performShard_snap cfg ops o s i U64
  · rfl

theorem opportunistic_snap (cfg : Cfg) (ops : PolicyOps P) (o : Oracle) (s : State P) (k : Nat) :
    (s.opportunistic cfg ops o k).snap = s.snap := by
  unfold State.opportunistic
  split
  · exact performShard_snap ..
  · rfl

/-- maintenance keeps the refinement (a sub-map of an agreeing map agrees) -/
theorem Agree.frame {s s' : State P} {sp : Spec} (h : Agree s sp) (hf : Frame s' s) (hs : s'.snap = s.snap) :
    Agree s' sp := h.of_sub hf.1 hs


/-! ### hits and single-key reads -/
theorem onHit_map (cfg : Cfg) (s : State P) (k : Nat) (e : Entry) :
    (s.onHit cfg k e).map = put s.map k (e.touch s.now cfg.tti) := by
  unfold State.onHit; dsimp only; split <;> rfl
theorem onHit_snap (cfg : Cfg) (s : State P) (k : Nat) (e : Entry) : (s.onHit cfg k e).snap = s.snap := by
  unfold State.onHit; dsimp only; split <;> rfl
theorem onHit_now (cfg : Cfg) (s : State P) (k : Nat) (e : Entry) : (s.onHit cfg k e).now = s.now := by
  unfold State.onHit; dsimp only; split <;> rfl

theorem Agree.onHit {s : State P} {sp : Spec} (h : Agree s sp) (cfg : Cfg) {k : Nat} {e : Entry}
    (he : lookup s.map k = some e) : Agree (s.onHit cfg k e) sp :=
  h.put_same (e := e.touch s.now cfg.tti) (by rw [touch_vid]; exact h.of_lookup he) (onHit_map ..) (onHit_snap ..)

theorem get_agree (cfg : Cfg) {s : State P} {sp : Spec} (k : Nat) (h : Agree s sp) :
    Agree (s.get cfg k).1 sp ∧ okRead sp.reg k (s.get cfg k).2 := by
  unfold State.get
  split
  · next e he =>
    split
    · exact ⟨h.of_eq rfl rfl, fun x hx => by cases hx⟩
    · exact ⟨(h.onHit cfg he).of_eq rfl rfl, fun x hx => by cases hx; exact h.of_lookup he⟩
  · exact ⟨h.of_eq rfl rfl, fun x hx => by cases hx⟩

/-- what `get` returns comes from `lookup` on the current map -/
theorem get_some (cfg : Cfg) (s : State P) (k v : Nat) (h : (s.get cfg k).2 = some v) :
    ∃ e, lookup s.map k = some e ∧ e.vid = v ∧ e.isExpired s.now cfg.tti = false := by
  unfold State.get at h
  split at h
  · next e he =>
    split at h
    · cases h
    · next hx => cases h; exact ⟨e, he, rfl, by simpa using hx⟩
  · cases h

theorem get_absent (cfg : Cfg) (s : State P) (k : Nat) (h : lookup s.map k = none) : (s.get cfg k).2 = none := by
  unfold State.get; rw [h]

theorem peek_ok (cfg : Cfg) {s : State P} {sp : Spec} (k : Nat) (h : Agree s sp) : okRead sp.reg k (s.peek cfg k) := by
  unfold State.peek
  split
  · next e he =>
    split
    · intro x hx; cases hx
    · intro x hx; cases hx; exact h.of_lookup he
  · intro x hx; cases hx

theorem peek_absent (cfg : Cfg) (s : State P) (k : Nat) (h : lookup s.map k = none) : s.peek cfg k = none := by
  unfold State.peek; rw [h]

/-! ### multiget -/
theorem addFound_mem {found : List (Nat × Nat)} {k v : Nat} {p : Nat × Nat} (hp : p ∈ addFound found k v) :
    p ∈ found ∨ p = (k, v) := by
  unfold addFound at hp
  split at hp
  · exact .inl hp
  · simpa using hp

theorem multigetSync_agree (cfg : Cfg) (sp : Spec) (ks0 : List Nat) :
    ∀ (ks : List Nat) (s : State P) (found : List (Nat × Nat)),
      Agree s sp → okPairs sp.reg found → (∀ p, p ∈ found → p.1 ∈ ks0) → (∀ k, k ∈ ks → k ∈ ks0) →
      Agree (multigetSync cfg s ks found).1 sp ∧ okPairs sp.reg (multigetSync cfg s ks found).2 ∧
        ∀ p, p ∈ (multigetSync cfg s ks found).2 → p.1 ∈ ks0 := by
  intro ks
  induction ks with
  | nil => intro s found h hf hk _; exact ⟨h, hf, hk⟩
  | cons k rest ih =>
    intro s found h hf hk hsub
    have hsub' : ∀ k, k ∈ rest → k ∈ ks0 := fun k hk' => hsub k (List.mem_cons_of_mem _ hk')
    unfold multigetSync
    split
    · next e he =>
      split
      · exact ih s found h hf hk hsub'
      · refine ih _ _ (h.onHit cfg he) ?_ ?_ hsub'
        · intro p hp
          rcases addFound_mem hp with hp | rfl
          · exact hf p hp
          · exact h.of_lookup he
        · intro p hp
          rcases addFound_mem hp with hp | rfl
          · exact hk p hp
          · exact hsub k List.mem_cons_self
    · exact ih s found h hf hk hsub'

theorem multigetAsync_agree (cfg : Cfg) (ops : PolicyOps P) (sp : Spec) (ks0 : List Nat) :
    ∀ (ks : List Nat) (s : State P) (found : List (Nat × Nat)),
      Agree s sp → okPairs sp.reg found → (∀ p, p ∈ found → p.1 ∈ ks0) → (∀ k, k ∈ ks → k ∈ ks0) →
      Agree (multigetAsync cfg ops s ks found).1 sp ∧ okPairs sp.reg (multigetAsync cfg ops s ks found).2 ∧
        ∀ p, p ∈ (multigetAsync cfg ops s ks found).2 → p.1 ∈ ks0 := by
  intro ks
  induction ks with
  | nil => intro s found h hf hk _; exact ⟨h, hf, hk⟩
  | cons k rest ih =>
    intro s found h hf hk hsub
    have hsub' : ∀ k, k ∈ rest → k ∈ ks0 := fun k hk' => hsub k (List.mem_cons_of_mem _ hk')
    unfold multigetAsync
    split
    · next e he =>
      split
      · exact ih s found h hf hk hsub'
      · refine ih _ _ ?_ ?_ ?_ hsub'
        · exact h.put_same (e := e.touch s.now cfg.tti) (by rw [touch_vid]; exact h.of_lookup he) rfl rfl
        · intro p hp
          rcases addFound_mem hp with hp | rfl
          · exact hf p hp
          · exact h.of_lookup he
        · intro p hp
          rcases addFound_mem hp with hp | rfl
          · exact hk p hp
          · exact hsub k List.mem_cons_self
    · exact ih s found h hf hk hsub'

theorem groupByShard_sub (cfg : Cfg) (ks : List Nat) : ∀ k, k ∈ groupByShard cfg ks → k ∈ ks := by
  intro k hk
  unfold groupByShard at hk
  rw [List.mem_flatMap] at hk
  obtain ⟨i, _, hi⟩ := hk
  exact (List.mem_filter.1 hi).1

/-! ### writes -/
/-- `insertCore` after the timer has been scheduled -/
def insertTail (cfg : Cfg) (k : Nat) (full : Bool) (s : State P) (e : Entry) : State P :=
  let i := cfg.shardOf k
  let old := lookup s.map k
  let s := { s with map := put s.map k e }
  let s := match old with
    | some o => (s.cancelTimer i o.timer).subCost o.cost
    | none => s
  let s := s.pushEvent cfg k e.cost
  let s := if full then
      { s with met := { s.met with inserts := s.met.inserts + 1, admitted := s.met.admitted + 1,
                                   totalCostAdded := s.met.totalCostAdded + e.cost } }
    else s
  s.addCost e.cost

theorem insertTail_map (cfg : Cfg) (k : Nat) (full : Bool) (s : State P) (e : Entry) :
    (insertTail cfg k full s e).map = put s.map k e ∧ (insertTail cfg k full s e).snap = s.snap ∧
      (insertTail cfg k full s e).now = s.now := by
  unfold insertTail
  cases lookup s.map k <;> cases full <;> exact ⟨rfl, rfl, rfl⟩

theorem insertCore_cases (cfg : Cfg) (s : State P) (k : Nat) (e : Entry) (td : Option Nat) (full : Bool) :
    ∃ s' e', s'.map = s.map ∧ s'.snap = s.snap ∧ s'.now = s.now ∧ e'.vid = e.vid ∧
      s.insertCore cfg k e td full = insertTail cfg k full s' e' := by
  cases hw : s.aux[cfg.shardOf k]?.bind (·.wheel) with
  | none => exact ⟨s, e, rfl, rfl, rfl, rfl, by simp only [State.insertCore, hw]; rfl⟩
  | some w =>
    cases td with
    | none => exact ⟨s, e, rfl, rfl, rfl, rfl, by simp only [State.insertCore, hw]; rfl⟩
    | some d =>
      exact ⟨s.modAux (cfg.shardOf k) (fun a => { a with wheel := some (w.schedule k d).1 }),
        { e with timer := some (w.schedule k d).2 }, rfl, rfl, rfl, rfl,
        by simp only [State.insertCore, hw]; rfl⟩

/-- the map after `insertCore`: `k` is re-bound to an entry with the inserted value id, every other
    binding is untouched; `snap` and the clock are untouched -/
theorem insertCore_map (cfg : Cfg) (s : State P) (k : Nat) (e : Entry) (td : Option Nat) (full : Bool) :
    ∃ e', e'.vid = e.vid ∧ (s.insertCore cfg k e td full).map = put s.map k e' ∧
      (s.insertCore cfg k e td full).snap = s.snap ∧ (s.insertCore cfg k e td full).now = s.now := by
  obtain ⟨s', e', hm, hs, hn, hv, heq⟩ := insertCore_cases cfg s k e td full
  obtain ⟨h1, h2, h3⟩ := insertTail_map cfg k full s' e'
  exact ⟨e', hv, by rw [heq, h1, hm], by rw [heq, h2, hs], by rw [heq, h3, hn]⟩

theorem insertCore_agree (cfg : Cfg) {s : State P} {sp : Spec} (k : Nat) (e : Entry) (td : Option Nat) (full : Bool)
    (h : Agree s sp) : Agree (s.insertCore cfg k e td full) { sp with reg := sp.reg.set k e.vid } := by
  obtain ⟨e', hv, hm, hs, _⟩ := insertCore_map cfg s k e td full
  rw [← hv]
  exact h.put_set hm hs

theorem multiInsert_agree (cfg : Cfg) :
    ∀ (items : List (Nat × Nat × Nat)) (s : State P) (sp : Spec), Agree s sp →
      Agree (items.foldl (fun s (it : Nat × Nat × Nat) =>
          s.insertCore cfg it.1 (Entry.mk' it.2.1 it.2.2 s.now cfg.ttl cfg.tti) cfg.ttl false) s)
        { sp with reg := sp.reg.setAll (items.map (fun it => (it.1, it.2.1))) } := by
  intro items
  induction items with
  | nil => intro s sp h; exact h
  | cons it rest ih =>
    intro s sp h
    exact ih _ _ (insertCore_agree cfg it.1 (Entry.mk' it.2.1 it.2.2 s.now cfg.ttl cfg.tti) cfg.ttl false h)

/-! ### removals -/
theorem removeKey_snap (cfg : Cfg) (ops : PolicyOps P) (s : State P) (k : Nat) :
    (s.removeKey cfg ops k).1.snap = s.snap := by
  unfold State.removeKey
  split
  · simp only [notify_snap, subCost_snap, polRemove_snap, cancelTimer_snap, logRemoved_snap]
  · rfl

theorem removeKey_cases (cfg : Cfg) (ops : PolicyOps P) (s : State P) (k : Nat) :
    (∃ e, lookup s.map k = some e ∧ (s.removeKey cfg ops k).1.map = erase s.map k ∧
        (s.removeKey cfg ops k).2 = some e.vid) ∨
    (lookup s.map k = none ∧ s.removeKey cfg ops k = (s, none)) := by
  unfold State.removeKey
  split
  · next e he =>
    refine .inl ⟨e, he, ?_, rfl⟩
    simp only [notify_map, subCost_map, polRemove_map, cancelTimer_map, logRemoved_map]
  · next hn => exact .inr ⟨hn, rfl⟩

/-- after `removeKey k` the key is not resident -/
theorem removeKey_absent (cfg : Cfg) (ops : PolicyOps P) (s : State P) (k : Nat) :
    lookup (s.removeKey cfg ops k).1.map k = none := by
  rcases removeKey_cases cfg ops s k with ⟨e, _, hm, _⟩ | ⟨hn, heq⟩
  · rw [hm]; exact lookup_erase_same _ _
  · rw [heq]; exact hn

/-- `removeKey k` leaves the bindings of the other keys untouched -/
theorem removeKey_other (cfg : Cfg) (ops : PolicyOps P) (s : State P) {k k' : Nat} (hk : k' ≠ k) :
    lookup (s.removeKey cfg ops k).1.map k' = lookup s.map k' := by
  rcases removeKey_cases cfg ops s k with ⟨e, _, hm, _⟩ | ⟨hn, heq⟩
  · rw [hm]; exact lookup_erase_other _ hk
  · rw [heq]

theorem removeKey_sub (cfg : Cfg) (ops : PolicyOps P) (s : State P) (k : Nat) :
    MapSub (s.removeKey cfg ops k).1.map (erase s.map k) := by
  rcases removeKey_cases cfg ops s k with ⟨e, _, hm, _⟩ | ⟨hn, heq⟩
  · rw [hm]; exact MapSub.refl _
  · rw [heq]
    intro p hp
    obtain ⟨k', e'⟩ := p
    refine mem_erase.2 ⟨hp, ?_⟩
    intro hkk
    subst hkk
    exact lookup_none_not_mem hn e' hp

theorem removeKey_agree (cfg : Cfg) (ops : PolicyOps P) {s : State P} {sp : Spec} (k : Nat) (h : Agree s sp) :
    Agree (s.removeKey cfg ops k).1 { sp with reg := sp.reg.unset k } ∧ okRead sp.reg k (s.removeKey cfg ops k).2 := by
  refine ⟨h.erase_unset (removeKey_sub cfg ops s k) (removeKey_snap cfg ops s k), ?_⟩
  rcases removeKey_cases cfg ops s k with ⟨e, he, _, hv⟩ | ⟨_, heq⟩
  · rw [hv]; intro x hx; cases hx; exact h.of_lookup he
  · rw [heq]; intro x hx; cases hx

theorem multiRemoveLoop_agree (cfg : Cfg) (ops : PolicyOps P) (ks0 : List Nat) :
    ∀ (ks : List Nat) (s : State P) (sp : Spec) (r0 : Reg) (acc : List (Nat × Nat)),
      Agree s sp → okPairs r0 acc → (∀ k v, sp.reg k = some v → r0 k = some v) →
      (∀ p, p ∈ acc → p.1 ∈ ks0) → (∀ k, k ∈ ks → k ∈ ks0) →
      Agree (multiRemoveLoop cfg ops s ks acc).1 { sp with reg := sp.reg.unsetAll ks } ∧
        okPairs r0 (multiRemoveLoop cfg ops s ks acc).2 ∧
        ∀ p, p ∈ (multiRemoveLoop cfg ops s ks acc).2 → p.1 ∈ ks0 := by
  intro ks
  induction ks with
  | nil => intro s sp r0 acc h ha _ hk _; exact ⟨h, ha, hk⟩
  | cons k rest ih =>
    intro s sp r0 acc h ha hr hk hsub
    have hsub' : ∀ k, k ∈ rest → k ∈ ks0 := fun k hk' => hsub k (List.mem_cons_of_mem _ hk')
    obtain ⟨hag, hok⟩ := removeKey_agree cfg ops k h
    have hr' : ∀ k' v, (sp.reg.unset k) k' = some v → r0 k' = some v := by
      intro k' v hv
      by_cases hkk : k' = k
      · subst hkk; simp at hv
      · rw [Reg.unset_other _ hkk] at hv; exact hr _ _ hv
    unfold multiRemoveLoop
    generalize s.removeKey cfg ops k = r at hag hok
    obtain ⟨s1, v⟩ := r
    cases v with
    | none => exact ih s1 _ r0 acc hag ha hr' hk hsub'
    | some v =>
      refine ih s1 _ r0 _ hag ?_ hr' ?_ hsub'
      · intro p hp
        rcases List.mem_append.1 hp with hp | hp
        · exact ha p hp
        · rw [List.mem_singleton.1 hp]; exact hr _ _ (hok v rfl)
      · intro p hp
        rcases List.mem_append.1 hp with hp | hp
        · exact hk p hp
        · rw [List.mem_singleton.1 hp]; exact hsub k List.mem_cons_self

/-- after `multi_remove ks` no key of `ks` is resident -/
theorem multiRemoveLoop_absent (cfg : Cfg) (ops : PolicyOps P) :
    ∀ (ks : List Nat) (s : State P) (acc : List (Nat × Nat)) (k : Nat),
      (k ∈ ks ∨ lookup s.map k = none) → lookup (multiRemoveLoop cfg ops s ks acc).1.map k = none := by
  intro ks
  induction ks with
  | nil =>
    intro s acc k h
    rcases h with h | h
    · cases h
    · exact h
  | cons a rest ih =>
    intro s acc k h
    have hnext : k ∈ rest ∨ lookup (s.removeKey cfg ops a).1.map k = none := by
      by_cases hka : k = a
      · subst hka; exact .inr (removeKey_absent cfg ops s k)
      · rcases h with h | h
        · cases h with
          | head => exact absurd rfl hka
          | tail _ h' => exact .inl h'
        · exact .inr (by rw [removeKey_other cfg ops s hka]; exact h)
    unfold multiRemoveLoop
    generalize s.removeKey cfg ops a = r at hnext
    obtain ⟨s1, v⟩ := r
    cases v with
    | none => exact ih s1 _ k hnext
    | some v => exact ih s1 _ k hnext

theorem logClearedAll_map : ∀ (l : List (Nat × Entry)) (s : State P), (logClearedAll s l).map = s.map ∧ (logClearedAll s l).snap = s.snap := by
  intro l
  induction l with
  | nil => intro s; exact ⟨rfl, rfl⟩
  | cons p rest ih =>
    intro s
    obtain ⟨k, e⟩ := p
    exact ih _

theorem clearAll_map (cfg : Cfg) (ops : PolicyOps P) (o : Oracle) (s : State P) : (s.clearAll cfg ops o).map = [] := by
  unfold State.clearAll
  exact foldl_map_eq (fun (s : State P) i => s.polClear ops i) (fun _ _ => rfl) _ _

theorem clearAll_snap (cfg : Cfg) (ops : PolicyOps P) (o : Oracle) (s : State P) : (s.clearAll cfg ops o).snap = s.snap := by
  unfold State.clearAll
  refine (foldl_snap (fun (s : State P) i => s.polClear ops i) (fun _ _ => rfl) _ _).trans ?_
  refine Eq.trans (b := (logClearedAll _ _).snap) rfl ?_
  refine ((logClearedAll_map _ _).2).trans ?_
  exact foldl_snap (fun (s : State P) i => (s.shardKeys cfg o.remHint i).foldl (fun s k => s.polRemove ops i k) s)
    (fun s i => foldl_snap (fun (s : State P) k => s.polRemove ops i k) (fun _ _ => rfl) _ _) _ _

/-! ### entry API / compute / fetch_with -/
theorem orInsert_cases (cfg : Cfg) (s : State P) (k vid cost : Nat) :
    (∃ e, lookup s.map k = some e ∧ s.orInsert cfg k vid cost = (s, .val (some e.vid))) ∨
    (lookup s.map k = none ∧ (s.orInsert cfg k vid cost).2 = .val (some vid) ∧
      (s.orInsert cfg k vid cost).1.map = put s.map k (Entry.mk' vid cost s.now cfg.ttl cfg.tti) ∧
      (s.orInsert cfg k vid cost).1.snap = s.snap) := by
  unfold State.orInsert
  split
  · next e he => exact .inl ⟨e, he, rfl⟩
  · next hn => exact .inr ⟨hn, rfl, rfl, rfl⟩

theorem compute_cases (s : State P) (k vid : Nat) :
    (lookup s.map k = none ∧ s.compute k vid = (s, .computed none)) ∨
    (∃ e, lookup s.map k = some e ∧ e.pinned = true ∧ s.compute k vid = (s, .computed (some none))) ∨
    (∃ e, lookup s.map k = some e ∧ e.pinned = false ∧
      s.compute k vid = ({ s with map := put s.map k { e with vid := vid },
                                  met := { s.met with updates := s.met.updates + 1 } }, .computed (some (some e.vid)))) := by
  unfold State.compute
  split
  · next hn => exact .inl ⟨hn, rfl⟩
  · next e he =>
    split
    · next hp => exact .inr (.inl ⟨e, he, hp, rfl⟩)
    · next hp => exact .inr (.inr ⟨e, he, by simpa using hp, rfl⟩)

theorem loadInsert_map (cfg : Cfg) (s : State P) (k vid cost : Nat) :
    (s.loadInsert cfg k vid cost).map = put s.map k (Entry.mk' vid cost s.now cfg.ttl cfg.tti) ∧
      (s.loadInsert cfg k vid cost).snap = s.snap := ⟨rfl, rfl⟩

/-- `fetch_with`: either a hit (the resident value of `k`, map re-bound to the touched entry), or the
    loader ran and `k` is re-bound to the loaded value — serving the loaded value, or (stale-while-revalidate)
    the previous value of `k` -/
theorem fetchWith_cases (cfg : Cfg) (s : State P) (k vid cost : Nat) :
    (∃ e, lookup s.map k = some e ∧ (s.fetchWith cfg k vid cost).2 = .loaded e.vid false false ∧
        (s.fetchWith cfg k vid cost).1.map = put s.map k (e.touch s.now cfg.tti) ∧
        (s.fetchWith cfg k vid cost).1.snap = s.snap) ∨
    ((s.fetchWith cfg k vid cost).2 = .loaded vid false true ∧
        (s.fetchWith cfg k vid cost).1.map = put s.map k (Entry.mk' vid cost s.now cfg.ttl cfg.tti) ∧
        (s.fetchWith cfg k vid cost).1.snap = s.snap) ∨
    (∃ e, lookup s.map k = some e ∧ (s.fetchWith cfg k vid cost).2 = .loaded e.vid true true ∧
        (s.fetchWith cfg k vid cost).1.map = put s.map k (Entry.mk' vid cost s.now cfg.ttl cfg.tti) ∧
        (s.fetchWith cfg k vid cost).1.snap = s.snap) := by
  unfold State.fetchWith
  dsimp only
  split
  · exact .inr (.inl ⟨rfl, rfl, rfl⟩)
  · next e he =>
    split
    · split
      · exact .inr (.inl ⟨rfl, rfl, rfl⟩)
      · exact .inl ⟨e, he, rfl, by simp only [hit_map, onHit_map], by simp only [hit_snap, onHit_snap]⟩
    · split
      · split
        · exact .inr (.inr ⟨e, he, rfl, rfl, rfl⟩)
        · exact .inr (.inl ⟨rfl, rfl, rfl⟩)
      · exact .inr (.inl ⟨rfl, rfl, rfl⟩)

/-! ### iterators -/
theorem liveOf_mem {m : List (Nat × Entry)} {now : Nat} {tti : Option Nat} {keys : List Nat} {p : Nat × Nat}
    (hp : p ∈ liveOf m now tti keys) : ∃ e, lookup m p.1 = some e ∧ e.vid = p.2 := by
  unfold liveOf at hp
  rw [List.mem_filterMap] at hp
  obtain ⟨k, _, hk⟩ := hp
  split at hk
  · next e he =>
    split at hk
    · cases hk
    · cases hk; exact ⟨e, he, rfl⟩
  · cases hk

theorem refillLoop_buffer (Q : Nat × Nat → Prop) (nshards batch : Nat) (keysOf : Nat → List Nat)
    (m : List (Nat × Entry)) (now : Nat) (tti : Option Nat)
    (hQ : ∀ keys p, p ∈ liveOf m now tti keys → Q p) :
    ∀ (fuel : Nat) (it : IterSt), (∀ p, p ∈ it.buffer → Q p) →
      ∀ p, p ∈ (refillLoop nshards batch keysOf m now tti fuel it).buffer → Q p := by
  intro fuel
  induction fuel with
  | zero => intro it h; exact h
  | succ n ih =>
    intro it h
    unfold refillLoop
    split
    · dsimp only
      split
      · exact ih _ h
      · apply ih
        intro p hp
        rcases List.mem_append.1 hp with hp | hp
        · exact h p hp
        · exact hQ _ p hp
    · exact h

theorem refill_buffer (Q : Nat × Nat → Prop) (nshards batch : Nat) (keysOf : Nat → List Nat)
    (m : List (Nat × Entry)) (now : Nat) (tti : Option Nat)
    (hQ : ∀ keys p, p ∈ liveOf m now tti keys → Q p) (it : IterSt) (h : ∀ p, p ∈ it.buffer → Q p) :
    ∀ p, p ∈ (refill nshards batch keysOf m now tti it).buffer → Q p := by
  unfold refill
  split
  · exact h
  · dsimp only
    split
    · exact refillLoop_buffer Q nshards batch keysOf m now tti hQ _ it h
    · exact refillLoop_buffer Q nshards batch keysOf m now tti hQ _ it h

theorem iterDrive_items (Q : Nat × Nat → Prop) (nshards batch : Nat) (keysOf : Nat → List Nat)
    (m : List (Nat × Entry)) (tti : Option Nat)
    (hQ : ∀ now keys p, p ∈ liveOf m now tti keys → Q p) :
    ∀ (fuel now : Nat) (inter : Option (Nat × Nat)) (it : IterSt) (acc : List (Nat × Nat)),
      (∀ p, p ∈ it.buffer → Q p) → (∀ p, p ∈ acc → Q p) →
      ∀ p, p ∈ (iterDrive nshards batch keysOf m tti fuel now inter it acc).2 → Q p := by
  intro fuel
  induction fuel with
  | zero => intro now inter it acc _ ha; exact ha
  | succ n ih =>
    intro now inter it acc hb ha
    have step : ∀ (now : Nat) (inter : Option (Nat × Nat)) (it' : IterSt) (x : Nat × Nat) (rest : List (Nat × Nat)),
        it'.buffer = x :: rest → (∀ p, p ∈ it'.buffer → Q p) →
        ∀ p, p ∈ (iterDrive nshards batch keysOf m tti n now inter { it' with buffer := rest } (acc ++ [x])).2 → Q p := by
      intro now inter it' x rest hbuf hb'
      apply ih
      · intro p hp; exact hb' p (by rw [hbuf]; exact List.mem_cons_of_mem _ hp)
      · intro p hp
        rcases List.mem_append.1 hp with hp | hp
        · exact ha p hp
        · rw [List.mem_singleton.1 hp]; exact hb' x (by rw [hbuf]; exact List.mem_cons_self)
    unfold iterDrive
    split
    next _ now' inter' _ =>
    split
    · next x rest hbuf => exact step _ _ it x rest hbuf hb
    · split
      · exact ha
      · dsimp only
        have hr := refill_buffer Q nshards batch keysOf m now' tti (hQ now') it hb
        split
        · next x rest hbuf => exact step _ _ _ x rest hbuf hr
        · exact ha

theorem snapDrive_agree (cfg : Cfg) (sp : Spec) :
    ∀ (keys : List Nat) (s : State P) (inter : Option (Nat × Nat)) (acc : List (Nat × Nat)),
      Agree s sp → okPairs sp.reg acc →
      Agree (snapDrive cfg s keys inter acc).1 sp ∧ okPairs sp.reg (snapDrive cfg s keys inter acc).2 := by
  intro keys
  induction keys with
  | nil =>
    intro s inter acc h ha
    unfold snapDrive
    split
    · split
      · exact ⟨h.of_eq rfl rfl, ha⟩
      · exact ⟨h, ha⟩
    · exact ⟨h, ha⟩
  | cons k rest ih =>
    intro s inter acc h ha
    have key : ∀ (s' : State P) (inter' : Option (Nat × Nat)), Agree s' sp →
        Agree (match s'.get cfg k with
            | (s, some v) => snapDrive cfg s rest inter' (acc ++ [(k, v)])
            | (s, none) => snapDrive cfg s rest inter' acc).1 sp ∧
          okPairs sp.reg (match s'.get cfg k with
            | (s, some v) => snapDrive cfg s rest inter' (acc ++ [(k, v)])
            | (s, none) => snapDrive cfg s rest inter' acc).2 := by
      intro s' inter' h'
      obtain ⟨hag, hok⟩ := get_agree cfg k h'
      generalize s'.get cfg k = r at hag hok
      obtain ⟨s1, v⟩ := r
      cases v with
      | none => exact ih s1 inter' acc hag ha
      | some v =>
        refine ih s1 inter' _ hag ?_
        intro p hp
        rcases List.mem_append.1 hp with hp | hp
        · exact ha p hp
        · rw [List.mem_singleton.1 hp]; exact hok v rfl
    unfold snapDrive
    split
    next s2 inter2 heq =>
    have h2 : Agree s2 sp := by
      split at heq
      · split at heq
        · cases heq; exact h.of_eq rfl rfl
        · cases heq; exact h
      · cases heq; exact h
    exact key s2 inter2 h2

/-! ### snapshot / restore -/
theorem snapshotOf_pairs (cfg : Cfg) (m : List (Nat × Entry)) (now : Nat) :
    ∀ p, p ∈ (snapshotOf cfg m now).pairs → ∃ e, (p.1, e) ∈ m ∧ e.vid = p.2 := by
  intro p hp
  unfold Snapshot.pairs snapshotOf at hp
  rw [List.mem_map] at hp
  obtain ⟨se, hse, rfl⟩ := hp
  rw [List.mem_filterMap] at hse
  obtain ⟨ke, hke, hf⟩ := hse
  obtain ⟨k, e⟩ := ke
  dsimp only at hf
  split at hf
  · cases hf
  · cases hf; exact ⟨e, hke, rfl⟩

theorem restoreMap_agree (cfg : Cfg) (now : Nat) :
    ∀ (ps : List SnapEntry) (m : List (Nat × Entry)) (r : Reg),
      (∀ k e, (k, e) ∈ m → r k = some e.vid) →
      ∀ k e, (k, e) ∈ restoreMap cfg now ps m → r.setAll (ps.map (fun p => (p.key, p.vid))) k = some e.vid := by
  intro ps
  induction ps with
  | nil => intro m r h; exact h
  | cons p rest ih =>
    intro m r h
    refine ih (put m p.key (restoredEntry cfg now p).2) (r.set p.key p.vid) ?_
    intro k e he
    rw [mem_put] at he
    cases he with
    | inl h1 => obtain ⟨rfl, rfl⟩ := h1; simp [restoredEntry]
    | inr h1 => rw [Reg.set_other _ _ h1.2]; exact h _ _ h1.1

theorem iterAll_agree (cfg : Cfg) (ops : PolicyOps P) (o : Oracle) {s : State P} {sp : Spec} (batch : Nat)
    (inter : Option (Nat × Nat)) (h : Agree s sp) :
    Agree (s.iterAll cfg ops o batch inter).1 sp ∧ okPairs sp.reg (s.iterAll cfg ops o batch inter).2 := by
  have hf : Agree (s.flush cfg ops o) sp := h.frame (flush_frame ..) (flush_snap ..)
  have hQ : ∀ (now : Nat) (keys : List Nat) (p : Nat × Nat),
      p ∈ liveOf (s.flush cfg ops o).map now cfg.tti keys → sp.reg p.1 = some p.2 := by
    intro now keys p hp
    obtain ⟨e, he, hv⟩ := liveOf_mem hp
    rw [← hv]; exact hf.of_lookup he
  unfold State.iterAll
  dsimp only
  refine ⟨hf.of_eq rfl rfl, ?_⟩
  intro p hp
  exact iterDrive_items (fun p => sp.reg p.1 = some p.2) _ _ _ _ _ hQ _ _ _ _ _
    (fun p hp => absurd hp List.not_mem_nil) (fun p hp => absurd hp List.not_mem_nil) p hp

theorem iterSnapshotAll_agree (cfg : Cfg) (ops : PolicyOps P) (o : Oracle) {s : State P} {sp : Spec}
    (inter : Option (Nat × Nat)) (h : Agree s sp) :
    Agree (s.iterSnapshotAll cfg ops o inter).1 sp ∧ okPairs sp.reg (s.iterSnapshotAll cfg ops o inter).2 := by
  have hf : Agree (s.flush cfg ops o) sp := h.frame (flush_frame ..) (flush_snap ..)
  unfold State.iterSnapshotAll
  exact snapDrive_agree cfg sp _ _ inter [] hf (fun p hp => absurd hp List.not_mem_nil)

theorem toSnapshot_agree (cfg : Cfg) (ops : PolicyOps P) (o : Oracle) {s : State P} {sp : Spec} (h : Agree s sp) :
    okPairs sp.reg (s.toSnapshot cfg ops o).2.pairs ∧
      Agree (s.toSnapshot cfg ops o).1 { sp with snap := some (s.toSnapshot cfg ops o).2.pairs } := by
  have hf : Agree (s.flush cfg ops o) sp := h.frame (flush_frame ..) (flush_snap ..)
  unfold State.toSnapshot
  dsimp only
  refine ⟨?_, hf.1, rfl⟩
  intro p hp
  obtain ⟨e, he, hv⟩ := snapshotOf_pairs cfg _ _ p hp
  rw [← hv]; exact hf.1 _ _ he

theorem restore_agree (cfg : Cfg) (p0 : P) (now : Nat) (sn : Snapshot) (sp : Spec) (hsp : sp.snap = some sn.pairs) :
    Agree (State.restore cfg p0 now sn) { sp with reg := Reg.ofPairs sn.pairs } :=
  ⟨restoreMap_agree cfg now sn.entries [] Reg.empty (fun _ _ h => absurd h List.not_mem_nil), hsp⟩

/-- the `hold` step after its `get` -/
def holdOf (k : Nat) (r : State P × Option Nat) : State P × Ret :=
  match r with
  | (s, some v) =>
    (match lookup s.map k with
     | some e => { s with map := put s.map k { e with pinned := true } }
     | none => s, .val (some v))
  | (s, none) => (s, .val none)

theorem holdOf_agree {sp : Spec} (k : Nat) (r : State P × Option Nat) (h : Agree r.1 sp) :
    Agree (holdOf k r).1 sp ∧ (holdOf k r).2 = .val r.2 := by
  obtain ⟨s1, v⟩ := r
  cases v with
  | none => exact ⟨h, rfl⟩
  | some v =>
    refine ⟨?_, rfl⟩
    unfold holdOf
    dsimp only
    split
    · next e he => exact h.put_same (e := { e with pinned := true }) (show sp.reg k = some e.vid from h.of_lookup he) rfl rfl
    · exact h

theorem release_agree {s : State P} {sp : Spec} (h : Agree s sp) :
    Agree { s with map := s.map.map (fun (k, e) => (k, { e with pinned := false })) } sp := by
  refine ⟨?_, h.2⟩
  intro k e he
  obtain ⟨a, hm, heq⟩ := List.mem_map.1 he
  obtain ⟨k', e'⟩ := a
  dsimp only at heq
  cases heq
  exact h.1 k e' hm

end Fv.Cache
