import Fv.Lemmas.SpmcBWakeS
/-! Wake-up invariants, parts 1 and 2: preservation by the steps of the receiver operations. -/
namespace Fv.Chan.SpmcB
open Fv.Chan.LeftRightB (upd upd_apply upd_same)

theorem witPC_congr {s s' : State} (h1 : s'.argm = s.argm) (h2 : s'.lr = s.lr) (h3 : s'.cur = s.cur) (h4 : s'.wq = s.wq)
    (h5 : s'.cap = s.cap) (h6 : s'.head = s.head) {q : SPC} (h : witPC s q) : witPC s' q := by
  cases q with
  | sScan k h0 i done todo m => cases m <;> simp only [witPC, State.pub, h1, h2, h3, h4, h5, h6] at * <;> first | trivial | exact h
  | sExit k h0 i L m => cases m <;> simp only [witPC, State.pub, h1, h2, h3, h4, h5, h6] at * <;> first | trivial | exact h
  | sHead2 k i L m => simp only [witPC, State.pub, h1, h2, h3, h4, h5, h6] at *; exact h
  | pPark x => simp only [witPC, State.pub, h1, h2, h3, h4, h5, h6] at *; exact h
  | _ => simp only [witPC]

theorem witPC_mono {s s' : State} (h1 : s'.argm = s.argm) (h2 : ∀ x, x ∈ s.pub → x ∈ s'.pub) (h3 : s'.cur = s.cur)
    (h4 : s'.wq = s.wq) (h5 : s'.cap = s.cap) (h6 : s'.head = s.head) {q : SPC} (h : witPC s q) : witPC s' q := by
  cases q with
  | sScan k h0 i done todo m =>
    cases m <;> simp only [witPC, h1, h3, h4, h5, h6] at * <;> first | trivial | skip
    intro hk; rcases h hk with ⟨a, b⟩ | w
    · exact Or.inl ⟨h2 _ a, b⟩
    · exact Or.inr w
  | sExit k h0 i L m =>
    cases m <;> simp only [witPC, h1, h3, h4, h5, h6] at * <;> first | trivial | skip
    intro hk; rcases h hk with ⟨a, b⟩ | w
    · exact Or.inl ⟨h2 _ a, b⟩
    · exact Or.inr w
  | sHead2 k i L m =>
    simp only [witPC, h1, h3, h4, h5, h6] at *
    intro hk; rcases h hk with ⟨a, b⟩ | w
    · exact Or.inl ⟨h2 _ a, b⟩
    · exact Or.inr w
  | pPark x =>
    simp only [witPC, h1, h3, h4, h5, h6] at *
    rcases h with ⟨a, b⟩ | w
    · exact Or.inl ⟨h2 _ a, b⟩
    · exact Or.inr w
  | _ => simp only [witPC]

theorem witPC_of_wq {s' : State} (h : s'.wq ≠ []) (q : SPC) : witPC s' q := by
  cases q with
  | sScan k h0 i done todo m => cases m <;> simp only [witPC] <;> first | trivial | exact fun _ => Or.inr h
  | sExit k h0 i L m => cases m <;> simp only [witPC] <;> first | trivial | exact fun _ => Or.inr h
  | sHead2 k i L m => simp only [witPC]; exact fun _ => Or.inr h
  | pPark x => simp only [witPC]; exact Or.inr h
  | _ => simp only [witPC]

theorem class_onEmpty (r x) : preCasPC (onEmpty r x) = false ∧ upkPC (onEmpty r x) = none ∧ csmPC (onEmpty r x) = false := by
  unfold onEmpty; repeat' split
  all_goals exact ⟨rfl, rfl, rfl⟩
theorem class_wkDone (k) : preCasPC (wkDone k) = false ∧ upkPC (wkDone k) = none ∧ csmPC (wkDone k) = false := by
  unfold wkDone; split <;> exact ⟨rfl, rfl, rfl⟩
theorem class_afterRPark (r x) : preCasPC (afterRPark r x) = false ∧ upkPC (afterRPark r x) = none ∧ csmPC (afterRPark r x) = false := by
  unfold afterRPark; split <;> exact ⟨rfl, rfl, rfl⟩

/-- a consumer joins `wq` -/
theorem invW1_wq_add {s s' : State} {t : Nat} {p : PC} (h : InvW1 s) (hpc : s'.pc = upd s.pc t p)
    (hwq : s'.wq = t :: s.wq) (hupk : s'.upk = s.upk) (hcsm : s'.csm = s.csm) (hflag : s'.flag = s.flag)
    (h0 : preCasPC (s.pc t) = false) (h1 : preCasPC p = true)
    (h2 : upkPC p = upkPC (s.pc t)) (h3 : csmPC p = csmPC (s.pc t)) : InvW1 s' := by
  obtain ⟨a1, a2, a3, a4, a5, a6⟩ := h
  have hnot : t ∉ s.wq := by intro hm; have := (a1 t).1 hm; rw [h0] at this; cases this
  refine ⟨?_, ?_, ?_, hupk ▸ a4, ?_, ?_⟩
  · intro u; rw [hwq, hpc]; simp only [upd_apply, List.mem_cons]; split
    · rename_i e; subst e; simp [h1]
    · rename_i e; rw [← a1 u]; simp [e]
  · rw [hwq]; exact List.nodup_cons.2 ⟨hnot, a2⟩
  · intro u q; rw [hupk, hpc]; simp only [upd_apply]; split
    · rename_i e; subst e; rw [h2]; exact a3 u q
    · exact a3 u q
  · intro u; rw [hcsm, hpc]; simp only [upd_apply]; split
    · rename_i e; subst e; rw [h3]; exact a5 u
    · exact a5 u
  · rw [hflag, hcsm]; exact a6

/-- a consumer leaves `wq` -/
theorem invW1_wq_del {s s' : State} {t : Nat} {p : PC} (h : InvW1 s) (hpc : s'.pc = upd s.pc t p)
    (hwq : s'.wq = s.wq.erase t) (hupk : s'.upk = s.upk) (hcsm : s'.csm = s.csm) (hflag : s'.flag = s.flag)
    (h1 : preCasPC p = false) (h2 : upkPC p = upkPC (s.pc t)) (h3 : csmPC p = csmPC (s.pc t)) : InvW1 s' := by
  obtain ⟨a1, a2, a3, a4, a5, a6⟩ := h
  refine ⟨?_, ?_, ?_, hupk ▸ a4, ?_, ?_⟩
  · intro u; rw [hwq, hpc]; simp only [upd_apply]; split
    · rename_i e; subst e; rw [h1]
      constructor
      · intro hm; exact absurd hm (List.Nodup.not_mem_erase a2)
      · intro hh; cases hh
    · rename_i e; rw [← a1 u]; exact List.mem_erase_of_ne e
  · rw [hwq]; exact a2.erase t
  · intro u q; rw [hupk, hpc]; simp only [upd_apply]; split
    · rename_i e; subst e; rw [h2]; exact a3 u q
    · exact a3 u q
  · intro u; rw [hcsm, hpc]; simp only [upd_apply]; split
    · rename_i e; subst e; rw [h3]; exact a5 u
    · exact a5 u
  · rw [hflag, hcsm]; exact a6


/-- plain receiver step: only the control state (and fields no part-1/2 invariant reads) changes,
and the thread stays outside / inside the pre-CAS section -/
theorem wakeP_R_plain {s s' : State} {t r : Nat} {q : RPC} {p' : PC} (hw : InvW s) (hq : s.pc t = .rcv r q)
    (hpc : s'.pc = upd s.pc t p') (hso : s'.sOwner = s.sOwner) (hp : okR r p')
    (hwq : s'.wq = s.wq) (hupk : s'.upk = s.upk) (hcsm : s'.csm = s.csm) (hflag : s'.flag = s.flag)
    (hpth : s'.pthread = s.pthread) (htok : ∀ u, u ≠ t → s.token u = true → s'.token u = true)
    (hargm : s'.argm = s.argm) (hlr : s'.lr = s.lr) (hcur : s'.cur = s.cur) (hcap : s'.cap = s.cap) (hhead : s'.head = s.head)
    (h1 : preCasPC p' = preCas q) (h2 : upkPC p' = none) (h3 : csmPC p' = false)
    (h2s : upkPC (.rcv r q) = none) (h3s : csmPC (.rcv r q) = false) : InvW1 s' ∧ InvW2 s' := by
  refine ⟨invW1_frame hw.w1 hpc hwq hupk hcsm (by rw [hflag]) (by rw [hq]; exact h1) (by rw [hq, h2, h2s]) (by rw [hq, h3, h3s]), ?_⟩
  refine invW2_R hw.w2 hq hpc hso hp hcap hflag hpth htok (fun u p h => Or.inl (hupk ▸ h)) ?_
    (fun q0 _ h => witPC_congr hargm hlr hcur hwq hcap hhead h)
  intro k th e
  rw [e] at h3; cases h3

syntax "plainR " ident ident : tactic
macro_rules | `(tactic| plainR $hw $hq) => `(tactic|
  exact wakeP_R_plain $hw $hq rfl rfl (by okR_tac) rfl rfl rfl rfl rfl (fun _ _ h => h) rfl rfl rfl rfl rfl
    (by first | rfl | exact (class_onEmpty _ _).1 | exact (class_wkDone _).1 | exact (class_afterRPark _ _).1)
    (by first | rfl | exact (class_onEmpty _ _).2.1 | exact (class_wkDone _).2.1 | exact (class_afterRPark _ _).2.1)
    (by first | rfl | exact (class_onEmpty _ _).2.2 | exact (class_wkDone _).2.2 | exact (class_afterRPark _ _).2.2)
    rfl rfl)

theorem wakeP_mMod {s s' : State} {t r : Nat} {k : MK} {p : LPC} (hl : LRI s) (hs : Safe s) (hw : InvW s)
    (hq : s.pc t = .rcv r (.mMod k p)) (h : stepMMod s t r k p = some s') : InvW1 s' ∧ InvW2 s' := by
  have hf := hs.rf t r _ hq
  have hst := hl.stage t
  simp only [hq, lrpc, lrpcR] at hst
  have hl2 : s.lr.live < 2 := hl.live2
  have hwr : isWr p = true := by cases k <;> simp only [rFact] at hf <;> first | exact hf.2.2.2.2 | exact hf.2.2.2.2
  -- generic step: the published list only grows and `wq` is unchanged
  have gen : ∀ (q' : RPC) (s1 : State), s1.pc = upd s.pc t (.rcv r q') → s1.sOwner = s.sOwner → s1.cap = s.cap →
      s1.flag = s.flag → s1.pthread = s.pthread → s1.token = s.token → s1.upk = s.upk → s1.wq = s.wq → s1.csm = s.csm →
      s1.argm = s.argm → s1.cur = s.cur → s1.head = s.head → (∀ x, x ∈ s.pub → x ∈ s1.pub) →
      preCas q' = preCas (.mMod k p) → upkPC (.rcv r q') = none → csmPC (.rcv r q') = false → InvW1 s1 ∧ InvW2 s1 := by
    intro q' s1 e1 e2 e3 e4 e5 e6 e7 e8 e9 e10 e11 e12 e13 c1 c2 c3
    refine ⟨invW1_frame hw.w1 e1 e8 e7 e9 (by rw [e4]) (by rw [hq]; exact c1) (by rw [hq, c2]; rfl) (by rw [hq, c3]; rfl), ?_⟩
    refine invW2_R hw.w2 hq e1 e2 (okR_rcv r q') e3 e4 e5 (fun _ _ h => e6 ▸ h) (fun _ _ h => Or.inl (e7 ▸ h)) ?_
      (fun q0 _ h => witPC_mono e10 e13 e11 e8 e3 e12 h)
    intro k' th e; cases e; cases c3
  unfold stepMMod at h
  cases p <;> simp only [isWr] at hwr <;> (first | cases hwr | skip) <;> simp only [lrLabel, LeftRightB.step] at h
  case wLock o =>
    by_cases hwl : s.lr.wlock = none
    · simp only [hwl, if_true] at h; cases h
      cases k <;> exact gen _ _ rfl rfl rfl rfl rfl rfl rfl rfl rfl rfl rfl rfl (fun _ h => h) rfl rfl rfl
    · simp only [hwl, if_false] at h; cases h
  case wLoad o =>
    cases h
    cases k <;> exact gen _ _ rfl rfl rfl rfl rfl rfl rfl rfl rfl rfl rfl rfl (fun _ h => h) rfl rfl rfl
  case wMut1 o l =>
    cases h
    simp only [LeftRightB.stageOK] at hst
    have hne : s.lr.live ≠ 1 - l := by omega
    have hpub : ∀ x, x ∈ s.pub → x ∈ upd s.lr.data (1 - l) (apL o (s.lr.data (1 - l))) s.lr.live := by
      intro x hx; simp only [upd_apply, if_neg hne]; exact hx
    cases k <;> exact gen _ _ rfl rfl rfl rfl rfl rfl rfl rfl rfl rfl rfl rfl hpub rfl rfl rfl
  case wPub o l =>
    cases h
    simp only [LeftRightB.stageOK] at hst
    obtain ⟨hlv, hd⟩ := hst
    cases k with
    | clone n =>
      simp only [rFact, opOf] at hf
      have := hf.2.2.1 o rfl; subst this
      refine gen _ _ rfl rfl rfl rfl rfl rfl rfl rfl rfl rfl rfl rfl ?_ rfl rfl rfl
      intro x hx
      show x ∈ s.lr.data (1 - l)
      rw [hd]; simp only [apL, List.mem_append]; left; rw [hlv]; exact hx
    | unreg =>
      have hne : (t :: s.wq) ≠ [] := by simp
      refine ⟨invW1_wq_add hw.w1 rfl rfl rfl rfl rfl (by rw [hq]; rfl) rfl (by rw [hq]; rfl) (by rw [hq]; rfl), ?_⟩
      refine invW2_R hw.w2 hq rfl rfl (okR_rcv r _) rfl rfl rfl (fun _ _ h => h) (fun _ _ h => Or.inl h) ?_
        (fun q0 _ _ => witPC_of_wq hne q0)
      intro k' th e; cases e
  case wWait o l =>
    by_cases hz : s.lr.readers l = 0
    · simp only [hz, if_true] at h; cases h
      cases k <;> exact gen _ _ rfl rfl rfl rfl rfl rfl rfl rfl rfl rfl rfl rfl (fun _ h => h) rfl rfl rfl
    · simp only [hz, if_false] at h; cases h
      cases k <;> exact gen _ _ rfl rfl rfl rfl rfl rfl rfl rfl rfl rfl rfl rfl (fun _ h => h) rfl rfl rfl
  case wSpin o l =>
    cases h
    cases k <;> exact gen _ _ rfl rfl rfl rfl rfl rfl rfl rfl rfl rfl rfl rfl (fun _ h => h) rfl rfl rfl
  case wMut2 o l =>
    cases h
    simp only [LeftRightB.stageOK] at hst
    have hne : s.lr.live ≠ l := by omega
    have hpub : ∀ x, x ∈ s.pub → x ∈ upd s.lr.data l (apL o (s.lr.data l)) s.lr.live := by
      intro x hx; simp only [upd_apply, if_neg hne]; exact hx
    cases k <;> exact gen _ _ rfl rfl rfl rfl rfl rfl rfl rfl rfl rfl rfl rfl hpub rfl rfl rfl
  case wUnlock =>
    cases h
    cases k <;> exact gen _ _ rfl rfl rfl rfl rfl rfl rfl rfl rfl rfl rfl rfl (fun _ h => h) rfl rfl rfl

theorem wakeP_actR {s s' : State} {t r : Nat} {p : RPC} (ha : InvA s) (hl : LRI s) (hs : Safe s) (hw : InvW s)
    (hq : s.pc t = .rcv r p) (h : actR s t r p = some s') : InvW1 s' ∧ InvW2 s' := by
  cases p <;> simp only [actR] at h
  case rFlag x => cases h; unfold stepRFlag; split <;> plainR hw hq
  case rCur x => cases h; unfold stepRCur; split <;> plainR hw hq
  case rSeq x c => cases h; unfold stepRSeq; split <;> plainR hw hq
  case rVal x c => cases h; plainR hw hq
  case rDrop x c => cases h; unfold stepRDrop; split <;> plainR hw hq
  case rHead x c => cases h; unfold stepRHead; split <;> plainR hw hq
  case bHd x c => cases h; unfold stepBHd; split <;> plainR hw hq
  case bDrop x c => cases h; unfold stepBDrop; split <;> plainR hw hq
  case bHd2 x c => cases h; unfold stepBHd2; split <;> plainR hw hq
  case bVals x c k => cases h; plainR hw hq
  case gCur x => cases h; plainR hw hq
  case gLock x c =>
    unfold stepGLock at h; split at h
    · cases h; plainR hw hq
    · cases h
  case gUnlock x c => cases h; plainR hw hq
  case eDrop x => cases h; unfold stepEDrop; split <;> plainR hw hq
  case eHead x => cases h; plainR hw hq
  case eCur x h0 =>
    cases h; unfold stepECur; repeat' split
    all_goals plainR hw hq
  case eLock x c =>
    unfold stepELock at h; split at h
    · cases h; plainR hw hq
    · cases h
  case eUnlock x c => cases h; plainR hw hq
  case kCur x => cases h; plainR hw hq
  case wpFence k => cases h; plainR hw hq
  case mLock k =>
    unfold stepMLock at h; split at h
    · cases h; cases k <;> plainR hw hq
    · cases h
  case mUnlock k => cases h; unfold stepMUnlock; split <;> plainR hw hq
  case xFlag d => cases h; unfold stepXFlag; split <;> plainR hw hq
  case qDrop => cases h; unfold stepQDrop; split <;> plainR hw hq
  case qHead p => cases h; plainR hw hq
  case qCur p h0 => cases h; plainR hw hq
  case rSt x c vs =>
    cases h
    have hne : (stepRSt s t r c vs).wq ≠ [] := by show t :: s.wq ≠ []; simp
    refine ⟨invW1_wq_add hw.w1 rfl rfl rfl rfl rfl (by rw [hq]; rfl) rfl (by rw [hq]; rfl) (by rw [hq]; rfl), ?_⟩
    refine invW2_R hw.w2 hq rfl rfl (by okR_tac) rfl rfl rfl (fun _ _ h => h) (fun _ _ h => Or.inl h) ?_
      (fun q0 _ _ => witPC_of_wq hne q0)
    intro k th e; cases e
  case kPark x =>
    unfold stepKPark at h; split at h
    · cases h
      have ⟨c1, c2, c3⟩ := class_afterRPark r x
      refine ⟨invW1_frame hw.w1 rfl rfl rfl rfl Iff.rfl (by rw [hq, c1]; rfl) (by rw [hq, c2]; rfl) (by rw [hq, c3]; rfl), ?_⟩
      refine invW2_R hw.w2 hq rfl rfl (by okR_tac) rfl rfl rfl ?_ (fun _ _ h => Or.inl h) ?_
        (fun q0 _ h => witPC_congr rfl rfl rfl rfl rfl rfl h)
      · intro u hut hu; show upd s.token t false u = true; simp only [upd_apply, if_neg hut]; exact hu
      · intro k th e; rw [e] at c3; cases c3
    · cases h
  case wpLoad k =>
    cases h; unfold stepWpLoad
    split
    · plainR hw hq
    · rename_i hf1
      have ⟨c1, c2, c3⟩ := class_wkDone k
      refine ⟨invW1_wq_del hw.w1 rfl rfl rfl rfl rfl c1 (by rw [hq, c2]; rfl) (by rw [hq, c3]; rfl), ?_⟩
      refine invW2_R hw.w2 hq rfl rfl (by okR_tac) rfl rfl rfl (fun _ _ h => h) (fun _ _ h => Or.inl h) ?_
        (fun q0 hf _ => absurd hf hf1)
      intro k' th e; rw [e] at c3; cases c3
  case wpCas k =>
    cases h; unfold stepWpCas
    split
    · rename_i hf1
      -- PARKED → CONSUMING: this thread takes the handle
      obtain ⟨a1, a2, a3, a4, a5, a6⟩ := hw.w1
      have hnocsm : s.csm = none := by
        cases hc : s.csm with
        | none => rfl
        | some u => have := a6.2 (by rw [hc]; simp); rw [hf1] at this; cases this
      refine ⟨⟨?_, a2.erase t, ?_, a4, ?_, ?_⟩, ?_⟩
      · intro u; show u ∈ s.wq.erase t ↔ preCasPC (upd s.pc t _ u) = true
        simp only [upd_apply]; split
        · rename_i e; subst e
          constructor
          · intro hm; exact absurd hm (List.Nodup.not_mem_erase a2)
          · intro hh; cases hh
        · rename_i e; rw [← a1 u]; exact List.mem_erase_of_ne e
      · intro u p; show (u, p) ∈ s.upk ↔ upkPC (upd s.pc t _ u) = some p
        simp only [upd_apply]; split
        · rename_i e; subst e
          have := a3 u p; rw [hq] at this; simpa [upkPC] using this
        · exact a3 u p
      · intro u; show some t = some u ↔ csmPC (upd s.pc t _ u) = true
        simp only [upd_apply]; split
        · rename_i e; subst e; simp [csmPC]
        · rename_i e
          have := a5 u; rw [hnocsm] at this
          constructor
          · intro hh; exact absurd (Option.some.inj hh).symm e
          · intro hh; have := this.2 hh; cases this
      · show (2 : Nat) = 2 ↔ some t ≠ none; simp
      · -- InvW2
        have same : ∀ u q', (stepWpCas s t r k).pc u = .snd q' → s.pc u = .snd q' ∧ u ≠ t := by
          intro u q' hh
          unfold stepWpCas at hh; rw [if_pos hf1] at hh
          have hh' : upd s.pc t (.rcv r (.wpIdle k s.pthread)) u = .snd q' := hh
          by_cases hut : u = t
          · subst hut; rw [upd_same] at hh'; cases hh'
          · simp only [upd_apply, if_neg hut] at hh'; exact ⟨hh', hut⟩
        have e0 : stepWpCas s t r k = { s.goR t r (.rcv r (.wpIdle k s.pthread)) with flag := 2, pthread := none, csm := some t, wq := s.wq.erase t } := by
          unfold stepWpCas; rw [if_pos hf1]
        rw [← e0]
        refine ⟨?_, ?_, ?_, ?_, ?_, ?_, ?_, ?_⟩
        · intro u q' _ hf; rw [e0] at hf; cases hf
        · intro hno
          have hno' : s.sOwner = none := by rw [e0] at hno; exact hno
          have := hw.w2.idle0 hno'; rw [hf1] at this; cases this
        · intro u q' hu _
          have := (hw.w2.parked u q' (same u q' hu).1 hf1).1
          cases q' <;> simp_all [armed2, armed1]
        · intro u r' k' th p q' hu hp
          have ⟨hp0, _⟩ := same p q' hp
          rw [e0] at hu
          have hu' : upd s.pc t (.rcv r (.wpIdle k s.pthread)) u = .rcv r' (.wpIdle k' th) := hu
          by_cases hut : u = t
          · subst hut; rw [upd_same] at hu'
            simp only [PC.rcv.injEq, RPC.wpIdle.injEq] at hu'
            obtain ⟨_, _, rfl⟩ := hu'
            exact (hw.w2.parked p q' hp0 hf1).2
          · simp only [upd_apply, if_neg hut] at hu'
            exact hw.w2.idle_th u r' k' th p q' hu' hp0
        · intro u q' _ _ hf; rw [e0] at hf; cases hf
        · intro u q' _ hf; rw [e0] at hf; cases hf
        · intro u q' hu; rw [e0]; exact hw.w2.kcap u q' (same u q' hu).1
        · intro u k' hu; exact hw.w2.shead u k' (same u _ hu).1
    · rename_i hf1
      have ⟨c1, c2, c3⟩ := class_wkDone k
      refine ⟨invW1_wq_del hw.w1 rfl rfl rfl rfl rfl c1 (by rw [hq, c2]; rfl) (by rw [hq, c3]; rfl), ?_⟩
      refine invW2_R hw.w2 hq rfl rfl (by okR_tac) rfl rfl rfl (fun _ _ h => h) (fun _ _ h => Or.inl h) ?_
        (fun q0 hf _ => absurd hf hf1)
      intro k' th e; rw [e] at c3; cases c3
  case wpIdle k th =>
    cases h
    obtain ⟨a1, a2, a3, a4, a5, a6⟩ := hw.w1
    have hcsm : s.csm = some t := (a5 t).2 (by rw [hq]; rfl)
    have hf2 : s.flag = 2 := a6.2 (by rw [hcsm]; simp)
    have uniq : ∀ u, csmPC (s.pc u) = true → u = t := by
      intro u hu; have := (a5 u).2 hu; rw [hcsm] at this; exact (Option.some.inj this).symm
    have hnot : ∀ p, (t, p) ∉ s.upk := by
      intro p hm; have := (a3 t p).1 hm; rw [hq] at this; cases this
    unfold stepWpIdle
    cases th with
    | none =>
      -- impossible when a sender thread exists; harmless otherwise
      have ⟨c1, c2, c3⟩ := class_wkDone k
      refine ⟨⟨?_, a2, ?_, a4, ?_, ?_⟩, ?_⟩
      · intro u; show u ∈ s.wq ↔ preCasPC (upd s.pc t (wkDone k) u) = true
        simp only [upd_apply]; split
        · rename_i e; subst e; rw [c1]; have := a1 u; rw [hq] at this; simpa [preCasPC, preCas] using this
        · exact a1 u
      · intro u p; show (u, p) ∈ s.upk ↔ upkPC (upd s.pc t (wkDone k) u) = some p
        simp only [upd_apply]; split
        · rename_i e; subst e; rw [c2]; have := a3 u p; rw [hq] at this; simpa [upkPC] using this
        · exact a3 u p
      · intro u; show (none : Option Nat) = some u ↔ csmPC (upd s.pc t (wkDone k) u) = true
        simp only [upd_apply]; split
        · rename_i e; subst e; rw [c3]; simp
        · rename_i e
          constructor
          · intro hh; cases hh
          · intro hh; exact absurd (uniq u hh) e
      · show (0 : Nat) = 2 ↔ (none : Option Nat) ≠ none; simp
      · have same : ∀ u q', upd s.pc t (wkDone k) u = .snd q' → s.pc u = .snd q' ∧ u ≠ t := by
          intro u q' hh
          by_cases hut : u = t
          · subst hut; rw [upd_same] at hh; exact absurd hh (okR_not_snd (okR_wkDone r k))
          · simp only [upd_apply, if_neg hut] at hh; exact ⟨hh, hut⟩
        refine ⟨?_, fun _ => rfl, ?_, ?_, ?_, ?_, ?_, ?_⟩
        · intro u q' _ hf; cases hf
        · intro u q' _ hf; cases hf
        · intro u r' k' th' p q' hu hp
          have hu' : upd s.pc t (wkDone k) u = .rcv r' (.wpIdle k' th') := hu
          by_cases hut : u = t
          · subst hut; rw [upd_same] at hu'; rw [hu'] at c3; cases c3
          · simp only [upd_apply, if_neg hut] at hu'
            exact absurd (uniq u (by rw [hu']; rfl)) hut
        · intro u q' hu _ _
          have ⟨h0, _⟩ := same u q' hu
          have := hw.w2.idle_th t r k none u q' hq h0
          cases this
        · intro u q' _ hf; cases hf
        · intro u q' hu; exact hw.w2.kcap u q' (same u q' hu).1
        · intro u k' hu; exact hw.w2.shead u k' (same u _ hu).1
    | some p =>
      refine ⟨⟨?_, a2, ?_, ?_, ?_, ?_⟩, ?_⟩
      · intro u; show u ∈ s.wq ↔ preCasPC (upd s.pc t (.rcv r (.wpUnpark k p)) u) = true
        simp only [upd_apply]; split
        · rename_i e; subst e; have := a1 u; rw [hq] at this; simpa [preCasPC, preCas] using this
        · exact a1 u
      · intro u p'; show (u, p') ∈ (t, p) :: s.upk ↔ upkPC (upd s.pc t (.rcv r (.wpUnpark k p)) u) = some p'
        simp only [upd_apply, List.mem_cons, Prod.mk.injEq]; split
        · rename_i e; subst e
          simp only [upkPC, Option.some.injEq, true_and]
          constructor
          · rintro (hh | hh)
            · exact hh.symm
            · exact absurd hh (hnot p')
          · intro hh; exact Or.inl hh.symm
        · rename_i e; rw [← a3 u p']; simp [e]
      · show ((t, p) :: s.upk).Nodup; exact List.nodup_cons.2 ⟨hnot p, a4⟩
      · intro u; show (none : Option Nat) = some u ↔ csmPC (upd s.pc t (.rcv r (.wpUnpark k p)) u) = true
        simp only [upd_apply]; split
        · rename_i e; subst e; simp [csmPC]
        · rename_i e
          constructor
          · intro hh; cases hh
          · intro hh; exact absurd (uniq u hh) e
      · show (0 : Nat) = 2 ↔ (none : Option Nat) ≠ none; simp
      · have same : ∀ u q', upd s.pc t (.rcv r (.wpUnpark k p)) u = .snd q' → s.pc u = .snd q' ∧ u ≠ t := by
          intro u q' hh
          by_cases hut : u = t
          · subst hut; rw [upd_same] at hh; cases hh
          · simp only [upd_apply, if_neg hut] at hh; exact ⟨hh, hut⟩
        refine ⟨?_, fun _ => rfl, ?_, ?_, ?_, ?_, ?_, ?_⟩
        · intro u q' _ hf; cases hf
        · intro u q' _ hf; cases hf
        · intro u r' k' th' p' q' hu hp
          have hu' : upd s.pc t (.rcv r (.wpUnpark k p)) u = .rcv r' (.wpIdle k' th') := hu
          by_cases hut : u = t
          · subst hut; rw [upd_same] at hu'; cases hu'
          · simp only [upd_apply, if_neg hut] at hu'
            exact absurd (uniq u (by rw [hu']; rfl)) hut
        · intro u q' hu _ _
          have ⟨h0, _⟩ := same u q' hu
          have := hw.w2.idle_th t r k (some p) u q' hq h0
          have e : p = u := Option.some.inj this
          subst e
          exact Or.inr ⟨t, by show (t, p) ∈ (t, p) :: s.upk; simp⟩
        · intro u q' _ hf; cases hf
        · intro u q' hu; exact hw.w2.kcap u q' (same u q' hu).1
        · intro u k' hu; exact hw.w2.shead u k' (same u _ hu).1
  case wpUnpark k th =>
    cases h
    have ⟨c1, c2, c3⟩ := class_wkDone k
    obtain ⟨a1, a2, a3, a4, a5, a6⟩ := hw.w1
    refine ⟨⟨?_, a2, ?_, a4.erase _, ?_, a6⟩, ?_⟩
    · intro u; show u ∈ s.wq ↔ preCasPC (upd s.pc t (wkDone k) u) = true
      simp only [upd_apply]; split
      · rename_i e; subst e; rw [c1]; have := a1 u; rw [hq] at this; simpa [preCasPC, preCas] using this
      · exact a1 u
    · intro u p; show (u, p) ∈ s.upk.erase (t, th) ↔ upkPC (upd s.pc t (wkDone k) u) = some p
      simp only [upd_apply]; split
      · rename_i e; subst e; rw [c2]
        constructor
        · intro hm
          have hm' := List.mem_of_mem_erase hm
          have := (a3 u p).1 hm'; rw [hq] at this; simp only [upkPC, Option.some.injEq] at this
          subst this; exact absurd hm (List.Nodup.not_mem_erase a4)
        · intro hh; cases hh
      · rename_i e; rw [← a3 u p]
        exact List.mem_erase_of_ne (by intro hh; exact e (Prod.mk.inj hh).1)
    · intro u; show s.csm = some u ↔ csmPC (upd s.pc t (wkDone k) u) = true
      simp only [upd_apply]; split
      · rename_i e; subst e; rw [c3]; have := a5 u; rw [hq] at this; simpa [csmPC] using this
      · exact a5 u
    · refine invW2_R hw.w2 hq rfl rfl (by okR_tac) rfl rfl rfl ?_ ?_ ?_
        (fun q0 _ h => witPC_congr rfl rfl rfl rfl rfl rfl h)
      · intro u _ hu; show upd s.token th true u = true; simp only [upd_apply]; split <;> simp [hu]
      · intro u p hm
        by_cases e : p = th
        · right; subst e; show upd s.token p true p = true; simp
        · left; exact List.mem_erase_of_ne (by intro hh; exact e (Prod.mk.inj hh).2) |>.2 hm
      · intro k' th' e; rw [e] at c3; cases c3
  case cCur =>
    cases h
    have hf := hs.rf t r _ hq
    refine ⟨invW1_frame hw.w1 rfl rfl rfl rfl Iff.rfl (by rw [hq]; rfl) (by rw [hq]; rfl) (by rw [hq]; rfl), ?_⟩
    refine invW2_R hw.w2 hq rfl rfl (by okR_tac) rfl rfl rfl (fun _ _ h => h) (fun _ _ h => Or.inl h) ?_ ?_
    · intro k th e; cases e
    · intro q0 _ h
      -- the fresh cell is not published: the witness cell keeps its cursor
      have key : s.argm ∈ s.pub → upd s.cur s.nextCell (s.cur r) s.argm = s.cur s.argm := by
        intro hm
        have := hs.g.cells s.lr.live s.argm hm
        simp only [upd_apply]; rw [if_neg]; exact Nat.ne_of_lt this
      cases q0 with
      | sScan k h0 i done todo m =>
        cases m <;> simp only [witPC] at h ⊢
        intro hk; rcases h hk with ⟨a, b⟩ | w
        · exact Or.inl ⟨a, by show upd s.cur s.nextCell (s.cur r) s.argm = _; rw [key a]; exact b⟩
        · exact Or.inr w
      | sExit k h0 i L m =>
        cases m <;> simp only [witPC] at h ⊢
        intro hk; rcases h hk with ⟨a, b⟩ | w
        · exact Or.inl ⟨a, by show upd s.cur s.nextCell (s.cur r) s.argm = _; rw [key a]; exact b⟩
        · exact Or.inr w
      | sHead2 k i L m =>
        simp only [witPC] at h ⊢
        intro hk; rcases h hk with ⟨a, b⟩ | w
        · exact Or.inl ⟨a, by show upd s.cur s.nextCell (s.cur r) s.argm = _; rw [key a]; exact b⟩
        · exact Or.inr w
      | pPark x =>
        simp only [witPC] at h ⊢
        rcases h with ⟨a, b⟩ | w
        · exact Or.inl ⟨a, by show upd s.cur s.nextCell (s.cur r) s.argm + s.cap ≤ s.head; rw [key a]; exact b⟩
        · exact Or.inr w
      | _ => simp only [witPC]
  case mMod k p => exact wakeP_mMod hl hs hw hq h

end Fv.Chan.SpmcB
