import Fv.Lemmas.ChanFinal
/-! Exact sequential outcome of `try_send` / `try_recv` on the buffered families. -/
namespace Fv.Chan
open List

theorem checksOwn_trySend (fam a) : checksOwn fam a .trySend = true := by
  cases fam <;> cases a <;> rfl

theorem supports_trySend {fam : Fam} (h1 : fam ≠ .rv) (h2 : fam ≠ .os) (a) : supportsForm fam a .trySend = true := by
  cases fam <;> simp_all [supportsForm]

theorem runPS_fin' (fl cfg fuel s o) : (runPS fl cfg fuel s (.fin o)).2.outOrBlocks = o := by
  rw [runPS_fin]; rfl

/-- `try_send` on a buffered channel, sequentially: the exact outcome. -/
theorem stepOp_trySend {fl : Flavour} (hrv : fl.fam ≠ .rv) (hos : fl.fam ≠ .os) (s : St) (h : HName) (v : Val)
    (hd : Handle) (hf : findH s.hs h = some hd) (hside : hd.name.side = .tx) :
    (stepOp fl s (.snd .trySend h [v])).2 =
      if hd.closed = true ∨ receiversGone fl s = true then { tag := .closed, back := [v] }
      else if full fl s = true then { tag := .full, back := [v] }
      else { tag := .ok, sent := [v] } := by
  unfold stepOp stepOpS
  simp only [Op.size, length_cons, length_nil]
  unfold runPS
  simp only [microDet, seqCfg, start, Bool.false_eq_true, false_and, if_false]
  unfold startSend
  simp only [hf, hside, Form.isSend, supports_trySend hrv hos]
  simp only [ne_eq, not_true_eq_false, Bool.not_true, Bool.false_eq_true, or_self, if_false]
  unfold startSendBuf sendPrelude
  simp only [Form.isBatch, Bool.not_false, if_true, checksOwn_trySend, firstHit, isEmpty_cons, Bool.false_eq_true, if_false]
  have hg : receiversGone fl (s.create [v]) = receiversGone fl s := by
    unfold receiversGone St.create; cases fl.fam <;> rfl
  by_cases hc : hd.closed = true
  · simp only [hc, if_true, true_or]
    simp only [failSend, reduceCtorEq, false_and, if_false]
    exact runPS_fin' ..
  · simp only [hc, if_false, false_or]
    by_cases hgone : receiversGone fl s = true
    · simp only [hgone, if_true]
      simp only [failSend, reduceCtorEq, false_and, if_false]
      exact runPS_fin' ..
    · simp only [hgone, if_false]
      unfold sendStep sendK sendQuota sendGran sendAvail
      simp only [Form.blocking, hg, hgone, Bool.false_eq_true, false_and, and_false, if_false, Bool.not_false,
        true_and, isEmpty_nil, Bool.not_true, false_or, length_cons, length_nil, Bool.false_and]
      have hroom : room fl (s.create [v]) = room fl s := by
        unfold room St.create; cases fl.fam <;> rfl
      rw [hroom]
      unfold full
      cases hr : room fl s with
      | none =>
        simp
        exact runPS_fin' ..
      | some r =>
        cases r with
        | zero =>
          simp
          unfold trySendEnd failSend
          simp
          exact runPS_fin' ..
        | succ r' =>
          simp
          exact runPS_fin' ..


theorem checksOwn_tryRecv (fam a) : checksOwn fam a .tryRecv = true := by
  cases fam <;> cases a <;> rfl

theorem supports_tryRecv {fam : Fam} (h1 : fam ≠ .rv) (h2 : fam ≠ .os) (a) : supportsForm fam a .tryRecv = true := by
  cases fam <;> simp_all [supportsForm]

/-- `try_recv` on a buffered channel, sequentially: the exact outcome. -/
theorem stepOp_tryRecv {fl : Flavour} (hrv : fl.fam ≠ .rv) (hos : fl.fam ≠ .os) (s : St) (h : HName)
    (hd : Handle) (hf : findH s.hs h = some hd) (hside : hd.name.side = .rx) :
    (stepOp fl s (.rcv .tryRecv h 0)).2 =
      if hd.closed = true then { tag := .disconnected }
      else match s.buf with
        | x :: _ => { tag := .ok, got := [x] }
        | [] => if s.sc = 0 then { tag := .disconnected } else { tag := .empty } := by
  unfold stepOp stepOpS
  simp only [Op.size]
  unfold runPS
  simp only [microDet, seqCfg, start]
  unfold startRecv
  simp only [hf, hside, Form.isSend, supports_tryRecv hrv hos]
  simp only [ne_eq, not_true_eq_false, Bool.not_true, Bool.false_eq_true, or_self, if_false]
  unfold recvPrelude
  simp only [Form.isBatch, Bool.not_false, if_true, checksOwn_tryRecv, firstHit]
  by_cases hc : hd.closed = true
  · simp only [hc, if_true]
    exact runPS_fin' ..
  · simp only [hc, if_false, Bool.false_eq_true]
    unfold recvStep recvK recvUnit recvWant emptyOutcome
    simp only [Form.isBatch, Bool.false_eq_true, false_and, if_false]
    cases hb : s.buf with
    | nil =>
      simp [sendersGone]
      by_cases hsc : s.sc = 0
      · simp [hsc]; exact runPS_fin' ..
      · simp [hsc]; exact runPS_fin' ..
    | cons x r =>
      simp
      exact runPS_fin' ..

end Fv.Chan
