import Fv.Lemmas.SpmcBBasic
/-! The left-right invariant holds of the instance embedded in `Fv.Chan.SpmcB`. -/
namespace Fv.Chan.SpmcB
open Fv.Chan.LeftRightB (upd upd_apply upd_same)

/-- the left-right invariant of the embedded instance -/
def LRI (s : State) : Prop := LeftRightB.Inv apL s.lr (fun t => lrpc (s.pc t))

theorem lrpc_upd (pc : Nat → PC) (t : Nat) (p : PC) :
    (fun u => lrpc (upd pc t p u)) = upd (fun u => lrpc (pc u)) t (lrpc p) := by
  funext u; simp only [upd_apply]; split <;> rfl

/-- a step that touches neither the left-right cells nor the thread's left-right control state -/
theorem lri_frame {s s' : State} {t : Nat} {p : PC} (hi : LRI s) (hlr : s'.lr = s.lr)
    (hpc : s'.pc = upd s.pc t p) (hp : lrpc p = lrpc (s.pc t)) : LRI s' := by
  unfold LRI at *
  rw [hlr, hpc, lrpc_upd, hp]
  have : upd (fun u => lrpc (s.pc u)) t (lrpc (s.pc t)) = fun u => lrpc (s.pc u) := by
    funext u; simp only [upd_apply]; split
    · rename_i e; rw [e]
    · rfl
  rw [this]; exact hi

/-- a step of the embedded left-right machine -/
theorem lri_step {s s' : State} {t : Nat} {p : PC} {l : LeftRightB.Label LOp} {lr' : LSh} {p' : LPC} (hi : LRI s)
    (hst : LeftRightB.step apL s.lr t (lrpc (s.pc t)) l = some (lr', p'))
    (hlr : s'.lr = lr') (hpc : s'.pc = upd s.pc t p) (hp : lrpc p = p') : LRI s' := by
  unfold LRI at *
  rw [hlr, hpc, lrpc_upd, hp]
  exact LeftRightB.inv_step apL hi hst

theorem lri_rBegin {s s' : State} {t : Nat} {p : PC} (hi : LRI s) (hidle : lrpc (s.pc t) = .idle)
    (hlr : s'.lr = s.lr) (hpc : s'.pc = upd s.pc t p) (hp : lrpc p = .rLoad) : LRI s' :=
  lri_step (l := .rBegin) hi (by rw [hidle]; rfl) hlr hpc hp

theorem lri_wBegin {s s' : State} {t : Nat} {p : PC} {o : LOp} (hi : LRI s) (hidle : lrpc (s.pc t) = .idle)
    (hlr : s'.lr = s.lr) (hpc : s'.pc = upd s.pc t p) (hp : lrpc p = .wLock o) : LRI s' :=
  lri_step (l := .wBegin o) hi (by rw [hidle]; rfl) hlr hpc hp

theorem lrpc_ret (res : Res) : lrpc (.ret res) = .idle := rfl
theorem lrpc_retryPC (x : SCtx) : lrpc (retryPC x) = .idle := by unfold retryPC; split <;> rfl
theorem lrpc_afterScan (cap k h L m) : lrpc (afterScan cap k h L m) = .idle := by
  unfold afterScan; repeat' split
  all_goals rfl
theorem lrpc_dkCont (d) : lrpc (dkCont d) = .idle := by
  unfold dkCont; split <;> first | rfl | apply lrpc_retryPC
theorem lrpc_afterWrite (x k) : lrpc (afterWrite x k) = .idle := by
  unfold afterWrite; repeat' split
  all_goals rfl
theorem lrpc_wakeOr (x k acc) : lrpc (wakeOr x k acc) = .idle := by
  unfold wakeOr; split <;> first | apply lrpc_afterWrite | rfl
theorem lrpc_afterPark (x) : lrpc (afterPark x) = .idle := by unfold afterPark; split <;> rfl
theorem lrpc_commitPC (k h i L) : lrpc (commitPC k h i L) = .rHold i L := by
  unfold commitPC; repeat' split
  all_goals simp [lrpc, lrpcS]
theorem lrpc_onEmpty (r x) : lrpc (onEmpty r x) = .idle := by
  unfold onEmpty; repeat' split
  all_goals rfl
theorem lrpc_wkDone (k) : lrpc (wkDone k) = .idle := by unfold wkDone; split <;> rfl
theorem lrpc_afterRPark (r x) : lrpc (afterRPark r x) = .idle := by unfold afterRPark; split <;> rfl

syntax "lrpc_tac" : tactic
macro_rules | `(tactic| lrpc_tac) => `(tactic|
  first | rfl | apply lrpc_retryPC | apply lrpc_afterScan | apply lrpc_dkCont | apply lrpc_afterWrite
        | apply lrpc_wakeOr | apply lrpc_afterPark | apply lrpc_onEmpty | apply lrpc_wkDone | apply lrpc_afterRPark)

/-- frame step from a control state whose embedded left-right state is idle -/
syntax "lri_idle " ident ident : tactic
macro_rules | `(tactic| lri_idle $hi $hpc) => `(tactic|
  exact lri_frame $hi rfl rfl (by rw [$hpc:ident]; show lrpc _ = LeftRightB.PC.idle; lrpc_tac))

theorem lri_actS {s s' : State} {t : Nat} {p : SPC} (hi : LRI s) (hpc : s.pc t = .snd p)
    (h : actS s t p = some s') : LRI s' := by
  cases p <;> simp only [actS] at h
  case sFlag x => cases h; unfold stepSFlag; split <;> lri_idle hi hpc
  case sHead k => cases h; exact lri_rBegin hi (by rw [hpc]; rfl) rfl rfl rfl
  case sEnter k h0 p =>
    unfold stepSEnter at h
    split at h
    · cases h
    · rename_i l hl
      split at h
      · cases h
      · rename_i lr' p' hst
        split at h
        · rename_i i L
          cases h
          exact lri_step hi (by rw [hpc]; exact hst) rfl rfl (lrpc_commitPC _ _ _ _)
        · cases h
          exact lri_step hi (by rw [hpc]; exact hst) rfl rfl rfl
  case sScan k h0 i done todo m =>
    unfold stepSScan at h
    repeat' split at h
    all_goals (cases h; try exact lri_frame hi rfl rfl (by rw [hpc]; simp [lrpc, lrpcS]))
  case sHead2 k i L m => cases h; exact lri_frame hi rfl rfl (by rw [hpc]; rfl)
  case sExit k h0 i L m =>
    unfold stepSExit at h
    split at h
    · cases h
    · rename_i lr' p' hst
      cases h
      have hp' : p' = .idle := by
        simp only [LeftRightB.step] at hst; cases hst; rfl
      subst hp'
      exact lri_step hi (by rw [hpc]; exact hst) rfl rfl (lrpc_afterScan _ _ _ _ _)
  case bHead x k => cases h; lri_idle hi hpc
  case wSeqLd x h0 j k => cases h; lri_idle hi hpc
  case wVal x h0 j k q => cases h; lri_idle hi hpc
  case wSeqSt x h0 j k => cases h; unfold stepWSeqSt; split <;> lri_idle hi hpc
  case wHeadSt x h0 k => cases h; lri_idle hi hpc
  case wLockW x h0 j k acc =>
    unfold stepWLockW at h
    split at h
    · cases h; lri_idle hi hpc
    · cases h
  case wUnlockW x h0 j k acc => cases h; unfold stepWUnlockW; split <;> lri_idle hi hpc
  case wWake x k acc =>
    unfold stepWWake at h
    split at h
    · cases h
    · cases h; lri_idle hi hpc
  case slHead x => cases h; lri_idle hi hpc
  case aStore x => cases h; lri_idle hi hpc
  case aFence x => cases h; exact lri_rBegin hi (by rw [hpc]; rfl) rfl rfl rfl
  case dCas d =>
    cases h; unfold stepDCas
    repeat' split
    all_goals lri_idle hi hpc
  case dSpin d => cases h; lri_idle hi hpc
  case dLoad x => cases h; unfold stepDLoad; split <;> lri_idle hi hpc
  case dSpin2 x => cases h; lri_idle hi hpc
  case pPark x =>
    unfold stepPPark at h
    split at h
    · cases h; lri_idle hi hpc
    · cases h
  case pHead x => cases h; lri_idle hi hpc
  case pLoad x => cases h; unfold stepPLoad; repeat' split
                  all_goals lri_idle hi hpc
  case pCas x => cases h; unfold stepPCas; split <;> lri_idle hi hpc
  case pSpin x => cases h; lri_idle hi hpc
  case cFlag d => cases h; unfold stepCFlag; split <;> lri_idle hi hpc
  case cStore => cases h; lri_idle hi hpc
  case cLock j =>
    unfold stepCLock at h
    split at h
    · cases h; split <;> lri_idle hi hpc
    · cases h
  case cWake j ws =>
    unfold stepCWake at h
    split at h
    · cases h
    · cases h; split <;> lri_idle hi hpc
  case cUnlock j => cases h; unfold stepCUnlock; split <;> lri_idle hi hpc


theorem lri_actR {s s' : State} {t r : Nat} {p : RPC} (hi : LRI s) (hpc : s.pc t = .rcv r p)
    (h : actR s t r p = some s') : LRI s' := by
  cases p <;> simp only [actR] at h
  case rFlag x => cases h; unfold stepRFlag; split <;> lri_idle hi hpc
  case rCur x => cases h; unfold stepRCur; split <;> lri_idle hi hpc
  case rSeq x c => cases h; unfold stepRSeq; split <;> lri_idle hi hpc
  case rVal x c => cases h; lri_idle hi hpc
  case rSt x c vs => cases h; lri_idle hi hpc
  case rDrop x c => cases h; unfold stepRDrop; split <;> lri_idle hi hpc
  case rHead x c => cases h; unfold stepRHead; split <;> lri_idle hi hpc
  case bHd x c => cases h; unfold stepBHd; split <;> lri_idle hi hpc
  case bDrop x c => cases h; unfold stepBDrop; split <;> lri_idle hi hpc
  case bHd2 x c => cases h; unfold stepBHd2; split <;> lri_idle hi hpc
  case bVals x c k => cases h; lri_idle hi hpc
  case gCur x => cases h; lri_idle hi hpc
  case gLock x c =>
    unfold stepGLock at h; split at h
    · cases h; lri_idle hi hpc
    · cases h
  case gUnlock x c => cases h; lri_idle hi hpc
  case eDrop x => cases h; unfold stepEDrop; split <;> lri_idle hi hpc
  case eHead x => cases h; lri_idle hi hpc
  case eCur x h0 =>
    cases h; unfold stepECur; repeat' split
    all_goals lri_idle hi hpc
  case eLock x c =>
    unfold stepELock at h; split at h
    · cases h; lri_idle hi hpc
    · cases h
  case eUnlock x c => cases h; lri_idle hi hpc
  case kPark x =>
    unfold stepKPark at h; split at h
    · cases h; lri_idle hi hpc
    · cases h
  case kCur x => cases h; lri_idle hi hpc
  case wpFence k => cases h; lri_idle hi hpc
  case wpLoad k => cases h; unfold stepWpLoad; split <;> lri_idle hi hpc
  case wpCas k => cases h; unfold stepWpCas; split <;> lri_idle hi hpc
  case wpIdle k th => cases h; unfold stepWpIdle; split <;> lri_idle hi hpc
  case wpUnpark k th => cases h; lri_idle hi hpc
  case cCur => cases h; lri_idle hi hpc
  case mLock k =>
    unfold stepMLock at h; split at h
    · cases h; exact lri_wBegin hi (by rw [hpc]; rfl) rfl rfl rfl
    · cases h
  case mMod k p =>
    unfold stepMMod at h
    split at h
    · cases h
    · rename_i l hl
      split at h
      · cases h
      · rename_i lr' p' hst
        split at h
        · cases h
          exact lri_step hi (by rw [hpc]; exact hst) rfl rfl rfl
        · cases h
          exact lri_step hi (by rw [hpc]; exact hst) rfl rfl rfl
  case mUnlock k => cases h; unfold stepMUnlock; split <;> lri_idle hi hpc
  case xFlag d => cases h; unfold stepXFlag; split <;> lri_idle hi hpc
  case qDrop => cases h; unfold stepQDrop; split <;> lri_idle hi hpc
  case qHead p => cases h; lri_idle hi hpc
  case qCur p h0 => cases h; lri_idle hi hpc

theorem lri_act {s s' : State} {t : Nat} (hi : LRI s) (h : act s t = some s') : LRI s' := by
  unfold act at h
  split at h
  · cases h
  · cases h
  · rename_i p hpc; exact lri_actS hi hpc h
  · rename_i r p hpc; exact lri_actR hi hpc h

theorem lrpc_free {p : PC} (h : isFree p = true) : lrpc p = .idle := by
  cases p <;> simp_all [isFree, lrpc]

theorem lri_call {s s' : State} {t : Nat} {op : Op} (hi : LRI s) (h : stepCall s t op = some s') : LRI s' := by
  unfold stepCall at h
  split at h
  · rename_i hc
    simp only [Bool.and_eq_true] at hc
    obtain ⟨hfree, _⟩ := hc
    have hidle := lrpc_free hfree
    cases op <;> simp only [] at h
    all_goals (repeat' split at h)
    all_goals (cases h)
    all_goals first
      | exact lri_frame hi rfl rfl (by rw [hidle]; rfl)
      | exact lri_rBegin hi hidle rfl rfl rfl
  · cases h

theorem lri_spurious {s s' : State} {t : Nat} (hi : LRI s) (h : stepSpurious s t = some s') : LRI s' := by
  unfold stepSpurious at h
  split at h
  · rename_i x hpc; cases h; lri_idle hi hpc
  · rename_i r x hpc; cases h; lri_idle hi hpc
  · cases h

theorem lri_teardown {s s' : State} (hi : LRI s) (h : stepTeardown s = some s') : LRI s' := by
  unfold stepTeardown at h
  split at h
  · cases h; exact hi
  · cases h

theorem lri_init (cap : Nat) : LRI (init cap) := by
  unfold LRI
  constructor <;> simp [init, lrpc, LeftRightB.onCopy, LeftRightB.inW, LeftRightB.stageOK]

theorem lri_step' {s s' : State} {t : Nat} {l : Label} (hi : LRI s) (h : step s t l = some s') : LRI s' := by
  cases l <;> simp only [step] at h
  · exact lri_call hi h
  · exact lri_act hi h
  · exact lri_spurious hi h
  · exact lri_teardown hi h

theorem lri_reach {cap : Nat} {s : State} (h : Reach cap s) : LRI s := by
  induction h with
  | init => exact lri_init cap
  | step _ hs ih => exact lri_step' ih hs

end Fv.Chan.SpmcB
