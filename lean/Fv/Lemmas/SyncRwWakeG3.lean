import Fv.Lemmas.SyncRwWakeL2
/-!
Wake invariant of the rwlock model: `PW1` for heap nodes (part of `w1_step`, see `SyncRwWakeA.lean`).
-/
namespace Fv.Sync.RwLock
open Fv.Sync
variable {cfg : Cfg} {s s' : State} {t : Tid} {l : Lbl}

set_option maxHeartbeats 32000000 in
theorem w1_fut (hi : Inv s) (hw : WInv s) (h : Step cfg s t l s') :
    ∀ f w, (s'.wl.node (.fut f)).linked = true → (s'.wl.node (.fut f)).waiter = some w →
      Targets s' w (.fut f) := by
  intro f w
  have a1 := hi.syncCur t; have a2 := hi.asyncCur t; have a5 := hi.ffOk t
  have b0 := hw.boc t
  have b2 := hw.qw t
  have b3 := hi.futNode f
  have b4 := hi.phNode t; have b5 := hi.futUnl t; have b6 := hi.phFresh t; have b7 := hi.phStarted t
  have c := hw.w1 (.fut f) w
  clear hi hw
  cases w
  all_goals (unfold Targets at c ⊢; simp only at c ⊢)
  all_goals step_cases h
  all_goals (try simp only [myWaiter] at *)
  all_goals (try norm_state)
  all_goals (first | exact c | wg)

end Fv.Sync.RwLock
