import Fv.Lemmas.Mpmc2BWakeR
/-! Assignment group `InvA` of the mpmc v2 wake-up invariants: the ghost lists `ar` / `asg` of woken,
not yet re-entered receivers / senders, and Q1 / Q2 of DESIGN Appendix A.5. Needs `Benign` (no future
is dropped between wake and next poll). Generated boilerplate, one lemma per step function. -/
namespace Fv.Chan.Mpmc2B
set_option linter.unusedVariables false

structure InvA (s : State) : Prop where
  a1 : ∀ r, r ∈ s.ar → s.st r = .success ∧ wokenRecv (s.pc (s.owner r)) = some r
  b1 : ∀ r, r ∈ s.asg → s.st r = .success ∧ wokenSend (s.pc (s.owner r)) = some r
  a2 : s.ar.Nodup
  b2 : s.asg.Nodup
  q1 : ∀ r, r ∈ s.wsr ∨ r ∈ s.war → s.st r = .waiting → s.queue.length ≤ s.ar.length
  q2 : ∀ r, r ∈ s.wss ∨ r ∈ s.was → s.st r = .waiting → s.cap - s.queue.length ≤ s.asg.length
  fl_s : ∀ t v r, s.pc t = .sUnl v r true → s.st r = .closed
  fl_a : ∀ t v r, s.pc t = .asUnl v r true → s.st r = .closed

theorem invA_init (cap : Nat) : InvA (init cap) := by
  constructor <;> simp [init]

theorem length_erase_ge' (l : List Nat) (a : Nat) : l.length ≤ (l.erase a).length + 1 := length_erase_ge l a
grind_pattern length_erase_ge' => (l.erase a).length

attribute [local grind] recOf sendSide recvFutRec unregA regAtR regAtS wokenRecv wokenSend
attribute [local grind =] nodup_snoc upd_apply bump_apply List.Nodup.mem_erase_iff
attribute [local grind →] firstW_some firstW_none' frontW_some List.mem_of_mem_erase recvFutRec_recOf unregA_recOf
  regAtR_recOf regAtS_recOf wokenRecv_recOf wokenSend_recOf regAtR_woken regAtS_woken
attribute [local grind ←] List.Nodup.erase nodup_filter

theorem invA_sTry {s : State} {t : Nat} {v : Nat} {r : Nat} (hk : InvK s) (hr : InvR s) (hi : InvA s) (hpc : s.pc t = .sTry v r) : InvA (stepSTry s t v r) := by
  obtain ⟨hk1, hk2, hk3, hk4, hk5, hk6, hk7, hk8⟩ := hk
  obtain ⟨hr1, hr2, hr3, hr4, hr5, hr6, hr7, hr8⟩ := hr
  obtain ⟨h1, h2, h3, h4, h5, h6, h7, h8⟩ := hi
  unfold stepSTry
  repeat' split
  wk_close

theorem invA_sReg {s : State} {t : Nat} {v : Nat} {r : Nat} (hk : InvK s) (hr : InvR s) (hi : InvA s) (hpc : s.pc t = .sReg v r) : InvA (stepSReg s t v r) := by
  obtain ⟨hk1, hk2, hk3, hk4, hk5, hk6, hk7, hk8⟩ := hk
  obtain ⟨hr1, hr2, hr3, hr4, hr5, hr6, hr7, hr8⟩ := hr
  obtain ⟨h1, h2, h3, h4, h5, h6, h7, h8⟩ := hi
  unfold stepSReg
  repeat' split
  wk_close

theorem invA_sWait {s : State} {t : Nat} {v : Nat} {r : Nat} (hk : InvK s) (hr : InvR s) (hi : InvA s) (hpc : s.pc t = .sWait v r) : InvA (stepSWait s t v r) := by
  obtain ⟨hk1, hk2, hk3, hk4, hk5, hk6, hk7, hk8⟩ := hk
  obtain ⟨hr1, hr2, hr3, hr4, hr5, hr6, hr7, hr8⟩ := hr
  obtain ⟨h1, h2, h3, h4, h5, h6, h7, h8⟩ := hi
  unfold stepSWait
  repeat' split
  wk_close

theorem invA_sUnl {s : State} {t : Nat} {v : Nat} {r : Nat} {c : Bool} (hk : InvK s) (hr : InvR s) (hi : InvA s) (hpc : s.pc t = .sUnl v r c) : InvA (stepSUnl s t v r c) := by
  obtain ⟨hk1, hk2, hk3, hk4, hk5, hk6, hk7, hk8⟩ := hk
  obtain ⟨hr1, hr2, hr3, hr4, hr5, hr6, hr7, hr8⟩ := hr
  obtain ⟨h1, h2, h3, h4, h5, h6, h7, h8⟩ := hi
  unfold stepSUnl
  repeat' split
  wk_close

theorem invA_tsTry {s : State} {t : Nat} {v : Nat} (hk : InvK s) (hr : InvR s) (hi : InvA s) (hpc : s.pc t = .tsTry v) : InvA (stepTsTry s t v) := by
  obtain ⟨hk1, hk2, hk3, hk4, hk5, hk6, hk7, hk8⟩ := hk
  obtain ⟨hr1, hr2, hr3, hr4, hr5, hr6, hr7, hr8⟩ := hr
  obtain ⟨h1, h2, h3, h4, h5, h6, h7, h8⟩ := hi
  unfold stepTsTry
  repeat' split
  wk_close

theorem invA_rTry {s : State} {t : Nat} {r : Nat} (hk : InvK s) (hr : InvR s) (hi : InvA s) (hpc : s.pc t = .rTry r) : InvA (stepRTry s t r) := by
  obtain ⟨hk1, hk2, hk3, hk4, hk5, hk6, hk7, hk8⟩ := hk
  obtain ⟨hr1, hr2, hr3, hr4, hr5, hr6, hr7, hr8⟩ := hr
  obtain ⟨h1, h2, h3, h4, h5, h6, h7, h8⟩ := hi
  unfold stepRTry
  repeat' split
  wk_close

theorem invA_rReg {s : State} {t : Nat} {r : Nat} (hk : InvK s) (hr : InvR s) (hi : InvA s) (hpc : s.pc t = .rReg r) : InvA (stepRReg s t r) := by
  obtain ⟨hk1, hk2, hk3, hk4, hk5, hk6, hk7, hk8⟩ := hk
  obtain ⟨hr1, hr2, hr3, hr4, hr5, hr6, hr7, hr8⟩ := hr
  obtain ⟨h1, h2, h3, h4, h5, h6, h7, h8⟩ := hi
  unfold stepRReg
  repeat' split
  wk_close

theorem invA_rWait {s : State} {t : Nat} {r : Nat} (hk : InvK s) (hr : InvR s) (hi : InvA s) (hpc : s.pc t = .rWait r) : InvA (stepRWait s t r) := by
  obtain ⟨hk1, hk2, hk3, hk4, hk5, hk6, hk7, hk8⟩ := hk
  obtain ⟨hr1, hr2, hr3, hr4, hr5, hr6, hr7, hr8⟩ := hr
  obtain ⟨h1, h2, h3, h4, h5, h6, h7, h8⟩ := hi
  unfold stepRWait
  repeat' split
  wk_close

theorem invA_rUnl {s : State} {t : Nat} {r : Nat} (hk : InvK s) (hr : InvR s) (hi : InvA s) (hpc : s.pc t = .rUnl r) : InvA (stepRUnl s t r) := by
  obtain ⟨hk1, hk2, hk3, hk4, hk5, hk6, hk7, hk8⟩ := hk
  obtain ⟨hr1, hr2, hr3, hr4, hr5, hr6, hr7, hr8⟩ := hr
  obtain ⟨h1, h2, h3, h4, h5, h6, h7, h8⟩ := hi
  unfold stepRUnl
  repeat' split
  wk_close

theorem invA_trTry {s : State} {t : Nat} (hk : InvK s) (hr : InvR s) (hi : InvA s) (hpc : s.pc t = .trTry) : InvA (stepTrTry s t ) := by
  obtain ⟨hk1, hk2, hk3, hk4, hk5, hk6, hk7, hk8⟩ := hk
  obtain ⟨hr1, hr2, hr3, hr4, hr5, hr6, hr7, hr8⟩ := hr
  obtain ⟨h1, h2, h3, h4, h5, h6, h7, h8⟩ := hi
  unfold stepTrTry
  repeat' split
  wk_close

theorem invA_toTry {s : State} {t : Nat} {r : Nat} (hk : InvK s) (hr : InvR s) (hi : InvA s) (hpc : s.pc t = .toTry r) : InvA (stepToTry s t r) := by
  obtain ⟨hk1, hk2, hk3, hk4, hk5, hk6, hk7, hk8⟩ := hk
  obtain ⟨hr1, hr2, hr3, hr4, hr5, hr6, hr7, hr8⟩ := hr
  obtain ⟨h1, h2, h3, h4, h5, h6, h7, h8⟩ := hi
  unfold stepToTry
  repeat' split
  wk_close

theorem invA_toReg {s : State} {t : Nat} {r : Nat} (hk : InvK s) (hr : InvR s) (hi : InvA s) (hpc : s.pc t = .toReg r) : InvA (stepToReg s t r) := by
  obtain ⟨hk1, hk2, hk3, hk4, hk5, hk6, hk7, hk8⟩ := hk
  obtain ⟨hr1, hr2, hr3, hr4, hr5, hr6, hr7, hr8⟩ := hr
  obtain ⟨h1, h2, h3, h4, h5, h6, h7, h8⟩ := hi
  unfold stepToReg
  repeat' split
  wk_close

theorem invA_toRetry {s : State} {t : Nat} {r : Nat} (hk : InvK s) (hr : InvR s) (hi : InvA s) (hpc : s.pc t = .toRetry r) : InvA (stepToRetry s t r) := by
  obtain ⟨hk1, hk2, hk3, hk4, hk5, hk6, hk7, hk8⟩ := hk
  obtain ⟨hr1, hr2, hr3, hr4, hr5, hr6, hr7, hr8⟩ := hr
  obtain ⟨h1, h2, h3, h4, h5, h6, h7, h8⟩ := hi
  unfold stepToRetry
  repeat' split
  wk_close

theorem invA_toCas {s : State} {t : Nat} {r : Nat} (hk : InvK s) (hr : InvR s) (hi : InvA s) (hpc : s.pc t = .toCas r) : InvA (stepToCas s t r) := by
  obtain ⟨hk1, hk2, hk3, hk4, hk5, hk6, hk7, hk8⟩ := hk
  obtain ⟨hr1, hr2, hr3, hr4, hr5, hr6, hr7, hr8⟩ := hr
  obtain ⟨h1, h2, h3, h4, h5, h6, h7, h8⟩ := hi
  unfold stepToCas
  repeat' split
  wk_close

theorem invA_toUnl {s : State} {t : Nat} {r : Nat} (hk : InvK s) (hr : InvR s) (hi : InvA s) (hpc : s.pc t = .toUnl r) : InvA (stepToUnl s t r) := by
  obtain ⟨hk1, hk2, hk3, hk4, hk5, hk6, hk7, hk8⟩ := hk
  obtain ⟨hr1, hr2, hr3, hr4, hr5, hr6, hr7, hr8⟩ := hr
  obtain ⟨h1, h2, h3, h4, h5, h6, h7, h8⟩ := hi
  unfold stepToUnl
  repeat' split
  wk_close

theorem invA_toFin {s : State} {t : Nat} {r : Nat} (hk : InvK s) (hr : InvR s) (hi : InvA s) (hpc : s.pc t = .toFin r) : InvA (stepToFin s t r) := by
  obtain ⟨hk1, hk2, hk3, hk4, hk5, hk6, hk7, hk8⟩ := hk
  obtain ⟨hr1, hr2, hr3, hr4, hr5, hr6, hr7, hr8⟩ := hr
  obtain ⟨h1, h2, h3, h4, h5, h6, h7, h8⟩ := hi
  unfold stepToFin
  repeat' split
  wk_close

theorem invA_asTry {s : State} {t : Nat} {v : Nat} {r : Nat} (hk : InvK s) (hr : InvR s) (hi : InvA s) (hpc : s.pc t = .asTry v r) : InvA (stepAsTry s t v r) := by
  obtain ⟨hk1, hk2, hk3, hk4, hk5, hk6, hk7, hk8⟩ := hk
  obtain ⟨hr1, hr2, hr3, hr4, hr5, hr6, hr7, hr8⟩ := hr
  obtain ⟨h1, h2, h3, h4, h5, h6, h7, h8⟩ := hi
  unfold stepAsTry
  repeat' split
  wk_close

theorem invA_asReg {s : State} {t : Nat} {v : Nat} {r : Nat} (hk : InvK s) (hr : InvR s) (hi : InvA s) (hpc : s.pc t = .asReg v r) : InvA (stepAsReg s t v r) := by
  obtain ⟨hk1, hk2, hk3, hk4, hk5, hk6, hk7, hk8⟩ := hk
  obtain ⟨hr1, hr2, hr3, hr4, hr5, hr6, hr7, hr8⟩ := hr
  obtain ⟨h1, h2, h3, h4, h5, h6, h7, h8⟩ := hi
  unfold stepAsReg
  repeat' split
  wk_close

theorem invA_asUnl {s : State} {t : Nat} {v : Nat} {r : Nat} {c : Bool} (hk : InvK s) (hr : InvR s) (hi : InvA s) (hpc : s.pc t = .asUnl v r c) : InvA (stepAsUnl s t v r c) := by
  obtain ⟨hk1, hk2, hk3, hk4, hk5, hk6, hk7, hk8⟩ := hk
  obtain ⟨hr1, hr2, hr3, hr4, hr5, hr6, hr7, hr8⟩ := hr
  obtain ⟨h1, h2, h3, h4, h5, h6, h7, h8⟩ := hi
  unfold stepAsUnl
  repeat' split
  wk_close

theorem invA_asRef {s : State} {t : Nat} {v : Nat} {r : Nat} (hk : InvK s) (hr : InvR s) (hi : InvA s) (hpc : s.pc t = .asRef v r) : InvA (stepAsRef s t v r) := by
  obtain ⟨hk1, hk2, hk3, hk4, hk5, hk6, hk7, hk8⟩ := hk
  obtain ⟨hr1, hr2, hr3, hr4, hr5, hr6, hr7, hr8⟩ := hr
  obtain ⟨h1, h2, h3, h4, h5, h6, h7, h8⟩ := hi
  unfold stepAsRef
  repeat' split
  wk_close

theorem invA_fdUnlS {s : State} {t : Nat} {v : Nat} {r : Nat} (hk : InvK s) (hr : InvR s) (hi : InvA s) (hpc : s.pc t = .fdUnlS v r) : InvA (stepFdUnlS s t v r) := by
  obtain ⟨hk1, hk2, hk3, hk4, hk5, hk6, hk7, hk8⟩ := hk
  obtain ⟨hr1, hr2, hr3, hr4, hr5, hr6, hr7, hr8⟩ := hr
  obtain ⟨h1, h2, h3, h4, h5, h6, h7, h8⟩ := hi
  unfold stepFdUnlS
  repeat' split
  wk_close

theorem invA_arTry {s : State} {t : Nat} {r : Nat} (hk : InvK s) (hr : InvR s) (hi : InvA s) (hpc : s.pc t = .arTry r) : InvA (stepArTry s t r) := by
  obtain ⟨hk1, hk2, hk3, hk4, hk5, hk6, hk7, hk8⟩ := hk
  obtain ⟨hr1, hr2, hr3, hr4, hr5, hr6, hr7, hr8⟩ := hr
  obtain ⟨h1, h2, h3, h4, h5, h6, h7, h8⟩ := hi
  unfold stepArTry
  repeat' split
  wk_close

theorem invA_arReg {s : State} {t : Nat} {r : Nat} (hk : InvK s) (hr : InvR s) (hi : InvA s) (hpc : s.pc t = .arReg r) : InvA (stepArReg s t r) := by
  obtain ⟨hk1, hk2, hk3, hk4, hk5, hk6, hk7, hk8⟩ := hk
  obtain ⟨hr1, hr2, hr3, hr4, hr5, hr6, hr7, hr8⟩ := hr
  obtain ⟨h1, h2, h3, h4, h5, h6, h7, h8⟩ := hi
  unfold stepArReg
  repeat' split
  wk_close

theorem invA_arUnl {s : State} {t : Nat} {r : Nat} (hk : InvK s) (hr : InvR s) (hi : InvA s) (hpc : s.pc t = .arUnl r) : InvA (stepArUnl s t r) := by
  obtain ⟨hk1, hk2, hk3, hk4, hk5, hk6, hk7, hk8⟩ := hk
  obtain ⟨hr1, hr2, hr3, hr4, hr5, hr6, hr7, hr8⟩ := hr
  obtain ⟨h1, h2, h3, h4, h5, h6, h7, h8⟩ := hi
  unfold stepArUnl
  repeat' split
  wk_close

theorem invA_fdUnlR {s : State} {t : Nat} {r : Nat} (hk : InvK s) (hr : InvR s) (hi : InvA s) (hpc : s.pc t = .fdUnlR r) : InvA (stepFdUnlR s t r) := by
  obtain ⟨hk1, hk2, hk3, hk4, hk5, hk6, hk7, hk8⟩ := hk
  obtain ⟨hr1, hr2, hr3, hr4, hr5, hr6, hr7, hr8⟩ := hr
  obtain ⟨h1, h2, h3, h4, h5, h6, h7, h8⟩ := hi
  unfold stepFdUnlR
  repeat' split
  wk_close

theorem invA_hWake {s : State} {t : Nat} {ws : List Nat} (hk : InvK s) (hr : InvR s) (hi : InvA s) (hpc : s.pc t = .hWake ws) : InvA (stepHWake s t ws) := by
  obtain ⟨hk1, hk2, hk3, hk4, hk5, hk6, hk7, hk8⟩ := hk
  obtain ⟨hr1, hr2, hr3, hr4, hr5, hr6, hr7, hr8⟩ := hr
  obtain ⟨h1, h2, h3, h4, h5, h6, h7, h8⟩ := hi
  unfold stepHWake
  repeat' split
  wk_close

theorem invA_sPark {s s' : State} {t : Nat} {v : Nat} {r : Nat} (hk : InvK s) (hr : InvR s) (hi : InvA s) (hpc : s.pc t = .sPark v r) (h : stepSPark s t v r = some s') : InvA s' := by
  obtain ⟨hk1, hk2, hk3, hk4, hk5, hk6, hk7, hk8⟩ := hk
  obtain ⟨hr1, hr2, hr3, hr4, hr5, hr6, hr7, hr8⟩ := hr
  obtain ⟨h1, h2, h3, h4, h5, h6, h7, h8⟩ := hi
  unfold stepSPark at h
  repeat' split at h
  all_goals (simp at h; try subst h)
  wk_close

theorem invA_rPark {s s' : State} {t : Nat} {r : Nat} (hk : InvK s) (hr : InvR s) (hi : InvA s) (hpc : s.pc t = .rPark r) (h : stepRPark s t r = some s') : InvA s' := by
  obtain ⟨hk1, hk2, hk3, hk4, hk5, hk6, hk7, hk8⟩ := hk
  obtain ⟨hr1, hr2, hr3, hr4, hr5, hr6, hr7, hr8⟩ := hr
  obtain ⟨h1, h2, h3, h4, h5, h6, h7, h8⟩ := hi
  unfold stepRPark at h
  repeat' split at h
  all_goals (simp at h; try subst h)
  wk_close

theorem invA_closeS {s s' : State} {t : Nat} (hk : InvK s) (hr : InvR s) (hi : InvA s) (hpc : s.pc t = .hCloseS) (h : stepCloseS s t  = some s') : InvA s' := by
  obtain ⟨hk1, hk2, hk3, hk4, hk5, hk6, hk7, hk8⟩ := hk
  obtain ⟨hr1, hr2, hr3, hr4, hr5, hr6, hr7, hr8⟩ := hr
  obtain ⟨h1, h2, h3, h4, h5, h6, h7, h8⟩ := hi
  unfold stepCloseS at h
  repeat' split at h
  all_goals (simp at h; try subst h)
  wk_close

theorem invA_closeR {s s' : State} {t : Nat} (hk : InvK s) (hr : InvR s) (hi : InvA s) (hpc : s.pc t = .hCloseR) (h : stepCloseR s t  = some s') : InvA s' := by
  obtain ⟨hk1, hk2, hk3, hk4, hk5, hk6, hk7, hk8⟩ := hk
  obtain ⟨hr1, hr2, hr3, hr4, hr5, hr6, hr7, hr8⟩ := hr
  obtain ⟨h1, h2, h3, h4, h5, h6, h7, h8⟩ := hi
  unfold stepCloseR at h
  repeat' split at h
  all_goals (simp at h; try subst h)
  wk_close

theorem invA_adv {s s' : State} {t : Nat} (hk : InvK s) (hr : InvR s) (hi : InvA s) (h : stepAdv s t = some s') : InvA s' := by
  unfold stepAdv at h
  split at h
  all_goals (first | (simp at h; done) | skip)
  all_goals rename_i hpc
  case h_1 => simp at h; subst h; exact invA_sTry hk hr hi hpc
  case h_2 => simp at h; subst h; exact invA_sReg hk hr hi hpc
  case h_3 => simp at h; subst h; exact invA_sWait hk hr hi hpc
  case h_4 => exact invA_sPark hk hr hi hpc h
  case h_5 => simp at h; subst h; exact invA_sUnl hk hr hi hpc
  case h_6 => simp at h; subst h; exact invA_tsTry hk hr hi hpc
  case h_7 => simp at h; subst h; exact invA_rTry hk hr hi hpc
  case h_8 => simp at h; subst h; exact invA_rReg hk hr hi hpc
  case h_9 => simp at h; subst h; exact invA_rWait hk hr hi hpc
  case h_10 => exact invA_rPark hk hr hi hpc h
  case h_11 => simp at h; subst h; exact invA_rUnl hk hr hi hpc
  case h_12 => simp at h; subst h; exact invA_trTry hk hr hi hpc
  case h_13 => simp at h; subst h; exact invA_toTry hk hr hi hpc
  case h_14 => simp at h; subst h; exact invA_toReg hk hr hi hpc
  case h_15 => simp at h; subst h; exact invA_toRetry hk hr hi hpc
  case h_16 => simp at h; subst h; exact invA_toCas hk hr hi hpc
  case h_17 => simp at h; subst h; exact invA_toUnl hk hr hi hpc
  case h_18 => simp at h; subst h; exact invA_toFin hk hr hi hpc
  case h_19 => simp at h; subst h; exact invA_asTry hk hr hi hpc
  case h_20 => simp at h; subst h; exact invA_asReg hk hr hi hpc
  case h_21 => simp at h; subst h; exact invA_asUnl hk hr hi hpc
  case h_22 => simp at h; subst h; exact invA_asRef hk hr hi hpc
  case h_23 => simp at h; subst h; exact invA_fdUnlS hk hr hi hpc
  case h_24 => simp at h; subst h; exact invA_arTry hk hr hi hpc
  case h_25 => simp at h; subst h; exact invA_arReg hk hr hi hpc
  case h_26 => simp at h; subst h; exact invA_arUnl hk hr hi hpc
  case h_27 => simp at h; subst h; exact invA_fdUnlR hk hr hi hpc
  case h_28 =>
    simp at h; subst h
    obtain ⟨hk1, hk2, hk3, hk4, hk5, hk6, hk7, hk8⟩ := hk
    obtain ⟨hr1, hr2, hr3, hr4, hr5, hr6, hr7, hr8⟩ := hr
    obtain ⟨h1, h2, h3, h4, h5, h6, h7, h8⟩ := hi
    wk_close
  case h_29 =>
    simp at h; subst h
    obtain ⟨hk1, hk2, hk3, hk4, hk5, hk6, hk7, hk8⟩ := hk
    obtain ⟨hr1, hr2, hr3, hr4, hr5, hr6, hr7, hr8⟩ := hr
    obtain ⟨h1, h2, h3, h4, h5, h6, h7, h8⟩ := hi
    wk_close
  case h_30 => exact invA_closeS hk hr hi hpc h
  case h_31 => exact invA_closeR hk hr hi hpc h
  case h_32 =>
    simp at h; subst h
    obtain ⟨hk1, hk2, hk3, hk4, hk5, hk6, hk7, hk8⟩ := hk
    obtain ⟨hr1, hr2, hr3, hr4, hr5, hr6, hr7, hr8⟩ := hr
    obtain ⟨h1, h2, h3, h4, h5, h6, h7, h8⟩ := hi
    wk_close
  case h_33 => simp at h; subst h; exact invA_hWake hk hr hi hpc

set_option maxHeartbeats 1600000 in
theorem invA_call {s s' : State} {t : Nat} {op : Op} (hk : InvK s) (hr : InvR s) (hi : InvA s) (h : stepCall s t op = some s') : InvA s' := by
  obtain ⟨hk1, hk2, hk3, hk4, hk5, hk6, hk7, hk8⟩ := hk
  obtain ⟨hr1, hr2, hr3, hr4, hr5, hr6, hr7, hr8⟩ := hr
  obtain ⟨h1, h2, h3, h4, h5, h6, h7, h8⟩ := hi
  unfold stepCall at h
  split at h
  · rename_i hr
    have hr' : s.pc t = .idle ∨ ∃ x, s.pc t = .done x := by
      cases hp : s.pc t <;> simp_all [PC.atRest]
    cases op <;> simp only [] at h
    all_goals (repeat' split at h)
    all_goals (simp at h; try subst h)
    wk_close
  · simp at h

theorem invA_poll {s s' : State} {t : Nat} (hk : InvK s) (hr : InvR s) (hi : InvA s) (hb : Benign s t .poll) (h : stepPoll s t = some s') : InvA s' := by
  obtain ⟨hk1, hk2, hk3, hk4, hk5, hk6, hk7, hk8⟩ := hk
  obtain ⟨hr1, hr2, hr3, hr4, hr5, hr6, hr7, hr8⟩ := hr
  obtain ⟨h1, h2, h3, h4, h5, h6, h7, h8⟩ := hi
  unfold stepPoll at h
  repeat' split at h
  all_goals (simp at h; try subst h)
  all_goals (try simp only [Benign, *] at hb)
  wk_close

theorem invA_dropFut {s s' : State} {t : Nat} (hk : InvK s) (hr : InvR s) (hi : InvA s) (hb : Benign s t .dropFut) (h : stepDropFut s t = some s') : InvA s' := by
  obtain ⟨hk1, hk2, hk3, hk4, hk5, hk6, hk7, hk8⟩ := hk
  obtain ⟨hr1, hr2, hr3, hr4, hr5, hr6, hr7, hr8⟩ := hr
  obtain ⟨h1, h2, h3, h4, h5, h6, h7, h8⟩ := hi
  unfold stepDropFut at h
  repeat' split at h
  all_goals (simp at h; try subst h)
  all_goals (try simp only [Benign, *] at hb)
  wk_close

theorem invA_spurious {s s' : State} {t : Nat} (hk : InvK s) (hr : InvR s) (hi : InvA s) (h : stepSpurious s t = some s') : InvA s' := by
  obtain ⟨hk1, hk2, hk3, hk4, hk5, hk6, hk7, hk8⟩ := hk
  obtain ⟨hr1, hr2, hr3, hr4, hr5, hr6, hr7, hr8⟩ := hr
  obtain ⟨h1, h2, h3, h4, h5, h6, h7, h8⟩ := hi
  unfold stepSpurious at h
  repeat' split at h
  all_goals (simp at h; try subst h)
  wk_close

theorem invA_step {s s' : State} {t : Nat} {l : Label} (hk : InvK s) (hr : InvR s) (hi : InvA s) (hb : Benign s t l) (h : step s t l = some s') : InvA s' := by
  cases l <;> simp only [step] at h
  · exact invA_call hk hr hi h
  · exact invA_adv hk hr hi h
  · exact invA_poll hk hr hi hb h
  · exact invA_dropFut hk hr hi hb h
  · exact invA_spurious hk hr hi h


theorem invA_reach {cap : Nat} {s : State} (h : ReachB cap s) : InvA s := by
  induction h with
  | init => exact invA_init cap
  | step hr hb hs ih => exact invA_step (invK_reach hr.reach) (invR_reach hr) ih hb hs

end Fv.Chan.Mpmc2B
