import Fv.Lemmas.PolicySpec
/-!
# Helper lemmas for C14: Random policy (victim choice is an oracle)
-/
namespace Fv.Cache.Policy.Random

theorem Inv_init : Inv init := by simp [Inv, init]

theorem lookup_eq (s : State) (k) : lookup s k = costOf s.items k := rfl

theorem Inv_admit {s : State} (h : Inv s) (k c) : Inv (admit s k c).1 := by
  simp only [Inv, admit, keys_cons, List.nodup_cons]
  exact ⟨not_mem_keys_without _ _, nodup_without k h⟩

theorem Inv_remove {s : State} (h : Inv s) (k) : Inv (remove s k) := nodup_without k h

/-- every admissible oracle run pops, one at a time, entries that were tracked at that moment -/
theorem evictWith_spec : ∀ (picks : List Nat) (s : State) (need freed : Nat) (s' : State) (freed' : Nat),
    Inv s → evictWith s need picks freed = some (s', freed') →
    ∃ popped, keys popped = picks ∧ freed' = freed + costSum popped
      ∧ s.items.Perm (s'.items ++ popped) ∧ Inv s' ∧ (need ≤ costSum popped ∨ s'.items = []) := by
  intro picks
  induction picks with
  | nil =>
    intro s need freed s' freed' hinv he
    unfold evictWith at he
    split at he
    · simp at he
    · next hc =>
      simp only [Option.some.injEq, Prod.mk.injEq] at he
      obtain ⟨rfl, rfl⟩ := he
      refine ⟨[], rfl, by simp, by simp, hinv, ?_⟩
      by_cases hn : need > 0
      · right; by_cases hi : s.items = []
        · exact hi
        · exact absurd ⟨hn, hi⟩ hc
      · left; simp; omega
  | cons k ks ih =>
    intro s need freed s' freed' hinv he
    unfold evictWith at he
    split at he
    · split at he
      · next c hc =>
        rw [lookup_eq] at hc
        obtain ⟨popped, hk, hf, hp, hi, hd⟩ := ih _ _ _ _ _ (Inv_remove hinv k) he
        refine ⟨(k, c) :: popped, by simp [hk], by simp [hf]; omega, ?_, hi, ?_⟩
        · have h1 := perm_without hinv (mem_of_costOf hc)
          have h2 : ((k, c) :: LruList.without s.items k).Perm ((k, c) :: (s'.items ++ popped)) :=
            List.Perm.cons _ hp
          exact (h1.trans h2).trans List.perm_middle.symm
        · rcases hd with hd | hd
          · left; simp; omega
          · right; exact hd
      · simp at he
    · simp at he

end Fv.Cache.Policy.Random
