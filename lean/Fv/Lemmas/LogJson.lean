import Fv.Log.Json
/-! Helper lemmas for C20 (JSON part): the string decoder inverts serde_json's escaping. -/
namespace Fv.Log.Json
open Fv.Log

theorem hexVal_digitChar {k : Nat} (h : k < 16) : hexVal (Nat.digitChar k) = some k := by
  have : k = 0 ∨ k = 1 ∨ k = 2 ∨ k = 3 ∨ k = 4 ∨ k = 5 ∨ k = 6 ∨ k = 7 ∨ k = 8 ∨ k = 9 ∨ k = 10 ∨ k = 11
      ∨ k = 12 ∨ k = 13 ∨ k = 14 ∨ k = 15 := by omega
  rcases this with h | h | h | h | h | h | h | h | h | h | h | h | h | h | h | h <;> subst h <;> decide

theorem hexVal_zero : hexVal '0' = some 0 := by decide

theorem char_ofNat_toNat (c : Char) : Char.ofNat c.toNat = c := Char.ofNat_toNat c

theorem parseStrBody_simple (e ch : Char) (t : Text) (he : e ≠ 'u') (hu : unescapeSimple e = some ch) :
    parseStrBody ('\\' :: e :: t) =
      match parseStrBody t with
      | some (s, r) => some (ch :: s, r)
      | none => none := by
  conv => lhs; unfold parseStrBody
  simp only [show ('\\' : Char) ≠ '"' by decide, if_false, if_true, he, hu]
  cases parseStrBody t <;> rfl

/-- Core step: decoding what `escapeChar c` emits yields `c` and continues with the rest. -/
theorem parseStrBody_escapeChar (c : Char) (t : Text) :
    parseStrBody (escapeChar c ++ t) =
      match parseStrBody t with
      | some (s, r) => some (c :: s, r)
      | none => none := by
  unfold escapeChar
  by_cases hq : c = '"'
  · subst hq; exact parseStrBody_simple '"' '"' t (by decide) (by decide)
  by_cases hb : c = '\\'
  · subst hb; exact parseStrBody_simple '\\' '\\' t (by decide) (by decide)
  by_cases hc : c.toNat < 0x20
  · simp only [hq, hb, hc, if_true, if_false]
    by_cases h8 : c.toNat = 8
    · have : c = Char.ofNat 8 := by rw [← h8, char_ofNat_toNat]
      subst this; exact parseStrBody_simple 'b' _ t (by decide) (by decide)
    by_cases h9 : c.toNat = 9
    · have : c = Char.ofNat 9 := by rw [← h9, char_ofNat_toNat]
      subst this; exact parseStrBody_simple 't' _ t (by decide) (by decide)
    by_cases h10 : c.toNat = 10
    · have : c = Char.ofNat 10 := by rw [← h10, char_ofNat_toNat]
      subst this; exact parseStrBody_simple 'n' _ t (by decide) (by decide)
    by_cases h12 : c.toNat = 12
    · have : c = Char.ofNat 12 := by rw [← h12, char_ofNat_toNat]
      subst this; exact parseStrBody_simple 'f' _ t (by decide) (by decide)
    by_cases h13 : c.toNat = 13
    · have : c = Char.ofNat 13 := by rw [← h13, char_ofNat_toNat]
      subst this; exact parseStrBody_simple 'r' _ t (by decide) (by decide)
    simp only [h8, h9, h10, h12, h13, if_false]
    have hhi : hexVal (Nat.digitChar (c.toNat / 16)) = some (c.toNat / 16) := hexVal_digitChar (by omega)
    have hlo : hexVal (Nat.digitChar (c.toNat % 16)) = some (c.toNat % 16) := hexVal_digitChar (by omega)
    have hn : ((0 * 16 + 0) * 16 + c.toNat / 16) * 16 + c.toNat % 16 = c.toNat := by omega
    simp only [List.cons_append, List.nil_append]
    conv => lhs; unfold parseStrBody
    have hs : ¬ (0xD800 ≤ c.toNat ∧ c.toNat ≤ 0xDFFF) := by omega
    simp only [show ('\\' : Char) ≠ '"' by decide, if_false, if_true, hexVal_zero, hhi, hlo, hn, hs, char_ofNat_toNat]
    cases parseStrBody t <;> rfl
  · simp only [hq, hb, hc, if_false, List.cons_append, List.nil_append]
    conv => lhs; unfold parseStrBody
    simp only [hq, hb, hc, if_false]
    cases parseStrBody t <;> rfl

/-- The decoder, run on the escaped form of `s` followed by the closing quote and anything else,
returns exactly `s` and leaves the rest. -/
theorem parseStrBody_escape (s t : Text) : parseStrBody (escape s ++ '"' :: t) = some (s, t) := by
  induction s with
  | nil =>
    simp only [escape, List.nil_append]
    conv => lhs; unfold parseStrBody
    simp
  | cons c cs ih =>
    simp only [escape, List.append_assoc]
    rw [parseStrBody_escapeChar, ih]

theorem decodeString_encodeString (s : Text) : decodeString (encodeString s) = some s := by
  simp only [encodeString, decodeString, if_true]
  rw [parseStrBody_escape]

/-! ### no control characters -/

theorem digitChar_ge_0x20 (k : Nat) : 0x20 ≤ (Nat.digitChar k).toNat := by
  match k with
  | 0 | 1 | 2 | 3 | 4 | 5 | 6 | 7 | 8 | 9 | 10 | 11 | 12 | 13 | 14 | 15 => decide
  | _ + 16 => simp [Nat.digitChar]

theorem escapeChar_no_control (c : Char) : ∀ x ∈ escapeChar c, 0x20 ≤ x.toNat := by
  intro x hx
  unfold escapeChar at hx
  split at hx
  · simp at hx; rcases hx with rfl | rfl <;> decide
  split at hx
  · simp at hx; rcases hx with rfl | rfl <;> decide
  split at hx
  · repeat' split at hx
    all_goals simp at hx
    all_goals first
      | (rcases hx with rfl | rfl <;> decide)
      | (rcases hx with rfl | rfl | rfl | rfl | rfl | rfl <;> first | decide | exact digitChar_ge_0x20 _)
  · simp at hx; subst hx; omega

theorem escape_no_control (s : Text) : ∀ x ∈ escape s, 0x20 ≤ x.toNat := by
  induction s with
  | nil => simp [escape]
  | cons c cs ih =>
    intro x hx
    simp only [escape, List.mem_append] at hx
    rcases hx with hx | hx
    · exact escapeChar_no_control c x hx
    · exact ih x hx

theorem encodeString_no_control (s : Text) : ∀ x ∈ encodeString s, 0x20 ≤ x.toNat := by
  intro x hx
  simp only [encodeString, List.mem_cons, List.mem_append, List.not_mem_nil, or_false] at hx
  rcases hx with rfl | hx | rfl
  · decide
  · exact escape_no_control s x hx
  · decide

end Fv.Log.Json
