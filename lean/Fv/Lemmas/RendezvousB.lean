import Fv.Chan.RendezvousB
/-! Invariants of the rendezvous B-model: observers, helper lemmas, structural group `InvRK`. -/
namespace Fv.Chan.RendezvousB
set_option linter.unusedVariables false

@[simp] theorem upd_same {α} (f : Nat → α) (i : Nat) (a : α) : upd f i a i = a := by simp [upd]
theorem upd_apply {α} (f : Nat → α) (i j : Nat) (a : α) : upd f i a j = if j = i then a else f j := rfl
theorem bump_apply (w : Nat → Nat) (a j : Nat) : bump w a j = if j = a then w a + 1 else w j := rfl
theorem optL_mem (o : Option Nat) (v : Nat) : v ∈ optL o ↔ o = some v := by
  cases o <;> simp [optL, eq_comm]

theorem nodup_snoc {l : List Nat} {v : Nat} : (l ++ [v]).Nodup ↔ l.Nodup ∧ v ∉ l := by
  rw [List.nodup_append]; simp
  intro _; constructor
  · intro h hv; exact h v hv rfl
  · intro h a ha e; subst e; exact h ha

/-- the waiter record an agent's control state refers to -/
def recOf : PC → Option Nat
  | .idle => none
  | .done _ => none
  | .wakeThen _ _ => none
  | .sLock _ r => some r
  | .sWait _ r => some r
  | .sPark _ r => some r
  | .tsLock _ => none
  | .rLock r => some r
  | .rWait r => some r
  | .rPark r => some r
  | .trLock => none
  | .toLock r => some r
  | .toLoad r => some r
  | .toCas r => some r
  | .toUnl r => some r
  | .toFin r => some r
  | .asNew _ r => some r
  | .asLock _ r => some r
  | .asPend _ r => some r
  | .asRef _ r => some r
  | .asFin _ r => some r
  | .fdUnlS _ r => some r
  | .arNew r => some r
  | .arLock r => some r
  | .arPend r => some r
  | .arRef r => some r
  | .arFin r => some r
  | .fdUnlR r => some r
  | .hCloneS => none
  | .hCloneR => none
  | .hCloseS => none
  | .hCloseR => none
  | .hWake _ => none

/-- sender control states before the record is enqueued -/
def unregS : PC → Option Nat
  | .idle => none
  | .done _ => none
  | .wakeThen _ _ => none
  | .sLock _ r => some r
  | .sWait _ _ => none
  | .sPark _ _ => none
  | .tsLock _ => none
  | .rLock _ => none
  | .rWait _ => none
  | .rPark _ => none
  | .trLock => none
  | .toLock _ => none
  | .toLoad _ => none
  | .toCas _ => none
  | .toUnl _ => none
  | .toFin _ => none
  | .asNew _ r => some r
  | .asLock _ r => some r
  | .asPend _ _ => none
  | .asRef _ _ => none
  | .asFin _ _ => none
  | .fdUnlS _ _ => none
  | .arNew _ => none
  | .arLock _ => none
  | .arPend _ => none
  | .arRef _ => none
  | .arFin _ => none
  | .fdUnlR _ => none
  | .hCloneS => none
  | .hCloneR => none
  | .hCloseS => none
  | .hCloseR => none
  | .hWake _ => none

/-- receiver control states before the record is enqueued -/
def unregR : PC → Option Nat
  | .idle => none
  | .done _ => none
  | .wakeThen _ _ => none
  | .sLock _ _ => none
  | .sWait _ _ => none
  | .sPark _ _ => none
  | .tsLock _ => none
  | .rLock r => some r
  | .rWait _ => none
  | .rPark _ => none
  | .trLock => none
  | .toLock r => some r
  | .toLoad _ => none
  | .toCas _ => none
  | .toUnl _ => none
  | .toFin _ => none
  | .asNew _ _ => none
  | .asLock _ _ => none
  | .asPend _ _ => none
  | .asRef _ _ => none
  | .asFin _ _ => none
  | .fdUnlS _ _ => none
  | .arNew r => some r
  | .arLock r => some r
  | .arPend _ => none
  | .arRef _ => none
  | .arFin _ => none
  | .fdUnlR _ => none
  | .hCloneS => none
  | .hCloneR => none
  | .hCloseS => none
  | .hCloseR => none
  | .hWake _ => none

/-- a sender whose record has been enqueued (until it returns) -/
def sendReg : PC → Option Nat
  | .idle => none
  | .done _ => none
  | .wakeThen _ _ => none
  | .sLock _ _ => none
  | .sWait _ r => some r
  | .sPark _ r => some r
  | .tsLock _ => none
  | .rLock _ => none
  | .rWait _ => none
  | .rPark _ => none
  | .trLock => none
  | .toLock _ => none
  | .toLoad _ => none
  | .toCas _ => none
  | .toUnl _ => none
  | .toFin _ => none
  | .asNew _ _ => none
  | .asLock _ _ => none
  | .asPend _ r => some r
  | .asRef _ r => some r
  | .asFin _ r => some r
  | .fdUnlS _ r => some r
  | .arNew _ => none
  | .arLock _ => none
  | .arPend _ => none
  | .arRef _ => none
  | .arFin _ => none
  | .fdUnlR _ => none
  | .hCloneS => none
  | .hCloneR => none
  | .hCloseS => none
  | .hCloseR => none
  | .hWake _ => none

/-- the token of an enqueued sender -/
def sendTok : PC → Option Nat
  | .idle => none
  | .done _ => none
  | .wakeThen _ _ => none
  | .sLock _ _ => none
  | .sWait v _ => some v
  | .sPark v _ => some v
  | .tsLock _ => none
  | .rLock _ => none
  | .rWait _ => none
  | .rPark _ => none
  | .trLock => none
  | .toLock _ => none
  | .toLoad _ => none
  | .toCas _ => none
  | .toUnl _ => none
  | .toFin _ => none
  | .asNew _ _ => none
  | .asLock _ _ => none
  | .asPend v _ => some v
  | .asRef v _ => some v
  | .asFin v _ => some v
  | .fdUnlS v _ => some v
  | .arNew _ => none
  | .arLock _ => none
  | .arPend _ => none
  | .arRef _ => none
  | .arFin _ => none
  | .fdUnlR _ => none
  | .hCloneS => none
  | .hCloneR => none
  | .hCloseS => none
  | .hCloseR => none
  | .hWake _ => none

/-- the token of a sender that has not yet entered its lock section -/
def holdsFresh : PC → Option Nat
  | .idle => none
  | .done _ => none
  | .wakeThen _ _ => none
  | .sLock v _ => some v
  | .sWait _ _ => none
  | .sPark _ _ => none
  | .tsLock v => some v
  | .rLock _ => none
  | .rWait _ => none
  | .rPark _ => none
  | .trLock => none
  | .toLock _ => none
  | .toLoad _ => none
  | .toCas _ => none
  | .toUnl _ => none
  | .toFin _ => none
  | .asNew v _ => some v
  | .asLock v _ => some v
  | .asPend _ _ => none
  | .asRef _ _ => none
  | .asFin _ _ => none
  | .fdUnlS _ _ => none
  | .arNew _ => none
  | .arLock _ => none
  | .arPend _ => none
  | .arRef _ => none
  | .arFin _ => none
  | .fdUnlR _ => none
  | .hCloneS => none
  | .hCloneR => none
  | .hCloseS => none
  | .hCloseR => none
  | .hWake _ => none

/-- a receiver whose record may sit in the receiver store in state WAITING -/
def recvReg : PC → Option Nat
  | .idle => none
  | .done _ => none
  | .wakeThen _ _ => none
  | .sLock _ _ => none
  | .sWait _ _ => none
  | .sPark _ _ => none
  | .tsLock _ => none
  | .rLock _ => none
  | .rWait r => some r
  | .rPark r => some r
  | .trLock => none
  | .toLock _ => none
  | .toLoad r => some r
  | .toCas r => some r
  | .toUnl _ => none
  | .toFin _ => none
  | .asNew _ _ => none
  | .asLock _ _ => none
  | .asPend _ _ => none
  | .asRef _ _ => none
  | .asFin _ _ => none
  | .fdUnlS _ _ => none
  | .arNew _ => none
  | .arLock _ => none
  | .arPend r => some r
  | .arRef r => some r
  | .arFin _ => none
  | .fdUnlR _ => none
  | .hCloneS => none
  | .hCloneR => none
  | .hCloseS => none
  | .hCloseR => none
  | .hWake _ => none

/-- a receiver that is going to read its state byte and, if DONE, return its destination -/
def recvWait : PC → Option Nat
  | .idle => none
  | .done _ => none
  | .wakeThen _ _ => none
  | .sLock _ _ => none
  | .sWait _ _ => none
  | .sPark _ _ => none
  | .tsLock _ => none
  | .rLock _ => none
  | .rWait r => some r
  | .rPark r => some r
  | .trLock => none
  | .toLock _ => none
  | .toLoad r => some r
  | .toCas r => some r
  | .toUnl _ => none
  | .toFin r => some r
  | .asNew _ _ => none
  | .asLock _ _ => none
  | .asPend _ _ => none
  | .asRef _ _ => none
  | .asFin _ _ => none
  | .fdUnlS _ _ => none
  | .arNew _ => none
  | .arLock _ => none
  | .arPend r => some r
  | .arRef r => some r
  | .arFin r => some r
  | .fdUnlR _ => none
  | .hCloneS => none
  | .hCloneR => none
  | .hCloseS => none
  | .hCloseR => none
  | .hWake _ => none

/-- blocked / Pending control states -/
def waitish : PC → Option Nat
  | .idle => none
  | .done _ => none
  | .wakeThen _ _ => none
  | .sLock _ _ => none
  | .sWait _ _ => none
  | .sPark _ r => some r
  | .tsLock _ => none
  | .rLock _ => none
  | .rWait _ => none
  | .rPark r => some r
  | .trLock => none
  | .toLock _ => none
  | .toLoad _ => none
  | .toCas _ => none
  | .toUnl _ => none
  | .toFin _ => none
  | .asNew _ _ => none
  | .asLock _ _ => none
  | .asPend _ r => some r
  | .asRef _ _ => none
  | .asFin _ _ => none
  | .fdUnlS _ _ => none
  | .arNew _ => none
  | .arLock _ => none
  | .arPend r => some r
  | .arRef _ => none
  | .arFin _ => none
  | .fdUnlR _ => none
  | .hCloneS => none
  | .hCloneR => none
  | .hCloseS => none
  | .hCloseR => none
  | .hWake _ => none

/-- the agent a `wakeThen` / `hWake` control state still has to wake -/
def owes : PC → List Nat
  | .idle => []
  | .done _ => []
  | .wakeThen a _ => [a]
  | .sLock _ _ => []
  | .sWait _ _ => []
  | .sPark _ _ => []
  | .tsLock _ => []
  | .rLock _ => []
  | .rWait _ => []
  | .rPark _ => []
  | .trLock => []
  | .toLock _ => []
  | .toLoad _ => []
  | .toCas _ => []
  | .toUnl _ => []
  | .toFin _ => []
  | .asNew _ _ => []
  | .asLock _ _ => []
  | .asPend _ _ => []
  | .asRef _ _ => []
  | .asFin _ _ => []
  | .fdUnlS _ _ => []
  | .arNew _ => []
  | .arLock _ => []
  | .arPend _ => []
  | .arRef _ => []
  | .arFin _ => []
  | .fdUnlR _ => []
  | .hCloneS => []
  | .hCloneR => []
  | .hCloseS => []
  | .hCloseR => []
  | .hWake ws => ws

theorem unregS_recOf {p : PC} {r : Nat} (h : unregS p = some r) : recOf p = some r := by
  cases p <;> simp_all [unregS, recOf]

theorem unregR_recOf {p : PC} {r : Nat} (h : unregR p = some r) : recOf p = some r := by
  cases p <;> simp_all [unregR, recOf]

theorem sendReg_recOf {p : PC} {r : Nat} (h : sendReg p = some r) : recOf p = some r := by
  cases p <;> simp_all [sendReg, recOf]

theorem recvReg_recOf {p : PC} {r : Nat} (h : recvReg p = some r) : recOf p = some r := by
  cases p <;> simp_all [recvReg, recOf]

theorem recvWait_recOf {p : PC} {r : Nat} (h : recvWait p = some r) : recOf p = some r := by
  cases p <;> simp_all [recvWait, recOf]

theorem waitish_recOf {p : PC} {r : Nat} (h : waitish p = some r) : recOf p = some r := by
  cases p <;> simp_all [waitish, recOf]

theorem recvReg_wait {p : PC} {r : Nat} (h : recvReg p = some r) : recvWait p = some r := by
  cases p <;> simp_all [recvReg, recvWait]

theorem sendReg_tok {p : PC} {r : Nat} (h : sendReg p = some r) : ∃ v, sendTok p = some v := by
  cases p <;> simp_all [sendReg, sendTok]

/-- receiver control states during which its record may still be linked in the receiver store -/
def recvIn : PC → Option Nat
  | .idle => none
  | .done _ => none
  | .wakeThen _ _ => none
  | .sLock _ _ => none
  | .sWait _ _ => none
  | .sPark _ _ => none
  | .tsLock _ => none
  | .rLock _ => none
  | .rWait r => some r
  | .rPark r => some r
  | .trLock => none
  | .toLock _ => none
  | .toLoad r => some r
  | .toCas r => some r
  | .toUnl r => some r
  | .toFin _ => none
  | .asNew _ _ => none
  | .asLock _ _ => none
  | .asPend _ _ => none
  | .asRef _ _ => none
  | .asFin _ _ => none
  | .fdUnlS _ _ => none
  | .arNew _ => none
  | .arLock _ => none
  | .arPend r => some r
  | .arRef r => some r
  | .arFin _ => none
  | .fdUnlR r => some r
  | .hCloneS => none
  | .hCloneR => none
  | .hCloseS => none
  | .hCloseR => none
  | .hWake _ => none

/-- sender wait states (record never CANCELLED there) -/
def liveS : PC → Option Nat
  | .idle => none
  | .done _ => none
  | .wakeThen _ _ => none
  | .sLock _ _ => none
  | .sWait _ r => some r
  | .sPark _ r => some r
  | .tsLock _ => none
  | .rLock _ => none
  | .rWait _ => none
  | .rPark _ => none
  | .trLock => none
  | .toLock _ => none
  | .toLoad _ => none
  | .toCas _ => none
  | .toUnl _ => none
  | .toFin _ => none
  | .asNew _ _ => none
  | .asLock _ _ => none
  | .asPend _ r => some r
  | .asRef _ r => some r
  | .asFin _ r => some r
  | .fdUnlS _ _ => none
  | .arNew _ => none
  | .arLock _ => none
  | .arPend _ => none
  | .arRef _ => none
  | .arFin _ => none
  | .fdUnlR _ => none
  | .hCloneS => none
  | .hCloneR => none
  | .hCloseS => none
  | .hCloseR => none
  | .hWake _ => none

/-- receiver wait states (record never CANCELLED there) -/
def liveR : PC → Option Nat
  | .idle => none
  | .done _ => none
  | .wakeThen _ _ => none
  | .sLock _ _ => none
  | .sWait _ _ => none
  | .sPark _ _ => none
  | .tsLock _ => none
  | .rLock _ => none
  | .rWait r => some r
  | .rPark r => some r
  | .trLock => none
  | .toLock _ => none
  | .toLoad r => some r
  | .toCas r => some r
  | .toUnl _ => none
  | .toFin r => some r
  | .asNew _ _ => none
  | .asLock _ _ => none
  | .asPend _ _ => none
  | .asRef _ _ => none
  | .asFin _ _ => none
  | .fdUnlS _ _ => none
  | .arNew _ => none
  | .arLock _ => none
  | .arPend r => some r
  | .arRef r => some r
  | .arFin r => some r
  | .fdUnlR _ => none
  | .hCloneS => none
  | .hCloneR => none
  | .hCloseS => none
  | .hCloseR => none
  | .hWake _ => none

/-- receiver states entered after the record left the store -/
def finR : PC → Option Nat
  | .idle => none
  | .done _ => none
  | .wakeThen _ _ => none
  | .sLock _ _ => none
  | .sWait _ _ => none
  | .sPark _ _ => none
  | .tsLock _ => none
  | .rLock _ => none
  | .rWait _ => none
  | .rPark _ => none
  | .trLock => none
  | .toLock _ => none
  | .toLoad _ => none
  | .toCas _ => none
  | .toUnl _ => none
  | .toFin r => some r
  | .asNew _ _ => none
  | .asLock _ _ => none
  | .asPend _ _ => none
  | .asRef _ _ => none
  | .asFin _ _ => none
  | .fdUnlS _ _ => none
  | .arNew _ => none
  | .arLock _ => none
  | .arPend _ => none
  | .arRef _ => none
  | .arFin r => some r
  | .fdUnlR _ => none
  | .hCloneS => none
  | .hCloneR => none
  | .hCloseS => none
  | .hCloseR => none
  | .hWake _ => none

theorem recvIn_recOf {p : PC} {r : Nat} (h : recvIn p = some r) : recOf p = some r := by
  cases p <;> simp_all [recvIn, recOf]

theorem liveS_recOf {p : PC} {r : Nat} (h : liveS p = some r) : recOf p = some r := by
  cases p <;> simp_all [liveS, recOf]

theorem liveR_recOf {p : PC} {r : Nat} (h : liveR p = some r) : recOf p = some r := by
  cases p <;> simp_all [liveR, recOf]

theorem finR_recOf {p : PC} {r : Nat} (h : finR p = some r) : recOf p = some r := by
  cases p <;> simp_all [finR, recOf]

theorem unregS_not_recvIn {p : PC} {r : Nat} (h : unregS p = some r) : recvIn p = none := by
  cases p <;> simp_all [unregS, recvIn]

theorem unregR_not_sendReg {p : PC} {r : Nat} (h : unregR p = some r) : sendReg p = none := by
  cases p <;> simp_all [unregR, sendReg]

theorem unregS_not_sendReg {p : PC} {r : Nat} (h : unregS p = some r) : sendReg p = none := by
  cases p <;> simp_all [unregS, sendReg]

theorem unregR_not_recvIn {p : PC} {r : Nat} (h : unregR p = some r) : recvIn p = none := by
  cases p <;> simp_all [unregR, recvIn]

/-- structural group (every reachable state): R1, R2 of DESIGN A.4, the weak form of R4 that does hold
(a linked record is WAITING, or CANCELLED by a canceller that has not yet unlinked it), bookkeeping -/
structure InvRK (s : State) : Prop where
  owner : ∀ t r, recOf (s.pc t) = some r → s.owner r = t ∧ r < s.nextRec
  lt_sq : ∀ r, r ∈ s.sq → r < s.nextRec
  lt_rq : ∀ r, r ∈ s.rq → r < s.nextRec
  nd_sq : s.sq.Nodup
  nd_rq : s.rq.Nodup
  unreg_s : ∀ t r, unregS (s.pc t) = some r → r ∉ s.sq
  unreg_r : ∀ t r, unregR (s.pc t) = some r → r ∉ s.rq
  r1 : s.sq = [] ∨ s.rq = []
  r2 : ∀ r, r ∈ s.sq → s.slot r ≠ none
  sq_st : ∀ r, r ∈ s.sq → s.st r = .waiting ∨ s.st r = .cancelled
  rq_st : ∀ r, r ∈ s.rq → s.st r = .waiting ∨ s.st r = .cancelled
  sq_owner : ∀ r, r ∈ s.sq → sendReg (s.pc (s.owner r)) = some r
  rq_owner : ∀ r, r ∈ s.rq → recvIn (s.pc (s.owner r)) = some r
  canc_s : ∀ t r, liveS (s.pc t) = some r → s.st r ≠ .cancelled
  canc_r : ∀ t r, liveR (s.pc t) = some r → s.st r ≠ .cancelled
  fin_s : ∀ t v r, s.pc t = .asFin v r → r ∉ s.sq
  fin_r : ∀ t r, finR (s.pc t) = some r → r ∉ s.rq ∧ s.st r ≠ .waiting
  k4r : ∀ t r, recvReg (s.pc t) = some r → s.st r = .waiting → r ∈ s.rq
  un_st_s : ∀ t r, unregS (s.pc t) = some r → s.st r = .waiting
  un_st_r : ∀ t r, unregR (s.pc t) = some r → s.st r = .waiting

theorem invRK_init : InvRK init := by
  constructor <;> simp [init, recOf, unregS, unregR, liveS, liveR, finR, recvReg]

/-- proves every clause of an invariant structure by `grind` -/
macro "rk_fin" : tactic => `(tactic| (constructor <;> (simp only []; grind)))

attribute [local grind] recOf unregS unregR sendReg recvIn liveS liveR finR recvReg
attribute [local grind =] nodup_snoc upd_apply bump_apply List.Nodup.mem_erase_iff optL_mem
attribute [local grind →] List.mem_of_mem_erase unregS_recOf unregR_recOf sendReg_recOf recvIn_recOf liveS_recOf liveR_recOf
  finR_recOf recvReg_recOf unregS_not_recvIn unregR_not_sendReg unregS_not_sendReg unregR_not_recvIn
attribute [local grind ←] List.Nodup.erase
attribute [local grind cases] RS

theorem invRK_wakeThen {s : State} {t : Nat} {a : Nat} {res : Res} (hi : InvRK s) (hpc : s.pc t = .wakeThen a res) : InvRK (stepWakeThen s t a res) := by
  obtain ⟨h1, h2, h3, h4, h5, h6, h7, h8, h9, h10, h11, h12, h13, h14, h15, h16, h17, h18, h19, h20⟩ := hi
  simp only [stepWakeThen, giveTo, takeFrom, finishRecv]
  repeat' split
  all_goals rk_fin

theorem invRK_sLock {s : State} {t : Nat} {v : Nat} {r : Nat} (hi : InvRK s) (hpc : s.pc t = .sLock v r) : InvRK (stepSLock s t v r) := by
  obtain ⟨h1, h2, h3, h4, h5, h6, h7, h8, h9, h10, h11, h12, h13, h14, h15, h16, h17, h18, h19, h20⟩ := hi
  simp only [stepSLock, giveTo, takeFrom, finishRecv]
  repeat' split
  all_goals rk_fin

theorem invRK_sWait {s : State} {t : Nat} {v : Nat} {r : Nat} (hi : InvRK s) (hpc : s.pc t = .sWait v r) : InvRK (stepSWait s t v r) := by
  obtain ⟨h1, h2, h3, h4, h5, h6, h7, h8, h9, h10, h11, h12, h13, h14, h15, h16, h17, h18, h19, h20⟩ := hi
  simp only [stepSWait, giveTo, takeFrom, finishRecv]
  repeat' split
  all_goals rk_fin

theorem invRK_tsLock {s : State} {t : Nat} {v : Nat} (hi : InvRK s) (hpc : s.pc t = .tsLock v) : InvRK (stepTsLock s t v) := by
  obtain ⟨h1, h2, h3, h4, h5, h6, h7, h8, h9, h10, h11, h12, h13, h14, h15, h16, h17, h18, h19, h20⟩ := hi
  simp only [stepTsLock, giveTo, takeFrom, finishRecv]
  repeat' split
  all_goals rk_fin

theorem invRK_rLock {s : State} {t : Nat} {r : Nat} (hi : InvRK s) (hpc : s.pc t = .rLock r) : InvRK (stepRLock s t r) := by
  obtain ⟨h1, h2, h3, h4, h5, h6, h7, h8, h9, h10, h11, h12, h13, h14, h15, h16, h17, h18, h19, h20⟩ := hi
  simp only [stepRLock, giveTo, takeFrom, finishRecv]
  repeat' split
  all_goals rk_fin

theorem invRK_rWait {s : State} {t : Nat} {r : Nat} (hi : InvRK s) (hpc : s.pc t = .rWait r) : InvRK (stepRWait s t r) := by
  obtain ⟨h1, h2, h3, h4, h5, h6, h7, h8, h9, h10, h11, h12, h13, h14, h15, h16, h17, h18, h19, h20⟩ := hi
  simp only [stepRWait, giveTo, takeFrom, finishRecv]
  repeat' split
  all_goals rk_fin

theorem invRK_trLock {s : State} {t : Nat} (hi : InvRK s) (hpc : s.pc t = .trLock) : InvRK (stepTrLock s t ) := by
  obtain ⟨h1, h2, h3, h4, h5, h6, h7, h8, h9, h10, h11, h12, h13, h14, h15, h16, h17, h18, h19, h20⟩ := hi
  simp only [stepTrLock, giveTo, takeFrom, finishRecv]
  repeat' split
  all_goals rk_fin

theorem invRK_toLock {s : State} {t : Nat} {r : Nat} (hi : InvRK s) (hpc : s.pc t = .toLock r) : InvRK (stepToLock s t r) := by
  obtain ⟨h1, h2, h3, h4, h5, h6, h7, h8, h9, h10, h11, h12, h13, h14, h15, h16, h17, h18, h19, h20⟩ := hi
  simp only [stepToLock, giveTo, takeFrom, finishRecv]
  repeat' split
  all_goals rk_fin

theorem invRK_toLoad {s : State} {t : Nat} {r : Nat} (hi : InvRK s) (hpc : s.pc t = .toLoad r) : InvRK (stepToLoad s t r) := by
  obtain ⟨h1, h2, h3, h4, h5, h6, h7, h8, h9, h10, h11, h12, h13, h14, h15, h16, h17, h18, h19, h20⟩ := hi
  simp only [stepToLoad, giveTo, takeFrom, finishRecv]
  repeat' split
  all_goals rk_fin

theorem invRK_toCas {s : State} {t : Nat} {r : Nat} (hi : InvRK s) (hpc : s.pc t = .toCas r) : InvRK (stepToCas s t r) := by
  obtain ⟨h1, h2, h3, h4, h5, h6, h7, h8, h9, h10, h11, h12, h13, h14, h15, h16, h17, h18, h19, h20⟩ := hi
  simp only [stepToCas, giveTo, takeFrom, finishRecv]
  repeat' split
  all_goals rk_fin

theorem invRK_toUnl {s : State} {t : Nat} {r : Nat} (hi : InvRK s) (hpc : s.pc t = .toUnl r) : InvRK (stepToUnl s t r) := by
  obtain ⟨h1, h2, h3, h4, h5, h6, h7, h8, h9, h10, h11, h12, h13, h14, h15, h16, h17, h18, h19, h20⟩ := hi
  simp only [stepToUnl, giveTo, takeFrom, finishRecv]
  repeat' split
  all_goals rk_fin

theorem invRK_toFin {s : State} {t : Nat} {r : Nat} (hi : InvRK s) (hpc : s.pc t = .toFin r) : InvRK (stepToFin s t r) := by
  obtain ⟨h1, h2, h3, h4, h5, h6, h7, h8, h9, h10, h11, h12, h13, h14, h15, h16, h17, h18, h19, h20⟩ := hi
  simp only [stepToFin, giveTo, takeFrom, finishRecv]
  repeat' split
  all_goals rk_fin

theorem invRK_asLock {s : State} {t : Nat} {v : Nat} {r : Nat} (hi : InvRK s) (hpc : s.pc t = .asLock v r) : InvRK (stepAsLock s t v r) := by
  obtain ⟨h1, h2, h3, h4, h5, h6, h7, h8, h9, h10, h11, h12, h13, h14, h15, h16, h17, h18, h19, h20⟩ := hi
  simp only [stepAsLock, giveTo, takeFrom, finishRecv]
  repeat' split
  all_goals rk_fin

theorem invRK_asRef {s : State} {t : Nat} {v : Nat} {r : Nat} (hi : InvRK s) (hpc : s.pc t = .asRef v r) : InvRK (stepAsRef s t v r) := by
  obtain ⟨h1, h2, h3, h4, h5, h6, h7, h8, h9, h10, h11, h12, h13, h14, h15, h16, h17, h18, h19, h20⟩ := hi
  simp only [stepAsRef, giveTo, takeFrom, finishRecv]
  repeat' split
  all_goals rk_fin

theorem invRK_asFin {s : State} {t : Nat} {v : Nat} {r : Nat} (hi : InvRK s) (hpc : s.pc t = .asFin v r) : InvRK (stepAsFin s t v r) := by
  obtain ⟨h1, h2, h3, h4, h5, h6, h7, h8, h9, h10, h11, h12, h13, h14, h15, h16, h17, h18, h19, h20⟩ := hi
  simp only [stepAsFin, giveTo, takeFrom, finishRecv]
  repeat' split
  all_goals rk_fin

theorem invRK_fdUnlS {s : State} {t : Nat} {v : Nat} {r : Nat} (hi : InvRK s) (hpc : s.pc t = .fdUnlS v r) : InvRK (stepFdUnlS s t v r) := by
  obtain ⟨h1, h2, h3, h4, h5, h6, h7, h8, h9, h10, h11, h12, h13, h14, h15, h16, h17, h18, h19, h20⟩ := hi
  simp only [stepFdUnlS, giveTo, takeFrom, finishRecv]
  repeat' split
  all_goals rk_fin

theorem invRK_arLock {s : State} {t : Nat} {r : Nat} (hi : InvRK s) (hpc : s.pc t = .arLock r) : InvRK (stepArLock s t r) := by
  obtain ⟨h1, h2, h3, h4, h5, h6, h7, h8, h9, h10, h11, h12, h13, h14, h15, h16, h17, h18, h19, h20⟩ := hi
  simp only [stepArLock, giveTo, takeFrom, finishRecv]
  repeat' split
  all_goals rk_fin

theorem invRK_arRef {s : State} {t : Nat} {r : Nat} (hi : InvRK s) (hpc : s.pc t = .arRef r) : InvRK (stepArRef s t r) := by
  obtain ⟨h1, h2, h3, h4, h5, h6, h7, h8, h9, h10, h11, h12, h13, h14, h15, h16, h17, h18, h19, h20⟩ := hi
  simp only [stepArRef, giveTo, takeFrom, finishRecv]
  repeat' split
  all_goals rk_fin

theorem invRK_arFin {s : State} {t : Nat} {r : Nat} (hi : InvRK s) (hpc : s.pc t = .arFin r) : InvRK (stepArFin s t r) := by
  obtain ⟨h1, h2, h3, h4, h5, h6, h7, h8, h9, h10, h11, h12, h13, h14, h15, h16, h17, h18, h19, h20⟩ := hi
  simp only [stepArFin, giveTo, takeFrom, finishRecv]
  repeat' split
  all_goals rk_fin

theorem invRK_fdUnlR {s : State} {t : Nat} {r : Nat} (hi : InvRK s) (hpc : s.pc t = .fdUnlR r) : InvRK (stepFdUnlR s t r) := by
  obtain ⟨h1, h2, h3, h4, h5, h6, h7, h8, h9, h10, h11, h12, h13, h14, h15, h16, h17, h18, h19, h20⟩ := hi
  simp only [stepFdUnlR, giveTo, takeFrom, finishRecv]
  repeat' split
  all_goals rk_fin

theorem invRK_hWake {s : State} {t : Nat} {ws : List Nat} (hi : InvRK s) (hpc : s.pc t = .hWake ws) : InvRK (stepHWake s t ws) := by
  obtain ⟨h1, h2, h3, h4, h5, h6, h7, h8, h9, h10, h11, h12, h13, h14, h15, h16, h17, h18, h19, h20⟩ := hi
  simp only [stepHWake, giveTo, takeFrom, finishRecv]
  repeat' split
  all_goals rk_fin

theorem invRK_sPark {s s' : State} {t : Nat} {v : Nat} {r : Nat} (hi : InvRK s) (hpc : s.pc t = .sPark v r) (h : stepSPark s t v r = some s') : InvRK s' := by
  obtain ⟨h1, h2, h3, h4, h5, h6, h7, h8, h9, h10, h11, h12, h13, h14, h15, h16, h17, h18, h19, h20⟩ := hi
  unfold stepSPark at h
  repeat' split at h
  all_goals (simp at h; try subst h)
  all_goals (try generalize List.map s.owner _ = wsl)
  all_goals rk_fin

theorem invRK_rPark {s s' : State} {t : Nat} {r : Nat} (hi : InvRK s) (hpc : s.pc t = .rPark r) (h : stepRPark s t r = some s') : InvRK s' := by
  obtain ⟨h1, h2, h3, h4, h5, h6, h7, h8, h9, h10, h11, h12, h13, h14, h15, h16, h17, h18, h19, h20⟩ := hi
  unfold stepRPark at h
  repeat' split at h
  all_goals (simp at h; try subst h)
  all_goals (try generalize List.map s.owner _ = wsl)
  all_goals rk_fin

theorem invRK_closeS {s s' : State} {t : Nat} (hi : InvRK s) (hpc : s.pc t = .hCloseS) (h : stepCloseS s t  = some s') : InvRK s' := by
  obtain ⟨h1, h2, h3, h4, h5, h6, h7, h8, h9, h10, h11, h12, h13, h14, h15, h16, h17, h18, h19, h20⟩ := hi
  unfold stepCloseS at h
  repeat' split at h
  all_goals (simp at h; try subst h)
  all_goals (try generalize List.map s.owner _ = wsl)
  all_goals rk_fin

theorem invRK_closeR {s s' : State} {t : Nat} (hi : InvRK s) (hpc : s.pc t = .hCloseR) (h : stepCloseR s t  = some s') : InvRK s' := by
  obtain ⟨h1, h2, h3, h4, h5, h6, h7, h8, h9, h10, h11, h12, h13, h14, h15, h16, h17, h18, h19, h20⟩ := hi
  unfold stepCloseR at h
  repeat' split at h
  all_goals (simp at h; try subst h)
  all_goals (try generalize List.map s.owner _ = wsl)
  all_goals rk_fin

theorem invRK_adv {s s' : State} {t : Nat} (hi : InvRK s) (h : stepAdv s t = some s') : InvRK s' := by
  unfold stepAdv at h
  split at h
  all_goals (first | (simp at h; done) | skip)
  all_goals rename_i hpc
  case h_1 => simp at h; subst h; exact invRK_wakeThen hi hpc
  case h_2 => simp at h; subst h; exact invRK_sLock hi hpc
  case h_3 => simp at h; subst h; exact invRK_sWait hi hpc
  case h_4 => exact invRK_sPark hi hpc h
  case h_5 => simp at h; subst h; exact invRK_tsLock hi hpc
  case h_6 => simp at h; subst h; exact invRK_rLock hi hpc
  case h_7 => simp at h; subst h; exact invRK_rWait hi hpc
  case h_8 => exact invRK_rPark hi hpc h
  case h_9 => simp at h; subst h; exact invRK_trLock hi hpc
  case h_10 => simp at h; subst h; exact invRK_toLock hi hpc
  case h_11 => simp at h; subst h; exact invRK_toLoad hi hpc
  case h_12 => simp at h; subst h; exact invRK_toCas hi hpc
  case h_13 => simp at h; subst h; exact invRK_toUnl hi hpc
  case h_14 => simp at h; subst h; exact invRK_toFin hi hpc
  case h_15 => simp at h; subst h; exact invRK_asLock hi hpc
  case h_16 => simp at h; subst h; exact invRK_asRef hi hpc
  case h_17 => simp at h; subst h; exact invRK_asFin hi hpc
  case h_18 => simp at h; subst h; exact invRK_fdUnlS hi hpc
  case h_19 => simp at h; subst h; exact invRK_arLock hi hpc
  case h_20 => simp at h; subst h; exact invRK_arRef hi hpc
  case h_21 => simp at h; subst h; exact invRK_arFin hi hpc
  case h_22 => simp at h; subst h; exact invRK_fdUnlR hi hpc
  case h_23 =>
    simp at h; subst h
    obtain ⟨h1, h2, h3, h4, h5, h6, h7, h8, h9, h10, h11, h12, h13, h14, h15, h16, h17, h18, h19, h20⟩ := hi
    rk_fin
  case h_24 =>
    simp at h; subst h
    obtain ⟨h1, h2, h3, h4, h5, h6, h7, h8, h9, h10, h11, h12, h13, h14, h15, h16, h17, h18, h19, h20⟩ := hi
    rk_fin
  case h_25 => exact invRK_closeS hi hpc h
  case h_26 => exact invRK_closeR hi hpc h
  case h_27 => simp at h; subst h; exact invRK_hWake hi hpc

set_option maxHeartbeats 1600000 in
theorem invRK_call {s s' : State} {t : Nat} {op : Op} (hi : InvRK s) (h : stepCall s t op = some s') : InvRK s' := by
  obtain ⟨h1, h2, h3, h4, h5, h6, h7, h8, h9, h10, h11, h12, h13, h14, h15, h16, h17, h18, h19, h20⟩ := hi
  unfold stepCall at h
  split at h
  · rename_i hr
    have hr' : s.pc t = .idle ∨ ∃ x, s.pc t = .done x := by
      cases hp : s.pc t <;> simp_all [PC.atRest]
    cases op <;> simp only [] at h
    all_goals (repeat' split at h)
    all_goals (simp at h; try subst h)
    all_goals rk_fin
  · simp at h

set_option maxHeartbeats 1600000 in
theorem invRK_poll {s s' : State} {t : Nat} (hi : InvRK s) (h : stepPoll s t = some s') : InvRK s' := by
  obtain ⟨h1, h2, h3, h4, h5, h6, h7, h8, h9, h10, h11, h12, h13, h14, h15, h16, h17, h18, h19, h20⟩ := hi
  unfold stepPoll at h
  repeat' split at h
  all_goals (simp at h; try subst h)
  all_goals (try simp only [giveTo, takeFrom, finishRecv])
  all_goals (repeat' split)
  all_goals rk_fin

set_option maxHeartbeats 1600000 in
theorem invRK_dropFut {s s' : State} {t : Nat} (hi : InvRK s) (h : stepDropFut s t = some s') : InvRK s' := by
  obtain ⟨h1, h2, h3, h4, h5, h6, h7, h8, h9, h10, h11, h12, h13, h14, h15, h16, h17, h18, h19, h20⟩ := hi
  unfold stepDropFut at h
  repeat' split at h
  all_goals (simp at h; try subst h)
  all_goals skip
  all_goals rk_fin

theorem invRK_spurious {s s' : State} {t : Nat} (hi : InvRK s) (h : stepSpurious s t = some s') : InvRK s' := by
  obtain ⟨h1, h2, h3, h4, h5, h6, h7, h8, h9, h10, h11, h12, h13, h14, h15, h16, h17, h18, h19, h20⟩ := hi
  unfold stepSpurious at h
  repeat' split at h
  all_goals (simp at h; try subst h)
  all_goals rk_fin

theorem invRK_step {s s' : State} {t : Nat} {l : Label} (hi : InvRK s) (h : step s t l = some s') : InvRK s' := by
  cases l <;> simp only [step] at h
  · exact invRK_call hi h
  · exact invRK_adv hi h
  · exact invRK_poll hi h
  · exact invRK_dropFut hi h
  · exact invRK_spurious hi h


theorem invRK_reach {s : State} (h : Reach s) : InvRK s := by
  induction h with
  | init => exact invRK_init
  | step _ hs ih => exact invRK_step ih hs

end Fv.Chan.RendezvousB
