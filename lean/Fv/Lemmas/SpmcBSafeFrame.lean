import Fv.Lemmas.SpmcBSafeDefs
/-! Frame and transfer lemmas for the safety invariant of `Fv.Chan.SpmcB`. -/
namespace Fv.Chan.SpmcB
open Fv.Chan.LeftRightB (upd upd_apply upd_same)

theorem okS_not_rcv {p : PC} (hp : okS p) {r : Nat} {q : RPC} : p ≠ .rcv r q := by
  rcases hp with ⟨res, rfl⟩ | ⟨q', rfl⟩ <;> simp

theorem okR_not_snd {r : Nat} {p : PC} (hp : okR r p) {q : SPC} : p ≠ .snd q := by
  rcases hp with ⟨res, rfl⟩ | ⟨q', rfl⟩ <;> simp

/-- frame rule for a step of the thread inside the sender operation -/
theorem safe_S {s s' : State} {t : Nat} {q : SPC} {p : PC} (ha : InvA s) (hs : Safe s) (hpc : s.pc t = .snd q)
    (hpc' : s'.pc = upd s.pc t p) (hso : s'.sOwner = if isRet p then none else s.sOwner)
    (hro : s'.rOwner = s.rOwner) (hrv : s'.resv = s.resv) (hp : okS p)
    (hg : GFact s'.core)
    (hnew : ∀ q', p = .snd q' → sFact s'.core q')
    (hret : ∀ res, p = .ret res → s'.head = s'.sent.length ∧ s'.dirty = false)
    (hrf : ∀ u r q, rFact s.core u r q → rFact s'.core u r q) : Safe s' := by
  have hown : s.sOwner = some t := (ha.sown t).2 (by rw [hpc]; rfl)
  refine ⟨hg, ?_, ?_, ?_, ?_⟩
  · intro u q' h
    rw [hpc'] at h
    by_cases hut : u = t
    · subst hut; rw [upd_same] at h; exact hnew q' h
    · simp only [upd_apply, if_neg hut] at h
      have := (ha.sown u).2 (by rw [h]; rfl)
      rw [hown] at this; exact absurd (Option.some.inj this).symm hut
  · intro u r q' h
    rw [hpc'] at h
    by_cases hut : u = t
    · subst hut; rw [upd_same] at h; exact absurd h (okS_not_rcv hp)
    · simp only [upd_apply, if_neg hut] at h
      exact hrf u r q' (hs.rf u r q' h)
  · intro h
    rcases hp with ⟨res, rfl⟩ | ⟨q', rfl⟩
    · exact hret res rfl
    · rw [hso] at h; simp only [isRet] at h; rw [hown] at h; simp at h
  · intro n hn
    rw [hrv] at hn; rw [hro]; exact hs.resvFree n hn

/-- frame rule for a step of a thread inside an operation on the receiver with cell `r` -/
theorem safe_R {s s' : State} {t r : Nat} {q : RPC} {p : PC} (ha : InvA s) (hs : Safe s) (hpc : s.pc t = .rcv r q)
    (hpc' : s'.pc = upd s.pc t p) (hso : s'.sOwner = s.sOwner)
    (hro : s'.rOwner = if isRet p then upd s.rOwner r none else s.rOwner) (hp : okR r p)
    (hg : GFact s'.core)
    (hnew : ∀ q', p = .rcv r q' → rFact s'.core t r q')
    (hsf : ∀ q, sFact s.core q → sFact s'.core q)
    (hrf : ∀ u r' q, u ≠ t → r' ≠ r → rFact s.core u r' q → rFact s'.core u r' q)
    (hidle : s.head = s.sent.length ∧ s.dirty = false → s'.head = s'.sent.length ∧ s'.dirty = false)
    (hrv : ∀ n, s'.resv n ≠ none → s.resv n ≠ none ∨ s.rOwner n = none) : Safe s' := by
  have hown : s.rOwner r = some t := (ha.rown t r).2 (by rw [hpc]; rfl)
  refine ⟨hg, ?_, ?_, ?_, ?_⟩
  · intro u q' h
    rw [hpc'] at h
    by_cases hut : u = t
    · subst hut; rw [upd_same] at h; exact absurd h (okR_not_snd hp)
    · simp only [upd_apply, if_neg hut] at h
      exact hsf q' (hs.sf u q' h)
  · intro u r' q' h
    rw [hpc'] at h
    by_cases hut : u = t
    · subst hut; rw [upd_same] at h
      rcases hp with ⟨res, rfl⟩ | ⟨q'', rfl⟩
      · simp at h
      · simp only [PC.rcv.injEq] at h; obtain ⟨rfl, rfl⟩ := h; exact hnew q'' rfl
    · simp only [upd_apply, if_neg hut] at h
      have hne : r' ≠ r := by
        intro e; subst e
        have := (ha.rown u r').2 (by rw [h]; rfl)
        rw [hown] at this; exact hut (Option.some.inj this).symm
      exact hrf u r' q' hut hne (hs.rf u r' q' h)
  · intro h; rw [hso] at h; exact hidle (hs.idle h)
  · intro n hn
    have hold : s.rOwner n = none := by
      rcases hrv n hn with h | h
      · exact hs.resvFree n h
      · exact h
    rw [hro]; split
    · simp only [upd_apply]; split <;> simp [hold]
    · exact hold

/-- receivers' facts survive a sender step that only appends to `sent` and advances `head` -/
theorem rFact_mono_S {c c' : Core} (hn : c'.nextCell = c.nextCell) (hrv : c'.resv = c.resv)
    (hcl : c'.rclosed = c.rclosed) (hcur : c'.cur = c.cur) (hc0 : c'.c0 = c.c0) (hgot : c'.got = c.got)
    (hdata : c'.data = c.data) (hsent : ∃ e, c'.sent = c.sent ++ e) (hhead : c.head ≤ c'.head)
    (hpd : c.pdropped = true → c'.pdropped = true ∧ c'.head = c.head)
    {u r : Nat} {q : RPC} (h : rFact c u r q) : rFact c' u r q := by
  obtain ⟨e, he⟩ := hsent
  cases q with
  | mLock k => cases k <;> simp_all [rFact, rBase, cloneFact]
  | mMod k p => cases k <;> cases p <;> simp_all [rFact, rBase, cloneFact, pushedAt]
  | mUnlock k => cases k <;> simp_all [rFact, rBase, cloneFact]
  | rVal x k => simp only [rFact, rBase, hn, hrv, hcl, hcur, he, List.length_append] at *; exact ⟨h.1, h.2.1, by omega⟩
  | rSt x k vs =>
    simp only [rFact, rBase, hn, hrv, hcl, hcur, he, List.length_append] at *
    refine ⟨h.1, h.2.1, by omega, ?_⟩
    rw [List.drop_append_of_le_length (by omega), List.take_append_of_le_length (by simp; omega)]
    exact h.2.2.2
  | bVals x k n => simp only [rFact, rBase, hn, hrv, hcl, hcur] at *; exact ⟨h.1, h.2.1, by omega⟩
  | eLock x k =>
    simp only [rFact, rBase, hn, hrv, hcl, hcur] at *
    exact ⟨h.1, h.2.1, (hpd h.2.2.1).1, by have := h.2.2.2; rw [(hpd h.2.2.1).2]; omega⟩
  | eUnlock x k =>
    simp only [rFact, rBase, hn, hrv, hcl, hcur] at *
    exact ⟨h.1, h.2.1, (hpd h.2.2.1).1, by have := h.2.2.2; rw [(hpd h.2.2.1).2]; omega⟩
  | _ => simp_all [rFact, rBase]


/-- cell-indexed maps agree at `x` -/
def AgreeAt (c c' : Core) (x : Nat) : Prop :=
  c'.cur x = c.cur x ∧ c'.c0 x = c.c0 x ∧ c'.got x = c.got x ∧ c'.rclosed x = c.rclosed x ∧ c'.resv x = c.resv x

/-- another receiver thread's facts survive a receiver step that touches only the cells in `ex`
(and cells allocated by the step) -/
theorem rFact_ext {c c' : Core} (ex : Nat → Prop) (hg : GFact c) (hn : c.nextCell ≤ c'.nextCell)
    (hmaps : ∀ x, ¬ ex x → x < c.nextCell → AgreeAt c c' x)
    (hsent : c'.sent = c.sent) (hhead : c'.head = c.head) (hpd : c'.pdropped = c.pdropped)
    (hdata : ∀ i x, ¬ ex x → x ∈ c.data i → x ∈ c'.data i)
    {u r : Nat} {q : RPC} (hr : ¬ ex r) (hcl : ∀ n, c.resv n = some u → ¬ ex n)
    (h : rFact c u r q) : rFact c' u r q := by
  have hb := rFact_base h
  have ⟨a1, a2, a3, a4, a5⟩ := hmaps r hr hb.1
  have hclone : ∀ n, cloneFact c u r n → cloneFact c' u r n := by
    intro n ⟨f1, f2, f3, f4, f5, f6⟩
    have ⟨b1, b2, b3, b4, b5⟩ := hmaps n (hcl n f2) (hg.resv_lt n u f2).1
    exact ⟨f1, by rw [b5]; exact f2, by rw [b1, a1]; exact f3, by rw [b2, a1]; exact f4, by rw [b3]; exact f5, by rw [b4]; exact f6⟩
  have hmem : ∀ n i, c.resv n = some u → n ∈ c.data i → n ∈ c'.data i := fun n i hn' hm => hdata i n (hcl n hn') hm
  cases q with
  | mLock k =>
    cases k with
    | clone n => simp only [rFact, rBase] at *; rw [a4, a5]; exact ⟨⟨by omega, h.1.2.1, h.1.2.2⟩, hclone n h.2⟩
    | unreg => simp only [rFact] at *; rw [a4, a5]; exact ⟨by omega, h.2.1, h.2.2⟩
  | mMod k p =>
    cases k with
    | clone n =>
      simp only [rFact, rBase] at *; rw [a4, a5]
      refine ⟨⟨by omega, h.1.2.1, h.1.2.2⟩, hclone n h.2.1, h.2.2.1, ?_, h.2.2.2.2⟩
      have hrn := h.2.1.2.1
      have hp := h.2.2.2.1
      cases p <;> simp only [pushedAt] at * <;> first | trivial | exact hmem n _ hrn hp | exact ⟨hmem n _ hrn hp.1, hmem n _ hrn hp.2⟩
    | unreg => simp only [rFact] at *; rw [a4, a5]; exact ⟨by omega, h.2.1, h.2.2.1, h.2.2.2.1, h.2.2.2.2⟩
  | mUnlock k =>
    cases k with
    | clone n =>
      simp only [rFact, rBase] at *; rw [a4, a5]
      have hrn := h.2.1.2.1
      exact ⟨⟨by omega, h.1.2.1, h.1.2.2⟩, hclone n h.2.1, hmem n _ hrn h.2.2.1, hmem n _ hrn h.2.2.2⟩
    | unreg => simp only [rFact] at *; rw [a4, a5]; exact ⟨by omega, h.2.1, h.2.2⟩
  | rVal x k => simp only [rFact, rBase] at *; rw [a1, a4, a5, hsent]; exact ⟨⟨by omega, h.1.2.1, h.1.2.2⟩, h.2⟩
  | rSt x k vs => simp only [rFact, rBase] at *; rw [a1, a4, a5, hsent]; exact ⟨⟨by omega, h.1.2.1, h.1.2.2⟩, h.2⟩
  | bVals x k n => simp only [rFact, rBase] at *; rw [a1, a4, a5, hhead]; exact ⟨⟨by omega, h.1.2.1, h.1.2.2⟩, h.2⟩
  | rHead x k => simp only [rFact, rBase] at *; rw [a1, a4, a5, hpd]; exact ⟨⟨by omega, h.1.2.1, h.1.2.2⟩, h.2⟩
  | bHd2 x k => simp only [rFact, rBase] at *; rw [a1, a4, a5, hpd]; exact ⟨⟨by omega, h.1.2.1, h.1.2.2⟩, h.2⟩
  | eHead x => simp only [rFact, rBase] at *; rw [a4, a5, hpd]; exact ⟨⟨by omega, h.1.2.1, h.1.2.2⟩, h.2⟩
  | eCur x h0 => simp only [rFact, rBase] at *; rw [a4, a5, hpd, hhead]; exact ⟨⟨by omega, h.1.2.1, h.1.2.2⟩, h.2⟩
  | eLock x k => simp only [rFact, rBase] at *; rw [a1, a4, a5, hpd, hhead]; exact ⟨⟨by omega, h.1.2.1, h.1.2.2⟩, h.2⟩
  | eUnlock x k => simp only [rFact, rBase] at *; rw [a1, a4, a5, hpd, hhead]; exact ⟨⟨by omega, h.1.2.1, h.1.2.2⟩, h.2⟩
  | _ =>
    simp only [rFact, rBase] at *
    first
      | (rw [a1, a4, a5]; exact ⟨⟨by omega, h.1.2.1, h.1.2.2⟩, h.2⟩)
      | (rw [a4, a5]; exact ⟨by omega, h.2.1, h.2.2⟩)
      | (rw [a5]; exact ⟨by omega, h.2⟩)

/-- the sender's facts survive a receiver step (cursors only grow, cells are only added) -/
theorem sFact_mono_R {c c' : Core} (hcap : c'.cap = c.cap) (hhead : c'.head = c.head) (hsent : c'.sent = c.sent)
    (hdirty : c'.dirty = c.dirty) (hlim : c'.lim = c.lim) (hseq : c'.seq = c.seq) (hval : c'.val = c.val)
    (hscl : c'.sclosed = c.sclosed) (hn : c.nextCell ≤ c'.nextCell) (hcur : ∀ x, x < c.nextCell → c.cur x ≤ c'.cur x)
    {q : SPC} (h : sFact c q) : sFact c' q := by
  cases q with
  | sScan k h0 i done todo m =>
    simp only [sFact, idleLike, hcap, hhead, hsent, hdirty, hlim, hscl] at *
    obtain ⟨f1, f2, f3, f4, f5, f6⟩ := h
    refine ⟨f1, f2, f3, fun r hr => by have := f4 r hr; omega, ?_, f6⟩
    intro v hv
    refine ⟨?_, (f5 v hv).2⟩
    intro r hr
    have := (f5 v hv).1 r hr; have := hcur r (f4 r hr); omega
  | _ => simp only [sFact, idleLike, hcap, hhead, hsent, hdirty, hlim, hseq, hval, hscl] at *; exact h

end Fv.Chan.SpmcB
