import Fv.Lemmas.OneshotBBase
/-! Preservation of the control invariant `I1` of the step-level oneshot model. -/
namespace Fv.Chan.OneshotB

attribute [local grind cases] Ag

set_option maxHeartbeats 4000000 in
theorem i1_send {s s' : State} {a : Ag}  (hi : I1 s) (h : stepSend s a = some s') : I1 s' := by
  obtain ⟨kSend, bodyK, freshM, freshP, freshG, goneM, finR, finS, finU, freedR, freedS, freedF, ciCl, rdropCl, recvOpen, dcST⟩ := hi
  os_split h [stepSend]
  all_goals (constructor <;> os_close a)

set_option maxHeartbeats 4000000 in
theorem i1_wk {s s' : State} {a : Ag}  (hi : I1 s) (h : stepWk s a = some s') : I1 s' := by
  obtain ⟨kSend, bodyK, freshM, freshP, freshG, goneM, finR, finS, finU, freedR, freedS, freedF, ciCl, rdropCl, recvOpen, dcST⟩ := hi
  os_split h [stepWk]
  all_goals (constructor <;> os_close a)

set_option maxHeartbeats 4000000 in
theorem i1_cl {s s' : State} {a : Ag}  (hi : I1 s) (h : stepCl s a = some s') : I1 s' := by
  obtain ⟨kSend, bodyK, freshM, freshP, freshG, goneM, finR, finS, finU, freedR, freedS, freedF, ciCl, rdropCl, recvOpen, dcST⟩ := hi
  os_split h [stepCl]
  all_goals (constructor <;> os_close a)

set_option maxHeartbeats 4000000 in
theorem i1_x {s s' : State} {a : Ag}  (hi : I1 s) (h : stepX s a = some s') : I1 s' := by
  obtain ⟨kSend, bodyK, freshM, freshP, freshG, goneM, finR, finS, finU, freedR, freedS, freedF, ciCl, rdropCl, recvOpen, dcST⟩ := hi
  os_split h [stepX]
  all_goals (constructor <;> os_close a)

set_option maxHeartbeats 4000000 in
theorem i1_pb {s s' : State} {a : Ag}  (hi : I1 s) (h : stepPb s a = some s') : I1 s' := by
  obtain ⟨kSend, bodyK, freshM, freshP, freshG, goneM, finR, finS, finU, freedR, freedS, freedF, ciCl, rdropCl, recvOpen, dcST⟩ := hi
  os_split h [stepPb]
  all_goals (constructor <;> os_close a)

set_option maxHeartbeats 4000000 in
theorem i1_try {s s' : State} {a : Ag}  (hi : I1 s) (h : stepTry s a = some s') : I1 s' := by
  obtain ⟨kSend, bodyK, freshM, freshP, freshG, goneM, finR, finS, finU, freedR, freedS, freedF, ciCl, rdropCl, recvOpen, dcST⟩ := hi
  os_split h [stepTry]
  all_goals (constructor <;> os_close a)

set_option maxHeartbeats 4000000 in
theorem i1_try2 {s s' : State} {a : Ag}  (hi : I1 s) (h : stepTry2 s a = some s') : I1 s' := by
  obtain ⟨kSend, bodyK, freshM, freshP, freshG, goneM, finR, finS, finU, freedR, freedS, freedF, ciCl, rdropCl, recvOpen, dcST⟩ := hi
  os_split h [stepTry2]
  all_goals (constructor <;> os_close a)

set_option maxHeartbeats 4000000 in
theorem i1_poll {s s' : State} {a : Ag}  (hi : I1 s) (h : stepPoll s a = some s') : I1 s' := by
  obtain ⟨kSend, bodyK, freshM, freshP, freshG, goneM, finR, finS, finU, freedR, freedS, freedF, ciCl, rdropCl, recvOpen, dcST⟩ := hi
  os_split h [stepPoll]
  all_goals (constructor <;> os_close a)

set_option maxHeartbeats 4000000 in
theorem i1_call {s s' : State} {a : Ag}  (hi : I1 s) (h : stepCall s a = some s') : I1 s' := by
  obtain ⟨kSend, bodyK, freshM, freshP, freshG, goneM, finR, finS, finU, freedR, freedS, freedF, ciCl, rdropCl, recvOpen, dcST⟩ := hi
  cases a with
  | S i =>
    os_split h [stepCall]
    all_goals (constructor <;> os_close (Ag.S i))
  | R =>
    os_split h [stepCall]
    all_goals (constructor <;> os_close Ag.R)

set_option maxHeartbeats 4000000 in
theorem i1_ret {s s' : State} {a : Ag}  (hi : I1 s) (h : stepRet s a = some s') : I1 s' := by
  obtain ⟨kSend, bodyK, freshM, freshP, freshG, goneM, finR, finS, finU, freedR, freedS, freedF, ciCl, rdropCl, recvOpen, dcST⟩ := hi
  os_split h [stepRet]
  all_goals (constructor <;> os_close a)

set_option maxHeartbeats 4000000 in
theorem i1_spur {s s' : State} {a : Ag}  (hi : I1 s) (h : stepSpurious s a = some s') : I1 s' := by
  obtain ⟨kSend, bodyK, freshM, freshP, freshG, goneM, finR, finS, finU, freedR, freedS, freedF, ciCl, rdropCl, recvOpen, dcST⟩ := hi
  os_split h [stepSpurious]
  all_goals (constructor <;> os_close a)

end Fv.Chan.OneshotB
