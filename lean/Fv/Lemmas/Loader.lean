import Fv.Cache.Loader
/-! Invariants of the loader single-flight protocol model (helper lemmas for `Fv.Props.C15`). -/
namespace Fv.Cache.Loader

@[simp] theorem upd_same {α} (f : Nat → α) (i : Nat) (a : α) : upd f i a i = a := by simp [upd]
theorem upd_other {α} (f : Nat → α) (i j : Nat) (a : α) (h : j ≠ i) : upd f i a j = f j := by simp [upd, h]
theorem upd_apply {α} (f : Nat → α) (i j : Nat) (a : α) : upd f i a j = if j = i then a else f j := rfl

/-- PCs that hold the pending marker of `(key, future)`. -/
def ownerOf : PC → Option (Nat × Nat)
  | .spawning k f => some (k, f)
  | .ldStart k f => some (k, f)
  | .ldInsert k f _ => some (k, f)
  | .ldRemove k f _ => some (k, f)
  | _ => none

/-- PCs whose thread (or the loader it is about to spawn) will complete future `f`. -/
def completerOf : PC → Option Nat
  | .spawning _ f => some f
  | .ldStart _ f => some f
  | .ldInsert _ f _ => some f
  | .ldRemove _ f _ => some f
  | .ldComplete _ f _ => some f
  | _ => none

theorem completer_of_owner {pc : PC} {k f : Nat} (h : ownerOf pc = some (k, f)) : completerOf pc = some f := by
  cases pc <;> simp_all [ownerOf, completerOf]

structure Inv (s : State) : Prop where
  fresh : ∀ t, s.nextTid ≤ t → s.pc t = .idle
  owner_marker : ∀ t k f, ownerOf (s.pc t) = some (k, f) → s.pending k = some f
  completer_unique : ∀ t1 t2 f, completerOf (s.pc t1) = some f → completerOf (s.pc t2) = some f → t1 = t2
  completer_open : ∀ t f, completerOf (s.pc t) = some f → f < s.nextFut ∧ (s.futs f).value = none
  marker_owner : ∀ k f, s.pending k = some f → ∃ t, ownerOf (s.pc t) = some (k, f)
  parked_registered : ∀ t f, s.pc t = .parking f → s.token t = false →
      (s.futs f).value = none ∧ t ∈ (s.futs f).waiters
  waiting_known : ∀ t f, (s.pc t = .waitFut f ∨ s.pc t = .parking f) → f < s.nextFut
  open_has_completer : ∀ f, f < s.nextFut → (s.futs f).value = none → ∃ t, completerOf (s.pc t) = some f

theorem inv_init (n : Nat) (g : Bool) : Inv (init n g) := by
  constructor <;> simp [init, ownerOf, completerOf]

end Fv.Cache.Loader

namespace Fv.Cache.Loader

attribute [local grind] completerOf ownerOf upd_apply

/-- the six universally quantified clauses are closed by `grind`; the two existence clauses get
their witness from the old invariant (same thread unless the step hands the role over). -/
syntax "inv_auto" : tactic
macro_rules
  | `(tactic| inv_auto) => `(tactic| (constructor <;> simp only [] <;> first | grind | skip))

theorem inv_call {s s' : State} {t k : Nat} (hi : Inv s) (h : stepCall s t k = some s') : Inv s' := by
  obtain ⟨h1, h2, h3, h4, h5, h6, h7, h8⟩ := hi
  unfold stepCall at h
  split at h
  · split at h <;> simp at h <;> subst h <;> inv_auto
    all_goals first
      | (intro k' f hp; obtain ⟨u, hu⟩ := h5 k' f hp; exact ⟨u, by grind⟩)
      | (intro f hf hv; obtain ⟨u, hu⟩ := h8 f hf hv; exact ⟨u, by grind⟩)
  · simp at h

theorem inv_mapRead {s s' : State} {t : Nat} (hi : Inv s) (h : stepMapRead s t = some s') : Inv s' := by
  obtain ⟨h1, h2, h3, h4, h5, h6, h7, h8⟩ := hi
  unfold stepMapRead at h
  repeat' split at h
  all_goals (simp at h; try subst h)
  all_goals inv_auto
  all_goals trace_state
  all_goals sorry

end Fv.Cache.Loader
