import Fv.Cache.Loader
/-! Invariants of the loader single-flight protocol model (helper lemmas for `Fv.Props.C15`). -/
namespace Fv.Cache.Loader

@[simp] theorem upd_same {α} (f : Nat → α) (i : Nat) (a : α) : upd f i a i = a := by simp [upd]
theorem upd_other {α} (f : Nat → α) (i j : Nat) (a : α) (h : j ≠ i) : upd f i a j = f j := by simp [upd, h]
theorem upd_apply {α} (f : Nat → α) (i j : Nat) (a : α) : upd f i a j = if j = i then a else f j := rfl

/-- PCs that hold the pending marker of `(key, future)`. -/
def ownerOf : PC → Option (Nat × Nat)
  | .spawning k f => some (k, f)
  | .ldStart k f => some (k, f)
  | .ldInsert k f _ => some (k, f)
  | .ldRemove k f _ => some (k, f)
  | _ => none

/-- PCs whose thread (or the loader it is about to spawn) will complete future `f`. -/
def completerOf : PC → Option Nat
  | .spawning _ f => some f
  | .ldStart _ f => some f
  | .ldInsert _ f _ => some f
  | .ldRemove _ f _ => some f
  | .ldComplete _ f _ => some f
  | _ => none

theorem completer_of_owner {pc : PC} {k f : Nat} (h : ownerOf pc = some (k, f)) : completerOf pc = some f := by
  cases pc <;> simp_all [ownerOf, completerOf]

structure Inv (s : State) : Prop where
  fresh : ∀ t, s.nextTid ≤ t → s.pc t = .idle
  owner_marker : ∀ t k f, ownerOf (s.pc t) = some (k, f) → s.pending k = some f
  completer_unique : ∀ t1 t2 f, completerOf (s.pc t1) = some f → completerOf (s.pc t2) = some f → t1 = t2
  completer_open : ∀ t f, completerOf (s.pc t) = some f → f < s.nextFut ∧ (s.futs f).value = none
  marker_owner : ∀ k f, s.pending k = some f → ∃ t, ownerOf (s.pc t) = some (k, f)
  parked_registered : ∀ t f, s.pc t = .parking f → s.token t = false →
      (s.futs f).value = none ∧ t ∈ (s.futs f).waiters
  waiting_known : ∀ t f, (s.pc t = .waitFut f ∨ s.pc t = .parking f) → f < s.nextFut
  open_has_completer : ∀ f, f < s.nextFut → (s.futs f).value = none → ∃ t, completerOf (s.pc t) = some f
  valued_known : ∀ f v, (s.futs f).value = some v → f < s.nextFut

theorem inv_init (n : Nat) (g : Bool) : Inv (init n g) := by
  constructor <;> simp [init, ownerOf, completerOf]


theorem wakeAll_apply (tok : Nat → Bool) (ws : List Nat) (t : Nat) : wakeAll tok ws t = if t ∈ ws then true else tok t := rfl

attribute [local grind] completerOf ownerOf upd_apply wakeAll_apply
attribute [local grind →] completer_of_owner

/-- Proves `Inv s'` clause by clause: the six universally quantified clauses by `grind`, the two
existence clauses by the supplied tactics. -/
syntax "inv_with " "(" tacticSeq ")" "(" tacticSeq ")" : tactic
macro_rules
  | `(tactic| inv_with ($mo) ($oc)) => `(tactic|
      (refine ⟨?f1, ?f2, ?f3, ?f4, ?mo, ?f6, ?f7, ?oc, ?f9⟩
       case mo => $mo
       case oc => $oc
       all_goals (simp only []; grind)))

syntax "mo_old " ident : tactic
macro_rules | `(tactic| mo_old $h5) => `(tactic|
  (intro k' f hp; obtain ⟨u, hu⟩ := $h5 k' f (by grind); exact ⟨u, by grind⟩))
syntax "oc_old " ident : tactic
macro_rules | `(tactic| oc_old $h8) => `(tactic|
  (intro f hf hv; obtain ⟨u, hu⟩ := $h8 f (by grind) (by grind); exact ⟨u, by grind⟩))
/-- a fresh future `nextFut` was allocated and is owned by thread `w` -/
syntax "mo_new " ident ident term:max : tactic
macro_rules | `(tactic| mo_new $h5 $s $w) => `(tactic|
  (intro k' f hp
   by_cases hn : f = State.nextFut $s
   · exact ⟨$w, by grind⟩
   · obtain ⟨u, hu⟩ := $h5 k' f (by grind); exact ⟨u, by grind⟩))
syntax "oc_new " ident ident term:max : tactic
macro_rules | `(tactic| oc_new $h8 $s $w) => `(tactic|
  (intro f hf hv
   by_cases hn : f = State.nextFut $s
   · exact ⟨$w, by grind⟩
   · obtain ⟨u, hu⟩ := $h8 f (by grind) (by grind); exact ⟨u, by grind⟩))
/-- the role of thread `t` is handed to thread `w` -/
syntax "mo_move " ident term:max term:max : tactic
macro_rules | `(tactic| mo_move $h5 $t $w) => `(tactic|
  (intro k' f hp
   obtain ⟨u, hu⟩ := $h5 k' f (by grind)
   by_cases hn : u = $t
   · exact ⟨$w, by grind⟩
   · exact ⟨u, by grind⟩))
syntax "oc_move " ident term:max term:max : tactic
macro_rules | `(tactic| oc_move $h8 $t $w) => `(tactic|
  (intro f hf hv
   obtain ⟨u, hu⟩ := $h8 f (by grind) (by grind)
   by_cases hn : u = $t
   · exact ⟨$w, by grind⟩
   · exact ⟨u, by grind⟩))

theorem inv_call {s s' : State} {t k : Nat} (hi : Inv s) (h : stepCall s t k = some s') : Inv s' := by
  obtain ⟨h1, h2, h3, h4, h5, h6, h7, h8, h9⟩ := hi
  unfold stepCall at h
  repeat' split at h
  all_goals (simp at h; try subst h)
  all_goals inv_with (mo_old h5) (oc_old h8)

theorem inv_mapRead {s s' : State} {t : Nat} (hi : Inv s) (h : stepMapRead s t = some s') : Inv s' := by
  obtain ⟨h1, h2, h3, h4, h5, h6, h7, h8, h9⟩ := hi
  unfold stepMapRead at h
  repeat' split at h
  all_goals (simp at h; try subst h)
  all_goals inv_with (mo_new h5 s (s.nextTid)) (oc_new h8 s (s.nextTid))

theorem inv_pendingCS {s s' : State} {t : Nat} (hi : Inv s) (h : stepPendingCS s t = some s') : Inv s' := by
  obtain ⟨h1, h2, h3, h4, h5, h6, h7, h8, h9⟩ := hi
  unfold stepPendingCS at h
  repeat' split at h
  all_goals (simp at h; try subst h)
  all_goals inv_with (mo_new h5 s t) (oc_new h8 s t)

theorem inv_spawn {s s' : State} {t : Nat} (hi : Inv s) (h : stepSpawn s t = some s') : Inv s' := by
  obtain ⟨h1, h2, h3, h4, h5, h6, h7, h8, h9⟩ := hi
  unfold stepSpawn at h
  repeat' split at h
  all_goals (simp at h; try subst h)
  all_goals inv_with (mo_move h5 t (s.nextTid)) (oc_move h8 t (s.nextTid))

theorem inv_futCS {s s' : State} {t : Nat} (hi : Inv s) (h : stepFutCS s t = some s') : Inv s' := by
  obtain ⟨h1, h2, h3, h4, h5, h6, h7, h8, h9⟩ := hi
  unfold stepFutCS at h
  repeat' split at h
  all_goals (simp at h; try subst h)
  all_goals inv_with (mo_old h5) (oc_old h8)

theorem inv_park {s s' : State} {t : Nat} (hi : Inv s) (h : stepPark s t = some s') : Inv s' := by
  obtain ⟨h1, h2, h3, h4, h5, h6, h7, h8, h9⟩ := hi
  unfold stepPark at h
  repeat' split at h
  all_goals (simp at h; try subst h)
  all_goals inv_with (mo_old h5) (oc_old h8)

theorem inv_spurious {s s' : State} {t : Nat} (hi : Inv s) (h : stepSpurious s t = some s') : Inv s' := by
  obtain ⟨h1, h2, h3, h4, h5, h6, h7, h8, h9⟩ := hi
  unfold stepSpurious at h
  repeat' split at h
  all_goals (simp at h; try subst h)
  all_goals inv_with (mo_old h5) (oc_old h8)

theorem inv_load {s s' : State} {t : Nat} (hi : Inv s) (h : stepLoad s t = some s') : Inv s' := by
  obtain ⟨h1, h2, h3, h4, h5, h6, h7, h8, h9⟩ := hi
  unfold stepLoad at h
  repeat' split at h
  all_goals (simp at h; try subst h)
  all_goals inv_with (mo_old h5) (oc_old h8)

theorem inv_mapInsert {s s' : State} {t : Nat} (hi : Inv s) (h : stepMapInsert s t = some s') : Inv s' := by
  obtain ⟨h1, h2, h3, h4, h5, h6, h7, h8, h9⟩ := hi
  unfold stepMapInsert at h
  repeat' split at h
  all_goals (simp at h; try subst h)
  all_goals inv_with (mo_old h5) (oc_old h8)

theorem inv_pendRemove {s s' : State} {t : Nat} (hi : Inv s) (h : stepPendRemove s t = some s') : Inv s' := by
  obtain ⟨h1, h2, h3, h4, h5, h6, h7, h8, h9⟩ := hi
  unfold stepPendRemove at h
  repeat' split at h
  all_goals (simp at h; try subst h)
  all_goals inv_with (mo_old h5) (oc_old h8)

theorem inv_complete {s s' : State} {t : Nat} (hi : Inv s) (h : stepComplete s t = some s') : Inv s' := by
  obtain ⟨h1, h2, h3, h4, h5, h6, h7, h8, h9⟩ := hi
  unfold stepComplete at h
  repeat' split at h
  all_goals (simp at h; try subst h)
  all_goals inv_with (mo_old h5) (oc_old h8)


theorem inv_step {s s' : State} {t : Nat} {l : Label} (hi : Inv s) (h : step s t l = some s') : Inv s' := by
  cases l <;> simp only [step] at h
  · exact inv_call hi h
  · exact inv_mapRead hi h
  · exact inv_pendingCS hi h
  · exact inv_spawn hi h
  · exact inv_futCS hi h
  · exact inv_park hi h
  · exact inv_spurious hi h
  · exact inv_load hi h
  · exact inv_mapInsert hi h
  · exact inv_pendRemove hi h
  · exact inv_complete hi h
  · simp at h; subst h; exact ⟨hi.1, hi.2, hi.3, hi.4, hi.5, hi.6, hi.7, hi.8, hi.9⟩
  · split at h <;> (simp at h; subst h; exact ⟨hi.1, hi.2, hi.3, hi.4, hi.5, hi.6, hi.7, hi.8, hi.9⟩)

theorem inv_reach {n : Nat} {g : Bool} {s : State} (h : Reach n g s) : Inv s := by
  induction h with
  | init => exact inv_init n g
  | step _ hs ih => exact inv_step ih hs

end Fv.Cache.Loader
