import Fv.Lemmas.SyncMutexWakeL2
/-!
Wake invariant of the mutex model: the global bookkeeping conjuncts `PBb`, `PW1`, `PW2`, `PFl`, `PM2`.
-/
namespace Fv.Sync.Mutex
open Fv.Sync
variable {cfg : Cfg} {s s' : State} {t : Tid} {l : Lbl}

set_option maxHeartbeats 16000000 in
theorem bb_step (hi : Inv s) (hw : WInv s) (h : Step cfg s t l s') : PBb s' := by
  intro f
  have a1 := hi.syncCur t; have a2 := hi.asyncCur t; have a5 := hi.ffOk t
  have b0 := hw.boc t
  have b1 : ∀ f, (s.th t).cur = some f → futPc (s.th t).pc = true → (s.fut f).busy = true :=
    fun f hc hp => (hi.busy t f hc hp).1
  have c := hw.bb f
  clear hi hw
  step_cases h
  all_goals (try norm_state)
  all_goals (first | exact c | wg)

set_option maxHeartbeats 16000000 in
theorem w2_step (hi : Inv s) (hw : WInv s) (h : Step cfg s t l s') : PW2 s' := by
  intro n
  have a1 := hi.syncCur t; have a2 := hi.asyncCur t; have a5 := hi.ffOk t
  have b2 := hw.qw t
  have c := hw.w2 n
  clear hi hw
  step_cases h
  all_goals (try simp only [myWaiter] at *)
  all_goals (try norm_state)
  all_goals (first | exact c | wg)

set_option maxHeartbeats 16000000 in
theorem fl_step (hi : Inv s) (hw : WInv s) (h : Step cfg s t l s') : PFl s' := by
  intro f
  have a1 := hi.syncCur t; have a2 := hi.asyncCur t; have a5 := hi.ffOk t
  have b1 : ∀ f, (s.th t).cur = some f → futPc (s.th t).pc = true → (s.fut f).busy = true :=
    fun f hc hp => (hi.busy t f hc hp).1
  have b3 := hw.qz t
  have b4 := hi.phNode t
  have c := hw.fl f
  clear hi hw
  step_cases h
  all_goals (try norm_state)
  all_goals (first | exact c | wg)

end Fv.Sync.Mutex
