import Fv.Chan.Topic
/-! List-level lemmas for the topic model: `modAt`, `deliverTo`, `disconnectTo`. -/
namespace Fv.Chan.Topic

theorem length_modAt {α} (l : List α) (i : Nat) (f : α → α) : (modAt l i f).length = l.length := by
  fun_induction modAt l i f <;> simp_all

theorem getElem?_modAt {α} (l : List α) (i j : Nat) (f : α → α) :
    (modAt l i f)[j]? = if i = j then l[j]?.map f else l[j]? := by
  fun_induction modAt l i f generalizing j with
  | case1 => simp
  | case2 a l f => cases j <;> simp
  | case3 a l n f ih => cases j <;> simp [ih]

theorem getElem?_modAt_self {α} (l : List α) (i : Nat) (f : α → α) :
    (modAt l i f)[i]? = l[i]?.map f := by simp [getElem?_modAt]

theorem getElem?_modAt_ne {α} (l : List α) (i j : Nat) (f : α → α) (h : i ≠ j) :
    (modAt l i f)[j]? = l[j]? := by simp [getElem?_modAt, h]

theorem modAt_id_of_none {α} (l : List α) (i : Nat) (f : α → α) (h : l[i]? = none) : modAt l i f = l := by
  fun_induction modAt l i f <;> simp_all

theorem length_deliverTo (m : Msg) (rxs : List Rx) (is : List Nat) : (deliverTo m rxs is).length = rxs.length := by
  fun_induction deliverTo m rxs is <;> simp_all [length_modAt]

theorem length_disconnectTo (rxs : List Rx) (is : List Nat) : (disconnectTo rxs is).length = rxs.length := by
  fun_induction disconnectTo rxs is <;> simp_all [length_modAt]

/-- not a target: untouched -/
theorem getElem?_deliverTo_not_mem (m : Msg) (rxs : List Rx) (is : List Nat) (j : Nat) (h : j ∉ is) :
    (deliverTo m rxs is)[j]? = rxs[j]? := by
  fun_induction deliverTo m rxs is with
  | case1 => rfl
  | case2 rxs i is ih =>
    simp only [List.mem_cons, not_or] at h
    rw [ih h.2, getElem?_modAt_ne _ _ _ _ (Ne.symm h.1)]

/-- a target listed once gets exactly one guarded `deliver` -/
theorem getElem?_deliverTo_mem (m : Msg) (rxs : List Rx) (is : List Nat) (j : Nat) (h : j ∈ is) (nd : is.Nodup) :
    (deliverTo m rxs is)[j]? = rxs[j]?.map (fun x => if x.live then deliver m x else x) := by
  fun_induction deliverTo m rxs is with
  | case1 => simp at h
  | case2 rxs i is ih =>
    rw [List.nodup_cons] at nd
    by_cases hij : j = i
    · subst hij
      rw [getElem?_deliverTo_not_mem _ _ _ _ nd.1, getElem?_modAt_self]
    · have hm : j ∈ is := by simpa [hij] using h
      rw [ih hm nd.2, getElem?_modAt_ne _ _ _ _ (Ne.symm hij)]

theorem getElem?_disconnectTo (rxs : List Rx) (is : List Nat) (j : Nat) :
    (disconnectTo rxs is)[j]? = if j ∈ is then rxs[j]?.map (fun x => if x.live then disconnect x else x) else rxs[j]? := by
  fun_induction disconnectTo rxs is with
  | case1 => simp
  | case2 rxs i is ih =>
    rw [ih]
    by_cases hij : i = j
    · subst hij
      simp only [getElem?_modAt_self, List.mem_cons, true_or, if_true]
      split
      · cases rxs[i]? with
        | none => rfl
        | some x => by_cases hl : x.live <;> simp [hl, disconnect]
      · rfl
    · have hji : ¬ j = i := fun e => hij e.symm
      simp [getElem?_modAt_ne _ _ _ _ hij, hji]

end Fv.Chan.Topic
