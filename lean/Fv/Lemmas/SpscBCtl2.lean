import Fv.Lemmas.SpscBCtl1
/-! Preservation of the control invariant `CInv` by every step of the SPSC step-level model (part 2). -/
namespace Fv.Chan.SpscB

attribute [local grind =] upd_apply
attribute [local grind] okAt kSide isRet inNotify
attribute [local grind cases] Role

syntax "cinv_step2 " ident ident " [" Lean.Parser.Tactic.simpLemma,* "]" : tactic
macro_rules
  | `(tactic| cinv_step2 $hi $h [$ls,*]) => `(tactic| (
  obtain ⟨c1, c2, c3, c4, c5⟩ := $hi
  simp only [$ls,*, setLoc, afterWake, afterClose] at $h:ident
  repeat' split at $h:ident
  all_goals (first | (simp at $h:ident <;> try subst $h:ident) | skip)
  all_goals (refine ⟨?_, ?_, ?_, ?_, ?_⟩ <;>
    (dsimp only; (try simp only [afterNotify, afterUnreg, afterPush, afterPop, loopTop, waitStep]); grind))))

set_option maxHeartbeats 2000000 in
theorem cinv_lock {s s' : State} {r : Role} (hi : CInv s) (h : stepLock s r = some s') : CInv s' := by
  cinv_step2 hi h [stepLock]

set_option maxHeartbeats 2000000 in
theorem cinv_stGate {s s' : State} {r : Role} (hi : CInv s) (h : stepStGate s r = some s') : CInv s' := by
  cinv_step2 hi h [stepStGate]

set_option maxHeartbeats 2000000 in
theorem cinv_stFlag {s s' : State} {r : Role} (hi : CInv s) (h : stepStFlag s r = some s') : CInv s' := by
  cinv_step2 hi h [stepStFlag]

set_option maxHeartbeats 2000000 in
theorem cinv_unlock {s s' : State} {r : Role} (hi : CInv s) (h : stepUnlock s r = some s') : CInv s' := by
  cinv_step2 hi h [stepUnlock]

set_option maxHeartbeats 2000000 in
theorem cinv_unpark {s s' : State} {r : Role} (hi : CInv s) (h : stepUnpark s r = some s') : CInv s' := by
  cinv_step2 hi h [stepUnpark]

set_option maxHeartbeats 2000000 in
theorem cinv_park {s s' : State} {r : Role} (hi : CInv s) (h : stepPark s r = some s') : CInv s' := by
  cinv_step2 hi h [stepPark]

set_option maxHeartbeats 2000000 in
theorem cinv_spurious {s s' : State} {r : Role} (hi : CInv s) (h : stepSpurious s r = some s') : CInv s' := by
  cinv_step2 hi h [stepSpurious]

set_option maxHeartbeats 2000000 in
theorem cinv_swapFlag {s s' : State} {r : Role} (hi : CInv s) (h : stepSwapFlag s r = some s') : CInv s' := by
  cinv_step2 hi h [stepSwapFlag]

end Fv.Chan.SpscB
