import Fv.Lemmas.ChanClose
/-! When a pending blocking operation cannot move (C05 / C06, safety form). -/
namespace Fv.Chan
open List

/-- A single blocking `send` that has pushed nothing yet cannot move exactly when the window it looks at
is closed and the receivers are not gone. -/
theorem sendStep_none_iff (fl : Flavour) (cfg : Cfg) (s : St) (t : Nat) (h : HName) (v : Val) :
    sendStep fl cfg s t .send h [] [v] = none ↔
      (receiversGone fl s = false ∧ sendAvail fl cfg s .send [v] = 0) := by
  have hq : sendQuota fl cfg s .send [v] 0 false = sendAvail fl cfg s .send [v] := by
    unfold sendQuota; simp
  have hle : sendAvail fl cfg s .send [v] ≤ 1 := by
    have := sendAvail_le_len fl cfg s .send [v]; simpa using this
  have hkk : sendK fl cfg s .send [v] 0 false = sendAvail fl cfg s .send [v] := by
    unfold sendK; rw [hq]; split <;> omega
  unfold sendStep
  rw [hkk, hq]
  simp only [Bool.not_false, true_and, isEmpty_nil, Bool.not_true, Bool.false_eq_true, false_or, Form.blocking,
    true_or, and_true, and_false, if_false, length_cons, length_nil]
  by_cases hg : receiversGone fl s = true <;> by_cases h0 : sendAvail fl cfg s .send [v] = 0
  · simp [hg, h0]
  · have h1 : sendAvail fl cfg s .send [v] = 1 := by omega
    simp [hg, h1]
    split <;> simp
  · have hg' : receiversGone fl s = false := by simpa using hg
    simp [hg', h0]
  · have hg' : receiversGone fl s = false := by simpa using hg
    have h1 : sendAvail fl cfg s .send [v] = 1 := by omega
    simp [hg', h1]
    split <;> simp


theorem recvStep_fin_not_blocks {fl cfg s t f hd n s' o} (hs : recvStep fl cfg s t f hd n [] = some (s', .fin o)) :
    o.tag ≠ .blocks := by
  unfold recvStep at hs
  split at hs
  · simp only [isEmpty_nil, if_true] at hs
    unfold emptyOutcome at hs
    simp only [] at hs
    split at hs
    · cases hs; simp
    · split at hs <;> first | (cases hs; simp) | cases hs
  · split at hs
    · cases hs; simp
    · cases hs

/-- **A blocking receive blocks exactly when it is not enabled** (buffered families, sequential): it
cannot complete iff the buffer is empty and the senders are not gone. -/
theorem stepOp_recv_blocks_iff {fl : Flavour} (hrv : fl.fam ≠ .rv) (hos : fl.fam ≠ .os) (s : St) (f : Form)
    (h : HName) (n : Nat) (hd : Handle) (hf : findH s.hs h = some hd) (hside : hd.name.side = .rx)
    (hform : f.isSend = false) (hsup : supportsForm fl.fam hd.isAsync f = true) (hopen : hd.closed = false)
    (hn : f.isBatch = true → n ≠ 0) :
    (stepOp fl s (.rcv f h n)).2.tag = .blocks ↔ (s.buf = [] ∧ goneFor fl s f hd = false ∧ f.blocking = true) := by
  have hw : recvWant f n [] > 0 := by
    unfold recvWant; split
    · rename_i hb; have := hn hb; simp; omega
    · omega
  rw [← recvStep_none_iff fl seqCfg s 0 f hd n hw hform]
  unfold stepOp stepOpS
  unfold runPS
  simp only [microDet, seqCfg, start]
  unfold startRecv
  simp only [hf, hside, hform, hsup, ne_eq, not_true_eq_false, Bool.not_true, Bool.false_eq_true, or_self, if_false]
  have hpre : firstHit (recvPrelude fl.fam hd.isAsync f) (n == 0) hd.closed false = none := by
    rw [hopen]
    have hE : ∀ l, ((n == 0) = true → Chk.E ∉ l) → firstHit l (n == 0) false false = none := by
      intro l
      induction l with
      | nil => intro _; rfl
      | cons c r ih =>
        intro hc
        cases c <;> simp only [firstHit]
        · split
          · rename_i he; exact absurd mem_cons_self (hc he)
          · exact ih (fun he hm => hc he (mem_cons_of_mem _ hm))
        · simp only [Bool.false_eq_true, if_false]; exact ih (fun he hm => hc he (mem_cons_of_mem _ hm))
        · simp only [Bool.false_eq_true, if_false]; exact ih (fun he hm => hc he (mem_cons_of_mem _ hm))
    apply hE
    intro he
    have hn0 : n = 0 := by simpa using he
    have hnb : f.isBatch = false := by
      cases hb : f.isBatch
      · rfl
      · exact absurd hn0 (hn hb)
    unfold recvPrelude
    simp [hnb]
  rw [hpre]
  simp only []
  constructor
  · intro ht
    split at ht
    · rename_i r hr
      exfalso
      have hr' : recvStep fl seqCfg s 0 f hd n [] = some (r.1, r.2) := hr
      obtain ⟨o, ho, _⟩ := recvStep_seq hw hr'
      rw [ho] at hr'
      rw [ho, runPS_fin] at ht
      exact recvStep_fin_not_blocks hr' ht
    · rename_i hr; exact hr
  · intro hnone
    have hnone' : recvStep fl { hot := true, granular := false } s 0 f hd n [] = none := hnone
    rw [hnone']
    simp only []
    have hst := runPS_brecv_stuck fl seqCfg 0 f h n hd hw hform ((Op.rcv f h n).size + 3) (mbFlush fl s)
      (by rw [findH_flush]; exact hf)
      (by
        rw [recvStep_none_iff fl seqCfg _ 0 f hd n hw hform]
        have := (recvStep_none_iff fl seqCfg s 0 f hd n hw hform).mp hnone
        obtain ⟨a, b, c, d, e⟩ := mbFlush_fields fl s
        refine ⟨by rw [a]; exact this.1, ?_, this.2.2⟩
        have hg := this.2.1
        unfold goneFor sendersGone at hg ⊢
        have hsc : (mbFlush fl s).sc = s.sc := by simpa [St.shell] using congrArg Shell.sc d
        rw [hsc]; exact hg)
    have hst' : (runPS fl { hot := true, granular := false } ((Op.rcv f h n).size + 3) (mbFlush fl s) (.brecv 0 f h n [])).2
        = .brecv 0 f h n [] := hst
    rw [hst']
    rfl

theorem sendStep_single_fin {fl cfg s t h v s' p'} (hs : sendStep fl cfg s t .send h [] [v] = some (s', p'))
    (hg : cfg.granular = false) : ∃ o, p' = .fin o ∧ o.tag ≠ .blocks := by
  unfold sendStep at hs
  have hgran : sendGran fl cfg = false := by unfold sendGran; simp [hg]
  have hle : sendK fl cfg s .send [v] 0 false ≤ 1 := by
    have := Nat.le_trans (sendK_le fl cfg s .send [v] 0 false) (sendAvail_le_len fl cfg s .send [v]); simpa using this
  simp only [hgran, Bool.false_eq_true, false_and, if_false] at hs
  split at hs
  · split at hs
    · cases hs; exact ⟨_, rfl, by simp⟩
    · obtain ⟨_, rfl⟩ := of_some_eq hs
      obtain ⟨o, ho, ht, _⟩ := failSend_out fl s .send .closed [] [v]
      exact ⟨o, ho, by rw [ht]; simp⟩
  · split at hs
    · cases hs; exact ⟨_, rfl, by simp⟩
    · split at hs
      · simp [Form.blocking] at hs
      · rename_i h1 h0
        simp only [length_cons, length_nil] at h1
        omega

/-- **A blocking `send` blocks exactly when the window it consults is closed** (buffered families,
sequential, open handle, receivers alive). The window is the exact free space except in the bounded
mpsc, where it is stale by the unpublished drains (finding F14). -/
theorem stepOp_send_blocks_iff {fl : Flavour} (hrv : fl.fam ≠ .rv) (hos : fl.fam ≠ .os) (s : St) (h : HName) (v : Val)
    (hd : Handle) (hf : findH s.hs h = some hd) (hside : hd.name.side = .tx)
    (hsup : supportsForm fl.fam hd.isAsync .send = true) (hopen : hd.closed = false)
    (hlive : receiversGone fl s = false) :
    (stepOp fl s (.snd .send h [v])).2.tag = .blocks ↔ hotRoom fl s = some 0 := by
  have hg1 : receiversGone fl (s.create [v]) = false := by
    rw [← hlive]; unfold receiversGone St.create; cases fl.fam <;> rfl
  have hav : sendAvail fl seqCfg (s.create [v]) .send [v] = 0 ↔ hotRoom fl s = some 0 := by
    unfold sendAvail
    have : hotRoom fl (s.create [v]) = hotRoom fl s := by unfold hotRoom room St.create; cases fl.fam <;> rfl
    simp only [Form.blocking, seqCfg, and_self, if_true, this]
    cases hotRoom fl s with
    | none => simp
    | some r => cases r <;> simp
  rw [← hav]
  have hnone := sendStep_none_iff fl seqCfg (s.create [v]) 0 h v
  rw [hg1] at hnone
  simp only [true_and] at hnone
  rw [← hnone]
  unfold stepOp stepOpS
  unfold runPS
  simp only [microDet, seqCfg, start, Bool.false_eq_true, false_and, if_false]
  unfold startSend
  simp only [hf, hside, Form.isSend, hsup, ne_eq, not_true_eq_false, Bool.not_true, Bool.false_eq_true, or_self,
    if_false]
  unfold startSendBuf
  have hpre : firstHit (sendPrelude fl.fam hd.isAsync .send) ([v] : List Val).isEmpty hd.closed (receiversGone fl s) = none := by
    rw [hopen, hlive]
    unfold sendPrelude
    simp only [Form.isBatch, Bool.not_false, if_true, isEmpty_cons]
    split <;> simp [firstHit]
  rw [hpre]
  simp only [isEmpty_cons, Bool.false_eq_true, if_false, false_and]
  constructor
  · intro ht
    split at ht
    · rename_i r hr
      exfalso
      obtain ⟨o, ho, hnb⟩ := sendStep_single_fin (show sendStep fl seqCfg (s.create [v]) 0 .send h [] [v] = some (r.1, r.2) from hr) rfl
      rw [ho, runPS_fin] at ht
      exact hnb ht
    · rename_i hr; exact hr
  · intro hn
    have hn' : sendStep fl { hot := true, granular := false } (s.create [v]) 0 .send h [] [v] = none := hn
    rw [hn']
    simp only []
    have hstuck : ∀ fuel, (runPS fl { hot := true, granular := false } fuel (s.create [v]) (.bsend 0 .send h [] [v])).2
        = .bsend 0 .send h [] [v] := by
      intro fuel
      induction fuel with
      | zero => rfl
      | succ k ih =>
        unfold runPS
        simp only [microDet]
        rw [hn']
    rw [hstuck]
    rfl

end Fv.Chan
