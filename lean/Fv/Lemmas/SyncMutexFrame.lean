import Fv.Lemmas.SyncMutex
/-!
Frame (stability) facts about one step of thread `t` of the `HybridMutex` model: what it leaves
unchanged for the other threads.  Each lemma is one pass over the step cases with ground facts.
-/
namespace Fv.Sync.Mutex
open Fv.Sync
variable {cfg : Cfg} {s s' : State} {t : Tid} {l : Lbl}

/-- `t` is polling or dropping future `f` -/
def opOn (s : State) (t : Tid) (f : Fid) : Prop := (s.th t).cur = some f ∧ futPc (s.th t).pc = true

set_option maxHeartbeats 4000000 in
/-- a step changes the local state of the stepping thread only -/
theorem step_th_other (h : Step cfg s t l s') : ∀ u, u ≠ t → s'.th u = s.th u := by
  intro u hu
  cases h
  all_goals (try simp only [taFail, taSucc, llEnter, afterRel, callStep, spinHead, pollHead, pollDone])
  all_goals (repeat' split)
  all_goals simp only [withPc, setTh, upd_ne _ _ hu]

set_option maxHeartbeats 4000000 in
/-- a step removes or gives away only guards of the stepping thread -/
theorem step_holders_other (h : Step cfg s t l s') :
    ∀ u b, u ≠ t → (u, b) ∈ s.holders → (u, b) ∈ s'.holders := by
  intro u b hu hm
  cases h
  all_goals (try simp only [taFail, taSucc, llEnter, afterRel, callStep, spinHead, pollHead, pollDone])
  all_goals (repeat' split)
  all_goals (try norm_goal)
  all_goals (first | exact hm | grind)

set_option maxHeartbeats 4000000 in
/-- the `linked` flag of another thread's stack node is not touched -/
theorem step_node_thr_other (h : Step cfg s t l s') :
    ∀ u, u ≠ t → (s'.wl.node (.thr u)).linked = (s.wl.node (.thr u)).linked := by
  intro u hu
  cases h
  all_goals (try simp only [taFail, taSucc, llEnter, afterRel, callStep, spinHead, pollHead, pollDone])
  all_goals (repeat' split)
  all_goals (try norm_goal)
  all_goals (first | rfl | grind)

set_option maxHeartbeats 8000000 in
/-- a busy future that `t` is not operating on, and the `linked` flag of its node, are not touched -/
theorem step_fut_other (h : Step cfg s t l s')
    (a1 : syncOnly (s.th t).pc = true → (s.th t).cur = none)
    (a2 : asyncOnly (s.th t).pc = true → (s.th t).cur ≠ none) :
    ∀ f, (s.fut f).busy = true → ¬ opOn s t f →
      s'.fut f = s.fut f ∧ (s'.wl.node (.fut f)).linked = (s.wl.node (.fut f)).linked := by
  intro f hb hop
  unfold opOn at hop
  step_cases h
  all_goals (try norm_goal)
  all_goals (first | exact ⟨rfl, rfl⟩ | grind [syncOnly, asyncOnly, futPc, TaK.sync, After.sync, After.async])

set_option maxHeartbeats 8000000 in
/-- how the list spinlock bit moves with the stepping thread's critical-section status -/
theorem step_ll (h : Step cfg s t l s') (a : inLL (s.th t).pc = true → s.wl.locked = true) :
    (inLL (s'.th t).pc = true → s'.wl.locked = true ∧ (inLL (s.th t).pc = true ∨ s.wl.locked = false))
    ∧ (inLL (s.th t).pc = false → s.wl.locked = true → s'.wl.locked = true ∧ inLL (s'.th t).pc = false) := by
  step_cases h
  all_goals (try norm_goal)
  all_goals grind [inLL]

end Fv.Sync.Mutex
