import Fv.Lemmas.LogCal
import Fv.Lemmas.LogText
/-! C20 helper lemmas: the roller recognises exactly its own file names (`find_rolled_files` vs `rolled_path`). -/
namespace Fv.Log.Roller
open Fv.Log

/-! ### well-formed naming configuration -/

/-- no `.` immediately followed by a (Unicode) digit -/
def dotClean : Text → Bool
  | [] => true
  | [_] => true
  | c :: d :: rest => !(c = '.' && isNd d) && dotClean (d :: rest)

def headNotNd : Text → Bool
  | [] => true
  | c :: _ => !isNd c

/-- Naming configurations for which the roller's file-name scheme is unambiguous:
* `prefix ++ suffix` contains no `.` directly followed by a digit (otherwise the date/sequence regex can
  match inside the prefix/suffix, e.g. prefix `app.2024-01-01.7x`),
* the suffix does not start with a digit (it would be read as part of the sequence number),
* the compressed-file suffix is non-empty, contains no ASCII digit and is not a suffix of `suffix`. -/
structure WF (p : Policy) : Prop where
  clean : dotClean (p.pfx ++ p.sfx) = true
  sfxHead : headNotNd p.sfx = true
  gzNe : gzSuffix p ≠ []
  gzNoDigit : ∀ c ∈ gzSuffix p, isDigit c = false
  sfxNotGz : endsWith p.sfx (gzSuffix p) = false

/-! ### digits -/

theorem isNd_of_isDigit {c : Char} (h : isDigit c = true) : isNd c = true := by
  rw [isNd, ndRanges, List.any_cons]
  simp only [isDigit] at h
  simp [h]

theorem dch_toNat (k : Nat) : (dch k).toNat = 48 + k % 10 :=
  Nat.toNat_digitChar_of_lt_ten (Nat.mod_lt _ (by decide))

theorem isDigit_dch (k : Nat) : isDigit (dch k) = true := by
  simp only [isDigit, dch_toNat, Bool.and_eq_true, decide_eq_true_eq]; omega

theorem isNd_dch (k : Nat) : isNd (dch k) = true := isNd_of_isDigit (isDigit_dch k)

theorem isNd_dot : isNd '.' = false := by decide
theorem isNd_dash : isNd '-' = false := by decide
theorem isNd_us : isNd '_' = false := by decide

theorem num?_pad2 (m : Nat) (h : m < 100) : num? (pad2 m) = some m := by
  simp only [num?, pad2, List.all_cons, List.all_nil, isDigit_dch, Bool.and_self, ne_eq, reduceCtorEq, not_false_eq_true,
    and_self, if_true, digitsVal, Nat.ofDigitChars, List.foldl_cons, List.foldl_nil, dch_toNat, Option.some.injEq]
  simp only [show ('0' : Char).toNat = 48 by decide]
  omega

theorem num?_pad4 (y : Nat) (h : y < 10000) : num? (pad4 y) = some y := by
  simp only [num?, pad4, List.all_cons, List.all_nil, isDigit_dch, Bool.and_self, ne_eq, reduceCtorEq, not_false_eq_true,
    and_self, if_true, digitsVal, Nat.ofDigitChars, List.foldl_cons, List.foldl_nil, dch_toNat, Option.some.injEq]
  simp only [show ('0' : Char).toNat = 48 by decide]
  omega

theorem num?_zero2 : num? ['0', '0'] = some 0 := by decide

theorem parseU32_dec (n : Nat) (h : n < 4294967296) : parseU32 (dec n) = some n := by
  have hall : (dec n).all isDigit = true := by simp only [List.all_eq_true]; exact dec_all_isDigit n
  simp only [parseU32, num?, dec_ne_nil, ne_eq, not_false_eq_true, hall, and_self, if_true, digitsVal_dec, h]

/-! ### the regex on well-formed names -/

theorem takeNd_append (ds r : Text) (h : ∀ c ∈ ds, isNd c = true) : takeNd ds.length (ds ++ r) = some (ds, r) := by
  induction ds with
  | nil => rfl
  | cons c cs ih =>
    have hc : isNd c = true := h c (by simp)
    simp only [List.length_cons, List.cons_append, takeNd, hc, if_true, ih (fun x hx => h x (by simp [hx]))]

theorem pad2_nd (n : Nat) : ∀ c ∈ pad2 n, isNd c = true := by
  intro c hc; simp only [pad2, List.mem_cons, List.not_mem_nil, or_false] at hc
  rcases hc with rfl | rfl <;> exact isNd_dch _

theorem pad4_nd (n : Nat) : ∀ c ∈ pad4 n, isNd c = true := by
  intro c hc; simp only [pad4, List.mem_cons, List.not_mem_nil, or_false] at hc
  rcases hc with rfl | rfl | rfl | rfl <;> exact isNd_dch _

theorem takeNd_pad2 (n : Nat) (r : Text) : takeNd 2 (pad2 n ++ r) = some (pad2 n, r) := takeNd_append (pad2 n) r (pad2_nd n)
theorem takeNd_pad4 (n : Nat) (r : Text) : takeNd 4 (pad4 n ++ r) = some (pad4 n, r) := takeNd_append (pad4 n) r (pad4_nd n)

theorem matchDate_fmtDate (s : Stamp) (r : Text) : matchDate (fmtDate s ++ r) = some (fmtDate s, r) := by
  simp only [fmtDate, matchDate, List.append_assoc, List.cons_append, takeNd_pad4, expectChar, if_true, takeNd_pad2]

theorem matchTime_pads (a b c : Nat) (r : Text) :
    matchTime (pad2 a ++ '-' :: (pad2 b ++ '-' :: (pad2 c ++ r))) = some (pad2 a ++ '-' :: (pad2 b ++ '-' :: pad2 c), r) := by
  simp only [matchTime, takeNd_pad2, expectChar, if_true]

theorem seqAfterDot_dec (n : Nat) (rest : Text) (h : headNotNd rest = true) :
    seqAfterDot ('.' :: (dec n ++ rest)) = some (dec n) := by
  have hd : ∀ c ∈ dec n, isNd c = true := fun c hc => isNd_of_isDigit (dec_all_isDigit n c hc)
  have htw : (dec n ++ rest).takeWhile isNd = dec n := by
    cases rest with
    | nil => simp only [List.append_nil]; exact (takeWhile_all hd).1
    | cons c r =>
      have hc : isNd c = false := by simpa [headNotNd] using h
      exact (takeWhile_append_stop hd hc).1
  simp only [seqAfterDot, expectChar, if_true, htw, dec_ne_nil, if_false]

theorem zeros_eq_pad2 : ['0', '0'] = pad2 0 := by decide

/-- the regex, anchored after the `.` that follows the prefix, captures the period text and the sequence digits -/
theorem matchAt_name (g : Gran) (s : Stamp) (n : Nat) (rest : Text) (h : headNotNd rest = true) :
    matchAt (fmtPeriod g s ++ '.' :: (dec n ++ rest)) = some (fmtPeriod g s, dec n) := by
  cases g with
  | daily =>
    simp only [fmtPeriod, matchAt, matchDate_fmtDate, seqAfterDot_dec n rest h]
  | never =>
    simp only [fmtPeriod, matchAt, matchDate_fmtDate, seqAfterDot_dec n rest h]
  | minutely =>
    have e : fmtPeriod .minutely s ++ '.' :: (dec n ++ rest) =
        fmtDate s ++ '_' :: (pad2 s.hh ++ '-' :: (pad2 s.mm ++ '-' :: (pad2 0 ++ '.' :: (dec n ++ rest)))) := by
      simp [fmtPeriod, ← zeros_eq_pad2]
    rw [e]
    simp only [matchAt, matchDate_fmtDate, seqAfterDot, expectChar, show ('_' : Char) ≠ '.' by decide, if_false, if_true,
      matchTime_pads]
    have := seqAfterDot_dec n rest h
    simp only [seqAfterDot, expectChar, if_true] at this
    simp only [this]
    simp [fmtPeriod, ← zeros_eq_pad2]
  | hourly =>
    have e : fmtPeriod .hourly s ++ '.' :: (dec n ++ rest) =
        fmtDate s ++ '_' :: (pad2 s.hh ++ '-' :: (pad2 0 ++ '-' :: (pad2 0 ++ '.' :: (dec n ++ rest)))) := by
      simp [fmtPeriod, ← zeros_eq_pad2]
    rw [e]
    simp only [matchAt, matchDate_fmtDate, seqAfterDot, expectChar, show ('_' : Char) ≠ '.' by decide, if_false, if_true,
      matchTime_pads]
    have := seqAfterDot_dec n rest h
    simp only [seqAfterDot, expectChar, if_true] at this
    simp only [this]
    simp [fmtPeriod, ← zeros_eq_pad2]

theorem matchAt_none_of_head (t : Text) (h : headNotNd t = true) : matchAt t = none := by
  cases t with
  | nil => rfl
  | cons c r =>
    have hc : isNd c = false := by simpa [headNotNd] using h
    simp [matchAt, matchDate, takeNd, hc]

theorem dotClean_tail {c : Char} {t : Text} (h : dotClean (c :: t) = true) : dotClean t = true := by
  cases t with
  | nil => rfl
  | cons d r => simp only [dotClean, Bool.and_eq_true] at h; exact h.2

theorem dotClean_prefix (a b : Text) (h : dotClean (a ++ b) = true) : dotClean a = true := by
  induction a with
  | nil => rfl
  | cons c t ih =>
    cases t with
    | nil => rfl
    | cons d r =>
      simp only [List.cons_append, dotClean, Bool.and_eq_true] at h ⊢
      exact ⟨h.1, ih h.2⟩

/-- the search skips a clean prefix -/
theorem search_skip (a t : Text) (ha : dotClean a = true) (hl : a.getLast? = some '.' → headNotNd t = true) :
    search (a ++ t) = search t := by
  induction a with
  | nil => rfl
  | cons c r ih =>
    cases r with
    | nil =>
      simp only [List.cons_append, List.nil_append, search]
      by_cases hc : c = '.'
      · subst hc
        simp only [if_true, matchAt_none_of_head t (hl (by simp))]
      · simp only [hc, if_false]
    | cons d r' =>
      have ih' := ih (dotClean_tail ha) (by simpa using hl)
      simp only [List.cons_append] at ih' ⊢
      rw [search]
      by_cases hc : c = '.'
      · subst hc
        simp only [dotClean, Bool.and_eq_true, Bool.not_eq_true', Bool.and_eq_false_iff,
          decide_eq_false_iff_not, not_true_eq_false, false_or] at ha
        have : matchAt (d :: (r' ++ t)) = none := matchAt_none_of_head _ (by simp [headNotNd, ha.1])
        simp only [if_true, this, ih']
      · simp only [hc, if_false, ih']

theorem search_clean (a : Text) (ha : dotClean a = true) : search a = none := by
  have := search_skip a [] ha (fun _ => rfl)
  simpa [search] using this

/-! ### `parse_datetime_from_str` inverts `format_period` on aligned stamps -/

theorem parseStamp_fmtPeriod (g : Gran) (s : Stamp) (hv : s.Valid) (ha : Aligned g s) : parseStamp (fmtPeriod g s) = some s := by
  obtain ⟨hd, hh, hm, hs, hy⟩ := hv
  have hm12 : s.m < 100 := by
    simp only [validDate, Bool.and_eq_true, decide_eq_true_eq] at hd; omega
  have hd31 : s.d < 100 := by
    simp only [validDate, Bool.and_eq_true, decide_eq_true_eq] at hd
    have := daysInMonth_pos s.y s.m; omega
  have py := num?_pad4 s.y hy
  have pm := num?_pad2 s.m hm12
  have pd := num?_pad2 s.d hd31
  have ph := num?_pad2 s.hh (by omega)
  have pmm := num?_pad2 s.mm (by omega)
  simp only [pad4, pad2] at py pm pd ph pmm
  cases g with
  | daily =>
    obtain ⟨a1, a2, a3⟩ := ha
    cases s; simp only at *
    subst a1 a2 a3
    simp [parseStamp, fmtPeriod, fmtDate, pad4, pad2, py, pm, pd, hd]
  | never =>
    obtain ⟨a1, a2, a3⟩ := ha
    cases s; simp only at *
    subst a1 a2 a3
    simp [parseStamp, fmtPeriod, fmtDate, pad4, pad2, py, pm, pd, hd]
  | hourly =>
    obtain ⟨a2, a3⟩ := ha
    cases s; simp only at *
    subst a2 a3
    simp [parseStamp, fmtPeriod, fmtDate, pad4, pad2, py, pm, pd, ph, hd, hh, num?_zero2]
  | minutely =>
    cases s; simp only [Aligned] at *
    subst ha
    simp [parseStamp, fmtPeriod, fmtDate, pad4, pad2, py, pm, pd, ph, pmm, hd, hh, hm, num?_zero2]

/-! ### `find_rolled_files` on the roller's own names -/

theorem endsWith_iff (s p : Text) : endsWith s p = true ↔ p <:+ s := by
  simp [endsWith]

theorem startsWith_append (a b : Text) : startsWith (a ++ b) a = true := by
  simp [startsWith]

theorem stripSuffix_append (a b : Text) : stripSuffix (a ++ b) b = a := by
  have : endsWith (a ++ b) b = true := (endsWith_iff _ _).mpr (List.suffix_append _ _)
  simp only [stripSuffix, this, if_true, List.length_append, Nat.add_sub_cancel]
  exact List.take_left' rfl

/-- a rolled (uncompressed) name never ends with the compressed-file suffix -/
theorem not_endsWith_rolled (p : Policy) (hw : WF p) (x : Text) (n : Nat) :
    endsWith (x ++ (dec n ++ p.sfx)) (gzSuffix p) = false := by
  cases hE : endsWith (x ++ (dec n ++ p.sfx)) (gzSuffix p) with
  | false => rfl
  | true =>
    exfalso
    have h : gzSuffix p <:+ x ++ (dec n ++ p.sfx) := (endsWith_iff _ _).mp hE
    have hs : p.sfx <:+ x ++ (dec n ++ p.sfx) := ⟨x ++ dec n, by simp⟩
    by_cases hl : (gzSuffix p).length ≤ p.sfx.length
    · have := List.suffix_of_suffix_length_le h hs hl
      have := (endsWith_iff _ _).mpr this
      rw [hw.sfxNotGz] at this; cases this
    · obtain ⟨g', hg⟩ := List.suffix_of_suffix_length_le hs h (by omega)
      obtain ⟨u, hu⟩ := h
      have hne : g' ≠ [] := by
        intro hnil; subst hnil
        simp only [List.nil_append] at hg
        rw [hg] at hl; exact hl (Nat.le_refl _)
      have hcat : u ++ g' = x ++ dec n := by
        have : (u ++ g') ++ p.sfx = (x ++ dec n) ++ p.sfx := by
          rw [List.append_assoc, hg, hu, List.append_assoc]
        exact List.append_cancel_right this
      have hlast : (u ++ g').getLast? = (x ++ dec n).getLast? := by rw [hcat]
      have hdne := dec_ne_nil n
      obtain ⟨c, hc⟩ : ∃ c, (dec n).getLast? = some c := by
        cases hd : (dec n).getLast? with
        | none => simp at hd; exact absurd hd hdne
        | some c => exact ⟨c, rfl⟩
      obtain ⟨c', hc'⟩ : ∃ c, g'.getLast? = some c := by
        cases hd : g'.getLast? with
        | none => simp at hd; exact absurd hd hne
        | some c => exact ⟨c, rfl⟩
      simp only [List.getLast?_append, hc, hc', Option.some_or, Option.some.injEq] at hlast
      subst hlast
      have hmem : c' ∈ gzSuffix p := by
        rw [← hg]; exact List.mem_append_left _ (List.mem_of_getLast? hc')
      have hdig : isDigit c' = true := dec_all_isDigit n c' (List.mem_of_getLast? hc)
      rw [hw.gzNoDigit c' hmem] at hdig; cases hdig

theorem search_rolledName (p : Policy) (hw : WF p) (s : Stamp) (n : Nat) :
    search (rolledName p s n) = some (fmtPeriod p.gran s, dec n) := by
  have hp : dotClean p.pfx = true := dotClean_prefix _ _ hw.clean
  rw [rolledName, search_skip p.pfx _ hp (fun _ => by simp [headNotNd, isNd_dot])]
  simp only [search, if_true, matchAt_name p.gran s n p.sfx hw.sfxHead]

/-- `find_rolled_files` parses the name `rolled_path` builds back to the same (period, sequence) -/
theorem parseRolledName_rolledName (p : Policy) (hw : WF p) (s : Stamp) (hv : s.Valid) (ha : Aligned p.gran s)
    (n : Nat) (hn : n < 4294967296) :
    parseRolledName p (rolledName p s n) = some { stamp := s, seq := n, name := rolledName p s n, compressed := false } := by
  have h1 : startsWith (rolledName p s n) p.pfx = true := startsWith_append _ _
  have h2 : endsWith (rolledName p s n) (gzSuffix p) = false := by
    have := not_endsWith_rolled p hw (p.pfx ++ '.' :: (fmtPeriod p.gran s ++ ['.'])) n
    simpa [rolledName] using this
  simp only [parseRolledName, h1, Bool.not_true, Bool.false_eq_true, if_false, h2, search_rolledName p hw,
    parseStamp_fmtPeriod p.gran s hv ha, parseU32_dec n hn]

theorem parseRolledName_rolledName_gz (p : Policy) (hw : WF p) (s : Stamp) (hv : s.Valid) (ha : Aligned p.gran s)
    (n : Nat) (hn : n < 4294967296) :
    parseRolledName p (rolledName p s n ++ gzSuffix p) =
      some { stamp := s, seq := n, name := rolledName p s n ++ gzSuffix p, compressed := true } := by
  have h1 : startsWith (rolledName p s n ++ gzSuffix p) p.pfx = true := by
    simp only [rolledName, List.append_assoc]; exact startsWith_append _ _
  have h2 : endsWith (rolledName p s n ++ gzSuffix p) (gzSuffix p) = true :=
    (endsWith_iff _ _).mpr (List.suffix_append _ _)
  simp only [parseRolledName, h1, Bool.not_true, Bool.false_eq_true, if_false, h2, if_true, stripSuffix_append,
    search_rolledName p hw, parseStamp_fmtPeriod p.gran s hv ha, parseU32_dec n hn]

/-- the active file is never taken for a rolled file -/
theorem parseRolledName_baseName (p : Policy) (hw : WF p) : parseRolledName p (baseName p) = none := by
  have hclean : ∀ k, dotClean ((baseName p).take k) = true := by
    intro k
    apply dotClean_prefix _ ((baseName p).drop k)
    rw [List.take_append_drop]; exact hw.clean
  simp only [parseRolledName]
  split
  · rfl
  · have : search (if endsWith (baseName p) (gzSuffix p) = true then stripSuffix (baseName p) (gzSuffix p) else baseName p) = none := by
      split
      · rename_i he
        simp only [stripSuffix, he, if_true]
        exact search_clean _ (hclean _)
      · exact search_clean _ hw.clean
    simp only [this]

theorem rolledName_ne_baseName (p : Policy) (hw : WF p) (s : Stamp) (n : Nat) : rolledName p s n ≠ baseName p := by
  intro h
  have h1 := search_rolledName p hw s n
  have h2 : search (baseName p) = none := search_clean _ hw.clean
  rw [h, h2] at h1
  cases h1

end Fv.Log.Roller
