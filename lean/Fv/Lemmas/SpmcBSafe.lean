import Fv.Lemmas.SpmcBSafeR
/-! Safety invariant of `Fv.Chan.SpmcB`: calls, spurious wake-ups, teardown, initial state, reachability. -/
namespace Fv.Chan.SpmcB
open Fv.Chan.LeftRightB (upd upd_apply upd_same)

/-- frame rule for a step of a thread that is not inside an operation -/
theorem safe_free {s s' : State} {t : Nat} {p : PC} (hs : Safe s) (hfree : isFree (s.pc t) = true)
    (hpc' : s'.pc = upd s.pc t p) (hg : GFact s'.core)
    (hsf : ∀ q, sFact s.core q → sFact s'.core q)
    (hrf : ∀ u r q, rFact s.core u r q → rFact s'.core u r q)
    (hnewS : ∀ q, p = .snd q → sFact s'.core q) (hnewR : ∀ r q, p = .rcv r q → rFact s'.core t r q)
    (hidle : s'.sOwner = none → s'.head = s'.sent.length ∧ s'.dirty = false)
    (hrv : ∀ n, s'.resv n ≠ none → s'.rOwner n = none) : Safe s' := by
  refine ⟨hg, ?_, ?_, hidle, hrv⟩
  · intro u q h
    rw [hpc'] at h
    by_cases hut : u = t
    · subst hut; rw [upd_same] at h; exact hnewS q h
    · simp only [upd_apply, if_neg hut] at h; exact hsf q (hs.sf u q h)
  · intro u r q h
    rw [hpc'] at h
    by_cases hut : u = t
    · subst hut; rw [upd_same] at h; exact hnewR r q h
    · simp only [upd_apply, if_neg hut] at h; exact hrf u r q (hs.rf u r q h)

theorem resv_none_of_alive {c : Core} (hg : GFact c) {r : Nat} (h : c.rAlive r = true) : c.resv r = none := by
  cases hr : c.resv r with
  | none => rfl
  | some u => have := (hg.resv_lt r u hr).2; rw [h] at this; cases this

theorem upd_self {β : Type} (f : Nat → β) (i : Nat) : upd f i (f i) = f := by
  funext j; simp only [upd_apply]; split
  · rename_i e; rw [e]
  · rfl

theorem gfact_unalive {c : Core} (hg : GFact c) {r : Nat} : GFact { c with rAlive := upd c.rAlive r false } := by
  obtain ⟨g1, g2, g3, g4, g5, g6, g7, g8, g9, g10, g11, g12, g13, g14, g15, g16⟩ := hg
  refine ⟨g1, g2, g3, g4, g5, g6, g7, g8, g9, g10, g11, g12, ?_, ?_, g15, g16⟩
  · intro x hx; simp only [upd_apply] at hx; split at hx
    · cases hx
    · exact g13 x hx
  · intro n u hn; have := g14 n u hn
    refine ⟨this.1, ?_⟩
    simp only [upd_apply]; split
    · rfl
    · exact this.2

theorem safe_call {s s' : State} {t : Nat} {op : Op} (hs : Safe s)
    (h : stepCall s t op = some s') (hnt : s'.taint = false) : Safe s' := by
  unfold stepCall at h
  split at h
  · rename_i hc
    simp only [Bool.and_eq_true] at hc
    obtain ⟨hfree, _⟩ := hc
    have idS : s.sOwner = none → idleLike s.core := fun e => hs.idle e
    have ownS : ∀ {p : PC} {s1 : State}, s1.pc = upd s.pc t p → s1.sOwner = some t → s1.rOwner = s.rOwner →
        s1.resv = s.resv → s1.core = s.core → s.sOwner = none → (∀ q, p = .snd q → sFact s.core q) →
        (∀ r q, p ≠ .rcv r q) → Safe s1 := by
      intro p s1 e1 e2 e3 e4 e5 _ hq hnr
      refine safe_free hs hfree e1 (e5 ▸ hs.g) (fun q h => e5 ▸ h) (fun u r q h => e5 ▸ h)
        (fun q e => e5 ▸ hq q e) (fun r q e => absurd e (hnr r q)) (fun e => by rw [e2] at e; cases e) ?_
      intro n hn; rw [e4] at hn; rw [e3]; exact hs.resvFree n hn
    have ownR : ∀ {r : Nat} {q : RPC} {s1 : State}, s1.pc = upd s.pc t (.rcv r q) → s1.sOwner = s.sOwner →
        s1.rOwner = upd s.rOwner r (some t) → s1.resv = s.resv → s1.core = s.core → s.rAlive r = true →
        (r < s.core.nextCell → s.core.resv r = none → rFact s.core t r q) → Safe s1 := by
      intro r q s1 e1 e2 e3 e4 e5 hal hq
      have hlt := hs.g.alive_lt r hal
      have hrn := resv_none_of_alive hs.g (r := r) hal
      refine safe_free hs hfree e1 (e5 ▸ hs.g) (fun q h => e5 ▸ h) (fun u r q h => e5 ▸ h)
        (fun q e => by cases e) (fun r' q' e => by cases e; exact e5 ▸ hq hlt hrn)
        (fun e => by
          rw [e2] at e
          have : s1.core.head = s1.core.sent.length ∧ s1.core.dirty = false := by rw [e5]; exact hs.idle e
          exact this) ?_
      intro n hn; rw [e4] at hn; rw [e3]
      simp only [upd_apply]; split
      · rename_i e; subst e; exact absurd hrn hn
      · exact hs.resvFree n hn
    have freeRet : ∀ {res : Res} {s1 : State}, s1.pc = upd s.pc t (.ret res) → s1.sOwner = s.sOwner →
        s1.rOwner = s.rOwner → s1.resv = s.resv → s1.core = s.core → Safe s1 := by
      intro res s1 e1 e2 e3 e4 e5
      refine safe_free hs hfree e1 (e5 ▸ hs.g) (fun q h => e5 ▸ h) (fun u r q h => e5 ▸ h)
        (fun q e => by cases e) (fun r q e => by cases e)
        (fun e => by
          rw [e2] at e
          have : s1.core.head = s1.core.sent.length ∧ s1.core.dirty = false := by rw [e5]; exact hs.idle e
          exact this) ?_
      intro n hn; rw [e4] at hn; rw [e3]; exact hs.resvFree n hn
    cases op <;> simp only [] at h
    case send v =>
      split at h
      · rename_i hf; simp only [sFreeH, Bool.and_eq_true, Option.isNone_iff_eq_none] at hf
        cases h
        exact ownS rfl rfl rfl rfl rfl hf.2 (fun q e => by cases e; exact idS hf.2) (fun r q e => by cases e)
      · cases h
    case trySend v =>
      split at h
      · rename_i hf; simp only [sFreeH, Bool.and_eq_true, Option.isNone_iff_eq_none] at hf
        cases h
        exact ownS rfl rfl rfl rfl rfl hf.2 (fun q e => by cases e; exact idS hf.2) (fun r q e => by cases e)
      · cases h
    case sendBatch vs blk =>
      split at h
      · rename_i hf; simp only [sFreeH, Bool.and_eq_true, Option.isNone_iff_eq_none] at hf
        split at h
        · cases h; exact freeRet rfl rfl rfl rfl rfl
        · cases h
          exact ownS rfl rfl rfl rfl rfl hf.2 (fun q e => by cases e; exact idS hf.2) (fun r q e => by cases e)
      · cases h
    case sClose =>
      split at h
      · rename_i hf; simp only [sFreeH, Bool.and_eq_true, Option.isNone_iff_eq_none] at hf
        cases h
        exact ownS rfl rfl rfl rfl rfl hf.2 (fun q e => by cases e; exact idS hf.2) (fun r q e => by cases e)
      · cases h
    case sDrop =>
      split at h
      · rename_i hf; simp only [sFreeH, Bool.and_eq_true, Option.isNone_iff_eq_none] at hf
        cases h
        exact ownS rfl rfl rfl rfl rfl hf.2 (fun q e => by cases e; exact idS hf.2) (fun r q e => by cases e)
      · cases h
    case sProbe p =>
      split at h
      · rename_i hf; simp only [sFreeH, Bool.and_eq_true, Option.isNone_iff_eq_none] at hf
        cases h
        refine ownS rfl rfl rfl rfl rfl hf.2 ?_ ?_
        · intro q e
          have hi := idS hf.2
          split at e
          · cases e; exact ⟨hi, fun h => by simp [sendK] at h, by simp [hOK], rfl⟩
          · cases e; exact ⟨hi, fun h => by simp [sendK] at h⟩
        · intro r q e; split at e <;> cases e
      · cases h
    case sConv =>
      split at h
      · cases h
        simp only [Bool.or_eq_false_iff] at hnt
        have hcl : s.sclosed = false := hnt.2
        have hcore : ({ s with sclosed := false, taint := s.taint || s.sclosed, pc := upd s.pc t (.ret .unit) } : State).core = s.core := by
          simp only [State.core, ← hcl]
        exact freeRet rfl rfl rfl rfl hcore
      · cases h
    case recv r kind max =>
      split at h
      · rename_i hf; simp only [rFreeH, Bool.and_eq_true, Option.isNone_iff_eq_none] at hf
        split at h
        · cases h; exact freeRet rfl rfl rfl rfl rfl
        · cases h
          exact ownR rfl rfl rfl rfl rfl hf.1 (fun a b => ⟨a, b⟩)
      · cases h
    case clone r =>
      split at h
      · rename_i hf; simp only [rFreeH, Bool.and_eq_true, Option.isNone_iff_eq_none] at hf
        cases h
        simp only [Bool.or_eq_false_iff] at hnt
        exact ownR rfl rfl rfl rfl rfl hf.1 (fun a b => ⟨a, b, hnt.2⟩)
      · cases h
    case rClose r =>
      split at h
      · rename_i hf; simp only [rFreeH, Bool.and_eq_true, Option.isNone_iff_eq_none] at hf
        cases h
        exact ownR rfl rfl rfl rfl rfl hf.1 (fun a b => ⟨a, b⟩)
      · cases h
    case rDrop r =>
      split at h
      · rename_i hf; simp only [rFreeH, Bool.and_eq_true, Option.isNone_iff_eq_none] at hf
        cases h
        have hlt := hs.g.alive_lt r hf.1
        have hrn := resv_none_of_alive hs.g (r := r) hf.1
        refine safe_free hs hfree rfl (gfact_unalive hs.g (r := r)) (fun q h => ?_) (fun u r' q h => ?_)
          (fun q e => by cases e) (fun r' q' e => by cases e; exact ⟨hlt, hrn⟩)
          (fun e => hs.idle e) ?_
        · exact sFact_mono_R (c := s.core) rfl rfl rfl rfl rfl rfl rfl rfl (Nat.le_refl _) (fun _ _ => Nat.le_refl _) h
        · exact rFact_ext (c := s.core) (fun _ => False) hs.g (Nat.le_refl _) (fun _ _ _ => ⟨rfl, rfl, rfl, rfl, rfl⟩) rfl rfl rfl
            (fun _ _ _ h => h) (fun e => e) (fun _ _ e => e) h
        · intro n hn
          show upd s.rOwner r (some t) n = none
          simp only [upd_apply]; split
          · rename_i e; subst e; exact absurd hrn hn
          · exact hs.resvFree n hn
      · cases h
    case rProbe r p =>
      split at h
      · rename_i hf; simp only [rFreeH, Bool.and_eq_true, Option.isNone_iff_eq_none] at hf
        cases h
        refine ownR (q := if p = .isClosed then .qDrop else .qHead p) ?_ rfl rfl rfl rfl hf.1 ?_
        · show upd s.pc t _ = upd s.pc t _; split <;> rfl
        · intro a b; split <;> exact ⟨a, b⟩
      · cases h
    case rConv r =>
      split at h
      · cases h
        simp only [Bool.or_eq_false_iff] at hnt
        have hcl : s.rclosed r = false := hnt.2
        have hcore : ({ s with rclosed := upd s.rclosed r false, taint := s.taint || s.rclosed r, pc := upd s.pc t (.ret .unit) } : State).core = s.core := by
          simp only [State.core, ← hcl, upd_self]
        exact freeRet rfl rfl rfl rfl hcore
      · cases h
  · cases h


theorem safe_spurious {s s' : State} {t : Nat} (ha : InvA s) (hs : Safe s) (h : stepSpurious s t = some s') : Safe s' := by
  unfold stepSpurious at h
  split at h
  · rename_i x hpc; cases h; plainS ha hs hpc
  · rename_i r x hpc; cases h
    have hf := hs.rf t r _ hpc; simp only [rFact] at hf
    rB ha hs hpc hf
  · cases h

theorem safe_teardown {s s' : State} (hs : Safe s) (h : stepTeardown s = some s') : Safe s' := by
  unfold stepTeardown at h
  split at h
  · cases h; exact ⟨hs.g, hs.sf, hs.rf, hs.idle, hs.resvFree⟩
  · cases h

theorem safe_init {cap : Nat} (hc : 0 < cap) : Safe (init cap) := by
  refine ⟨?_, ?_, ?_, ?_, ?_⟩
  · constructor <;> simp [init, State.core, Core.pub, hc]
    · intro j i hj h; omega
  · intro t q h; simp [init] at h
  · intro t r q h; simp [init] at h
  · intro _; simp [init]
  · intro n hn; simp [init] at hn

theorem actS_taint {s s' : State} {t : Nat} {p : SPC} (h : actS s t p = some s') : s'.taint = s.taint := by
  cases p <;> simp only [actS] at h
  case sEnter k h0 p => unfold stepSEnter at h; repeat' split at h
                        all_goals (cases h; try rfl)
  case sScan k h0 i done todo m => unfold stepSScan at h; repeat' split at h
                                   all_goals (cases h; try rfl)
  case sExit k h0 i L m => unfold stepSExit at h; repeat' split at h
                           all_goals (cases h; try rfl)
  case wLockW x h0 j k acc => unfold stepWLockW at h; split at h <;> cases h; rfl
  case wWake x k acc => unfold stepWWake at h; split at h <;> cases h; rfl
  case pPark x => unfold stepPPark at h; split at h <;> cases h; rfl
  case cLock j => unfold stepCLock at h; split at h <;> cases h; rfl
  case cWake j ws => unfold stepCWake at h; split at h <;> cases h; rfl
  case sFlag x => cases h; unfold stepSFlag; split <;> rfl
  case wSeqSt x h0 j k => cases h; rfl
  case wUnlockW x h0 j k acc => cases h; rfl
  case dCas d => cases h; unfold stepDCas; repeat' split
                 all_goals rfl
  case dLoad x => cases h; unfold stepDLoad; split <;> rfl
  case pLoad x => cases h; unfold stepPLoad; repeat' split
                  all_goals rfl
  case pCas x => cases h; unfold stepPCas; split <;> rfl
  case cFlag d => cases h; unfold stepCFlag; split <;> rfl
  case cUnlock j => cases h; rfl
  all_goals (cases h; rfl)

theorem actR_taint {s s' : State} {t r : Nat} {p : RPC} (h : actR s t r p = some s') : s'.taint = s.taint := by
  cases p <;> simp only [actR] at h
  case gLock x c => unfold stepGLock at h; split at h <;> cases h; rfl
  case eLock x c => unfold stepELock at h; split at h <;> cases h; rfl
  case kPark x => unfold stepKPark at h; split at h <;> cases h; rfl
  case mLock k => unfold stepMLock at h; split at h <;> cases h; rfl
  case mMod k p => unfold stepMMod at h; repeat' split at h
                   all_goals (cases h; try rfl)
  case rFlag x => cases h; unfold stepRFlag; split <;> rfl
  case rCur x => cases h; unfold stepRCur; split <;> rfl
  case rSeq x c => cases h; unfold stepRSeq; split <;> rfl
  case rDrop x c => cases h; unfold stepRDrop; split <;> rfl
  case rHead x c => cases h; unfold stepRHead; split <;> rfl
  case bHd x c => cases h; unfold stepBHd; split <;> rfl
  case bDrop x c => cases h; unfold stepBDrop; split <;> rfl
  case bHd2 x c => cases h; unfold stepBHd2; split <;> rfl
  case eDrop x => cases h; unfold stepEDrop; split <;> rfl
  case eCur x h0 => cases h; unfold stepECur; repeat' split
                    all_goals rfl
  case wpLoad k => cases h; unfold stepWpLoad; split <;> rfl
  case wpCas k => cases h; unfold stepWpCas; split <;> rfl
  case wpIdle k th => cases h; unfold stepWpIdle; split <;> rfl
  case mUnlock k => cases h; unfold stepMUnlock; split <;> rfl
  case xFlag d => cases h; unfold stepXFlag; split <;> rfl
  case qDrop => cases h; unfold stepQDrop; split <;> rfl
  all_goals (cases h; rfl)

theorem taint_mono {s s' : State} {t : Nat} {l : Label} (h : step s t l = some s') (hnt : s'.taint = false) :
    s.taint = false := by
  cases l <;> simp only [step] at h
  · rename_i op
    unfold stepCall at h
    split at h
    · cases op <;> simp only [] at h
      all_goals (repeat' split at h)
      all_goals (cases h)
      all_goals first | exact hnt | (simp only [Bool.or_eq_false_iff] at hnt; exact hnt.1)
    · cases h
  · unfold act at h
    split at h
    · cases h
    · cases h
    · rw [← actS_taint h]; exact hnt
    · rw [← actR_taint h]; exact hnt
  · unfold stepSpurious at h
    split at h <;> cases h <;> exact hnt
  · unfold stepTeardown at h
    split at h <;> cases h; exact hnt

theorem safe_step {s s' : State} {t : Nat} {l : Label} (ha : InvA s) (hl : LRI s) (hs : Safe s)
    (h : step s t l = some s') (hnt : s'.taint = false) : Safe s' := by
  cases l <;> simp only [step] at h
  · exact safe_call hs h hnt
  · exact safe_act ha hl hs h
  · exact safe_spurious ha hs h
  · exact safe_teardown hs h

/-- **The safety invariant holds in every reachable state of an untainted run**, for every capacity,
program, number of threads and receivers, and interleaving. -/
theorem safe_reach {cap : Nat} (hc : 0 < cap) {s : State} (h : Reach cap s) (hnt : s.taint = false) : Safe s := by
  induction h with
  | init => exact safe_init hc
  | step hr hs ih =>
    have h0 := taint_mono hs hnt
    exact safe_step (invA_reach hr) (lri_reach hr) (ih h0) hs hnt

end Fv.Chan.SpmcB
