import Fv.Lemmas.IocInv
/-!
# C18: dependency cycles

* `resolve_cycle_panics`: a cycle reachable from the resolved slot makes the resolution panic
  (it cannot return and, by `resolve_total`, cannot run forever).
* `resolve_cycle_panic_sound`: when every factory stays inside one container, a
  "Circular dependency" panic is only reported for a real cycle.  (Across containers it is not: F16.)
-/
namespace Fv.Ioc

/-! ### Cycle ⇒ panic -/

/-- every member of `B` would run a factory that resolves a member of `B` -/
def Closed (w : World) (B : Slot → Prop) : Prop :=
  ∀ s, B s → ∃ p sc, w.regs.get s = some p ∧ p.active = some sc ∧ ∃ d ∈ sc, B d.slot

theorem cycleFrom_closed (w : World) : Closed w (CycleFrom w) := by
  intro s hs
  obtain ⟨t, u, hr, he, hb⟩ := hs
  cases hr with
  | refl =>
    obtain ⟨p, sc, hget, hact, d, hd, hslot⟩ := he
    refine ⟨p, sc, hget, hact, d, hd, ?_⟩
    rw [hslot]
    exact ⟨s, u, hb, ⟨p, sc, hget, hact, d, hd, hslot⟩, hb⟩
  | step e hr' =>
    obtain ⟨p, sc, hget, hact, d, hd, hslot⟩ := e
    refine ⟨p, sc, hget, hact, d, hd, ?_⟩
    rw [hslot]
    exact ⟨t, u, hr', he, hb⟩

def Outcome.aborted : Outcome → Prop
  | .panic _ => True
  | .diverge => True
  | _ => False

theorem Abort.outcome_aborted (a : Abort) : a.outcome.aborted := by
  cases a <;> simp [Abort.outcome, Outcome.aborted]

theorem Closed.of_frame {w w' : World} {B : Slot → Prop} (h : Closed w B)
    (hf : ∀ u, B u → w'.regs.get u = w.regs.get u) : Closed w' B := by
  intro s hs
  obtain ⟨p, sc, hget, rest⟩ := h s hs
  exact ⟨p, sc, by rw [hf s hs]; exact hget, rest⟩

theorem runScript_closed (B : Slot → Prop) (res : World → Nat → Key → World × Outcome)
    (hres : ∀ (w : World) c k, Closed w B →
      (∀ u, B u → (res w c k).1.regs.get u = w.regs.get u) ∧ (B ⟨c, k⟩ → (res w c k).2.aborted)) :
    ∀ (ds : List Dep) (w : World), Closed w B →
      (∀ u, B u → (runScript res w ds).1.regs.get u = w.regs.get u) ∧
      ((∃ d ∈ ds, B d.slot) → (runScript res w ds).2 ≠ none) := by
  intro ds
  induction ds with
  | nil => intro w _; simp [runScript]
  | cons d ds ih =>
    intro w hw
    obtain ⟨hf, hb⟩ := hres w d.c d.k hw
    simp only [runScript]
    generalize res w d.c d.k = r at hf hb
    obtain ⟨w', o⟩ := r
    have hw' : Closed w' B := hw.of_frame hf
    obtain ⟨ihf, ihb⟩ := ih w' hw'
    have hcont : (∀ u, B u → (runScript res w' ds).1.regs.get u = w.regs.get u) ∧
        ((¬ B d.slot) → (∃ d' ∈ d :: ds, B d'.slot) → (runScript res w' ds).2 ≠ none) := by
      refine ⟨fun u hu => (ihf u hu).trans (hf u hu), ?_⟩
      intro hnd ⟨d', hd', hB⟩
      rcases List.mem_cons.1 hd' with rfl | hd''
      · exact absurd hB hnd
      · exact ihb ⟨d', hd'', hB⟩
    cases o with
    | some id =>
      refine ⟨hcont.1, fun hex => hcont.2 (fun hB => ?_) hex⟩
      have := hb hB; simp [Outcome.aborted] at this
    | none =>
      by_cases hq : d.req
      · simp only [hq, if_true]
        exact ⟨hf, fun _ => by simp⟩
      · simp only [hq]
        refine ⟨hcont.1, fun hex => hcont.2 (fun hB => ?_) hex⟩
        have := hb hB; simp [Outcome.aborted] at this
    | panic p => exact ⟨hf, fun _ => by simp⟩
    | diverge => exact ⟨hf, fun _ => by simp⟩

theorem resolveF_closed (B : Slot → Prop) : ∀ (fuel : Nat) (w : World) (c : Nat) (k : Key), Closed w B →
    (∀ u, B u → (resolveF fuel w c k).1.regs.get u = w.regs.get u) ∧
    (B ⟨c, k⟩ → (resolveF fuel w c k).2.aborted) := by
  intro fuel
  induction fuel with
  | zero => intro w c k _; exact ⟨fun _ _ => rfl, fun _ => by simp [resolveF, Outcome.aborted]⟩
  | succ fuel ih =>
    intro w c k hw
    simp only [resolveF]
    by_cases hk : k ∈ w.resolving
    · rw [if_pos hk]; exact ⟨fun _ _ => rfl, fun _ => by simp [Outcome.aborted]⟩
    · simp only [hk, if_false]
      have hpush : Closed (w.push k) B := hw
      -- a slot in `B` is active
      have hactive : B ⟨c, k⟩ → ∃ p sc, (w.push k).regs.get ⟨c, k⟩ = some p ∧ p.active = some sc ∧ ∃ d ∈ sc, B d.slot :=
        fun hB => hw _ hB
      cases hget : (w.push k).regs.get ⟨c, k⟩ with
      | none =>
        refine ⟨fun _ _ => by rw [pop_push], fun hB => ?_⟩
        obtain ⟨p, sc, hp, _⟩ := hactive hB
        rw [hget] at hp; cases hp
      | some p =>
        cases p with
        | inst id =>
          refine ⟨fun _ _ => by rw [pop_push], fun hB => ?_⟩
          obtain ⟨p, sc, hp, ha, _⟩ := hactive hB
          rw [hget] at hp; cases hp; simp [Provider.active] at ha
        | singleton sc cell runs =>
          cases cell with
          | some id =>
            refine ⟨fun _ _ => by rw [pop_push], fun hB => ?_⟩
            obtain ⟨p, sc', hp, ha, _⟩ := hactive hB
            rw [hget] at hp; cases hp; simp [Provider.active] at ha
          | none =>
            simp only
            obtain ⟨hf, hb⟩ := runScript_closed B (resolveF fuel) ih sc (w.push k) hpush
            generalize runScript (resolveF fuel) (w.push k) sc = r at hf hb
            obtain ⟨w2, a⟩ := r
            cases a with
            | some a => exact ⟨hf, fun _ => a.outcome_aborted⟩
            | none =>
              have hnB : ¬ B ⟨c, k⟩ := by
                intro hB
                obtain ⟨p, sc', hp, ha, hd⟩ := hactive hB
                rw [hget] at hp; cases hp
                simp only [Provider.active, Option.some.injEq] at ha
                subst ha
                exact hb hd rfl
              refine ⟨fun u hu => ?_, fun hB => absurd hB hnB⟩
              have hne : u ≠ ⟨c, k⟩ := fun e => hnB (e ▸ hu)
              simp only [World.made, World.pop]
              rw [Reg.get_set_other _ _ hne]
              exact hf u hu
        | transient sc runs =>
          simp only
          obtain ⟨hf, hb⟩ := runScript_closed B (resolveF fuel) ih sc (w.push k) hpush
          generalize runScript (resolveF fuel) (w.push k) sc = r at hf hb
          obtain ⟨w2, a⟩ := r
          cases a with
          | some a => exact ⟨hf, fun _ => a.outcome_aborted⟩
          | none =>
            have hnB : ¬ B ⟨c, k⟩ := by
              intro hB
              obtain ⟨p, sc', hp, ha, hd⟩ := hactive hB
              rw [hget] at hp; cases hp
              simp only [Provider.active, Option.some.injEq] at ha
              subst ha
              exact hb hd rfl
            refine ⟨fun u hu => ?_, fun hB => absurd hB hnB⟩
            have hne : u ≠ ⟨c, k⟩ := fun e => hnB (e ▸ hu)
            simp only [World.made, World.pop]
            rw [Reg.get_set_other _ _ hne]
            exact hf u hu

/-- a dependency cycle reachable from the resolved slot is reported by a panic: the resolver
neither returns a value nor runs out of fuel (= never diverges, `resolve_total`) -/
theorem resolve_cycle_panics {w : World} {c : Nat} {k : Key} (h : CycleFrom w ⟨c, k⟩) :
    ∃ p, (resolve w c k).2 = .panic p := by
  have h1 := (resolveF_closed (CycleFrom w) w.fuel w c k (cycleFrom_closed w)).2 h
  have h2 := resolve_total w c k
  simp only [resolve] at h2 ⊢
  generalize (resolveF w.fuel w c k).2 = o at h1 h2
  cases o with
  | some id => simp [Outcome.aborted] at h1
  | none => simp [Outcome.aborted] at h1
  | panic p => exact ⟨p, rfl⟩
  | diverge => exact absurd rfl h2

/-- … and nothing a slot on or before a cycle stores is ever changed (it is never initialised) -/
theorem resolve_cycle_frame {w : World} (c : Nat) (k : Key) {u : Slot} (h : CycleFrom w u) :
    (resolve w c k).1.regs.get u = w.regs.get u :=
  (resolveF_closed (CycleFrom w) w.fuel w c k (cycleFrom_closed w)).1 u h

/-! ### "Circular dependency" ⇒ cycle, inside one container -/

def Provider.script : Provider → List Dep
  | .inst _ => []
  | .singleton sc _ _ => sc
  | .transient sc _ => sc

/-- every factory registered anywhere resolves only from container `c` -/
def OneContainer (w : World) (c : Nat) : Prop :=
  ∀ s p, w.regs.get s = some p → ∀ d ∈ p.script, d.c = c

/-- `w'` is a later state of `w`'s registry (no new registrations) -/
def RegsBack (w w' : World) : Prop :=
  ∀ s p', w'.regs.get s = some p' → ∃ p, w.regs.get s = some p ∧ p.Evolves p'

theorem World.Ext.regsBack {w w' : World} (h : w.Ext w') : RegsBack w w' := by
  intro s p' hp'
  cases hget : w.regs.get s with
  | none => rw [h.get_none hget] at hp'; cases hp'
  | some p =>
    obtain ⟨p'', hp'', e⟩ := h.evolves s p hget
    rw [hp''] at hp'; cases hp'
    exact ⟨p, rfl, e⟩

theorem Provider.Evolves.active_back {p p' : Provider} {sc : List Dep} (h : p.Evolves p')
    (ha : p'.active = some sc) : p.active = some sc := by
  cases p with
  | inst a => simp only [Provider.Evolves] at h; subst h; exact ha
  | singleton sc0 cell r =>
    cases cell with
    | some id => simp only [Provider.Evolves] at h; subst h; exact ha
    | none =>
      simp only [Provider.Evolves] at h
      rcases h with h | ⟨id, h⟩ <;> subst h
      · exact ha
      · simp [Provider.active] at ha
  | transient sc0 r =>
    obtain ⟨r', _, h⟩ := h
    subst h; exact ha

theorem Provider.Evolves.script_eq {p p' : Provider} (h : p.Evolves p') : p'.script = p.script := by
  cases p with
  | inst a => simp only [Provider.Evolves] at h; subst h; rfl
  | singleton sc0 cell r =>
    cases cell with
    | some id => simp only [Provider.Evolves] at h; subst h; rfl
    | none =>
      simp only [Provider.Evolves] at h
      rcases h with h | ⟨id, h⟩ <;> subst h <;> rfl
  | transient sc0 r =>
    obtain ⟨r', _, h⟩ := h
    subst h; rfl

theorem ActiveEdge.back {w w' : World} (h : RegsBack w w') {s t : Slot} (e : ActiveEdge w' s t) :
    ActiveEdge w s t := by
  obtain ⟨p', sc, hget, hact, hd⟩ := e
  obtain ⟨p, hp, ev⟩ := h s p' hget
  exact ⟨p, sc, hp, ev.active_back hact, hd⟩

theorem Reach.back {w w' : World} (h : RegsBack w w') {s t : Slot} (r : Reach w' s t) : Reach w s t := by
  induction r with
  | refl s => exact Reach.refl s
  | step e _ ih => exact Reach.step (e.back h) ih

theorem CycleFrom.back {w w' : World} (h : RegsBack w w') {s : Slot} (r : CycleFrom w' s) : CycleFrom w s := by
  obtain ⟨t, u, hr, he, hb⟩ := r
  exact ⟨t, u, hr.back h, he.back h, hb.back h⟩

theorem OneContainer.ext {w w' : World} {c : Nat} (h : OneContainer w c) (he : w.Ext w') : OneContainer w' c := by
  intro s p' hp' d hd
  obtain ⟨p, hp, ev⟩ := he.regsBack s p' hp'
  rw [ev.script_eq] at hd
  exact h s p hp d hd

theorem Provider.script_of_active {p : Provider} {sc : List Dep} (h : p.active = some sc) : p.script = sc := by
  cases p with
  | inst a => simp [Provider.active] at h
  | singleton sc0 cell r =>
    cases cell with
    | some id => simp [Provider.active] at h
    | none => simpa [Provider.active, Provider.script] using h
  | transient sc0 r => simpa [Provider.active, Provider.script] using h

/-- the conclusion for a resolution started below a non-empty resolving set -/
def CycleOrStack (w : World) (c : Nat) (s : Slot) : Prop :=
  (∃ t ∈ w.resolving, Reach w s ⟨c, t⟩) ∨ CycleFrom w s

theorem runScript_cycle_sound (c : Nat) (res : World → Nat → Key → World × Outcome)
    (hext : ∀ (w : World) c' k, w.Ext (res w c' k).1)
    (hres : ∀ (w : World) k, OneContainer w c → (res w c k).2 = .panic .cycle → CycleOrStack w c ⟨c, k⟩) :
    ∀ (ds : List Dep) (w : World), OneContainer w c → (∀ d ∈ ds, d.c = c) →
      (runScript res w ds).2 = some (.panic .cycle) → ∃ d ∈ ds, CycleOrStack w c d.slot := by
  intro ds
  induction ds with
  | nil => intro w _ _ h; simp [runScript] at h
  | cons d ds ih =>
    intro w hw hds h
    have hdc : d.c = c := hds d (List.mem_cons_self ..)
    have hrest : ∀ d' ∈ ds, d'.c = c := fun d' hd' => hds d' (List.mem_cons_of_mem _ hd')
    have he := hext w d.c d.k
    have hr := hres w d.k hw
    rw [← hdc] at hr
    simp only [runScript] at h
    generalize res w d.c d.k = r at he hr h
    obtain ⟨w', o⟩ := r
    have later : (runScript res w' ds).2 = some (.panic .cycle) → ∃ d' ∈ d :: ds, CycleOrStack w c d'.slot := by
      intro h'
      obtain ⟨d', hd', hc⟩ := ih w' (hw.ext he) hrest h'
      refine ⟨d', List.mem_cons_of_mem _ hd', ?_⟩
      rcases hc with ⟨t, ht, hreach⟩ | hcyc
      · exact Or.inl ⟨t, by rw [← he.resolving]; exact ht, hreach.back he.regsBack⟩
      · exact Or.inr (hcyc.back he.regsBack)
    cases o with
    | some id => exact later h
    | none =>
      by_cases hq : d.req
      · simp [hq] at h
      · simp only [hq] at h; exact later h
    | panic p =>
      simp only [Option.some.injEq, Abort.panic.injEq] at h
      subst h
      refine ⟨d, List.mem_cons_self .., ?_⟩
      have := hr rfl
      simpa [Dep.slot, hdc] using this
    | diverge => simp at h

theorem resolveF_cycle_sound (c : Nat) : ∀ (fuel : Nat) (w : World) (k : Key), OneContainer w c →
    (resolveF fuel w c k).2 = .panic .cycle → CycleOrStack w c ⟨c, k⟩ := by
  intro fuel
  induction fuel with
  | zero => intro w k _ h; simp [resolveF] at h
  | succ fuel ih =>
    intro w k hw h
    simp only [resolveF] at h
    by_cases hk : k ∈ w.resolving
    · exact Or.inl ⟨k, hk, Reach.refl _⟩
    · simp only [hk, if_false] at h
      have hback : RegsBack w (w.push k) := fun s p' hp' => ⟨p', hp', Provider.Evolves.refl p'⟩
      have hone : OneContainer (w.push k) c := hw
      -- the shared tail: the factory script of an active provider panicked with `cycle`
      have key : ∀ p sc, w.regs.get ⟨c, k⟩ = some p → p.active = some sc →
          (runScript (resolveF fuel) (w.push k) sc).2 = some (.panic .cycle) → CycleOrStack w c ⟨c, k⟩ := by
        intro p sc hget hact hrun
        have hsc : ∀ d ∈ sc, d.c = c := by
          intro d hd
          exact hw _ p hget d (by rw [Provider.script_of_active hact]; exact hd)
        obtain ⟨d, hd, hc⟩ := runScript_cycle_sound c (resolveF fuel) (resolveF_ext fuel) ih sc (w.push k) hone hsc hrun
        have hedge : ActiveEdge w ⟨c, k⟩ d.slot := ⟨p, sc, hget, hact, d, hd, rfl⟩
        rcases hc with ⟨t, ht, hreach⟩ | hcyc
        · have hreach' := hreach.back hback
          simp only [World.push, List.mem_cons] at ht
          rcases ht with rfl | ht
          · exact Or.inr ⟨⟨c, t⟩, d.slot, Reach.refl _, hedge, hreach'⟩
          · exact Or.inl ⟨t, ht, Reach.step hedge hreach'⟩
        · obtain ⟨t, u, hr, he, hb⟩ := hcyc.back hback
          exact Or.inr ⟨t, u, Reach.step hedge hr, he, hb⟩
      cases hget : (w.push k).regs.get ⟨c, k⟩ with
      | none => simp [hget] at h
      | some p =>
        rw [hget] at h
        cases p with
        | inst id => simp at h
        | singleton sc cell runs =>
          cases cell with
          | some id => simp at h
          | none =>
            simp only at h
            apply key _ sc hget rfl
            generalize runScript (resolveF fuel) (w.push k) sc = r at h
            obtain ⟨w2, a⟩ := r
            cases a with
            | some a => cases a <;> simp_all [Abort.outcome]
            | none => simp [World.made] at h
        | transient sc runs =>
          simp only at h
          apply key _ sc hget rfl
          generalize runScript (resolveF fuel) (w.push k) sc = r at h
          obtain ⟨w2, a⟩ := r
          cases a with
          | some a => cases a <;> simp_all [Abort.outcome]
          | none => simp [World.made] at h

/-- inside one container the cycle detector is exact -/
theorem resolve_cycle_panic_sound {w : World} {c : Nat} {k : Key} (hone : OneContainer w c)
    (hidle : w.resolving = []) (h : (resolve w c k).2 = .panic .cycle) : CycleFrom w ⟨c, k⟩ := by
  rcases resolveF_cycle_sound c _ w k hone h with ⟨t, ht, _⟩ | hc
  · rw [hidle] at ht; cases ht
  · exact hc

end Fv.Ioc
