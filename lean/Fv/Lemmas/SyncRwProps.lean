import Fv.Lemmas.SyncRwFlags2
/-!
Finished C10 theorems about the `HybridRwLock` model (re-exported by `Fv/Props/C10.lean`):
* (b) `try_bounded` - `try_read` / `try_write` are straight-line;
* (e) the writer gate, safety form: `wp_iff_writers`, `wp_iff_writer_queued`, `hq_iff_nonempty`,
  `reader_cas_needs_flag_clear`, `writer_gate`.
Each with a non-vacuity example (a concrete reachable state).
-/
namespace Fv.Sync.RwLock
open Fv.Sync
variable {cfg : Cfg} {s s' : State} {t : Tid} {l : Lbl}

/-! ### (b) try operations never block -/

/-- own-step budget of a `try_read` / `try_write` in progress (also: a pending `ret`) -/
def tryRank : Pc → Nat
  | .taLoad .try_ => 3
  | .taCas .try_ => 2
  | .ret _ => 1
  | _ => 0

/-- (b) `try_read` / `try_write` never block: after the call the thread is at rank 3; every own step
from a positive rank is a load, a CAS or the return (never `park`, `yield`, `spin`) and strictly
decreases the rank (`try_read`'s CAS is strong: a failed CAS returns `None`, there is no retry);
steps of other threads do not touch the thread.  Hence both return after at most 3 further own
steps, in every interleaving. -/
theorem try_bounded (h : (l, s') ∈ next cfg s t) :
    ((l = .call .tryRead ∨ l = .call .tryWrite) → tryRank (s'.th t).pc = 3)
    ∧ (0 < tryRank (s.th t).pc →
        l ≠ .park ∧ l ≠ .parkSpur ∧ l ≠ .yield ∧ l ≠ .spin ∧ tryRank (s'.th t).pc < tryRank (s.th t).pc)
    ∧ (∀ u, u ≠ t → s'.th u = s.th u) := by
  have hs := step_of_mem h
  refine ⟨?_, ?_, step_th_other hs⟩
  · intro hl
    cases hs <;> rcases hl with hl | hl <;> simp_all [callStep, setTh, tryRank]
  · intro hr
    cases hs
    case taLoadBlocked k hpc hb => cases k <;> simp_all [tryRank, taFail, withPc, setTh]
    case taLoadFree k hpc hb => cases k <;> simp_all [tryRank, setTh]
    case taCasOkW k hpc he hw => cases k <;> simp_all [tryRank, taSucc, withPc, setTh]
    case taCasOkR k hpc he hw => cases k <;> simp_all [tryRank, taSucc, withPc, setTh]
    case taCasSpur k hpc he hweak => cases k <;> simp_all [tryRank, casWeak]
    case taCasFail k hpc he => cases k <;> simp_all [tryRank, taFail, withPc, setTh]
    all_goals simp_all [tryRank]

/-! ### (e) the writer gate -/

/-- `WRITER_PENDING` is set exactly while a writer node is counted in the queue, whenever nobody is
inside a list critical section -/
theorem wp_iff_writers (hr : Reach cfg s) (hl : s.wl.locked = false) :
    s.word.wp = true ↔ 0 < s.wl.writers := (Inv2_reach hr).wpFree hl

theorem wp_iff_writer_queued (hr : Reach cfg s) (hl : s.wl.locked = false) :
    s.word.wp = true ↔ ∃ n ∈ s.wl.queue, (s.wl.node n).isWriter = true := by
  rw [wp_iff_writers hr hl, (list_wf hr).writers, List.countP_pos_iff]

/-- `HAS_QUEUED` is set exactly while the queue is non-empty, whenever nobody is inside a list
critical section -/
theorem hq_iff_nonempty (hr : Reach cfg s) (hl : s.wl.locked = false) :
    s.word.hq = true ↔ s.wl.queue ≠ [] := by
  rw [(Inv2_reach hr).hqFree hl, (list_wf hr).len, List.length_pos_iff]

theorem taSucc_holders (s : State) (t : Tid) (k : TaK) : (taSucc s t k).holders = s.holders := by
  cases k <;> simp only [taSucc, pollDone, withPc, setTh] <;> (repeat' split) <;> rfl

/-- a successful read-acquiring CAS (fast path, spin loop, poll, or the queue block) happens only
in a state whose word has neither `WRITER_PENDING` nor `WRITE_LOCKED` -/
theorem reader_cas_needs_flag_clear (hr : Reach cfg s) (h : (l, s') ∈ next cfg s t)
    {w : Bool} {old new : Nat} (hl : l = .cas .state w .acquire .relaxed old new true)
    (hw : (s.th t).wr = false) :
    s.word.wp = false ∧ s.word.wl = false ∧ isCas (s.th t).pc = true ∧ s'.holders = (t, false) :: s.holders := by
  have hs := step_of_mem h
  have hsv := (Inv_reach hr).svOk t
  have key : isCas (s.th t).pc = true → s.word = (s.th t).sv → s.word.wp = false ∧ s.word.wl = false := by
    intro hc he
    have := hsv hc
    rw [hw, ← he] at this
    simp only [RWord.blocked, Bool.false_eq_true, ↓reduceIte, Bool.or_eq_false_iff] at this
    exact ⟨this.2, this.1⟩
  cases hs
  case taCasOkW k hpc he hw' => rw [hw] at hw'; cases hw'
  case taCasOkR k hpc he hw' =>
    have hc : isCas (s.th t).pc = true := by rw [hpc]; rfl
    obtain ⟨k1, k2⟩ := key hc he
    exact ⟨k1, k2, hc, by rw [taSucc_holders, hw]⟩
  case qCasOkSyncW hpc he hw' hc' => rw [hw] at hw'; cases hw'
  case qCasOkAsyncW f hpc he hw' hc' => rw [hw] at hw'; cases hw'
  case qCasOkSyncR hpc he hw' hc' =>
    have hc : isCas (s.th t).pc = true := by rw [hpc]; rfl
    obtain ⟨k1, k2⟩ := key hc he
    exact ⟨k1, k2, hc, by simp only [withPc, setTh, hw]⟩
  case qCasOkAsyncR f hpc he hw' hc' =>
    have hc : isCas (s.th t).pc = true := by rw [hpc]; rfl
    obtain ⟨k1, k2⟩ := key hc he
    exact ⟨k1, k2, hc, by simp only [withPc, setTh, hw]⟩
  all_goals cases hl

/-- (e) WRITER GATE: while a writer node is queued and no list critical section is open, no reader
can acquire the lock -/
theorem writer_gate (hr : Reach cfg s) (hl : s.wl.locked = false) {n : Nid} (hn : n ∈ s.wl.queue)
    (hnw : (s.wl.node n).isWriter = true) (h : (l, s') ∈ next cfg s t) (hw : (s.th t).wr = false)
    {w : Bool} {old new : Nat} : l ≠ .cas .state w .acquire .relaxed old new true := by
  intro hlab
  have hwp := (wp_iff_writer_queued hr hl).2 ⟨n, hn, hnw⟩
  have := (reader_cas_needs_flag_clear hr h hlab hw).1
  rw [hwp] at this; cases this

/-! ### non-vacuity -/

/-- thread 0 holds a read guard; thread 1 calls `write`, spins, queues itself and parks; thread 2
wants to read -/
def progGate : Tid → List ROp :=
  fun u => if u = 0 then [.read, .tryRead] else if u = 1 then [.write] else if u = 2 then [.read, .tryWrite] else []

def schedGate : List (Tid × Nat) :=
  [(0,0),(0,0),(0,0),(0,0), (1,0),(1,0),(1,0),(1,0),(1,0),(1,0),(1,0),(1,0),(1,0),(1,0)]

theorem exec_gate_some : ∃ s, exec {} (init progGate) schedGate = some s := by
  cases h : exec {} (init progGate) schedGate with
  | none => exact absurd h (by decide)
  | some s => exact ⟨s, rfl⟩

/-- a parked writer: the list lock is free, `WRITER_PENDING` and `HAS_QUEUED` are set, the queue is
`[writer node of thread 1]`; thread 2 (a reader) has exactly one enabled step -/
theorem gate_state_reachable :
    ∃ s, Reach {} s ∧ s.wl.locked = false ∧ s.word.wp = true ∧ s.word.hq = true ∧ s.wl.writers = 1
      ∧ s.wl.queue = [.thr 1] ∧ (s.wl.node (.thr 1)).isWriter = true ∧ (s.th 1).pc = .wPark
      ∧ s.holders = [(0, false)] ∧ (next {} s 2).length = 1 := by
  obtain ⟨s, hs⟩ := exec_gate_some
  have h1 : ((exec {} (init progGate) schedGate).map fun s =>
      (s.wl.locked, s.word.wp, s.word.hq, s.wl.writers)) = some (false, true, true, 1) := by decide
  have h2 : ((exec {} (init progGate) schedGate).map fun s =>
      (s.wl.queue, (s.wl.node (.thr 1)).isWriter)) = some ([.thr 1], true) := by decide
  have h3 : ((exec {} (init progGate) schedGate).map fun s =>
      ((s.th 1).pc, s.holders, (next {} s 2).length)) = some (.wPark, [(0, false)], 1) := by decide
  rw [hs] at h1 h2 h3
  simp only [Option.map_some, Option.some.injEq, Prod.mk.injEq] at h1 h2 h3
  exact ⟨s, execOf_reach _ _ _ (ReachOf.init ⟨progGate, rfl⟩) hs, h1.1, h1.2.1, h1.2.2.1, h1.2.2.2,
    h2.1, h2.2, h3.1, h3.2.1, h3.2.2⟩

example : ∃ s, Reach {} s ∧ s.wl.locked = false ∧ (s.word.wp = true ↔ 0 < s.wl.writers) ∧ 0 < s.wl.writers := by
  obtain ⟨s, hr, h1, _, _, h4, _⟩ := gate_state_reachable
  exact ⟨s, hr, h1, wp_iff_writers hr h1, by omega⟩

example : ∃ s, Reach {} s ∧ s.wl.locked = false ∧ s.word.hq = true ∧ s.wl.queue ≠ [] := by
  obtain ⟨s, hr, h1, _, h3, _, h5, _⟩ := gate_state_reachable
  exact ⟨s, hr, h1, h3, (hq_iff_nonempty hr h1).1 h3⟩

/-- the hypotheses of `writer_gate` are satisfiable, with a reader (thread 2) about to step -/
example : ∃ s n, Reach {} s ∧ s.wl.locked = false ∧ n ∈ s.wl.queue ∧ (s.wl.node n).isWriter = true
    ∧ (next {} s 2).length = 1 := by
  obtain ⟨s, hr, h1, _, _, _, h5, h6, _, _, h9⟩ := gate_state_reachable
  exact ⟨s, .thr 1, hr, h1, by rw [h5]; simp, h6, h9⟩

/-- a concrete step: after `sched`, the `i`-th enabled transition of thread `t` has label `lab` -/
theorem exec_step_ex {sched : List (Tid × Nat)} {t : Tid} {i : Nat} {lab : Lbl}
    (h : ((exec {} (init progGate) sched).bind fun s => (next {} s t)[i]?.map (·.1)) = some lab) :
    ∃ s s', Reach {} s ∧ (lab, s') ∈ next {} s t ∧ exec {} (init progGate) sched = some s := by
  cases he : exec {} (init progGate) sched with
  | none => rw [he] at h; cases h
  | some s =>
    rw [he] at h
    simp only [Option.bind_some] at h
    cases hg : (next {} s t)[i]? with
    | none => rw [hg] at h; cases h
    | some p =>
      rw [hg] at h
      simp only [Option.map_some, Option.some.injEq] at h
      obtain ⟨l, s'⟩ := p
      subst h
      exact ⟨s, s', execOf_reach _ _ _ (ReachOf.init ⟨progGate, rfl⟩) he, List.mem_of_getElem? hg, rfl⟩

/-- `try_bounded` is not vacuous: a `call try_read` step, and a step from rank 2 (the CAS of
`try_read`, thread 0 holding a read guard already) -/
example : ∃ s s', Reach {} s ∧ (Label.call ROp.tryRead, s') ∈ next {} s 0 := by
  obtain ⟨s, s', hr, hm, -⟩ := exec_step_ex (sched := [(0,0),(0,0),(0,0),(0,0)]) (t := 0) (i := 0)
    (lab := .call .tryRead) (by decide)
  exact ⟨s, s', hr, hm⟩

example : ∃ s s' l, Reach {} s ∧ (l, s') ∈ next {} s 0 ∧ tryRank (s.th 0).pc = 2 := by
  obtain ⟨s, s', hr, hm, he⟩ := exec_step_ex (sched := [(0,0),(0,0),(0,0),(0,0),(0,0),(0,0)]) (t := 0) (i := 0)
    (lab := .cas .state false .acquire .relaxed 8 16 true) (by decide)
  have h2 : ((exec {} (init progGate) [(0,0),(0,0),(0,0),(0,0),(0,0),(0,0)]).map fun s => tryRank (s.th 0).pc)
      = some 2 := by decide
  rw [he] at h2
  exact ⟨s, s', _, hr, hm, by simpa using h2⟩

/-- `reader_cas_needs_flag_clear` is not vacuous: the fast-path CAS of thread 0's `read` -/
example : ∃ s s' l w old new, Reach {} s ∧ (l, s') ∈ next {} s 0
    ∧ l = .cas .state w .acquire .relaxed old new true ∧ (s.th 0).wr = false := by
  obtain ⟨s, s', hr, hm, he⟩ := exec_step_ex (sched := [(0,0),(0,0)]) (t := 0) (i := 0)
    (lab := .cas .state true .acquire .relaxed 0 8 true) (by decide)
  have h2 : ((exec {} (init progGate) [(0,0),(0,0)]).map fun s => (s.th 0).wr) = some false := by decide
  rw [he] at h2
  exact ⟨s, s', _, _, _, _, hr, hm, rfl, by simpa using h2⟩

end Fv.Sync.RwLock
