import Fv.Lemmas.LogJson
import Fv.Lemmas.LogText
/-! C20 helper lemmas: the value/object decoder inverts the compact serialiser. -/
namespace Fv.Log.Json
open Fv.Log

/-- what follows a value inside an object: `,` or `}` -/
def Delim (t : Text) : Prop := ∃ c r, t = c :: r ∧ (c = ',' ∨ c = '}')

theorem Delim.comma (r : Text) : Delim (',' :: r) := ⟨',', r, rfl, Or.inl rfl⟩
theorem Delim.brace (r : Text) : Delim ('}' :: r) := ⟨'}', r, rfl, Or.inr rfl⟩

/-- a finite float as serde_json prints it: a number token that is not an integer token -/
def FloatTok (r : Text) : Prop := r ≠ [] ∧ (∀ c ∈ r, numChar c = true) ∧ parseIntTok r = none

def CleanScalar : Scalar → Prop
  | .num r => FloatTok r
  | _ => True

def CleanValue : Value → Prop
  | .scalar s => CleanScalar s
  | .obj kvs => ∀ e ∈ kvs, CleanScalar e.2

theorem numChar_of_isDigit {c : Char} (h : isDigit c = true) : numChar c = true := by
  simp [numChar, h]

theorem numChar_delim {c : Char} (h : c = ',' ∨ c = '}') : numChar c = false := by
  rcases h with rfl | rfl <;> decide

theorem parseIntTok_decInt (i : Int) : parseIntTok (decInt i) = some i := by
  cases i with
  | ofNat n =>
    simp only [decInt]
    have hne := dec_ne_nil n
    have hall := dec_all_isDigit n
    cases hd : dec n with
    | nil => exact absurd hd hne
    | cons c rest =>
      have hc : isDigit c = true := hall c (by simp [hd])
      have hcm : c ≠ '-' := by
        intro h; subst h; revert hc; decide
      have hall' : (c :: rest).all isDigit = true := by
        rw [← hd]; simp only [List.all_eq_true]; exact hall
      simp only [parseIntTok, hcm, if_false, hall', if_true]
      rw [← hd, digitsVal_dec]; rfl
  | negSucc n =>
    simp only [decInt, parseIntTok, if_true]
    have hall : (dec (n + 1)).all isDigit = true := by
      simp only [List.all_eq_true]; exact dec_all_isDigit (n + 1)
    simp only [hall, dec_ne_nil, ne_eq, not_false_eq_true, and_self, if_true, digitsVal_dec]
    rfl

theorem decInt_numChar (i : Int) : ∀ c ∈ decInt i, numChar c = true := by
  intro c hc
  cases i with
  | ofNat n => exact numChar_of_isDigit (dec_all_isDigit n c hc)
  | negSucc n =>
    simp only [decInt, List.mem_cons] at hc
    rcases hc with rfl | hc
    · decide
    · exact numChar_of_isDigit (dec_all_isDigit _ c hc)

theorem decInt_ne_nil (i : Int) : decInt i ≠ [] := by
  cases i with
  | ofNat n => exact dec_ne_nil n
  | negSucc n => simp [decInt]

/-- a run of number characters followed by a delimiter is read back as one token -/
theorem parseScalar_run (r t : Text) (hne : r ≠ []) (hall : ∀ c ∈ r, numChar c = true) (ht : Delim t) :
    parseScalar (r ++ t) =
      some ((match parseIntTok r with | some i => Scalar.int i | none => Scalar.num r), t) := by
  obtain ⟨d, t', rfl, hd⟩ := ht
  cases r with
  | nil => exact absurd rfl hne
  | cons c rest =>
    have hc : numChar c = true := hall c (by simp)
    have h1 : c ≠ '"' := by intro h; subst h; revert hc; decide
    have h2 : c ≠ 't' := by intro h; subst h; revert hc; decide
    have h3 : c ≠ 'f' := by intro h; subst h; revert hc; decide
    have h4 : c ≠ 'n' := by intro h; subst h; revert hc; decide
    have hs := takeWhile_append_stop (p := numChar) (a := c :: rest) (c := d) (r := t') hall (numChar_delim hd)
    simp only [List.cons_append] at hs
    simp only [parseScalar, List.cons_append, h1, h2, h3, h4, if_false, hc, if_true, hs.1, hs.2]
    cases parseIntTok (c :: rest) <;> rfl

theorem isPrefixOf_append (a t : Text) : a.isPrefixOf (a ++ t) = true := by
  induction a with
  | nil => simp
  | cons x xs ih => simp [ih]

theorem parseScalar_serScalar (v : Scalar) (hv : CleanScalar v) (t : Text) (ht : Delim t) :
    parseScalar (serScalar v ++ t) = some (v, t) := by
  cases v with
  | str s =>
    simp only [serScalar, encodeString, List.cons_append, List.append_assoc, List.nil_append, parseScalar, if_true,
      parseStrBody_escape]
  | int i =>
    simp only [serScalar]
    rw [parseScalar_run _ _ (decInt_ne_nil i) (decInt_numChar i) ht, parseIntTok_decInt]
  | bool b =>
    cases b
    · have : serScalar (.bool false) ++ t = 'f' :: 'a' :: 'l' :: 's' :: 'e' :: t := rfl
      rw [this]
      simp [parseScalar, parseLit, List.isPrefixOf]
    · have : serScalar (.bool true) ++ t = 't' :: 'r' :: 'u' :: 'e' :: t := rfl
      rw [this]
      simp [parseScalar, parseLit, List.isPrefixOf]
  | null =>
    have : serScalar .null ++ t = 'n' :: 'u' :: 'l' :: 'l' :: t := rfl
    rw [this]
    simp [parseScalar, parseLit, List.isPrefixOf]
  | num r =>
    obtain ⟨hne, hall, hint⟩ := hv
    simp only [serScalar]
    rw [parseScalar_run _ _ hne hall ht, hint]

/-! ### members -/

theorem serMembersWith_nil {α} (sv : α → Text) : serMembersWith sv [] = [] := rfl
theorem serMembersWith_single {α} (sv : α → Text) (k : Text) (v : α) :
    serMembersWith sv [(k, v)] = encodeString k ++ (':' :: sv v) := by
  simp [serMembersWith]
theorem serMembersWith_cons2 {α} (sv : α → Text) (k : Text) (v : α) (e : Text × α) (rest : List (Text × α)) :
    serMembersWith sv ((k, v) :: e :: rest) = encodeString k ++ (':' :: sv v) ++ (',' :: serMembersWith sv (e :: rest)) := by
  simp [serMembersWith]

theorem parseMembersWith_step {α} (pv : Text → Option (α × Text)) (fuel : Nat) (k : Text) (v : α) (svv t4 : Text)
    (hpv : pv (svv ++ t4) = some (v, t4)) :
    parseMembersWith pv (fuel + 1) (encodeString k ++ (':' :: svv) ++ t4) =
      match t4 with
      | [] => none
      | sep :: t5 =>
        if sep = ',' then
          match parseMembersWith pv fuel t5 with
          | some (kvs, r) => some ((k, v) :: kvs, r)
          | none => none
        else if sep = '}' then some ([(k, v)], t5)
        else none := by
  simp only [encodeString, List.cons_append, List.append_assoc, List.nil_append]
  conv => lhs; unfold parseMembersWith
  simp only [if_true, parseStrBody_escape, hpv]
  cases t4 with
  | nil => rfl
  | cons sep t5 =>
    simp only
    split
    · cases parseMembersWith pv fuel t5 <;> rfl
    · rfl

/-- the member parser inverts the member serialiser (non-empty objects) -/
theorem parseMembersWith_ser {α} (pv : Text → Option (α × Text)) (sv : α → Text) (P : α → Prop)
    (hpv : ∀ v, P v → ∀ t, Delim t → pv (sv v ++ t) = some (v, t))
    (kvs : List (Text × α)) (hne : kvs ≠ []) (hP : ∀ e ∈ kvs, P e.2) (fuel : Nat) (hf : kvs.length ≤ fuel) (rest : Text) :
    parseMembersWith pv fuel (serMembersWith sv kvs ++ '}' :: rest) = some (kvs, rest) := by
  induction kvs generalizing fuel with
  | nil => exact absurd rfl hne
  | cons e tail ih =>
    obtain ⟨k, v⟩ := e
    cases fuel with
    | zero => simp at hf
    | succ fuel =>
      have hv : P v := hP (k, v) (by simp)
      cases tail with
      | nil =>
        rw [serMembersWith_single, parseMembersWith_step pv fuel k v (sv v) ('}' :: rest) (hpv v hv _ (Delim.brace rest))]
        simp
      | cons e2 tail2 =>
        rw [serMembersWith_cons2]
        have : encodeString k ++ ':' :: sv v ++ ',' :: serMembersWith sv (e2 :: tail2) ++ '}' :: rest
            = encodeString k ++ (':' :: sv v) ++ (',' :: (serMembersWith sv (e2 :: tail2) ++ '}' :: rest)) := by
          simp [List.append_assoc]
        rw [this, parseMembersWith_step pv fuel k v (sv v) _ (hpv v hv _ (Delim.comma _))]
        have ih' := ih (by simp) (fun e he => hP e (by simp [he])) fuel (by simp at hf ⊢; omega)
        simp only [if_true, ih']

theorem length_le_serMembersWith {α} (sv : α → Text) (kvs : List (Text × α)) :
    kvs.length ≤ (serMembersWith sv kvs).length := by
  induction kvs with
  | nil => simp
  | cons e tail ih =>
    obtain ⟨k, v⟩ := e
    cases tail with
    | nil => simp [serMembersWith_single, encodeString]
    | cons e2 tail2 =>
      rw [serMembersWith_cons2]
      simp only [List.length_append, List.length_cons, encodeString] at ih ⊢
      omega

theorem serMembersWith_head {α} (sv : α → Text) (kvs : List (Text × α)) (hne : kvs ≠ []) :
    ∃ r, serMembersWith sv kvs = '"' :: r := by
  cases kvs with
  | nil => exact absurd rfl hne
  | cons e tail =>
    obtain ⟨k, v⟩ := e
    cases tail with
    | nil => exact ⟨_, by rw [serMembersWith_single]; simp only [encodeString, List.cons_append]; rfl⟩
    | cons e2 tail2 => exact ⟨_, by rw [serMembersWith_cons2]; simp only [encodeString, List.cons_append]; rfl⟩

theorem parseObjWith_ser {α} (pv : Text → Option (α × Text)) (sv : α → Text) (P : α → Prop)
    (hpv : ∀ v, P v → ∀ t, Delim t → pv (sv v ++ t) = some (v, t))
    (kvs : List (Text × α)) (hP : ∀ e ∈ kvs, P e.2) (rest : Text) :
    parseObjWith pv (serMembersWith sv kvs ++ '}' :: rest) = some (kvs, rest) := by
  by_cases hne : kvs = []
  · subst hne; simp [serMembersWith, parseObjWith]
  · obtain ⟨r, hr⟩ := serMembersWith_head sv kvs hne
    have hlen := length_le_serMembersWith sv kvs
    have := parseMembersWith_ser pv sv P hpv kvs hne hP (serMembersWith sv kvs ++ '}' :: rest).length
      (by simp only [List.length_append]; omega) rest
    rw [hr] at this ⊢
    simp only [List.cons_append] at this ⊢
    simp only [parseObjWith, show ('"' : Char) ≠ '}' by decide, if_false]
    exact this

theorem serScalar_head (v : Scalar) (hv : CleanScalar v) : ∃ c r, serScalar v = c :: r ∧ c ≠ '{' := by
  cases v with
  | str s => exact ⟨'"', _, rfl, by decide⟩
  | int i =>
    cases hi : decInt i with
    | nil => exact absurd hi (decInt_ne_nil i)
    | cons c r =>
      refine ⟨c, r, by simp [serScalar, hi], ?_⟩
      have : numChar c = true := decInt_numChar i c (by simp [hi])
      intro h; subst h; revert this; decide
  | bool b => cases b <;> exact ⟨_, _, rfl, by decide⟩
  | null => exact ⟨_, _, rfl, by decide⟩
  | num r =>
    obtain ⟨hne, hall, _⟩ := hv
    cases r with
    | nil => exact absurd rfl hne
    | cons c r =>
      refine ⟨c, r, rfl, ?_⟩
      have : numChar c = true := hall c (by simp)
      intro h; subst h; revert this; decide

theorem parseValue_serValue (v : Value) (hv : CleanValue v) (t : Text) (ht : Delim t) :
    parseValue (serValue v ++ t) = some (v, t) := by
  cases v with
  | scalar s =>
    obtain ⟨c, r, hs, hc⟩ := serScalar_head s hv
    have := parseScalar_serScalar s hv t ht
    simp only [serValue, hs, List.cons_append] at this ⊢
    simp only [parseValue, hc, if_false, this]
  | obj kvs =>
    have := parseObjWith_ser parseScalar serScalar CleanScalar parseScalar_serScalar kvs hv t
    simp only [serValue, serObjWith, List.cons_append, List.append_assoc, List.nil_append, parseValue, if_true]
    rw [this]

/-- The record decoder inverts `serde_json::to_string` of the top-level map followed by `\n`. -/
theorem parseLine_serObj (kvs : List (Text × Value)) (h : ∀ e ∈ kvs, CleanValue e.2) :
    parseLine (serObj kvs ++ ['\n']) = some kvs := by
  have := parseObjWith_ser parseValue serValue CleanValue parseValue_serValue kvs h ['\n']
  simp only [serObj, serObjWith, List.cons_append, List.append_assoc, List.nil_append, parseLine, if_true]
  rw [this]; rfl

end Fv.Log.Json
