import Fv.Lemmas.CacheFrame
/-
Expiry facts for the cache model (helpers of `Fv.Props.C12`):

* `Unexpired` — the reading of `is_expired = false`; `Served` — "this (key, vid) pair is the value
  of a binding of the map that is unexpired at this time".
* every read path (`get`, `multiget`, the two iterators, `to_snapshot`) only hands out `Served`
  pairs; `refill` only appends `Served` pairs to the iterator buffer.
* `Kept` — what a call without removals does to the visible bindings.
* `Step` — what a maintenance pass does to the visible bindings: each one is either untouched or
  gone, and when it is gone the pass had a cause for it.
-/
namespace Fv.Cache
variable {P : Type}

/-- `is_expired(tti) = false` at time `now`: no TTL deadline or not reached, and (with a TTI)
    idle deadline not reached -/
def Unexpired (e : Entry) (now : Nat) (tti : Option Nat) : Prop :=
  (e.expiresAt = 0 ∨ now < e.expiresAt) ∧ (∀ d, tti = some d → now < e.lastAccessed + d)

theorem unexpired_iff (e : Entry) (now : Nat) (tti : Option Nat) :
    e.isExpired now tti = false ↔ Unexpired e now tti := isExpired_false_iff e now tti

theorem not_unexpired_iff (e : Entry) (now : Nat) (tti : Option Nat) :
    e.isExpired now tti = true ↔ ¬ Unexpired e now tti := by
  rw [← unexpired_iff]; cases e.isExpired now tti <;> simp

/-- the pair `(key, vid)` is the value of a binding of `m` that is unexpired at `now` -/
def Served (m : List (Nat × Entry)) (now : Nat) (tti : Option Nat) (p : Nat × Nat) : Prop :=
  ∃ e, (p.1, e) ∈ m ∧ e.vid = p.2 ∧ Unexpired e now tti

theorem Served.mono {m m' : List (Nat × Entry)} {now : Nat} {tti : Option Nat} {p : Nat × Nat}
    (hs : MapSub m' m) (h : Served m' now tti p) : Served m now tti p := by
  obtain ⟨e, h1, h2, h3⟩ := h
  exact ⟨e, hs _ h1, h2, h3⟩

/-! ### the association list -/
theorem lookup_erase (m : List (Nat × Entry)) (k k' : Nat) :
    lookup (erase m k) k' = if k' = k then none else lookup m k' := by
  induction m with
  | nil => simp [erase, lookup]
  | cons p rest ih =>
    obtain ⟨a, e⟩ := p
    unfold erase at ih ⊢
    by_cases ha : a = k
    · subst ha
      simp only [List.filter_cons, bne_self_eq_false, Bool.false_eq_true, if_false]
      rw [ih]
      by_cases hk : k' = a
      · simp [hk]
      · have : ¬ a = k' := fun h => hk h.symm
        simp [hk, lookup, this]
    · have hb : (a != k) = true := by simpa using ha
      simp only [List.filter_cons, hb, if_true]
      unfold lookup
      rw [ih]
      by_cases hk : a = k'
      · subst hk; simp [ha]
      · simp [hk]

theorem lookup_put_self (m : List (Nat × Entry)) (k : Nat) (e : Entry) : lookup (put m k e) k = some e := by
  simp [put, lookup]

theorem lookup_put_ne (m : List (Nat × Entry)) (k k' : Nat) (e : Entry) (h : k' ≠ k) :
    lookup (put m k e) k' = lookup m k' := by
  have : ¬ k = k' := fun h' => h h'.symm
  simp [put, lookup, this, lookup_erase, h]

theorem lookup_put (m : List (Nat × Entry)) (k k' : Nat) (e : Entry) :
    lookup (put m k e) k' = if k' = k then some e else lookup m k' := by
  by_cases h : k' = k
  · subst h; simp [lookup_put_self]
  · simp [h, lookup_put_ne]

theorem lookup_none_of_not_mem {m : List (Nat × Entry)} {k : Nat} (h : ∀ e, (k, e) ∉ m) : lookup m k = none := by
  cases hl : lookup m k with
  | none => rfl
  | some e => exact absurd (lookup_mem hl) (h e)

theorem lookup_isSome_of_mem {m : List (Nat × Entry)} {k : Nat} {e : Entry} (h : (k, e) ∈ m) :
    ∃ e', lookup m k = some e' := by
  induction m with
  | nil => simp at h
  | cons p rest ih =>
    obtain ⟨a, b⟩ := p
    unfold lookup
    by_cases ha : a = k
    · exact ⟨b, by simp [ha]⟩
    · simp only [ha, if_false]
      rcases List.mem_cons.1 h with h | h
      · cases h; exact absurd rfl ha
      · exact ih h

/-! ### small observers -/
theorem touch_vid (e : Entry) (now : Nat) (tti : Option Nat) : (e.touch now tti).vid = e.vid := by
  unfold Entry.touch; split <;> rfl

@[simp] theorem resetLogs_map (s : State P) : s.resetLogs.map = s.map := rfl
@[simp] theorem resetLogs_now (s : State P) : s.resetLogs.now = s.now := rfl
@[simp] theorem hit_map (s : State P) (n : Nat) : (s.hit n).map = s.map := rfl
@[simp] theorem hit_now (s : State P) (n : Nat) : (s.hit n).now = s.now := rfl
@[simp] theorem miss_map (s : State P) (n : Nat) : (s.miss n).map = s.map := rfl
@[simp] theorem miss_now (s : State P) (n : Nat) : (s.miss n).now = s.now := rfl

theorem onHit_map (cfg : Cfg) (s : State P) (k : Nat) (e : Entry) :
    (s.onHit cfg k e).map = put s.map k (e.touch s.now cfg.tti) := by
  unfold State.onHit; dsimp only; split <;> rfl
theorem onHit_now (cfg : Cfg) (s : State P) (k : Nat) (e : Entry) : (s.onHit cfg k e).now = s.now := by
  unfold State.onHit; dsimp only; split <;> rfl

/-- the two outcomes of `get` -/
theorem get_cases (cfg : Cfg) (s : State P) (k : Nat) :
    s.get cfg k = (s.miss 1, none) ∨
    ∃ e, lookup s.map k = some e ∧ e.isExpired s.now cfg.tti = false ∧
      s.get cfg k = ((s.onHit cfg k e).hit 1, some e.vid) := by
  unfold State.get
  split
  · next e he =>
    split
    · exact Or.inl rfl
    · next hx => exact Or.inr ⟨e, he, by simpa using hx, rfl⟩
  · exact Or.inl rfl

/-! ### reads only hand out `Served` pairs -/
/-- the map `m` reached from `m0` by hits at time `now`: every binding is an original one or a
    touched copy of one that was served -/
def RelM (m0 : List (Nat × Entry)) (now : Nat) (tti : Option Nat) (m : List (Nat × Entry)) : Prop :=
  ∀ k e, (k, e) ∈ m → (k, e) ∈ m0 ∨ Served m0 now tti (k, e.vid)

theorem RelM.of_sub {m0 m : List (Nat × Entry)} {now : Nat} {tti : Option Nat} (h : MapSub m m0) :
    RelM m0 now tti m := fun k e hm => Or.inl (h (k, e) hm)

theorem RelM.hit {m0 m : List (Nat × Entry)} {now : Nat} {tti : Option Nat} {k : Nat} {e : Entry}
    (hr : RelM m0 now tti m) (hl : lookup m k = some e) (hx : e.isExpired now tti = false) :
    Served m0 now tti (k, e.vid) ∧ RelM m0 now tti (put m k (e.touch now tti)) := by
  have hs : Served m0 now tti (k, e.vid) := by
    rcases hr k e (lookup_mem hl) with h | h
    · exact ⟨e, h, rfl, (unexpired_iff e now tti).1 hx⟩
    · exact h
  refine ⟨hs, ?_⟩
  intro k' e' hm
  rcases mem_put.1 hm with ⟨h1, h2⟩ | ⟨h1, _⟩
  · subst h1; subst h2
    right; rw [touch_vid]; exact hs
  · exact hr k' e' h1

theorem mem_addFound {found : List (Nat × Nat)} {k v : Nat} {p : Nat × Nat} (h : p ∈ addFound found k v) :
    p ∈ found ∨ p = (k, v) := by
  unfold addFound at h
  split at h
  · exact Or.inl h
  · simpa using h

theorem multigetSync_served (cfg : Cfg) (m0 : List (Nat × Entry)) (now0 : Nat) :
    ∀ (ks : List Nat) (s : State P) (found : List (Nat × Nat)),
      s.now = now0 → RelM m0 now0 cfg.tti s.map → (∀ p ∈ found, Served m0 now0 cfg.tti p) →
      ∀ p ∈ (multigetSync cfg s ks found).2, Served m0 now0 cfg.tti p := by
  intro ks
  induction ks with
  | nil => intro s found _ _ hf p hp; exact hf p (by simpa [multigetSync] using hp)
  | cons k rest ih =>
    intro s found hn hr hf
    unfold multigetSync
    split
    · next e he =>
      split
      · exact ih s found hn hr hf
      · next hx =>
        have hx' : e.isExpired now0 cfg.tti = false := by rw [← hn]; simpa using hx
        obtain ⟨hs, hr'⟩ := hr.hit he hx'
        refine ih _ _ (by rw [onHit_now]; exact hn) (by rw [onHit_map, hn]; exact hr') ?_
        intro p hp
        rcases mem_addFound hp with h | h
        · exact hf p h
        · subst h; exact hs
    · exact ih s found hn hr hf

theorem multigetAsync_served (cfg : Cfg) (ops : PolicyOps P) (m0 : List (Nat × Entry)) (now0 : Nat) :
    ∀ (ks : List Nat) (s : State P) (found : List (Nat × Nat)),
      s.now = now0 → RelM m0 now0 cfg.tti s.map → (∀ p ∈ found, Served m0 now0 cfg.tti p) →
      ∀ p ∈ (multigetAsync cfg ops s ks found).2, Served m0 now0 cfg.tti p := by
  intro ks
  induction ks with
  | nil => intro s found _ _ hf p hp; exact hf p (by simpa [multigetAsync] using hp)
  | cons k rest ih =>
    intro s found hn hr hf
    unfold multigetAsync
    split
    · next e he =>
      split
      · exact ih s found hn hr hf
      · next hx =>
        have hx' : e.isExpired now0 cfg.tti = false := by rw [← hn]; simpa using hx
        obtain ⟨hs, hr'⟩ := hr.hit he hx'
        refine ih _ _ (by simpa using hn) (by simp only [polAccess_map]; rw [hn]; exact hr') ?_
        intro p hp
        rcases mem_addFound hp with h | h
        · exact hf p h
        · subst h; exact hs
    · exact ih s found hn hr hf

/-- `SnapshotIter` run to the end without a clock advance -/
theorem snapDrive_served (cfg : Cfg) (m0 : List (Nat × Entry)) (now0 : Nat) :
    ∀ (ks : List Nat) (s : State P) (acc : List (Nat × Nat)),
      s.now = now0 → RelM m0 now0 cfg.tti s.map → (∀ p ∈ acc, Served m0 now0 cfg.tti p) →
      ∀ p ∈ (snapDrive cfg s ks none acc).2, Served m0 now0 cfg.tti p := by
  intro ks
  induction ks with
  | nil => intro s acc _ _ hf p hp; exact hf p (by simpa [snapDrive] using hp)
  | cons k rest ih =>
    intro s acc hn hr hf
    unfold snapDrive
    dsimp only
    rcases get_cases cfg s k with hg | ⟨e, he, hx, hg⟩
    · rw [hg]; exact ih _ _ (by simpa using hn) (by simpa using hr) hf
    · rw [hg]
      dsimp only
      have hx' : e.isExpired now0 cfg.tti = false := by rw [← hn]; exact hx
      obtain ⟨hs, hr'⟩ := hr.hit he hx'
      refine ih _ _ (by simp only [hit_now, onHit_now]; exact hn)
        (by simp only [hit_map, onHit_map]; rw [hn]; exact hr') ?_
      intro p hp
      rcases List.mem_append.1 hp with h | h
      · exact hf p h
      · simp at h; subst h; exact hs

/-! ### the batching iterator -/
theorem liveOf_served (m : List (Nat × Entry)) (now : Nat) (tti : Option Nat) (keys : List Nat) :
    ∀ p ∈ liveOf m now tti keys, Served m now tti p := by
  intro p hp
  unfold liveOf at hp
  obtain ⟨k, _, hk⟩ := List.mem_filterMap.1 hp
  split at hk
  · next e he =>
    split at hk
    · simp at hk
    · next hx =>
      simp at hk; subst hk
      exact ⟨e, lookup_mem he, rfl, (unexpired_iff e now tti).1 (by simpa using hx)⟩
  · simp at hk

/-- `refill_buffer`'s loop only APPENDS to the buffer, and what it appends at time `now` are
    values of bindings unexpired at `now` -/
theorem refillLoop_appends (nshards batch : Nat) (keysOf : Nat → List Nat) (m : List (Nat × Entry))
    (now : Nat) (tti : Option Nat) :
    ∀ (fuel : Nat) (it : IterSt),
      ∃ added, (refillLoop nshards batch keysOf m now tti fuel it).buffer = it.buffer ++ added ∧
        ∀ p ∈ added, Served m now tti p := by
  intro fuel
  induction fuel with
  | zero => intro it; exact ⟨[], by simp [refillLoop], by simp⟩
  | succ n ih =>
    intro it
    unfold refillLoop
    split
    · dsimp only
      split
      · obtain ⟨added, h1, h2⟩ := ih { it with shard := it.shard + 1, seen := 0 }
        exact ⟨added, h1, h2⟩
      · obtain ⟨added, h1, h2⟩ := ih
          { it with buffer := it.buffer ++ liveOf m now tti ((keysOf it.shard).drop it.seen |>.take (batch - it.buffer.length)),
                    seen := it.seen + ((keysOf it.shard).drop it.seen |>.take (batch - it.buffer.length)).length }
        refine ⟨liveOf m now tti ((keysOf it.shard).drop it.seen |>.take (batch - it.buffer.length)) ++ added, ?_, ?_⟩
        · rw [h1]; simp
        · intro p hp
          rcases List.mem_append.1 hp with h | h
          · exact liveOf_served m now tti _ p h
          · exact h2 p h
    · exact ⟨[], by simp, by simp⟩

theorem refill_appends (nshards batch : Nat) (keysOf : Nat → List Nat) (m : List (Nat × Entry))
    (now : Nat) (tti : Option Nat) (it : IterSt) :
    ∃ added, (refill nshards batch keysOf m now tti it).buffer = it.buffer ++ added ∧
      ∀ p ∈ added, Served m now tti p := by
  unfold refill
  split
  · exact ⟨[], by simp, by simp⟩
  · dsimp only
    obtain ⟨added, h1, h2⟩ := refillLoop_appends nshards batch keysOf m now tti (nshards + m.length + 1) it
    split
    · exact ⟨added, h1, h2⟩
    · exact ⟨added, h1, h2⟩

/-- the scripted clock advance that may fire before a `next()` call -/
def tick (now : Nat) (inter : Option (Nat × Nat)) (n : Nat) : Nat × Option (Nat × Nat) :=
  match inter with
  | some (after, d) => if n = after then (now + d, none) else (now, inter)
  | none => (now, inter)

/-- one `next()` call after the scripted advance -/
def iterBody (nshards batch : Nat) (keysOf : Nat → List Nat) (m : List (Nat × Entry)) (tti : Option Nat)
    (fuel now : Nat) (inter : Option (Nat × Nat)) (it : IterSt) (acc : List (Nat × Nat)) : Nat × List (Nat × Nat) :=
  match it.buffer with
  | x :: rest => iterDrive nshards batch keysOf m tti fuel now inter { it with buffer := rest } (acc ++ [x])
  | [] =>
    if it.finished then (now, acc)
    else
      match (refill nshards batch keysOf m now tti it).buffer with
      | x :: rest =>
        iterDrive nshards batch keysOf m tti fuel now inter
          { refill nshards batch keysOf m now tti it with buffer := rest } (acc ++ [x])
      | [] => (now, acc)

theorem iterDrive_succ (nshards batch : Nat) (keysOf : Nat → List Nat) (m : List (Nat × Entry)) (tti : Option Nat)
    (fuel now : Nat) (inter : Option (Nat × Nat)) (it : IterSt) (acc : List (Nat × Nat)) :
    iterDrive nshards batch keysOf m tti (fuel + 1) now inter it acc =
      iterBody nshards batch keysOf m tti fuel (tick now inter acc.length).1 (tick now inter acc.length).2 it acc := by
  conv => lhs; unfold iterDrive
  unfold tick iterBody
  cases inter with
  | none => rfl
  | some ad =>
    obtain ⟨a, d⟩ := ad
    dsimp only
    by_cases h : acc.length = a
    · simp only [if_pos h]; rfl
    · simp only [if_neg h]; rfl

/-- every item the batching iterator yields was the value of a binding unexpired at the time its
    batch was fetched: `G` is any property implied by "served at the current clock" and by
    "served at the clock after the pending scripted advance" -/
theorem iterDrive_good (nshards batch : Nat) (keysOf : Nat → List Nat) (m : List (Nat × Entry)) (tti : Option Nat)
    (G : Nat × Nat → Prop) :
    ∀ (fuel now : Nat) (inter : Option (Nat × Nat)) (it : IterSt) (acc : List (Nat × Nat)),
      (∀ p, Served m now tti p → G p) →
      (∀ a d, inter = some (a, d) → ∀ p, Served m (now + d) tti p → G p) →
      (∀ p ∈ acc, G p) → (∀ p ∈ it.buffer, G p) →
      ∀ p ∈ (iterDrive nshards batch keysOf m tti fuel now inter it acc).2, G p := by
  intro fuel
  induction fuel with
  | zero => intro now inter it acc _ _ ha _ p hp; exact ha p (by simpa [iterDrive] using hp)
  | succ n ih =>
    intro now inter it acc h1 h2 ha hb
    rw [iterDrive_succ]
    have ht : (∀ p, Served m (tick now inter acc.length).1 tti p → G p) ∧
        (∀ a d, (tick now inter acc.length).2 = some (a, d) →
          ∀ p, Served m ((tick now inter acc.length).1 + d) tti p → G p) := by
      unfold tick
      cases inter with
      | none => exact ⟨h1, h2⟩
      | some ad =>
        obtain ⟨a, d⟩ := ad
        dsimp only
        by_cases h : acc.length = a
        · simp only [h, if_true]
          exact ⟨h2 a d rfl, by intro a' d' h'; cases h'⟩
        · simp only [h, if_false]
          exact ⟨h1, h2⟩
    generalize tick now inter acc.length = q at ht
    obtain ⟨now', inter'⟩ := q
    obtain ⟨g1, g2⟩ := ht
    dsimp only at g1 g2 ⊢
    unfold iterBody
    split
    · next x rest hx =>
      refine ih now' inter' _ _ g1 g2 ?_ ?_
      · intro p hp
        rcases List.mem_append.1 hp with h | h
        · exact ha p h
        · simp at h; subst h; exact hb _ (by rw [hx]; simp)
      · intro p hp; exact hb p (by rw [hx]; exact List.mem_cons_of_mem _ hp)
    · next hx =>
      split
      · exact ha
      · obtain ⟨added, e1, e2⟩ := refill_appends nshards batch keysOf m now' tti it
        rw [hx, List.nil_append] at e1
        split
        · next x rest hr =>
          rw [hr] at e1
          refine ih now' inter' _ _ g1 g2 ?_ ?_
          · intro p hp
            rcases List.mem_append.1 hp with h | h
            · exact ha p h
            · simp at h; subst h; exact g1 _ (e2 _ (by rw [← e1]; simp))
          · intro p hp; exact g1 _ (e2 _ (by rw [← e1]; exact List.mem_cons_of_mem _ hp))
        · exact ha

/-! ### `to_snapshot` -/
theorem snapshotOf_served (cfg : Cfg) (m : List (Nat × Entry)) (now : Nat) :
    ∀ q ∈ (snapshotOf cfg m now).entries, Served m now cfg.tti (q.key, q.vid) := by
  intro q hq
  unfold snapshotOf at hq
  obtain ⟨⟨k, e⟩, hm, hk⟩ := List.mem_filterMap.1 hq
  dsimp only at hk
  split at hk
  · simp at hk
  · next hx =>
    simp at hk; subst hk
    exact ⟨e, hm, rfl, (unexpired_iff e now cfg.tti).1 (by simpa using hx)⟩

/-! ### what a maintenance pass does to the visible bindings and to the timer wheels -/
/-- shard `j`'s timer wheel -/
def whL (l : List (Aux P)) (j : Nat) : Option Wheel := l[j]?.bind (·.wheel)

theorem getElem?_modAt {α} (l : List α) (i j : Nat) (f : α → α) :
    (modAt l i f)[j]? = if j = i then l[j]?.map f else l[j]? := by
  induction l generalizing i j with
  | nil => simp [modAt]
  | cons a rest ih =>
    cases i with
    | zero => cases j <;> simp [modAt]
    | succ i =>
      cases j with
      | zero => simp [modAt]
      | succ j => simp [modAt, ih]

theorem whL_modAt_ne (l : List (Aux P)) (i j : Nat) (f : Aux P → Aux P) (h : j ≠ i) :
    whL (modAt l i f) j = whL l j := by
  simp [whL, getElem?_modAt, h]

theorem whL_modAt_of (l : List (Aux P)) (i j : Nat) (f : Aux P → Aux P) (hf : ∀ a, (f a).wheel = a.wheel) :
    whL (modAt l i f) j = whL l j := by
  simp only [whL, getElem?_modAt]
  split
  · cases l[j]? <;> simp [hf]
  · rfl

@[simp] theorem subCost_aux (s : State P) (c : Nat) : (s.subCost c).aux = s.aux := rfl
@[simp] theorem addCost_aux (s : State P) (c : Nat) : (s.addCost c).aux = s.aux := rfl
@[simp] theorem logRemoved_aux (s : State P) (k : Nat) (e : Entry) (r : Reason) : (s.logRemoved k e r).aux = s.aux := rfl
theorem notify_aux (cfg : Cfg) (s : State P) (n : Notif) : (s.notify cfg n).aux = s.aux := by
  unfold State.notify; dsimp only; (repeat' split) <;> rfl
theorem whL_polRemove (ops : PolicyOps P) (s : State P) (i k j : Nat) :
    whL (s.polRemove ops i k).aux j = whL s.aux j :=
  whL_modAt_of s.aux i j _ (fun _ => rfl)
theorem whL_polAccess (ops : PolicyOps P) (s : State P) (i k c j : Nat) :
    whL (s.polAccess ops i k c).aux j = whL s.aux j :=
  whL_modAt_of s.aux i j _ (fun _ => rfl)

/-- `t` is `s` after a maintenance step: same clock; every key is bound as before or is now
    unbound, and then the step had the cause `C` for it; the wheels of the shards outside `X`
    are untouched -/
structure MStep (C X : Nat → Prop) (t s : State P) : Prop where
  now : t.now = s.now
  look : ∀ k, lookup t.map k = lookup s.map k ∨ (lookup t.map k = none ∧ C k)
  wheel : ∀ j, ¬ X j → whL t.aux j = whL s.aux j

theorem MStep.refl {C X : Nat → Prop} (s : State P) : MStep C X s s :=
  ⟨rfl, fun _ => Or.inl rfl, fun _ _ => rfl⟩

theorem MStep.trans {C X : Nat → Prop} {a b c : State P} (h1 : MStep C X a b) (h2 : MStep C X b c) :
    MStep C X a c := by
  refine ⟨h1.now.trans h2.now, ?_, fun j hj => (h1.wheel j hj).trans (h2.wheel j hj)⟩
  intro k
  rcases h1.look k with h | ⟨h, hc⟩
  · rcases h2.look k with h' | ⟨h', hc'⟩
    · exact Or.inl (h.trans h')
    · exact Or.inr ⟨h.trans h', hc'⟩
  · exact Or.inr ⟨h, hc⟩

theorem MStep.mono {C C' X X' : Nat → Prop} {t s : State P} (hC : ∀ k, C k → C' k) (hX : ∀ j, X j → X' j)
    (h : MStep C X t s) : MStep C' X' t s := by
  refine ⟨h.now, ?_, fun j hj => h.wheel j (fun hx => hj (hX j hx))⟩
  intro k
  rcases h.look k with h | ⟨h, hc⟩
  · exact Or.inl h
  · exact Or.inr ⟨h, hC k hc⟩

theorem MStep.of_eq {C X : Nat → Prop} {t s : State P} (hm : t.map = s.map) (hn : t.now = s.now)
    (hw : ∀ j, ¬ X j → whL t.aux j = whL s.aux j) : MStep C X t s :=
  ⟨hn, fun k => Or.inl (by rw [hm]), hw⟩

theorem MStep.of_erase {X : Nat → Prop} {t s : State P} {k : Nat} (hm : t.map = erase s.map k) (hn : t.now = s.now)
    (hw : ∀ j, ¬ X j → whL t.aux j = whL s.aux j) : MStep (fun k' => k' = k) X t s := by
  refine ⟨hn, ?_, hw⟩
  intro k'
  rw [hm, lookup_erase]
  by_cases h : k' = k
  · right; simp [h]
  · left; simp [h]

theorem foldl_mstep {α} {C X : Nat → Prop} (f : State P → α → State P) (hf : ∀ s a, MStep C X (f s a) s) :
    ∀ (l : List α) (s : State P), MStep C X (l.foldl f s) s := by
  intro l
  induction l with
  | nil => intro s; exact MStep.refl s
  | cons a rest ih => intro s; exact (ih (f s a)).trans (hf s a)

theorem foldl_mstep_mem {X : Nat → Prop} (f : State P → Nat → State P)
    (hf : ∀ s k, MStep (fun k' => k' = k) X (f s k) s) :
    ∀ (l : List Nat) (s : State P), MStep (fun k' => k' ∈ l) X (l.foldl f s) s := by
  intro l
  induction l with
  | nil => intro s; exact MStep.refl s
  | cons a rest ih =>
    intro s
    exact ((ih (f s a)).mono (fun k h => List.mem_cons_of_mem _ h) (fun _ h => h)).trans
      ((hf s a).mono (fun k h => by subst h; simp) (fun _ h => h))

/-- some state of the policy answers `AdmitAndEvict` with `k` among the victims -/
def AdmitNominates (ops : PolicyOps P) (k : Nat) : Prop :=
  ∃ p k0 c vs, (ops.admit p k0 c).2 = .admitAndEvict vs ∧ k ∈ vs

/-- some state of the policy returns `k` among the victims of `evict` -/
def EvictNominates (ops : PolicyOps P) (k : Nat) : Prop :=
  ∃ p n hint p' vs freed, ops.evict p n hint = some (p', vs, freed) ∧ k ∈ vs

theorem evictVictim_mstep {X : Nat → Prop} (cfg : Cfg) (ops : PolicyOps P) (s : State P) (v : Nat) :
    MStep (fun k => k = v) X (s.evictVictim cfg ops v).1 s := by
  unfold State.evictVictim
  split
  · exact MStep.of_erase rfl rfl (fun j _ => whL_modAt_of _ _ _ _ (fun _ => rfl))
  · exact MStep.refl s

theorem evictVictims_mstep {X : Nat → Prop} (cfg : Cfg) (ops : PolicyOps P) :
    ∀ (vs : List Nat) (s : State P) (rel : Nat) (ns : List Notif),
      MStep (fun k => k ∈ vs) X (State.evictVictims cfg ops s vs rel ns).1 s := by
  intro vs
  induction vs with
  | nil => intro s rel ns; exact MStep.refl s
  | cons v rest ih =>
    intro s rel ns
    have hv : MStep (fun k => k ∈ v :: rest) X (s.evictVictim cfg ops v).1 s :=
      (evictVictim_mstep cfg ops s v).mono (fun k h => by subst h; simp) (fun _ h => h)
    unfold State.evictVictims
    split
    · next s' c n heq =>
      rw [heq] at hv
      exact ((ih _ _ _).mono (fun k h => List.mem_cons_of_mem _ h) (fun _ h => h)).trans hv
    · next s' c heq =>
      rw [heq] at hv
      exact ((ih _ _ _).mono (fun k h => List.mem_cons_of_mem _ h) (fun _ h => h)).trans hv

theorem notifyAll_mstep {C X : Nat → Prop} (cfg : Cfg) :
    ∀ (ns : List Notif) (s : State P), MStep C X (State.notifyAll cfg s ns) s := by
  intro ns
  induction ns with
  | nil => intro s; exact MStep.refl s
  | cons n rest ih =>
    intro s
    exact (ih _).trans (MStep.of_eq (notify_map cfg s n) (notify_now cfg s n) (fun j _ => by rw [notify_aux]))

theorem polAdmit_mstep {C X : Nat → Prop} (ops : PolicyOps P) (s : State P) (i k c : Nat) :
    MStep C X (s.polAdmit ops i k c).1 s := by
  unfold State.polAdmit
  split
  · exact MStep.of_eq rfl rfl (fun j _ => whL_modAt_of _ _ _ _ (fun _ => rfl))
  · exact MStep.refl s

theorem polAdmit_decision (ops : PolicyOps P) (s : State P) (i k c : Nat) (vs : List Nat)
    (h : (s.polAdmit ops i k c).2 = .admitAndEvict vs) : ∃ p, (ops.admit p k c).2 = .admitAndEvict vs := by
  unfold State.polAdmit at h
  split at h
  · next a _ => exact ⟨a.policy, h⟩
  · cases h

theorem applyWrite_mstep {X : Nat → Prop} (cfg : Cfg) (ops : PolicyOps P) (s : State P) (i : Nat) (w : Nat × Nat) :
    MStep (AdmitNominates ops) X (s.applyWrite cfg ops i w) s := by
  have ha : MStep (AdmitNominates ops) X (s.polAdmit ops i w.1 w.2).1 s := polAdmit_mstep ops s i w.1 w.2
  have hd := polAdmit_decision ops s i w.1 w.2
  unfold State.applyWrite
  generalize s.polAdmit ops i w.1 w.2 = r at ha hd
  obtain ⟨s1, d⟩ := r
  cases d with
  | admit => exact ha
  | reject => exact ha
  | admitAndEvict vs =>
    simp only
    obtain ⟨p, hp⟩ := hd vs rfl
    have hv := evictVictims_mstep (X := X) cfg ops vs s1 0 []
    generalize State.evictVictims cfg ops s1 vs 0 [] = r at hv
    obtain ⟨s2, rel, ns⟩ := r
    refine ((notifyAll_mstep cfg ns _).trans ?_).trans ha
    exact (MStep.of_eq rfl rfl (fun _ _ => rfl) : MStep _ _ (s2.subCost rel) s2).trans
      (hv.mono (fun k hk => ⟨p, w.1, w.2, vs, hp, hk⟩) (fun _ h => h))

theorem applyWrites_mstep {X : Nat → Prop} (cfg : Cfg) (ops : PolicyOps P) (i : Nat) :
    ∀ (ws : List (Nat × Nat)) (s : State P), MStep (AdmitNominates ops) X (State.applyWrites cfg ops i s ws) s := by
  intro ws
  induction ws with
  | nil => intro s; exact MStep.refl s
  | cons w rest ih => intro s; exact (ih _).trans (applyWrite_mstep cfg ops s i w)

theorem applyAccesses_mstep {C X : Nat → Prop} (ops : PolicyOps P) (i : Nat) :
    ∀ (l : List (Nat × Nat)) (s : State P), MStep C X (State.applyAccesses ops i s l) s := by
  intro l
  induction l with
  | nil => intro s; exact MStep.refl s
  | cons a rest ih =>
    intro s
    obtain ⟨k, c⟩ := a
    exact (ih _).trans (MStep.of_eq rfl rfl (fun j _ => whL_polAccess ops s i k c j))

theorem performShard_mstep {X : Nat → Prop} (cfg : Cfg) (ops : PolicyOps P) (o : Oracle) (s : State P) (i limit : Nat) :
    MStep (AdmitNominates ops) X (s.performShard cfg ops o i limit) s := by
  unfold State.performShard
  split
  · exact MStep.refl s
  · next a _ =>
    refine (applyAccesses_mstep ops i _ _).trans ?_
    refine (applyWrites_mstep cfg ops i _ _).trans ?_
    exact (applyAccesses_mstep ops i _ _).trans
      (MStep.of_eq rfl rfl (fun j _ => whL_modAt_of _ _ _ _ (fun _ => rfl)))

theorem ttlRemove_mstep {X : Nat → Prop} (cfg : Cfg) (ops : PolicyOps P) (i : Nat) (s : State P) (k : Nat) :
    MStep (fun k' => k' = k) X (State.ttlRemove cfg ops i s k) s := by
  unfold State.ttlRemove
  split
  · refine MStep.of_erase ?_ ?_ ?_
    · simp only [logRemoved_map, notify_map, subCost_map, polRemove_map]
    · simp only [logRemoved_now, notify_now, subCost_now, polRemove_now]
    · intro j _
      simp only [logRemoved_aux, notify_aux, subCost_aux]
      exact whL_polRemove ops s i k j
  · exact MStep.refl s

theorem mem_orderBy {hint keys : List Nat} {k : Nat} (h : k ∈ orderBy hint keys) : k ∈ keys := by
  unfold orderBy at h
  rcases List.mem_append.1 h with h | h
  · rw [List.mem_eraseDups] at h
    have := (List.mem_filter.1 h).2
    simpa using this
  · exact (List.mem_filter.1 h).1

/-- `cleanup_ttl_for_shard`: what goes was fired by this shard's wheel as it stood before the pass -/
theorem cleanupTtl_mstep {X : Nat → Prop} (cfg : Cfg) (ops : PolicyOps P) (o : Oracle) (s : State P) (i : Nat)
    (hX : X i) :
    MStep (fun k => ∃ w, whL s.aux i = some w ∧ k ∈ w.advance.2) X (s.cleanupTtl cfg ops o i) s := by
  unfold State.cleanupTtl
  split
  · exact MStep.refl s
  · next w hw =>
    rcases hr : w.advance with ⟨w', fired⟩
    dsimp only
    refine ((foldl_mstep_mem _ (ttlRemove_mstep cfg ops i) _ _).mono ?_ (fun _ h => h)).trans
      (MStep.of_eq rfl rfl (fun j hj => whL_modAt_ne _ _ _ _ (fun h => hj (by rw [h]; exact hX))))
    intro k hk
    refine ⟨w, hw, ?_⟩
    rw [hr]
    have := (List.mem_filter.1 hk).2
    simpa using this

theorem ttiRemove_mstep {X : Nat → Prop} (cfg : Cfg) (ops : PolicyOps P) (i : Nat) (hX : X i) (s : State P) (k : Nat) :
    MStep (fun k' => k' = k) X (State.ttiRemove cfg ops i s k) s := by
  unfold State.ttiRemove
  split
  · refine MStep.of_erase ?_ ?_ ?_
    · simp only [notify_map, cancelTimer_map, subCost_map, polRemove_map, logRemoved_map]
    · simp only [notify_now, cancelTimer_now, subCost_now, polRemove_now, logRemoved_now]
    · intro j hj
      rw [notify_aux]
      refine (whL_modAt_ne _ _ _ _ (fun h => hj (by rw [h]; exact hX))).trans ?_
      simp only [subCost_aux]
      exact whL_polRemove ops _ i k j
  · exact MStep.refl s

/-- the binding of `k` in `s` is expired at `s.now` and the cache has a TTI (the only
    configuration in which the TTI sampling pass runs) -/
def ExpiredIn (cfg : Cfg) (s : State P) (k : Nat) : Prop :=
  cfg.tti.isSome ∧ ∃ e, lookup s.map k = some e ∧ e.isExpired s.now cfg.tti = true

theorem cleanupTti_mstep {X : Nat → Prop} (cfg : Cfg) (ops : PolicyOps P) (o : Oracle) (s : State P) (i : Nat)
    (hX : X i) : MStep (ExpiredIn cfg s) X (s.cleanupTti cfg ops o i) s := by
  unfold State.cleanupTti
  split
  · exact MStep.refl s
  · next d hd =>
    refine (foldl_mstep_mem _ (ttiRemove_mstep cfg ops i hX) _ _).mono ?_ (fun _ h => h)
    intro k hk
    have hk' := (List.mem_filter.1 (mem_orderBy hk)).2
    refine ⟨by rw [hd]; rfl, ?_⟩
    split at hk'
    · next e he => exact ⟨e, he, hk'⟩
    · cases hk'

theorem capRemove_mstep {X : Nat → Prop} (cfg : Cfg) (i : Nat) (s : State P) (k : Nat) :
    MStep (fun k' => k' = k) X (State.capRemove cfg i s k) s := by
  unfold State.capRemove
  split
  · split
    · refine MStep.of_erase ?_ ?_ ?_
      · simp only [notify_map, logRemoved_map]
      · simp only [notify_now, logRemoved_now]
      · intro j _; simp only [notify_aux, logRemoved_aux]
    · exact MStep.refl s
  · exact MStep.refl s

theorem polEvict_mstep {C X : Nat → Prop} (ops : PolicyOps P) (s : State P) (i n : Nat) (h : List Nat) :
    MStep C X (s.polEvict ops i n h).1 s := by
  unfold State.polEvict
  split
  · split
    · exact MStep.of_eq rfl rfl (fun j _ => whL_modAt_of _ _ _ _ (fun _ => rfl))
    · exact MStep.of_eq rfl rfl (fun _ _ => rfl)
  · exact MStep.refl s

theorem polEvict_victims (ops : PolicyOps P) (s : State P) (i n : Nat) (h : List Nat) :
    ∀ k ∈ (s.polEvict ops i n h).2.1, EvictNominates ops k := by
  unfold State.polEvict
  split
  · next a _ =>
    split
    · next p' vs freed he => intro k hk; exact ⟨a.policy, n, h, p', vs, freed, he, hk⟩
    · intro k hk; cases hk
  · intro k hk; cases hk

theorem cleanupCapacity_mstep {X : Nat → Prop} (cfg : Cfg) (ops : PolicyOps P) (o : Oracle) (s : State P) (i : Nat) :
    MStep (EvictNominates ops) X (s.cleanupCapacity cfg ops o i) s := by
  unfold State.cleanupCapacity
  simp only
  split
  · exact MStep.refl s
  · have he : MStep (EvictNominates ops) X
        (s.polEvict ops i (s.met.currentCost - cfg.capacity) (o.evictHint.getD i [])).1 s := polEvict_mstep ..
    have hv := polEvict_victims ops s i (s.met.currentCost - cfg.capacity) (o.evictHint.getD i [])
    generalize s.polEvict ops i (s.met.currentCost - cfg.capacity) (o.evictHint.getD i []) = r at he hv
    obtain ⟨s1, victims, released⟩ := r
    simp only
    split
    · exact he
    · have hf : MStep (EvictNominates ops) X (victims.foldl (State.capRemove cfg i) s1) s1 :=
        (foldl_mstep_mem _ (capRemove_mstep cfg i) victims s1).mono hv (fun _ h => h)
      exact MStep.trans (b := victims.foldl (State.capRemove cfg i) s1)
        (MStep.of_eq rfl rfl (fun _ _ => rfl)) (hf.trans he)

/-! ### `run_maintenance` as a whole -/
/-- one shard's share of `run_maintenance` -/
def maintShard (cfg : Cfg) (ops : PolicyOps P) (o : Oracle) (s : State P) (i : Nat) : State P :=
  (((s.performShard cfg ops o i cfg.drainLimit).cleanupTtl cfg ops o i).cleanupTti cfg ops o i).cleanupCapacity cfg ops o i

theorem runMaintenance_eq (cfg : Cfg) (ops : PolicyOps P) (o : Oracle) (s : State P) :
    s.runMaintenance cfg ops o = (List.range cfg.nshards).foldl (maintShard cfg ops o) s := rfl

/-- the causes `run_maintenance` can have for unbinding key `k`, all read off the state `s` the
    call started in: the binding was expired (and the TTI pass exists), the wheel of some shard —
    as it stood when the call started — fires `k` on its next tick, or a policy nominates `k` -/
def MaintCause (cfg : Cfg) (ops : PolicyOps P) (s : State P) (k : Nat) : Prop :=
  ExpiredIn cfg s k ∨ (∃ i w, i < cfg.nshards ∧ whL s.aux i = some w ∧ k ∈ w.advance.2) ∨
    AdmitNominates ops k ∨ EvictNominates ops k

/-- the visible bindings of `t` are visible bindings of `s0`; same clock -/
def LookBack (t s0 : State P) : Prop :=
  t.now = s0.now ∧ ∀ k e, lookup t.map k = some e → lookup s0.map k = some e

theorem MStep.lookBack {C X : Nat → Prop} {t s s0 : State P} (h : MStep C X t s) (hb : LookBack s s0) :
    LookBack t s0 := by
  refine ⟨h.now.trans hb.1, ?_⟩
  intro k e he
  rcases h.look k with h' | ⟨h', _⟩
  · exact hb.2 k e (by rw [← h']; exact he)
  · rw [h'] at he; cases he

theorem ExpiredIn.back {cfg : Cfg} {t s0 : State P} {k : Nat} (hb : LookBack t s0) (h : ExpiredIn cfg t k) :
    ExpiredIn cfg s0 k := by
  obtain ⟨h1, e, he, hx⟩ := h
  exact ⟨h1, e, hb.2 k e he, by rw [← hb.1]; exact hx⟩

theorem maintShard_mstep (cfg : Cfg) (ops : PolicyOps P) (o : Oracle) (s0 t : State P) (i : Nat)
    (hi : i < cfg.nshards) (hw : whL t.aux i = whL s0.aux i) (hb : LookBack t s0) :
    MStep (MaintCause cfg ops s0) (fun j => j = i) (maintShard cfg ops o t i) t := by
  unfold maintShard
  have p1 := performShard_mstep (X := fun _ => False) cfg ops o t i cfg.drainLimit
  generalize t.performShard cfg ops o i cfg.drainLimit = t1 at p1 ⊢
  have w1 : whL t1.aux i = whL s0.aux i := (p1.wheel i (fun h => h)).trans hw
  have b1 := p1.lookBack hb
  have p2 := cleanupTtl_mstep (X := fun j => j = i) cfg ops o t1 i rfl
  generalize t1.cleanupTtl cfg ops o i = t2 at p2 ⊢
  have b2 := p2.lookBack b1
  have p3 := cleanupTti_mstep (X := fun j => j = i) cfg ops o t2 i rfl
  generalize t2.cleanupTti cfg ops o i = t3 at p3 ⊢
  have p4 := cleanupCapacity_mstep (X := fun j => j = i) cfg ops o t3 i
  have q1 : MStep (MaintCause cfg ops s0) (fun j => j = i) t1 t :=
    p1.mono (fun k h => Or.inr (Or.inr (Or.inl h))) (fun _ h => h.elim)
  have q2 : MStep (MaintCause cfg ops s0) (fun j => j = i) t2 t1 :=
    p2.mono (fun k h => by
      obtain ⟨w, h1, h2⟩ := h
      exact Or.inr (Or.inl ⟨i, w, hi, by rw [← w1]; exact h1, h2⟩)) (fun _ h => h)
  have q3 : MStep (MaintCause cfg ops s0) (fun j => j = i) t3 t2 :=
    p3.mono (fun k h => Or.inl (h.back b2)) (fun _ h => h)
  have q4 : MStep (MaintCause cfg ops s0) (fun j => j = i) (t3.cleanupCapacity cfg ops o i) t3 :=
    p4.mono (fun k h => Or.inr (Or.inr (Or.inr h))) (fun _ h => h)
  exact q4.trans (q3.trans (q2.trans q1))

theorem maintFold_mstep (cfg : Cfg) (ops : PolicyOps P) (o : Oracle) (s0 : State P) :
    ∀ (l : List Nat) (t : State P), l.Nodup → (∀ j ∈ l, j < cfg.nshards) →
      (∀ j ∈ l, whL t.aux j = whL s0.aux j) → LookBack t s0 →
      MStep (MaintCause cfg ops s0) (fun _ => True) (l.foldl (maintShard cfg ops o) t) t := by
  intro l
  induction l with
  | nil => intro t _ _ _ _; exact MStep.refl t
  | cons i rest ih =>
    intro t hnd hlt hw hb
    have hs := maintShard_mstep cfg ops o s0 t i (hlt i (by simp)) (hw i (by simp)) hb
    have hnd' := List.nodup_cons.1 hnd
    refine (ih _ hnd'.2 (fun j hj => hlt j (List.mem_cons_of_mem _ hj)) ?_ (hs.lookBack hb)).trans
      (hs.mono (fun _ h => h) (fun _ _ => trivial))
    intro j hj
    have hne : j ≠ i := fun h => hnd'.1 (by rw [← h]; exact hj)
    exact (hs.wheel j hne).trans (hw j (List.mem_cons_of_mem _ hj))

/-- `run_maintenance`: each visible binding is untouched or gone with a `MaintCause` -/
theorem runMaintenance_mstep (cfg : Cfg) (ops : PolicyOps P) (o : Oracle) (s : State P) :
    MStep (MaintCause cfg ops s) (fun _ => True) (s.runMaintenance cfg ops o) s := by
  rw [runMaintenance_eq]
  exact maintFold_mstep cfg ops o s (List.range cfg.nshards) s List.nodup_range
    (fun j hj => List.mem_range.1 hj) (fun _ _ => rfl) ⟨rfl, fun _ _ h => h⟩

theorem flush_mstep {X : Nat → Prop} (cfg : Cfg) (ops : PolicyOps P) (o : Oracle) (s : State P) :
    MStep (AdmitNominates ops) X (s.flush cfg ops o) s := by
  unfold State.flush
  split
  · exact foldl_mstep _ (fun s i => performShard_mstep cfg ops o s i U64) _ _
  · exact MStep.refl s

theorem opportunistic_mstep {X : Nat → Prop} (cfg : Cfg) (ops : PolicyOps P) (o : Oracle) (s : State P) (k : Nat) :
    MStep (AdmitNominates ops) X (s.opportunistic cfg ops o k) s := by
  unfold State.opportunistic
  split
  · exact performShard_mstep ..
  · exact MStep.refl s

/-! ### calls that remove nothing -/
/-- no admission decision of the policy ever names a victim (the policy of an unbounded cache) -/
def NoVictims (ops : PolicyOps P) : Prop :=
  ∀ p k c vs, (ops.admit p k c).2 = .admitAndEvict vs → vs = []

theorem NoVictims.not_nominates {ops : PolicyOps P} (h : NoVictims ops) (k : Nat) : ¬ AdmitNominates ops k := by
  rintro ⟨p, k0, c, vs, h1, h2⟩
  rw [h p k0 c vs h1] at h2
  cases h2

theorem nullOps_noVictims : NoVictims nullOps := by
  intro p k c vs h
  cases h

/-- every visible binding of `m` is still visible in `m'`, with the same value or with one of
    the values `W` written meanwhile -/
def Kept (W : List Nat) (m m' : List (Nat × Entry)) : Prop :=
  ∀ k e, lookup m k = some e → ∃ e', lookup m' k = some e' ∧ (e'.vid = e.vid ∨ e'.vid ∈ W)

theorem Kept.refl (W : List Nat) (m : List (Nat × Entry)) : Kept W m m := fun _ e h => ⟨e, h, Or.inl rfl⟩

theorem Kept.of_eq {W : List Nat} {m m' : List (Nat × Entry)} (h : m' = m) : Kept W m m' := by
  subst h; exact Kept.refl W _

theorem Kept.trans {W : List Nat} {a b c : List (Nat × Entry)} (h1 : Kept W a b) (h2 : Kept W b c) : Kept W a c := by
  intro k e he
  obtain ⟨e1, he1, hv1⟩ := h1 k e he
  obtain ⟨e2, he2, hv2⟩ := h2 k e1 he1
  refine ⟨e2, he2, ?_⟩
  rcases hv2 with h | h
  · rcases hv1 with h' | h'
    · exact Or.inl (h.trans h')
    · exact Or.inr (by rw [h]; exact h')
  · exact Or.inr h

theorem Kept.put {W : List Nat} {m : List (Nat × Entry)} {k : Nat} {e : Entry}
    (h : ∀ e0, lookup m k = some e0 → e.vid = e0.vid ∨ e.vid ∈ W) : Kept W m (put m k e) := by
  intro k' e0 h0
  by_cases hk : k' = k
  · subst hk; exact ⟨e, lookup_put_self _ _ _, h e0 h0⟩
  · exact ⟨e0, by rw [lookup_put_ne _ _ _ _ hk]; exact h0, Or.inl rfl⟩

theorem MStep.kept {C X : Nat → Prop} {t s : State P} {W : List Nat} (h : MStep C X t s) (hC : ∀ k, ¬ C k) :
    Kept W s.map t.map := by
  intro k e he
  rcases h.look k with h' | ⟨_, hc⟩
  · exact ⟨e, h'.trans he, Or.inl rfl⟩
  · exact absurd hc (hC k)

theorem onHit_kept (W : List Nat) (cfg : Cfg) (s : State P) (k : Nat) (e : Entry) (he : lookup s.map k = some e) :
    Kept W s.map (s.onHit cfg k e).map := by
  rw [onHit_map]
  refine Kept.put (fun e0 h0 => ?_)
  rw [he] at h0; cases h0
  exact Or.inl (touch_vid _ _ _)

theorem get_kept (W : List Nat) (cfg : Cfg) (s : State P) (k : Nat) : Kept W s.map (s.get cfg k).1.map := by
  rcases get_cases cfg s k with hg | ⟨e, he, _, hg⟩
  · rw [hg]; exact Kept.refl _ _
  · rw [hg]; exact onHit_kept W cfg s k e he

theorem insertCore_map (cfg : Cfg) (s : State P) (k : Nat) (e : Entry) (td : Option Nat) (full : Bool) :
    ∃ t, (s.insertCore cfg k e td full).map = put s.map k { e with timer := t } := by
  cases hw : s.aux[cfg.shardOf k]?.bind (·.wheel) with
  | none =>
    refine ⟨e.timer, ?_⟩
    unfold State.insertCore
    simp only [hw]
    cases lookup s.map k <;> cases full <;> rfl
  | some w =>
    cases td with
    | none =>
      refine ⟨e.timer, ?_⟩
      unfold State.insertCore
      simp only [hw]
      cases lookup s.map k <;> cases full <;> rfl
    | some d =>
      refine ⟨some (w.schedule k d).2, ?_⟩
      unfold State.insertCore
      simp only [hw, modAux_map]
      cases lookup s.map k <;> cases full <;> rfl

theorem insertCore_now (cfg : Cfg) (s : State P) (k : Nat) (e : Entry) (td : Option Nat) (full : Bool) :
    (s.insertCore cfg k e td full).now = s.now := by
  cases hw : s.aux[cfg.shardOf k]?.bind (·.wheel) with
  | none =>
    unfold State.insertCore
    simp only [hw]
    cases lookup s.map k <;> cases full <;> rfl
  | some w =>
    cases td with
    | none =>
      unfold State.insertCore
      simp only [hw]
      cases lookup s.map k <;> cases full <;> rfl
    | some d =>
      unfold State.insertCore
      simp only [hw, modAux_map]
      cases lookup s.map k <;> cases full <;> rfl

theorem insertCore_kept (W : List Nat) (cfg : Cfg) (s : State P) (k : Nat) (e : Entry) (td : Option Nat) (full : Bool)
    (hW : e.vid ∈ W) : Kept W s.map (s.insertCore cfg k e td full).map := by
  obtain ⟨t, h2⟩ := insertCore_map cfg s k e td full
  rw [h2]
  exact Kept.put (fun _ _ => Or.inr hW)

theorem multiInsert_kept (W : List Nat) (cfg : Cfg) :
    ∀ (items : List (Nat × Nat × Nat)) (s : State P), (∀ it ∈ items, it.2.1 ∈ W) →
      Kept W s.map (items.foldl (fun s (x : Nat × Nat × Nat) =>
        s.insertCore cfg x.1 (Entry.mk' x.2.1 x.2.2 s.now cfg.ttl cfg.tti) cfg.ttl false) s).map := by
  intro items
  induction items with
  | nil => intro s _; exact Kept.refl _ _
  | cons it rest ih =>
    intro s hW
    exact (insertCore_kept W cfg s it.1 _ cfg.ttl false (hW it (by simp))).trans
      (ih _ (fun x hx => hW x (List.mem_cons_of_mem _ hx)))

theorem loadInsert_kept (W : List Nat) (cfg : Cfg) (s : State P) (k vid cost : Nat) (hW : vid ∈ W) :
    Kept W s.map (s.loadInsert cfg k vid cost).map :=
  Kept.put (fun _ _ => Or.inr hW)

theorem fetchWith_kept (cfg : Cfg) (s : State P) (k vid cost : Nat) :
    Kept [vid] s.map (s.fetchWith cfg k vid cost).1.map := by
  have hl : Kept [vid] s.map ((s.miss 1).loadInsert cfg k vid cost).map :=
    loadInsert_kept [vid] cfg (s.miss 1) k vid cost (by simp)
  unfold State.fetchWith
  dsimp only
  split
  · exact hl
  · next e he =>
    split
    · split
      · exact hl
      · exact onHit_kept _ cfg s k e he
    · split
      · split
        · exact loadInsert_kept [vid] cfg s k vid cost (by simp)
        · exact hl
      · exact hl

theorem orInsert_kept (cfg : Cfg) (s : State P) (k vid cost : Nat) :
    Kept [vid] s.map (s.orInsert cfg k vid cost).1.map := by
  unfold State.orInsert
  split
  · exact Kept.refl _ _
  · exact Kept.put (fun _ _ => Or.inr (by simp [Entry.mk']))

theorem compute_kept (s : State P) (k vid : Nat) : Kept [vid] s.map (s.compute k vid).1.map := by
  unfold State.compute
  split
  · exact Kept.refl _ _
  · split
    · exact Kept.refl _ _
    · exact Kept.put (fun _ _ => Or.inr (by simp))

theorem multigetSync_kept (W : List Nat) (cfg : Cfg) :
    ∀ (ks : List Nat) (s : State P) (found : List (Nat × Nat)), Kept W s.map (multigetSync cfg s ks found).1.map := by
  intro ks
  induction ks with
  | nil => intro s found; exact Kept.refl _ _
  | cons k rest ih =>
    intro s found
    unfold multigetSync
    split
    · next e he =>
      split
      · exact ih s found
      · exact (onHit_kept W cfg s k e he).trans (ih _ _)
    · exact ih s found

theorem multigetAsync_kept (W : List Nat) (cfg : Cfg) (ops : PolicyOps P) :
    ∀ (ks : List Nat) (s : State P) (found : List (Nat × Nat)),
      Kept W s.map (multigetAsync cfg ops s ks found).1.map := by
  intro ks
  induction ks with
  | nil => intro s found; exact Kept.refl _ _
  | cons k rest ih =>
    intro s found
    unfold multigetAsync
    split
    · next e he =>
      split
      · exact ih s found
      · refine Kept.trans ?_ (ih _ _)
        refine Kept.put (fun e0 h0 => ?_)
        rw [he] at h0; cases h0
        exact Or.inl (touch_vid _ _ _)
    · exact ih s found

/-- the scripted clock advance in front of a `SnapshotIter::next()` -/
def tickS (s : State P) (inter : Option (Nat × Nat)) (n : Nat) : State P × Option (Nat × Nat) :=
  match inter with
  | some (after, d) => if n = after then ({ s with now := s.now + d }, none) else (s, inter)
  | none => (s, inter)

def snapBody (cfg : Cfg) (s : State P) (k : Nat) (ks : List Nat) (inter : Option (Nat × Nat))
    (acc : List (Nat × Nat)) : State P × List (Nat × Nat) :=
  match s.get cfg k with
  | (s, some v) => snapDrive cfg s ks inter (acc ++ [(k, v)])
  | (s, none) => snapDrive cfg s ks inter acc

theorem snapDrive_cons (cfg : Cfg) (s : State P) (k : Nat) (ks : List Nat) (inter : Option (Nat × Nat))
    (acc : List (Nat × Nat)) :
    snapDrive cfg s (k :: ks) inter acc =
      snapBody cfg (tickS s inter acc.length).1 k ks (tickS s inter acc.length).2 acc := by
  conv => lhs; unfold snapDrive
  unfold tickS snapBody
  cases inter with
  | none => rfl
  | some ad =>
    obtain ⟨a, d⟩ := ad
    dsimp only
    by_cases h : acc.length = a
    · simp only [if_pos h]; rfl
    · simp only [if_neg h]; rfl

theorem tickS_map (s : State P) (inter : Option (Nat × Nat)) (n : Nat) : (tickS s inter n).1.map = s.map := by
  unfold tickS
  split
  · split <;> rfl
  · rfl

theorem snapDrive_kept (W : List Nat) (cfg : Cfg) :
    ∀ (ks : List Nat) (s : State P) (inter : Option (Nat × Nat)) (acc : List (Nat × Nat)),
      Kept W s.map (snapDrive cfg s ks inter acc).1.map := by
  intro ks
  induction ks with
  | nil =>
    intro s inter acc
    unfold snapDrive
    split
    · split
      · exact Kept.refl _ _
      · exact Kept.refl _ _
    · exact Kept.refl _ _
  | cons k rest ih =>
    intro s inter acc
    rw [snapDrive_cons]
    have hm := tickS_map s inter acc.length
    generalize tickS s inter acc.length = q at hm
    obtain ⟨s1, inter1⟩ := q
    dsimp only at hm ⊢
    rw [← hm]
    unfold snapBody
    have hg := get_kept W cfg s1 k
    generalize s1.get cfg k = r at hg
    obtain ⟨s2, v⟩ := r
    cases v with
    | none => exact hg.trans (ih _ _ _)
    | some v => exact hg.trans (ih _ _ _)

theorem lookup_map_fst (f : Nat × Entry → Nat × Entry) (hf : ∀ p, (f p).1 = p.1) (m : List (Nat × Entry)) (k : Nat) :
    lookup (m.map f) k = (lookup m k).map (fun e => (f (k, e)).2) := by
  induction m with
  | nil => rfl
  | cons p rest ih =>
    obtain ⟨a, e⟩ := p
    simp only [List.map_cons]
    have h1 : f (a, e) = (a, (f (a, e)).2) := by
      have := hf (a, e)
      exact Prod.ext this rfl
    rw [h1]
    unfold lookup
    by_cases h : a = k
    · subst h; simp
    · simp [h, ih]

theorem foldl_kept {α} (W : List Nat) (f : State P → α → State P) :
    ∀ (l : List α) (s : State P), (∀ s a, a ∈ l → Kept W s.map (f s a).map) → Kept W s.map (l.foldl f s).map := by
  intro l
  induction l with
  | nil => intro s _; exact Kept.refl _ _
  | cons a rest ih =>
    intro s hf
    exact (hf s a (by simp)).trans (ih _ (fun s b hb => hf s b (List.mem_cons_of_mem _ hb)))

theorem iterAll_map (cfg : Cfg) (ops : PolicyOps P) (o : Oracle) (s : State P) (batch : Nat) (inter : Option (Nat × Nat)) :
    (s.iterAll cfg ops o batch inter).1.map = (s.flush cfg ops o).map := rfl

/-- the batching iterator run to the end: every yielded pair satisfies any `G` implied by "served
    at the clock of the call" and by "served at the clock after the scripted advance" -/
theorem iterAll_good (cfg : Cfg) (ops : PolicyOps P) (o : Oracle) (s : State P) (batch : Nat)
    (inter : Option (Nat × Nat)) (G : Nat × Nat → Prop)
    (h1 : ∀ p, Served s.map s.now cfg.tti p → G p)
    (h2 : ∀ a d, inter = some (a, d) → ∀ p, Served s.map (s.now + d) cfg.tti p → G p) :
    ∀ p ∈ (s.iterAll cfg ops o batch inter).2, G p := by
  intro p hp
  have hf := flush_frame cfg ops o s
  unfold State.iterAll at hp
  dsimp only at hp
  generalize s.flush cfg ops o = s1 at hf hp
  refine iterDrive_good cfg.nshards (max batch 1) (fun i => s1.shardKeys cfg o.ord i) s1.map cfg.tti G
    (2 * s1.map.length + 2) s1.now inter {} [] ?_ ?_ ?_ ?_ p hp
  · intro q hq; exact h1 q (by rw [← hf.2]; exact hq.mono hf.1)
  · intro a d hi q hq; exact h2 a d hi q (by rw [← hf.2]; exact hq.mono hf.1)
  · intro q hq; cases hq
  · intro q hq; cases hq

theorem iterSnapshotAll_served (cfg : Cfg) (ops : PolicyOps P) (o : Oracle) (s : State P) :
    ∀ p ∈ (s.iterSnapshotAll cfg ops o none).2, Served s.map s.now cfg.tti p := by
  have hf := flush_frame cfg ops o s
  unfold State.iterSnapshotAll
  dsimp only
  generalize s.flush cfg ops o = s1 at hf ⊢
  exact snapDrive_served cfg s.map s.now _ s1 [] hf.2 (RelM.of_sub hf.1) (fun q hq => by cases hq)

theorem toSnapshot_served (cfg : Cfg) (ops : PolicyOps P) (o : Oracle) (s : State P) :
    ∀ q ∈ (s.toSnapshot cfg ops o).2.entries, Served s.map s.now cfg.tti (q.key, q.vid) := by
  have hf := flush_frame cfg ops o s
  intro q hq
  have := snapshotOf_served cfg (s.flush cfg ops o).map (s.flush cfg ops o).now q hq
  rw [hf.2] at this
  exact this.mono hf.1

/-! ### shapes of `stepOp` branches used by `Fv.Props.C12` -/
theorem hold_ret (cfg : Cfg) (ops : PolicyOps P) (p0 : P) (o : Oracle) (s : State P) (k : Nat) :
    (stepOp cfg ops p0 o s (.hold k)).2 = .val (s.resetLogs.get cfg k).2 := by
  simp only [stepOp]
  generalize s.resetLogs.get cfg k = r
  obtain ⟨s', v⟩ := r
  cases v <;> rfl

theorem hold_kept (W : List Nat) (cfg : Cfg) (ops : PolicyOps P) (p0 : P) (o : Oracle) (s : State P) (k : Nat) :
    Kept W s.map (stepOp cfg ops p0 o s (.hold k)).1.map := by
  simp only [stepOp]
  have hg := get_kept W cfg s.resetLogs k
  generalize s.resetLogs.get cfg k = r at hg
  obtain ⟨s', v⟩ := r
  cases v with
  | none => exact hg
  | some v =>
    dsimp only at hg ⊢
    refine hg.trans ?_
    split
    · next e he =>
      refine Kept.put (fun e0 h0 => ?_)
      rw [he] at h0; cases h0
      exact Or.inl rfl
    · exact Kept.refl _ _

theorem multiget_map (cfg : Cfg) (ops : PolicyOps P) (p0 : P) (o : Oracle) (s : State P) (a : Bool) (ks : List Nat) :
    (stepOp cfg ops p0 o s (.multiget a ks)).1.map =
      (if a then multigetAsync cfg ops s.resetLogs (groupByShard cfg ks) []
       else multigetSync cfg s.resetLogs ks []).1.map := by
  simp only [stepOp]
  generalize (if a = true then multigetAsync cfg ops s.resetLogs (groupByShard cfg ks) []
       else multigetSync cfg s.resetLogs ks []) = r
  obtain ⟨s', found⟩ := r
  dsimp only
  split <;> rfl

theorem nullOps_noEvict : ∀ k, ¬ EvictNominates nullOps k := by
  rintro k ⟨p, n, hint, p', vs, freed, h, hk⟩
  simp [nullOps] at h
  rw [h.1] at hk
  cases hk

end Fv.Cache
