import Fv.Lemmas.SyncMutexInv2
/-!
`HybridMutex` model, wake accounting (C10(c), C10(d) wake conservation): vocabulary and frame
lemmas.

* `PreWake s t`   — `t` is inside a `wake_next` before the head is marked (it released the lock
  having read `HAS_QUEUED`, or it is dropping a future whose node is `WOKEN` and has not yet
  forwarded the wake);
* `PostWake s t n` — `t` has marked a node and still carries the waiter handle that unblocks the
  owner of node `n` (undelivered token);
* `OwnerActive s n` — the owner of `n` is running its own acquisition attempt / re-check phase;
* `OwnerBlocked s n` — the owner of `n` is parked without a token (sync thread or `block_on`
  executor), or is a manually polled future that is `Pending` with no wake recorded.
-/
namespace Fv.Sync.Mutex
open Fv.Sync
variable {cfg : Cfg} {s s' : State} {t : Tid} {l : Lbl}

def preWakePc : Pc → Bool
  | .llSwap k | .llLoad k | .llSpin k => (match k with
      | .wakeNext => true | .queue | .spinUnlink | .finish | .drop => false)
  | .wnStore => true
  | .idle | .taLoad _ | .taCas _ | .spinYield | .qRearm | .qFetchOr | .qLoad | .qCas | .ff _ | .llRel _
  | .wLoad | .wPark | .relAnd | .wnWake | .dLoad | .boPark | .ret _ => false

def dropPc : Pc → Bool
  | .llSwap k | .llLoad k | .llSpin k => (match k with
      | .drop => true | .queue | .spinUnlink | .finish | .wakeNext => false)
  | .ff a | .llRel a => (match a with
      | .dropLoad => true | .retOk | .retReady | .parkLoad | .pending | .wake => false)
  | .dLoad => true
  | .idle | .taLoad _ | .taCas _ | .spinYield | .qRearm | .qFetchOr | .qLoad | .qCas
  | .wLoad | .wPark | .relAnd | .wnStore | .wnWake | .boPark | .ret _ => false

def activePc : Pc → Bool
  | .taLoad k | .taCas k => (match k with
      | .lockSpin | .pollTry => true | .lockFast | .tryLock | .asyncFirst => false)
  | .llSwap k | .llLoad k | .llSpin k => (match k with
      | .queue => true | .spinUnlink | .finish | .drop | .wakeNext => false)
  | .spinYield | .qRearm | .qFetchOr | .qLoad | .qCas => true
  | .idle | .ff _ | .llRel _ | .wLoad | .wPark | .relAnd | .wnStore | .wnWake | .dLoad | .boPark | .ret _ => false

def postWakePc : Pc → Bool
  | .llRel a => (match a with
      | .wake => true | .retOk | .retReady | .parkLoad | .pending | .dropLoad => false)
  | .wnWake => true
  | .idle | .taLoad _ | .taCas _ | .spinYield | .llSwap _ | .llLoad _ | .llSpin _ | .qRearm | .qFetchOr | .qLoad
  | .qCas | .ff _ | .wLoad | .wPark | .relAnd | .wnStore | .dLoad | .boPark | .ret _ => false

/-- the list lock is held and the own node was re-armed in this critical section -/
def armedPc : Pc → Bool
  | .llRel a => (match a with
      | .parkLoad | .pending => true | .retOk | .retReady | .wake | .dropLoad => false)
  | .qFetchOr | .qLoad | .qCas => true
  | .idle | .taLoad _ | .taCas _ | .spinYield | .llSwap _ | .llLoad _ | .llSpin _ | .qRearm
  | .ff _ | .wLoad | .wPark | .relAnd | .wnStore | .wnWake | .dLoad | .boPark | .ret _ => false

/-- the guard was obtained lock-free and the own node is about to be unlinked -/
def holdUnlinkPc : Pc → Bool
  | .llSwap k | .llLoad k | .llSpin k => (match k with
      | .spinUnlink | .finish => true | .queue | .drop | .wakeNext => false)
  | .idle | .taLoad _ | .taCas _ | .spinYield | .qRearm | .qFetchOr | .qLoad | .qCas | .ff _ | .llRel _
  | .wLoad | .wPark | .relAnd | .wnStore | .wnWake | .dLoad | .boPark | .ret _ => false

def PreWake (s : State) (t : Tid) : Prop :=
  preWakePc (s.th t).pc = true ∨ (dropPc (s.th t).pc = true ∧ (s.wl.node (me t (s.th t))).woken = true)

def OwnerActive (s : State) (n : Nid) : Prop := ∃ u, me u (s.th u) = n ∧ activePc (s.th u).pc = true

/-- delivering handle `w` unblocks the owner of node `n` -/
def Targets (s : State) (w : Waiter) (n : Nid) : Prop :=
  match w, n with
  | .thread u, .thr u' => u = u'
  | .thread u, .fut f => (s.fut f).bo = true ∧ (s.th u).cur = some f ∧ futPc (s.th u).pc = true
  | .task f, .fut f' => f = f' ∧ (s.fut f).bo = false
  | .task _, .thr _ => False

def PostWake (s : State) (t : Tid) (n : Nid) : Prop :=
  postWakePc (s.th t).pc = true ∧ ∃ w, (s.th t).w = some w ∧ Targets s w n

def OwnerBlocked (s : State) (n : Nid) : Prop :=
  match n with
  | .thr u => (s.th u).pc = .wPark ∧ s.token u = false
  | .fut f =>
    if (s.fut f).bo then ∃ u, (s.th u).cur = some f ∧ (s.th u).pc = .boPark ∧ s.token u = false
    else (s.fut f).busy = false ∧ s.wakes f = 0

/-! ### the wake invariant -/

def PBoc (s : State) : Prop :=
  ∀ u f, (s.th u).cur = some f → futPc (s.th u).pc = true → (s.th u).blockOn = (s.fut f).bo
/-- a `block_on` future is busy for its whole life -/
def PBb (s : State) : Prop := ∀ f, (s.fut f).bo = true → (s.fut f).busy = true ∨ (s.fut f).phase = .absent
def PBoPark (s : State) : Prop := ∀ u, (s.th u).pc = .boPark → (s.th u).blockOn = true
def PW1 (s : State) : Prop :=
  ∀ n w, (s.wl.node n).linked = true → (s.wl.node n).waiter = some w → Targets s w n
def PW2 (s : State) : Prop :=
  ∀ n, (s.wl.node n).linked = true → (s.wl.node n).waiter = none → (s.wl.node n).woken = true
def PQw (s : State) : Prop :=
  ∀ t, (s.th t).pc = .qRearm → (s.wl.node (me t (s.th t))).waiter = some (myWaiter t (s.th t))
def PQz (s : State) : Prop :=
  ∀ t, armedPc (s.th t).pc = true →
    (s.wl.node (me t (s.th t))).linked = true ∧ (s.wl.node (me t (s.th t))).woken = false
def PPk (s : State) : Prop :=
  ∀ t, ((s.th t).pc = .wLoad ∨ (s.th t).pc = .wPark ∨ (s.th t).pc = .boPark) →
    (s.wl.node (me t (s.th t))).linked = true
def PFl (s : State) : Prop :=
  ∀ f, (s.fut f).phase = .startedNode → (s.fut f).busy = false → (s.wl.node (.fut f)).linked = true
def PT1 (s : State) : Prop := ∀ t, (s.th t).pc = .wnStore → s.wl.queue.head? = some (s.th t).tgt
def PM2 (s : State) : Prop :=
  s.word.hq = false → s.wl.queue = [] ∨ ∃ u, (s.th u).pc = .qFetchOr ∧ s.wl.queue = [me u (s.th u)]
def PHl (s : State) : Prop := ∀ t, holdUnlinkPc (s.th t).pc = true → (t, true) ∈ s.holders
/-- a `WOKEN` queued node is accounted for: its owner will run, or the token is in flight -/
def PWk (s : State) : Prop :=
  ∀ n, (s.wl.node n).linked = true → (s.wl.node n).woken = true → ¬ OwnerBlocked s n ∨ ∃ t, PostWake s t n
/-- NO LOST WAKEUP: with the lock free, the queue head is covered -/
def PNlw (s : State) : Prop :=
  s.word.locked = false → ∀ h, s.wl.queue.head? = some h →
    (∃ t, PreWake s t) ∨ (s.wl.node h).woken = true ∨ OwnerActive s h

structure WInv (s : State) : Prop where
  boc : PBoc s
  boPark : PBoPark s
  bb : PBb s
  w1 : PW1 s
  w2 : PW2 s
  qw : PQw s
  qz : PQz s
  pk : PPk s
  fl : PFl s
  t1 : PT1 s
  m2 : PM2 s
  hl : PHl s
  wk : PWk s
  nlw : PNlw s

macro "wg" : tactic => `(tactic| grind [isCas, inLL, slowL, syncOnly, asyncOnly, futPc, futNodePc, futUnlPc,
  TaK.sync, After.sync, After.async, preWakePc, dropPc, activePc, postWakePc, armedPc, holdUnlinkPc])

/-! ### frame lemmas: what one step of `t` can change -/

/-- `n` is untouched, or it is the node marked by `take_and_mark_woken` (handle taken, `WOKEN`
stored; `linked` / `is_writer` unchanged) -/
def NodeKept (s s' : State) (t : Tid) (n : Nid) : Prop :=
  s'.wl.node n = s.wl.node n
  ∨ ((s.th t).pc = .wnStore ∧ n = (s.th t).tgt
      ∧ s'.wl.node n = { s.wl.node n with waiter := none, woken := true })

set_option maxHeartbeats 16000000 in
/-- another thread's stack node -/
theorem step_node_thr (h : Step cfg s t l s') : ∀ u, u ≠ t → NodeKept s s' t (.thr u) := by
  unfold NodeKept
  step_cases h
  all_goals (intro u hu)
  all_goals (try norm_state)
  all_goals (first | exact Or.inl rfl | wg)

set_option maxHeartbeats 16000000 in
/-- the heap node of a busy future that the stepping thread is not operating on -/
theorem step_node_fut (h : Step cfg s t l s')
    (a1 : syncOnly (s.th t).pc = true → (s.th t).cur = none)
    (a2 : asyncOnly (s.th t).pc = true → (s.th t).cur ≠ none) :
    ∀ f, (s.fut f).busy = true → ¬ opOn s t f → NodeKept s s' t (.fut f) := by
  unfold NodeKept opOn
  step_cases h
  all_goals (intro f hb hop)
  all_goals (try norm_state)
  all_goals (first | exact Or.inl rfl | wg)

set_option maxHeartbeats 16000000 in
/-- the queue is changed only by the link in `rearm`'s critical section and by unlinking the own node -/
theorem step_queue (h : Step cfg s t l s') :
    s'.wl.queue = s.wl.queue
    ∨ ((s.th t).pc = .qRearm ∧ (s'.th t).pc = .qFetchOr ∧ me t (s'.th t) = me t (s.th t)
        ∧ s'.wl.queue = s.wl.queue ++ [me t (s.th t)])
    ∨ (s'.wl.queue = s.wl.queue.erase (me t (s.th t)) ∧ (s.wl.node (me t (s.th t))).linked = true
        ∧ ((s.th t).pc = .qCas
            ∨ (s.wl.locked = false ∧ ∃ k, (s.th t).pc = .llSwap k ∧ (k = .spinUnlink ∨ k = .finish ∨ k = .drop)))) := by
  step_cases h
  all_goals (try norm_state)
  all_goals (first | exact Or.inl rfl | wg)

set_option maxHeartbeats 16000000 in
/-- the `LOCKED` bit: set by a successful acquiring CAS (the thread then holds a guard), cleared by
`unlock`'s `fetch_and` -/
theorem step_locked (h : Step cfg s t l s') :
    s'.word.locked = s.word.locked
    ∨ (s.word.locked = false ∧ s'.word.locked = true)
    ∨ (s.word.locked = true ∧ s'.word.locked = false ∧ (s.th t).pc = .relAnd
        ∧ s'.wl = s.wl ∧ s'.word.hq = s.word.hq
        ∧ (s.word.hq = true → (s'.th t).pc = .llSwap .wakeNext)) := by
  step_cases h
  all_goals (try norm_state)
  all_goals (first | exact Or.inl rfl | wg)

set_option maxHeartbeats 16000000 in
/-- `HAS_QUEUED`: set by the `fetch_or` after linking / by `fix_flags` on a non-empty list, cleared
by `fix_flags` when `len = 0` -/
theorem step_hq (h : Step cfg s t l s') :
    s'.word.hq = s.word.hq
    ∨ (s'.word.hq = true)
    ∨ (s'.word.hq = false ∧ s.wl.len = 0 ∧ s'.wl.queue = s.wl.queue ∧ ∃ a, (s.th t).pc = .ff a) := by
  step_cases h
  all_goals (try norm_state)
  all_goals (first | exact Or.inl rfl | wg)

set_option maxHeartbeats 16000000 in
/-- park tokens: set by `unpark`, consumed only by the parking thread itself -/
theorem step_token (h : Step cfg s t l s') :
    ∀ u, s'.token u = s.token u
      ∨ (s'.token u = true)
      ∨ (u = t ∧ s.token u = true ∧ ((s.th t).pc = .wPark ∨ (s.th t).pc = .boPark)) := by
  step_cases h
  all_goals (intro u)
  all_goals (try norm_state)
  all_goals (first | exact Or.inl rfl | wg)

set_option maxHeartbeats 16000000 in
/-- wake counters: only grow, except for the reset at the start of a poll (the future then is busy) -/
theorem step_wakes (h : Step cfg s t l s') :
    ∀ f, s.wakes f ≤ s'.wakes f ∨ ((s.fut f).busy = false ∧ (s'.fut f).busy = true) := by
  step_cases h
  all_goals (intro f)
  all_goals (try norm_state)
  all_goals (first | exact Or.inl (Nat.le_refl _) | wg)

end Fv.Sync.Mutex
