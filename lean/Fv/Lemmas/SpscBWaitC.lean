import Fv.Lemmas.SpscBWaitA
/-! Registration / notified-flag / park-token invariants `WC` and handle-count invariants `WD`. -/
namespace Fv.Chan.SpscB

/-- handle counts -/
structure WD (s : State) : Prop where
  d1 : ∀ q, s.closed q = false → s.count q = 1
  d2 : ∀ q, (s.loc q).m = .stDropped ∨ (s.loc q).m = .subCount → s.count q = 1 ∧ s.closed q = true
  d3 : ∀ q, s.dropped q = true → s.closed q = true
  d4 : ∀ q, s.count q ≤ 1

theorem wd_init (cap : Nat) (pp pc : List Op) : WD (init cap pp pc) := by
  constructor <;> simp [init]

/-- registration, `notified` flag and park token -/
structure WC (s : State) : Prop where
  c1 : ∀ q, (s.loc q).reg = true → loopish (s.loc q).k = true
  c2 : ∀ q f, s.slot q = some f → (s.loc q).reg = true ∨ (s.loc q).m = .rgStGate ∨ (s.loc q).m = .rgUnlock
  c3 : ∀ q, (s.loc q).reg = true → s.slot q = none →
        s.flag q = true ∨ wkPre (s.loc (other q)).m = true ∨ (s.loc q).m = .urStGate ∨ (s.loc q).m = .urUnlock
  c4 : ∀ q, wkPre (s.loc (other q)).m = true → (s.loc q).reg = true ∧ s.flag q = false
  c5 : ∀ q f, s.slot q = some f → s.flag q = false
  c6 : ∀ q, s.flag q = true → loopish (s.loc q).k = true ∧ ((s.loc q).reg = true ∨ exitK (s.loc q).k = true)
  c7 : ∀ q, s.flag q = true →
        s.tok q = true ∨ wkPost (s.loc (other q)).m = true ∨ (s.loc q).m = .swapFlag ∨ exitK (s.loc q).k = true
  c8 : ∀ q, (s.loc q).m = .park → (s.loc q).reg = true
  c9 : ∀ q, (s.loc q).m = .rgLock ∨ (s.loc q).m = .rgStGate ∨ (s.loc q).m = .rgUnlock → (s.loc q).reg = false
  c10 : ∀ q, isRet (s.loc q).m = true → (s.loc q).reg = false
  c11 : ∀ q, (s.loc q).reg = true →
        (s.loc q).k = .sL ∨ (s.loc q).k = .rL ∨ (s.loc q).k = .rL2 ∨ isUr (s.loc q).m = true

theorem wkPre_holdsW {m : Mic} (h : wkPre m = true) : holdsW m = true := by
  cases m <;> simp_all [wkPre, holdsW]

theorem wc_init (cap : Nat) (pp pc : List Op) : WC (init cap pp pc) := by
  constructor <;> simp [init, wkPre]

attribute [local grind =] upd_apply
attribute [local grind] holdsSelf holdsW wkPre wkPost loopish exitK okAt inNotify isRet isUr
attribute [local grind cases] Role

syntax "wd_step " ident ident " [" Lean.Parser.Tactic.simpLemma,* "]" : tactic
macro_rules
  | `(tactic| wd_step $hi $h [$ls,*]) => `(tactic| (
  obtain ⟨d1, d2, d3, d4⟩ := $hi
  simp only [$ls,*, setLoc, afterWake, afterClose] at $h:ident
  repeat' split at $h:ident
  all_goals (first | (simp at $h:ident <;> try subst $h:ident) | skip)
  all_goals (refine ⟨?_, ?_, ?_, ?_⟩ <;>
    (dsimp only; (try simp only [afterNotify, afterUnreg, afterPush, afterPop, loopTop, waitStep]); grind))))

syntax "wc_step " ident ident ident ident " [" Lean.Parser.Tactic.simpLemma,* "]" : tactic
macro_rules
  | `(tactic| wc_step $hc $ha $hi $h [$ls,*]) => `(tactic| (
  obtain ⟨c1, c2, c3, c4, c5, c6, c7, c8, c9, c10, c11⟩ := $hi
  have ok := CInv.ok $hc
  have a1 := WA.a1 $ha
  have a4 := WA.a4 $ha
  have b3 := WA.b3 $ha
  have b4 := WA.b4 $ha
  have b5 := WA.b5 $ha
  have b6 := WA.b6 $ha
  have pw := @wkPre_holdsW
  simp only [$ls,*, setLoc, afterWake, afterClose] at $h:ident
  repeat' split at $h:ident
  all_goals (first | (simp at $h:ident <;> try subst $h:ident) | skip)
  all_goals (refine ⟨?_, ?_, ?_, ?_, ?_, ?_, ?_, ?_, ?_, ?_, ?_⟩ <;>
    (dsimp only; (try simp only [afterNotify, afterUnreg, afterPush, afterPop, loopTop, waitStep]); grind))))

set_option maxHeartbeats 4000000 in
theorem wc_call {s s' : State} {r : Role} (hc : CInv s) (ha : WA s) (hi : WC s) (h : stepCall s r = some s') : WC s' := by
  wc_step hc ha hi h [stepCall]

set_option maxHeartbeats 4000000 in
theorem wc_ret {s s' : State} {r : Role} (hc : CInv s) (ha : WA s) (hi : WC s) (h : stepRet s r = some s') : WC s' := by
  wc_step hc ha hi h [stepRet]

set_option maxHeartbeats 4000000 in
theorem wc_ldTail {s s' : State} {r : Role} (hc : CInv s) (ha : WA s) (hi : WC s) (h : stepLdTail s r = some s') : WC s' := by
  wc_step hc ha hi h [stepLdTail]

set_option maxHeartbeats 4000000 in
theorem wc_ldHead {s s' : State} {r : Role} (hc : CInv s) (ha : WA s) (hi : WC s) (h : stepLdHead s r = some s') : WC s' := by
  wc_step hc ha hi h [stepLdHead]

set_option maxHeartbeats 4000000 in
theorem wc_stTail {s s' : State} {r : Role} (hc : CInv s) (ha : WA s) (hi : WC s) (h : stepStTail s r = some s') : WC s' := by
  wc_step hc ha hi h [stepStTail]

set_option maxHeartbeats 4000000 in
theorem wc_stHead {s s' : State} {r : Role} (hc : CInv s) (ha : WA s) (hi : WC s) (h : stepStHead s r = some s') : WC s' := by
  wc_step hc ha hi h [stepStHead]

set_option maxHeartbeats 4000000 in
theorem wc_fence {s s' : State} {r : Role} (hc : CInv s) (ha : WA s) (hi : WC s) (h : stepFence s r = some s') : WC s' := by
  wc_step hc ha hi h [stepFence]

set_option maxHeartbeats 4000000 in
theorem wc_ldGate {s s' : State} {r : Role} (hc : CInv s) (ha : WA s) (hi : WC s) (h : stepLdGate s r = some s') : WC s' := by
  wc_step hc ha hi h [stepLdGate]

set_option maxHeartbeats 4000000 in
theorem wc_lock {s s' : State} {r : Role} (hc : CInv s) (ha : WA s) (hi : WC s) (h : stepLock s r = some s') : WC s' := by
  wc_step hc ha hi h [stepLock]

set_option maxHeartbeats 4000000 in
theorem wc_stGate {s s' : State} {r : Role} (hc : CInv s) (ha : WA s) (hi : WC s) (h : stepStGate s r = some s') : WC s' := by
  wc_step hc ha hi h [stepStGate]

set_option maxHeartbeats 4000000 in
theorem wc_stFlag {s s' : State} {r : Role} (hc : CInv s) (ha : WA s) (hi : WC s) (h : stepStFlag s r = some s') : WC s' := by
  wc_step hc ha hi h [stepStFlag]

set_option maxHeartbeats 4000000 in
theorem wc_unlock {s s' : State} {r : Role} (hc : CInv s) (ha : WA s) (hi : WC s) (h : stepUnlock s r = some s') : WC s' := by
  wc_step hc ha hi h [stepUnlock]

end Fv.Chan.SpscB
