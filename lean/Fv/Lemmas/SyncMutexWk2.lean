import Fv.Lemmas.SyncMutexWk
/-!
`PWk` is preserved; assembly of the wake invariant of the mutex model.
-/
namespace Fv.Sync.Mutex
open Fv.Sync
variable {cfg : Cfg} {s s' : State} {t : Tid} {l : Lbl}

theorem wk_step (hi : Inv s) (hw : WInv s) (h : Step cfg s t l s') : PWk s' := by
  have hi' := Inv_step hi h
  have ho := step_th_other h
  intro n hl' hwk'
  rcases woken_set_local hi hw h n hl' hwk' with ⟨hl, hwk⟩ | ⟨hl, hpp, hww, hne⟩
  · rcases hw.wk n hl hwk with hnb | ⟨u, hp, w, hw0, htg⟩
    · -- the owner was not blocked: it does not become blocked
      left
      intro hb'
      apply hnb
      cases n with
      | thr u =>
        obtain ⟨hpc', htk'⟩ := hb'
        by_cases hu : u = t
        · subst hu
          rcases (blocked_local hi hw h).1 ⟨hpc', htk'⟩ with hb | ⟨_, hwf⟩
          · exact hb
          · rw [hwk] at hwf; cases hwf
        · rw [ho u hu] at hpc'
          refine ⟨hpc', ?_⟩
          rcases step_token h u with h1 | h1 | ⟨h1, _⟩
          · rw [← h1]; exact htk'
          · rw [h1] at htk'; cases htk'
          · exact absurd h1 hu
      | fut f =>
        have hph := hi.futNode f hl
        have hbo : (s'.fut f).bo = (s.fut f).bo := by
          rcases step_bo h f with h1 | h1
          · exact h1
          · rw [hph] at h1; cases h1
        unfold OwnerBlocked at hb' ⊢
        simp only [hbo] at hb'
        cases hb : (s.fut f).bo with
        | true =>
          simp only [hb, if_true] at hb' ⊢
          obtain ⟨u, hc', hpc', htk'⟩ := hb'
          by_cases hu : u = t
          · subst hu
            rcases (blocked_local hi hw h).2.1 f ⟨hc', hpc', htk'⟩ with hbk | hwf
            · exact ⟨u, hbk⟩
            · rw [hwk] at hwf; cases hwf
          · rw [ho u hu] at hc' hpc'
            refine ⟨u, hc', hpc', ?_⟩
            rcases step_token h u with h1 | h1 | ⟨h1, _⟩
            · rw [← h1]; exact htk'
            · rw [h1] at htk'; cases htk'
            · exact absurd h1 hu
        | false =>
          simp only [hb, Bool.false_eq_true, if_false] at hb' ⊢
          obtain ⟨hbz', hwz'⟩ := hb'
          have hbz : (s.fut f).busy = false := by
            cases hbs : (s.fut f).busy with
            | false => rfl
            | true =>
              exfalso
              by_cases hop : opOn s t f
              · rcases (blocked_local hi hw h).2.2 f hop.1 hop.2 hbz' with h1 | h1
                · rw [hl'] at h1; cases h1
                · rw [hwk] at h1; cases h1
              · have := (step_fut_other h (hi.syncCur t) (hi.asyncCur t) f hbs hop).1
                rw [this, hbs] at hbz'; cases hbz'
          refine ⟨hbz, ?_⟩
          rcases step_wakes h f with h1 | ⟨_, h1⟩
          · rw [hwz'] at h1; exact Nat.le_zero.1 h1
          · rw [hbz'] at h1; cases h1
    · -- the handle is in flight
      have htg' : Targets s' w n := by
        rcases targets_step hi hw h htg hl with h1 | h1
        · exact h1
        · rw [hl'] at h1; cases h1
      by_cases hu : u = t
      · subst hu
        rcases postwake_local hi h hp hw0 with ⟨hp', hw'⟩ | ⟨v, hv, htok⟩ | ⟨f, hf, hwak⟩
        · exact Or.inr ⟨u, hp', w, hw', htg'⟩
        · left
          subst hv
          cases n with
          | thr v' =>
            have : v = v' := htg'
            subst this
            intro ⟨_, hb⟩; rw [htok] at hb; cases hb
          | fut f =>
            obtain ⟨hbo', hc', hfp'⟩ := htg'
            unfold OwnerBlocked
            simp only [hbo', if_true]
            intro ⟨u', hcu, hpu, htu⟩
            have := (hi'.busy v f hc' hfp').2 u' hcu (by rw [hpu]; rfl)
            subst this
            rw [htok] at htu; cases htu
        · left
          subst hf
          cases n with
          | thr v' => cases htg'
          | fut f' =>
            obtain ⟨he, hbo'⟩ := htg'
            subst he
            unfold OwnerBlocked
            simp only [hbo', Bool.false_eq_true, if_false]
            intro ⟨_, hz⟩
            rw [hz] at hwak; cases hwak
      · exact Or.inr ⟨u, by rw [ho u hu]; exact hp, w, by rw [ho u hu]; exact hw0, htg'⟩
  · -- freshly marked by the stepping thread, which now carries the handle
    obtain ⟨w, hwe⟩ := Option.ne_none_iff_exists'.1 hne
    have htg := hw.w1 n w hl hwe
    have htg' : Targets s' w n := by
      rcases targets_step hi hw h htg hl with h1 | h1
      · exact h1
      · rw [hl'] at h1; cases h1
    exact Or.inr ⟨t, hpp, w, by rw [hww, hwe], htg'⟩

theorem WInv_step (hi : Inv s) (hw : WInv s) (h : Step cfg s t l s') : WInv s' := by
  obtain ⟨p0, p1, p2, p3, p4, p5, p6⟩ := perthread_step hi hw h
  exact { boc := p0, boPark := p1, bb := bb_step hi hw h, w1 := w1_step hi hw h, w2 := w2_step hi hw h,
          qw := p2, qz := p3, pk := p4, fl := fl_step hi hw h, t1 := p5, m2 := m2_step hi hw h, hl := p6,
          wk := wk_step hi hw h, nlw := nlw_step hi hw h }

theorem WInv_init (prog : Tid → List MOp) : WInv (init prog) := by
  constructor
  all_goals
    simp [init, PBoc, PBoPark, PBb, PW1, PW2, PQw, PQz, PPk, PFl, PT1, PM2, PHl, PWk, PNlw, futPc, armedPc,
      holdUnlinkPc]

/-- the basic and the wake invariant hold in every reachable state -/
theorem WInv_reach {s : State} (h : Reach cfg s) : Inv s ∧ WInv s := by
  refine ReachOf.inv (fun s => Inv s ∧ WInv s) ?_ ?_ s h
  · rintro s ⟨prog, rfl⟩; exact ⟨Inv_init prog, WInv_init prog⟩
  · intro s t l s' ⟨hi, hw⟩ hm
    have hs := step_of_mem hm
    exact ⟨Inv_step hi hs, WInv_step hi hw hs⟩

end Fv.Sync.Mutex
