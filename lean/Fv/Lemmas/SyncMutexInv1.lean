import Fv.Lemmas.SyncMutexFrame
/-!
Preservation of the basic `HybridMutex` invariant, part 1: mutual exclusion, CAS locals,
list-spinlock exclusion, sync/async pc discipline, stack-node ownership.
Style: for a per-thread conjunct the other threads are handled by the frame lemmas, the stepping
thread by one pass over the step cases with ground facts.
-/
namespace Fv.Sync.Mutex
open Fv.Sync
variable {cfg : Cfg} {s s' : State} {t : Tid} {l : Lbl}

macro "rg" : tactic => `(tactic| grind [isCas, inLL, slowL, syncOnly, asyncOnly, futPc, futNodePc, futUnlPc,
  TaK.sync, After.sync, After.async])

theorem holders_key (h1 : PLockedHeld s) (h2 : PFreeEmpty s) {u : Tid} (hm : (u, true) ∈ s.holders) :
    s.holders = [(u, true)] ∧ s.word.locked = true := by
  cases hl : s.word.locked
  · rw [h2 hl] at hm; simp at hm
  · obtain ⟨v, hv⟩ := h1 hl; rw [hv] at hm ⊢; simp at hm; subst hm; simp

set_option maxHeartbeats 8000000 in
theorem mx_step (hi : Inv s) (h : Step cfg s t l s') : PLockedHeld s' ∧ PFreeEmpty s' := by
  have h1 := hi.lockedHeld; have h2 := hi.freeEmpty
  have key := @holders_key s h1 h2 t
  have a3 := hi.svFree t; have a4 := hi.relHolds t
  unfold PLockedHeld PFreeEmpty at *
  clear hi
  step_cases h
  all_goals (try norm_goal)
  all_goals (first | exact ⟨h1, h2⟩ | rg)

set_option maxHeartbeats 8000000 in
theorem pure_local_step (hi : Inv s) (h : Step cfg s t l s') :
    PSvFree s' ∧ PSyncCur s' ∧ PAsyncCur s' ∧ PFfOk s' := by
  have key : (isCas (s'.th t).pc = true → (s'.th t).sv.locked = false)
      ∧ (syncOnly (s'.th t).pc = true → (s'.th t).cur = none)
      ∧ (asyncOnly (s'.th t).pc = true → (s'.th t).cur ≠ none)
      ∧ ((s'.th t).pc ≠ .ff .parkLoad ∧ (s'.th t).pc ≠ .ff .pending) := by
    have a1 := hi.svFree t; have a2 := hi.syncCur t; have a3 := hi.asyncCur t; have a4 := hi.ffOk t
    clear hi
    step_cases h
    all_goals (try norm_goal)
    all_goals rg
  have ho := step_th_other h
  refine ⟨?_, ?_, ?_, ?_⟩ <;> intro u <;> by_cases hu : u = t
  · subst hu; exact key.1
  · rw [ho u hu]; exact hi.svFree u
  · subst hu; exact key.2.1
  · rw [ho u hu]; exact hi.syncCur u
  · subst hu; exact key.2.2.1
  · rw [ho u hu]; exact hi.asyncCur u
  · subst hu; exact key.2.2.2
  · rw [ho u hu]; exact hi.ffOk u

set_option maxHeartbeats 8000000 in
theorem relHolds_step (hi : Inv s) (h : Step cfg s t l s') : PRelHolds s' := by
  intro u
  by_cases hu : u = t
  · subst hu
    have a4 := hi.relHolds u
    clear hi
    step_cases h
    all_goals (try norm_goal)
    all_goals (first | exact a4 | rg)
  · rw [step_th_other h u hu]
    intro hp
    exact step_holders_other h u true hu (hi.relHolds u hp)

theorem ll_step (hi : Inv s) (h : Step cfg s t l s') : PLl s' := by
  have hll := hi.ll
  have ho := step_th_other h
  obtain ⟨k1, k2⟩ := step_ll h (fun ht => (hll t ht).1)
  intro u hu
  by_cases hut : u = t
  · subst hut
    obtain ⟨hl', hor⟩ := k1 hu
    refine ⟨hl', ?_⟩
    intro v hv
    by_cases hvu : v = u
    · exact hvu
    · rw [ho v hvu] at hv
      rcases hor with hor | hor
      · exact (hll u hor).2 v hv
      · have := (hll v hv).1; rw [hor] at this; cases this
  · rw [ho u hut] at hu
    obtain ⟨hl, huniq⟩ := hll u hu
    have htn : inLL (s.th t).pc = false := by
      cases hc : inLL (s.th t).pc
      · rfl
      · exact absurd (huniq t hc).symm hut
    obtain ⟨hl', htn'⟩ := k2 htn hl
    refine ⟨hl', ?_⟩
    intro v hv
    by_cases hvt : v = t
    · subst hvt; rw [htn'] at hv; cases hv
    · rw [ho v hvt] at hv; exact huniq v hv

set_option maxHeartbeats 8000000 in
theorem thrNode_local (hi : Inv s) (h : Step cfg s t l s') :
    ((s'.th t).cur = none → slowL (s'.th t).pc = true → (s'.th t).linked = (s'.wl.node (.thr t)).linked)
    ∧ ((s'.wl.node (.thr t)).linked = true → (s'.th t).cur = none ∧ slowL (s'.th t).pc = true) := by
  have a1 := hi.syncCur t; have a2 := hi.asyncCur t; have a3 := hi.syncLinked t; have a4 := hi.thrNode t
  have a5 := hi.ffOk t
  clear hi
  step_cases h
  all_goals (try norm_goal)
  all_goals rg

theorem thrNode_step (hi : Inv s) (h : Step cfg s t l s') : PSyncLinked s' ∧ PThrNode s' := by
  have key := thrNode_local hi h
  have ho := step_th_other h
  have hn := step_node_thr_other h
  constructor <;> intro u <;> by_cases hu : u = t
  · subst hu; exact key.1
  · rw [ho u hu, hn u hu]; exact hi.syncLinked u
  · subst hu; exact key.2
  · rw [ho u hu, hn u hu]; exact hi.thrNode u

end Fv.Sync.Mutex
