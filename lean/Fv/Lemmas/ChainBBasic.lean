import Fv.Chan.ChainB
/-! Basic lemmas for the slab-chain model: function update, node counting, pc observers. -/
namespace Fv.Chan.ChainB

theorem upd_apply {κ α} [DecidableEq κ] (f : κ → α) (i j : κ) (a : α) :
    upd f i a j = if j = i then a else f j := rfl
@[simp] theorem upd_same {κ α} [DecidableEq κ] (f : κ → α) (i : κ) (a : α) : upd f i a i = a := by simp [upd]
theorem upd_other {κ α} [DecidableEq κ] (f : κ → α) (i j : κ) (a : α) (h : j ≠ i) : upd f i a j = f j := by
  simp [upd, h]

theorem upd2_apply {α} (f : Nat → Nat → α) (i j i' j' : Nat) (a : α) :
    upd2 f i j a i' j' = if i' = i ∧ j' = j then a else f i' j' := rfl

theorem nodup_snoc {l : List Nat} {a : Nat} (h : l.Nodup) (ha : a ∉ l) : (l ++ [a]).Nodup := by
  rw [List.nodup_append]
  refine ⟨h, by simp, ?_⟩
  intro x hx y hy
  simp at hy; subst hy
  intro e; subst e; exact ha hx

theorem pool_pop {l : List Nat} {b : Nat} (h : l.getLast? = some b) : l = l.dropLast ++ [b] := by
  obtain ⟨ys, e⟩ := List.getLast?_eq_some_iff.1 h
  subst e; simp

theorem pool_pop_nodup {l : List Nat} {b : Nat} (h : l.getLast? = some b) (hn : l.Nodup) :
    l.dropLast.Nodup ∧ b ∉ l.dropLast ∧ ∀ x, x ∈ l ↔ (x ∈ l.dropLast ∨ x = b) := by
  have e := pool_pop h
  rw [e] at hn
  rw [List.nodup_append] at hn
  refine ⟨hn.1, ?_, ?_⟩
  · intro hm; exact hn.2.2 b hm b (by simp) rfl
  · intro x; conv => lhs; rw [e]
    simp

/-- number of `i < n` with `p i` -/
def cnt : Nat → (Nat → Bool) → Nat
  | 0, _ => 0
  | n + 1, p => cnt n p + (if p n then 1 else 0)

theorem cnt_congr {n : Nat} {p q : Nat → Bool} (h : ∀ i, i < n → p i = q i) : cnt n p = cnt n q := by
  induction n with
  | zero => rfl
  | succ n ih =>
    simp only [cnt]
    rw [ih (fun i hi => h i (by omega)), h n (by omega)]

theorem cnt_le (n : Nat) (p : Nat → Bool) : cnt n p ≤ n := by
  induction n with
  | zero => simp [cnt]
  | succ n ih => simp only [cnt]; split <;> omega

theorem cnt_all {n : Nat} {p : Nat → Bool} (h : ∀ i, i < n → p i = true) : cnt n p = n := by
  induction n with
  | zero => rfl
  | succ n ih =>
    simp only [cnt]
    rw [ih (fun i hi => h i (by omega)), h n (by omega)]; simp

theorem cnt_zero {n : Nat} {p : Nat → Bool} (h : cnt n p = 0) : ∀ i, i < n → p i = false := by
  induction n with
  | zero => intro i hi; omega
  | succ n ih =>
    simp only [cnt] at h
    intro i hi
    by_cases hn : i = n
    · subst hn; cases hp : p i <;> simp_all
    · exact ih (by omega) i (by omega)

theorem cnt_none {n : Nat} {p : Nat → Bool} (h : ∀ i, i < n → p i = false) : cnt n p = 0 := by
  induction n with
  | zero => rfl
  | succ n ih =>
    simp only [cnt]
    rw [ih (fun i hi => h i (by omega)), h n (by omega)]; simp

/-- one counted element is switched off -/
theorem cnt_flip {n i : Nat} {p q : Nat → Bool} (hi : i < n) (hp : p i = true) (hq : q i = false)
    (ho : ∀ j, j ≠ i → q j = p j) : cnt n p = cnt n q + 1 := by
  induction n with
  | zero => omega
  | succ n ih =>
    simp only [cnt]
    by_cases hn : i = n
    · subst hn
      rw [hp, hq, cnt_congr (p := p) (q := q) (fun j hj => (ho j (by omega)).symm)]; simp
    · rw [ih (by omega), ho n (by omega)]; omega

/-- the counted tail `[u, n)` is switched off -/
theorem cnt_tail {n u : Nat} {p q : Nat → Bool} (hu : u ≤ n) (hlo : ∀ i, i < u → q i = p i)
    (hp : ∀ i, u ≤ i → i < n → p i = true) (hq : ∀ i, u ≤ i → i < n → q i = false) :
    cnt n p = cnt n q + (n - u) := by
  induction n with
  | zero => simp [cnt]
  | succ n ih =>
    simp only [cnt]
    by_cases hn : u = n + 1
    · subst hn
      rw [cnt_congr (p := p) (q := q) (fun j hj => (hlo j (by omega)).symm), hlo n (by omega)]; simp
    · rw [ih (by omega) (fun i h1 h2 => hp i h1 (by omega)) (fun i h1 h2 => hq i h1 (by omega)),
          hp n (by omega) (by omega), hq n (by omega) (by omega)]
      simp; omega

/-- nodes of slab `b` not yet retired in its current incarnation -/
def live (cfg : Cfg) (nst : NodeId → NodeSt) (b : Nat) : Nat :=
  cnt cfg.N (fun i => decide (nst (.nd b i) ≠ .retired))

theorem live_congr {cfg : Cfg} {nst nst' : NodeId → NodeSt} {b : Nat}
    (h : ∀ i, i < cfg.N → (nst' (.nd b i) = .retired ↔ nst (.nd b i) = .retired)) :
    live cfg nst' b = live cfg nst b := by
  unfold live
  apply cnt_congr
  intro i hi
  have := h i hi
  by_cases h1 : nst (.nd b i) = .retired <;> simp_all

/-- one live node is retired -/
theorem live_flip {cfg : Cfg} {nst nst' : NodeId → NodeSt} {b i : Nat} (hi : i < cfg.N)
    (h0 : nst (.nd b i) ≠ .retired) (h1 : nst' (.nd b i) = .retired)
    (ho : ∀ j, j ≠ i → nst' (.nd b j) = nst (.nd b j)) : live cfg nst b = live cfg nst' b + 1 := by
  unfold live
  apply cnt_flip hi
  · simpa using h0
  · simpa using h1
  · intro j hj; rw [ho j hj]

/-- the live tail `[u, N)` is written off -/
theorem live_tail {cfg : Cfg} {nst nst' : NodeId → NodeSt} {b u : Nat} (hu : u ≤ cfg.N)
    (hlo : ∀ i, i < u → nst' (.nd b i) = nst (.nd b i))
    (h0 : ∀ i, u ≤ i → i < cfg.N → nst (.nd b i) ≠ .retired)
    (h1 : ∀ i, u ≤ i → i < cfg.N → nst' (.nd b i) = .retired) :
    live cfg nst b = live cfg nst' b + (cfg.N - u) := by
  unfold live
  apply cnt_tail hu
  · intro i hi; rw [hlo i hi]
  · intro i h1' h2; simpa using h0 i h1' h2
  · intro i h1' h2; simpa using h1 i h1' h2

theorem live_all {cfg : Cfg} {nst : NodeId → NodeSt} {b : Nat}
    (h : ∀ i, i < cfg.N → nst (.nd b i) ≠ .retired) : live cfg nst b = cfg.N := by
  unfold live
  apply cnt_all
  intro i hi; simpa using h i hi

theorem live_le (cfg : Cfg) (nst : NodeId → NodeSt) (b : Nat) : live cfg nst b ≤ cfg.N := cnt_le _ _

/-- the producer hold on `remaining` -/
def hold : SlabSt → Nat
  | .owned _ => 1
  | .arming _ => 1
  | _ => 0

/-- slab states in which the count is zero and the slab is between owners -/
def isZero : SlabSt → Bool
  | .releasing _ => true | .pooled => true | .freed => true | .popped _ => true | _ => false

def isArming : SlabSt → Bool
  | .arming _ => true | _ => false

/-- slab states in which a node may be free -/
def canFree : SlabSt → Bool
  | .owned _ => true | .arming _ => true | _ => false

/-! observers on program counters -/

/-- the slab a producer is releasing -/
def pRelOf : PPC → Option Nat
  | .relFence b _ => some b | .relLock b _ => some b | .relUnlock b _ => some b | _ => none

def cRelOf : CPC → Option Nat
  | .relFence b _ => some b | .relLock b _ => some b | .relUnlock b _ => some b | _ => none

def pHoldsLock : PPC → Bool
  | .relUnlock _ _ => true | .acqUnlock => true | _ => false

def cHoldsLock : CPC → Bool
  | .relUnlock _ _ => true | _ => false

/-- the node whose retire fetch_sub is pending -/
def cRetOf : CPC → Option NodeId
  | .retDec n _ => some n | _ => none

/-- inside `send`/`bump_batch` (a run is being built) -/
def building : PPC → Bool
  | .build => true | .relFence _ .bump => true | .relLock _ .bump => true | .relUnlock _ .bump => true
  | .acqLock => true | .acqUnlock => true | .rearmRem _ => true | .rearmNode _ _ => true | .alloc => true
  | .prelink => true | _ => false

/-- between an exhausted seal and the end of `acquire`: a bump is pending, the handle has no slab -/
def needing : PPC → Bool
  | .relFence _ .bump => true | .relLock _ .bump => true | .relUnlock _ .bump => true
  | .acqLock => true | .acqUnlock => true | .rearmRem _ => true | .rearmNode _ _ => true | .alloc => true
  | _ => false

/-- pcs at which the handle's `slab` is null -/
def noSlab : PPC → Bool
  | .relFence _ _ => true | .relLock _ _ => true | .relUnlock _ _ => true
  | .acqLock => true | .acqUnlock => true | .rearmRem _ => true | .rearmNode _ _ => true | .alloc => true
  | .dropDec => true | _ => false

def hasSlab : PPC → Bool
  | .build => true | .sealing => true | .prelink => true | _ => false

/-- consumer pcs of the `Drop` walk -/
def cFinal : CPC → Bool
  | .retDec _ .walk => true | .retDec _ .last => true
  | .relFence _ .walk => true | .relFence _ .last => true
  | .relLock _ .walk => true | .relLock _ .last => true
  | .relUnlock _ .walk => true | .relUnlock _ .last => true
  | .finLoad => true | .finished => true | _ => false

/-- consumer pcs after the final `retire_node(tail)` began -/
def cLast : CPC → Bool
  | .retDec _ .last => true | .relFence _ .last => true | .relLock _ .last => true
  | .relUnlock _ .last => true | .finished => true | _ => false

theorem sealNodes_apply (cfg : Cfg) (nst : NodeId → NodeSt) (b used : Nat) (n : NodeId) :
    sealNodes cfg nst b used n =
      match n with
      | .nd b' i => if b' = b ∧ used ≤ i ∧ i < cfg.N then .retired else nst n
      | .stub => nst n := rfl

theorem sealNodes_nd (cfg : Cfg) (nst : NodeId → NodeSt) (b used b' i : Nat) :
    sealNodes cfg nst b used (.nd b' i) = if b' = b ∧ used ≤ i ∧ i < cfg.N then .retired else nst (.nd b' i) := rfl
theorem sealNodes_stub (cfg : Cfg) (nst : NodeId → NodeSt) (b used : Nat) :
    sealNodes cfg nst b used .stub = nst .stub := rfl

theorem freeNodes_nd (cfg : Cfg) (nst : NodeId → NodeSt) (b b' i : Nat) :
    freeNodes cfg nst b (.nd b' i) = if b' = b ∧ i < cfg.N then .free else nst (.nd b' i) := rfl
theorem freeNodes_stub (cfg : Cfg) (nst : NodeId → NodeSt) (b : Nat) :
    freeNodes cfg nst b .stub = nst .stub := rfl

theorem freeNodes_apply (cfg : Cfg) (nst : NodeId → NodeSt) (b : Nat) (n : NodeId) :
    freeNodes cfg nst b n =
      match n with
      | .nd b' i => if b' = b ∧ i < cfg.N then .free else nst n
      | .stub => nst n := rfl

theorem publishNodes_apply (nst : NodeId → NodeSt) (h len : Nat) (n : NodeId) :
    publishNodes nst h len n =
      match nst n with
      | .held h' j => if h' = h then .inchain (len + 1 + j) else .held h' j
      | x => x := rfl

theorem publishNodes_held (nst : NodeId → NodeSt) (h len : Nat) (n : NodeId) (h' j : Nat)
    (e : nst n = .held h' j) :
    publishNodes nst h len n = if h' = h then .inchain (len + 1 + j) else .held h' j := by
  simp [publishNodes, e]

theorem publishNodes_other (nst : NodeId → NodeSt) (h len : Nat) (n : NodeId)
    (e : ∀ h' j, nst n ≠ .held h' j) : publishNodes nst h len n = nst n := by
  unfold publishNodes
  split
  · rename_i h' j e'; exact absurd e' (e h' j)
  · rfl

end Fv.Chan.ChainB
