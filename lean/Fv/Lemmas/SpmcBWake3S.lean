import Fv.Lemmas.SpmcBWakeR
/-! Wake-up invariants, part 3 (receivers' slot waker lists): frame lemmas and the sender steps. -/
namespace Fv.Chan.SpmcB
open Fv.Chan.LeftRightB (upd upd_apply upd_same)

/-- everything thread `u` relies on is still there -/
theorem W3thread_keep {s s' : State} {u r : Nat} {q : RPC} (h : W3thread s u r q)
    (hcap : s'.cap = s.cap) (hcur : s'.cur r = s.cur r) (hsent : s'.sent = s.sent) (hpd : s'.pdropped = s.pdropped)
    (hwk : ∀ j, u ∈ s.wk j → u ∈ s'.wk j ∨ OwedL s' u) (howed : OwedL s u → OwedL s' u)
    (hdr : ∀ c, u ∈ s'.wk (c % s.cap) → (∃ p q', s.pc p = .snd q' ∧ willDrain q' c) →
        (∃ p q', s'.pc p = .snd q' ∧ willDrain q' c) ∨ OwedL s' u)
    (hdc : ∀ j, u ∈ s'.wk j → (∃ p q', s.pc p = .snd q' ∧ willDrainC q' j) →
        (∃ p q', s'.pc p = .snd q' ∧ willDrainC q' j) ∨ OwedL s' u) :
    W3thread s' u r q := by
  obtain ⟨h1, h2, h3⟩ := h
  refine ⟨?_, ?_, ?_⟩
  · intro n hn; rw [hcap, hcur]
    rcases h1 n hn with a | a
    · exact hwk _ a
    · exact Or.inr (howed a)
  · intro n hn h1n hlt; rw [hcap, hcur] at *; rw [hsent] at hlt
    rcases h2 n hn h1n hlt with a | ⟨a, b⟩
    · exact Or.inl (howed a)
    · rcases hwk _ a with a' | a'
      · rcases hdr _ a' b with b' | b'
        · exact Or.inr ⟨a', b'⟩
        · exact Or.inl b'
      · exact Or.inl a'
  · intro hn hp; rw [hcap, hcur] at *; rw [hpd] at hp
    rcases h3 hn hp with a | ⟨a, b⟩
    · exact Or.inl (howed a)
    · rcases hwk _ a with a' | a'
      · rcases hdc _ a' b with b' | b'
        · exact Or.inr ⟨a', b'⟩
        · exact Or.inl b'
      · exact Or.inl a'

/-- a wake already under way satisfies everything -/
theorem W3thread_of_owed {s : State} {u r : Nat} {q : RPC} (h : OwedL s u) : W3thread s u r q :=
  ⟨fun _ _ => Or.inr h, fun _ _ _ _ => Or.inl h, fun _ _ => Or.inl h⟩

/-- frame rule for a step of a receiver-side thread `t`: the other waiters keep their facts -/
theorem invW3_R {s s' : State} {t r : Nat} {q : RPC} {p' : PC} (ha : InvA s) (hs : Safe s) (h3 : InvW3 s) (hq : s.pc t = .rcv r q)
    (hpc : s'.pc = upd s.pc t p') (hp : okR r p')
    (hcap : s'.cap = s.cap) (hsent : s'.sent = s.sent) (hpd : s'.pdropped = s.pdropped)
    (hcur : ∀ r', r' ≠ r → r' < s.nextCell → s'.cur r' = s.cur r')
    (hwk : ∀ j u, u ∈ s.wk j → u ∈ s'.wk j) (htok : ∀ u, u ≠ t → s.token u = true → s'.token u = true)
    (hnew : ∀ q', p' = .rcv r q' → W3thread s' t r q')
    (hfresh : ∀ r' x, p' = .rcv r' (.rFlag x) → x.reg = false := by intro r' x e; cases e) : InvW3 s' := by
  have hown : s.rOwner r = some t := (ha.rown t r).2 (by rw [hq]; rfl)
  have sndk : ∀ p q0, s.pc p = .snd q0 → s'.pc p = .snd q0 := by
    intro p q0 h
    rw [hpc]; simp only [upd_apply]
    rw [if_neg]; exact h
    intro e; subst e; rw [hq] at h; cases h
  refine ⟨?_, ?_⟩
  rotate_left
  · intro u r' x hu
    rw [hpc] at hu
    by_cases hut : u = t
    · subst hut; rw [upd_same] at hu; exact hfresh r' x hu
    · simp only [upd_apply, if_neg hut] at hu; exact h3.fresh u r' x hu
  intro u r' q' hu
  rw [hpc] at hu
  by_cases hut : u = t
  · subst hut; rw [upd_same] at hu
    rcases hp with ⟨res, rfl⟩ | ⟨q'', rfl⟩
    · cases hu
    · simp only [PC.rcv.injEq] at hu; obtain ⟨rfl, rfl⟩ := hu; exact hnew q'' rfl
  · simp only [upd_apply, if_neg hut] at hu
    have hne : r' ≠ r := by
      intro e; subst e
      have := (ha.rown u r').2 (by rw [hu]; rfl)
      rw [hown] at this; exact hut (Option.some.inj this).symm
    have howed : OwedL s u → OwedL s' u := by
      rintro (a | ⟨p, q0, hp0, hm⟩)
      · exact Or.inl (htok u hut a)
      · exact Or.inr ⟨p, q0, sndk p q0 hp0, hm⟩
    refine W3thread_keep (h3.all u r' q' hu) hcap (hcur r' hne (rFact_base (hs.rf u r' q' hu)).1) hsent hpd (fun j a => Or.inl (hwk j u a)) howed ?_ ?_
    · rintro c _ ⟨p, q0, hp0, hd⟩; exact Or.inl ⟨p, q0, sndk p q0 hp0, hd⟩
    · rintro j _ ⟨p, q0, hp0, hd⟩; exact Or.inl ⟨p, q0, sndk p q0 hp0, hd⟩

/-- frame rule for a step of the sender-side thread -/
theorem invW3_S {s s' : State} {t : Nat} {q : SPC} {p' : PC} (h3 : InvW3 s) (hq : s.pc t = .snd q)
    (hpc : s'.pc = upd s.pc t p') (hp : okS p')
    (each : ∀ u r qu, u ≠ t → s.pc u = .rcv r qu → W3thread s u r qu → W3thread s' u r qu) : InvW3 s' := by
  refine ⟨?_, ?_⟩
  · intro u r qu hu
    rw [hpc] at hu
    by_cases hut : u = t
    · subst hut; rw [upd_same] at hu; exact absurd hu (okS_not_rcv hp)
    · simp only [upd_apply, if_neg hut] at hu
      exact each u r qu hut hu (h3.all u r qu hu)
  · intro u r x hu
    rw [hpc] at hu
    by_cases hut : u = t
    · subst hut; rw [upd_same] at hu; exact absurd hu (okS_not_rcv hp)
    · simp only [upd_apply, if_neg hut] at hu; exact h3.fresh u r x hu

/-- the sender-side thread is the only one inside a sender operation -/
theorem snd_unique {s : State} (ha : InvA s) {t p : Nat} {q q0 : SPC} (hq : s.pc t = .snd q) (hp : s.pc p = .snd q0) :
    p = t ∧ q0 = q := by
  have h1 := (ha.sown t).2 (by rw [hq]; rfl)
  have h2 := (ha.sown p).2 (by rw [hp]; rfl)
  rw [h1] at h2
  have := (Option.some.inj h2).symm
  subst this; rw [hq] at hp; cases hp; exact ⟨rfl, rfl⟩

/-- sender step from a control state that holds no wakers and owes no drain, which touches none of
the waker lists, tokens, `sent`, `producer_dropped`: nobody relied on the sender -/
theorem invW3_S_cold {s s' : State} {t : Nat} {q : SPC} {p' : PC} (ha : InvA s) (h3 : InvW3 s) (hq : s.pc t = .snd q)
    (hpc : s'.pc = upd s.pc t p') (hp : okS p')
    (hacc : accOf q = []) (hd : ∀ c, ¬ willDrain q c) (hdc : ∀ j, ¬ willDrainC q j)
    (hcap : s'.cap = s.cap) (hcur : s'.cur = s.cur) (hsent : s'.sent = s.sent) (hpd : s'.pdropped = s.pdropped)
    (hwk : s'.wk = s.wk) (htok : ∀ u, u ≠ t → s.token u = true → s'.token u = true) : InvW3 s' := by
  refine invW3_S h3 hq hpc hp ?_
  intro u r qu hut _ h
  have howed : OwedL s u → OwedL s' u := by
    rintro (a | ⟨p, q0, hp0, hm⟩)
    · exact Or.inl (htok u hut a)
    · obtain ⟨rfl, rfl⟩ := snd_unique ha hq hp0; rw [hacc] at hm; cases hm
  refine W3thread_keep h hcap (by rw [hcur]) hsent hpd (fun j a => Or.inl (by rw [hwk]; exact a)) howed ?_ ?_
  · rintro c _ ⟨p, q0, hp0, hdr⟩; obtain ⟨rfl, rfl⟩ := snd_unique ha hq hp0; exact absurd hdr (hd c)
  · rintro j _ ⟨p, q0, hp0, hdr⟩; obtain ⟨rfl, rfl⟩ := snd_unique ha hq hp0; exact absurd hdr (hdc j)

/-- sender step that keeps (or extends) what it holds and owes, and touches none of the lists … -/
theorem invW3_S_mono {s s' : State} {t : Nat} {q q' : SPC} (ha : InvA s) (h3 : InvW3 s) (hq : s.pc t = .snd q)
    (hpc : s'.pc = upd s.pc t (.snd q'))
    (hacc : ∀ x, x ∈ accOf q → x ∈ accOf q') (hd : ∀ c, willDrain q c → willDrain q' c)
    (hdc : ∀ j, willDrainC q j → willDrainC q' j)
    (hcap : s'.cap = s.cap) (hcur : s'.cur = s.cur) (hsent : s'.sent = s.sent) (hpd : s'.pdropped = s.pdropped)
    (hwk : s'.wk = s.wk) (htok : s'.token = s.token) : InvW3 s' := by
  have hme : s'.pc t = .snd q' := by rw [hpc]; simp
  refine invW3_S h3 hq hpc (okS_snd _) ?_
  intro u r qu _ _ h
  have howed : OwedL s u → OwedL s' u := by
    rintro (a | ⟨p, q0, hp0, hm⟩)
    · exact Or.inl (by rw [htok]; exact a)
    · obtain ⟨rfl, rfl⟩ := snd_unique ha hq hp0; exact Or.inr ⟨p, q', hme, hacc _ hm⟩
  refine W3thread_keep h hcap (by rw [hcur]) hsent hpd (fun j a => Or.inl (by rw [hwk]; exact a)) howed ?_ ?_
  · rintro c _ ⟨p, q0, hp0, hdr⟩; obtain ⟨rfl, rfl⟩ := snd_unique ha hq hp0; exact Or.inl ⟨p, q', hme, hd c hdr⟩
  · rintro j _ ⟨p, q0, hp0, hdr⟩; obtain ⟨rfl, rfl⟩ := snd_unique ha hq hp0; exact Or.inl ⟨p, q', hme, hdc j hdr⟩


syntax "cold3 " ident ident ident : tactic
macro_rules | `(tactic| cold3 $ha $h3 $hq) => `(tactic|
  exact invW3_S_cold $ha $h3 $hq rfl (by okS_tac) rfl (fun _ h => h) (fun _ h => h) rfl rfl rfl rfl rfl (fun _ _ h => h))

theorem wake3_actS {s s' : State} {t : Nat} {p : SPC} (ha : InvA s) (hs : Safe s) (hw : InvW s)
    (hq : s.pc t = .snd p) (h : actS s t p = some s') : InvW3 s' := by
  have h3 := hw.w3
  cases p <;> simp only [actS] at h
  case sFlag x => cases h; unfold stepSFlag; split <;> cold3 ha h3 hq
  case sHead k => cases h; cold3 ha h3 hq
  case sEnter k h0 p =>
    unfold stepSEnter at h
    repeat' split at h
    all_goals (cases h; try cold3 ha h3 hq)
  case sScan k h0 i done todo m =>
    unfold stepSScan at h
    repeat' split at h
    all_goals (cases h; try cold3 ha h3 hq)
  case sHead2 k i L m => cases h; cold3 ha h3 hq
  case sExit k h0 i L m =>
    unfold stepSExit at h
    repeat' split at h
    all_goals (cases h; try cold3 ha h3 hq)
  case bHead x k => cases h; cold3 ha h3 hq
  case slHead x => cases h; cold3 ha h3 hq
  case aStore x => cases h; cold3 ha h3 hq
  case aFence x => cases h; cold3 ha h3 hq
  case dCas d => cases h; unfold stepDCas; repeat' split
                 all_goals cold3 ha h3 hq
  case dSpin d => cases h; cold3 ha h3 hq
  case dLoad x => cases h; unfold stepDLoad; split <;> cold3 ha h3 hq
  case dSpin2 x => cases h; cold3 ha h3 hq
  case pPark x =>
    unfold stepPPark at h; split at h
    · cases h
      refine invW3_S_cold ha h3 hq rfl (by okS_tac) rfl (fun _ h => h) (fun _ h => h) rfl rfl rfl rfl rfl ?_
      intro u hut hu; show upd s.token t false u = true; simp only [upd_apply, if_neg hut]; exact hu
    · cases h
  case pHead x => cases h; cold3 ha h3 hq
  case pLoad x => cases h; unfold stepPLoad; repeat' split
                  all_goals cold3 ha h3 hq
  case pCas x => cases h; unfold stepPCas; split <;> cold3 ha h3 hq
  case pSpin x => cases h; cold3 ha h3 hq
  case cFlag d => cases h; unfold stepCFlag; split <;> cold3 ha h3 hq
  case wSeqLd x h0 j k =>
    cases h
    exact invW3_S_mono ha h3 hq rfl (fun _ h => h) (fun _ h => h) (fun _ h => h) rfl rfl rfl rfl rfl rfl
  case wVal x h0 j k q =>
    cases h
    exact invW3_S_mono ha h3 hq rfl (fun _ h => h) (fun _ h => h) (fun _ h => h) rfl rfl rfl rfl rfl rfl
  case wHeadSt x h0 k =>
    cases h
    refine invW3_S_mono ha h3 hq rfl (fun _ h => h) ?_ (fun _ h => h) rfl rfl rfl rfl rfl rfl
    intro c hd; simp only [willDrain] at hd ⊢; omega
  case wSeqSt x h0 j k =>
    cases h
    have hf := hs.sf t _ hq
    simp only [sFact] at hf
    obtain ⟨f1, f2, f3, _⟩ := hf
    have hN : s.sent.length = h0 + j := f2
    unfold stepWSeqSt
    -- both continuations owe the drain of every index of the batch
    have key : ∀ (q' : SPC) (s1 : State), (∀ c, h0 ≤ c ∧ c < h0 + k → willDrain q' c) →
        s1.pc = upd s.pc t (.snd q') → s1.sent = s.sent ++ [x.items.getD j 0] → s1.cur = s.cur → s1.wk = s.wk →
        s1.token = s.token → s1.cap = s.cap → s1.pdropped = s.pdropped → InvW3 s1 := by
      intro q' s1 hdq e1 e2 e3 e4 e5 e6 e7
      refine invW3_S h3 hq e1 (okS_snd _) ?_
      intro u r qu hut hu h
      have hme : s1.pc t = .snd q' := by rw [e1]; simp
      obtain ⟨h1, h2, h3'⟩ := h
      have howed : OwedL s u → OwedL s1 u := by
        rintro (a | ⟨p, q0, hp0, hm⟩)
        · exact Or.inl (by rw [e5]; exact a)
        · obtain ⟨rfl, rfl⟩ := snd_unique ha hq hp0; cases hm
      refine ⟨?_, ?_, ?_⟩
      · intro n hn; rw [e3, e4, e6]; rcases h1 n hn with a | a
        · exact Or.inl a
        · exact Or.inr (howed a)
      · intro n hn h1n hlt
        rw [e3, e4, e6] at *
        rw [e2] at hlt
        simp only [List.length_append, List.length_singleton] at hlt
        by_cases hold : s.cur r < s.sent.length
        · rcases h2 n hn h1n hold with a | ⟨a, p, q0, hp0, hd⟩
          · exact Or.inl (howed a)
          · obtain ⟨rfl, rfl⟩ := snd_unique ha hq hp0
            simp only [willDrain] at hd
            exact Or.inr ⟨a, p, q', hme, hdq _ hd⟩
        · have hc : s.cur r = h0 + j := by omega
          rcases h1 n hn with a | a
          · exact Or.inr ⟨a, t, q', hme, hdq _ (by omega)⟩
          · exact Or.inl (howed a)
      · intro hn hp
        rw [e3, e4, e6] at *; rw [e7] at hp
        rcases h3' hn hp with a | ⟨a, p, q0, hp0, hd⟩
        · exact Or.inl (howed a)
        · obtain ⟨rfl, rfl⟩ := snd_unique ha hq hp0; cases hd
    split
    · exact key _ _ (fun c hc => by simp only [willDrain]; exact hc) rfl rfl rfl rfl rfl rfl rfl
    · exact key _ _ (fun c hc => by simp only [willDrain]; exact hc) rfl rfl rfl rfl rfl rfl rfl
  case wLockW x h0 j k acc =>
    unfold stepWLockW at h
    split at h
    · cases h
      refine invW3_S h3 hq rfl (okS_snd _) ?_
      intro u r qu hut hu hh
      have hme : (upd s.pc t (.snd (.wUnlockW x h0 j k (acc ++ s.wk ((h0 + j) % s.cap))))) t = .snd (.wUnlockW x h0 j k (acc ++ s.wk ((h0 + j) % s.cap))) := by simp
      have howed : OwedL s u → OwedL ({ s.goS t (.snd (.wUnlockW x h0 j k (acc ++ s.wk ((h0 + j) % s.cap)))) with wkLock := upd s.wkLock ((h0 + j) % s.cap) (some t), wk := upd s.wk ((h0 + j) % s.cap) [] } : State) u := by
        rintro (a | ⟨p, q0, hp0, hm⟩)
        · exact Or.inl a
        · obtain ⟨rfl, rfl⟩ := snd_unique ha hq hp0
          exact Or.inr ⟨p, _, hme, by simp only [accOf] at hm ⊢; exact List.mem_append_left _ hm⟩
      refine W3thread_keep hh rfl rfl rfl rfl ?_ howed ?_ ?_
      · intro j0 a
        by_cases e : j0 = (h0 + j) % s.cap
        · subst e; right
          exact Or.inr ⟨t, _, hme, by simp only [accOf]; exact List.mem_append_right _ a⟩
        · left; show u ∈ upd s.wk ((h0 + j) % s.cap) [] j0; simp only [upd_apply, if_neg e]; exact a
      · rintro c hmem ⟨p, q0, hp0, hd⟩
        obtain ⟨rfl, rfl⟩ := snd_unique ha hq hp0
        simp only [willDrain] at hd
        by_cases e : c = h0 + j
        · subst e
          have : u ∈ upd s.wk ((h0 + j) % s.cap) [] ((h0 + j) % s.cap) := hmem
          simp at this
        · left; exact ⟨p, _, hme, by simp only [willDrain]; omega⟩
      · rintro j0 _ ⟨p, q0, hp0, hd⟩
        obtain ⟨rfl, rfl⟩ := snd_unique ha hq hp0; cases hd
    · cases h
  case wUnlockW x h0 j k acc =>
    cases h
    unfold stepWUnlockW
    split
    · refine invW3_S_mono ha h3 hq rfl (fun _ h => h) ?_ (fun _ h => h) rfl rfl rfl rfl rfl rfl
      intro c hd; simp only [willDrain] at hd ⊢; omega
    · rename_i hlast
      refine invW3_S h3 hq rfl (by okS_tac) ?_
      intro u r qu hut hu hh
      have howed : OwedL s u → OwedL ({ s.goS t (wakeOr x k acc) with wkLock := upd s.wkLock ((h0 + j) % s.cap) none } : State) u := by
        rintro (a | ⟨p, q0, hp0, hm⟩)
        · exact Or.inl a
        · obtain ⟨rfl, rfl⟩ := snd_unique ha hq hp0
          simp only [accOf] at hm
          cases acc with
          | nil => cases hm
          | cons w rest => exact Or.inr ⟨p, .wWake x k (w :: rest), by show upd s.pc p (wakeOr x k (w :: rest)) p = _; simp [wakeOr], hm⟩
      refine W3thread_keep hh rfl rfl rfl rfl (fun _ a => Or.inl a) howed ?_ ?_
      · rintro c _ ⟨p, q0, hp0, hd⟩
        obtain ⟨rfl, rfl⟩ := snd_unique ha hq hp0
        simp only [willDrain] at hd; omega
      · rintro j0 _ ⟨p, q0, hp0, hd⟩
        obtain ⟨rfl, rfl⟩ := snd_unique ha hq hp0; cases hd
  case wWake x k acc =>
    unfold stepWWake at h
    split at h
    · cases h
    · rename_i w rest
      cases h
      refine invW3_S h3 hq rfl (by okS_tac) ?_
      intro u r qu hut hu hh
      have howed : OwedL s u → OwedL ({ s.goS t (wakeOr x k rest) with token := upd s.token w true } : State) u := by
        rintro (a | ⟨p, q0, hp0, hm⟩)
        · left; show upd s.token w true u = true; simp only [upd_apply]; split <;> simp [a]
        · obtain ⟨rfl, rfl⟩ := snd_unique ha hq hp0
          simp only [accOf, List.mem_cons] at hm
          rcases hm with rfl | hm
          · left; show upd s.token u true u = true; simp
          · cases rest with
            | nil => cases hm
            | cons w2 rest2 => exact Or.inr ⟨p, .wWake x k (w2 :: rest2), by show upd s.pc p (wakeOr x k (w2 :: rest2)) p = _; simp [wakeOr], hm⟩
      refine W3thread_keep hh rfl rfl rfl rfl (fun _ a => Or.inl a) howed ?_ ?_
      · rintro c _ ⟨p, q0, hp0, hd⟩
        obtain ⟨rfl, rfl⟩ := snd_unique ha hq hp0; cases hd
      · rintro j0 _ ⟨p, q0, hp0, hd⟩
        obtain ⟨rfl, rfl⟩ := snd_unique ha hq hp0; cases hd
  case cStore =>
    cases h
    refine invW3_S h3 hq rfl (okS_snd _) ?_
    intro u r qu hut hu hh
    have hme : (upd s.pc t (.snd (.cLock 0))) t = .snd (.cLock 0) := by simp
    obtain ⟨h1, h2, h3'⟩ := hh
    have howed : OwedL s u → OwedL ({ s.goS t (.snd (.cLock 0)) with pdropped := true } : State) u := by
      rintro (a | ⟨p, q0, hp0, hm⟩)
      · exact Or.inl a
      · obtain ⟨rfl, rfl⟩ := snd_unique ha hq hp0; cases hm
    refine ⟨?_, ?_, ?_⟩
    · intro n hn; rcases h1 n hn with a | a
      · exact Or.inl a
      · exact Or.inr (howed a)
    · intro n hn h1n hlt
      rcases h2 n hn h1n hlt with a | ⟨a, p, q0, hp0, hd⟩
      · exact Or.inl (howed a)
      · obtain ⟨rfl, rfl⟩ := snd_unique ha hq hp0; cases hd
    · intro hn _
      rcases h1 2 hn with a | a
      · exact Or.inr ⟨a, t, _, hme, by simp only [willDrainC]; exact Nat.zero_le _⟩
      · exact Or.inl (howed a)
  case cLock j =>
    unfold stepCLock at h
    split at h
    · have key : ∀ (q' : SPC) (s1 : State), s1.pc = upd s.pc t (.snd q') → s1.wk = upd s.wk j [] → s1.token = s.token →
          s1.cur = s.cur → s1.cap = s.cap → s1.sent = s.sent → s1.pdropped = s.pdropped →
          (∀ x, x ∈ s.wk j → x ∈ accOf q') → (∀ j', j < j' → willDrainC q' j') → InvW3 s1 := by
        intro q' s1 e1 e2 e3 e4 e5 e6 e7 hacc hdc
        refine invW3_S h3 hq e1 (okS_snd _) ?_
        intro u r qu hut hu hh
        have hme : s1.pc t = .snd q' := by rw [e1]; simp
        have howed : OwedL s u → OwedL s1 u := by
          rintro (a | ⟨p, q0, hp0, hm⟩)
          · exact Or.inl (by rw [e3]; exact a)
          · obtain ⟨rfl, rfl⟩ := snd_unique ha hq hp0; cases hm
        refine W3thread_keep hh e5 (by rw [e4]) e6 e7 ?_ howed ?_ ?_
        · intro j0 a
          by_cases e : j0 = j
          · subst e; right; exact Or.inr ⟨t, q', hme, hacc _ a⟩
          · left; rw [e2]; simp only [upd_apply, if_neg e]; exact a
        · rintro c _ ⟨p, q0, hp0, hd⟩
          obtain ⟨rfl, rfl⟩ := snd_unique ha hq hp0; cases hd
        · rintro j0 hmem ⟨p, q0, hp0, hd⟩
          obtain ⟨rfl, rfl⟩ := snd_unique ha hq hp0
          simp only [willDrainC] at hd
          by_cases e : j0 = j
          · subst e; rw [e2] at hmem; simp at hmem
          · left; exact ⟨p, q', hme, hdc j0 (by omega)⟩
      cases hwkj : s.wk j with
      | nil =>
        rw [hwkj] at h; cases h
        exact key (.cUnlock j) _ rfl rfl rfl rfl rfl rfl rfl (fun x hx => by rw [hwkj] at hx; cases hx)
          (fun j' hj => by simp only [willDrainC]; exact hj)
      | cons w rest =>
        rw [hwkj] at h; cases h
        exact key (.cWake j (w :: rest)) _ rfl rfl rfl rfl rfl rfl rfl (fun x hx => by rw [hwkj] at hx; simp only [accOf]; exact hx)
          (fun j' hj => by simp only [willDrainC]; exact hj)
    · cases h
  case cWake j ws =>
    unfold stepCWake at h
    cases ws with
    | nil => cases h
    | cons w rest =>
      have key : ∀ (q' : SPC) (s1 : State), s1.pc = upd s.pc t (.snd q') → s1.wk = s.wk → s1.token = upd s.token w true →
          s1.cur = s.cur → s1.cap = s.cap → s1.sent = s.sent → s1.pdropped = s.pdropped →
          (∀ x, x ∈ rest → x ∈ accOf q') → (∀ j', j < j' → willDrainC q' j') → InvW3 s1 := by
        intro q' s1 e1 e2 e3 e4 e5 e6 e7 hacc hdc
        refine invW3_S h3 hq e1 (okS_snd _) ?_
        intro u r qu hut hu hh
        have hme : s1.pc t = .snd q' := by rw [e1]; simp
        have howed : OwedL s u → OwedL s1 u := by
          rintro (a | ⟨p, q0, hp0, hm⟩)
          · left; rw [e3]; simp only [upd_apply]; split <;> simp [a]
          · obtain ⟨rfl, rfl⟩ := snd_unique ha hq hp0
            simp only [accOf, List.mem_cons] at hm
            rcases hm with rfl | hm
            · left; rw [e3]; simp
            · exact Or.inr ⟨p, q', hme, hacc _ hm⟩
        refine W3thread_keep hh e5 (by rw [e4]) e6 e7 (fun _ a => Or.inl (by rw [e2]; exact a)) howed ?_ ?_
        · rintro c _ ⟨p, q0, hp0, hd⟩
          obtain ⟨rfl, rfl⟩ := snd_unique ha hq hp0; cases hd
        · rintro j0 _ ⟨p, q0, hp0, hd⟩
          obtain ⟨rfl, rfl⟩ := snd_unique ha hq hp0
          simp only [willDrainC] at hd
          exact Or.inl ⟨p, q', hme, hdc j0 hd⟩
      cases rest with
      | nil =>
        cases h
        exact key (.cUnlock j) _ rfl rfl rfl rfl rfl rfl rfl (fun x hx => by cases hx)
          (fun j' hj => by simp only [willDrainC]; exact hj)
      | cons w2 rest2 =>
        cases h
        exact key (.cWake j (w2 :: rest2)) _ rfl rfl rfl rfl rfl rfl rfl (fun x hx => by simp only [accOf]; exact hx)
          (fun j' hj => by simp only [willDrainC]; exact hj)
  case cUnlock j =>
    cases h
    unfold stepCUnlock
    split
    · refine invW3_S_mono ha h3 hq rfl (fun _ h => h) (fun _ h => h) ?_ rfl rfl rfl rfl rfl rfl
      intro j' hd; simp only [willDrainC] at hd ⊢; omega
    · rename_i hlast
      refine invW3_S h3 hq rfl (by okS_tac) ?_
      intro u r qu hut hu hh
      have hcp : 0 < s.cap := hs.g.cap_pos
      have howed : OwedL s u → OwedL ({ s.goS t (.ret .unit) with wkLock := upd s.wkLock j none } : State) u := by
        rintro (a | ⟨p, q0, hp0, hm⟩)
        · exact Or.inl a
        · obtain ⟨rfl, rfl⟩ := snd_unique ha hq hp0; cases hm
      -- the last slot has been drained: nobody can still rely on the closing thread
      obtain ⟨h1, h2, h3'⟩ := hh
      refine ⟨?_, ?_, ?_⟩
      · intro n hn; rcases h1 n hn with a | a
        · exact Or.inl a
        · exact Or.inr (howed a)
      · intro n hn h1n hlt
        rcases h2 n hn h1n hlt with a | ⟨a, p, q0, hp0, hd⟩
        · exact Or.inl (howed a)
        · obtain ⟨rfl, rfl⟩ := snd_unique ha hq hp0; cases hd
      · intro hn hp
        rcases h3' hn hp with a | ⟨a, p, q0, hp0, hd⟩
        · exact Or.inl (howed a)
        · obtain ⟨rfl, rfl⟩ := snd_unique ha hq hp0
          simp only [willDrainC] at hd
          have := Nat.mod_lt (s.cur r) hcp
          omega

end Fv.Chan.SpmcB
