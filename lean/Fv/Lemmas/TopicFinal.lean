import Fv.Lemmas.TopicDisc3
/-! Once every sender handle is gone (and none is cloned) an empty mailbox stays empty. -/
namespace Fv.Chan.Topic

theorem closed_of_gone (s : St) (h : Nat) (x : Tx) (hg : sendersGone s = true) (hx : txLive s h = some x) :
    x.closed = true := by
  obtain ⟨h1, h2⟩ := txLive_some s h x hx
  rw [sendersGone_eq, List.all_eq_true] at hg
  have := hg x (List.mem_of_getElem? h1)
  simpa [gonePred, h2] using this

theorem FI_step (s : St) (op : Op) (r : Nat) (hop : ∀ h, op ≠ .sClone h) (hg : sendersGone s = true)
    (hb : bufOf s r = []) :
    sendersGone (step s op).1 = true ∧ bufOf (step s op).1 r = [] ∧
      (recvTarget op = some r → ∀ t v, (step s op).2 ≠ .msg t v) := by
  refine ⟨sendersGone_step s op hop hg, ?_, ?_⟩
  · cases hq : op.isQuiet with
    | true => rw [quiet_buf s op hq r]; exact hb
    | false =>
      have recvCase : ∀ q, recvTarget op = some q → bufOf (step s op).1 r = [] := by
        intro q hq'
        rcases recv_forms_buf s op q hq' with ⟨t, v, _, h2, h3⟩ | ⟨_, h2⟩
        · by_cases hqr : r = q
          · subst hqr; rw [hb] at h2; cases h2
          · rw [h3 r hqr]; exact hb
        · rw [h2]; exact hb
      cases op with
      | send h t v =>
        simp only [step]
        rcases send_cases s h t v with ⟨x, hx, hc, _, _⟩ | ⟨h1, _⟩
        · rw [closed_of_gone s h x hg hx] at hc; cases hc
        · rw [h1]; exact hb
      | tryRecv q => exact recvCase q rfl
      | recv q => exact recvCase q rfl
      | recvTimeout0 q => exact recvCase q rfl
      | pollNext q => exact recvCase q rfl
      | _ => simp [Op.isQuiet] at hq
  · intro ht t v hres
    rcases recv_forms_buf s op r ht with ⟨t', v', _, h2, _⟩ | ⟨h1, _⟩
    · rw [hb] at h2; cases h2
    · exact h1 t v hres

end Fv.Chan.Topic
