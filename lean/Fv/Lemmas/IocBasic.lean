import Fv.Lemmas.IocSpec
/-!
# C18 helper lemmas: the registry as a finite map, and the frame of one resolution

`World.Ext w w'` is everything a resolution (finished, panicked or out of fuel) can have done:
the set of slots is the same, every provider has only *evolved* (an empty singleton cell may have
been filled by one more factory run, a transient counter may have grown), the id counter did not
go back and the thread-local resolving set is restored.
-/
namespace Fv.Ioc

/-! ### `Reg` is a finite map -/

def Reg.slots (r : Reg) : List Slot := r.map (·.1)

theorem Reg.get_set_same (r : Reg) (s : Slot) (p : Provider) : (r.set s p).get s = some p := by
  induction r with
  | nil => simp [Reg.set, Reg.get]
  | cons e r ih =>
    obtain ⟨s', p'⟩ := e
    by_cases h : s' = s
    · simp [Reg.set, Reg.get, h]
    · simp [Reg.set, Reg.get, h, ih]

theorem Reg.get_set_other (r : Reg) {s s' : Slot} (p : Provider) (h : s ≠ s') :
    (r.set s' p).get s = r.get s := by
  induction r with
  | nil => simp [Reg.set, Reg.get, Ne.symm h]
  | cons e r ih =>
    obtain ⟨s'', p''⟩ := e
    by_cases h1 : s'' = s'
    · subst h1; simp [Reg.set, Reg.get, Ne.symm h]
    · by_cases h2 : s'' = s
      · subst h2; simp [Reg.set, Reg.get, h1]
      · simp [Reg.set, Reg.get, h1, h2, ih]

theorem Reg.get_eq_none_iff (r : Reg) (s : Slot) : r.get s = none ↔ s ∉ r.slots := by
  induction r with
  | nil => simp [Reg.get, Reg.slots]
  | cons e r ih =>
    obtain ⟨s', p'⟩ := e
    by_cases h : s' = s
    · simp [Reg.get, Reg.slots, h]
    · have h' : ¬ s = s' := fun e => h e.symm
      simp only [Reg.get, h, if_false, ih, Reg.slots, List.map_cons, List.mem_cons, h', false_or]

theorem Reg.slots_set_of_mem (r : Reg) (s : Slot) (p : Provider) (h : r.get s ≠ none) :
    (r.set s p).slots = r.slots := by
  induction r with
  | nil => simp [Reg.get] at h
  | cons e r ih =>
    obtain ⟨s', p'⟩ := e
    by_cases h1 : s' = s
    · simp [Reg.set, Reg.slots, h1]
    · have : Reg.get r s ≠ none := by simpa [Reg.get, h1] using h
      have ih' := ih this
      simp only [Reg.slots] at ih'
      simp [Reg.set, Reg.slots, h1, ih']

theorem Reg.keys_eq_of_slots_eq {r r' : Reg} (h : r'.slots = r.slots) : r'.keys = r.keys := by
  have : ∀ q : Reg, q.keys = q.slots.map (·.k) := by
    intro q; simp [Reg.keys, Reg.slots, List.map_map, Function.comp_def]
  rw [this, this, h]

theorem Reg.length_eq_of_slots_eq {r r' : Reg} (h : r'.slots = r.slots) : r'.length = r.length := by
  have := congrArg List.length h
  simpa [Reg.slots] using this

theorem Reg.key_mem_of_get {r : Reg} {s : Slot} {p : Provider} (h : r.get s = some p) : s.k ∈ r.keys := by
  have : s ∈ r.slots := by
    apply Classical.byContradiction
    intro hn
    have := (Reg.get_eq_none_iff r s).2 hn
    simp [this] at h
  simp only [Reg.slots, List.mem_map] at this
  obtain ⟨e, he, hs⟩ := this
  simp only [Reg.keys, List.mem_map]
  exact ⟨e, he, by rw [hs]⟩

/-! ### How a provider can change during resolutions -/

def Provider.Evolves : Provider → Provider → Prop
  | .inst a, p' => p' = .inst a
  | .singleton sc (some id) r, p' => p' = .singleton sc (some id) r
  | .singleton sc none r, p' => p' = .singleton sc none r ∨ ∃ id, p' = .singleton sc (some id) (r + 1)
  | .transient sc r, p' => ∃ r', r ≤ r' ∧ p' = .transient sc r'

theorem Provider.Evolves.refl (p : Provider) : p.Evolves p := by
  cases p with
  | inst a => rfl
  | singleton sc cell r => cases cell <;> simp [Provider.Evolves]
  | transient sc r => exact ⟨r, Nat.le_refl _, rfl⟩

theorem Provider.Evolves.trans {p q t : Provider} (h1 : p.Evolves q) (h2 : q.Evolves t) : p.Evolves t := by
  cases p with
  | inst a => simp only [Provider.Evolves] at h1; subst h1; exact h2
  | singleton sc cell r =>
    cases cell with
    | some id => simp only [Provider.Evolves] at h1; subst h1; exact h2
    | none =>
      simp only [Provider.Evolves] at h1
      rcases h1 with h1 | ⟨id, h1⟩
      · subst h1; exact h2
      · subst h1
        simp only [Provider.Evolves] at h2
        subst h2
        exact Or.inr ⟨id, rfl⟩
  | transient sc r =>
    obtain ⟨r', hr, h1⟩ := h1
    subst h1
    obtain ⟨r'', hr', h2⟩ := h2
    exact ⟨r'', Nat.le_trans hr hr', h2⟩

structure World.Ext (w w' : World) : Prop where
  slots : w'.regs.slots = w.regs.slots
  evolves : ∀ s p, w.regs.get s = some p → ∃ p', w'.regs.get s = some p' ∧ p.Evolves p'
  next_le : w.next ≤ w'.next
  resolving : w'.resolving = w.resolving

theorem World.Ext.refl (w : World) : w.Ext w :=
  ⟨rfl, fun _ p h => ⟨p, h, Provider.Evolves.refl p⟩, Nat.le_refl _, rfl⟩

theorem World.Ext.trans {a b c : World} (h1 : a.Ext b) (h2 : b.Ext c) : a.Ext c := by
  refine ⟨h2.slots.trans h1.slots, ?_, Nat.le_trans h1.next_le h2.next_le, h2.resolving.trans h1.resolving⟩
  intro s p hp
  obtain ⟨p', hp', e1⟩ := h1.evolves s p hp
  obtain ⟨p'', hp'', e2⟩ := h2.evolves s p' hp'
  exact ⟨p'', hp'', e1.trans e2⟩

theorem World.Ext.get_none {w w' : World} (h : w.Ext w') {s : Slot} (hs : w.regs.get s = none) :
    w'.regs.get s = none := by
  rw [Reg.get_eq_none_iff] at hs ⊢
  rw [h.slots]; exact hs

/-- a frame that differs only in the resolving set -/
theorem World.Ext.of_regs_next {w w' : World} (hr : w'.regs = w.regs) (hn : w'.next = w.next)
    (hs : w'.resolving = w.resolving) : w.Ext w' :=
  ⟨by rw [hr], fun s p h => ⟨p, by rw [hr]; exact h, Provider.Evolves.refl p⟩, by rw [hn]; exact Nat.le_refl _, hs⟩

theorem pop_push (w : World) (k : Key) : (w.push k).pop k = w := by
  cases w
  simp [World.push, World.pop]

/-! ### The frame of `runScript` and `resolveF` -/

theorem runScript_ext (res : World → Nat → Key → World × Outcome)
    (hres : ∀ (w : World) c k, w.Ext (res w c k).1) : ∀ (ds : List Dep) (w : World), w.Ext (runScript res w ds).1 := by
  intro ds
  induction ds with
  | nil => intro w; exact World.Ext.refl w
  | cons d ds ih =>
    intro w
    have h1 := hres w d.c d.k
    simp only [runScript]
    generalize res w d.c d.k = r at h1
    obtain ⟨w', o⟩ := r
    cases o with
    | some id => exact h1.trans (ih w')
    | none =>
      by_cases hq : d.req
      · simpa [hq] using h1
      · simpa [hq] using h1.trans (ih w')
    | panic p => exact h1
    | diverge => exact h1

/-- the world after a completed factory run, seen from the world before the guard was pushed -/
theorem made_ext {w w2 : World} {k : Key} {c : Nat} {p : Provider} (q : Nat → Provider)
    (hget : w.regs.get ⟨c, k⟩ = some p)
    (h12 : (w.push k).Ext w2) (hq : ∀ id, p.Evolves (q id)) :
    w.Ext ((w2.made ⟨c, k⟩ q).1.pop k) := by
  have hget1 : (w.push k).regs.get ⟨c, k⟩ = some p := hget
  obtain ⟨p2, hp2, _⟩ := h12.evolves _ _ hget1
  have hne : w2.regs.get ⟨c, k⟩ ≠ none := by rw [hp2]; simp
  refine ⟨?_, ?_, ?_, ?_⟩
  · simp only [World.made, World.pop]
    rw [Reg.slots_set_of_mem _ _ _ hne]
    exact h12.slots
  · intro s p0 hp0
    by_cases hs : s = ⟨c, k⟩
    · subst hs
      rw [hget] at hp0
      cases hp0
      exact ⟨q w2.next, by simp [World.made, World.pop, Reg.get_set_same], hq _⟩
    · obtain ⟨p', hp', e⟩ := h12.evolves s p0 hp0
      exact ⟨p', by simp only [World.made, World.pop]; rw [Reg.get_set_other _ _ hs]; exact hp', e⟩
  · have := h12.next_le
    simp only [World.made, World.pop, World.push] at this ⊢
    omega
  · have := h12.resolving
    simp only [World.made, World.pop, World.push] at this ⊢
    rw [this]; simp

theorem abort_ext {w w2 : World} {k : Key} (h12 : (w.push k).Ext w2) : w.Ext (w2.pop k) := by
  refine ⟨h12.slots, h12.evolves, h12.next_le, ?_⟩
  have := h12.resolving
  simp only [World.pop, World.push] at this ⊢
  rw [this]; simp

theorem resolveF_ext : ∀ (fuel : Nat) (w : World) (c : Nat) (k : Key), w.Ext (resolveF fuel w c k).1 := by
  intro fuel
  induction fuel with
  | zero => intro w c k; exact World.Ext.refl w
  | succ fuel ih =>
    intro w c k
    simp only [resolveF]
    by_cases hk : k ∈ w.resolving
    · simp only [hk, if_true]; exact World.Ext.refl w
    · simp only [hk, if_false]
      have hpp : w.Ext ((w.push k).pop k) := by rw [pop_push]; exact World.Ext.refl w
      cases hget : (w.push k).regs.get ⟨c, k⟩ with
      | none => exact hpp
      | some p =>
        cases p with
        | inst id => exact hpp
        | singleton sc cell runs =>
          cases cell with
          | some id => exact hpp
          | none =>
            simp only
            have h12 := runScript_ext (resolveF fuel) (ih) sc (w.push k)
            generalize runScript (resolveF fuel) (w.push k) sc = r at h12
            obtain ⟨w2, a⟩ := r
            cases a with
            | some a => exact abort_ext h12
            | none =>
              exact made_ext (fun id => .singleton sc (some id) (runs + 1)) hget h12
                (fun id => Or.inr ⟨id, rfl⟩)
        | transient sc runs =>
          simp only
          have h12 := runScript_ext (resolveF fuel) (ih) sc (w.push k)
          generalize runScript (resolveF fuel) (w.push k) sc = r at h12
          obtain ⟨w2, a⟩ := r
          cases a with
          | some a => exact abort_ext h12
          | none =>
            exact made_ext (fun _ => .transient sc (runs + 1)) hget h12
              (fun _ => ⟨runs + 1, Nat.le_succ _, rfl⟩)

theorem resolve_ext (w : World) (c : Nat) (k : Key) : w.Ext (resolve w c k).1 := resolveF_ext _ w c k

end Fv.Ioc
