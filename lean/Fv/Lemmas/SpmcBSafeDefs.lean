import Fv.Lemmas.SpmcBLR
/-!
Safety invariant of `Fv.Chan.SpmcB`: definitions.

`Core` is the part of the state the safety facts talk about (everything except control states,
owners, park tokens, waker lists, the park flag and the left-right reader counts), so that a step
which only moves a control state leaves `s.core` unchanged *by `rfl`*.

* `GFact c`   — global facts (B1 through the ghost credit `lim`, B2 slot contents, B3 per cell,
                registration of every open receiver in both copies of the cursor list, …)
* `sFact c q` — what the thread inside a sender operation at control state `q` knows
* `rFact c t r q` — what thread `t` inside an operation on the receiver with cell `r` knows
-/
namespace Fv.Chan.SpmcB
open Fv.Chan.LeftRightB (upd upd_apply upd_same)

structure Core where
  cap : Nat
  head : Nat
  nextCell : Nat
  lim : Nat
  dirty : Bool
  pdropped : Bool
  sclosed : Bool
  seq : Nat → Nat
  val : Nat → Nat
  cur : Nat → Nat
  c0 : Nat → Nat
  sent : List Nat
  got : Nat → List Nat
  rclosed : Nat → Bool
  rAlive : Nat → Bool
  resv : Nat → Option Nat
  data : Nat → List Nat
  live : Nat

def State.core (s : State) : Core :=
  { cap := s.cap, head := s.head, nextCell := s.nextCell, lim := s.lim, dirty := s.dirty,
    pdropped := s.pdropped, sclosed := s.sclosed, seq := s.seq, val := s.val, cur := s.cur, c0 := s.c0,
    sent := s.sent, got := s.got, rclosed := s.rclosed, rAlive := s.rAlive, resv := s.resv,
    data := s.lr.data, live := s.lr.live }

/-- the published cursor list -/
def Core.pub (c : Core) : List Nat := c.data c.live

structure GFact (c : Core) : Prop where
  cap_pos : 0 < c.cap
  lim_pub : ∀ r, r ∈ c.pub → c.lim ≤ c.cur r + c.cap
  n_le_lim : c.sent.length ≤ c.lim
  head_le : c.head ≤ c.sent.length
  dirty_lim : c.dirty = true → c.sent.length < c.lim
  cur_le : ∀ r, c.cur r ≤ c.sent.length
  b2s : ∀ i, i < c.sent.length → c.sent.length ≤ i + c.cap → c.seq (i % c.cap) = 2 * i + 1
  b2v : ∀ i, i < c.sent.length → c.sent.length ≤ i + c.cap → (c.sent.length = i + c.cap → c.dirty = false) →
          c.val (i % c.cap) = c.sent.getD i 0
  b2e : ∀ j, j < c.cap → c.sent.length ≤ j → c.seq j = 2 * j
  b2r : ∀ j i, j < c.cap → c.seq j = 2 * i + 1 → i < c.sent.length ∧ c.sent.length ≤ i + c.cap ∧ i % c.cap = j
  got_ok : ∀ r, c.c0 r ≤ c.cur r ∧ c.got r = (c.sent.drop (c.c0 r)).take (c.cur r - c.c0 r)
  cells : ∀ i r, r ∈ c.data i → r < c.nextCell
  alive_lt : ∀ r, c.rAlive r = true → r < c.nextCell
  resv_lt : ∀ n t, c.resv n = some t → n < c.nextCell ∧ c.rAlive n = false
  regd : ∀ r, r < c.nextCell → c.rclosed r = false → c.resv r = none → r ∈ c.data 0 ∧ r ∈ c.data 1
  pd_closed : c.pdropped = true → c.sclosed = true

/-- the head value a scan carries is the current one (head-first scans) -/
def hOK (k : ScanK) (h head : Nat) : Prop :=
  match k with
  | .trySend _ => h = head
  | .space _ => h = head
  | _ => True

/-- … at the guard drop every non-probe scan has the current head -/
def hOK2 (k : ScanK) (h head : Nat) : Prop :=
  match k with
  | .probe _ => True
  | _ => h = head

/-- control states of `enter()` before the guard exists -/
def isRd : LPC → Bool
  | .rLoad => true
  | .rInc _ => true
  | .rChk _ => true
  | .rBack _ => true
  | _ => false

/-- control states of `modify()` -/
def isWr : LPC → Bool
  | .wLock _ => true
  | .wLoad _ => true
  | .wMut1 _ _ => true
  | .wPub _ _ => true
  | .wWait _ _ => true
  | .wSpin _ _ => true
  | .wMut2 _ _ => true
  | .wUnlock => true
  | _ => false

/-- scans made on behalf of a send (not of a probe) -/
def sendK : ScanK → Bool
  | .probe _ => false
  | _ => true

/-- no write in progress -/
def idleLike (c : Core) : Prop := c.head = c.sent.length ∧ c.dirty = false

def sFact (c : Core) : SPC → Prop
  | .sFlag _ => idleLike c
  | .sHead k => idleLike c ∧ (sendK k = true → c.sclosed = false)
  | .sEnter k h p => idleLike c ∧ (sendK k = true → c.sclosed = false) ∧ hOK k h c.head ∧ isRd p = true
  | .sScan k h _ done _ m => idleLike c ∧ (sendK k = true → c.sclosed = false) ∧ hOK k h c.head ∧
        (∀ r, r ∈ done → r < c.nextCell) ∧
        (∀ v, m = some v → (∀ r, r ∈ done → v ≤ c.cur r) ∧ v ≤ c.sent.length) ∧ (m = none → done = [])
  | .sHead2 k _ _ m => idleLike c ∧ (sendK k = true → c.sclosed = false) ∧ m + c.cap ≤ c.lim ∧ m ≤ c.sent.length
  | .sExit k h _ _ m => idleLike c ∧ (sendK k = true → c.sclosed = false) ∧
        (∀ v, m = some v → hOK2 k h c.head ∧ v + c.cap ≤ c.lim ∧ v ≤ c.sent.length)
  | .bHead _ k => idleLike c ∧ c.sclosed = false ∧ 0 < k ∧ c.head + k ≤ c.lim
  | .wSeqLd _ h j k => c.head = h ∧ c.sent.length = h + j ∧ j < k ∧ h + k ≤ c.lim ∧ c.dirty = false ∧ c.sclosed = false
  | .wVal _ h j k q => c.head = h ∧ c.sent.length = h + j ∧ j < k ∧ h + k ≤ c.lim ∧ c.dirty = false ∧
        q = c.seq ((h + j) % c.cap) ∧ c.sclosed = false
  | .wSeqSt x h j k => c.head = h ∧ c.sent.length = h + j ∧ j < k ∧ h + k ≤ c.lim ∧ c.dirty = true ∧
        c.val ((h + j) % c.cap) = x.items.getD j 0 ∧ c.sclosed = false
  | .wHeadSt _ h k => c.head = h ∧ c.sent.length = h + k ∧ c.dirty = false ∧ c.sclosed = false
  | .cFlag _ => idleLike c
  | .cStore => idleLike c ∧ c.sclosed = true
  | .cLock _ => idleLike c
  | .cWake _ _ => idleLike c
  | .cUnlock _ => idleLike c
  | _ => idleLike c ∧ c.sclosed = false

/-- the handle is open, its cell exists and is not a half-made clone -/
def rBase (c : Core) (r : Nat) : Prop := r < c.nextCell ∧ c.resv r = none ∧ c.rclosed r = false

def cloneFact (c : Core) (t r n : Nat) : Prop :=
  n ≠ r ∧ c.resv n = some t ∧ c.cur n = c.cur r ∧ c.c0 n = c.cur r ∧ c.got n = [] ∧ c.rclosed n = false

def opOf : LPC → Option LOp
  | .wLock o => some o
  | .wLoad o => some o
  | .wMut1 o _ => some o
  | .wPub o _ => some o
  | .wWait o _ => some o
  | .wSpin o _ => some o
  | .wMut2 o _ => some o
  | _ => none

/-- where the pushed cell already is, by stage of `modify` -/
def pushedAt (c : Core) (n : Nat) : LPC → Prop
  | .wPub _ l => n ∈ c.data (1 - l)
  | .wWait _ l => n ∈ c.data (1 - l)
  | .wSpin _ l => n ∈ c.data (1 - l)
  | .wMut2 _ l => n ∈ c.data (1 - l)
  | .wUnlock => n ∈ c.data 0 ∧ n ∈ c.data 1
  | _ => True

def rFact (c : Core) (t r : Nat) : RPC → Prop
  | .rCur _ => rBase c r
  | .rSeq _ k => rBase c r ∧ k = c.cur r
  | .rVal _ k => rBase c r ∧ k = c.cur r ∧ k < c.sent.length
  | .rSt _ k vs => rBase c r ∧ k = c.cur r ∧ k + vs.length ≤ c.sent.length ∧ vs = (c.sent.drop k).take vs.length
  | .rDrop _ k => rBase c r ∧ k = c.cur r
  | .rHead _ k => rBase c r ∧ k = c.cur r ∧ c.pdropped = true
  | .bHd _ k => rBase c r ∧ k = c.cur r
  | .bDrop _ k => rBase c r ∧ k = c.cur r
  | .bHd2 _ k => rBase c r ∧ k = c.cur r ∧ c.pdropped = true
  | .bVals _ k n => rBase c r ∧ k = c.cur r ∧ k + n ≤ c.head
  | .gCur _ => rBase c r
  | .gLock _ k => rBase c r ∧ k = c.cur r
  | .gUnlock _ k => rBase c r ∧ k = c.cur r
  | .eDrop _ => rBase c r
  | .eHead _ => rBase c r ∧ c.pdropped = true
  | .eCur _ h => rBase c r ∧ c.pdropped = true ∧ h = c.head
  | .eLock _ k => rBase c r ∧ k = c.cur r ∧ c.pdropped = true ∧ c.head ≤ k
  | .eUnlock _ k => rBase c r ∧ k = c.cur r ∧ c.pdropped = true ∧ c.head ≤ k
  | .kPark _ => rBase c r
  | .kCur _ => rBase c r
  | .cCur => rBase c r
  | .mLock (.clone n) => rBase c r ∧ cloneFact c t r n
  | .mMod (.clone n) p => rBase c r ∧ cloneFact c t r n ∧ (∀ o, opOf p = some o → o = .push n) ∧ pushedAt c n p ∧ isWr p = true
  | .mUnlock (.clone n) => rBase c r ∧ cloneFact c t r n ∧ n ∈ c.data 0 ∧ n ∈ c.data 1
  | .mLock .unreg => r < c.nextCell ∧ c.resv r = none ∧ c.rclosed r = true
  | .mMod .unreg p => r < c.nextCell ∧ c.resv r = none ∧ c.rclosed r = true ∧ (∀ o, opOf p = some o → o = .remove r) ∧ isWr p = true
  | .mUnlock .unreg => r < c.nextCell ∧ c.resv r = none ∧ c.rclosed r = true
  | _ => r < c.nextCell ∧ c.resv r = none

structure Safe (s : State) : Prop where
  g : GFact s.core
  sf : ∀ t q, s.pc t = .snd q → sFact s.core q
  rf : ∀ t r q, s.pc t = .rcv r q → rFact s.core t r q
  idle : s.sOwner = none → s.head = s.sent.length ∧ s.dirty = false
  resvFree : ∀ n, s.resv n ≠ none → s.rOwner n = none

/-- every `rFact` contains these -/
theorem rFact_base {c : Core} {t r : Nat} {q : RPC} (h : rFact c t r q) : r < c.nextCell ∧ c.resv r = none := by
  cases q with
  | mLock k => cases k <;> (simp only [rFact, rBase] at h; first | exact ⟨h.1, h.2.1⟩ | exact ⟨h.1.1, h.1.2.1⟩)
  | mMod k p => cases k <;> (simp only [rFact, rBase] at h; first | exact ⟨h.1, h.2.1⟩ | exact ⟨h.1.1, h.1.2.1⟩)
  | mUnlock k => cases k <;> (simp only [rFact, rBase] at h; first | exact ⟨h.1, h.2.1⟩ | exact ⟨h.1.1, h.1.2.1⟩)
  | _ => simp only [rFact, rBase] at h; first | exact h | exact ⟨h.1, h.2.1⟩ | exact ⟨h.1.1, h.1.2.1⟩

end Fv.Chan.SpmcB
