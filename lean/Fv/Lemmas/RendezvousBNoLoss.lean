import Fv.Lemmas.RendezvousB
/-! No-loss group `InvRB` of the rendezvous B-model, for runs outside the F1 window (`Benign`): every token whose
send committed is received, or sits in the destination of a receiver that is going to return it.
Generated boilerplate, one lemma per step function. -/
namespace Fv.Chan.RendezvousB
set_option linter.unusedVariables false

theorem sendReg_not_recvWait {p : PC} {r : Nat} (h : sendReg p = some r) : recvWait p = none := by
  cases p <;> simp_all [sendReg, recvWait]
theorem unregS_not_recvWait {p : PC} {r : Nat} (h : unregS p = some r) : recvWait p = none := by
  cases p <;> simp_all [unregS, recvWait]
theorem unregR_not_recvWait {p : PC} {r : Nat} (h : unregR p = some r) : recvWait p = none := by
  cases p <;> simp_all [unregR, recvWait]

attribute [local grind] recOf unregS unregR recvReg recvWait
attribute [local grind =] upd_apply bump_apply List.Nodup.mem_erase_iff optL_mem
attribute [local grind →] List.mem_of_mem_erase unregS_recOf unregR_recOf recvReg_recOf recvWait_recOf
  recvReg_wait unregS_not_recvWait unregR_not_recvWait
attribute [local grind cases] RS

/-- a WAITING record in the receiver store belongs to a receiver that is waiting on it (every reachable state) -/
structure InvRQ (s : State) : Prop where
  rq_reg : ∀ r, r ∈ s.rq → s.st r = .waiting → recvReg (s.pc (s.owner r)) = some r

theorem invRQ_init : InvRQ init := by
  constructor <;> simp [init]

theorem invRQ_wakeThen {s : State} {t : Nat} {a : Nat} {res : Res} (hk : InvRK s) (hi : InvRQ s) (hpc : s.pc t = .wakeThen a res) : InvRQ (stepWakeThen s t a res) := by
  have hk_owner := hk.owner
  have hk_lt_rq := hk.lt_rq
  have hk_unreg_r := hk.unreg_r
  have hk_k4r := hk.k4r
  have hk_nd_rq := hk.nd_rq
  clear hk
  obtain ⟨h1⟩ := hi
  simp only [stepWakeThen, giveTo, takeFrom, finishRecv]
  repeat' split
  all_goals rk_fin

theorem invRQ_sLock {s : State} {t : Nat} {v : Nat} {r : Nat} (hk : InvRK s) (hi : InvRQ s) (hpc : s.pc t = .sLock v r) : InvRQ (stepSLock s t v r) := by
  have hk_owner := hk.owner
  have hk_lt_rq := hk.lt_rq
  have hk_unreg_r := hk.unreg_r
  have hk_k4r := hk.k4r
  have hk_nd_rq := hk.nd_rq
  clear hk
  obtain ⟨h1⟩ := hi
  simp only [stepSLock, giveTo, takeFrom, finishRecv]
  repeat' split
  all_goals rk_fin

theorem invRQ_sWait {s : State} {t : Nat} {v : Nat} {r : Nat} (hk : InvRK s) (hi : InvRQ s) (hpc : s.pc t = .sWait v r) : InvRQ (stepSWait s t v r) := by
  have hk_owner := hk.owner
  have hk_lt_rq := hk.lt_rq
  have hk_unreg_r := hk.unreg_r
  have hk_k4r := hk.k4r
  have hk_nd_rq := hk.nd_rq
  clear hk
  obtain ⟨h1⟩ := hi
  simp only [stepSWait, giveTo, takeFrom, finishRecv]
  repeat' split
  all_goals rk_fin

theorem invRQ_tsLock {s : State} {t : Nat} {v : Nat} (hk : InvRK s) (hi : InvRQ s) (hpc : s.pc t = .tsLock v) : InvRQ (stepTsLock s t v) := by
  have hk_owner := hk.owner
  have hk_lt_rq := hk.lt_rq
  have hk_unreg_r := hk.unreg_r
  have hk_k4r := hk.k4r
  have hk_nd_rq := hk.nd_rq
  clear hk
  obtain ⟨h1⟩ := hi
  simp only [stepTsLock, giveTo, takeFrom, finishRecv]
  repeat' split
  all_goals rk_fin

theorem invRQ_rLock {s : State} {t : Nat} {r : Nat} (hk : InvRK s) (hi : InvRQ s) (hpc : s.pc t = .rLock r) : InvRQ (stepRLock s t r) := by
  have hk_owner := hk.owner
  have hk_lt_rq := hk.lt_rq
  have hk_unreg_r := hk.unreg_r
  have hk_k4r := hk.k4r
  have hk_nd_rq := hk.nd_rq
  clear hk
  obtain ⟨h1⟩ := hi
  simp only [stepRLock, giveTo, takeFrom, finishRecv]
  repeat' split
  all_goals rk_fin

theorem invRQ_rWait {s : State} {t : Nat} {r : Nat} (hk : InvRK s) (hi : InvRQ s) (hpc : s.pc t = .rWait r) : InvRQ (stepRWait s t r) := by
  have hk_owner := hk.owner
  have hk_lt_rq := hk.lt_rq
  have hk_unreg_r := hk.unreg_r
  have hk_k4r := hk.k4r
  have hk_nd_rq := hk.nd_rq
  clear hk
  obtain ⟨h1⟩ := hi
  simp only [stepRWait, giveTo, takeFrom, finishRecv]
  repeat' split
  all_goals rk_fin

theorem invRQ_trLock {s : State} {t : Nat} (hk : InvRK s) (hi : InvRQ s) (hpc : s.pc t = .trLock) : InvRQ (stepTrLock s t ) := by
  have hk_owner := hk.owner
  have hk_lt_rq := hk.lt_rq
  have hk_unreg_r := hk.unreg_r
  have hk_k4r := hk.k4r
  have hk_nd_rq := hk.nd_rq
  clear hk
  obtain ⟨h1⟩ := hi
  simp only [stepTrLock, giveTo, takeFrom, finishRecv]
  repeat' split
  all_goals rk_fin

theorem invRQ_toLock {s : State} {t : Nat} {r : Nat} (hk : InvRK s) (hi : InvRQ s) (hpc : s.pc t = .toLock r) : InvRQ (stepToLock s t r) := by
  have hk_owner := hk.owner
  have hk_lt_rq := hk.lt_rq
  have hk_unreg_r := hk.unreg_r
  have hk_k4r := hk.k4r
  have hk_nd_rq := hk.nd_rq
  clear hk
  obtain ⟨h1⟩ := hi
  simp only [stepToLock, giveTo, takeFrom, finishRecv]
  repeat' split
  all_goals rk_fin

theorem invRQ_toLoad {s : State} {t : Nat} {r : Nat} (hk : InvRK s) (hi : InvRQ s) (hpc : s.pc t = .toLoad r) : InvRQ (stepToLoad s t r) := by
  have hk_owner := hk.owner
  have hk_lt_rq := hk.lt_rq
  have hk_unreg_r := hk.unreg_r
  have hk_k4r := hk.k4r
  have hk_nd_rq := hk.nd_rq
  clear hk
  obtain ⟨h1⟩ := hi
  simp only [stepToLoad, giveTo, takeFrom, finishRecv]
  repeat' split
  all_goals rk_fin

theorem invRQ_toCas {s : State} {t : Nat} {r : Nat} (hk : InvRK s) (hi : InvRQ s) (hpc : s.pc t = .toCas r) : InvRQ (stepToCas s t r) := by
  have hk_owner := hk.owner
  have hk_lt_rq := hk.lt_rq
  have hk_unreg_r := hk.unreg_r
  have hk_k4r := hk.k4r
  have hk_nd_rq := hk.nd_rq
  clear hk
  obtain ⟨h1⟩ := hi
  simp only [stepToCas, giveTo, takeFrom, finishRecv]
  repeat' split
  all_goals rk_fin

theorem invRQ_toUnl {s : State} {t : Nat} {r : Nat} (hk : InvRK s) (hi : InvRQ s) (hpc : s.pc t = .toUnl r) : InvRQ (stepToUnl s t r) := by
  have hk_owner := hk.owner
  have hk_lt_rq := hk.lt_rq
  have hk_unreg_r := hk.unreg_r
  have hk_k4r := hk.k4r
  have hk_nd_rq := hk.nd_rq
  clear hk
  obtain ⟨h1⟩ := hi
  simp only [stepToUnl, giveTo, takeFrom, finishRecv]
  repeat' split
  all_goals rk_fin

theorem invRQ_toFin {s : State} {t : Nat} {r : Nat} (hk : InvRK s) (hi : InvRQ s) (hpc : s.pc t = .toFin r) : InvRQ (stepToFin s t r) := by
  have hk_owner := hk.owner
  have hk_lt_rq := hk.lt_rq
  have hk_unreg_r := hk.unreg_r
  have hk_k4r := hk.k4r
  have hk_nd_rq := hk.nd_rq
  clear hk
  obtain ⟨h1⟩ := hi
  simp only [stepToFin, giveTo, takeFrom, finishRecv]
  repeat' split
  all_goals rk_fin

theorem invRQ_asLock {s : State} {t : Nat} {v : Nat} {r : Nat} (hk : InvRK s) (hi : InvRQ s) (hpc : s.pc t = .asLock v r) : InvRQ (stepAsLock s t v r) := by
  have hk_owner := hk.owner
  have hk_lt_rq := hk.lt_rq
  have hk_unreg_r := hk.unreg_r
  have hk_k4r := hk.k4r
  have hk_nd_rq := hk.nd_rq
  clear hk
  obtain ⟨h1⟩ := hi
  simp only [stepAsLock, giveTo, takeFrom, finishRecv]
  repeat' split
  all_goals rk_fin

theorem invRQ_asRef {s : State} {t : Nat} {v : Nat} {r : Nat} (hk : InvRK s) (hi : InvRQ s) (hpc : s.pc t = .asRef v r) : InvRQ (stepAsRef s t v r) := by
  have hk_owner := hk.owner
  have hk_lt_rq := hk.lt_rq
  have hk_unreg_r := hk.unreg_r
  have hk_k4r := hk.k4r
  have hk_nd_rq := hk.nd_rq
  clear hk
  obtain ⟨h1⟩ := hi
  simp only [stepAsRef, giveTo, takeFrom, finishRecv]
  repeat' split
  all_goals rk_fin

theorem invRQ_asFin {s : State} {t : Nat} {v : Nat} {r : Nat} (hk : InvRK s) (hi : InvRQ s) (hpc : s.pc t = .asFin v r) : InvRQ (stepAsFin s t v r) := by
  have hk_owner := hk.owner
  have hk_lt_rq := hk.lt_rq
  have hk_unreg_r := hk.unreg_r
  have hk_k4r := hk.k4r
  have hk_nd_rq := hk.nd_rq
  clear hk
  obtain ⟨h1⟩ := hi
  simp only [stepAsFin, giveTo, takeFrom, finishRecv]
  repeat' split
  all_goals rk_fin

theorem invRQ_fdUnlS {s : State} {t : Nat} {v : Nat} {r : Nat} (hk : InvRK s) (hi : InvRQ s) (hpc : s.pc t = .fdUnlS v r) : InvRQ (stepFdUnlS s t v r) := by
  have hk_owner := hk.owner
  have hk_lt_rq := hk.lt_rq
  have hk_unreg_r := hk.unreg_r
  have hk_k4r := hk.k4r
  have hk_nd_rq := hk.nd_rq
  clear hk
  obtain ⟨h1⟩ := hi
  simp only [stepFdUnlS, giveTo, takeFrom, finishRecv]
  repeat' split
  all_goals rk_fin

theorem invRQ_arLock {s : State} {t : Nat} {r : Nat} (hk : InvRK s) (hi : InvRQ s) (hpc : s.pc t = .arLock r) : InvRQ (stepArLock s t r) := by
  have hk_owner := hk.owner
  have hk_lt_rq := hk.lt_rq
  have hk_unreg_r := hk.unreg_r
  have hk_k4r := hk.k4r
  have hk_nd_rq := hk.nd_rq
  clear hk
  obtain ⟨h1⟩ := hi
  simp only [stepArLock, giveTo, takeFrom, finishRecv]
  repeat' split
  all_goals rk_fin

theorem invRQ_arRef {s : State} {t : Nat} {r : Nat} (hk : InvRK s) (hi : InvRQ s) (hpc : s.pc t = .arRef r) : InvRQ (stepArRef s t r) := by
  have hk_owner := hk.owner
  have hk_lt_rq := hk.lt_rq
  have hk_unreg_r := hk.unreg_r
  have hk_k4r := hk.k4r
  have hk_nd_rq := hk.nd_rq
  clear hk
  obtain ⟨h1⟩ := hi
  simp only [stepArRef, giveTo, takeFrom, finishRecv]
  repeat' split
  all_goals rk_fin

theorem invRQ_arFin {s : State} {t : Nat} {r : Nat} (hk : InvRK s) (hi : InvRQ s) (hpc : s.pc t = .arFin r) : InvRQ (stepArFin s t r) := by
  have hk_owner := hk.owner
  have hk_lt_rq := hk.lt_rq
  have hk_unreg_r := hk.unreg_r
  have hk_k4r := hk.k4r
  have hk_nd_rq := hk.nd_rq
  clear hk
  obtain ⟨h1⟩ := hi
  simp only [stepArFin, giveTo, takeFrom, finishRecv]
  repeat' split
  all_goals rk_fin

theorem invRQ_fdUnlR {s : State} {t : Nat} {r : Nat} (hk : InvRK s) (hi : InvRQ s) (hpc : s.pc t = .fdUnlR r) : InvRQ (stepFdUnlR s t r) := by
  have hk_owner := hk.owner
  have hk_lt_rq := hk.lt_rq
  have hk_unreg_r := hk.unreg_r
  have hk_k4r := hk.k4r
  have hk_nd_rq := hk.nd_rq
  clear hk
  obtain ⟨h1⟩ := hi
  simp only [stepFdUnlR, giveTo, takeFrom, finishRecv]
  repeat' split
  all_goals rk_fin

theorem invRQ_hWake {s : State} {t : Nat} {ws : List Nat} (hk : InvRK s) (hi : InvRQ s) (hpc : s.pc t = .hWake ws) : InvRQ (stepHWake s t ws) := by
  have hk_owner := hk.owner
  have hk_lt_rq := hk.lt_rq
  have hk_unreg_r := hk.unreg_r
  have hk_k4r := hk.k4r
  have hk_nd_rq := hk.nd_rq
  clear hk
  obtain ⟨h1⟩ := hi
  simp only [stepHWake, giveTo, takeFrom, finishRecv]
  repeat' split
  all_goals rk_fin

theorem invRQ_sPark {s s' : State} {t : Nat} {v : Nat} {r : Nat} (hk : InvRK s) (hi : InvRQ s) (hpc : s.pc t = .sPark v r) (h : stepSPark s t v r = some s') : InvRQ s' := by
  have hk_owner := hk.owner
  have hk_lt_rq := hk.lt_rq
  have hk_unreg_r := hk.unreg_r
  have hk_k4r := hk.k4r
  have hk_nd_rq := hk.nd_rq
  clear hk
  obtain ⟨h1⟩ := hi
  unfold stepSPark at h
  repeat' split at h
  all_goals (simp at h; try subst h)
  all_goals (try generalize List.map s.owner _ = wsl)
  all_goals rk_fin

theorem invRQ_rPark {s s' : State} {t : Nat} {r : Nat} (hk : InvRK s) (hi : InvRQ s) (hpc : s.pc t = .rPark r) (h : stepRPark s t r = some s') : InvRQ s' := by
  have hk_owner := hk.owner
  have hk_lt_rq := hk.lt_rq
  have hk_unreg_r := hk.unreg_r
  have hk_k4r := hk.k4r
  have hk_nd_rq := hk.nd_rq
  clear hk
  obtain ⟨h1⟩ := hi
  unfold stepRPark at h
  repeat' split at h
  all_goals (simp at h; try subst h)
  all_goals (try generalize List.map s.owner _ = wsl)
  all_goals rk_fin

theorem invRQ_closeS {s s' : State} {t : Nat} (hk : InvRK s) (hi : InvRQ s) (hpc : s.pc t = .hCloseS) (h : stepCloseS s t  = some s') : InvRQ s' := by
  have hk_owner := hk.owner
  have hk_lt_rq := hk.lt_rq
  have hk_unreg_r := hk.unreg_r
  have hk_k4r := hk.k4r
  have hk_nd_rq := hk.nd_rq
  clear hk
  obtain ⟨h1⟩ := hi
  unfold stepCloseS at h
  repeat' split at h
  all_goals (simp at h; try subst h)
  all_goals (try generalize List.map s.owner _ = wsl)
  all_goals rk_fin

theorem invRQ_closeR {s s' : State} {t : Nat} (hk : InvRK s) (hi : InvRQ s) (hpc : s.pc t = .hCloseR) (h : stepCloseR s t  = some s') : InvRQ s' := by
  have hk_owner := hk.owner
  have hk_lt_rq := hk.lt_rq
  have hk_unreg_r := hk.unreg_r
  have hk_k4r := hk.k4r
  have hk_nd_rq := hk.nd_rq
  clear hk
  obtain ⟨h1⟩ := hi
  unfold stepCloseR at h
  repeat' split at h
  all_goals (simp at h; try subst h)
  all_goals (try generalize List.map s.owner _ = wsl)
  all_goals rk_fin

theorem invRQ_adv {s s' : State} {t : Nat} (hk : InvRK s) (hi : InvRQ s) (h : stepAdv s t = some s') : InvRQ s' := by
  unfold stepAdv at h
  split at h
  all_goals (first | (simp at h; done) | skip)
  all_goals rename_i hpc
  case h_1 => simp at h; subst h; exact invRQ_wakeThen hk hi hpc
  case h_2 => simp at h; subst h; exact invRQ_sLock hk hi hpc
  case h_3 => simp at h; subst h; exact invRQ_sWait hk hi hpc
  case h_4 => exact invRQ_sPark hk hi hpc h
  case h_5 => simp at h; subst h; exact invRQ_tsLock hk hi hpc
  case h_6 => simp at h; subst h; exact invRQ_rLock hk hi hpc
  case h_7 => simp at h; subst h; exact invRQ_rWait hk hi hpc
  case h_8 => exact invRQ_rPark hk hi hpc h
  case h_9 => simp at h; subst h; exact invRQ_trLock hk hi hpc
  case h_10 => simp at h; subst h; exact invRQ_toLock hk hi hpc
  case h_11 => simp at h; subst h; exact invRQ_toLoad hk hi hpc
  case h_12 => simp at h; subst h; exact invRQ_toCas hk hi hpc
  case h_13 => simp at h; subst h; exact invRQ_toUnl hk hi hpc
  case h_14 => simp at h; subst h; exact invRQ_toFin hk hi hpc
  case h_15 => simp at h; subst h; exact invRQ_asLock hk hi hpc
  case h_16 => simp at h; subst h; exact invRQ_asRef hk hi hpc
  case h_17 => simp at h; subst h; exact invRQ_asFin hk hi hpc
  case h_18 => simp at h; subst h; exact invRQ_fdUnlS hk hi hpc
  case h_19 => simp at h; subst h; exact invRQ_arLock hk hi hpc
  case h_20 => simp at h; subst h; exact invRQ_arRef hk hi hpc
  case h_21 => simp at h; subst h; exact invRQ_arFin hk hi hpc
  case h_22 => simp at h; subst h; exact invRQ_fdUnlR hk hi hpc
  case h_23 =>
    simp at h; subst h
    have hk_owner := hk.owner
    have hk_lt_rq := hk.lt_rq
    have hk_unreg_r := hk.unreg_r
    have hk_k4r := hk.k4r
    have hk_nd_rq := hk.nd_rq
    clear hk
    obtain ⟨h1⟩ := hi
    rk_fin
  case h_24 =>
    simp at h; subst h
    have hk_owner := hk.owner
    have hk_lt_rq := hk.lt_rq
    have hk_unreg_r := hk.unreg_r
    have hk_k4r := hk.k4r
    have hk_nd_rq := hk.nd_rq
    clear hk
    obtain ⟨h1⟩ := hi
    rk_fin
  case h_25 => exact invRQ_closeS hk hi hpc h
  case h_26 => exact invRQ_closeR hk hi hpc h
  case h_27 => simp at h; subst h; exact invRQ_hWake hk hi hpc

set_option maxHeartbeats 1600000 in
theorem invRQ_call {s s' : State} {t : Nat} {op : Op} (hk : InvRK s) (hi : InvRQ s) (h : stepCall s t op = some s') : InvRQ s' := by
  have hk_owner := hk.owner
  have hk_lt_rq := hk.lt_rq
  have hk_unreg_r := hk.unreg_r
  have hk_k4r := hk.k4r
  have hk_nd_rq := hk.nd_rq
  clear hk
  obtain ⟨h1⟩ := hi
  unfold stepCall at h
  split at h
  · rename_i hr
    have hr' : s.pc t = .idle ∨ ∃ x, s.pc t = .done x := by
      cases hp : s.pc t <;> simp_all [PC.atRest]
    cases op <;> simp only [] at h
    all_goals (repeat' split at h)
    all_goals (simp at h; try subst h)
    all_goals rk_fin
  · simp at h

set_option maxHeartbeats 1600000 in
theorem invRQ_poll {s s' : State} {t : Nat} (hk : InvRK s) (hi : InvRQ s) (h : stepPoll s t = some s') : InvRQ s' := by
  have hk_owner := hk.owner
  have hk_lt_rq := hk.lt_rq
  have hk_unreg_r := hk.unreg_r
  have hk_k4r := hk.k4r
  have hk_nd_rq := hk.nd_rq
  clear hk
  obtain ⟨h1⟩ := hi
  unfold stepPoll at h
  repeat' split at h
  all_goals (simp at h; try subst h)
  all_goals (try simp only [giveTo, takeFrom, finishRecv])
  all_goals (repeat' split)
  all_goals rk_fin

set_option maxHeartbeats 1600000 in
theorem invRQ_dropFut {s s' : State} {t : Nat} (hk : InvRK s) (hi : InvRQ s) (h : stepDropFut s t = some s') : InvRQ s' := by
  have hk_owner := hk.owner
  have hk_lt_rq := hk.lt_rq
  have hk_unreg_r := hk.unreg_r
  have hk_k4r := hk.k4r
  have hk_nd_rq := hk.nd_rq
  clear hk
  obtain ⟨h1⟩ := hi
  unfold stepDropFut at h
  repeat' split at h
  all_goals (simp at h; try subst h)
  all_goals skip
  all_goals rk_fin

theorem invRQ_spurious {s s' : State} {t : Nat} (hk : InvRK s) (hi : InvRQ s) (h : stepSpurious s t = some s') : InvRQ s' := by
  have hk_owner := hk.owner
  have hk_lt_rq := hk.lt_rq
  have hk_unreg_r := hk.unreg_r
  have hk_k4r := hk.k4r
  have hk_nd_rq := hk.nd_rq
  clear hk
  obtain ⟨h1⟩ := hi
  unfold stepSpurious at h
  repeat' split at h
  all_goals (simp at h; try subst h)
  all_goals rk_fin

theorem invRQ_step {s s' : State} {t : Nat} {l : Label} (hk : InvRK s) (hi : InvRQ s) (h : step s t l = some s') : InvRQ s' := by
  cases l <;> simp only [step] at h
  · exact invRQ_call hk hi h
  · exact invRQ_adv hk hi h
  · exact invRQ_poll hk hi h
  · exact invRQ_dropFut hk hi h
  · exact invRQ_spurious hk hi h


theorem invRQ_reach {s : State} (h : Reach s) : InvRQ s := by
  induction h with
  | init => exact invRQ_init
  | step hr hs ih => exact invRQ_step (invRK_reach hr) ih hs

/-- a handed-over token sits in the destination of a receiver that is going to return it -/
def Pending (s : State) (v : Nat) : Prop :=
  s.slot (s.destOf v) = some v ∧ s.st (s.destOf v) = .done ∧ recvWait (s.pc (s.owner (s.destOf v))) = some (s.destOf v)

structure InvRB (s : State) : Prop where
  nl : ∀ v, v ∈ s.handed → v ∈ s.recvd ∨ Pending s v

theorem invRB_init : InvRB init := by
  constructor <;> simp [init]

attribute [local grind] Pending

theorem invRB_wakeThen {s : State} {t : Nat} {a : Nat} {res : Res} (hk : InvRK s) (hq : InvRQ s) (hi : InvRB s) (hpc : s.pc t = .wakeThen a res) (hb : Benign s t .adv) : InvRB (stepWakeThen s t a res) := by
  have hk_owner := hk.owner
  have hk_lt_sq := hk.lt_sq
  have hk_lt_rq := hk.lt_rq
  have hk_nd_rq := hk.nd_rq
  have hk_rq_st := hk.rq_st
  have hk_sq_st := hk.sq_st
  have hk_sq_owner := hk.sq_owner
  clear hk
  obtain ⟨hq1⟩ := hq
  obtain ⟨h1⟩ := hi
  simp only [Benign, popTarget, hpc] at hb
  simp only [stepWakeThen, giveTo, takeFrom, finishRecv]
  repeat' split
  all_goals rk_fin

theorem invRB_sLock {s : State} {t : Nat} {v : Nat} {r : Nat} (hk : InvRK s) (hq : InvRQ s) (hi : InvRB s) (hpc : s.pc t = .sLock v r) (hb : Benign s t .adv) : InvRB (stepSLock s t v r) := by
  have hk_owner := hk.owner
  have hk_lt_sq := hk.lt_sq
  have hk_lt_rq := hk.lt_rq
  have hk_nd_rq := hk.nd_rq
  have hk_rq_st := hk.rq_st
  have hk_sq_st := hk.sq_st
  have hk_sq_owner := hk.sq_owner
  clear hk
  obtain ⟨hq1⟩ := hq
  obtain ⟨h1⟩ := hi
  simp only [Benign, popTarget, hpc] at hb
  simp only [stepSLock, giveTo, takeFrom, finishRecv]
  repeat' split
  all_goals rk_fin

theorem invRB_sWait {s : State} {t : Nat} {v : Nat} {r : Nat} (hk : InvRK s) (hq : InvRQ s) (hi : InvRB s) (hpc : s.pc t = .sWait v r) (hb : Benign s t .adv) : InvRB (stepSWait s t v r) := by
  have hk_owner := hk.owner
  have hk_lt_sq := hk.lt_sq
  have hk_lt_rq := hk.lt_rq
  have hk_nd_rq := hk.nd_rq
  have hk_rq_st := hk.rq_st
  have hk_sq_st := hk.sq_st
  have hk_sq_owner := hk.sq_owner
  clear hk
  obtain ⟨hq1⟩ := hq
  obtain ⟨h1⟩ := hi
  simp only [Benign, popTarget, hpc] at hb
  simp only [stepSWait, giveTo, takeFrom, finishRecv]
  repeat' split
  all_goals rk_fin

theorem invRB_tsLock {s : State} {t : Nat} {v : Nat} (hk : InvRK s) (hq : InvRQ s) (hi : InvRB s) (hpc : s.pc t = .tsLock v) (hb : Benign s t .adv) : InvRB (stepTsLock s t v) := by
  have hk_owner := hk.owner
  have hk_lt_sq := hk.lt_sq
  have hk_lt_rq := hk.lt_rq
  have hk_nd_rq := hk.nd_rq
  have hk_rq_st := hk.rq_st
  have hk_sq_st := hk.sq_st
  have hk_sq_owner := hk.sq_owner
  clear hk
  obtain ⟨hq1⟩ := hq
  obtain ⟨h1⟩ := hi
  simp only [Benign, popTarget, hpc] at hb
  simp only [stepTsLock, giveTo, takeFrom, finishRecv]
  repeat' split
  all_goals rk_fin

theorem invRB_rLock {s : State} {t : Nat} {r : Nat} (hk : InvRK s) (hq : InvRQ s) (hi : InvRB s) (hpc : s.pc t = .rLock r) (hb : Benign s t .adv) : InvRB (stepRLock s t r) := by
  have hk_owner := hk.owner
  have hk_lt_sq := hk.lt_sq
  have hk_lt_rq := hk.lt_rq
  have hk_nd_rq := hk.nd_rq
  have hk_rq_st := hk.rq_st
  have hk_sq_st := hk.sq_st
  have hk_sq_owner := hk.sq_owner
  clear hk
  obtain ⟨hq1⟩ := hq
  obtain ⟨h1⟩ := hi
  simp only [Benign, popTarget, hpc] at hb
  simp only [stepRLock, giveTo, takeFrom, finishRecv]
  repeat' split
  all_goals rk_fin

theorem invRB_rWait {s : State} {t : Nat} {r : Nat} (hk : InvRK s) (hq : InvRQ s) (hi : InvRB s) (hpc : s.pc t = .rWait r) (hb : Benign s t .adv) : InvRB (stepRWait s t r) := by
  have hk_owner := hk.owner
  have hk_lt_sq := hk.lt_sq
  have hk_lt_rq := hk.lt_rq
  have hk_nd_rq := hk.nd_rq
  have hk_rq_st := hk.rq_st
  have hk_sq_st := hk.sq_st
  have hk_sq_owner := hk.sq_owner
  clear hk
  obtain ⟨hq1⟩ := hq
  obtain ⟨h1⟩ := hi
  simp only [Benign, popTarget, hpc] at hb
  simp only [stepRWait, giveTo, takeFrom, finishRecv]
  repeat' split
  all_goals rk_fin

theorem invRB_trLock {s : State} {t : Nat} (hk : InvRK s) (hq : InvRQ s) (hi : InvRB s) (hpc : s.pc t = .trLock) (hb : Benign s t .adv) : InvRB (stepTrLock s t ) := by
  have hk_owner := hk.owner
  have hk_lt_sq := hk.lt_sq
  have hk_lt_rq := hk.lt_rq
  have hk_nd_rq := hk.nd_rq
  have hk_rq_st := hk.rq_st
  have hk_sq_st := hk.sq_st
  have hk_sq_owner := hk.sq_owner
  clear hk
  obtain ⟨hq1⟩ := hq
  obtain ⟨h1⟩ := hi
  simp only [Benign, popTarget, hpc] at hb
  simp only [stepTrLock, giveTo, takeFrom, finishRecv]
  repeat' split
  all_goals rk_fin

theorem invRB_toLock {s : State} {t : Nat} {r : Nat} (hk : InvRK s) (hq : InvRQ s) (hi : InvRB s) (hpc : s.pc t = .toLock r) (hb : Benign s t .adv) : InvRB (stepToLock s t r) := by
  have hk_owner := hk.owner
  have hk_lt_sq := hk.lt_sq
  have hk_lt_rq := hk.lt_rq
  have hk_nd_rq := hk.nd_rq
  have hk_rq_st := hk.rq_st
  have hk_sq_st := hk.sq_st
  have hk_sq_owner := hk.sq_owner
  clear hk
  obtain ⟨hq1⟩ := hq
  obtain ⟨h1⟩ := hi
  simp only [Benign, popTarget, hpc] at hb
  simp only [stepToLock, giveTo, takeFrom, finishRecv]
  repeat' split
  all_goals rk_fin

theorem invRB_toLoad {s : State} {t : Nat} {r : Nat} (hk : InvRK s) (hq : InvRQ s) (hi : InvRB s) (hpc : s.pc t = .toLoad r) (hb : Benign s t .adv) : InvRB (stepToLoad s t r) := by
  have hk_owner := hk.owner
  have hk_lt_sq := hk.lt_sq
  have hk_lt_rq := hk.lt_rq
  have hk_nd_rq := hk.nd_rq
  have hk_rq_st := hk.rq_st
  have hk_sq_st := hk.sq_st
  have hk_sq_owner := hk.sq_owner
  clear hk
  obtain ⟨hq1⟩ := hq
  obtain ⟨h1⟩ := hi
  simp only [Benign, popTarget, hpc] at hb
  simp only [stepToLoad, giveTo, takeFrom, finishRecv]
  repeat' split
  all_goals rk_fin

theorem invRB_toCas {s : State} {t : Nat} {r : Nat} (hk : InvRK s) (hq : InvRQ s) (hi : InvRB s) (hpc : s.pc t = .toCas r) (hb : Benign s t .adv) : InvRB (stepToCas s t r) := by
  have hk_owner := hk.owner
  have hk_lt_sq := hk.lt_sq
  have hk_lt_rq := hk.lt_rq
  have hk_nd_rq := hk.nd_rq
  have hk_rq_st := hk.rq_st
  have hk_sq_st := hk.sq_st
  have hk_sq_owner := hk.sq_owner
  clear hk
  obtain ⟨hq1⟩ := hq
  obtain ⟨h1⟩ := hi
  simp only [Benign, popTarget, hpc] at hb
  simp only [stepToCas, giveTo, takeFrom, finishRecv]
  repeat' split
  all_goals rk_fin

theorem invRB_toUnl {s : State} {t : Nat} {r : Nat} (hk : InvRK s) (hq : InvRQ s) (hi : InvRB s) (hpc : s.pc t = .toUnl r) (hb : Benign s t .adv) : InvRB (stepToUnl s t r) := by
  have hk_owner := hk.owner
  have hk_lt_sq := hk.lt_sq
  have hk_lt_rq := hk.lt_rq
  have hk_nd_rq := hk.nd_rq
  have hk_rq_st := hk.rq_st
  have hk_sq_st := hk.sq_st
  have hk_sq_owner := hk.sq_owner
  clear hk
  obtain ⟨hq1⟩ := hq
  obtain ⟨h1⟩ := hi
  simp only [Benign, popTarget, hpc] at hb
  simp only [stepToUnl, giveTo, takeFrom, finishRecv]
  repeat' split
  all_goals rk_fin

theorem invRB_toFin {s : State} {t : Nat} {r : Nat} (hk : InvRK s) (hq : InvRQ s) (hi : InvRB s) (hpc : s.pc t = .toFin r) (hb : Benign s t .adv) : InvRB (stepToFin s t r) := by
  have hk_owner := hk.owner
  have hk_lt_sq := hk.lt_sq
  have hk_lt_rq := hk.lt_rq
  have hk_nd_rq := hk.nd_rq
  have hk_rq_st := hk.rq_st
  have hk_sq_st := hk.sq_st
  have hk_sq_owner := hk.sq_owner
  clear hk
  obtain ⟨hq1⟩ := hq
  obtain ⟨h1⟩ := hi
  simp only [Benign, popTarget, hpc] at hb
  simp only [stepToFin, giveTo, takeFrom, finishRecv]
  repeat' split
  all_goals rk_fin

theorem invRB_asLock {s : State} {t : Nat} {v : Nat} {r : Nat} (hk : InvRK s) (hq : InvRQ s) (hi : InvRB s) (hpc : s.pc t = .asLock v r) (hb : Benign s t .adv) : InvRB (stepAsLock s t v r) := by
  have hk_owner := hk.owner
  have hk_lt_sq := hk.lt_sq
  have hk_lt_rq := hk.lt_rq
  have hk_nd_rq := hk.nd_rq
  have hk_rq_st := hk.rq_st
  have hk_sq_st := hk.sq_st
  have hk_sq_owner := hk.sq_owner
  clear hk
  obtain ⟨hq1⟩ := hq
  obtain ⟨h1⟩ := hi
  simp only [Benign, popTarget, hpc] at hb
  simp only [stepAsLock, giveTo, takeFrom, finishRecv]
  repeat' split
  all_goals rk_fin

theorem invRB_asRef {s : State} {t : Nat} {v : Nat} {r : Nat} (hk : InvRK s) (hq : InvRQ s) (hi : InvRB s) (hpc : s.pc t = .asRef v r) (hb : Benign s t .adv) : InvRB (stepAsRef s t v r) := by
  have hk_owner := hk.owner
  have hk_lt_sq := hk.lt_sq
  have hk_lt_rq := hk.lt_rq
  have hk_nd_rq := hk.nd_rq
  have hk_rq_st := hk.rq_st
  have hk_sq_st := hk.sq_st
  have hk_sq_owner := hk.sq_owner
  clear hk
  obtain ⟨hq1⟩ := hq
  obtain ⟨h1⟩ := hi
  simp only [Benign, popTarget, hpc] at hb
  simp only [stepAsRef, giveTo, takeFrom, finishRecv]
  repeat' split
  all_goals rk_fin

theorem invRB_asFin {s : State} {t : Nat} {v : Nat} {r : Nat} (hk : InvRK s) (hq : InvRQ s) (hi : InvRB s) (hpc : s.pc t = .asFin v r) (hb : Benign s t .adv) : InvRB (stepAsFin s t v r) := by
  have hk_owner := hk.owner
  have hk_lt_sq := hk.lt_sq
  have hk_lt_rq := hk.lt_rq
  have hk_nd_rq := hk.nd_rq
  have hk_rq_st := hk.rq_st
  have hk_sq_st := hk.sq_st
  have hk_sq_owner := hk.sq_owner
  clear hk
  obtain ⟨hq1⟩ := hq
  obtain ⟨h1⟩ := hi
  simp only [Benign, popTarget, hpc] at hb
  simp only [stepAsFin, giveTo, takeFrom, finishRecv]
  repeat' split
  all_goals rk_fin

theorem invRB_fdUnlS {s : State} {t : Nat} {v : Nat} {r : Nat} (hk : InvRK s) (hq : InvRQ s) (hi : InvRB s) (hpc : s.pc t = .fdUnlS v r) (hb : Benign s t .adv) : InvRB (stepFdUnlS s t v r) := by
  have hk_owner := hk.owner
  have hk_lt_sq := hk.lt_sq
  have hk_lt_rq := hk.lt_rq
  have hk_nd_rq := hk.nd_rq
  have hk_rq_st := hk.rq_st
  have hk_sq_st := hk.sq_st
  have hk_sq_owner := hk.sq_owner
  clear hk
  obtain ⟨hq1⟩ := hq
  obtain ⟨h1⟩ := hi
  simp only [Benign, popTarget, hpc] at hb
  simp only [stepFdUnlS, giveTo, takeFrom, finishRecv]
  repeat' split
  all_goals rk_fin

theorem invRB_arLock {s : State} {t : Nat} {r : Nat} (hk : InvRK s) (hq : InvRQ s) (hi : InvRB s) (hpc : s.pc t = .arLock r) (hb : Benign s t .adv) : InvRB (stepArLock s t r) := by
  have hk_owner := hk.owner
  have hk_lt_sq := hk.lt_sq
  have hk_lt_rq := hk.lt_rq
  have hk_nd_rq := hk.nd_rq
  have hk_rq_st := hk.rq_st
  have hk_sq_st := hk.sq_st
  have hk_sq_owner := hk.sq_owner
  clear hk
  obtain ⟨hq1⟩ := hq
  obtain ⟨h1⟩ := hi
  simp only [Benign, popTarget, hpc] at hb
  simp only [stepArLock, giveTo, takeFrom, finishRecv]
  repeat' split
  all_goals rk_fin

theorem invRB_arRef {s : State} {t : Nat} {r : Nat} (hk : InvRK s) (hq : InvRQ s) (hi : InvRB s) (hpc : s.pc t = .arRef r) (hb : Benign s t .adv) : InvRB (stepArRef s t r) := by
  have hk_owner := hk.owner
  have hk_lt_sq := hk.lt_sq
  have hk_lt_rq := hk.lt_rq
  have hk_nd_rq := hk.nd_rq
  have hk_rq_st := hk.rq_st
  have hk_sq_st := hk.sq_st
  have hk_sq_owner := hk.sq_owner
  clear hk
  obtain ⟨hq1⟩ := hq
  obtain ⟨h1⟩ := hi
  simp only [Benign, popTarget, hpc] at hb
  simp only [stepArRef, giveTo, takeFrom, finishRecv]
  repeat' split
  all_goals rk_fin

theorem invRB_arFin {s : State} {t : Nat} {r : Nat} (hk : InvRK s) (hq : InvRQ s) (hi : InvRB s) (hpc : s.pc t = .arFin r) (hb : Benign s t .adv) : InvRB (stepArFin s t r) := by
  have hk_owner := hk.owner
  have hk_lt_sq := hk.lt_sq
  have hk_lt_rq := hk.lt_rq
  have hk_nd_rq := hk.nd_rq
  have hk_rq_st := hk.rq_st
  have hk_sq_st := hk.sq_st
  have hk_sq_owner := hk.sq_owner
  clear hk
  obtain ⟨hq1⟩ := hq
  obtain ⟨h1⟩ := hi
  simp only [Benign, popTarget, hpc] at hb
  simp only [stepArFin, giveTo, takeFrom, finishRecv]
  repeat' split
  all_goals rk_fin

theorem invRB_fdUnlR {s : State} {t : Nat} {r : Nat} (hk : InvRK s) (hq : InvRQ s) (hi : InvRB s) (hpc : s.pc t = .fdUnlR r) (hb : Benign s t .adv) : InvRB (stepFdUnlR s t r) := by
  have hk_owner := hk.owner
  have hk_lt_sq := hk.lt_sq
  have hk_lt_rq := hk.lt_rq
  have hk_nd_rq := hk.nd_rq
  have hk_rq_st := hk.rq_st
  have hk_sq_st := hk.sq_st
  have hk_sq_owner := hk.sq_owner
  clear hk
  obtain ⟨hq1⟩ := hq
  obtain ⟨h1⟩ := hi
  simp only [Benign, popTarget, hpc] at hb
  simp only [stepFdUnlR, giveTo, takeFrom, finishRecv]
  repeat' split
  all_goals rk_fin

theorem invRB_hWake {s : State} {t : Nat} {ws : List Nat} (hk : InvRK s) (hq : InvRQ s) (hi : InvRB s) (hpc : s.pc t = .hWake ws) (hb : Benign s t .adv) : InvRB (stepHWake s t ws) := by
  have hk_owner := hk.owner
  have hk_lt_sq := hk.lt_sq
  have hk_lt_rq := hk.lt_rq
  have hk_nd_rq := hk.nd_rq
  have hk_rq_st := hk.rq_st
  have hk_sq_st := hk.sq_st
  have hk_sq_owner := hk.sq_owner
  clear hk
  obtain ⟨hq1⟩ := hq
  obtain ⟨h1⟩ := hi
  simp only [Benign, popTarget, hpc] at hb
  simp only [stepHWake, giveTo, takeFrom, finishRecv]
  repeat' split
  all_goals rk_fin

theorem invRB_sPark {s s' : State} {t : Nat} {v : Nat} {r : Nat} (hk : InvRK s) (hq : InvRQ s) (hi : InvRB s) (hpc : s.pc t = .sPark v r) (h : stepSPark s t v r = some s') : InvRB s' := by
  have hk_owner := hk.owner
  have hk_lt_sq := hk.lt_sq
  have hk_lt_rq := hk.lt_rq
  have hk_nd_rq := hk.nd_rq
  have hk_rq_st := hk.rq_st
  have hk_sq_st := hk.sq_st
  have hk_sq_owner := hk.sq_owner
  clear hk
  obtain ⟨hq1⟩ := hq
  obtain ⟨h1⟩ := hi
  unfold stepSPark at h
  repeat' split at h
  all_goals (simp at h; try subst h)
  all_goals (try generalize List.map s.owner _ = wsl)
  all_goals rk_fin

theorem invRB_rPark {s s' : State} {t : Nat} {r : Nat} (hk : InvRK s) (hq : InvRQ s) (hi : InvRB s) (hpc : s.pc t = .rPark r) (h : stepRPark s t r = some s') : InvRB s' := by
  have hk_owner := hk.owner
  have hk_lt_sq := hk.lt_sq
  have hk_lt_rq := hk.lt_rq
  have hk_nd_rq := hk.nd_rq
  have hk_rq_st := hk.rq_st
  have hk_sq_st := hk.sq_st
  have hk_sq_owner := hk.sq_owner
  clear hk
  obtain ⟨hq1⟩ := hq
  obtain ⟨h1⟩ := hi
  unfold stepRPark at h
  repeat' split at h
  all_goals (simp at h; try subst h)
  all_goals (try generalize List.map s.owner _ = wsl)
  all_goals rk_fin

theorem invRB_closeS {s s' : State} {t : Nat} (hk : InvRK s) (hq : InvRQ s) (hi : InvRB s) (hpc : s.pc t = .hCloseS) (h : stepCloseS s t  = some s') : InvRB s' := by
  have hk_owner := hk.owner
  have hk_lt_sq := hk.lt_sq
  have hk_lt_rq := hk.lt_rq
  have hk_nd_rq := hk.nd_rq
  have hk_rq_st := hk.rq_st
  have hk_sq_st := hk.sq_st
  have hk_sq_owner := hk.sq_owner
  clear hk
  obtain ⟨hq1⟩ := hq
  obtain ⟨h1⟩ := hi
  unfold stepCloseS at h
  repeat' split at h
  all_goals (simp at h; try subst h)
  all_goals (try generalize List.map s.owner _ = wsl)
  all_goals rk_fin

theorem invRB_closeR {s s' : State} {t : Nat} (hk : InvRK s) (hq : InvRQ s) (hi : InvRB s) (hpc : s.pc t = .hCloseR) (h : stepCloseR s t  = some s') : InvRB s' := by
  have hk_owner := hk.owner
  have hk_lt_sq := hk.lt_sq
  have hk_lt_rq := hk.lt_rq
  have hk_nd_rq := hk.nd_rq
  have hk_rq_st := hk.rq_st
  have hk_sq_st := hk.sq_st
  have hk_sq_owner := hk.sq_owner
  clear hk
  obtain ⟨hq1⟩ := hq
  obtain ⟨h1⟩ := hi
  unfold stepCloseR at h
  repeat' split at h
  all_goals (simp at h; try subst h)
  all_goals (try generalize List.map s.owner _ = wsl)
  all_goals rk_fin

theorem invRB_adv {s s' : State} {t : Nat} (hk : InvRK s) (hq : InvRQ s) (hi : InvRB s) (hb : Benign s t .adv) (h : stepAdv s t = some s') : InvRB s' := by
  unfold stepAdv at h
  split at h
  all_goals (first | (simp at h; done) | skip)
  all_goals rename_i hpc
  case h_1 => simp at h; subst h; exact invRB_wakeThen hk hq hi hpc hb
  case h_2 => simp at h; subst h; exact invRB_sLock hk hq hi hpc hb
  case h_3 => simp at h; subst h; exact invRB_sWait hk hq hi hpc hb
  case h_4 => exact invRB_sPark hk hq hi hpc h
  case h_5 => simp at h; subst h; exact invRB_tsLock hk hq hi hpc hb
  case h_6 => simp at h; subst h; exact invRB_rLock hk hq hi hpc hb
  case h_7 => simp at h; subst h; exact invRB_rWait hk hq hi hpc hb
  case h_8 => exact invRB_rPark hk hq hi hpc h
  case h_9 => simp at h; subst h; exact invRB_trLock hk hq hi hpc hb
  case h_10 => simp at h; subst h; exact invRB_toLock hk hq hi hpc hb
  case h_11 => simp at h; subst h; exact invRB_toLoad hk hq hi hpc hb
  case h_12 => simp at h; subst h; exact invRB_toCas hk hq hi hpc hb
  case h_13 => simp at h; subst h; exact invRB_toUnl hk hq hi hpc hb
  case h_14 => simp at h; subst h; exact invRB_toFin hk hq hi hpc hb
  case h_15 => simp at h; subst h; exact invRB_asLock hk hq hi hpc hb
  case h_16 => simp at h; subst h; exact invRB_asRef hk hq hi hpc hb
  case h_17 => simp at h; subst h; exact invRB_asFin hk hq hi hpc hb
  case h_18 => simp at h; subst h; exact invRB_fdUnlS hk hq hi hpc hb
  case h_19 => simp at h; subst h; exact invRB_arLock hk hq hi hpc hb
  case h_20 => simp at h; subst h; exact invRB_arRef hk hq hi hpc hb
  case h_21 => simp at h; subst h; exact invRB_arFin hk hq hi hpc hb
  case h_22 => simp at h; subst h; exact invRB_fdUnlR hk hq hi hpc hb
  case h_23 =>
    simp at h; subst h
    have hk_owner := hk.owner
    have hk_lt_sq := hk.lt_sq
    have hk_lt_rq := hk.lt_rq
    have hk_nd_rq := hk.nd_rq
    have hk_rq_st := hk.rq_st
    have hk_sq_st := hk.sq_st
    have hk_sq_owner := hk.sq_owner
    clear hk
    obtain ⟨hq1⟩ := hq
    obtain ⟨h1⟩ := hi
    rk_fin
  case h_24 =>
    simp at h; subst h
    have hk_owner := hk.owner
    have hk_lt_sq := hk.lt_sq
    have hk_lt_rq := hk.lt_rq
    have hk_nd_rq := hk.nd_rq
    have hk_rq_st := hk.rq_st
    have hk_sq_st := hk.sq_st
    have hk_sq_owner := hk.sq_owner
    clear hk
    obtain ⟨hq1⟩ := hq
    obtain ⟨h1⟩ := hi
    rk_fin
  case h_25 => exact invRB_closeS hk hq hi hpc h
  case h_26 => exact invRB_closeR hk hq hi hpc h
  case h_27 => simp at h; subst h; exact invRB_hWake hk hq hi hpc hb

set_option maxHeartbeats 1600000 in
theorem invRB_call {s s' : State} {t : Nat} {op : Op} (hk : InvRK s) (hq : InvRQ s) (hi : InvRB s) (h : stepCall s t op = some s') : InvRB s' := by
  have hk_owner := hk.owner
  have hk_lt_sq := hk.lt_sq
  have hk_lt_rq := hk.lt_rq
  have hk_nd_rq := hk.nd_rq
  have hk_rq_st := hk.rq_st
  have hk_sq_st := hk.sq_st
  have hk_sq_owner := hk.sq_owner
  clear hk
  obtain ⟨hq1⟩ := hq
  obtain ⟨h1⟩ := hi
  unfold stepCall at h
  split at h
  · rename_i hr
    have hr' : s.pc t = .idle ∨ ∃ x, s.pc t = .done x := by
      cases hp : s.pc t <;> simp_all [PC.atRest]
    cases op <;> simp only [] at h
    all_goals (repeat' split at h)
    all_goals (simp at h; try subst h)
    all_goals rk_fin
  · simp at h

set_option maxHeartbeats 1600000 in
theorem invRB_poll {s s' : State} {t : Nat} (hk : InvRK s) (hq : InvRQ s) (hi : InvRB s) (h : stepPoll s t = some s') : InvRB s' := by
  have hk_owner := hk.owner
  have hk_lt_sq := hk.lt_sq
  have hk_lt_rq := hk.lt_rq
  have hk_nd_rq := hk.nd_rq
  have hk_rq_st := hk.rq_st
  have hk_sq_st := hk.sq_st
  have hk_sq_owner := hk.sq_owner
  clear hk
  obtain ⟨hq1⟩ := hq
  obtain ⟨h1⟩ := hi
  unfold stepPoll at h
  repeat' split at h
  all_goals (simp at h; try subst h)
  all_goals (try simp only [giveTo, takeFrom, finishRecv])
  all_goals (repeat' split)
  all_goals rk_fin

set_option maxHeartbeats 1600000 in
theorem invRB_dropFut {s s' : State} {t : Nat} (hk : InvRK s) (hq : InvRQ s) (hi : InvRB s) (hb : Benign s t .dropFut) (h : stepDropFut s t = some s') : InvRB s' := by
  have hk_owner := hk.owner
  have hk_lt_sq := hk.lt_sq
  have hk_lt_rq := hk.lt_rq
  have hk_nd_rq := hk.nd_rq
  have hk_rq_st := hk.rq_st
  have hk_sq_st := hk.sq_st
  have hk_sq_owner := hk.sq_owner
  clear hk
  obtain ⟨hq1⟩ := hq
  obtain ⟨h1⟩ := hi
  unfold stepDropFut at h
  repeat' split at h
  all_goals (simp at h; try subst h)
  all_goals (try simp only [Benign, *] at hb)
  all_goals rk_fin

theorem invRB_spurious {s s' : State} {t : Nat} (hk : InvRK s) (hq : InvRQ s) (hi : InvRB s) (h : stepSpurious s t = some s') : InvRB s' := by
  have hk_owner := hk.owner
  have hk_lt_sq := hk.lt_sq
  have hk_lt_rq := hk.lt_rq
  have hk_nd_rq := hk.nd_rq
  have hk_rq_st := hk.rq_st
  have hk_sq_st := hk.sq_st
  have hk_sq_owner := hk.sq_owner
  clear hk
  obtain ⟨hq1⟩ := hq
  obtain ⟨h1⟩ := hi
  unfold stepSpurious at h
  repeat' split at h
  all_goals (simp at h; try subst h)
  all_goals rk_fin

theorem invRB_step {s s' : State} {t : Nat} {l : Label} (hk : InvRK s) (hq : InvRQ s) (hi : InvRB s) (hb : Benign s t l) (h : step s t l = some s') : InvRB s' := by
  cases l <;> simp only [step] at h
  · exact invRB_call hk hq hi h
  · exact invRB_adv hk hq hi hb h
  · exact invRB_poll hk hq hi h
  · exact invRB_dropFut hk hq hi hb h
  · exact invRB_spurious hk hq hi h


theorem invRB_reach {s : State} (h : ReachB s) : InvRB s := by
  induction h with
  | init => exact invRB_init
  | step hr hb hs ih => exact invRB_step (invRK_reach hr.reach) (invRQ_reach hr.reach) ih hb hs

end Fv.Chan.RendezvousB
