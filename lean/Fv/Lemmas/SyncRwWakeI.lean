import Fv.Lemmas.SyncRwWakeF
/-!
`HybridRwLock` model: the wake invariant `WInv` (definitions).

Differences from the mutex: `wake_waiters` marks either the first queued writer (it stays linked)
or every queued reader AFTER unlinking it.  So a blocked reader's node may already be out of the
queue: it is then `WOKEN` (and accounted for by `PWk`), or it is the node a waker at `wrStore` is
about to mark (`MarkPending`).  Linked reader nodes are never `WOKEN` (`Inv.nodeWoken`).
-/
namespace Fv.Sync.RwLock
open Fv.Sync
variable {cfg : Cfg} {s s' : State} {t : Tid} {l : Lbl}

/-- a waker in the reader loop has unlinked `n` and is about to mark it -/
def MarkPending (s : State) (n : Nid) : Prop := ∃ v, (s.th v).pc = .wrStore ∧ (s.th v).tgt = n

/-- the owner of a node that a waker has unlinked but not yet marked is waiting -/
def TgtOwn (s : State) (n : Nid) : Prop :=
  match n with
  | .thr u => (s.th u).cur = none ∧ ((s.th u).pc = .wLoad ∨ (s.th u).pc = .wPark)
  | .fut f => (s.fut f).phase = .startedNode ∧ ∀ d, (s.th d).cur = some f → (s.th d).pc ≠ .dLoad

/-- the node table entry is current: a stack node always, a heap node while it is allocated -/
def Live (s : State) (n : Nid) : Prop :=
  match n with
  | .thr _ => True
  | .fut f => (s.fut f).phase = .startedNode

/-- `n` is a queued node whose owner keeps the lock from being forgotten: a writer (or any node
if no writer is queued) that is `WOKEN` or whose owner is in its acquisition / re-check phase -/
def Cov (s : State) (n : Nid) : Prop :=
  n ∈ s.wl.queue ∧ ((s.wl.node n).isWriter = true ∨ s.wl.writers = 0)
    ∧ ((s.wl.node n).woken = true ∨ OwnerActive s n)

def PBoc (s : State) : Prop :=
  ∀ u f, (s.th u).cur = some f → futPc (s.th u).pc = true → (s.th u).blockOn = (s.fut f).bo
/-- a `block_on` future is busy for its whole life -/
def PBb (s : State) : Prop := ∀ f, (s.fut f).bo = true → (s.fut f).busy = true ∨ (s.fut f).phase = .absent
def PBoPark (s : State) : Prop :=
  ∀ u, (s.th u).pc = .boPark → (s.th u).blockOn = true ∧ ∀ f, (s.th u).cur = some f → (s.fut f).phase = .startedNode
def PW1 (s : State) : Prop :=
  ∀ n w, (s.wl.node n).linked = true → (s.wl.node n).waiter = some w → Targets s w n
def PW2 (s : State) : Prop :=
  ∀ n, (s.wl.node n).linked = true → (s.wl.node n).waiter = none → (s.wl.node n).woken = true
def PQw (s : State) : Prop :=
  ∀ t, (s.th t).pc = .qRearm → (s.wl.node (me t (s.th t))).waiter = some (myWaiter t (s.th t))
def PQz (s : State) : Prop :=
  ∀ t, armedPc (s.th t).pc = true →
    (s.wl.node (me t (s.th t))).linked = true ∧ (s.wl.node (me t (s.th t))).woken = false
/-- a parked waiter's node is queued, or marked, or about to be marked -/
def PPk (s : State) : Prop :=
  ∀ t, ((s.th t).pc = .wLoad ∨ (s.th t).pc = .wPark ∨ (s.th t).pc = .boPark) →
    (s.wl.node (me t (s.th t))).linked = true ∨ (s.wl.node (me t (s.th t))).woken = true
      ∨ MarkPending s (me t (s.th t))
def PFl (s : State) : Prop :=
  ∀ f, (s.fut f).phase = .startedNode → (s.fut f).busy = false →
    (s.wl.node (.fut f)).linked = true ∨ (s.wl.node (.fut f)).woken = true ∨ MarkPending s (.fut f)
/-- the node a waker at `wrStore` is about to mark: still `WAITING`, its handle designates the
owner, and the owner is waiting -/
def PTw (s : State) : Prop :=
  ∀ v, (s.th v).pc = .wrStore →
    (s.wl.node (s.th v).tgt).woken = false
    ∧ (∃ w, (s.wl.node (s.th v).tgt).waiter = some w ∧ Targets s w (s.th v).tgt)
    ∧ TgtOwn s (s.th v).tgt
def PM2 (s : State) : Prop :=
  s.word.hq = false → s.wl.queue = [] ∨ ∃ u, (s.th u).pc = .qFetchOr ∧ s.wl.queue = [me u (s.th u)]
def PHl (s : State) : Prop := ∀ t, holdUnlinkPc (s.th t).pc = true → (t, (s.th t).wr) ∈ s.holders
/-- a `WOKEN` node whose owner is blocked is accounted for: the handle is in flight -/
def PWk (s : State) : Prop :=
  ∀ n, (s.wl.node n).woken = true → Live s n → OwnerBlocked s n → ∃ t, PostWake s t n
/-- NO LOST WAKEUP: with the lock free, a non-empty queue is covered -/
def PNlw (s : State) : Prop :=
  LockFree s → s.wl.queue ≠ [] → (∃ t, PreWake s t) ∨ ∃ n, Cov s n

structure WInv (s : State) : Prop where
  boc : PBoc s
  boPark : PBoPark s
  bb : PBb s
  w1 : PW1 s
  w2 : PW2 s
  qw : PQw s
  qz : PQz s
  pk : PPk s
  fl : PFl s
  tw : PTw s
  m2 : PM2 s
  hl : PHl s
  wk : PWk s
  nlw : PNlw s

end Fv.Sync.RwLock
