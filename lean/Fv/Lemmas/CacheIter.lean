import Fv.Lemmas.CacheFrame
/-
Helper lemmas for C17 (iteration and snapshots enumerate exactly the live entries):

* cursor arithmetic of `Iter::refill_buffer` / `Iter::next` (`refillLoop`, `refill`, `iterDrive`)
  for every shard count, shard contents, batch size and key order;
* `orderBy` is a permutation of a duplicate-free key list and never longer than the key list;
  the shards partition the keys;
* the snapshot iterator (`snapDrive`) and the snapshot / restore round trip (`restoreMap`).

Everything lives in `Fv.Cache.C17L` so that the names cannot clash with the other cache lemma files.
-/
namespace Fv.Cache.C17L
variable {P : Type}

/-! ### cursor arithmetic -/
theorem take_length_take {α} (n : Nat) (l : List α) : List.take (List.take n l).length l = List.take n l := by
  rw [List.length_take, List.take_eq_take_iff]; omega

theorem liveOf_append (m : List (Nat × Entry)) (now : Nat) (tti : Option Nat) (a b : List Nat) :
    liveOf m now tti (a ++ b) = liveOf m now tti a ++ liveOf m now tti b := by
  unfold liveOf; exact List.filterMap_append

def allKeys (nshards : Nat) (keysOf : Nat → List Nat) : List Nat := (List.range nshards).flatMap keysOf

def consumed (keysOf : Nat → List Nat) (shard seen : Nat) : List Nat :=
  allKeys shard keysOf ++ (keysOf shard).take seen

theorem allKeys_succ (n : Nat) (keysOf : Nat → List Nat) : allKeys (n + 1) keysOf = allKeys n keysOf ++ keysOf n := by
  simp [allKeys, List.range_succ, List.flatMap_append]

theorem allKeys_length_mono (keysOf : Nat → List Nat) {a b : Nat} (h : a ≤ b) :
    (allKeys a keysOf).length ≤ (allKeys b keysOf).length := by
  induction h with
  | refl => exact Nat.le_refl _
  | step _ ih => rw [allKeys_succ, List.length_append]; omega

theorem consumed_zero (keysOf : Nat → List Nat) (shard : Nat) : consumed keysOf shard 0 = allKeys shard keysOf := by
  simp [consumed]

theorem consumed_next_shard (keysOf : Nat → List Nat) (shard seen : Nat) (h : seen ≥ (keysOf shard).length) :
    consumed keysOf (shard + 1) 0 = consumed keysOf shard seen := by
  rw [consumed_zero, allKeys_succ, consumed, List.take_of_length_le h]

theorem consumed_advance (keysOf : Nat → List Nat) (shard seen c : Nat) :
    consumed keysOf shard (seen + c) = consumed keysOf shard seen ++ ((keysOf shard).drop seen).take c := by
  simp [consumed, List.take_add]

theorem consumed_length (keysOf : Nat → List Nat) (shard seen : Nat) :
    (consumed keysOf shard seen).length = (allKeys shard keysOf).length + min seen (keysOf shard).length := by
  simp [consumed, List.length_take]

theorem consumed_length_le (keysOf : Nat → List Nat) {shard n : Nat} (seen : Nat) (h : shard < n) :
    (consumed keysOf shard seen).length ≤ (allKeys n keysOf).length := by
  have h1 := allKeys_length_mono keysOf (Nat.succ_le_of_lt h)
  rw [allKeys_succ, List.length_append] at h1
  rw [consumed_length]; omega

structure CurInv (nshards : Nat) (keysOf : Nat → List Nat) (m : List (Nat × Entry)) (now : Nat) (tti : Option Nat)
    (it : IterSt) (acc : List (Nat × Nat)) : Prop where
  live : liveOf m now tti (consumed keysOf it.shard it.seen) = acc ++ it.buffer
  le : it.shard ≤ nshards
  atEnd : it.shard = nshards → it.seen = 0

theorem refillLoop_inv (nshards batch : Nat) (keysOf : Nat → List Nat) (m : List (Nat × Entry)) (now : Nat)
    (tti : Option Nat) (acc : List (Nat × Nat)) :
    ∀ (fuel : Nat) (it : IterSt), CurInv nshards keysOf m now tti it acc →
      CurInv nshards keysOf m now tti (refillLoop nshards batch keysOf m now tti fuel it) acc ∧
      (refillLoop nshards batch keysOf m now tti fuel it).finished = it.finished := by
  intro fuel
  induction fuel with
  | zero => intro it h; exact ⟨h, rfl⟩
  | succ fuel ih =>
    intro it h
    rw [refillLoop]
    split
    · next hc =>
      dsimp only
      split
      · next hs =>
        refine ih _ ⟨?_, ?_, ?_⟩
        · dsimp only; rw [consumed_next_shard keysOf it.shard it.seen hs]; exact h.live
        · dsimp only; omega
        · intro _; rfl
      · next hs =>
        refine ih _ ⟨?_, ?_, ?_⟩
        · dsimp only
          rw [consumed_advance, liveOf_append, h.live, List.append_assoc, take_length_take]
        · exact h.le
        · intro he; dsimp only at he; omega
    · exact ⟨h, rfl⟩

theorem refillLoop_exit (nshards batch : Nat) (keysOf : Nat → List Nat) (m : List (Nat × Entry)) (now : Nat)
    (tti : Option Nat) :
    ∀ (fuel : Nat) (it : IterSt),
      (nshards - it.shard) + ((allKeys nshards keysOf).length - (consumed keysOf it.shard it.seen).length) ≤ fuel →
      ¬ ((refillLoop nshards batch keysOf m now tti fuel it).shard < nshards ∧
         (refillLoop nshards batch keysOf m now tti fuel it).buffer.length < batch) := by
  intro fuel
  induction fuel with
  | zero => intro it h; rw [refillLoop]; omega
  | succ fuel ih =>
    intro it h
    rw [refillLoop]
    split
    · next hc =>
      dsimp only
      split
      · next hs =>
        apply ih
        dsimp only
        rw [consumed_next_shard keysOf it.shard it.seen hs]
        omega
      · next hs =>
        apply ih
        dsimp only
        have h1 := consumed_length_le keysOf (it.seen + (List.take (batch - it.buffer.length) (List.drop it.seen (keysOf it.shard))).length) hc.1
        rw [consumed_advance, List.length_append] at h1 ⊢
        have h2 : (List.take (List.take (batch - it.buffer.length) (List.drop it.seen (keysOf it.shard))).length (List.drop it.seen (keysOf it.shard))).length ≥ 1 := by
          simp only [List.length_take, List.length_drop]; omega
        omega
    · next hc => exact hc

theorem allKeys_prefix (keysOf : Nat → List Nat) {a b : Nat} (h : a ≤ b) :
    ∃ t, allKeys b keysOf = allKeys a keysOf ++ t := by
  induction h with
  | refl => exact ⟨[], by simp⟩
  | step _ ih =>
    obtain ⟨t, ht⟩ := ih
    exact ⟨t ++ keysOf _, by rw [allKeys_succ, ht, List.append_assoc]⟩

theorem consumed_prefix (keysOf : Nat → List Nat) {shard seen n : Nat} (hle : shard ≤ n) (hend : shard = n → seen = 0) :
    ∃ t, allKeys n keysOf = consumed keysOf shard seen ++ t := by
  by_cases h : shard = n
  · subst h; rw [hend rfl, consumed_zero]; exact ⟨[], by simp⟩
  · obtain ⟨t, ht⟩ := allKeys_prefix keysOf (show shard + 1 ≤ n by omega)
    refine ⟨(keysOf shard).drop seen ++ t, ?_⟩
    rw [ht, allKeys_succ, consumed]
    simp only [List.append_assoc]
    rw [← List.append_assoc (List.take seen _), List.take_append_drop]

theorem CurInv.atEnd_all {nshards : Nat} {keysOf : Nat → List Nat} {m : List (Nat × Entry)} {now : Nat} {tti : Option Nat}
    {it : IterSt} {acc : List (Nat × Nat)} (h : CurInv nshards keysOf m now tti it acc) (he : it.shard = nshards) :
    liveOf m now tti (allKeys nshards keysOf) = acc ++ it.buffer := by
  have := h.live
  rw [h.atEnd he, consumed_zero, he] at this
  exact this

theorem CurInv.length_le {nshards : Nat} {keysOf : Nat → List Nat} {m : List (Nat × Entry)} {now : Nat} {tti : Option Nat}
    {it : IterSt} {acc : List (Nat × Nat)} (h : CurInv nshards keysOf m now tti it acc) :
    acc.length + it.buffer.length ≤ (liveOf m now tti (allKeys nshards keysOf)).length := by
  obtain ⟨t, ht⟩ := consumed_prefix keysOf (seen := it.seen) h.le h.atEnd
  rw [ht, liveOf_append, h.live]
  simp only [List.length_append]; omega

/-- one `refill_buffer` call from an unfinished cursor: the invariant is kept, `finished` is set
    exactly when the cursor has left the last shard, and an empty buffer afterwards means the
    cursor has left the last shard (the loop cannot run out of fuel). -/
theorem refill_spec (nshards batch : Nat) (keysOf : Nat → List Nat) (m : List (Nat × Entry)) (now : Nat)
    (tti : Option Nat) (acc : List (Nat × Nat)) (it : IterSt)
    (hall : (allKeys nshards keysOf).length ≤ m.length) (hb : 1 ≤ batch)
    (h : CurInv nshards keysOf m now tti it acc) (hf : it.finished = false) :
    CurInv nshards keysOf m now tti (refill nshards batch keysOf m now tti it) acc ∧
    ((refill nshards batch keysOf m now tti it).finished = true → (refill nshards batch keysOf m now tti it).shard = nshards) ∧
    ((refill nshards batch keysOf m now tti it).buffer = [] → (refill nshards batch keysOf m now tti it).shard = nshards) := by
  have hi := refillLoop_inv nshards batch keysOf m now tti acc (nshards + m.length + 1) it h
  have hx := refillLoop_exit nshards batch keysOf m now tti (nshards + m.length + 1) it (by omega)
  unfold refill
  rw [if_neg (by simp [hf])]
  dsimp only
  generalize refillLoop nshards batch keysOf m now tti (nshards + m.length + 1) it = it1 at hi hx
  obtain ⟨hinv, hfin⟩ := hi
  have hle := hinv.le
  split
  · next hge =>
    refine ⟨⟨hinv.live, hinv.le, hinv.atEnd⟩, ?_, ?_⟩
    · intro _; dsimp only; omega
    · intro _; dsimp only; omega
  · next hlt =>
    refine ⟨hinv, ?_, ?_⟩
    · intro hft; rw [hfin, hf] at hft; cases hft
    · intro hb0; rw [hb0] at hx; simp only [List.length_nil] at hx; omega

theorem iterDrive_none_succ (nshards batch : Nat) (keysOf : Nat → List Nat) (m : List (Nat × Entry)) (tti : Option Nat)
    (fuel now : Nat) (it : IterSt) (acc : List (Nat × Nat)) :
    iterDrive nshards batch keysOf m tti (fuel + 1) now none it acc =
      match it.buffer with
      | x :: rest => iterDrive nshards batch keysOf m tti fuel now none { it with buffer := rest } (acc ++ [x])
      | [] =>
        if it.finished then (now, acc)
        else
          match (refill nshards batch keysOf m now tti it).buffer with
          | x :: rest => iterDrive nshards batch keysOf m tti fuel now none
              { refill nshards batch keysOf m now tti it with buffer := rest } (acc ++ [x])
          | [] => (now, acc) := by
  rw [iterDrive]; rfl

theorem iterDrive_none (nshards batch : Nat) (keysOf : Nat → List Nat) (m : List (Nat × Entry)) (tti : Option Nat)
    (now : Nat) (hall : (allKeys nshards keysOf).length ≤ m.length) (hb : 1 ≤ batch) :
    ∀ (fuel : Nat) (it : IterSt) (acc : List (Nat × Nat)),
      CurInv nshards keysOf m now tti it acc → (it.finished = true → it.shard = nshards) →
      (liveOf m now tti (allKeys nshards keysOf)).length + 1 ≤ fuel + acc.length →
      iterDrive nshards batch keysOf m tti fuel now none it acc = (now, liveOf m now tti (allKeys nshards keysOf)) := by
  intro fuel
  induction fuel with
  | zero =>
    intro it acc h _ hfuel
    have := h.length_le
    omega
  | succ fuel ih =>
    intro it acc h hfin hfuel
    rw [iterDrive_none_succ]
    split
    · next x rest hbuf =>
      apply ih
      · exact ⟨by rw [h.live, hbuf]; simp, h.le, h.atEnd⟩
      · exact hfin
      · simp only [List.length_append, List.length_singleton]; omega
    · next hbuf =>
      split
      · next hf =>
        rw [h.atEnd_all (hfin hf), hbuf, List.append_nil]
      · next hf =>
        obtain ⟨hinv, hfin', hemp⟩ := refill_spec nshards batch keysOf m now tti acc it hall hb h (by simpa using hf)
        generalize refill nshards batch keysOf m now tti it = it1 at hinv hfin' hemp
        split
        · next x rest hbuf1 =>
          apply ih
          · exact ⟨by rw [hinv.live, hbuf1]; simp, hinv.le, hinv.atEnd⟩
          · exact hfin'
          · simp only [List.length_append, List.length_singleton]; omega
        · next hbuf1 =>
          rw [hinv.atEnd_all (hemp hbuf1), hbuf1, List.append_nil]


/-! ### `orderBy` is a permutation -/
theorem nodup_eraseDups_aux : ∀ (n : Nat) (l : List Nat), l.length ≤ n → l.eraseDups.Nodup
  | 0, l, h => by
    have : l = [] := List.eq_nil_of_length_eq_zero (by omega)
    subst this; simp
  | _ + 1, [], _ => by simp
  | n + 1, a :: as, h => by
    rw [List.eraseDups_cons, List.nodup_cons]
    refine ⟨?_, nodup_eraseDups_aux n _ ?_⟩
    · simp [List.mem_eraseDups]
    · have := List.length_filter_le (fun b => !b == a) as
      simp only [List.length_cons] at h; omega

theorem nodup_eraseDups (l : List Nat) : l.eraseDups.Nodup := nodup_eraseDups_aux l.length l (Nat.le_refl _)

theorem mem_orderBy (hint keys : List Nat) (k : Nat) : k ∈ orderBy hint keys ↔ k ∈ keys := by
  unfold orderBy
  simp only [List.mem_append, List.mem_eraseDups, List.mem_filter, Bool.not_eq_true',
    List.contains_eq_mem, decide_eq_true_eq, decide_eq_false_iff_not]
  by_cases h : k ∈ hint <;> simp [h]

theorem nodup_orderBy (hint keys : List Nat) (h : keys.Nodup) : (orderBy hint keys).Nodup := by
  unfold orderBy
  rw [List.nodup_append]
  refine ⟨nodup_eraseDups _, List.Nodup.sublist List.filter_sublist h, ?_⟩
  intro a ha b hb hab
  subst hab
  simp only [List.mem_eraseDups, List.mem_filter] at ha hb
  simp [ha.1] at hb

theorem length_filter_add_not (p : Nat → Bool) (l : List Nat) :
    (l.filter p).length + (l.filter (fun a => !p a)).length = l.length := by
  induction l with
  | nil => rfl
  | cons a l ih => simp only [List.filter_cons]; cases p a <;> simp <;> omega

theorem orderBy_length_le (hint keys : List Nat) : (orderBy hint keys).length ≤ keys.length := by
  unfold orderBy
  rw [List.length_append]
  have h1 : ((hint.filter (fun k => keys.contains k)).eraseDups).length ≤ (keys.filter (fun k => hint.contains k)).length := by
    apply List.Nodup.length_le_of_subset (nodup_eraseDups _)
    intro a ha
    simp only [List.mem_eraseDups, List.mem_filter, List.contains_iff_mem] at ha ⊢
    exact ⟨ha.2, ha.1⟩
  have h2 := length_filter_add_not (fun k => hint.contains k) keys
  omega

/-! ### the shards partition the keys -/
theorem length_filter_lt_succ (g : Nat → Nat) (n : Nat) (ks : List Nat) :
    (ks.filter (fun k => decide (g k < n))).length + (ks.filter (fun k => g k == n)).length =
      (ks.filter (fun k => decide (g k < n + 1))).length := by
  induction ks with
  | nil => rfl
  | cons a l ih =>
    simp only [List.filter_cons, beq_iff_eq, decide_eq_true_eq]
    repeat' split
    all_goals try simp only [List.length_cons]
    all_goals try simp only [beq_iff_eq, decide_eq_true_eq] at ih
    all_goals omega

theorem allKeys_length_le_filter (g : Nat → Nat) (ks : List Nat) (f : Nat → List Nat)
    (hf : ∀ i, (f i).length ≤ (ks.filter (fun k => g k == i)).length) :
    ∀ n, (allKeys n f).length ≤ (ks.filter (fun k => decide (g k < n))).length := by
  intro n
  induction n with
  | zero => simp [allKeys]
  | succ n ih =>
    rw [allKeys_succ, List.length_append, ← length_filter_lt_succ]
    have := hf n
    omega

theorem shardKeys_allKeys_length_le (cfg : Cfg) (s : State P) (ord : List Nat) :
    (allKeys cfg.nshards (fun i => s.shardKeys cfg ord i)).length ≤ s.map.length := by
  have h := allKeys_length_le_filter cfg.shardOf (s.map.map (fun p : Nat × Entry => p.1)) (fun i => s.shardKeys cfg ord i)
    (fun i => by unfold State.shardKeys; exact orderBy_length_le _ _) cfg.nshards
  have h2 := List.length_filter_le (fun k => decide (cfg.shardOf k < cfg.nshards)) (s.map.map (fun p : Nat × Entry => p.1))
  rw [List.length_map] at h2
  omega

theorem allKeys_nodup (g : Nat → Nat) (f : Nat → List Nat) (hn : ∀ i, (f i).Nodup) (hg : ∀ i k, k ∈ f i → g k = i) :
    ∀ n, (allKeys n f).Nodup := by
  intro n
  induction n with
  | zero => simp [allKeys]
  | succ n ih =>
    rw [allKeys_succ, List.nodup_append]
    refine ⟨ih, hn n, ?_⟩
    intro a ha b hb hab
    subst hab
    simp only [allKeys, List.mem_flatMap, List.mem_range] at ha
    obtain ⟨i, hi, hai⟩ := ha
    have := hg i a hai
    have := hg n a hb
    omega

theorem mem_shardKeys (cfg : Cfg) (s : State P) (ord : List Nat) (i k : Nat) :
    k ∈ s.shardKeys cfg ord i ↔ k ∈ s.map.map (·.1) ∧ cfg.shardOf k = i := by
  unfold State.shardKeys
  rw [mem_orderBy, List.mem_filter]
  simp

theorem shardKeys_nodup (cfg : Cfg) (s : State P) (ord : List Nat) (i : Nat) (h : (s.map.map (·.1)).Nodup) :
    (s.shardKeys cfg ord i).Nodup :=
  nodup_orderBy _ _ (List.Nodup.sublist List.filter_sublist h)

theorem shardKeys_allKeys_nodup (cfg : Cfg) (s : State P) (ord : List Nat) (h : (s.map.map (·.1)).Nodup) :
    (allKeys cfg.nshards (fun i => s.shardKeys cfg ord i)).Nodup :=
  allKeys_nodup cfg.shardOf _ (fun i => shardKeys_nodup cfg s ord i h)
    (fun i k hk => ((mem_shardKeys cfg s ord i k).1 hk).2) _

theorem mem_shardKeys_allKeys (cfg : Cfg) (s : State P) (ord : List Nat) (hn : 0 < cfg.nshards) (k : Nat) :
    k ∈ allKeys cfg.nshards (fun i => s.shardKeys cfg ord i) ↔ k ∈ s.map.map (·.1) := by
  simp only [allKeys, List.mem_flatMap, List.mem_range, mem_shardKeys]
  constructor
  · rintro ⟨i, _, hk, _⟩; exact hk
  · intro hk; exact ⟨cfg.shardOf k, Nat.mod_lt _ hn, hk, rfl⟩

/-! ### `liveOf`, `lookup` -/
theorem liveOf_length_le (m : List (Nat × Entry)) (now : Nat) (tti : Option Nat) (ks : List Nat) :
    (liveOf m now tti ks).length ≤ ks.length := by
  unfold liveOf; exact List.length_filterMap_le _ _

/-- CURSOR ARITHMETIC.  For every shard count `nshards` (0 included), every per-shard key order
    `keysOf` (shards may be empty, keys may repeat), every batch size `≥ 1` and every map: driving
    `next()` to the end with no clock advance in between yields exactly the live entries of
    `(range nshards).flatMap keysOf`, in that order, provided the key lists are together no longer
    than the map (that is what makes `refill`'s hard-wired loop bound `nshards + m.length + 1`
    enough) and the driver's fuel exceeds their total length.  Batches that end exactly at a shard
    end, empty shards, and batches consisting only of expired entries are all instances. -/
theorem iterDrive_exact (nshards batch : Nat) (keysOf : Nat → List Nat) (m : List (Nat × Entry)) (tti : Option Nat)
    (now fuel : Nat) (hb : 1 ≤ batch) (hall : (allKeys nshards keysOf).length ≤ m.length)
    (hfuel : (allKeys nshards keysOf).length + 1 ≤ fuel) :
    iterDrive nshards batch keysOf m tti fuel now none {} [] = (now, liveOf m now tti (allKeys nshards keysOf)) := by
  apply iterDrive_none nshards batch keysOf m tti now hall hb
  · exact ⟨rfl, Nat.zero_le _, fun _ => rfl⟩
  · intro h; cases h
  · have := liveOf_length_le m now tti (allKeys nshards keysOf)
    simp only [List.length_nil]; omega

theorem mem_liveOf (m : List (Nat × Entry)) (now : Nat) (tti : Option Nat) (ks : List Nat) (k v : Nat) :
    (k, v) ∈ liveOf m now tti ks ↔ k ∈ ks ∧ ∃ e, lookup m k = some e ∧ e.isExpired now tti = false ∧ e.vid = v := by
  unfold liveOf
  simp only [List.mem_filterMap]
  constructor
  · rintro ⟨k', hk', h⟩
    split at h
    · next e he =>
      split at h
      · cases h
      · next hx =>
        simp only [Option.some.injEq, Prod.mk.injEq] at h
        obtain ⟨rfl, rfl⟩ := h
        exact ⟨hk', e, he, by simpa using hx, rfl⟩
    · cases h
  · rintro ⟨hk, e, he, hx, rfl⟩
    exact ⟨k, hk, by simp [he, hx]⟩

theorem liveOf_keys_sublist (m : List (Nat × Entry)) (now : Nat) (tti : Option Nat) (ks : List Nat) :
    ((liveOf m now tti ks).map (·.1)).Sublist ks := by
  induction ks with
  | nil => exact List.Sublist.refl _
  | cons k ks ih =>
    unfold liveOf
    rw [List.filterMap_cons]
    split
    · exact List.Sublist.cons _ ih
    · next b hb =>
      have : b.1 = k := by
        split at hb
        · split at hb
          · cases hb
          · cases hb; rfl
        · cases hb
      rw [List.map_cons, this]
      exact List.Sublist.cons_cons _ ih

theorem liveOf_congr (m m' : List (Nat × Entry)) (now : Nat) (tti : Option Nat) (ks : List Nat)
    (h : ∀ k ∈ ks, lookup m' k = lookup m k) : liveOf m' now tti ks = liveOf m now tti ks := by
  induction ks with
  | nil => rfl
  | cons k ks ih =>
    unfold liveOf at ih ⊢
    rw [List.filterMap_cons, List.filterMap_cons, h k (List.mem_cons_self ..),
      ih (fun k' hk' => h k' (List.mem_cons_of_mem _ hk'))]

theorem lookup_of_mem_nodup {m : List (Nat × Entry)} {k : Nat} {e : Entry} (hn : (m.map (·.1)).Nodup)
    (h : (k, e) ∈ m) : lookup m k = some e := by
  induction m with
  | nil => cases h
  | cons p rest ih =>
    obtain ⟨k', e'⟩ := p
    rw [List.map_cons, List.nodup_cons] at hn
    unfold lookup
    rcases List.mem_cons.1 h with heq | hmem
    · cases heq; simp
    · have hne : k' ≠ k := by
        intro hk; subst hk
        exact hn.1 (List.mem_map.2 ⟨(k', e), hmem, rfl⟩)
      rw [if_neg hne]; exact ih hn.2 hmem

theorem lookup_iff_mem_nodup {m : List (Nat × Entry)} (hn : (m.map (·.1)).Nodup) (k : Nat) (e : Entry) :
    lookup m k = some e ↔ (k, e) ∈ m := ⟨lookup_mem, lookup_of_mem_nodup hn⟩

theorem lookup_put_ne (m : List (Nat × Entry)) (k k' : Nat) (e : Entry) (h : k ≠ k') :
    lookup (put m k e) k' = lookup m k' := by
  unfold put
  rw [lookup, if_neg h]
  unfold erase
  induction m with
  | nil => rfl
  | cons p rest ih =>
    obtain ⟨k1, e1⟩ := p
    rw [List.filter_cons]
    by_cases hk : k1 = k
    · subst hk; simp only [bne_self_eq_false, Bool.false_eq_true, if_false]; rw [ih]; simp [lookup, h]
    · simp only [bne_iff_ne, ne_eq, hk, not_false_eq_true, if_true]
      unfold lookup; rw [ih]


/-! ### the snapshot iterator -/
theorem liveOf_cons_none {m : List (Nat × Entry)} {k : Nat} (now : Nat) (tti : Option Nat) (ks : List Nat)
    (h : lookup m k = none) : liveOf m now tti (k :: ks) = liveOf m now tti ks := by
  simp [liveOf, h]

theorem liveOf_cons_expired {m : List (Nat × Entry)} {k : Nat} {e : Entry} {now : Nat} {tti : Option Nat} (ks : List Nat)
    (h : lookup m k = some e) (hx : e.isExpired now tti = true) : liveOf m now tti (k :: ks) = liveOf m now tti ks := by
  simp [liveOf, h, hx]

theorem liveOf_cons_live {m : List (Nat × Entry)} {k : Nat} {e : Entry} {now : Nat} {tti : Option Nat} (ks : List Nat)
    (h : lookup m k = some e) (hx : e.isExpired now tti = false) :
    liveOf m now tti (k :: ks) = (k, e.vid) :: liveOf m now tti ks := by
  simp [liveOf, h, hx]

theorem onHit_map (cfg : Cfg) (s : State P) (k : Nat) (e : Entry) :
    (s.onHit cfg k e).map = put s.map k (e.touch s.now cfg.tti) := by
  unfold State.onHit; dsimp only; split <;> rfl

theorem onHit_now (cfg : Cfg) (s : State P) (k : Nat) (e : Entry) : (s.onHit cfg k e).now = s.now := by
  unfold State.onHit; dsimp only; split <;> rfl

theorem get_cases (cfg : Cfg) (s : State P) (k : Nat) :
    (lookup s.map k = none ∧ s.get cfg k = (s.miss 1, none)) ∨
    (∃ e, lookup s.map k = some e ∧ e.isExpired s.now cfg.tti = true ∧ s.get cfg k = (s.miss 1, none)) ∨
    (∃ e, lookup s.map k = some e ∧ e.isExpired s.now cfg.tti = false ∧
      s.get cfg k = ((s.onHit cfg k e).hit 1, some e.vid)) := by
  unfold State.get
  cases h : lookup s.map k with
  | none => exact Or.inl ⟨rfl, rfl⟩
  | some e =>
    cases hx : e.isExpired s.now cfg.tti with
    | true => exact Or.inr (Or.inl ⟨e, rfl, hx, by simp [hx]⟩)
    | false => exact Or.inr (Or.inr ⟨e, rfl, hx, by simp [hx]⟩)

theorem snapDrive_none_cons (cfg : Cfg) (s : State P) (k : Nat) (ks : List Nat) (acc : List (Nat × Nat)) :
    snapDrive cfg s (k :: ks) none acc =
      match s.get cfg k with
      | (s', some v) => snapDrive cfg s' ks none (acc ++ [(k, v)])
      | (s', none) => snapDrive cfg s' ks none acc := by
  rw [snapDrive]; rfl

theorem snapDrive_none (cfg : Cfg) :
    ∀ (ks : List Nat) (s : State P) (acc : List (Nat × Nat)), ks.Nodup →
      (snapDrive cfg s ks none acc).2 = acc ++ liveOf s.map s.now cfg.tti ks ∧
      (snapDrive cfg s ks none acc).1.now = s.now := by
  intro ks
  induction ks with
  | nil => intro s acc _; rw [snapDrive]; simp [liveOf]
  | cons k ks ih =>
    intro s acc hnd
    rw [List.nodup_cons] at hnd
    rw [snapDrive_none_cons]
    rcases get_cases cfg s k with ⟨he, hg⟩ | ⟨e, he, hx, hg⟩ | ⟨e, he, hx, hg⟩
    · rw [hg]; dsimp only
      rw [liveOf_cons_none s.now cfg.tti ks he]
      exact ih (s.miss 1) acc hnd.2
    · rw [hg]; dsimp only
      rw [liveOf_cons_expired ks he hx]
      exact ih (s.miss 1) acc hnd.2
    · rw [hg]; dsimp only
      have h := ih ((s.onHit cfg k e).hit 1) (acc ++ [(k, e.vid)]) hnd.2
      have hm : ((s.onHit cfg k e).hit 1).map = put s.map k (e.touch s.now cfg.tti) := onHit_map cfg s k e
      have hn : ((s.onHit cfg k e).hit 1).now = s.now := onHit_now cfg s k e
      rw [hm, hn] at h
      rw [liveOf_cons_live ks he hx]
      rw [liveOf_congr s.map (put s.map k (e.touch s.now cfg.tti)) s.now cfg.tti ks
        (fun k' hk' => lookup_put_ne _ _ _ _ (by intro hkk; subst hkk; exact hnd.1 hk'))] at h
      simpa using h


/-! ### snapshot / restore -/
/-- what `build_from_snapshot` at `now'` makes of an entry `e` that was snapshotted at `now` -/
def restoredOf (cfg : Cfg) (now now' : Nat) (e : Entry) : Entry :=
  { vid := e.vid, cost := e.cost,
    expiresAt := if e.expiresAt = 0 then 0 else now' + (e.expiresAt - now),
    lastAccessed := match cfg.tti with | some _ => now' | none => 0 }

/-- the snapshot record `to_snapshot` writes for a live binding -/
def snapEntryOf (now : Nat) (p : Nat × Entry) : SnapEntry :=
  { key := p.1, vid := p.2.vid, cost := p.2.cost,
    ttlRemaining := if p.2.expiresAt = 0 then none
                    else if now ≤ p.2.expiresAt then some (p.2.expiresAt - now) else none }

theorem snapshotOf_entries (cfg : Cfg) (m : List (Nat × Entry)) (now : Nat) :
    (snapshotOf cfg m now).entries =
      (m.filter (fun p => !p.2.isExpired now cfg.tti)).map (snapEntryOf now) := by
  unfold snapshotOf
  dsimp only
  induction m with
  | nil => rfl
  | cons p rest ih =>
    obtain ⟨k, e⟩ := p
    rw [List.filterMap_cons, List.filter_cons]
    cases hx : e.isExpired now cfg.tti with
    | true => simpa [hx] using ih
    | false => simp [ih, snapEntryOf]

theorem restoredEntry_snapEntryOf (cfg : Cfg) (now now' : Nat) (k : Nat) (e : Entry)
    (hx : e.isExpired now cfg.tti = false) :
    restoredEntry cfg now' (snapEntryOf now (k, e)) = (k, restoredOf cfg now now' e) := by
  have h := (isExpired_false_iff e now cfg.tti).1 hx
  unfold restoredEntry snapEntryOf restoredOf
  dsimp only
  by_cases h0 : e.expiresAt = 0
  · simp [h0]; cases cfg.tti <;> rfl
  · have : now ≤ e.expiresAt := by omega
    simp [h0, this]; cases cfg.tti <;> rfl

theorem put_keys_nodup (m : List (Nat × Entry)) (k : Nat) (e : Entry) (h : (m.map (·.1)).Nodup) :
    ((put m k e).map (·.1)).Nodup := by
  unfold put
  rw [List.map_cons, List.nodup_cons]
  refine ⟨?_, List.Nodup.sublist (List.Sublist.map _ List.filter_sublist) h⟩
  intro hk
  obtain ⟨⟨k', e'⟩, hm, hk'⟩ := List.mem_map.1 hk
  exact (mem_erase.1 hm).2 hk'

theorem restoreMap_keys_nodup (cfg : Cfg) (now : Nat) :
    ∀ (ps : List SnapEntry) (m0 : List (Nat × Entry)), (m0.map (·.1)).Nodup →
      ((restoreMap cfg now ps m0).map (·.1)).Nodup := by
  intro ps
  induction ps with
  | nil => intro m0 h; exact h
  | cons p ps ih => intro m0 h; rw [restoreMap]; exact ih _ (put_keys_nodup _ _ _ h)

theorem mem_restoreMap (cfg : Cfg) (now : Nat) :
    ∀ (ps : List SnapEntry) (m0 : List (Nat × Entry)), (ps.map (·.key)).Nodup →
      ∀ (k : Nat) (e' : Entry), (k, e') ∈ restoreMap cfg now ps m0 ↔
        (∃ p, p ∈ ps ∧ p.key = k ∧ e' = (restoredEntry cfg now p).2) ∨ ((k, e') ∈ m0 ∧ ∀ p, p ∈ ps → p.key ≠ k) := by
  intro ps
  induction ps with
  | nil => intro m0 _ k e'; simp [restoreMap]
  | cons p ps ih =>
    intro m0 hn k e'
    rw [List.map_cons, List.nodup_cons] at hn
    rw [restoreMap, ih _ hn.2, mem_put]
    constructor
    · rintro (⟨q, hq, hk, he⟩ | ⟨(⟨hk, he⟩ | ⟨hm, hk⟩), hall⟩)
      · exact Or.inl ⟨q, List.mem_cons_of_mem _ hq, hk, he⟩
      · exact Or.inl ⟨p, List.mem_cons_self .., hk.symm, he⟩
      · refine Or.inr ⟨hm, ?_⟩
        intro q hq
        rcases List.mem_cons.1 hq with rfl | hq
        · exact fun h => hk h.symm
        · exact hall q hq
    · rintro (⟨q, hq, hk, he⟩ | ⟨hm, hall⟩)
      · rcases List.mem_cons.1 hq with rfl | hq
        · refine Or.inr ⟨Or.inl ⟨hk.symm, he⟩, ?_⟩
          intro r hr hrk
          exact hn.1 (List.mem_map.2 ⟨r, hr, hrk.trans hk.symm⟩)
        · exact Or.inl ⟨q, hq, hk, he⟩
      · exact Or.inr ⟨Or.inr ⟨hm, fun h => hall p (List.mem_cons_self ..) h.symm⟩,
          fun q hq => hall q (List.mem_cons_of_mem _ hq)⟩

theorem mem_restore_snapshot (cfg : Cfg) (p0 : P) (m : List (Nat × Entry)) (now now' : Nat)
    (hn : (m.map (·.1)).Nodup) (k : Nat) (e' : Entry) :
    (k, e') ∈ (State.restore cfg p0 now' (snapshotOf cfg m now)).map ↔
      ∃ e, (k, e) ∈ m ∧ e.isExpired now cfg.tti = false ∧ e' = restoredOf cfg now now' e := by
  show (k, e') ∈ restoreMap cfg now' (snapshotOf cfg m now).entries [] ↔ _
  have hnd : ((snapshotOf cfg m now).entries.map (·.key)).Nodup := by
    rw [snapshotOf_entries, List.map_map]
    exact List.Nodup.sublist (List.Sublist.map _ List.filter_sublist) hn
  rw [mem_restoreMap cfg now' _ [] hnd, snapshotOf_entries]
  constructor
  · rintro (⟨p, hp, hk, he⟩ | ⟨h, _⟩)
    · obtain ⟨⟨k1, e⟩, hm, rfl⟩ := List.mem_map.1 hp
      rw [List.mem_filter] at hm
      have hx : e.isExpired now cfg.tti = false := by simpa using hm.2
      rw [restoredEntry_snapEntryOf cfg now now' k1 e hx] at he
      cases hk
      exact ⟨e, hm.1, hx, he⟩
    · cases h
  · rintro ⟨e, hm, hx, he⟩
    refine Or.inl ⟨snapEntryOf now (k, e), List.mem_map.2 ⟨(k, e), List.mem_filter.2 ⟨hm, by simp [hx]⟩, rfl⟩, rfl, ?_⟩
    rw [restoredEntry_snapEntryOf cfg now now' k e hx]; exact he

theorem restore_keys_nodup (cfg : Cfg) (p0 : P) (now : Nat) (sn : Snapshot) :
    ((State.restore cfg p0 now sn).map.map (·.1)).Nodup :=
  restoreMap_keys_nodup cfg now sn.entries [] List.nodup_nil

theorem foldl_addW (ps : List SnapEntry) : ∀ a : Nat,
    ps.foldl (fun a p => addW a p.cost) a = if ps = [] then a else (a + (ps.map (·.cost)).sum) % U64 := by
  induction ps with
  | nil => intro a; rfl
  | cons p ps ih =>
    intro a
    rw [List.foldl_cons, ih]
    by_cases hps : ps = []
    · subst hps; simp [addW]
    · simp only [hps, if_false, List.map_cons, List.sum_cons, addW, reduceCtorEq]
      rw [Nat.mod_add_mod, Nat.add_assoc]

theorem restore_currentCost (cfg : Cfg) (p0 : P) (now : Nat) (sn : Snapshot) :
    (State.restore cfg p0 now sn).met.currentCost = ((sn.entries.map (·.cost)).sum) % U64 := by
  show sn.entries.foldl (fun a p => addW a p.cost) 0 = _
  rw [foldl_addW]
  split
  · next h => rw [h]; rfl
  · simp

theorem restore_aux (cfg : Cfg) (p0 : P) (now : Nat) (sn : Snapshot) (a : Aux P)
    (h : a ∈ (State.restore cfg p0 now sn).aux) : a.events = [] ∧ a.batch = [] ∧ a.policy = p0 := by
  have h' : a ∈ List.replicate cfg.nshards
      ({ wheel := if cfg.hasWheel then some (Wheel.new cfg.wheelSize cfg.tickDur) else none, policy := p0 } : Aux P) := h
  rw [List.mem_replicate] at h'
  rw [h'.2]
  exact ⟨rfl, rfl, rfl⟩

end Fv.Cache.C17L
