import Fv.Lemmas.SyncRwInv4
/-!
Second invariant of the `HybridRwLock` model (`Inv2`): the queue flags of the state word.
`WRITER_PENDING` and `HAS_QUEUED` are written only inside list critical sections (`qFetchOr`,
`ff1`, `ff2`), and so are the counters `writers` / `len` of the wait list.  Outside the windows
listed by `wpWin` / `hqWin` - in particular whenever the list spinlock is free -
`WRITER_PENDING ⇔ 0 < writers` and `HAS_QUEUED ⇔ 0 < len`.
-/
namespace Fv.Sync.WaitList

theorem WF.writers_pos {wl : WaitList} (h : wl.WF) {n : Nid} (hl : (wl.node n).linked = true)
    (hw : (wl.node n).isWriter = true) : 0 < wl.writers := by
  rw [h.writers]
  exact List.countP_pos_iff.2 ⟨n, (h.linked n).1 hl, hw⟩

theorem WF.len_pos {wl : WaitList} (h : wl.WF) {n : Nid} (hl : (wl.node n).linked = true) : 0 < wl.len := by
  rw [h.len]
  exact List.length_pos_of_mem ((h.linked n).1 hl)

end Fv.Sync.WaitList

namespace Fv.Sync.RwLock
open Fv.Sync
variable {cfg : Cfg} {s s' : State} {t : Tid} {l : Lbl}

/-- critical-section pcs at which `WRITER_PENDING` may disagree with `writers`: between a link and
the `fetch_or` that follows it, and between an unlink and the first RMW of `fix_flags` -/
def wpWin : Pc → Bool
  | .qFetchOr | .ff1 _ => true
  | .idle | .taLoad _ | .taCas _ | .spinYield | .llSwap _ | .llLoad _ | .llSpin _ | .qRearm | .qLoad | .qCas
  | .ff2 _ | .llRel _ | .wLoad | .wPark | .relSub | .relAnd | .wnStore | .wrStore | .wnWake | .dLoad | .boPark
  | .ret _ => false

/-- critical-section pcs at which `HAS_QUEUED` may disagree with `len`: as `wpWin`, up to the second
RMW of `fix_flags`, and the reader loop of `wake_waiters` -/
def hqWin : Pc → Bool
  | .qFetchOr | .ff1 _ | .ff2 _ | .wrStore => true
  | .idle | .taLoad _ | .taCas _ | .spinYield | .llSwap _ | .llLoad _ | .llSpin _ | .qRearm | .qLoad | .qCas
  | .llRel _ | .wLoad | .wPark | .relSub | .relAnd | .wnStore | .wnWake | .dLoad | .boPark | .ret _ => false

def PWpFree (s : State) : Prop := s.wl.locked = false → (s.word.wp = true ↔ 0 < s.wl.writers)
def PWpIn (s : State) : Prop :=
  ∀ t, inLL (s.th t).pc = true → wpWin (s.th t).pc = false → (s.word.wp = true ↔ 0 < s.wl.writers)
/-- just before the `fetch_or` of the queue block: a writer has its node linked; a reader has not
changed `writers` -/
def PWpFo (s : State) : Prop :=
  ∀ t, (s.th t).pc = .qFetchOr →
    (s.word.wp = true → 0 < s.wl.writers)
    ∧ ((s.th t).wr = false → 0 < s.wl.writers → s.word.wp = true)
    ∧ ((s.th t).wr = true → 0 < s.wl.writers)
def PHqFree (s : State) : Prop := s.wl.locked = false → (s.word.hq = true ↔ 0 < s.wl.len)
def PHqIn (s : State) : Prop :=
  ∀ t, inLL (s.th t).pc = true → hqWin (s.th t).pc = false → (s.word.hq = true ↔ 0 < s.wl.len)
def PHqFo (s : State) : Prop := ∀ t, (s.th t).pc = .qFetchOr → 0 < s.wl.len

structure Inv2 (s : State) : Prop where
  wpFree : PWpFree s
  wpIn : PWpIn s
  wpFo : PWpFo s
  hqFree : PHqFree s
  hqIn : PHqIn s
  hqFo : PHqFo s

set_option maxHeartbeats 8000000 in
/-- outside list critical sections a step writes neither of the two queue flags; if moreover the
list spinlock is held (by somebody else) the two counters are not written either -/
theorem step_flags_frozen (h : Step cfg s t l s') (hn : inLL (s.th t).pc = false) :
    s'.word.wp = s.word.wp ∧ s'.word.hq = s.word.hq
    ∧ (s.wl.locked = true → s'.wl.writers = s.wl.writers ∧ s'.wl.len = s.wl.len) := by
  step_cases h
  all_goals (try norm_state)
  all_goals (first | exact ⟨rfl, rfl, fun _ => ⟨rfl, rfl⟩⟩ | grind [inLL])

set_option maxHeartbeats 16000000 in
theorem wp_local (hi : Inv s) (h2 : Inv2 s) (h : Step cfg s t l s') :
    (s'.wl.locked = false → (s'.word.wp = true ↔ 0 < s'.wl.writers))
    ∧ (inLL (s'.th t).pc = true → wpWin (s'.th t).pc = false → (s'.word.wp = true ↔ 0 < s'.wl.writers))
    ∧ ((s'.th t).pc = .qFetchOr →
        (s'.word.wp = true → 0 < s'.wl.writers)
        ∧ ((s'.th t).wr = false → 0 < s'.wl.writers → s'.word.wp = true)
        ∧ ((s'.th t).wr = true → 0 < s'.wl.writers)) := by
  have c1 := h2.wpFree; have c2 := h2.wpIn t; have c3 := h2.wpFo t
  have a : inLL (s.th t).pc = true → s.wl.locked = true := fun ht => (hi.ll t ht).1
  have e1 := hi.thrWr t; have e2 := hi.phNode t; have e3 := hi.futWr t; have e4 := hi.futNodeWr
  have b2 := hi.wrTgt t; have e5 := hi.syncLinked t
  have g1 : ∀ n, (s.wl.node n).linked = true → (s.wl.node n).isWriter = true → 0 < s.wl.writers :=
    fun n hl hw => hi.wf.writers_pos hl hw
  unfold PWpFree at c1; unfold PFutNodeWr at e4
  clear hi h2
  step_cases h
  all_goals (try norm_state)
  all_goals grind [inLL, wpWin, slowL, futPc, futNodePc, TaK.sync, After.async]

end Fv.Sync.RwLock
