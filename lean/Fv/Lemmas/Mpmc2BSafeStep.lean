import Fv.Lemmas.Mpmc2BSafe
/-! Preservation of the safety invariant `InvS` by every step of the mpmc v2 B-model. -/
namespace Fv.Chan.Mpmc2B

set_option hygiene false in
/-- only the control state moves -/
local macro "mv" : tactic =>
  `(tactic| exact invS_move hi ⟨rfl, rfl, rfl, rfl, rfl, rfl, rfl⟩ rfl (by simp [hpc, holds]) rfl)
set_option hygiene false in
local macro "dropv" : tactic =>
  `(tactic| exact invS_drop hi (by simp [hpc, holds]) rfl rfl rfl rfl rfl rfl rfl rfl (by simp))
set_option hygiene false in
local macro "retv" : tactic =>
  `(tactic| exact invS_ret hi (by simp [hpc, holds]) rfl rfl rfl rfl rfl rfl rfl rfl (by simp))
set_option hygiene false in
local macro "pushv " hs:ident : tactic =>
  `(tactic| (obtain ⟨e1, e2, e3, e4, e5, e6, e7, e8, e9⟩ := sendCore_some $hs hi.cap_ok
             exact invS_push (t := t) hi (by simp [hpc, holds]) e9 e1 e2 e3 e4 e5 e6 e7 (by simp [e8])))
set_option hygiene false in
local macro "popv " hs:ident : tactic =>
  `(tactic| (obtain ⟨e1, e2, e3, e4, e5, e6, e7, e8⟩ := recvCore_some $hs
             exact invS_pop (t := t) hi (by simp [hpc, holds]) e8 e1 e3 e2 e4 e5 e6 (by simp [e7])))

set_option hygiene false in
local macro "mv'" : tactic =>
  `(tactic| exact invS_move hi ⟨rfl, rfl, rfl, rfl, rfl, rfl, rfl⟩ rfl (by simp [*, holds]) rfl)
set_option hygiene false in
local macro "dropv'" : tactic =>
  `(tactic| exact invS_drop hi (by simp [*, holds]) rfl rfl rfl rfl rfl rfl rfl rfl (by simp))

variable {s : State} {t v r : Nat}

theorem invS_sTry (hi : InvS s) (hpc : s.pc t = .sTry v r) : InvS (stepSTry s t v r) := by
  unfold stepSTry
  split
  · dropv
  · split
    · rename_i s1 hs; pushv hs
    · mv

theorem invS_sReg (hi : InvS s) (hpc : s.pc t = .sReg v r) : InvS (stepSReg s t v r) := by
  unfold stepSReg
  split
  · mv
  · split
    · dropv
    · mv

theorem invS_sWait (hi : InvS s) (hpc : s.pc t = .sWait v r) : InvS (stepSWait s t v r) := by
  unfold stepSWait
  split <;> mv

theorem invS_sPark {s' : State} (hi : InvS s) (hpc : s.pc t = .sPark v r) (h : stepSPark s t v r = some s') : InvS s' := by
  unfold stepSPark at h
  split at h <;> simp at h
  subst h; mv

theorem invS_sUnl {c : Bool} (hi : InvS s) (hpc : s.pc t = .sUnl v r c) : InvS (stepSUnl s t v r c) := by
  unfold stepSUnl
  split
  · dropv
  · mv

theorem invS_tsTry (hi : InvS s) (hpc : s.pc t = .tsTry v) : InvS (stepTsTry s t v) := by
  unfold stepTsTry
  split
  · retv
  · split
    · rename_i s1 hs; pushv hs
    · retv

theorem invS_rTry (hi : InvS s) (hpc : s.pc t = .rTry r) : InvS (stepRTry s t r) := by
  unfold stepRTry
  split
  · rename_i v s1 hs; popv hs
  · split <;> mv

theorem invS_rReg (hi : InvS s) (hpc : s.pc t = .rReg r) : InvS (stepRReg s t r) := by
  unfold stepRReg
  split
  · mv
  · split <;> mv

theorem invS_rWait (hi : InvS s) (hpc : s.pc t = .rWait r) : InvS (stepRWait s t r) := by
  unfold stepRWait
  split <;> mv

theorem invS_rPark {s' : State} (hi : InvS s) (hpc : s.pc t = .rPark r) (h : stepRPark s t r = some s') : InvS s' := by
  unfold stepRPark at h
  split at h <;> simp at h
  subst h; mv

theorem invS_rUnl (hi : InvS s) (hpc : s.pc t = .rUnl r) : InvS (stepRUnl s t r) := by
  unfold stepRUnl; mv

theorem invS_trTry (hi : InvS s) (hpc : s.pc t = .trTry) : InvS (stepTrTry s t) := by
  unfold stepTrTry
  split
  · rename_i v s1 hs; popv hs
  · split <;> mv

theorem invS_toTry (hi : InvS s) (hpc : s.pc t = .toTry r) : InvS (stepToTry s t r) := by
  unfold stepToTry
  split
  · rename_i v s1 hs; popv hs
  · split <;> mv

theorem invS_toReg (hi : InvS s) (hpc : s.pc t = .toReg r) : InvS (stepToReg s t r) := by
  unfold stepToReg
  split
  · mv
  · split <;> mv

theorem invS_toRetry (hi : InvS s) (hpc : s.pc t = .toRetry r) : InvS (stepToRetry s t r) := by
  unfold stepToRetry
  split
  · rename_i v s1 hs; popv hs
  · split <;> mv

theorem invS_toCas (hi : InvS s) (hpc : s.pc t = .toCas r) : InvS (stepToCas s t r) := by
  unfold stepToCas
  split <;> mv

theorem invS_toUnl (hi : InvS s) (hpc : s.pc t = .toUnl r) : InvS (stepToUnl s t r) := by
  unfold stepToUnl; mv

theorem invS_toFin (hi : InvS s) (hpc : s.pc t = .toFin r) : InvS (stepToFin s t r) := by
  unfold stepToFin
  split
  · rename_i v s1 hs; popv hs
  · split <;> mv

theorem invS_asTry (hi : InvS s) (hpc : s.pc t = .asTry v r) : InvS (stepAsTry s t v r) := by
  unfold stepAsTry
  split
  · dropv
  · split
    · rename_i s1 hs; pushv hs
    · mv

theorem invS_asReg (hi : InvS s) (hpc : s.pc t = .asReg v r) : InvS (stepAsReg s t v r) := by
  unfold stepAsReg
  split
  · mv
  · split
    · dropv
    · mv

theorem invS_asUnl {c : Bool} (hi : InvS s) (hpc : s.pc t = .asUnl v r c) : InvS (stepAsUnl s t v r c) := by
  unfold stepAsUnl
  split
  · dropv
  · mv

theorem invS_asRef (hi : InvS s) (hpc : s.pc t = .asRef v r) : InvS (stepAsRef s t v r) := by
  unfold stepAsRef
  split <;> mv

theorem invS_fdUnlS (hi : InvS s) (hpc : s.pc t = .fdUnlS v r) : InvS (stepFdUnlS s t v r) := by
  unfold stepFdUnlS; dropv

theorem invS_arTry (hi : InvS s) (hpc : s.pc t = .arTry r) : InvS (stepArTry s t r) := by
  unfold stepArTry
  split
  · rename_i v s1 hs; popv hs
  · split <;> mv

theorem invS_arReg (hi : InvS s) (hpc : s.pc t = .arReg r) : InvS (stepArReg s t r) := by
  unfold stepArReg
  split
  · mv
  · split
    · mv
    · split <;> mv

theorem invS_arUnl (hi : InvS s) (hpc : s.pc t = .arUnl r) : InvS (stepArUnl s t r) := by
  unfold stepArUnl; mv

theorem invS_fdUnlR (hi : InvS s) (hpc : s.pc t = .fdUnlR r) : InvS (stepFdUnlR s t r) := by
  unfold stepFdUnlR; mv

theorem invS_closeS {s' : State} (hi : InvS s) (hpc : s.pc t = .hCloseS) (h : stepCloseS s t = some s') : InvS s' := by
  unfold stepCloseS at h
  repeat' split at h
  all_goals (simp at h; try subst h)
  all_goals mv

theorem invS_closeR {s' : State} (hi : InvS s) (hpc : s.pc t = .hCloseR) (h : stepCloseR s t = some s') : InvS s' := by
  unfold stepCloseR at h
  repeat' split at h
  all_goals (simp at h; try subst h)
  all_goals mv

theorem invS_hWake {ws : List Nat} (hi : InvS s) (hpc : s.pc t = .hWake ws) : InvS (stepHWake s t ws) := by
  unfold stepHWake
  split <;> mv

theorem invS_adv {s' : State} (hi : InvS s) (h : stepAdv s t = some s') : InvS s' := by
  unfold stepAdv at h
  split at h
  all_goals (first | (simp at h; done) | skip)
  all_goals rename_i hpc
  case h_1 => simp at h; subst h; exact invS_sTry hi hpc
  case h_2 => simp at h; subst h; exact invS_sReg hi hpc
  case h_3 => simp at h; subst h; exact invS_sWait hi hpc
  case h_4 => exact invS_sPark hi hpc h
  case h_5 => simp at h; subst h; exact invS_sUnl hi hpc
  case h_6 => simp at h; subst h; exact invS_tsTry hi hpc
  case h_7 => simp at h; subst h; exact invS_rTry hi hpc
  case h_8 => simp at h; subst h; exact invS_rReg hi hpc
  case h_9 => simp at h; subst h; exact invS_rWait hi hpc
  case h_10 => exact invS_rPark hi hpc h
  case h_11 => simp at h; subst h; exact invS_rUnl hi hpc
  case h_12 => simp at h; subst h; exact invS_trTry hi hpc
  case h_13 => simp at h; subst h; exact invS_toTry hi hpc
  case h_14 => simp at h; subst h; exact invS_toReg hi hpc
  case h_15 => simp at h; subst h; exact invS_toRetry hi hpc
  case h_16 => simp at h; subst h; exact invS_toCas hi hpc
  case h_17 => simp at h; subst h; exact invS_toUnl hi hpc
  case h_18 => simp at h; subst h; exact invS_toFin hi hpc
  case h_19 => simp at h; subst h; exact invS_asTry hi hpc
  case h_20 => simp at h; subst h; exact invS_asReg hi hpc
  case h_21 => simp at h; subst h; exact invS_asUnl hi hpc
  case h_22 => simp at h; subst h; exact invS_asRef hi hpc
  case h_23 => simp at h; subst h; exact invS_fdUnlS hi hpc
  case h_24 => simp at h; subst h; exact invS_arTry hi hpc
  case h_25 => simp at h; subst h; exact invS_arReg hi hpc
  case h_26 => simp at h; subst h; exact invS_arUnl hi hpc
  case h_27 => simp at h; subst h; exact invS_fdUnlR hi hpc
  case h_28 => simp at h; subst h; mv
  case h_29 => simp at h; subst h; mv
  case h_30 => exact invS_closeS hi hpc h
  case h_31 => exact invS_closeR hi hpc h
  case h_32 => simp at h; subst h; mv
  case h_33 => simp at h; subst h; exact invS_hWake hi hpc

theorem invS_call {s' : State} {op : Op} (hi : InvS s) (h : stepCall s t op = some s') : InvS s' := by
  unfold stepCall at h
  split at h
  · rename_i hr
    have hn : holds (s.pc t) = none := by
      cases hp : s.pc t <;> simp_all [PC.atRest, holds]
    cases op <;> simp only [] at h
    case send v =>
      split at h <;> simp at h
      rename_i hv; subst h
      exact invS_offer hi hn hv ⟨rfl, rfl, rfl, rfl, rfl, rfl⟩ rfl rfl (by simp [holds]) rfl
    case trySend v =>
      split at h <;> simp at h
      rename_i hv; subst h
      exact invS_offer hi hn hv ⟨rfl, rfl, rfl, rfl, rfl, rfl⟩ rfl rfl (by simp [holds]) rfl
    case sendFut v =>
      split at h <;> simp at h
      rename_i hv; subst h
      exact invS_offer hi hn hv ⟨rfl, rfl, rfl, rfl, rfl, rfl⟩ rfl rfl (by simp [holds]) rfl
    case cloneS =>
      split at h <;> simp at h
      subst h; exact invS_move hi ⟨rfl, rfl, rfl, rfl, rfl, rfl, rfl⟩ rfl (by rw [hn]; rfl) rfl
    case cloneR =>
      split at h <;> simp at h
      subst h; exact invS_move hi ⟨rfl, rfl, rfl, rfl, rfl, rfl, rfl⟩ rfl (by rw [hn]; rfl) rfl
    all_goals (simp at h; subst h; exact invS_move hi ⟨rfl, rfl, rfl, rfl, rfl, rfl, rfl⟩ rfl (by rw [hn]; rfl) rfl)
  · simp at h

theorem invS_poll {s' : State} (hi : InvS s) (h : stepPoll s t = some s') : InvS s' := by
  unfold stepPoll at h
  repeat' split at h
  all_goals (simp at h; try subst h)
  all_goals mv'

theorem invS_dropFut {s' : State} (hi : InvS s) (h : stepDropFut s t = some s') : InvS s' := by
  unfold stepDropFut at h
  repeat' split at h
  all_goals (simp at h; try subst h)
  all_goals (first | mv' | dropv')

theorem invS_spurious {s' : State} (hi : InvS s) (h : stepSpurious s t = some s') : InvS s' := by
  unfold stepSpurious at h
  repeat' split at h
  all_goals (simp at h; try subst h)
  all_goals mv'

theorem invS_step {s s' : State} {t : Nat} {l : Label} (hi : InvS s) (h : step s t l = some s') : InvS s' := by
  cases l <;> simp only [step] at h
  · exact invS_call hi h
  · exact invS_adv hi h
  · exact invS_poll hi h
  · exact invS_dropFut hi h
  · exact invS_spurious hi h

theorem invS_reach {cap : Nat} {s : State} (h : Reach cap s) : InvS s := by
  induction h with
  | init => exact invS_init cap
  | step _ hs ih => exact invS_step ih hs

/-! ### frame facts: capacity is constant; effect of a step on the abstract channel -/

theorem sendCore_cap {s s1 : State} {v : Nat} (h : sendCore s v = some s1) : s1.cap = s.cap := by
  unfold sendCore at h
  repeat' split at h
  all_goals (simp at h; try subst h)
  all_goals rfl

theorem sendCore_eff {s s1 : State} {v : Nat} (h : sendCore s v = some s1) :
    s1.queue = s.queue ++ [v] ∧ s1.sent = s.sent ++ [v] ∧ s1.recvd = s.recvd ∧ s1.pc = s.pc := by
  unfold sendCore at h
  repeat' split at h
  all_goals (simp at h; try subst h)
  all_goals simp

theorem recvCore_cap {s s1 : State} {v : Nat} (h : recvCore s = some (v, s1)) : s1.cap = s.cap :=
  (recvCore_some h).2.2.2.2.2.2.2

set_option hygiene false in
local macro "unfold_adv" : tactic =>
  `(tactic| (unfold stepAdv at h
             split at h
             all_goals (first | (simp at h; done) | skip)
             all_goals (try simp only [stepSTry, stepSReg, stepSWait, stepSPark, stepSUnl, stepTsTry, stepRTry, stepRReg, stepRWait,
               stepRPark, stepRUnl, stepTrTry, stepToTry, stepToReg, stepToRetry, stepToCas, stepToUnl, stepToFin, stepAsTry,
               stepAsReg, stepAsUnl, stepAsRef, stepFdUnlS, stepArTry, stepArReg, stepArUnl, stepFdUnlR, stepCloseS, stepCloseR,
               stepHWake] at h)
             all_goals (repeat' split at h)
             all_goals (simp at h; try subst h)))

theorem step_cap {s s' : State} {t : Nat} {l : Label} (h : step s t l = some s') : s'.cap = s.cap := by
  cases l <;> simp only [step] at h
  · unfold stepCall at h
    repeat' split at h
    all_goals (simp at h; try subst h)
    all_goals rfl
  · unfold_adv
    all_goals (first | rfl | (have := sendCore_cap ‹sendCore _ _ = some _›; exact this)
                        | (have := recvCore_cap ‹recvCore _ = some _›; exact this))
  · unfold stepPoll at h
    repeat' split at h
    all_goals (simp at h; try subst h)
    all_goals rfl
  · unfold stepDropFut at h
    repeat' split at h
    all_goals (simp at h; try subst h)
    all_goals rfl
  · unfold stepSpurious at h
    repeat' split at h
    all_goals (simp at h; try subst h)
    all_goals rfl

theorem reach_cap {cap : Nat} {s : State} (h : Reach cap s) : s.cap = cap := by
  induction h with
  | init => rfl
  | step _ hs ih => rw [step_cap hs, ih]

/-- Effect of one step of agent `t` on the abstract channel (buffer + histories): nothing (and then `t`
does not return Ok), or the push of exactly the token `t` holds (and then `t` returns `Ok`), or the pop of the front (and then
`t` returns that token). -/
def Eff (s s' : State) (t : Nat) : Prop :=
  (s'.queue = s.queue ∧ s'.sent = s.sent ∧ s'.recvd = s.recvd ∧
     ∀ v, s'.pc t ≠ .done (.sendOk v) ∧ s'.pc t ≠ .done (.recvOk v)) ∨
  (∃ v, holds (s.pc t) = some v ∧ s'.queue = s.queue ++ [v] ∧ s'.sent = s.sent ++ [v] ∧ s'.recvd = s.recvd ∧
        s'.pc t = .done (.sendOk v)) ∨
  (∃ v, holds (s.pc t) = none ∧ s.queue = v :: s'.queue ∧ s'.recvd = s.recvd ++ [v] ∧ s'.sent = s.sent ∧
        s'.pc t = .done (.recvOk v))

theorem step_eff {s s' : State} {t : Nat} {l : Label} (h : step s t l = some s') : Eff s s' t := by
  cases l <;> simp only [step] at h
  · unfold stepCall at h
    repeat' split at h
    all_goals (simp at h; try subst h)
    all_goals exact Or.inl ⟨rfl, rfl, rfl, by simp⟩
  · unfold_adv
    all_goals (first
      | exact Or.inl ⟨rfl, rfl, rfl, by simp⟩
      | (have e := sendCore_eff ‹sendCore _ _ = some _›
         exact Or.inr (Or.inl ⟨_, by simp [*, holds], e.1, e.2.1, e.2.2.1, by simp⟩))
      | (have e := recvCore_some ‹recvCore _ = some _›
         exact Or.inr (Or.inr ⟨_, by simp [*, holds], e.1, e.2.1, e.2.2.1, by simp⟩)))
  · unfold stepPoll at h
    repeat' split at h
    all_goals (simp at h; try subst h)
    all_goals exact Or.inl ⟨rfl, rfl, rfl, by simp⟩
  · unfold stepDropFut at h
    repeat' split at h
    all_goals (simp at h; try subst h)
    all_goals exact Or.inl ⟨rfl, rfl, rfl, by simp⟩
  · unfold stepSpurious at h
    repeat' split at h
    all_goals (simp at h; try subst h)
    all_goals exact Or.inl ⟨rfl, rfl, rfl, by simp⟩

theorem sendCore_pc {s s1 : State} {v : Nat} (h : sendCore s v = some s1) : s1.pc = s.pc := (sendCore_eff h).2.2.2
theorem recvCore_pc {s s1 : State} {v : Nat} (h : recvCore s = some (v, s1)) : s1.pc = s.pc := (recvCore_some h).2.2.2.2.2.2.1

/-- a step of agent `t` changes no other agent's control state -/
theorem step_pc_other {s s' : State} {t u : Nat} {l : Label} (h : step s t l = some s') (hu : u ≠ t) : s'.pc u = s.pc u := by
  cases l <;> simp only [step] at h
  · unfold stepCall at h
    repeat' split at h
    all_goals (simp at h; try subst h)
    all_goals simp [upd_apply, hu]
  · unfold_adv
    all_goals (first
      | (simp [upd_apply, hu]; done)
      | (have e := sendCore_pc ‹sendCore _ _ = some _›; simp [upd_apply, hu, e])
      | (have e := recvCore_pc ‹recvCore _ = some _›; simp [upd_apply, hu, e]))
  · unfold stepPoll at h
    repeat' split at h
    all_goals (simp at h; try subst h)
    all_goals simp [upd_apply, hu]
  · unfold stepDropFut at h
    repeat' split at h
    all_goals (simp at h; try subst h)
    all_goals simp [upd_apply, hu]
  · unfold stepSpurious at h
    repeat' split at h
    all_goals (simp at h; try subst h)
    all_goals simp [upd_apply, hu]

theorem reach_of_run {cap : Nat} (tr : List (Nat × Label)) (s0 s : State) (h0 : Reach cap s0)
    (h : run s0 tr = some s) : Reach cap s := by
  induction tr generalizing s0 with
  | nil => simp [run] at h; subst h; exact h0
  | cons a rest ih =>
    obtain ⟨t, l⟩ := a
    simp only [run, Option.bind] at h
    split at h
    · simp at h
    · rename_i s1 hs1; exact ih s1 (Reach.step h0 hs1) h

end Fv.Chan.Mpmc2B
