import Fv.Sync.RwLock
/-!
Case analysis of `RwLock.next`: `Step cfg s t l s'` lists every primitive transition once, at the
granularity of the helper functions of the model (`callStep`, `taFail`, `taSucc`, `llEnter`,
`afterRel`, `wakeAllNext`, `wakeRest`, …).  Transitions whose effect on the state word depends on
the read/write flag `wr` of the acquisition come in a `…W` (write) and a `…R` (read) version, with
the new word written out.  `step_of_mem` is the only fact the invariant proofs need about `next`.
-/
namespace Fv.Sync.RwLock
open Fv.Sync

/-! projections through `if` (so that `upd` applications simplify to field-level conditionals) -/
section ite
variable (c : Prop) [Decidable c]
@[simp] theorem Thread.ite_pc (a b : Thread) : (if c then a else b).pc = if c then a.pc else b.pc := by split <;> rfl
@[simp] theorem Thread.ite_wr (a b : Thread) : (if c then a else b).wr = if c then a.wr else b.wr := by split <;> rfl
@[simp] theorem Thread.ite_sv (a b : Thread) : (if c then a else b).sv = if c then a.sv else b.sv := by split <;> rfl
@[simp] theorem Thread.ite_linked (a b : Thread) : (if c then a else b).linked = if c then a.linked else b.linked := by split <;> rfl
@[simp] theorem Thread.ite_i (a b : Thread) : (if c then a else b).i = if c then a.i else b.i := by split <;> rfl
@[simp] theorem Thread.ite_cur (a b : Thread) : (if c then a else b).cur = if c then a.cur else b.cur := by split <;> rfl
@[simp] theorem Thread.ite_blockOn (a b : Thread) : (if c then a else b).blockOn = if c then a.blockOn else b.blockOn := by split <;> rfl
@[simp] theorem Thread.ite_tgt (a b : Thread) : (if c then a else b).tgt = if c then a.tgt else b.tgt := by split <;> rfl
@[simp] theorem Thread.ite_ws (a b : Thread) : (if c then a else b).ws = if c then a.ws else b.ws := by split <;> rfl
@[simp] theorem Fut.ite_phase (a b : Fut) : (if c then a else b).phase = if c then a.phase else b.phase := by split <;> rfl
@[simp] theorem Fut.ite_busy (a b : Fut) : (if c then a else b).busy = if c then a.busy else b.busy := by split <;> rfl
@[simp] theorem Fut.ite_wr (a b : Fut) : (if c then a else b).wr = if c then a.wr else b.wr := by split <;> rfl
@[simp] theorem Fut.ite_bo (a b : Fut) : (if c then a else b).bo = if c then a.bo else b.bo := by split <;> rfl
end ite

inductive Step (cfg : Cfg) (s : State) (t : Tid) : Lbl → State → Prop
  | call {op rest} (hpc : (s.th t).pc = .idle) (hp : s.prog t = op :: rest) :
      Step cfg s t (.call op) (callStep cfg s t op)
  | ret {r} (hpc : (s.th t).pc = .ret r) :
      Step cfg s t (.ret r)
        { s with th := upd s.th t { s.th t with pc := .idle }, prog := upd s.prog t (s.prog t).tail }
  | taLoadBlocked {k} (hpc : (s.th t).pc = .taLoad k) (hb : s.word.blocked (s.th t).wr = true) :
      Step cfg s t (.load .state .relaxed s.word.toNat) (taFail cfg s t k)
  | taLoadFree {k} (hpc : (s.th t).pc = .taLoad k) (hb : ¬ s.word.blocked (s.th t).wr = true) :
      Step cfg s t (.load .state .relaxed s.word.toNat)
        (setTh s t { s.th t with pc := .taCas k, sv := s.word })
  | taCasOkW {k} (hpc : (s.th t).pc = .taCas k) (he : s.word = (s.th t).sv) (hw : (s.th t).wr = true) :
      Step cfg s t
        (.cas .state (casWeak (s.th t) k) .acquire .relaxed s.word.toNat
          ({ (s.th t).sv with wl := true } : RWord).toNat true)
        (taSucc { s with word := { (s.th t).sv with wl := true }, holders := (t, (s.th t).wr) :: s.holders } t k)
  | taCasOkR {k} (hpc : (s.th t).pc = .taCas k) (he : s.word = (s.th t).sv) (hw : ¬ (s.th t).wr = true) :
      Step cfg s t
        (.cas .state (casWeak (s.th t) k) .acquire .relaxed s.word.toNat
          ({ (s.th t).sv with readers := (s.th t).sv.readers + 1 } : RWord).toNat true)
        (taSucc { s with word := { (s.th t).sv with readers := (s.th t).sv.readers + 1 },
                         holders := (t, (s.th t).wr) :: s.holders } t k)
  /-- `compare_exchange_weak` fails although the word has the expected value -/
  | taCasSpur {k} (hpc : (s.th t).pc = .taCas k) (he : s.word = (s.th t).sv) (hweak : casWeak (s.th t) k = true) :
      Step cfg s t (.cas .state (casWeak (s.th t) k) .acquire .relaxed s.word.toNat s.word.toNat false)
        (taFail cfg s t k)
  | taCasFail {k} (hpc : (s.th t).pc = .taCas k) (he : ¬ s.word = (s.th t).sv) :
      Step cfg s t (.cas .state (casWeak (s.th t) k) .acquire .relaxed s.word.toNat s.word.toNat false)
        (taFail cfg s t k)
  | spinYield (hpc : (s.th t).pc = .spinYield) :
      Step cfg s t .yield (spinHead cfg (setTh s t { s.th t with i := (s.th t).i + 1 }) t)
  | llSwapBusy {k} (hpc : (s.th t).pc = .llSwap k) (hl : s.wl.locked = true) :
      Step cfg s t (.rmw .listLock .swap .acquire (b2n s.wl.locked) 1) (withPc s t (.llLoad k))
  | llSwapOk {k} (hpc : (s.th t).pc = .llSwap k) (hl : ¬ s.wl.locked = true) :
      Step cfg s t (.rmw .listLock .swap .acquire (b2n s.wl.locked) 1)
        (llEnter { s with wl := s.wl.setLocked true } t k)
  | llLoadBusy {k} (hpc : (s.th t).pc = .llLoad k) (hl : s.wl.locked = true) :
      Step cfg s t (.load .listLock .relaxed (b2n s.wl.locked)) (withPc s t (.llSpin k))
  | llLoadFree {k} (hpc : (s.th t).pc = .llLoad k) (hl : ¬ s.wl.locked = true) :
      Step cfg s t (.load .listLock .relaxed (b2n s.wl.locked)) (withPc s t (.llSwap k))
  | llSpin {k} (hpc : (s.th t).pc = .llSpin k) :
      Step cfg s t .spin (withPc s t (.llLoad k))
  | qRearmSyncLinked (hpc : (s.th t).pc = .qRearm) (hc : (s.th t).cur = none)
      (hl : ((s.th t).wr && (s.th t).linked) = true) :
      Step cfg s t (.store (.nodeState (me t (s.th t))) .relaxed 0)
        { s with wl := s.wl.setWoken (me t (s.th t)) false
                 th := upd s.th t { s.th t with pc := .qFetchOr, linked := true } }
  | qRearmSyncLink (hpc : (s.th t).pc = .qRearm) (hc : (s.th t).cur = none)
      (hl : ¬ ((s.th t).wr && (s.th t).linked) = true) :
      Step cfg s t (.store (.nodeState (me t (s.th t))) .relaxed 0)
        { s with wl := (s.wl.setWoken (me t (s.th t)) false).linkBack (me t (s.th t))
                 th := upd s.th t { s.th t with pc := .qFetchOr, linked := true } }
  | qRearmAsyncLinked {f} (hpc : (s.th t).pc = .qRearm) (hc : (s.th t).cur = some f)
      (hl : (s.wl.setWoken (me t (s.th t)) false).wasLinked (me t (s.th t)) = true) :
      Step cfg s t (.store (.nodeState (me t (s.th t))) .relaxed 0)
        { s with wl := s.wl.setWoken (me t (s.th t)) false
                 th := upd s.th t { s.th t with pc := .qFetchOr, linked := true } }
  | qRearmAsyncLink {f} (hpc : (s.th t).pc = .qRearm) (hc : (s.th t).cur = some f)
      (hl : ¬ (s.wl.setWoken (me t (s.th t)) false).wasLinked (me t (s.th t)) = true) :
      Step cfg s t (.store (.nodeState (me t (s.th t))) .relaxed 0)
        { s with wl := (s.wl.setWoken (me t (s.th t)) false).linkBack (me t (s.th t))
                 th := upd s.th t { s.th t with pc := .qFetchOr, linked := true } }
  | qFetchOrW (hpc : (s.th t).pc = .qFetchOr) (hw : (s.th t).wr = true) :
      Step cfg s t (.rmw .state .or .relaxed s.word.toNat ({ s.word with hq := true, wp := true } : RWord).toNat)
        (withPc { s with word := { s.word with hq := true, wp := true } } t .qLoad)
  | qFetchOrR (hpc : (s.th t).pc = .qFetchOr) (hw : ¬ (s.th t).wr = true) :
      Step cfg s t (.rmw .state .or .relaxed s.word.toNat ({ s.word with hq := true } : RWord).toNat)
        (withPc { s with word := { s.word with hq := true } } t .qLoad)
  | qLoadBlockedSync (hpc : (s.th t).pc = .qLoad) (hb : s.word.blocked (s.th t).wr = true)
      (hc : (s.th t).cur = none) :
      Step cfg s t (.load .state .relaxed s.word.toNat) (withPc s t (.llRel .parkLoad))
  | qLoadBlockedAsync {f} (hpc : (s.th t).pc = .qLoad) (hb : s.word.blocked (s.th t).wr = true)
      (hc : (s.th t).cur = some f) :
      Step cfg s t (.load .state .relaxed s.word.toNat) (withPc s t (.llRel .pending))
  | qLoadFree (hpc : (s.th t).pc = .qLoad) (hb : ¬ s.word.blocked (s.th t).wr = true) :
      Step cfg s t (.load .state .relaxed s.word.toNat) (setTh s t { s.th t with pc := .qCas, sv := s.word })
  | qCasOkSyncW (hpc : (s.th t).pc = .qCas) (he : s.word = (s.th t).sv) (hw : (s.th t).wr = true)
      (hc : (s.th t).cur = none) :
      Step cfg s t
        (.cas .state false .acquire .relaxed s.word.toNat ({ (s.th t).sv with wl := true } : RWord).toNat true)
        (withPc { s with word := { (s.th t).sv with wl := true }, holders := (t, (s.th t).wr) :: s.holders,
                         wl := s.wl.unlink (me t (s.th t)) } t (.ff1 .retOk))
  | qCasOkSyncR (hpc : (s.th t).pc = .qCas) (he : s.word = (s.th t).sv) (hw : ¬ (s.th t).wr = true)
      (hc : (s.th t).cur = none) :
      Step cfg s t
        (.cas .state false .acquire .relaxed s.word.toNat
          ({ (s.th t).sv with readers := (s.th t).sv.readers + 1 } : RWord).toNat true)
        (withPc { s with word := { (s.th t).sv with readers := (s.th t).sv.readers + 1 },
                         holders := (t, (s.th t).wr) :: s.holders,
                         wl := s.wl.unlink (me t (s.th t)) } t (.ff1 .retOk))
  | qCasOkAsyncW {f} (hpc : (s.th t).pc = .qCas) (he : s.word = (s.th t).sv) (hw : (s.th t).wr = true)
      (hc : (s.th t).cur = some f) :
      Step cfg s t
        (.cas .state false .acquire .relaxed s.word.toNat ({ (s.th t).sv with wl := true } : RWord).toNat true)
        (withPc { s with word := { (s.th t).sv with wl := true }, holders := (t, (s.th t).wr) :: s.holders,
                         wl := s.wl.unlink (me t (s.th t)) } t (.ff1 .retReady))
  | qCasOkAsyncR {f} (hpc : (s.th t).pc = .qCas) (he : s.word = (s.th t).sv) (hw : ¬ (s.th t).wr = true)
      (hc : (s.th t).cur = some f) :
      Step cfg s t
        (.cas .state false .acquire .relaxed s.word.toNat
          ({ (s.th t).sv with readers := (s.th t).sv.readers + 1 } : RWord).toNat true)
        (withPc { s with word := { (s.th t).sv with readers := (s.th t).sv.readers + 1 },
                         holders := (t, (s.th t).wr) :: s.holders,
                         wl := s.wl.unlink (me t (s.th t)) } t (.ff1 .retReady))
  | qCasFail (hpc : (s.th t).pc = .qCas) (he : ¬ s.word = (s.th t).sv) :
      Step cfg s t (.cas .state false .acquire .relaxed s.word.toNat s.word.toNat false) (withPc s t .qLoad)
  | ff1Zero {a} (hpc : (s.th t).pc = .ff1 a) (he : s.wl.writers = 0) :
      Step cfg s t (.rmw .state .and .relaxed s.word.toNat ({ s.word with wp := false } : RWord).toNat)
        (withPc { s with word := { s.word with wp := false } } t (.ff2 a))
  | ff1Pos {a} (hpc : (s.th t).pc = .ff1 a) (he : ¬ s.wl.writers = 0) :
      Step cfg s t (.rmw .state .or .relaxed s.word.toNat ({ s.word with wp := true } : RWord).toNat)
        (withPc { s with word := { s.word with wp := true } } t (.ff2 a))
  | ff2Empty {a} (hpc : (s.th t).pc = .ff2 a) (he : s.wl.len = 0) :
      Step cfg s t (.rmw .state .and .relaxed s.word.toNat ({ s.word with hq := false } : RWord).toNat)
        (withPc { s with word := { s.word with hq := false } } t (.llRel a))
  | ff2Nonempty {a} (hpc : (s.th t).pc = .ff2 a) (he : ¬ s.wl.len = 0) :
      Step cfg s t (.rmw .state .or .relaxed s.word.toNat ({ s.word with hq := true } : RWord).toNat)
        (withPc { s with word := { s.word with hq := true } } t (.llRel a))
  | llRel {a} (hpc : (s.th t).pc = .llRel a) :
      Step cfg s t (.store .listLock .release 0) (afterRel { s with wl := s.wl.setLocked false } t a)
  | wLoadWoken (hpc : (s.th t).pc = .wLoad) (hw : (s.wl.node (me t (s.th t))).woken = true) :
      Step cfg s t (.load (.nodeState (me t (s.th t))) .acquire (b2n (s.wl.node (me t (s.th t))).woken))
        (spinHead cfg (setTh s t { s.th t with i := 0 }) t)
  | wLoadWaiting (hpc : (s.th t).pc = .wLoad) (hw : ¬ (s.wl.node (me t (s.th t))).woken = true) :
      Step cfg s t (.load (.nodeState (me t (s.th t))) .acquire (b2n (s.wl.node (me t (s.th t))).woken))
        (withPc s t .wPark)
  | wPark (hpc : (s.th t).pc = .wPark) (htok : s.token t = true) :
      Step cfg s t .park (withPc { s with token := upd s.token t false } t .wLoad)
  | wParkSpur (hpc : (s.th t).pc = .wPark) :
      Step cfg s t .parkSpur (withPc s t .wLoad)
  | relSubWake (hpc : (s.th t).pc = .relSub) (hq : s.word.readers = 1 ∧ s.word.hq = true) :
      Step cfg s t
        (.rmw .state .sub .release s.word.toNat ({ s.word with readers := s.word.readers - 1 } : RWord).toNat)
        (withPc { s with word := { s.word with readers := s.word.readers - 1 },
                         holders := s.holders.erase (t, false) } t (.llSwap .wake))
  | relSubPlain (hpc : (s.th t).pc = .relSub) (hq : ¬ (s.word.readers = 1 ∧ s.word.hq = true)) :
      Step cfg s t
        (.rmw .state .sub .release s.word.toNat ({ s.word with readers := s.word.readers - 1 } : RWord).toNat)
        (withPc { s with word := { s.word with readers := s.word.readers - 1 },
                         holders := s.holders.erase (t, false) } t (.ret .ok))
  | relAndQueued (hpc : (s.th t).pc = .relAnd) (hq : s.word.hq = true) :
      Step cfg s t (.rmw .state .and .release s.word.toNat ({ s.word with wl := false } : RWord).toNat)
        (withPc { s with word := { s.word with wl := false }, holders := s.holders.erase (t, true) } t
          (.llSwap .wake))
  | relAndPlain (hpc : (s.th t).pc = .relAnd) (hq : ¬ s.word.hq = true) :
      Step cfg s t (.rmw .state .and .release s.word.toNat ({ s.word with wl := false } : RWord).toNat)
        (withPc { s with word := { s.word with wl := false }, holders := s.holders.erase (t, true) } t
          (.ret .ok))
  | wnStore (hpc : (s.th t).pc = .wnStore) :
      Step cfg s t (.store (.nodeState (s.th t).tgt) .release 1)
        { s with wl := s.wl.takeAndMark (s.th t).tgt
                 th := upd s.th t { s.th t with pc := .llRel .wake,
                                                ws := ((s.wl.node (s.th t).tgt).waiter).toList } }
  | wrStore (hpc : (s.th t).pc = .wrStore) :
      Step cfg s t (.store (.nodeState (s.th t).tgt) .release 1)
        (wakeAllNext
          { s with wl := s.wl.takeAndMark (s.th t).tgt
                   th := upd s.th t { s.th t with ws := (s.th t).ws ++ ((s.wl.node (s.th t).tgt).waiter).toList } }
          t)
  | wnWake {u rest} (hpc : (s.th t).pc = .wnWake) (hw : (s.th t).ws = .thread u :: rest) :
      Step cfg s t (.unpark u) (wakeRest { s with token := upd s.token u true } t rest)
  | dLoadWoken (hpc : (s.th t).pc = .dLoad) (hw : (s.wl.node (.fut (curF (s.th t)))).woken = true) :
      Step cfg s t (.load (.nodeState (.fut (curF (s.th t)))) .acquire (b2n (s.wl.node (.fut (curF (s.th t)))).woken))
        (withPc { s with fut := upd s.fut (curF (s.th t))
                                  { s.fut (curF (s.th t)) with phase := .absent, busy := false } } t (.llSwap .wake))
  | dLoadWaiting (hpc : (s.th t).pc = .dLoad) (hw : ¬ (s.wl.node (.fut (curF (s.th t)))).woken = true) :
      Step cfg s t (.load (.nodeState (.fut (curF (s.th t)))) .acquire (b2n (s.wl.node (.fut (curF (s.th t)))).woken))
        (withPc { s with fut := upd s.fut (curF (s.th t))
                                  { s.fut (curF (s.th t)) with phase := .absent, busy := false } } t (.ret .ok))
  | boPark (hpc : (s.th t).pc = .boPark) (htok : s.token t = true) :
      Step cfg s t .park
        (pollHead cfg { s with token := upd s.token t false, th := upd s.th t { s.th t with i := 0 } } t)
  | boParkSpur (hpc : (s.th t).pc = .boPark) :
      Step cfg s t .parkSpur (pollHead cfg (setTh s t { s.th t with i := 0 }) t)

macro "unfold_next" h:ident : tactic => `(tactic| (
  unfold next at $h:ident
  split at $h:ident
  all_goals simp only [nIdle, nRet, nTaLoad, nTaCas, nSpinYield, nLlSwap, nLlLoad, nLlSpin, nQRearm, nQFetchOr,
    nQLoad, nQCas, nFf1, nFf2, nLlRel, nWLoad, nWPark, nRelSub, nRelAnd, nWnStore, nWrStore, nWnWake, nDLoad,
    nBoPark, RWord.acq] at $h:ident))

theorem step_of_mem {cfg : Cfg} {s s' : State} {t : Tid} {l : Lbl} (h : (l, s') ∈ next cfg s t) :
    Step cfg s t l s' := by
  unfold_next h
  all_goals (repeat' split at h)
  all_goals simp only [List.mem_cons, List.not_mem_nil, Prod.mk.injEq, or_false,
    false_or, List.mem_append] at h
  all_goals first
    | (rcases h with ⟨rfl, rfl⟩ | ⟨rfl, rfl⟩ <;>
        first
          | exact Step.wPark (by assumption) (by assumption)
          | exact Step.wParkSpur (by assumption)
          | exact Step.boPark (by assumption) (by assumption)
          | exact Step.boParkSpur (by assumption)
          | exact Step.taCasOkW (by assumption) (by assumption) (by assumption)
          | exact Step.taCasOkR (by assumption) (by assumption) (by assumption)
          | exact Step.taCasSpur (by assumption) (by assumption) (by assumption))
    | (obtain ⟨rfl, rfl⟩ : _ ∧ _ := h
       first
        | exact Step.call (by assumption) (by assumption)
        | exact Step.ret (by assumption)
        | exact Step.taLoadBlocked (by assumption) (by assumption)
        | exact Step.taLoadFree (by assumption) (by assumption)
        | exact Step.taCasOkW (by assumption) (by assumption) (by assumption)
        | exact Step.taCasOkR (by assumption) (by assumption) (by assumption)
        | exact Step.taCasFail (by assumption) (by assumption)
        | exact Step.spinYield (by assumption)
        | exact Step.llSwapBusy (by assumption) (by assumption)
        | exact Step.llSwapOk (by assumption) (by assumption)
        | exact Step.llLoadBusy (by assumption) (by assumption)
        | exact Step.llLoadFree (by assumption) (by assumption)
        | exact Step.llSpin (by assumption)
        | exact Step.qRearmSyncLinked (by assumption) (by assumption) (by assumption)
        | exact Step.qRearmSyncLink (by assumption) (by assumption) (by assumption)
        | exact Step.qRearmAsyncLinked (by assumption) (by assumption) (by assumption)
        | exact Step.qRearmAsyncLink (by assumption) (by assumption) (by assumption)
        | exact Step.qFetchOrW (by assumption) (by assumption)
        | exact Step.qFetchOrR (by assumption) (by assumption)
        | exact Step.qLoadBlockedSync (by assumption) (by assumption) (by assumption)
        | exact Step.qLoadBlockedAsync (by assumption) (by assumption) (by assumption)
        | exact Step.qLoadFree (by assumption) (by assumption)
        | exact Step.qCasOkSyncW (by assumption) (by assumption) (by assumption) (by assumption)
        | exact Step.qCasOkSyncR (by assumption) (by assumption) (by assumption) (by assumption)
        | exact Step.qCasOkAsyncW (by assumption) (by assumption) (by assumption) (by assumption)
        | exact Step.qCasOkAsyncR (by assumption) (by assumption) (by assumption) (by assumption)
        | exact Step.qCasFail (by assumption) (by assumption)
        | exact Step.ff1Zero (by assumption) (by assumption)
        | exact Step.ff1Pos (by assumption) (by assumption)
        | exact Step.ff2Empty (by assumption) (by assumption)
        | exact Step.ff2Nonempty (by assumption) (by assumption)
        | exact Step.llRel (by assumption)
        | exact Step.wLoadWoken (by assumption) (by assumption)
        | exact Step.wLoadWaiting (by assumption) (by assumption)
        | exact Step.wParkSpur (by assumption)
        | exact Step.boParkSpur (by assumption)
        | exact Step.relSubWake (by assumption) (by assumption)
        | exact Step.relSubPlain (by assumption) (by assumption)
        | exact Step.relAndQueued (by assumption) (by assumption)
        | exact Step.relAndPlain (by assumption) (by assumption)
        | exact Step.wnStore (by assumption)
        | exact Step.wrStore (by assumption)
        | exact Step.wnWake (by assumption) (by assumption)
        | exact Step.dLoadWoken (by assumption) (by assumption)
        | exact Step.dLoadWaiting (by assumption) (by assumption))

end Fv.Sync.RwLock
