import Fv.Lemmas.ChainBStepH
/-! Preservation of `InvP` by every step of the slab-chain model (generated skeleton + hand proofs). -/
namespace Fv.Chan.ChainB
set_option maxHeartbeats 1000000
attribute [local grind =] upd_apply upd2_apply publishNodes_apply sealNodes_apply freeNodes_apply freeNodes_nd freeNodes_stub sealNodes_nd sealNodes_stub

macro "closeP " hP:ident : tactic => `(tactic| first | exact ($hP).rlen_le | exact ($hP).rlen_zero | exact ($hP).need | exact ($hP).prelink | exact ($hP).held | exact ($hP).hval | exact ($hP).hnext | grind)

theorem invP_pStart {cfg : Cfg} {s s' : State} {h : Nat} {vals : List Nat} (hN : 0 < cfg.N) (hi : Inv cfg s)
    (hs : stepPStart s h vals = some s') : InvP s' := by
  obtain ⟨hH, hP, hC, hS⟩ := hi
  have _ := hN
  unfold stepPStart at hs
  step_elim hs
  all_goals (constructor <;> simp only [] <;> closeP hP)

theorem invP_pBump {cfg : Cfg} {s s' : State} {h : Nat} (hN : 0 < cfg.N) (hi : Inv cfg s)
    (hs : stepPBump cfg s h = some s') : InvP s' := by
  obtain ⟨hH, hP, hC, hS⟩ := hi
  have _ := hN
  unfold stepPBump at hs
  step_elim hs
  all_goals (rename_i b hpc hsl hg _; have hfree := hS.owned_free h b (s.ppos h) hsl (Nat.le_refl _) hg.2)
  all_goals (constructor <;> simp only [] <;> closeP hP)

theorem invP_pSealDec {cfg : Cfg} {s s' : State} {h : Nat} (hN : 0 < cfg.N) (hi : Inv cfg s)
    (hs : stepPSealDec cfg s h = some s') : InvP s' := by
  obtain ⟨hH, hP, hC, hS⟩ := hi
  have _ := hN
  unfold stepPSealDec sealDec at hs
  step_elim hs
  all_goals (constructor <;> simp only [] <;> closeP hP)

theorem invP_pRelFence {cfg : Cfg} {s s' : State} {h : Nat} (hN : 0 < cfg.N) (hi : Inv cfg s)
    (hs : stepPRelFence s h = some s') : InvP s' := by
  obtain ⟨hH, hP, hC, hS⟩ := hi
  have _ := hN
  unfold stepPRelFence at hs
  step_elim hs
  all_goals (constructor <;> simp only [] <;> closeP hP)

theorem invP_pRelLock {cfg : Cfg} {s s' : State} {h : Nat} (hN : 0 < cfg.N) (hi : Inv cfg s)
    (hs : stepPRelLock s h = some s') : InvP s' := by
  obtain ⟨hH, hP, hC, hS⟩ := hi
  have _ := hN
  unfold stepPRelLock at hs
  step_elim hs
  all_goals (constructor <;> simp only [] <;> closeP hP)

theorem invP_pRelUnlock {cfg : Cfg} {s s' : State} {h : Nat} (hN : 0 < cfg.N) (hi : Inv cfg s)
    (hs : stepPRelUnlock cfg s h = some s') : InvP s' := by
  obtain ⟨hH, hP, hC, hS⟩ := hi
  have _ := hN
  unfold stepPRelUnlock at hs
  step_elim hs
  all_goals (constructor <;> simp only [] <;> closeP hP)

theorem invP_pAcqLock {cfg : Cfg} {s s' : State} {h : Nat} (hN : 0 < cfg.N) (hi : Inv cfg s)
    (hs : stepPAcqLock s h = some s') : InvP s' := by
  obtain ⟨hH, hP, hC, hS⟩ := hi
  have _ := hN
  unfold stepPAcqLock at hs
  step_elim hs
  all_goals (constructor <;> simp only [] <;> closeP hP)

theorem invP_pAcqUnlock {cfg : Cfg} {s s' : State} {h : Nat} (hN : 0 < cfg.N) (hi : Inv cfg s)
    (hs : stepPAcqUnlock s h = some s') : InvP s' := by
  obtain ⟨hH, hP, hC, hS⟩ := hi
  have _ := hN
  unfold stepPAcqUnlock at hs
  step_elim hs
  all_goals (constructor <;> simp only [] <;> closeP hP)

theorem invP_pRearmRem {cfg : Cfg} {s s' : State} {h : Nat} (hN : 0 < cfg.N) (hi : Inv cfg s)
    (hs : stepPRearmRem cfg s h = some s') : InvP s' := by
  obtain ⟨hH, hP, hC, hS⟩ := hi
  have _ := hN
  unfold stepPRearmRem at hs
  step_elim hs
  all_goals (constructor <;> simp only [] <;> closeP hP)

theorem invP_pRearmNode {cfg : Cfg} {s s' : State} {h : Nat} (hN : 0 < cfg.N) (hi : Inv cfg s)
    (hs : stepPRearmNode cfg s h = some s') : InvP s' := by
  obtain ⟨hH, hP, hC, hS⟩ := hi
  have _ := hN
  unfold stepPRearmNode at hs
  step_elim hs
  all_goals (constructor <;> simp only [] <;> closeP hP)

theorem invP_pAlloc {cfg : Cfg} {s s' : State} {h : Nat} (hN : 0 < cfg.N) (hi : Inv cfg s)
    (hs : stepPAlloc cfg s h = some s') : InvP s' := by
  obtain ⟨hH, hP, hC, hS⟩ := hi
  have _ := hN
  unfold stepPAlloc at hs
  step_elim hs
  all_goals (constructor <;> simp only [] <;> closeP hP)

theorem invP_pPrelink {cfg : Cfg} {s s' : State} {h : Nat} (hN : 0 < cfg.N) (hi : Inv cfg s)
    (hs : stepPPrelink s h = some s') : InvP s' := by
  obtain ⟨hH, hP, hC, hS⟩ := hi
  have _ := hN
  unfold stepPPrelink at hs
  step_elim hs
  all_goals (constructor <;> simp only [] <;> closeP hP)

theorem invP_pSwap {cfg : Cfg} {s s' : State} {h : Nat} (hN : 0 < cfg.N) (hi : Inv cfg s)
    (hs : stepPSwap s h = some s') : InvP s' := by
  obtain ⟨hH, hP, hC, hS⟩ := hi
  have _ := hN
  unfold stepPSwap at hs
  step_elim hs
  all_goals (constructor <;> simp only [] <;> closeP hP)

theorem invP_pLink {cfg : Cfg} {s s' : State} {h : Nat} (hN : 0 < cfg.N) (hi : Inv cfg s)
    (hs : stepPLink s h = some s') : InvP s' := by
  obtain ⟨hH, hP, hC, hS⟩ := hi
  have _ := hN
  unfold stepPLink at hs
  step_elim hs
  all_goals (constructor <;> simp only [] <;> closeP hP)

theorem invP_pClose {cfg : Cfg} {s s' : State} {h : Nat} (hN : 0 < cfg.N) (hi : Inv cfg s)
    (hs : stepPClose s h = some s') : InvP s' := by
  obtain ⟨hH, hP, hC, hS⟩ := hi
  have _ := hN
  unfold stepPClose at hs
  step_elim hs
  all_goals (constructor <;> simp only [] <;> closeP hP)

theorem invP_pDropDec {cfg : Cfg} {s s' : State} {h : Nat} (hN : 0 < cfg.N) (hi : Inv cfg s)
    (hs : stepPDropDec s h = some s') : InvP s' := by
  obtain ⟨hH, hP, hC, hS⟩ := hi
  have _ := hN
  unfold stepPDropDec at hs
  step_elim hs
  all_goals (constructor <;> simp only [] <;> closeP hP)

theorem invP_pClone {cfg : Cfg} {s s' : State} {h h' : Nat} (hN : 0 < cfg.N) (hi : Inv cfg s)
    (hs : stepPClone s h h' = some s') : InvP s' := by
  obtain ⟨hH, hP, hC, hS⟩ := hi
  have _ := hN
  unfold stepPClone at hs
  step_elim hs
  all_goals (constructor <;> simp only [] <;> closeP hP)

theorem invP_cPopLoad {cfg : Cfg} {s s' : State}  (hN : 0 < cfg.N) (hi : Inv cfg s)
    (hs : stepCPopLoad s = some s') : InvP s' := by
  obtain ⟨hH, hP, hC, hS⟩ := hi
  have _ := hN
  unfold stepCPopLoad leaveNode at hs
  step_elim hs
  all_goals (constructor <;> simp only [] <;> closeP hP)

theorem invP_cRetDec {cfg : Cfg} {s s' : State}  (hN : 0 < cfg.N) (hi : Inv cfg s)
    (hs : stepCRetDec s = some s') : InvP s' := by
  obtain ⟨hH, hP, hC, hS⟩ := hi
  have _ := hN
  unfold stepCRetDec at hs
  step_elim hs
  all_goals (constructor <;> simp only [] <;> closeP hP)

theorem invP_cRelFence {cfg : Cfg} {s s' : State}  (hN : 0 < cfg.N) (hi : Inv cfg s)
    (hs : stepCRelFence s = some s') : InvP s' := by
  obtain ⟨hH, hP, hC, hS⟩ := hi
  have _ := hN
  unfold stepCRelFence at hs
  step_elim hs
  all_goals (constructor <;> simp only [] <;> closeP hP)

theorem invP_cRelLock {cfg : Cfg} {s s' : State}  (hN : 0 < cfg.N) (hi : Inv cfg s)
    (hs : stepCRelLock s = some s') : InvP s' := by
  obtain ⟨hH, hP, hC, hS⟩ := hi
  have _ := hN
  unfold stepCRelLock at hs
  step_elim hs
  all_goals (constructor <;> simp only [] <;> closeP hP)

theorem invP_cRelUnlock {cfg : Cfg} {s s' : State}  (hN : 0 < cfg.N) (hi : Inv cfg s)
    (hs : stepCRelUnlock cfg s = some s') : InvP s' := by
  obtain ⟨hH, hP, hC, hS⟩ := hi
  have _ := hN
  unfold stepCRelUnlock at hs
  step_elim hs
  all_goals (constructor <;> simp only [] <;> closeP hP)

theorem invP_cRet {cfg : Cfg} {s s' : State}  (hN : 0 < cfg.N) (hi : Inv cfg s)
    (hs : stepCRet s = some s') : InvP s' := by
  obtain ⟨hH, hP, hC, hS⟩ := hi
  have _ := hN
  unfold stepCRet at hs
  step_elim hs
  all_goals (constructor <;> simp only [] <;> closeP hP)

theorem invP_cFinStart {cfg : Cfg} {s s' : State}  (hN : 0 < cfg.N) (hi : Inv cfg s)
    (hs : stepCFinStart s = some s') : InvP s' := by
  obtain ⟨hH, hP, hC, hS⟩ := hi
  have _ := hN
  unfold stepCFinStart at hs
  step_elim hs
  all_goals (constructor <;> simp only [] <;> closeP hP)

theorem invP_cFinLoad {cfg : Cfg} {s s' : State}  (hN : 0 < cfg.N) (hi : Inv cfg s)
    (hs : stepCFinLoad s = some s') : InvP s' := by
  obtain ⟨hH, hP, hC, hS⟩ := hi
  have _ := hN
  unfold stepCFinLoad leaveNode at hs
  step_elim hs
  all_goals (constructor <;> simp only [] <;> closeP hP)

end Fv.Chan.ChainB
