import Fv.Chan.LeftRightB
/-! Inductive invariant of the left-right component (`Fv.Chan.LeftRightB`), for every data type,
every set of mutations, every number of reader threads and writer calls, every interleaving. -/
namespace Fv.Chan.LeftRightB

theorem upd_apply {β : Type} (f : Nat → β) (i j : Nat) (a : β) : upd f i a j = if j = i then a else f j := rfl
@[simp] theorem upd_same {β : Type} (f : Nat → β) (i : Nat) (a : β) : upd f i a i = a := by simp [upd]

section
variable {α Op : Type} (ap : Op → α → α)

/-- control states that hold the writer mutex -/
def inW : PC α Op → Bool
  | .wLoad _ | .wMut1 _ _ | .wPub _ _ | .wWait _ _ | .wSpin _ _ | .wMut2 _ _ | .wUnlock => true
  | _ => false

/-- control states that count in `active_readers[i]` -/
def onCopy (i : Nat) : PC α Op → Prop
  | .rChk j => j = i
  | .rBack j => j = i
  | .rHold j _ => j = i
  | _ => False

/-- the writer is waiting for the readers of copy `i` to drain -/
def waitingOn (i : Nat) : PC α Op → Prop
  | .wWait _ l => l = i
  | .wSpin _ l => l = i
  | _ => False

/-- what each control state knows about the shared cells -/
def stageOK (sh : Sh α) : PC α Op → Prop
  | .wLoad _ => sh.data 0 = sh.data 1
  | .wMut1 _ l => l = sh.live ∧ sh.data 0 = sh.data 1
  | .wPub o l => l = sh.live ∧ sh.data (1 - l) = ap o (sh.data l)
  | .wWait o l => sh.live = 1 - l ∧ l < 2 ∧ sh.data (1 - l) = ap o (sh.data l)
  | .wSpin o l => sh.live = 1 - l ∧ l < 2 ∧ sh.data (1 - l) = ap o (sh.data l)
  | .wMut2 o l => sh.live = 1 - l ∧ l < 2 ∧ sh.data (1 - l) = ap o (sh.data l)
  | .wUnlock => sh.data 0 = sh.data 1
  | .rInc i => i < 2
  | .rChk i => i < 2
  | .rBack i => i < 2
  | .rHold i v => i < 2 ∧ sh.data i = v
  | _ => True

structure Inv (sh : Sh α) (pcs : Nat → PC α Op) : Prop where
  live2 : sh.live < 2
  cnt : ∀ i, sh.readers i = (sh.rset i).length
  nodup : ∀ i, (sh.rset i).Nodup
  mem : ∀ t i, t ∈ sh.rset i ↔ onCopy i (pcs t)
  wl : ∀ t, sh.wlock = some t ↔ inW (pcs t) = true
  free : sh.wlock = none → sh.data 0 = sh.data 1
  stage : ∀ t, stageOK ap sh (pcs t)
  /-- a guard on the non-live copy exists only while the writer waits for exactly that copy -/
  view : ∀ t i v, pcs t = .rHold i v → i ≠ sh.live → ∃ w, waitingOn i (pcs w)

theorem inv_init (a : α) : Inv ap (Sh.init a) (fun _ => (.idle : PC α Op)) := by
  constructor <;> simp [Sh.init, onCopy, inW, stageOK]


attribute [local grind =] upd_apply
attribute [local grind] inW onCopy waitingOn stageOK

syntax "lr_open " ident : tactic
macro_rules | `(tactic| lr_open $h) => `(tactic|
  (simp only [step] at $h:ident
   split at $h:ident <;> (try split at $h:ident) <;> simp at $h:ident <;> obtain ⟨⟨⟩, ⟨⟩⟩ := $h))

/-- the writer is unique -/
theorem writer_unique {sh : Sh α} {pcs : Nat → PC α Op} (h5 : ∀ t, sh.wlock = some t ↔ inW (pcs t) = true)
    {a b : Nat} (ha : inW (pcs a) = true) (hb : inW (pcs b) = true) : a = b := by
  have := (h5 a).2 ha; have := (h5 b).2 hb; simp_all

theorem waiting_inW {i : Nat} {p : PC α Op} (h : waitingOn i p) : inW p = true := by
  cases p <;> simp_all [waitingOn, inW]

theorem stageOK_congr {sh sh' : Sh α} (hl : sh'.live = sh.live) (hd : sh'.data = sh.data) {p : PC α Op}
    (h : stageOK ap sh p) : stageOK ap sh' p := by
  cases p <;> simp only [stageOK, hl, hd] at * <;> exact h

/-- `stage` for steps that leave `live` and `data` alone -/
syntax "stage_same " ident ident : tactic
macro_rules | `(tactic| stage_same $h7 $t) => `(tactic|
  (intro u
   by_cases hut : u = $t
   · subst hut; have := $h7 u; simp only [upd_same]; grind
   · simp only [upd_apply, if_neg hut]; exact stageOK_congr _ rfl rfl ($h7 u)))

/-- generic `view` step: no new guard on the non-live copy, the waiting writer does not move -/
syntax "view_old " ident : tactic
macro_rules | `(tactic| view_old $h8) => `(tactic|
  (intro u i v hu hne
   obtain ⟨w, hw⟩ := $h8 u i v (by grind) (by grind)
   exact ⟨w, by grind⟩))

theorem inv_rBegin {sh sh' : Sh α} {pcs : Nat → PC α Op} {t : Nat} {p' : PC α Op}
    (hi : Inv ap sh pcs) (h : step ap sh t (pcs t) .rBegin = some (sh', p')) : Inv ap sh' (upd pcs t p') := by
  obtain ⟨h1, h2, h3, h4, h5, h6, h7, h8⟩ := hi
  lr_open h
  refine ⟨by grind, by grind, by grind, by grind, by grind, by grind, by grind, ?_⟩
  view_old h8

theorem inv_rLoad {sh sh' : Sh α} {pcs : Nat → PC α Op} {t : Nat} {p' : PC α Op}
    (hi : Inv ap sh pcs) (h : step ap sh t (pcs t) .rLoad = some (sh', p')) : Inv ap sh' (upd pcs t p') := by
  obtain ⟨h1, h2, h3, h4, h5, h6, h7, h8⟩ := hi
  lr_open h
  refine ⟨by grind, by grind, by grind, by grind, by grind, by grind, by grind, ?_⟩
  view_old h8

theorem inv_rInc {sh sh' : Sh α} {pcs : Nat → PC α Op} {t : Nat} {p' : PC α Op}
    (hi : Inv ap sh pcs) (h : step ap sh t (pcs t) .rInc = some (sh', p')) : Inv ap sh' (upd pcs t p') := by
  obtain ⟨h1, h2, h3, h4, h5, h6, h7, h8⟩ := hi
  lr_open h
  refine ⟨by grind, by grind, by grind, by grind, by grind, by grind, by stage_same h7 t, ?_⟩
  view_old h8

theorem inv_rChk {sh sh' : Sh α} {pcs : Nat → PC α Op} {t : Nat} {p' : PC α Op}
    (hi : Inv ap sh pcs) (h : step ap sh t (pcs t) .rChk = some (sh', p')) : Inv ap sh' (upd pcs t p') := by
  obtain ⟨h1, h2, h3, h4, h5, h6, h7, h8⟩ := hi
  lr_open h
  · refine ⟨by grind, by grind, by grind, by grind, by grind, by grind, by grind, ?_⟩
    intro u i v hu hne
    by_cases hut : u = t
    · grind
    · obtain ⟨w, hw⟩ := h8 u i v (by grind) (by grind)
      exact ⟨w, by grind⟩
  · refine ⟨by grind, by grind, by grind, by grind, by grind, by grind, by grind, ?_⟩
    view_old h8

theorem inv_rBack {sh sh' : Sh α} {pcs : Nat → PC α Op} {t : Nat} {p' : PC α Op}
    (hi : Inv ap sh pcs) (h : step ap sh t (pcs t) .rBack = some (sh', p')) : Inv ap sh' (upd pcs t p') := by
  obtain ⟨h1, h2, h3, h4, h5, h6, h7, h8⟩ := hi
  lr_open h
  refine ⟨by grind, by grind, by grind, by grind, by grind, by grind, by stage_same h7 t, ?_⟩
  view_old h8

theorem inv_rExit {sh sh' : Sh α} {pcs : Nat → PC α Op} {t : Nat} {p' : PC α Op}
    (hi : Inv ap sh pcs) (h : step ap sh t (pcs t) .rExit = some (sh', p')) : Inv ap sh' (upd pcs t p') := by
  obtain ⟨h1, h2, h3, h4, h5, h6, h7, h8⟩ := hi
  lr_open h
  refine ⟨by grind, by grind, by grind, by grind, by grind, by grind, by stage_same h7 t, ?_⟩
  view_old h8


theorem inv_wBegin {sh sh' : Sh α} {pcs : Nat → PC α Op} {t : Nat} {p' : PC α Op} {o : Op}
    (hi : Inv ap sh pcs) (h : step ap sh t (pcs t) (.wBegin o) = some (sh', p')) : Inv ap sh' (upd pcs t p') := by
  obtain ⟨h1, h2, h3, h4, h5, h6, h7, h8⟩ := hi
  lr_open h
  refine ⟨by grind, by grind, by grind, by grind, by grind, by grind, by stage_same h7 t, ?_⟩
  view_old h8

theorem inv_wLock {sh sh' : Sh α} {pcs : Nat → PC α Op} {t : Nat} {p' : PC α Op}
    (hi : Inv ap sh pcs) (h : step ap sh t (pcs t) .wLock = some (sh', p')) : Inv ap sh' (upd pcs t p') := by
  obtain ⟨h1, h2, h3, h4, h5, h6, h7, h8⟩ := hi
  lr_open h
  refine ⟨by grind, by grind, by grind, by grind, by grind, by grind, by stage_same h7 t, ?_⟩
  view_old h8

theorem inv_wLoad {sh sh' : Sh α} {pcs : Nat → PC α Op} {t : Nat} {p' : PC α Op}
    (hi : Inv ap sh pcs) (h : step ap sh t (pcs t) .wLoad = some (sh', p')) : Inv ap sh' (upd pcs t p') := by
  obtain ⟨h1, h2, h3, h4, h5, h6, h7, h8⟩ := hi
  lr_open h
  refine ⟨by grind, by grind, by grind, by grind, by grind, by grind, by stage_same h7 t, ?_⟩
  view_old h8

theorem inv_wSpin {sh sh' : Sh α} {pcs : Nat → PC α Op} {t : Nat} {p' : PC α Op}
    (hi : Inv ap sh pcs) (h : step ap sh t (pcs t) .wSpin = some (sh', p')) : Inv ap sh' (upd pcs t p') := by
  obtain ⟨h1, h2, h3, h4, h5, h6, h7, h8⟩ := hi
  lr_open h
  refine ⟨by grind, by grind, by grind, by grind, by grind, by grind, by stage_same h7 t, ?_⟩
  view_old h8

theorem inv_wUnlock {sh sh' : Sh α} {pcs : Nat → PC α Op} {t : Nat} {p' : PC α Op}
    (hi : Inv ap sh pcs) (h : step ap sh t (pcs t) .wUnlock = some (sh', p')) : Inv ap sh' (upd pcs t p') := by
  obtain ⟨h1, h2, h3, h4, h5, h6, h7, h8⟩ := hi
  lr_open h
  refine ⟨by grind, by grind, by grind, by grind, by grind, by grind, by stage_same h7 t, ?_⟩
  view_old h8


/-- a non-writer's knowledge survives a mutation of copy `j` unless it holds a guard on `j` -/
theorem stageOK_data {sh : Sh α} {p : PC α Op} (j : Nat) (x : α) (hw : inW p = false)
    (hg : ∀ i v, p = .rHold i v → i ≠ j) (h : stageOK ap sh p) :
    stageOK ap { sh with data := upd sh.data j x } p := by
  cases p <;> simp_all [stageOK, inW, upd_apply]

/-- a non-writer's knowledge survives the swap of `live_idx` -/
theorem stageOK_live {sh : Sh α} {p : PC α Op} (j : Nat) (hw : inW p = false) (h : stageOK ap sh p) :
    stageOK ap { sh with live := j } p := by
  cases p <;> simp_all [stageOK, inW]

theorem inv_wMut1 {sh sh' : Sh α} {pcs : Nat → PC α Op} {t : Nat} {p' : PC α Op}
    (hi : Inv ap sh pcs) (h : step ap sh t (pcs t) .wMut1 = some (sh', p')) : Inv ap sh' (upd pcs t p') := by
  obtain ⟨h1, h2, h3, h4, h5, h6, h7, h8⟩ := hi
  lr_open h
  rename_i o l hpc
  have ht := h7 t; rw [hpc] at ht; simp only [stageOK] at ht
  obtain ⟨hl, hd⟩ := ht
  refine ⟨by grind, by grind, by grind, by grind, by grind, by grind, ?_, ?_⟩
  · intro u
    by_cases hut : u = t
    · subst hut; simp only [upd_same, stageOK]
      refine ⟨hl, ?_⟩
      have : l = 0 ∨ l = 1 := by omega
      rcases this with rfl | rfl <;> simp [upd_apply, hd]
    · simp only [upd_apply, if_neg hut]
      have hnw : inW (pcs u) = false := by
        cases hw : inW (pcs u); rfl
        exact absurd (writer_unique h5 hw (by rw [hpc]; rfl)) hut
      refine stageOK_data ap _ _ hnw ?_ (h7 u)
      intro i v hu hne
      obtain ⟨w, hw⟩ := h8 u i v hu (by have := h7 u; rw [hu] at this; simp only [stageOK] at this; omega)
      have := writer_unique h5 (waiting_inW hw) (show inW (pcs t) = true by rw [hpc]; rfl)
      subst this; rw [hpc] at hw; exact hw
  · view_old h8


theorem not_writer_of_ne {sh : Sh α} {pcs : Nat → PC α Op} (h5 : ∀ t, sh.wlock = some t ↔ inW (pcs t) = true)
    {t u : Nat} (ht : inW (pcs t) = true) (hut : u ≠ t) : inW (pcs u) = false := by
  cases hw : inW (pcs u); rfl
  exact absurd (writer_unique h5 hw ht) hut

theorem inv_wPub {sh sh' : Sh α} {pcs : Nat → PC α Op} {t : Nat} {p' : PC α Op}
    (hi : Inv ap sh pcs) (h : step ap sh t (pcs t) .wPub = some (sh', p')) : Inv ap sh' (upd pcs t p') := by
  obtain ⟨h1, h2, h3, h4, h5, h6, h7, h8⟩ := hi
  lr_open h
  rename_i o l hpc
  have ht := h7 t; rw [hpc] at ht; simp only [stageOK] at ht
  obtain ⟨hl, hd⟩ := ht
  have htw : inW (pcs t) = true := by rw [hpc]; rfl
  refine ⟨by simp only []; omega, by grind, by grind, by grind, by grind, by grind, ?_, ?_⟩
  · intro u
    by_cases hut : u = t
    · subst hut; simp only [upd_same, stageOK]
      exact ⟨trivial, by omega, hd⟩
    · simp only [upd_apply, if_neg hut]
      exact stageOK_live ap _ (not_writer_of_ne h5 htw hut) (h7 u)
  · intro u i v hu hne
    have hut : u ≠ t := by grind
    have hu' : pcs u = .rHold i v := by grind
    have := h7 u; rw [hu'] at this; simp only [stageOK] at this
    exact ⟨t, by simp only [upd_same, waitingOn]; simp only [] at hne; omega⟩

theorem inv_wWait {sh sh' : Sh α} {pcs : Nat → PC α Op} {t : Nat} {p' : PC α Op}
    (hi : Inv ap sh pcs) (h : step ap sh t (pcs t) .wWait = some (sh', p')) : Inv ap sh' (upd pcs t p') := by
  obtain ⟨h1, h2, h3, h4, h5, h6, h7, h8⟩ := hi
  lr_open h
  · rename_i o l hpc hz
    have htw : inW (pcs t) = true := by rw [hpc]; rfl
    refine ⟨by grind, by grind, by grind, by grind, by grind, by grind, by stage_same h7 t, ?_⟩
    intro u i v hu hne
    have hut : u ≠ t := by grind
    have hu' : pcs u = .rHold i v := by grind
    obtain ⟨w, hw⟩ := h8 u i v hu' hne
    have := writer_unique h5 (waiting_inW hw) htw
    subst this; rw [hpc] at hw; simp only [waitingOn] at hw; subst hw
    have hm := (h4 u l).2 (by rw [hu']; rfl)
    have hc := h2 l; rw [hz] at hc
    have : sh.rset l = [] := List.eq_nil_of_length_eq_zero hc.symm
    rw [this] at hm; exact absurd hm (by simp)
  · refine ⟨by grind, by grind, by grind, by grind, by grind, by grind, by stage_same h7 t, ?_⟩
    view_old h8

theorem inv_wMut2 {sh sh' : Sh α} {pcs : Nat → PC α Op} {t : Nat} {p' : PC α Op}
    (hi : Inv ap sh pcs) (h : step ap sh t (pcs t) .wMut2 = some (sh', p')) : Inv ap sh' (upd pcs t p') := by
  obtain ⟨h1, h2, h3, h4, h5, h6, h7, h8⟩ := hi
  lr_open h
  rename_i o l hpc
  have ht := h7 t; rw [hpc] at ht; simp only [stageOK] at ht
  obtain ⟨hl, hl2, hd⟩ := ht
  have htw : inW (pcs t) = true := by rw [hpc]; rfl
  refine ⟨by grind, by grind, by grind, by grind, by grind, by grind, ?_, ?_⟩
  · intro u
    by_cases hut : u = t
    · subst hut; simp only [upd_same, stageOK]
      have : l = 0 ∨ l = 1 := by omega
      rcases this with rfl | rfl <;> simp_all [upd_apply]
    · simp only [upd_apply, if_neg hut]
      refine stageOK_data ap _ _ (not_writer_of_ne h5 htw hut) ?_ (h7 u)
      intro i v hu hne
      subst hne
      obtain ⟨w, hw⟩ := h8 u i v hu (by omega)
      have := writer_unique h5 (waiting_inW hw) htw
      subst this; rw [hpc] at hw; exact hw
  · view_old h8

theorem inv_step {sh sh' : Sh α} {pcs : Nat → PC α Op} {t : Nat} {l : Label Op} {p' : PC α Op}
    (hi : Inv ap sh pcs) (h : step ap sh t (pcs t) l = some (sh', p')) : Inv ap sh' (upd pcs t p') := by
  cases l
  · exact inv_rBegin ap hi h
  · exact inv_rLoad ap hi h
  · exact inv_rInc ap hi h
  · exact inv_rChk ap hi h
  · exact inv_rBack ap hi h
  · exact inv_rExit ap hi h
  · exact inv_wBegin ap hi h
  · exact inv_wLock ap hi h
  · exact inv_wLoad ap hi h
  · exact inv_wMut1 ap hi h
  · exact inv_wPub ap hi h
  · exact inv_wWait ap hi h
  · exact inv_wSpin ap hi h
  · exact inv_wMut2 ap hi h
  · exact inv_wUnlock ap hi h

theorem inv_reach {a : α} {s : Sys α Op} (h : Reach ap a s) : Inv ap s.sh s.pcs := by
  induction h with
  | init => exact inv_init ap a
  | step _ hs ih =>
    rename_i s s' t l _
    unfold Sys.step at hs
    split at hs
    · rename_i sh' p' he
      simp at hs; subst hs
      exact inv_step ap ih he
    · simp at hs


end
end Fv.Chan.LeftRightB
