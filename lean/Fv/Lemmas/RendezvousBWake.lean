import Fv.Lemmas.RendezvousB
/-! Groups `InvRP` (R3 / no panic / disconnect) and `InvRW` (wake delivery) of the rendezvous B-model, every reachable
state. Generated boilerplate, one lemma per step function. -/
namespace Fv.Chan.RendezvousB
set_option linter.unusedVariables false

theorem sendReg_not_recvWait' {p : PC} {r : Nat} (h : sendReg p = some r) : recvWait p = none := by
  cases p <;> simp_all [sendReg, recvWait]

/-- the results a matched (fulfilling) operation returns after its wake -/
def okRes : Res → Bool
  | .sendOk _ => true
  | .recvOk _ => true
  | .sendFull _ => false | .sendClosed _ => false | .sendClosedDrop _ => false | .recvEmpty => false | .recvDisc => false
  | .recvTimeout => false | .unit => false | .futDropped => false | .panicked => false

structure InvRP (s : State) : Prop where
  r3 : ∀ t r, recvWait (s.pc t) = some r → s.st r = .done → s.slot r ≠ none
  np : ∀ t, s.pc t ≠ .done .panicked
  wt : ∀ t a res, s.pc t = .wakeThen a res → okRes res = true
  d1 : s.senders = 0 → s.rq = []
  d2 : s.receivers = 0 → s.sq = []

theorem invRP_init : InvRP init := by
  constructor <;> simp [init, recvWait]

attribute [local grind] okRes recOf unregS unregR sendReg recvIn recvWait
attribute [local grind =] upd_apply bump_apply List.Nodup.mem_erase_iff optL_mem
attribute [local grind →] List.mem_of_mem_erase unregS_recOf unregR_recOf sendReg_recOf recvIn_recOf recvWait_recOf
  sendReg_not_recvWait' unregS_not_recvIn unregR_not_sendReg
attribute [local grind cases] RS

theorem invRP_wakeThen {s : State} {t : Nat} {a : Nat} {res : Res} (hk : InvRK s) (hi : InvRP s) (hpc : s.pc t = .wakeThen a res) : InvRP (stepWakeThen s t a res) := by
  have hk_owner := hk.owner
  have hk_lt_sq := hk.lt_sq
  have hk_lt_rq := hk.lt_rq
  have hk_r2 := hk.r2
  have hk_sq_owner := hk.sq_owner
  have hk_rq_owner := hk.rq_owner
  have hk_nd_sq := hk.nd_sq
  have hk_nd_rq := hk.nd_rq
  have hk_un_st_r := hk.un_st_r
  clear hk
  obtain ⟨h1, h2, h3, h4, h5⟩ := hi
  simp only [stepWakeThen, giveTo, takeFrom, finishRecv]
  repeat' split
  all_goals rk_fin

theorem invRP_sLock {s : State} {t : Nat} {v : Nat} {r : Nat} (hk : InvRK s) (hi : InvRP s) (hpc : s.pc t = .sLock v r) : InvRP (stepSLock s t v r) := by
  have hk_owner := hk.owner
  have hk_lt_sq := hk.lt_sq
  have hk_lt_rq := hk.lt_rq
  have hk_r2 := hk.r2
  have hk_sq_owner := hk.sq_owner
  have hk_rq_owner := hk.rq_owner
  have hk_nd_sq := hk.nd_sq
  have hk_nd_rq := hk.nd_rq
  have hk_un_st_r := hk.un_st_r
  clear hk
  obtain ⟨h1, h2, h3, h4, h5⟩ := hi
  simp only [stepSLock, giveTo, takeFrom, finishRecv]
  repeat' split
  all_goals rk_fin

theorem invRP_sWait {s : State} {t : Nat} {v : Nat} {r : Nat} (hk : InvRK s) (hi : InvRP s) (hpc : s.pc t = .sWait v r) : InvRP (stepSWait s t v r) := by
  have hk_owner := hk.owner
  have hk_lt_sq := hk.lt_sq
  have hk_lt_rq := hk.lt_rq
  have hk_r2 := hk.r2
  have hk_sq_owner := hk.sq_owner
  have hk_rq_owner := hk.rq_owner
  have hk_nd_sq := hk.nd_sq
  have hk_nd_rq := hk.nd_rq
  have hk_un_st_r := hk.un_st_r
  clear hk
  obtain ⟨h1, h2, h3, h4, h5⟩ := hi
  simp only [stepSWait, giveTo, takeFrom, finishRecv]
  repeat' split
  all_goals rk_fin

theorem invRP_tsLock {s : State} {t : Nat} {v : Nat} (hk : InvRK s) (hi : InvRP s) (hpc : s.pc t = .tsLock v) : InvRP (stepTsLock s t v) := by
  have hk_owner := hk.owner
  have hk_lt_sq := hk.lt_sq
  have hk_lt_rq := hk.lt_rq
  have hk_r2 := hk.r2
  have hk_sq_owner := hk.sq_owner
  have hk_rq_owner := hk.rq_owner
  have hk_nd_sq := hk.nd_sq
  have hk_nd_rq := hk.nd_rq
  have hk_un_st_r := hk.un_st_r
  clear hk
  obtain ⟨h1, h2, h3, h4, h5⟩ := hi
  simp only [stepTsLock, giveTo, takeFrom, finishRecv]
  repeat' split
  all_goals rk_fin

theorem invRP_rLock {s : State} {t : Nat} {r : Nat} (hk : InvRK s) (hi : InvRP s) (hpc : s.pc t = .rLock r) : InvRP (stepRLock s t r) := by
  have hk_owner := hk.owner
  have hk_lt_sq := hk.lt_sq
  have hk_lt_rq := hk.lt_rq
  have hk_r2 := hk.r2
  have hk_sq_owner := hk.sq_owner
  have hk_rq_owner := hk.rq_owner
  have hk_nd_sq := hk.nd_sq
  have hk_nd_rq := hk.nd_rq
  have hk_un_st_r := hk.un_st_r
  clear hk
  obtain ⟨h1, h2, h3, h4, h5⟩ := hi
  simp only [stepRLock, giveTo, takeFrom, finishRecv]
  repeat' split
  all_goals rk_fin

theorem invRP_rWait {s : State} {t : Nat} {r : Nat} (hk : InvRK s) (hi : InvRP s) (hpc : s.pc t = .rWait r) : InvRP (stepRWait s t r) := by
  have hk_owner := hk.owner
  have hk_lt_sq := hk.lt_sq
  have hk_lt_rq := hk.lt_rq
  have hk_r2 := hk.r2
  have hk_sq_owner := hk.sq_owner
  have hk_rq_owner := hk.rq_owner
  have hk_nd_sq := hk.nd_sq
  have hk_nd_rq := hk.nd_rq
  have hk_un_st_r := hk.un_st_r
  clear hk
  obtain ⟨h1, h2, h3, h4, h5⟩ := hi
  simp only [stepRWait, giveTo, takeFrom, finishRecv]
  repeat' split
  all_goals rk_fin

theorem invRP_trLock {s : State} {t : Nat} (hk : InvRK s) (hi : InvRP s) (hpc : s.pc t = .trLock) : InvRP (stepTrLock s t ) := by
  have hk_owner := hk.owner
  have hk_lt_sq := hk.lt_sq
  have hk_lt_rq := hk.lt_rq
  have hk_r2 := hk.r2
  have hk_sq_owner := hk.sq_owner
  have hk_rq_owner := hk.rq_owner
  have hk_nd_sq := hk.nd_sq
  have hk_nd_rq := hk.nd_rq
  have hk_un_st_r := hk.un_st_r
  clear hk
  obtain ⟨h1, h2, h3, h4, h5⟩ := hi
  simp only [stepTrLock, giveTo, takeFrom, finishRecv]
  repeat' split
  all_goals rk_fin

theorem invRP_toLock {s : State} {t : Nat} {r : Nat} (hk : InvRK s) (hi : InvRP s) (hpc : s.pc t = .toLock r) : InvRP (stepToLock s t r) := by
  have hk_owner := hk.owner
  have hk_lt_sq := hk.lt_sq
  have hk_lt_rq := hk.lt_rq
  have hk_r2 := hk.r2
  have hk_sq_owner := hk.sq_owner
  have hk_rq_owner := hk.rq_owner
  have hk_nd_sq := hk.nd_sq
  have hk_nd_rq := hk.nd_rq
  have hk_un_st_r := hk.un_st_r
  clear hk
  obtain ⟨h1, h2, h3, h4, h5⟩ := hi
  simp only [stepToLock, giveTo, takeFrom, finishRecv]
  repeat' split
  all_goals rk_fin

theorem invRP_toLoad {s : State} {t : Nat} {r : Nat} (hk : InvRK s) (hi : InvRP s) (hpc : s.pc t = .toLoad r) : InvRP (stepToLoad s t r) := by
  have hk_owner := hk.owner
  have hk_lt_sq := hk.lt_sq
  have hk_lt_rq := hk.lt_rq
  have hk_r2 := hk.r2
  have hk_sq_owner := hk.sq_owner
  have hk_rq_owner := hk.rq_owner
  have hk_nd_sq := hk.nd_sq
  have hk_nd_rq := hk.nd_rq
  have hk_un_st_r := hk.un_st_r
  clear hk
  obtain ⟨h1, h2, h3, h4, h5⟩ := hi
  simp only [stepToLoad, giveTo, takeFrom, finishRecv]
  repeat' split
  all_goals rk_fin

theorem invRP_toCas {s : State} {t : Nat} {r : Nat} (hk : InvRK s) (hi : InvRP s) (hpc : s.pc t = .toCas r) : InvRP (stepToCas s t r) := by
  have hk_owner := hk.owner
  have hk_lt_sq := hk.lt_sq
  have hk_lt_rq := hk.lt_rq
  have hk_r2 := hk.r2
  have hk_sq_owner := hk.sq_owner
  have hk_rq_owner := hk.rq_owner
  have hk_nd_sq := hk.nd_sq
  have hk_nd_rq := hk.nd_rq
  have hk_un_st_r := hk.un_st_r
  clear hk
  obtain ⟨h1, h2, h3, h4, h5⟩ := hi
  simp only [stepToCas, giveTo, takeFrom, finishRecv]
  repeat' split
  all_goals rk_fin

theorem invRP_toUnl {s : State} {t : Nat} {r : Nat} (hk : InvRK s) (hi : InvRP s) (hpc : s.pc t = .toUnl r) : InvRP (stepToUnl s t r) := by
  have hk_owner := hk.owner
  have hk_lt_sq := hk.lt_sq
  have hk_lt_rq := hk.lt_rq
  have hk_r2 := hk.r2
  have hk_sq_owner := hk.sq_owner
  have hk_rq_owner := hk.rq_owner
  have hk_nd_sq := hk.nd_sq
  have hk_nd_rq := hk.nd_rq
  have hk_un_st_r := hk.un_st_r
  clear hk
  obtain ⟨h1, h2, h3, h4, h5⟩ := hi
  simp only [stepToUnl, giveTo, takeFrom, finishRecv]
  repeat' split
  all_goals rk_fin

theorem invRP_toFin {s : State} {t : Nat} {r : Nat} (hk : InvRK s) (hi : InvRP s) (hpc : s.pc t = .toFin r) : InvRP (stepToFin s t r) := by
  have hk_owner := hk.owner
  have hk_lt_sq := hk.lt_sq
  have hk_lt_rq := hk.lt_rq
  have hk_r2 := hk.r2
  have hk_sq_owner := hk.sq_owner
  have hk_rq_owner := hk.rq_owner
  have hk_nd_sq := hk.nd_sq
  have hk_nd_rq := hk.nd_rq
  have hk_un_st_r := hk.un_st_r
  clear hk
  obtain ⟨h1, h2, h3, h4, h5⟩ := hi
  simp only [stepToFin, giveTo, takeFrom, finishRecv]
  repeat' split
  all_goals rk_fin

theorem invRP_asLock {s : State} {t : Nat} {v : Nat} {r : Nat} (hk : InvRK s) (hi : InvRP s) (hpc : s.pc t = .asLock v r) : InvRP (stepAsLock s t v r) := by
  have hk_owner := hk.owner
  have hk_lt_sq := hk.lt_sq
  have hk_lt_rq := hk.lt_rq
  have hk_r2 := hk.r2
  have hk_sq_owner := hk.sq_owner
  have hk_rq_owner := hk.rq_owner
  have hk_nd_sq := hk.nd_sq
  have hk_nd_rq := hk.nd_rq
  have hk_un_st_r := hk.un_st_r
  clear hk
  obtain ⟨h1, h2, h3, h4, h5⟩ := hi
  simp only [stepAsLock, giveTo, takeFrom, finishRecv]
  repeat' split
  all_goals rk_fin

theorem invRP_asRef {s : State} {t : Nat} {v : Nat} {r : Nat} (hk : InvRK s) (hi : InvRP s) (hpc : s.pc t = .asRef v r) : InvRP (stepAsRef s t v r) := by
  have hk_owner := hk.owner
  have hk_lt_sq := hk.lt_sq
  have hk_lt_rq := hk.lt_rq
  have hk_r2 := hk.r2
  have hk_sq_owner := hk.sq_owner
  have hk_rq_owner := hk.rq_owner
  have hk_nd_sq := hk.nd_sq
  have hk_nd_rq := hk.nd_rq
  have hk_un_st_r := hk.un_st_r
  clear hk
  obtain ⟨h1, h2, h3, h4, h5⟩ := hi
  simp only [stepAsRef, giveTo, takeFrom, finishRecv]
  repeat' split
  all_goals rk_fin

theorem invRP_asFin {s : State} {t : Nat} {v : Nat} {r : Nat} (hk : InvRK s) (hi : InvRP s) (hpc : s.pc t = .asFin v r) : InvRP (stepAsFin s t v r) := by
  have hk_owner := hk.owner
  have hk_lt_sq := hk.lt_sq
  have hk_lt_rq := hk.lt_rq
  have hk_r2 := hk.r2
  have hk_sq_owner := hk.sq_owner
  have hk_rq_owner := hk.rq_owner
  have hk_nd_sq := hk.nd_sq
  have hk_nd_rq := hk.nd_rq
  have hk_un_st_r := hk.un_st_r
  clear hk
  obtain ⟨h1, h2, h3, h4, h5⟩ := hi
  simp only [stepAsFin, giveTo, takeFrom, finishRecv]
  repeat' split
  all_goals rk_fin

theorem invRP_fdUnlS {s : State} {t : Nat} {v : Nat} {r : Nat} (hk : InvRK s) (hi : InvRP s) (hpc : s.pc t = .fdUnlS v r) : InvRP (stepFdUnlS s t v r) := by
  have hk_owner := hk.owner
  have hk_lt_sq := hk.lt_sq
  have hk_lt_rq := hk.lt_rq
  have hk_r2 := hk.r2
  have hk_sq_owner := hk.sq_owner
  have hk_rq_owner := hk.rq_owner
  have hk_nd_sq := hk.nd_sq
  have hk_nd_rq := hk.nd_rq
  have hk_un_st_r := hk.un_st_r
  clear hk
  obtain ⟨h1, h2, h3, h4, h5⟩ := hi
  simp only [stepFdUnlS, giveTo, takeFrom, finishRecv]
  repeat' split
  all_goals rk_fin

theorem invRP_arLock {s : State} {t : Nat} {r : Nat} (hk : InvRK s) (hi : InvRP s) (hpc : s.pc t = .arLock r) : InvRP (stepArLock s t r) := by
  have hk_owner := hk.owner
  have hk_lt_sq := hk.lt_sq
  have hk_lt_rq := hk.lt_rq
  have hk_r2 := hk.r2
  have hk_sq_owner := hk.sq_owner
  have hk_rq_owner := hk.rq_owner
  have hk_nd_sq := hk.nd_sq
  have hk_nd_rq := hk.nd_rq
  have hk_un_st_r := hk.un_st_r
  clear hk
  obtain ⟨h1, h2, h3, h4, h5⟩ := hi
  simp only [stepArLock, giveTo, takeFrom, finishRecv]
  repeat' split
  all_goals rk_fin

theorem invRP_arRef {s : State} {t : Nat} {r : Nat} (hk : InvRK s) (hi : InvRP s) (hpc : s.pc t = .arRef r) : InvRP (stepArRef s t r) := by
  have hk_owner := hk.owner
  have hk_lt_sq := hk.lt_sq
  have hk_lt_rq := hk.lt_rq
  have hk_r2 := hk.r2
  have hk_sq_owner := hk.sq_owner
  have hk_rq_owner := hk.rq_owner
  have hk_nd_sq := hk.nd_sq
  have hk_nd_rq := hk.nd_rq
  have hk_un_st_r := hk.un_st_r
  clear hk
  obtain ⟨h1, h2, h3, h4, h5⟩ := hi
  simp only [stepArRef, giveTo, takeFrom, finishRecv]
  repeat' split
  all_goals rk_fin

theorem invRP_arFin {s : State} {t : Nat} {r : Nat} (hk : InvRK s) (hi : InvRP s) (hpc : s.pc t = .arFin r) : InvRP (stepArFin s t r) := by
  have hk_owner := hk.owner
  have hk_lt_sq := hk.lt_sq
  have hk_lt_rq := hk.lt_rq
  have hk_r2 := hk.r2
  have hk_sq_owner := hk.sq_owner
  have hk_rq_owner := hk.rq_owner
  have hk_nd_sq := hk.nd_sq
  have hk_nd_rq := hk.nd_rq
  have hk_un_st_r := hk.un_st_r
  clear hk
  obtain ⟨h1, h2, h3, h4, h5⟩ := hi
  simp only [stepArFin, giveTo, takeFrom, finishRecv]
  repeat' split
  all_goals rk_fin

theorem invRP_fdUnlR {s : State} {t : Nat} {r : Nat} (hk : InvRK s) (hi : InvRP s) (hpc : s.pc t = .fdUnlR r) : InvRP (stepFdUnlR s t r) := by
  have hk_owner := hk.owner
  have hk_lt_sq := hk.lt_sq
  have hk_lt_rq := hk.lt_rq
  have hk_r2 := hk.r2
  have hk_sq_owner := hk.sq_owner
  have hk_rq_owner := hk.rq_owner
  have hk_nd_sq := hk.nd_sq
  have hk_nd_rq := hk.nd_rq
  have hk_un_st_r := hk.un_st_r
  clear hk
  obtain ⟨h1, h2, h3, h4, h5⟩ := hi
  simp only [stepFdUnlR, giveTo, takeFrom, finishRecv]
  repeat' split
  all_goals rk_fin

theorem invRP_hWake {s : State} {t : Nat} {ws : List Nat} (hk : InvRK s) (hi : InvRP s) (hpc : s.pc t = .hWake ws) : InvRP (stepHWake s t ws) := by
  have hk_owner := hk.owner
  have hk_lt_sq := hk.lt_sq
  have hk_lt_rq := hk.lt_rq
  have hk_r2 := hk.r2
  have hk_sq_owner := hk.sq_owner
  have hk_rq_owner := hk.rq_owner
  have hk_nd_sq := hk.nd_sq
  have hk_nd_rq := hk.nd_rq
  have hk_un_st_r := hk.un_st_r
  clear hk
  obtain ⟨h1, h2, h3, h4, h5⟩ := hi
  simp only [stepHWake, giveTo, takeFrom, finishRecv]
  repeat' split
  all_goals rk_fin

theorem invRP_sPark {s s' : State} {t : Nat} {v : Nat} {r : Nat} (hk : InvRK s) (hi : InvRP s) (hpc : s.pc t = .sPark v r) (h : stepSPark s t v r = some s') : InvRP s' := by
  have hk_owner := hk.owner
  have hk_lt_sq := hk.lt_sq
  have hk_lt_rq := hk.lt_rq
  have hk_r2 := hk.r2
  have hk_sq_owner := hk.sq_owner
  have hk_rq_owner := hk.rq_owner
  have hk_nd_sq := hk.nd_sq
  have hk_nd_rq := hk.nd_rq
  have hk_un_st_r := hk.un_st_r
  clear hk
  obtain ⟨h1, h2, h3, h4, h5⟩ := hi
  unfold stepSPark at h
  repeat' split at h
  all_goals (simp at h; try subst h)
  all_goals (try generalize List.map s.owner _ = wsl)
  all_goals rk_fin

theorem invRP_rPark {s s' : State} {t : Nat} {r : Nat} (hk : InvRK s) (hi : InvRP s) (hpc : s.pc t = .rPark r) (h : stepRPark s t r = some s') : InvRP s' := by
  have hk_owner := hk.owner
  have hk_lt_sq := hk.lt_sq
  have hk_lt_rq := hk.lt_rq
  have hk_r2 := hk.r2
  have hk_sq_owner := hk.sq_owner
  have hk_rq_owner := hk.rq_owner
  have hk_nd_sq := hk.nd_sq
  have hk_nd_rq := hk.nd_rq
  have hk_un_st_r := hk.un_st_r
  clear hk
  obtain ⟨h1, h2, h3, h4, h5⟩ := hi
  unfold stepRPark at h
  repeat' split at h
  all_goals (simp at h; try subst h)
  all_goals (try generalize List.map s.owner _ = wsl)
  all_goals rk_fin

theorem invRP_closeS {s s' : State} {t : Nat} (hk : InvRK s) (hi : InvRP s) (hpc : s.pc t = .hCloseS) (h : stepCloseS s t  = some s') : InvRP s' := by
  have hk_owner := hk.owner
  have hk_lt_sq := hk.lt_sq
  have hk_lt_rq := hk.lt_rq
  have hk_r2 := hk.r2
  have hk_sq_owner := hk.sq_owner
  have hk_rq_owner := hk.rq_owner
  have hk_nd_sq := hk.nd_sq
  have hk_nd_rq := hk.nd_rq
  have hk_un_st_r := hk.un_st_r
  clear hk
  obtain ⟨h1, h2, h3, h4, h5⟩ := hi
  unfold stepCloseS at h
  repeat' split at h
  all_goals (simp at h; try subst h)
  all_goals (try generalize List.map s.owner _ = wsl)
  all_goals rk_fin

theorem invRP_closeR {s s' : State} {t : Nat} (hk : InvRK s) (hi : InvRP s) (hpc : s.pc t = .hCloseR) (h : stepCloseR s t  = some s') : InvRP s' := by
  have hk_owner := hk.owner
  have hk_lt_sq := hk.lt_sq
  have hk_lt_rq := hk.lt_rq
  have hk_r2 := hk.r2
  have hk_sq_owner := hk.sq_owner
  have hk_rq_owner := hk.rq_owner
  have hk_nd_sq := hk.nd_sq
  have hk_nd_rq := hk.nd_rq
  have hk_un_st_r := hk.un_st_r
  clear hk
  obtain ⟨h1, h2, h3, h4, h5⟩ := hi
  unfold stepCloseR at h
  repeat' split at h
  all_goals (simp at h; try subst h)
  all_goals (try generalize List.map s.owner _ = wsl)
  all_goals rk_fin

theorem invRP_adv {s s' : State} {t : Nat} (hk : InvRK s) (hi : InvRP s) (h : stepAdv s t = some s') : InvRP s' := by
  unfold stepAdv at h
  split at h
  all_goals (first | (simp at h; done) | skip)
  all_goals rename_i hpc
  case h_1 => simp at h; subst h; exact invRP_wakeThen hk hi hpc
  case h_2 => simp at h; subst h; exact invRP_sLock hk hi hpc
  case h_3 => simp at h; subst h; exact invRP_sWait hk hi hpc
  case h_4 => exact invRP_sPark hk hi hpc h
  case h_5 => simp at h; subst h; exact invRP_tsLock hk hi hpc
  case h_6 => simp at h; subst h; exact invRP_rLock hk hi hpc
  case h_7 => simp at h; subst h; exact invRP_rWait hk hi hpc
  case h_8 => exact invRP_rPark hk hi hpc h
  case h_9 => simp at h; subst h; exact invRP_trLock hk hi hpc
  case h_10 => simp at h; subst h; exact invRP_toLock hk hi hpc
  case h_11 => simp at h; subst h; exact invRP_toLoad hk hi hpc
  case h_12 => simp at h; subst h; exact invRP_toCas hk hi hpc
  case h_13 => simp at h; subst h; exact invRP_toUnl hk hi hpc
  case h_14 => simp at h; subst h; exact invRP_toFin hk hi hpc
  case h_15 => simp at h; subst h; exact invRP_asLock hk hi hpc
  case h_16 => simp at h; subst h; exact invRP_asRef hk hi hpc
  case h_17 => simp at h; subst h; exact invRP_asFin hk hi hpc
  case h_18 => simp at h; subst h; exact invRP_fdUnlS hk hi hpc
  case h_19 => simp at h; subst h; exact invRP_arLock hk hi hpc
  case h_20 => simp at h; subst h; exact invRP_arRef hk hi hpc
  case h_21 => simp at h; subst h; exact invRP_arFin hk hi hpc
  case h_22 => simp at h; subst h; exact invRP_fdUnlR hk hi hpc
  case h_23 =>
    simp at h; subst h
    have hk_owner := hk.owner
    have hk_lt_sq := hk.lt_sq
    have hk_lt_rq := hk.lt_rq
    have hk_r2 := hk.r2
    have hk_sq_owner := hk.sq_owner
    have hk_rq_owner := hk.rq_owner
    have hk_nd_sq := hk.nd_sq
    have hk_nd_rq := hk.nd_rq
    have hk_un_st_r := hk.un_st_r
    clear hk
    obtain ⟨h1, h2, h3, h4, h5⟩ := hi
    rk_fin
  case h_24 =>
    simp at h; subst h
    have hk_owner := hk.owner
    have hk_lt_sq := hk.lt_sq
    have hk_lt_rq := hk.lt_rq
    have hk_r2 := hk.r2
    have hk_sq_owner := hk.sq_owner
    have hk_rq_owner := hk.rq_owner
    have hk_nd_sq := hk.nd_sq
    have hk_nd_rq := hk.nd_rq
    have hk_un_st_r := hk.un_st_r
    clear hk
    obtain ⟨h1, h2, h3, h4, h5⟩ := hi
    rk_fin
  case h_25 => exact invRP_closeS hk hi hpc h
  case h_26 => exact invRP_closeR hk hi hpc h
  case h_27 => simp at h; subst h; exact invRP_hWake hk hi hpc

set_option maxHeartbeats 1600000 in
theorem invRP_call {s s' : State} {t : Nat} {op : Op} (hk : InvRK s) (hi : InvRP s) (h : stepCall s t op = some s') : InvRP s' := by
  have hk_owner := hk.owner
  have hk_lt_sq := hk.lt_sq
  have hk_lt_rq := hk.lt_rq
  have hk_r2 := hk.r2
  have hk_sq_owner := hk.sq_owner
  have hk_rq_owner := hk.rq_owner
  have hk_nd_sq := hk.nd_sq
  have hk_nd_rq := hk.nd_rq
  have hk_un_st_r := hk.un_st_r
  clear hk
  obtain ⟨h1, h2, h3, h4, h5⟩ := hi
  unfold stepCall at h
  split at h
  · rename_i hr
    have hr' : s.pc t = .idle ∨ ∃ x, s.pc t = .done x := by
      cases hp : s.pc t <;> simp_all [PC.atRest]
    cases op <;> simp only [] at h
    all_goals (repeat' split at h)
    all_goals (simp at h; try subst h)
    all_goals rk_fin
  · simp at h

set_option maxHeartbeats 1600000 in
theorem invRP_poll {s s' : State} {t : Nat} (hk : InvRK s) (hi : InvRP s) (h : stepPoll s t = some s') : InvRP s' := by
  have hk_owner := hk.owner
  have hk_lt_sq := hk.lt_sq
  have hk_lt_rq := hk.lt_rq
  have hk_r2 := hk.r2
  have hk_sq_owner := hk.sq_owner
  have hk_rq_owner := hk.rq_owner
  have hk_nd_sq := hk.nd_sq
  have hk_nd_rq := hk.nd_rq
  have hk_un_st_r := hk.un_st_r
  clear hk
  obtain ⟨h1, h2, h3, h4, h5⟩ := hi
  unfold stepPoll at h
  repeat' split at h
  all_goals (simp at h; try subst h)
  all_goals (try simp only [giveTo, takeFrom, finishRecv])
  all_goals (repeat' split)
  all_goals rk_fin

set_option maxHeartbeats 1600000 in
theorem invRP_dropFut {s s' : State} {t : Nat} (hk : InvRK s) (hi : InvRP s) (h : stepDropFut s t = some s') : InvRP s' := by
  have hk_owner := hk.owner
  have hk_lt_sq := hk.lt_sq
  have hk_lt_rq := hk.lt_rq
  have hk_r2 := hk.r2
  have hk_sq_owner := hk.sq_owner
  have hk_rq_owner := hk.rq_owner
  have hk_nd_sq := hk.nd_sq
  have hk_nd_rq := hk.nd_rq
  have hk_un_st_r := hk.un_st_r
  clear hk
  obtain ⟨h1, h2, h3, h4, h5⟩ := hi
  unfold stepDropFut at h
  repeat' split at h
  all_goals (simp at h; try subst h)
  all_goals skip
  all_goals rk_fin

theorem invRP_spurious {s s' : State} {t : Nat} (hk : InvRK s) (hi : InvRP s) (h : stepSpurious s t = some s') : InvRP s' := by
  have hk_owner := hk.owner
  have hk_lt_sq := hk.lt_sq
  have hk_lt_rq := hk.lt_rq
  have hk_r2 := hk.r2
  have hk_sq_owner := hk.sq_owner
  have hk_rq_owner := hk.rq_owner
  have hk_nd_sq := hk.nd_sq
  have hk_nd_rq := hk.nd_rq
  have hk_un_st_r := hk.un_st_r
  clear hk
  obtain ⟨h1, h2, h3, h4, h5⟩ := hi
  unfold stepSpurious at h
  repeat' split at h
  all_goals (simp at h; try subst h)
  all_goals rk_fin

theorem invRP_step {s s' : State} {t : Nat} {l : Label} (hk : InvRK s) (hi : InvRP s) (h : step s t l = some s') : InvRP s' := by
  cases l <;> simp only [step] at h
  · exact invRP_call hk hi h
  · exact invRP_adv hk hi h
  · exact invRP_poll hk hi h
  · exact invRP_dropFut hk hi h
  · exact invRP_spurious hk hi h


theorem invRP_reach {s : State} (h : Reach s) : InvRP s := by
  induction h with
  | init => exact invRP_init
  | step hr hs ih => exact invRP_step (invRK_reach hr) ih hs

structure InvRW (s : State) : Prop where
  k3 : ∀ t r, waitish (s.pc t) = some r → s.st r ≠ .waiting → s.wakes t = 0 → t ∈ owes (s.pc (s.wakeBy r))

theorem invRW_init : InvRW init := by
  constructor <;> simp [init, waitish]

attribute [local grind] waitish owes liveS liveR
attribute [local grind =] List.mem_map
attribute [local grind →] waitish_recOf liveS_recOf liveR_recOf

theorem invRW_wakeThen {s : State} {t : Nat} {a : Nat} {res : Res} (hk : InvRK s) (hi : InvRW s) (hpc : s.pc t = .wakeThen a res) : InvRW (stepWakeThen s t a res) := by
  have hk_owner := hk.owner
  have hk_lt_sq := hk.lt_sq
  have hk_lt_rq := hk.lt_rq
  have hk_sq_owner := hk.sq_owner
  have hk_rq_owner := hk.rq_owner
  have hk_canc_s := hk.canc_s
  have hk_canc_r := hk.canc_r
  have hk_sq_st := hk.sq_st
  have hk_rq_st := hk.rq_st
  clear hk
  obtain ⟨h1⟩ := hi
  simp only [stepWakeThen, giveTo, takeFrom, finishRecv]
  repeat' split
  all_goals rk_fin

theorem invRW_sLock {s : State} {t : Nat} {v : Nat} {r : Nat} (hk : InvRK s) (hi : InvRW s) (hpc : s.pc t = .sLock v r) : InvRW (stepSLock s t v r) := by
  have hk_owner := hk.owner
  have hk_lt_sq := hk.lt_sq
  have hk_lt_rq := hk.lt_rq
  have hk_sq_owner := hk.sq_owner
  have hk_rq_owner := hk.rq_owner
  have hk_canc_s := hk.canc_s
  have hk_canc_r := hk.canc_r
  have hk_sq_st := hk.sq_st
  have hk_rq_st := hk.rq_st
  clear hk
  obtain ⟨h1⟩ := hi
  simp only [stepSLock, giveTo, takeFrom, finishRecv]
  repeat' split
  all_goals rk_fin

theorem invRW_sWait {s : State} {t : Nat} {v : Nat} {r : Nat} (hk : InvRK s) (hi : InvRW s) (hpc : s.pc t = .sWait v r) : InvRW (stepSWait s t v r) := by
  have hk_owner := hk.owner
  have hk_lt_sq := hk.lt_sq
  have hk_lt_rq := hk.lt_rq
  have hk_sq_owner := hk.sq_owner
  have hk_rq_owner := hk.rq_owner
  have hk_canc_s := hk.canc_s
  have hk_canc_r := hk.canc_r
  have hk_sq_st := hk.sq_st
  have hk_rq_st := hk.rq_st
  clear hk
  obtain ⟨h1⟩ := hi
  simp only [stepSWait, giveTo, takeFrom, finishRecv]
  repeat' split
  all_goals rk_fin

theorem invRW_tsLock {s : State} {t : Nat} {v : Nat} (hk : InvRK s) (hi : InvRW s) (hpc : s.pc t = .tsLock v) : InvRW (stepTsLock s t v) := by
  have hk_owner := hk.owner
  have hk_lt_sq := hk.lt_sq
  have hk_lt_rq := hk.lt_rq
  have hk_sq_owner := hk.sq_owner
  have hk_rq_owner := hk.rq_owner
  have hk_canc_s := hk.canc_s
  have hk_canc_r := hk.canc_r
  have hk_sq_st := hk.sq_st
  have hk_rq_st := hk.rq_st
  clear hk
  obtain ⟨h1⟩ := hi
  simp only [stepTsLock, giveTo, takeFrom, finishRecv]
  repeat' split
  all_goals rk_fin

theorem invRW_rLock {s : State} {t : Nat} {r : Nat} (hk : InvRK s) (hi : InvRW s) (hpc : s.pc t = .rLock r) : InvRW (stepRLock s t r) := by
  have hk_owner := hk.owner
  have hk_lt_sq := hk.lt_sq
  have hk_lt_rq := hk.lt_rq
  have hk_sq_owner := hk.sq_owner
  have hk_rq_owner := hk.rq_owner
  have hk_canc_s := hk.canc_s
  have hk_canc_r := hk.canc_r
  have hk_sq_st := hk.sq_st
  have hk_rq_st := hk.rq_st
  clear hk
  obtain ⟨h1⟩ := hi
  simp only [stepRLock, giveTo, takeFrom, finishRecv]
  repeat' split
  all_goals rk_fin

theorem invRW_rWait {s : State} {t : Nat} {r : Nat} (hk : InvRK s) (hi : InvRW s) (hpc : s.pc t = .rWait r) : InvRW (stepRWait s t r) := by
  have hk_owner := hk.owner
  have hk_lt_sq := hk.lt_sq
  have hk_lt_rq := hk.lt_rq
  have hk_sq_owner := hk.sq_owner
  have hk_rq_owner := hk.rq_owner
  have hk_canc_s := hk.canc_s
  have hk_canc_r := hk.canc_r
  have hk_sq_st := hk.sq_st
  have hk_rq_st := hk.rq_st
  clear hk
  obtain ⟨h1⟩ := hi
  simp only [stepRWait, giveTo, takeFrom, finishRecv]
  repeat' split
  all_goals rk_fin

theorem invRW_trLock {s : State} {t : Nat} (hk : InvRK s) (hi : InvRW s) (hpc : s.pc t = .trLock) : InvRW (stepTrLock s t ) := by
  have hk_owner := hk.owner
  have hk_lt_sq := hk.lt_sq
  have hk_lt_rq := hk.lt_rq
  have hk_sq_owner := hk.sq_owner
  have hk_rq_owner := hk.rq_owner
  have hk_canc_s := hk.canc_s
  have hk_canc_r := hk.canc_r
  have hk_sq_st := hk.sq_st
  have hk_rq_st := hk.rq_st
  clear hk
  obtain ⟨h1⟩ := hi
  simp only [stepTrLock, giveTo, takeFrom, finishRecv]
  repeat' split
  all_goals rk_fin

theorem invRW_toLock {s : State} {t : Nat} {r : Nat} (hk : InvRK s) (hi : InvRW s) (hpc : s.pc t = .toLock r) : InvRW (stepToLock s t r) := by
  have hk_owner := hk.owner
  have hk_lt_sq := hk.lt_sq
  have hk_lt_rq := hk.lt_rq
  have hk_sq_owner := hk.sq_owner
  have hk_rq_owner := hk.rq_owner
  have hk_canc_s := hk.canc_s
  have hk_canc_r := hk.canc_r
  have hk_sq_st := hk.sq_st
  have hk_rq_st := hk.rq_st
  clear hk
  obtain ⟨h1⟩ := hi
  simp only [stepToLock, giveTo, takeFrom, finishRecv]
  repeat' split
  all_goals rk_fin

theorem invRW_toLoad {s : State} {t : Nat} {r : Nat} (hk : InvRK s) (hi : InvRW s) (hpc : s.pc t = .toLoad r) : InvRW (stepToLoad s t r) := by
  have hk_owner := hk.owner
  have hk_lt_sq := hk.lt_sq
  have hk_lt_rq := hk.lt_rq
  have hk_sq_owner := hk.sq_owner
  have hk_rq_owner := hk.rq_owner
  have hk_canc_s := hk.canc_s
  have hk_canc_r := hk.canc_r
  have hk_sq_st := hk.sq_st
  have hk_rq_st := hk.rq_st
  clear hk
  obtain ⟨h1⟩ := hi
  simp only [stepToLoad, giveTo, takeFrom, finishRecv]
  repeat' split
  all_goals rk_fin

theorem invRW_toCas {s : State} {t : Nat} {r : Nat} (hk : InvRK s) (hi : InvRW s) (hpc : s.pc t = .toCas r) : InvRW (stepToCas s t r) := by
  have hk_owner := hk.owner
  have hk_lt_sq := hk.lt_sq
  have hk_lt_rq := hk.lt_rq
  have hk_sq_owner := hk.sq_owner
  have hk_rq_owner := hk.rq_owner
  have hk_canc_s := hk.canc_s
  have hk_canc_r := hk.canc_r
  have hk_sq_st := hk.sq_st
  have hk_rq_st := hk.rq_st
  clear hk
  obtain ⟨h1⟩ := hi
  simp only [stepToCas, giveTo, takeFrom, finishRecv]
  repeat' split
  all_goals rk_fin

theorem invRW_toUnl {s : State} {t : Nat} {r : Nat} (hk : InvRK s) (hi : InvRW s) (hpc : s.pc t = .toUnl r) : InvRW (stepToUnl s t r) := by
  have hk_owner := hk.owner
  have hk_lt_sq := hk.lt_sq
  have hk_lt_rq := hk.lt_rq
  have hk_sq_owner := hk.sq_owner
  have hk_rq_owner := hk.rq_owner
  have hk_canc_s := hk.canc_s
  have hk_canc_r := hk.canc_r
  have hk_sq_st := hk.sq_st
  have hk_rq_st := hk.rq_st
  clear hk
  obtain ⟨h1⟩ := hi
  simp only [stepToUnl, giveTo, takeFrom, finishRecv]
  repeat' split
  all_goals rk_fin

theorem invRW_toFin {s : State} {t : Nat} {r : Nat} (hk : InvRK s) (hi : InvRW s) (hpc : s.pc t = .toFin r) : InvRW (stepToFin s t r) := by
  have hk_owner := hk.owner
  have hk_lt_sq := hk.lt_sq
  have hk_lt_rq := hk.lt_rq
  have hk_sq_owner := hk.sq_owner
  have hk_rq_owner := hk.rq_owner
  have hk_canc_s := hk.canc_s
  have hk_canc_r := hk.canc_r
  have hk_sq_st := hk.sq_st
  have hk_rq_st := hk.rq_st
  clear hk
  obtain ⟨h1⟩ := hi
  simp only [stepToFin, giveTo, takeFrom, finishRecv]
  repeat' split
  all_goals rk_fin

theorem invRW_asLock {s : State} {t : Nat} {v : Nat} {r : Nat} (hk : InvRK s) (hi : InvRW s) (hpc : s.pc t = .asLock v r) : InvRW (stepAsLock s t v r) := by
  have hk_owner := hk.owner
  have hk_lt_sq := hk.lt_sq
  have hk_lt_rq := hk.lt_rq
  have hk_sq_owner := hk.sq_owner
  have hk_rq_owner := hk.rq_owner
  have hk_canc_s := hk.canc_s
  have hk_canc_r := hk.canc_r
  have hk_sq_st := hk.sq_st
  have hk_rq_st := hk.rq_st
  clear hk
  obtain ⟨h1⟩ := hi
  simp only [stepAsLock, giveTo, takeFrom, finishRecv]
  repeat' split
  all_goals rk_fin

theorem invRW_asRef {s : State} {t : Nat} {v : Nat} {r : Nat} (hk : InvRK s) (hi : InvRW s) (hpc : s.pc t = .asRef v r) : InvRW (stepAsRef s t v r) := by
  have hk_owner := hk.owner
  have hk_lt_sq := hk.lt_sq
  have hk_lt_rq := hk.lt_rq
  have hk_sq_owner := hk.sq_owner
  have hk_rq_owner := hk.rq_owner
  have hk_canc_s := hk.canc_s
  have hk_canc_r := hk.canc_r
  have hk_sq_st := hk.sq_st
  have hk_rq_st := hk.rq_st
  clear hk
  obtain ⟨h1⟩ := hi
  simp only [stepAsRef, giveTo, takeFrom, finishRecv]
  repeat' split
  all_goals rk_fin

theorem invRW_asFin {s : State} {t : Nat} {v : Nat} {r : Nat} (hk : InvRK s) (hi : InvRW s) (hpc : s.pc t = .asFin v r) : InvRW (stepAsFin s t v r) := by
  have hk_owner := hk.owner
  have hk_lt_sq := hk.lt_sq
  have hk_lt_rq := hk.lt_rq
  have hk_sq_owner := hk.sq_owner
  have hk_rq_owner := hk.rq_owner
  have hk_canc_s := hk.canc_s
  have hk_canc_r := hk.canc_r
  have hk_sq_st := hk.sq_st
  have hk_rq_st := hk.rq_st
  clear hk
  obtain ⟨h1⟩ := hi
  simp only [stepAsFin, giveTo, takeFrom, finishRecv]
  repeat' split
  all_goals rk_fin

theorem invRW_fdUnlS {s : State} {t : Nat} {v : Nat} {r : Nat} (hk : InvRK s) (hi : InvRW s) (hpc : s.pc t = .fdUnlS v r) : InvRW (stepFdUnlS s t v r) := by
  have hk_owner := hk.owner
  have hk_lt_sq := hk.lt_sq
  have hk_lt_rq := hk.lt_rq
  have hk_sq_owner := hk.sq_owner
  have hk_rq_owner := hk.rq_owner
  have hk_canc_s := hk.canc_s
  have hk_canc_r := hk.canc_r
  have hk_sq_st := hk.sq_st
  have hk_rq_st := hk.rq_st
  clear hk
  obtain ⟨h1⟩ := hi
  simp only [stepFdUnlS, giveTo, takeFrom, finishRecv]
  repeat' split
  all_goals rk_fin

theorem invRW_arLock {s : State} {t : Nat} {r : Nat} (hk : InvRK s) (hi : InvRW s) (hpc : s.pc t = .arLock r) : InvRW (stepArLock s t r) := by
  have hk_owner := hk.owner
  have hk_lt_sq := hk.lt_sq
  have hk_lt_rq := hk.lt_rq
  have hk_sq_owner := hk.sq_owner
  have hk_rq_owner := hk.rq_owner
  have hk_canc_s := hk.canc_s
  have hk_canc_r := hk.canc_r
  have hk_sq_st := hk.sq_st
  have hk_rq_st := hk.rq_st
  clear hk
  obtain ⟨h1⟩ := hi
  simp only [stepArLock, giveTo, takeFrom, finishRecv]
  repeat' split
  all_goals rk_fin

theorem invRW_arRef {s : State} {t : Nat} {r : Nat} (hk : InvRK s) (hi : InvRW s) (hpc : s.pc t = .arRef r) : InvRW (stepArRef s t r) := by
  have hk_owner := hk.owner
  have hk_lt_sq := hk.lt_sq
  have hk_lt_rq := hk.lt_rq
  have hk_sq_owner := hk.sq_owner
  have hk_rq_owner := hk.rq_owner
  have hk_canc_s := hk.canc_s
  have hk_canc_r := hk.canc_r
  have hk_sq_st := hk.sq_st
  have hk_rq_st := hk.rq_st
  clear hk
  obtain ⟨h1⟩ := hi
  simp only [stepArRef, giveTo, takeFrom, finishRecv]
  repeat' split
  all_goals rk_fin

theorem invRW_arFin {s : State} {t : Nat} {r : Nat} (hk : InvRK s) (hi : InvRW s) (hpc : s.pc t = .arFin r) : InvRW (stepArFin s t r) := by
  have hk_owner := hk.owner
  have hk_lt_sq := hk.lt_sq
  have hk_lt_rq := hk.lt_rq
  have hk_sq_owner := hk.sq_owner
  have hk_rq_owner := hk.rq_owner
  have hk_canc_s := hk.canc_s
  have hk_canc_r := hk.canc_r
  have hk_sq_st := hk.sq_st
  have hk_rq_st := hk.rq_st
  clear hk
  obtain ⟨h1⟩ := hi
  simp only [stepArFin, giveTo, takeFrom, finishRecv]
  repeat' split
  all_goals rk_fin

theorem invRW_fdUnlR {s : State} {t : Nat} {r : Nat} (hk : InvRK s) (hi : InvRW s) (hpc : s.pc t = .fdUnlR r) : InvRW (stepFdUnlR s t r) := by
  have hk_owner := hk.owner
  have hk_lt_sq := hk.lt_sq
  have hk_lt_rq := hk.lt_rq
  have hk_sq_owner := hk.sq_owner
  have hk_rq_owner := hk.rq_owner
  have hk_canc_s := hk.canc_s
  have hk_canc_r := hk.canc_r
  have hk_sq_st := hk.sq_st
  have hk_rq_st := hk.rq_st
  clear hk
  obtain ⟨h1⟩ := hi
  simp only [stepFdUnlR, giveTo, takeFrom, finishRecv]
  repeat' split
  all_goals rk_fin

theorem invRW_hWake {s : State} {t : Nat} {ws : List Nat} (hk : InvRK s) (hi : InvRW s) (hpc : s.pc t = .hWake ws) : InvRW (stepHWake s t ws) := by
  have hk_owner := hk.owner
  have hk_lt_sq := hk.lt_sq
  have hk_lt_rq := hk.lt_rq
  have hk_sq_owner := hk.sq_owner
  have hk_rq_owner := hk.rq_owner
  have hk_canc_s := hk.canc_s
  have hk_canc_r := hk.canc_r
  have hk_sq_st := hk.sq_st
  have hk_rq_st := hk.rq_st
  clear hk
  obtain ⟨h1⟩ := hi
  simp only [stepHWake, giveTo, takeFrom, finishRecv]
  repeat' split
  all_goals rk_fin

theorem invRW_sPark {s s' : State} {t : Nat} {v : Nat} {r : Nat} (hk : InvRK s) (hi : InvRW s) (hpc : s.pc t = .sPark v r) (h : stepSPark s t v r = some s') : InvRW s' := by
  have hk_owner := hk.owner
  have hk_lt_sq := hk.lt_sq
  have hk_lt_rq := hk.lt_rq
  have hk_sq_owner := hk.sq_owner
  have hk_rq_owner := hk.rq_owner
  have hk_canc_s := hk.canc_s
  have hk_canc_r := hk.canc_r
  have hk_sq_st := hk.sq_st
  have hk_rq_st := hk.rq_st
  clear hk
  obtain ⟨h1⟩ := hi
  unfold stepSPark at h
  repeat' split at h
  all_goals (simp at h; try subst h)
  all_goals rk_fin

theorem invRW_rPark {s s' : State} {t : Nat} {r : Nat} (hk : InvRK s) (hi : InvRW s) (hpc : s.pc t = .rPark r) (h : stepRPark s t r = some s') : InvRW s' := by
  have hk_owner := hk.owner
  have hk_lt_sq := hk.lt_sq
  have hk_lt_rq := hk.lt_rq
  have hk_sq_owner := hk.sq_owner
  have hk_rq_owner := hk.rq_owner
  have hk_canc_s := hk.canc_s
  have hk_canc_r := hk.canc_r
  have hk_sq_st := hk.sq_st
  have hk_rq_st := hk.rq_st
  clear hk
  obtain ⟨h1⟩ := hi
  unfold stepRPark at h
  repeat' split at h
  all_goals (simp at h; try subst h)
  all_goals rk_fin

theorem invRW_closeS {s s' : State} {t : Nat} (hk : InvRK s) (hi : InvRW s) (hpc : s.pc t = .hCloseS) (h : stepCloseS s t  = some s') : InvRW s' := by
  have hk_owner := hk.owner
  have hk_lt_sq := hk.lt_sq
  have hk_lt_rq := hk.lt_rq
  have hk_sq_owner := hk.sq_owner
  have hk_rq_owner := hk.rq_owner
  have hk_canc_s := hk.canc_s
  have hk_canc_r := hk.canc_r
  have hk_sq_st := hk.sq_st
  have hk_rq_st := hk.rq_st
  clear hk
  obtain ⟨h1⟩ := hi
  unfold stepCloseS at h
  repeat' split at h
  all_goals (simp at h; try subst h)
  all_goals rk_fin

theorem invRW_closeR {s s' : State} {t : Nat} (hk : InvRK s) (hi : InvRW s) (hpc : s.pc t = .hCloseR) (h : stepCloseR s t  = some s') : InvRW s' := by
  have hk_owner := hk.owner
  have hk_lt_sq := hk.lt_sq
  have hk_lt_rq := hk.lt_rq
  have hk_sq_owner := hk.sq_owner
  have hk_rq_owner := hk.rq_owner
  have hk_canc_s := hk.canc_s
  have hk_canc_r := hk.canc_r
  have hk_sq_st := hk.sq_st
  have hk_rq_st := hk.rq_st
  clear hk
  obtain ⟨h1⟩ := hi
  unfold stepCloseR at h
  repeat' split at h
  all_goals (simp at h; try subst h)
  all_goals rk_fin

theorem invRW_adv {s s' : State} {t : Nat} (hk : InvRK s) (hi : InvRW s) (h : stepAdv s t = some s') : InvRW s' := by
  unfold stepAdv at h
  split at h
  all_goals (first | (simp at h; done) | skip)
  all_goals rename_i hpc
  case h_1 => simp at h; subst h; exact invRW_wakeThen hk hi hpc
  case h_2 => simp at h; subst h; exact invRW_sLock hk hi hpc
  case h_3 => simp at h; subst h; exact invRW_sWait hk hi hpc
  case h_4 => exact invRW_sPark hk hi hpc h
  case h_5 => simp at h; subst h; exact invRW_tsLock hk hi hpc
  case h_6 => simp at h; subst h; exact invRW_rLock hk hi hpc
  case h_7 => simp at h; subst h; exact invRW_rWait hk hi hpc
  case h_8 => exact invRW_rPark hk hi hpc h
  case h_9 => simp at h; subst h; exact invRW_trLock hk hi hpc
  case h_10 => simp at h; subst h; exact invRW_toLock hk hi hpc
  case h_11 => simp at h; subst h; exact invRW_toLoad hk hi hpc
  case h_12 => simp at h; subst h; exact invRW_toCas hk hi hpc
  case h_13 => simp at h; subst h; exact invRW_toUnl hk hi hpc
  case h_14 => simp at h; subst h; exact invRW_toFin hk hi hpc
  case h_15 => simp at h; subst h; exact invRW_asLock hk hi hpc
  case h_16 => simp at h; subst h; exact invRW_asRef hk hi hpc
  case h_17 => simp at h; subst h; exact invRW_asFin hk hi hpc
  case h_18 => simp at h; subst h; exact invRW_fdUnlS hk hi hpc
  case h_19 => simp at h; subst h; exact invRW_arLock hk hi hpc
  case h_20 => simp at h; subst h; exact invRW_arRef hk hi hpc
  case h_21 => simp at h; subst h; exact invRW_arFin hk hi hpc
  case h_22 => simp at h; subst h; exact invRW_fdUnlR hk hi hpc
  case h_23 =>
    simp at h; subst h
    have hk_owner := hk.owner
    have hk_lt_sq := hk.lt_sq
    have hk_lt_rq := hk.lt_rq
    have hk_sq_owner := hk.sq_owner
    have hk_rq_owner := hk.rq_owner
    have hk_canc_s := hk.canc_s
    have hk_canc_r := hk.canc_r
    have hk_sq_st := hk.sq_st
    have hk_rq_st := hk.rq_st
    clear hk
    obtain ⟨h1⟩ := hi
    rk_fin
  case h_24 =>
    simp at h; subst h
    have hk_owner := hk.owner
    have hk_lt_sq := hk.lt_sq
    have hk_lt_rq := hk.lt_rq
    have hk_sq_owner := hk.sq_owner
    have hk_rq_owner := hk.rq_owner
    have hk_canc_s := hk.canc_s
    have hk_canc_r := hk.canc_r
    have hk_sq_st := hk.sq_st
    have hk_rq_st := hk.rq_st
    clear hk
    obtain ⟨h1⟩ := hi
    rk_fin
  case h_25 => exact invRW_closeS hk hi hpc h
  case h_26 => exact invRW_closeR hk hi hpc h
  case h_27 => simp at h; subst h; exact invRW_hWake hk hi hpc

set_option maxHeartbeats 1600000 in
theorem invRW_call {s s' : State} {t : Nat} {op : Op} (hk : InvRK s) (hi : InvRW s) (h : stepCall s t op = some s') : InvRW s' := by
  have hk_owner := hk.owner
  have hk_lt_sq := hk.lt_sq
  have hk_lt_rq := hk.lt_rq
  have hk_sq_owner := hk.sq_owner
  have hk_rq_owner := hk.rq_owner
  have hk_canc_s := hk.canc_s
  have hk_canc_r := hk.canc_r
  have hk_sq_st := hk.sq_st
  have hk_rq_st := hk.rq_st
  clear hk
  obtain ⟨h1⟩ := hi
  unfold stepCall at h
  split at h
  · rename_i hr
    have hr' : s.pc t = .idle ∨ ∃ x, s.pc t = .done x := by
      cases hp : s.pc t <;> simp_all [PC.atRest]
    cases op <;> simp only [] at h
    all_goals (repeat' split at h)
    all_goals (simp at h; try subst h)
    all_goals rk_fin
  · simp at h

set_option maxHeartbeats 1600000 in
theorem invRW_poll {s s' : State} {t : Nat} (hk : InvRK s) (hi : InvRW s) (h : stepPoll s t = some s') : InvRW s' := by
  have hk_owner := hk.owner
  have hk_lt_sq := hk.lt_sq
  have hk_lt_rq := hk.lt_rq
  have hk_sq_owner := hk.sq_owner
  have hk_rq_owner := hk.rq_owner
  have hk_canc_s := hk.canc_s
  have hk_canc_r := hk.canc_r
  have hk_sq_st := hk.sq_st
  have hk_rq_st := hk.rq_st
  clear hk
  obtain ⟨h1⟩ := hi
  unfold stepPoll at h
  repeat' split at h
  all_goals (simp at h; try subst h)
  all_goals (try simp only [giveTo, takeFrom, finishRecv])
  all_goals (repeat' split)
  all_goals rk_fin

set_option maxHeartbeats 1600000 in
theorem invRW_dropFut {s s' : State} {t : Nat} (hk : InvRK s) (hi : InvRW s) (h : stepDropFut s t = some s') : InvRW s' := by
  have hk_owner := hk.owner
  have hk_lt_sq := hk.lt_sq
  have hk_lt_rq := hk.lt_rq
  have hk_sq_owner := hk.sq_owner
  have hk_rq_owner := hk.rq_owner
  have hk_canc_s := hk.canc_s
  have hk_canc_r := hk.canc_r
  have hk_sq_st := hk.sq_st
  have hk_rq_st := hk.rq_st
  clear hk
  obtain ⟨h1⟩ := hi
  unfold stepDropFut at h
  repeat' split at h
  all_goals (simp at h; try subst h)
  all_goals skip
  all_goals rk_fin

theorem invRW_spurious {s s' : State} {t : Nat} (hk : InvRK s) (hi : InvRW s) (h : stepSpurious s t = some s') : InvRW s' := by
  have hk_owner := hk.owner
  have hk_lt_sq := hk.lt_sq
  have hk_lt_rq := hk.lt_rq
  have hk_sq_owner := hk.sq_owner
  have hk_rq_owner := hk.rq_owner
  have hk_canc_s := hk.canc_s
  have hk_canc_r := hk.canc_r
  have hk_sq_st := hk.sq_st
  have hk_rq_st := hk.rq_st
  clear hk
  obtain ⟨h1⟩ := hi
  unfold stepSpurious at h
  repeat' split at h
  all_goals (simp at h; try subst h)
  all_goals rk_fin

theorem invRW_step {s s' : State} {t : Nat} {l : Label} (hk : InvRK s) (hi : InvRW s) (h : step s t l = some s') : InvRW s' := by
  cases l <;> simp only [step] at h
  · exact invRW_call hk hi h
  · exact invRW_adv hk hi h
  · exact invRW_poll hk hi h
  · exact invRW_dropFut hk hi h
  · exact invRW_spurious hk hi h


theorem invRW_reach {s : State} (h : Reach s) : InvRW s := by
  induction h with
  | init => exact invRW_init
  | step hr hs ih => exact invRW_step (invRK_reach hr) ih hs

end Fv.Chan.RendezvousB
