import Fv.Lemmas.Mpsc3BSim
/-! Chunk-table invariants of the `Mpsc3B` model at ticket level: a non-empty slot at or after the consumer
position, and a ticket about to be written, live in a chunk that is RESIDENT in the table (`tblId (cid % n) = cid`);
an entry is re-labelled only after the consumer retired the old chunk. -/
namespace Fv.Chan.Mpsc3B
set_option linter.unusedSimpArgs false

def tblSpecial : Pc → Bool
  | .eId | .eRet | .eCas | .wSt | .dRetire | .dEmpty => true
  | _ => false

theorem quiet_not_wSt {p : Pc} (h : quiet p = true) : p ≠ .wSt ∧ p ≠ .eCas := by
  cases p <;> simp_all [quiet]

section
attribute [local simp] quiet_retWith quiet_retPending quiet_tsCall quiet_enterLoop
  quiet_parkSeqS quiet_parkSeqR quiet_deqCall quiet_flushCall quiet_tsErr quiet_tsOk quiet_chkClosed quiet_chkOpen
  quiet_nrDone quiet_finDoneS quiet_finDoneR quiet_deqDone quiet_scDone quiet_flushDone quiet_probeDone quiet_pollEntry
  quiet_pubDone quiet_callTh

set_option maxHeartbeats 4000000 in
theorem tbl_sum {c s t a s'} (h : next c s t = some (a, s')) (hsp : tblSpecial (s.th t).pc = false) :
    (∀ u, u ≠ t → s'.th u = s.th u) ∧ s'.tblId = s.tblId ∧ s'.retired = s.retired ∧ s'.hCid = s.hCid ∧
    s'.hIdx = s.hIdx ∧ s'.hPos = s.hPos ∧ s'.slot = s.slot ∧ (s'.th t).pc ≠ .wSt ∧ (s'.th t).pc ≠ .eCas := by
  unfold next at h
  cases hpc : (s.th t).pc <;> simp only [hpc] at h <;> nx_unfold at h
  all_goals (first | (rw [hpc] at hsp; simp [tblSpecial] at hsp; done) | skip)
  all_goals (try (repeat' split at h))
  all_goals (try (simp only [Option.some.injEq, Prod.mk.injEq, reduceCtorEq] at h))
  all_goals (try (obtain ⟨-, rfl⟩ := h))
  all_goals (first | contradiction | skip)
  all_goals (refine ⟨fun u hu => upd_other _ _ _ _ hu, rfl, rfl, rfl, rfl, rfl, rfl, ?_⟩)
  all_goals (simp only [upd_same])
  all_goals (first | (exact quiet_not_wSt (by simp)) | (constructor <;> simp <;> done) | (constructor <;> simp [hpc] <;> done))
end

structure TInv (c : Cfg) (s : State) : Prop where
  retLe : s.retired ≤ s.hCid
  resident : ∀ tk, s.hPos ≤ tk → s.slot tk ≠ .empty → s.tblId ((tk / c.chunkCap) % c.nChunks) = tk / c.chunkCap
  writer : ∀ t, (s.th t).pc = .wSt → s.tblId (((s.th t).tk / c.chunkCap) % c.nChunks) = (s.th t).tk / c.chunkCap
  caser : ∀ t, (s.th t).pc = .eCas → (s.th t).cur + 1 ≤ s.retired

theorem tinv_init (c : Cfg) (p : Tid → List Op) : TInv c (init c p) := by
  constructor <;> simp [init]

/-- a ticket at or after the consumer position lies in a chunk the consumer has not retired -/
theorem chunk_not_retired {c : Cfg} {s : State} (hc : 0 < c.chunkCap) (hi : CInv c (absC s)) (ht : TInv c s)
    {tk : Nat} (h : s.hPos ≤ tk) : ¬ (tk / c.chunkCap + 1 ≤ s.retired) := by
  intro hr
  have h1 := ht.retLe
  have h2 : s.hPos = s.hCid * c.chunkCap + s.hIdx := hi.posEq
  have h3 : tk < c.chunkCap * (tk / c.chunkCap + 1) := Nat.lt_mul_div_succ tk hc
  have h4 : c.chunkCap * (tk / c.chunkCap + 1) ≤ c.chunkCap * s.hCid := Nat.mul_le_mul_left _ (by omega)
  rw [Nat.mul_comm c.chunkCap s.hCid] at h4
  omega

theorem tinv_gen {c s t a s'} (ht : TInv c s) (h : next c s t = some (a, s')) (hsp : tblSpecial (s.th t).pc = false) :
    TInv c s' := by
  obtain ⟨hth, e1, e2, e3, e4, e5, e6, n1, n2⟩ := tbl_sum h hsp
  refine ⟨by rw [e2, e3]; exact ht.retLe, by rw [e5, e6, e1]; exact ht.resident, ?_, ?_⟩
  · intro u hu
    by_cases e : u = t
    · subst e; exact absurd hu n1
    · rw [hth u e] at hu ⊢; rw [e1]; exact ht.writer u hu
  · intro u hu
    by_cases e : u = t
    · subst e; exact absurd hu n2
    · rw [hth u e] at hu ⊢; rw [e2]; exact ht.caser u hu

/-- frame: a step of `t` that keeps table, cursor and slots and lands outside `wSt`/`eCas` -/
theorem tinv_frame {c : Cfg} {s s' : State} {t : Tid} (ht : TInv c s) (hth : ∀ u, u ≠ t → s'.th u = s.th u)
    (e1 : s'.tblId = s.tblId) (e2 : s'.retired = s.retired) (e3 : s'.hCid = s.hCid) (e5 : s'.hPos = s.hPos)
    (e6 : s'.slot = s.slot) (n1 : (s'.th t).pc ≠ .wSt) (n2 : (s'.th t).pc ≠ .eCas) : TInv c s' := by
  refine ⟨by rw [e2, e3]; exact ht.retLe, by rw [e5, e6, e1]; exact ht.resident, ?_, ?_⟩
  · intro u hu
    by_cases e : u = t
    · subst e; exact absurd hu n1
    · rw [hth u e] at hu ⊢; rw [e1]; exact ht.writer u hu
  · intro u hu
    by_cases e : u = t
    · subst e; exact absurd hu n2
    · rw [hth u e] at hu ⊢; rw [e2]; exact ht.caser u hu

theorem tinv_eId {c s t a s'} (ht : TInv c s) (hpc : (s.th t).pc = .eId) (h : nxEId c s t = some (a, s')) : TInv c s' := by
  simp only [nxEId, Option.some.injEq, Prod.mk.injEq] at h
  obtain ⟨-, rfl⟩ := h
  refine ⟨ht.retLe, ht.resident, ?_, ?_⟩
  · intro u hu
    by_cases e : u = t
    · subst e
      simp only [upd_same] at hu ⊢
      split at hu
      · rename_i heq; split <;> first | exact heq | contradiction
      · simp at hu
    · simp only [upd_other _ _ _ _ e] at hu ⊢; exact ht.writer u hu
  · intro u hu
    by_cases e : u = t
    · subst e; simp only [upd_same] at hu; split at hu <;> simp at hu
    · simp only [upd_other _ _ _ _ e] at hu ⊢; exact ht.caser u hu

theorem tinv_eRet {c s t a s'} (ht : TInv c s) (hpc : (s.th t).pc = .eRet) (h : nxERet c s t = some (a, s')) : TInv c s' := by
  simp only [nxERet, Option.some.injEq, Prod.mk.injEq] at h
  obtain ⟨-, rfl⟩ := h
  refine ⟨ht.retLe, ht.resident, ?_, ?_⟩
  · intro u hu
    by_cases e : u = t
    · subst e; simp only [upd_same] at hu; split at hu <;> simp at hu
    · simp only [upd_other _ _ _ _ e] at hu ⊢; exact ht.writer u hu
  · intro u hu
    by_cases e : u = t
    · subst e
      simp only [upd_same] at hu ⊢
      split at hu
      · simp at hu
      · rename_i hlt; split <;> simp_all <;> omega
    · simp only [upd_other _ _ _ _ e] at hu ⊢; exact ht.caser u hu

theorem tinv_eCas {c s t a s'} (hc : 0 < c.chunkCap) (hi : CInv c (absC s)) (ht : TInv c s)
    (hpc : (s.th t).pc = .eCas) (h : nxECas c s t = some (a, s')) : TInv c s' := by
  have hret := ht.caser t hpc
  simp only [nxECas] at h
  split at h <;> simp only [Option.some.injEq, Prod.mk.injEq] at h <;> obtain ⟨-, rfl⟩ := h
  · -- CAS succeeded: entry `e` re-labelled from `cur` (retired) to our chunk id
    rename_i hcur
    -- no live ticket lives in the old chunk of this entry
    have key : ∀ tk, s.hPos ≤ tk → (tk / c.chunkCap) % c.nChunks = ((s.th t).tk / c.chunkCap) % c.nChunks →
        s.tblId ((tk / c.chunkCap) % c.nChunks) = tk / c.chunkCap → False := by
      intro tk h1 h2 h3
      rw [h2, hcur] at h3
      exact chunk_not_retired hc hi ht h1 (by omega)
    refine ⟨ht.retLe, ?_, ?_, ?_⟩
    · intro tk h1 h2
      simp only [upd_apply]
      split
      · rename_i heq; exact absurd (ht.resident tk h1 h2) (fun h3 => key tk h1 heq h3)
      · exact ht.resident tk h1 h2
    · intro u hu
      by_cases e : u = t
      · subst e; simp only [upd_same, upd_apply]
      · simp only [upd_other _ _ _ _ e] at hu ⊢
        have hw := ht.writer u hu
        have hcl : claimOf (s.th u) = some ⟨(s.th u).tk, some (s.th u).okc⟩ := by simp [claimOf, hu]
        have hr := (hi.claimRange u _ _ hcl).1
        simp only [upd_apply]
        split
        · rename_i heq; exact absurd hw (fun h3 => key _ hr heq h3)
        · exact hw
    · intro u hu
      by_cases e : u = t
      · subst e; simp [upd_same] at hu
      · simp only [upd_other _ _ _ _ e] at hu ⊢; exact ht.caser u hu
  · -- CAS failed
    exact tinv_frame (t := t) ht (fun u hu => upd_other _ _ _ _ hu) rfl rfl rfl rfl rfl (by simp) (by simp)

theorem tinv_wSt {c s t a s'} (ht : TInv c s) (hpc : (s.th t).pc = .wSt) (h : nxWSt c s t = some (a, s')) : TInv c s' := by
  have hw := ht.writer t hpc
  simp only [nxWSt] at h
  split at h <;> simp only [Option.some.injEq, Prod.mk.injEq] at h <;> obtain ⟨-, rfl⟩ := h
  all_goals
    refine ⟨ht.retLe, ?_, ?_, ?_⟩
    · intro tk h1 h2
      simp only [upd_apply] at h2
      split at h2
      · rename_i heq; rw [heq]; exact hw
      · exact ht.resident tk h1 h2
    · intro u hu
      by_cases e : u = t
      · subst e; simp [upd_same] at hu
      · simp only [upd_other _ _ _ _ e] at hu ⊢; exact ht.writer u hu
    · intro u hu
      by_cases e : u = t
      · subst e; simp [upd_same] at hu
      · simp only [upd_other _ _ _ _ e] at hu ⊢; exact ht.caser u hu

theorem tinv_dRetire {c s t a s'} (ht : TInv c s) (hpc : (s.th t).pc = .dRetire) (h : nxDRetire c s t = some (a, s')) : TInv c s' := by
  simp only [nxDRetire, Option.some.injEq, Prod.mk.injEq] at h
  obtain ⟨-, rfl⟩ := h
  have := ht.retLe
  refine ⟨Nat.le_refl _, ht.resident, ?_, ?_⟩
  · intro u hu
    by_cases e : u = t
    · subst e; simp [upd_same] at hu
    · simp only [upd_other _ _ _ _ e] at hu ⊢; exact ht.writer u hu
  · intro u hu
    by_cases e : u = t
    · subst e; simp [upd_same] at hu
    · simp only [upd_other _ _ _ _ e] at hu ⊢; have := ht.caser u hu; omega

theorem tinv_dEmpty {c s t a s'} (ht : TInv c s) (hpc : (s.th t).pc = .dEmpty) (h : nxDEmpty c s t = some (a, s')) : TInv c s' := by
  simp only [nxDEmpty, Option.some.injEq, Prod.mk.injEq] at h
  obtain ⟨-, rfl⟩ := h
  refine ⟨ht.retLe, ?_, ?_, ?_⟩
  · intro tk h1 h2
    simp only [upd_apply] at h2
    split at h2
    · simp at h2
    · exact ht.resident tk (by simp only [] at h1; omega) h2
  · intro u hu
    by_cases e : u = t
    · subst e; simp only [upd_same] at hu; repeat' split at hu
      all_goals simp at hu
    · simp only [upd_other _ _ _ _ e] at hu ⊢; exact ht.writer u hu
  · intro u hu
    by_cases e : u = t
    · subst e; simp only [upd_same] at hu; repeat' split at hu
      all_goals simp at hu
    · simp only [upd_other _ _ _ _ e] at hu ⊢; exact ht.caser u hu

theorem tinv_next {c s t a s'} (hc : 0 < c.chunkCap) (hi : CInv c (absC s)) (ht : TInv c s)
    (h : next c s t = some (a, s')) : TInv c s' := by
  cases hsp : tblSpecial (s.th t).pc with
  | false => exact tinv_gen ht h hsp
  | true =>
    unfold next at h
    cases hpc : (s.th t).pc <;> simp only [hpc] at h <;> rw [hpc] at hsp <;> simp [tblSpecial] at hsp
    · exact tinv_eId ht hpc h
    · exact tinv_eRet ht hpc h
    · exact tinv_eCas hc hi ht hpc h
    · exact tinv_wSt ht hpc h
    · exact tinv_dRetire ht hpc h
    · exact tinv_dEmpty ht hpc h

theorem tinv_env {c s t a s'} {l : Label} (hl : l ≠ .act) (ht : TInv c s) (h : stepA c s t l = some (a, s')) : TInv c s' := by
  cases l
  · exact absurd rfl hl
  · simp only [stepA, stepCall] at h
    split at h
    · split at h
      · simp only [Option.some.injEq, Prod.mk.injEq] at h
        obtain ⟨-, rfl⟩ := h
        exact tinv_frame (t := t) ht (fun u hu => upd_other _ _ _ _ hu) rfl rfl rfl rfl rfl
          (by simp only [upd_same]; exact (quiet_not_wSt (quiet_callTh _ _ _ _ _)).1)
          (by simp only [upd_same]; exact (quiet_not_wSt (quiet_callTh _ _ _ _ _)).2)
      · simp at h
    · simp at h
  · simp only [stepA, stepRet] at h
    split at h
    · simp only [Option.some.injEq, Prod.mk.injEq] at h
      obtain ⟨-, rfl⟩ := h
      exact tinv_frame (t := t) ht (fun u hu => upd_other _ _ _ _ hu) rfl rfl rfl rfl rfl (by simp) (by simp)
    · simp at h
  · simp only [stepA, stepSpurious] at h
    split at h <;> simp only [Option.some.injEq, Prod.mk.injEq, reduceCtorEq] at h
    all_goals (obtain ⟨-, rfl⟩ := h)
    · exact tinv_frame (t := t) ht (fun u hu => upd_other _ _ _ _ hu) rfl rfl rfl rfl rfl (by simp) (by simp)
    · exact tinv_frame (t := t) ht (fun u hu => upd_other _ _ _ _ hu) rfl rfl rfl rfl rfl (by simp) (by simp)
    · have hq := quiet_not_wSt (quiet_pollEntry (s.th t))
      exact tinv_frame (t := t) ht (fun u hu => upd_other _ _ _ _ hu) rfl rfl rfl rfl rfl
        (by simp only [upd_same]; exact hq.1) (by simp only [upd_same]; exact hq.2)

theorem tinv_reach {c p s} (hc : 0 < c.chunkCap) (h : Reach c p s) : TInv c s := by
  induction h with
  | init => exact tinv_init c p
  | step hr hs ih =>
    rename_i s0 s1 t l
    unfold step at hs
    cases hA : stepA c s0 t l with
    | none => simp [hA] at hs
    | some r =>
      obtain ⟨a, s2⟩ := r
      simp [hA] at hs; subst hs
      by_cases hl : l = .act
      · subst hl; exact tinv_next hc (cinv_reach hr) ih (by simpa [stepA] using hA)
      · exact tinv_env hl ih hA

end Fv.Chan.Mpsc3B
