import Fv.Lemmas.CacheConc
/-! Notification invariant of the concurrent cache model (C16 under interleavings): every removal
gets a fresh removal id; a notification is only ever sent for a logged removal, by the thread whose
critical section removed the binding, and no removal id is sent twice. -/
namespace Fv.Cache.Conc

/-- notifications a thread has taken responsibility for and not sent yet -/
def pend : PC → List Note
  | .rmPol k v _ rid => [⟨rid, k, v, .invalidated⟩]
  | .rmSub k v _ rid => [⟨rid, k, v, .invalidated⟩]
  | .rmNote k v rid => [⟨rid, k, v, .invalidated⟩]
  | .mVictim _ _ _ _ ns => ns
  | .mSub _ _ _ ns => ns
  | .mNote _ _ ns => ns
  | _ => []

structure InvN (s : State) : Prop where
  rem_lt : ∀ n ∈ s.removed, n.rid < s.nextRid
  not_sub : ∀ n ∈ s.notifs, n ∈ s.removed
  not_nodup : (s.notifs.map (·.rid)).Nodup
  pend_sub : ∀ t, ∀ n ∈ pend (s.pc t), n ∈ s.removed
  pend_fresh : ∀ t, ∀ n ∈ pend (s.pc t), ∀ m ∈ s.notifs, m.rid ≠ n.rid
  pend_nodup : ∀ t, ((pend (s.pc t)).map (·.rid)).Nodup
  pend_disj : ∀ t1 t2, t1 ≠ t2 → ∀ a ∈ pend (s.pc t1), ∀ b ∈ pend (s.pc t2), a.rid ≠ b.rid

theorem invN_init : InvN init := by
  constructor <;> simp [init, pend]

@[simp] theorem pend_idle  : pend (.idle ) = [] := rfl
@[simp] theorem pend_done {r} : pend (.done r) = [] := rfl
@[simp] theorem pend_rd {k p} : pend (.rd k p) = [] := rfl
@[simp] theorem pend_ins {k v c e l} : pend (.ins k v c e l) = [] := rfl
@[simp] theorem pend_insSub {k} {c} {old} : pend (.insSub k c old) = [] := rfl
@[simp] theorem pend_insEv {k} {c} : pend (.insEv k c) = [] := rfl
@[simp] theorem pend_insAdd {k} {c} : pend (.insAdd k c) = [] := rfl
@[simp] theorem pend_insMaint {k} : pend (.insMaint k) = [] := rfl
@[simp] theorem pend_rm {k} : pend (.rm k) = [] := rfl
@[simp] theorem pend_rmPol {k} {v} {c} {rid} : pend (.rmPol k v c rid) = [⟨rid, k, v, .invalidated⟩] := rfl
@[simp] theorem pend_rmSub {k} {v} {c} {rid} : pend (.rmSub k v c rid) = [⟨rid, k, v, .invalidated⟩] := rfl
@[simp] theorem pend_rmNote {k} {v} {rid} : pend (.rmNote k v rid) = [⟨rid, k, v, .invalidated⟩] := rfl
@[simp] theorem pend_cmp {k} {d} {l} : pend (.cmp k d l) = [] := rfl
@[simp] theorem pend_oi {k} {v} {c} : pend (.oi k v c) = [] := rfl
@[simp] theorem pend_oiEv {k} {v} {c} : pend (.oiEv k v c) = [] := rfl
@[simp] theorem pend_oiAdd {k} {v} {c} : pend (.oiAdd k v c) = [] := rfl
@[simp] theorem pend_clr {a p} : pend (.clr a p) = [] := rfl
@[simp] theorem pend_mLock {a} {b} {f} : pend (.mLock a b f) = [] := rfl
@[simp] theorem pend_mDrain {m} {l} {a} : pend (.mDrain m l a) = [] := rfl
@[simp] theorem pend_mAdmit {m} {ws} : pend (.mAdmit m ws) = [] := rfl
@[simp] theorem pend_mVictim {m} {ws} {vs} {tot} {ns} : pend (.mVictim m ws vs tot ns) = ns := rfl
@[simp] theorem pend_mSub {m} {ws} {tot} {ns} : pend (.mSub m ws tot ns) = ns := rfl
@[simp] theorem pend_mNote {m} {ws} {ns} : pend (.mNote m ws ns) = ns := rfl
@[simp] theorem pend_mTtl {m} : pend (.mTtl m) = [] := rfl
@[simp] theorem pend_mTtlMap {m} {e} : pend (.mTtlMap m e) = [] := rfl
@[simp] theorem pend_mTti {m} : pend (.mTti m) = [] := rfl
@[simp] theorem pend_mCapLoad {m} : pend (.mCapLoad m) = [] := rfl
@[simp] theorem pend_mCapEvict {m} {n} : pend (.mCapEvict m n) = [] := rfl
@[simp] theorem pend_mCapMap {m} {v} {r} : pend (.mCapMap m v r) = [] := rfl
@[simp] theorem pend_mCapSub {m} {r} : pend (.mCapSub m r) = [] := rfl
@[simp] theorem pend_mUnlock {m} : pend (.mUnlock m) = [] := rfl
@[simp] theorem pend_afterWrites (m : MCtx) : pend (afterWrites m) = [] := by unfold afterWrites; split <;> rfl
@[simp] theorem pend_nextAdmit (m : MCtx) (ws) : pend (nextAdmit m ws) = [] := by
  unfold nextAdmit; split <;> first | exact pend_afterWrites _ | rfl
@[simp] theorem pend_startDrain (m : MCtx) (l) : pend (startDrain m l) = [] := by
  unfold startDrain; split <;> first | exact pend_nextAdmit _ _ | rfl
@[simp] theorem pend_afterSub (m : MCtx) (ws ns) : pend (afterSub m ws ns) = ns := by
  unfold afterSub; split <;> first | exact pend_nextAdmit _ _ | rfl
@[simp] theorem pend_afterVictim (m : MCtx) (ws vs tot ns) : pend (afterVictim m ws vs tot ns) = ns := by
  unfold afterVictim; split <;> rfl
@[simp] theorem pend_startPC (c : Cfg) (n : Nat) (op : Op) : pend (startPC c n op) = [] := by cases op <;> rfl

/-- thread `t` moves to a PC with the same pending notifications; logs unchanged -/
theorem invN_frame {s s' : State} (hi : InvN s) (t : Nat) (x : PC) (hpc : s'.pc = upd s.pc t x)
    (hp : pend x = pend (s.pc t)) (hr : s'.removed = s.removed) (hn : s'.notifs = s.notifs)
    (hnr : s'.nextRid = s.nextRid) : InvN s' := by
  obtain ⟨h1, h2, h3, h4, h5, h6, h7⟩ := hi
  have key : ∀ u, pend (s'.pc u) = pend (s.pc u) := by
    intro u; rw [hpc, upd_apply]; split
    · rename_i e; rw [e, hp]
    · rfl
  refine ⟨by rw [hr, hnr]; exact h1, by rw [hr, hn]; exact h2, by rw [hn]; exact h3, ?_, ?_, ?_, ?_⟩
  · intro u n hn'; rw [key] at hn'; rw [hr]; exact h4 u n hn'
  · intro u n hn' m hm; rw [key] at hn'; rw [hn] at hm; exact h5 u n hn' m hm
  · intro u; rw [key]; exact h6 u
  · intro t1 t2 hne a ha b hb; rw [key] at ha hb; exact h7 t1 t2 hne a ha b hb

/-- thread `t`'s critical section removes a binding: fresh removal id, logged, now pending at `t` -/
theorem invN_remove {s s' : State} (hi : InvN s) (t : Nat) (x : PC) (n : Note) (hpc : s'.pc = upd s.pc t x)
    (hp : pend x = pend (s.pc t) ++ [n]) (hrid : n.rid = s.nextRid)
    (hr : s'.removed = s.removed ++ [n]) (hn : s'.notifs = s.notifs)
    (hnr : s'.nextRid = s.nextRid + 1) : InvN s' := by
  obtain ⟨h1, h2, h3, h4, h5, h6, h7⟩ := hi
  have key : ∀ u, u ≠ t → pend (s'.pc u) = pend (s.pc u) := by
    intro u hu; rw [hpc, upd_other _ _ _ _ hu]
  have keyt : pend (s'.pc t) = pend (s.pc t) ++ [n] := by rw [hpc, upd_same, hp]
  have fresh_p : ∀ u, ∀ a ∈ pend (s.pc u), a.rid ≠ n.rid := by
    intro u a ha e; have := h1 a (h4 u a ha); omega
  have fresh_n : ∀ a ∈ s.notifs, a.rid ≠ n.rid := by
    intro a ha e; have := h1 a (h2 a ha); omega
  refine ⟨?_, ?_, by rw [hn]; exact h3, ?_, ?_, ?_, ?_⟩
  · intro a ha; rw [hr, List.mem_append] at ha; rw [hnr]
    rcases ha with ha | ha
    · have := h1 a ha; omega
    · simp at ha; subst ha; omega
  · intro a ha; rw [hn] at ha; rw [hr]; exact List.mem_append_left _ (h2 a ha)
  · intro u a ha; rw [hr]
    by_cases hu : u = t
    · subst hu; rw [keyt, List.mem_append] at ha
      rcases ha with ha | ha
      · exact List.mem_append_left _ (h4 u a ha)
      · exact List.mem_append_right _ ha
    · rw [key u hu] at ha; exact List.mem_append_left _ (h4 u a ha)
  · intro u a ha m hm; rw [hn] at hm
    by_cases hu : u = t
    · subst hu; rw [keyt, List.mem_append] at ha
      rcases ha with ha | ha
      · exact h5 u a ha m hm
      · simp at ha; subst ha; exact fresh_n m hm
    · rw [key u hu] at ha; exact h5 u a ha m hm
  · intro u
    by_cases hu : u = t
    · subst hu; rw [keyt, List.map_append, List.nodup_append]
      refine ⟨h6 u, by simp, ?_⟩
      intro a ha b hb
      simp at hb; subst hb
      rw [List.mem_map] at ha; obtain ⟨a', ha', rfl⟩ := ha
      exact fresh_p u a' ha'
    · rw [key u hu]; exact h6 u
  · intro t1 t2 hne a ha b hb
    by_cases h1t : t1 = t
    · subst h1t
      rw [key t2 (fun e => hne e.symm)] at hb
      rw [keyt, List.mem_append] at ha
      rcases ha with ha | ha
      · exact h7 t1 t2 hne a ha b hb
      · simp at ha; subst ha; exact fun e => fresh_p t2 b hb e.symm
    · rw [key t1 h1t] at ha
      by_cases h2t : t2 = t
      · subst h2t
        rw [keyt, List.mem_append] at hb
        rcases hb with hb | hb
        · exact h7 t1 t2 hne a ha b hb
        · simp at hb; subst hb; exact fresh_p t1 a ha
      · rw [key t2 h2t] at hb; exact h7 t1 t2 hne a ha b hb

/-- thread `t` sends (or fails to send) the first of its pending notifications -/
theorem invN_send {s s' : State} (hi : InvN s) (t : Nat) (x : PC) (n : Note) (rest : List Note) (sent : Bool)
    (hpc : s'.pc = upd s.pc t x) (hp0 : pend (s.pc t) = n :: rest) (hp : pend x = rest)
    (hr : s'.removed = s.removed) (hn : s'.notifs = if sent then s.notifs ++ [n] else s.notifs)
    (hnr : s'.nextRid = s.nextRid) : InvN s' := by
  obtain ⟨h1, h2, h3, h4, h5, h6, h7⟩ := hi
  have key : ∀ u, u ≠ t → pend (s'.pc u) = pend (s.pc u) := by
    intro u hu; rw [hpc, upd_other _ _ _ _ hu]
  have keyt : pend (s'.pc t) = rest := by rw [hpc, upd_same, hp]
  have hnd := h6 t
  rw [hp0, List.map_cons, List.nodup_cons] at hnd
  have sub : ∀ u, ∀ a ∈ pend (s'.pc u), a ∈ pend (s.pc u) := by
    intro u a ha
    by_cases hu : u = t
    · subst hu; rw [keyt] at ha; rw [hp0]; exact List.mem_cons_of_mem _ ha
    · rw [key u hu] at ha; exact ha
  have nmem : ∀ m ∈ s'.notifs, m ∈ s.notifs ∨ m = n := by
    intro m hm; rw [hn] at hm
    cases sent
    · exact Or.inl (by simpa using hm)
    · simp at hm; exact hm
  refine ⟨by rw [hr, hnr]; exact h1, ?_, ?_, ?_, ?_, ?_, ?_⟩
  · intro m hm; rw [hr]
    rcases nmem m hm with h | h
    · exact h2 m h
    · subst h; exact h4 t m (by rw [hp0]; simp)
  · rw [hn]; cases sent
    · simpa using h3
    · simp only [if_true, List.map_append, List.nodup_append]
      refine ⟨h3, by simp, ?_⟩
      intro a ha b hb
      simp at hb; subst hb
      rw [List.mem_map] at ha; obtain ⟨a', ha', rfl⟩ := ha
      exact h5 t n (by rw [hp0]; simp) a' ha'
  · intro u a ha; rw [hr]; exact h4 u a (sub u a ha)
  · intro u a ha m hm
    rcases nmem m hm with h | h
    · exact h5 u a (sub u a ha) m h
    · subst h
      by_cases hu : u = t
      · subst hu; rw [keyt] at ha
        intro e; exact hnd.1 (by rw [List.mem_map]; exact ⟨a, ha, e.symm⟩)
      · rw [key u hu] at ha
        exact fun e => h7 u t hu a ha m (by rw [hp0]; simp) e.symm
  · intro u
    by_cases hu : u = t
    · subst hu; rw [keyt]; exact hnd.2
    · rw [key u hu]; exact h6 u
  · intro t1 t2 hne a ha b hb; exact h7 t1 t2 hne a (sub t1 a ha) b (sub t2 b hb)

/-- a write-lock section of the TTL / capacity pass: removals logged with fresh ids and notified
inside the same section -/
theorem invN_bulk {s s' : State} (hi : InvN s) (t : Nat) (x : PC) (w : Reason) (r : List (Nat × Entry)) (sent : Bool)
    (hpc : s'.pc = upd s.pc t x) (hp0 : pend (s.pc t) = []) (hp : pend x = [])
    (hr : s'.removed = s.removed ++ mkNotes s.nextRid w r)
    (hn : s'.notifs = if sent then s.notifs ++ mkNotes s.nextRid w r else s.notifs)
    (hnr : s'.nextRid = s.nextRid + r.length) : InvN s' := by
  obtain ⟨h1, h2, h3, h4, h5, h6, h7⟩ := hi
  have key : ∀ u, pend (s'.pc u) = pend (s.pc u) := by
    intro u; rw [hpc, upd_apply]; split
    · rename_i e; rw [e, hp, hp0]
    · rfl
  have hk := mkNotes_rid s.nextRid w r
  have nmem : ∀ m ∈ s'.notifs, m ∈ s.notifs ∨ m ∈ mkNotes s.nextRid w r := by
    intro m hm; rw [hn] at hm
    cases sent
    · exact Or.inl (by simpa using hm)
    · simpa using hm
  refine ⟨?_, ?_, ?_, ?_, ?_, ?_, ?_⟩
  · intro a ha; rw [hr, List.mem_append] at ha; rw [hnr]
    rcases ha with ha | ha
    · have := h1 a ha; omega
    · exact (hk a ha).2
  · intro m hm; rw [hr]
    rcases nmem m hm with h | h
    · exact List.mem_append_left _ (h2 m h)
    · exact List.mem_append_right _ h
  · rw [hn]; cases sent
    · simpa using h3
    · simp only [if_true, List.map_append, List.nodup_append]
      refine ⟨h3, mkNotes_nodup _ _ _, ?_⟩
      intro a ha b hb
      rw [List.mem_map] at ha hb
      obtain ⟨a', ha', rfl⟩ := ha
      obtain ⟨b', hb', rfl⟩ := hb
      have := h1 a' (h2 a' ha'); have := (hk b' hb').1; omega
  · intro u a ha; rw [key] at ha; rw [hr]; exact List.mem_append_left _ (h4 u a ha)
  · intro u a ha m hm; rw [key] at ha
    rcases nmem m hm with h | h
    · exact h5 u a ha m h
    · have := h1 a (h4 u a ha); have := (hk m h).1; omega
  · intro u; rw [key]; exact h6 u
  · intro t1 t2 hne a ha b hb; rw [key] at ha hb; exact h7 t1 t2 hne a ha b hb


theorem invN_sent {s s' : State} (hi : InvN s) (t : Nat) (x : PC) (n : Note)
    (hpc : s'.pc = upd s.pc t x) (hn : s'.notifs = s.notifs ++ [n]) (hp0 : pend (s.pc t) = n :: pend x)
    (hr : s'.removed = s.removed) (hnr : s'.nextRid = s.nextRid) : InvN s' :=
  invN_send hi t x n (pend x) true hpc hp0 rfl hr (by simpa using hn) hnr

theorem invN_unsent {s s' : State} (hi : InvN s) (t : Nat) (x : PC)
    (hpc : s'.pc = upd s.pc t x) (hn : s'.notifs = s.notifs) (hp0 : ∃ n, pend (s.pc t) = n :: pend x)
    (hr : s'.removed = s.removed) (hnr : s'.nextRid = s.nextRid) : InvN s' := by
  obtain ⟨n, hp0⟩ := hp0
  exact invN_send hi t x n (pend x) false hpc hp0 rfl hr (by simpa using hn) hnr

syntax "invn_close " ident : tactic
macro_rules | `(tactic| invn_close $hi) => `(tactic|
  first
  | exact $hi
  | (refine invN_frame $hi _ _ rfl ?_ rfl rfl rfl
     simp_all
     done)
  | (refine invN_remove $hi _ _ _ rfl ?_ rfl rfl rfl rfl
     simp_all
     done)
  | (refine invN_sent $hi _ _ _ rfl rfl ?_ rfl rfl
     simp_all
     done)
  | (refine invN_unsent $hi _ _ rfl rfl ?_ rfl rfl
     simp_all
     done))

syntax "invn_step " ident ident ident : tactic
macro_rules | `(tactic| invn_step $hi $h $f) => `(tactic|
  (unfold $f at $h:ident
   repeat' split at $h:ident
   all_goals (simp at $h:ident; try subst $h:ident)
   all_goals invn_close $hi))

theorem invN_ttlMap {c : Cfg} {s s' : State} {t : Nat} {sent : Bool} (hi : InvN s)
    (h : stepTtlMap c s t sent = some s') : InvN s' := by
  unfold stepTtlMap at h
  split at h
  · rename_i m expired hpc
    simp at h; subst h
    refine invN_bulk hi t _ .expired (removeKeys c.nShards m.sh s.map expired).2 sent rfl ?_ ?_ rfl rfl rfl <;> simp [hpc]
  · simp at h

theorem invN_ttiMap {c : Cfg} {s s' : State} {t : Nat} {vs : List Nat} {sent : Bool} (hi : InvN s)
    (h : stepTtiMap c s t vs sent = some s') : InvN s' := by
  unfold stepTtiMap at h
  split at h
  · rename_i m hpc
    split at h
    · simp at h; subst h
      refine invN_frame hi _ _ rfl ?_ rfl rfl rfl
      simp [hpc]
    · simp at h; subst h
      refine invN_bulk hi t _ .expired (removeKeys c.nShards m.sh s.map (expiredOf c s vs)).2 sent rfl ?_ ?_ rfl rfl rfl <;> simp [hpc]
  · simp at h

theorem invN_capMap {c : Cfg} {s s' : State} {t : Nat} {sent : Bool} (hi : InvN s)
    (h : stepCapMap c s t sent = some s') : InvN s' := by
  unfold stepCapMap at h
  split at h
  · rename_i m victims released hpc
    simp at h; subst h
    refine invN_bulk hi t _ .capacity (removeKeys c.nShards m.sh s.map victims).2 sent rfl ?_ ?_ rfl rfl rfl <;> simp [hpc]
  · simp at h

theorem invN_step {c : Cfg} {s s' : State} {t : Nat} {l : Label} (hi : InvN s) (h : step c s t l = some s') :
    InvN s' := by
  replace h := step_step0 h
  cases l <;> simp only [step0] at h
  case call op a => invn_step hi h stepCall
  case advance d => simp at h; subst h; exact ⟨hi.rem_lt, hi.not_sub, hi.not_nodup, hi.pend_sub, hi.pend_fresh, hi.pend_nodup, hi.pend_disj⟩
  case read => invn_step hi h stepRead
  case insMap => invn_step hi h stepInsMap
  case insSub => invn_step hi h stepInsSub
  case insEv => invn_step hi h stepInsEv
  case insAdd => invn_step hi h stepInsAdd
  case coopSkip => invn_step hi h stepCoopSkip
  case coopLock => invn_step hi h stepCoopLock
  case rmMap => invn_step hi h stepRmMap
  case rmPol => invn_step hi h stepRmPol
  case rmSub => invn_step hi h stepRmSub
  case rmNote sent => invn_step hi h stepRmNote
  case compute fail => invn_step hi h stepCompute
  case oiMap => invn_step hi h stepOiMap
  case oiEv => invn_step hi h stepOiEv
  case oiAdd => invn_step hi h stepOiAdd
  case clear => invn_step hi h stepClear
  case clrAcq i => invn_step hi h stepClrAcq
  case clrGet i => invn_step hi h stepClrGet
  case mLock => invn_step hi h stepMLock
  case recv => invn_step hi h stepRecv
  case admit d => invn_step hi h stepAdmit
  case victim => invn_step hi h stepVictim
  case evSub => invn_step hi h stepEvSub
  case evNote sent => invn_step hi h stepEvNote
  case ttlAdvance e => invn_step hi h stepTtlAdvance
  case ttlMap sent => exact invN_ttlMap hi h
  case ttiMap vs sent => exact invN_ttiMap hi h
  case capLoad => invn_step hi h stepCapLoad
  case capEvict v r => invn_step hi h stepCapEvict
  case capMap sent => exact invN_capMap hi h
  case capSub => invn_step hi h stepCapSub
  case unlock => invn_step hi h stepUnlock

theorem invN_reach {c : Cfg} {s : State} (h : Reach c s) : InvN s := by
  induction h with
  | init => exact invN_init
  | step _ hs ih => exact invN_step ih hs

end Fv.Cache.Conc
