import Fv.Ioc.Container
/-!
# Specification vocabulary for C18

The dependency graph of a registry, as the resolver sees it: a slot is *active* when resolving it
would run its factory (an uninitialised singleton or a transient); an active slot has an edge to
every slot its factory script resolves.  `CycleFrom w s`: a cycle of active edges is reachable
from `s`.  Also the invariants used by the history theorems.
-/
namespace Fv.Ioc

/-- the script that resolving this provider would run, if any -/
def Provider.active : Provider → Option (List Dep)
  | .singleton sc none _ => some sc
  | .transient sc _ => some sc
  | _ => none

def ActiveEdge (w : World) (s t : Slot) : Prop :=
  ∃ p sc, w.regs.get s = some p ∧ p.active = some sc ∧ ∃ d ∈ sc, d.slot = t

inductive Reach (w : World) : Slot → Slot → Prop where
  | refl (s : Slot) : Reach w s s
  | step {s t u : Slot} : ActiveEdge w s t → Reach w t u → Reach w s u

/-- a cycle of the dependency graph is reachable from `s` -/
def CycleFrom (w : World) (s : Slot) : Prop :=
  ∃ t u, Reach w s t ∧ ActiveEdge w t u ∧ Reach w u t

end Fv.Ioc
