import Fv.Chan.OneshotB
/-! Predicates and the safety invariant `AInv` of the step-level oneshot model (helper for `Fv.Props.OneshotB`). -/
namespace Fv.Chan.OneshotB

@[simp] theorem upd_same {α} (f : Ag → α) (a : Ag) (x : α) : upd f a x a = x := by simp [upd]
theorem upd_apply {α} (f : Ag → α) (a q : Ag) (x : α) : upd f a x q = if q = a then x else f q := rfl
theorem updN_apply {α} (f : Nat → α) (i j : Nat) (x : α) : updN f i x j = if j = i then x else f j := rfl

theorem orE_some {α} {x y : Option α} {z : α} (h : orE x y = some z) : x = some z ∨ y = some z := by
  cases x <;> simp_all [orE]

/-- the groups of `stepAct` -/
theorem stepAct_cases {s s' : State} {a : Ag} (h : stepAct s a = some s') :
    stepSend s a = some s' ∨ stepWk s a = some s' ∨ stepCl s a = some s' ∨ stepX s a = some s' ∨
    stepPb s a = some s' ∨ stepTry s a = some s' ∨ stepTry2 s a = some s' ∨ stepPoll s a = some s' := by
  unfold stepAct at h
  rcases orE_some h with h | h; · exact .inl h
  rcases orE_some h with h | h; · exact .inr (.inl h)
  rcases orE_some h with h | h; · exact .inr (.inr (.inl h))
  rcases orE_some h with h | h; · exact .inr (.inr (.inr (.inl h)))
  rcases orE_some h with h | h; · exact .inr (.inr (.inr (.inr (.inl h))))
  rcases orE_some h with h | h; · exact .inr (.inr (.inr (.inr (.inr (.inl h)))))
  rcases orE_some h with h | h; · exact .inr (.inr (.inr (.inr (.inr (.inr (.inl h))))))
  exact .inr (.inr (.inr (.inr (.inr (.inr (.inr h))))))

/-- between the successful CAS EMPTY→WRITING and the swap to SENT / the backtrack -/
def inW (m : Mic) : Prop := m = .sLdRdrop2 ∨ m = .sStEmpty ∨ m = .sLock ∨ m = .sSwapSent

/-- between a successful CAS SENT→TAKEN and the `guard.take()` -/
def inT (m : Mic) : Prop := m = .xLock ∨ m = .tLock

/-- the body of `send` before its result is known -/
def inBody (m : Mic) : Prop :=
  m = .sLdOwn ∨ m = .sLdRdrop ∨ m = .sLdState ∨ m = .sCasEW ∨ m = .sLdRdrop2 ∨ m = .sStEmpty ∨ m = .sLock ∨ m = .sSwapSent

/-- the receiver is inside `try_recv` / `poll`, past the check of its own `closed` flag -/
def inRecvBody (m : Mic) : Prop :=
  m = .tLdState ∨ m = .tCasST ∨ m = .tLock ∨ m = .tStClosed ∨ m = .tUnlock ∨ m = .tLdState2 ∨ m = .tLdCount2 ∨
  m = .tLdCount ∨ m = .tCasEC ∨ m = .pLdState ∨ m = .pLdCountA ∨ m = .pLdCountB ∨ m = .pCasEC ∨ m = .pReg ∨ m = .park

/-- receiver-only mics -/
def rOnly (m : Mic) : Prop :=
  inRecvBody m ∨ m = .ciStRdrop ∨ m = .ciCasEC ∨ m = .ciCasST ∨ m = .rLdOwn ∨ m = .icLdState ∨ m = .icLdCount

/-- where a handle that has released its reference can be -/
def isEnd (m : Mic) : Prop := m = .idle ∨ m = .fLdState ∨ ∃ r, m = .ret r

theorem allGone_iff (g : Ag → Bool) (n : Nat) :
    allGone g n = true ↔ g .R = true ∧ ∀ i, i < n → g (.S i) = true := by
  simp [allGone, List.all_eq_true, List.mem_range]

def isErrOf (r : Res) (v : Nat) : Prop := r = .closedV v ∨ r = .sentV v

/-- number of `i < n` with `d i = false` -/
def cntF (d : Nat → Bool) : Nat → Nat
  | 0 => 0
  | n + 1 => cntF d n + (if d n then 0 else 1)

/-- J1: control (which call a mic belongs to) -/
structure J1 (s : State) : Prop where
  kSend : ∀ a, (s.loc a).k = .send → a.isS = true
  bodyK : ∀ a, inBody (s.loc a).m → (s.loc a).k = .send

/-- J2: handles, Arc, teardown -/
structure J2 (s : State) : Prop where
  freshM : ∀ i, s.nextH ≤ i → (s.loc (.S i)).m = .idle
  freshP : ∀ i, s.nextH ≤ i → s.prog (.S i) = []
  freshG : ∀ i, s.nextH ≤ i → s.gone (.S i) = false
  goneM : ∀ a, s.gone a = true → isEnd (s.loc a).m
  finR : ∀ a, (s.loc a).m = .fLdState → s.gone .R = true
  finS : ∀ a, (s.loc a).m = .fLdState → ∀ i, i < s.nextH → s.gone (.S i) = true
  finU : ∀ a b, (s.loc a).m = .fLdState → (s.loc b).m = .fLdState → a = b
  freedR : s.freed = true → s.gone .R = true
  freedS : ∀ i, s.freed = true → i < s.nextH → s.gone (.S i) = true
  freedF : ∀ a, s.freed = true → (s.loc a).m ≠ .fLdState

/-- J3: the receiver's own flag guards its side -/
structure J3 (s : State) : Prop where
  ciCl : ∀ a, (s.loc a).m = .ciStRdrop → s.closed .R = true
  rdropCl : s.rdrop = true → s.closed .R = true
  recvOpen : inRecvBody (s.loc .R).m → s.closed .R = false
  dcST : ∀ a, (s.loc a).m = .dcCasST → s.rdrop = true

/-- I2: the writer is unique and known -/
structure I2 (s : State) : Prop where
  wrS : ∀ a, inW (s.loc a).m → s.writer = some a.idx
  wrU : ∀ i, s.writer = some i → inW (s.loc (.S i)).m
  stW : s.st = .writing ↔ s.writer ≠ none

/-- I3: the taker is unique and known; who owns the slot's content -/
structure I3 (s : State) : Prop where
  tkS : ∀ a, inT (s.loc a).m → s.taker = some a
  tkU : ∀ a, s.taker = some a → inT (s.loc a).m
  tkSt : s.taker ≠ none → s.st = .taken
  tkSl : s.taker ≠ none → s.slot ≠ none
  slotS : s.st = .sent → s.slot ≠ none ∨ s.freed = true
  slotU : s.slot ≠ none → s.st = .sent ∨ s.taker ≠ none ∨ ∃ i, s.writer = some i ∧ (s.loc (.S i)).m = .sSwapSent
  swapSl : ∀ a, (s.loc a).m = .sSwapSent → s.slot ≠ none
  freedSl : s.freed = true → s.slot = none

/-- I3b: `try_recv`'s corrupt-state arms are dead code -/
structure I3b (s : State) : Prop where
  dead1 : ∀ a, (s.loc a).m ≠ .tStClosed
  dead2 : ∀ a, (s.loc a).m ≠ .tLdState2
  dead3 : ∀ a, (s.loc a).m ≠ .tLdCount2
  casSent : (s.loc .R).m = .tCasST → s.st = .sent

/-- I4: token accounting -/
structure I4 (s : State) : Prop where
  acct : (s.moved = [] ∧ s.slot = none ∧ s.received = [] ∧ s.dropped = []) ∨
         ∃ v, s.moved = [v] ∧ ((s.slot = some v ∧ s.received = [] ∧ s.dropped = []) ∨
                               (s.slot = none ∧ s.received = [v] ∧ s.dropped = []) ∨
                               (s.slot = none ∧ s.received = [] ∧ s.dropped = [v]))
  movedE : s.moved = [] ↔ s.mover = none
  movedSt : s.moved ≠ [] → s.st = .sent ∨ s.st = .taken ∨ ∃ i, s.writer = some i ∧ (s.loc (.S i)).m = .sSwapSent

/-- I4b: per-handle send history -/
structure I4b (s : State) : Prop where
  movedV : ∀ i, s.mover = some i → ∃ v, s.sval i = some v ∧ s.moved = [v]
  swapMv : ∀ a, (s.loc a).m = .sSwapSent → s.mover = some a.idx
  inSend : ∀ a, (s.loc a).k = .send → s.sval a.idx = some (s.loc a).v
  bodyRes : ∀ a, inBody (s.loc a).m → s.sres a.idx = none
  resErr : ∀ i r, s.sres i = some r → r = .ok ∨ ∃ v, s.sval i = some v ∧ isErrOf r v
  resOk : ∀ i, s.sres i = some .ok → s.mover = some i
  moverRes : ∀ i, s.mover = some i → s.sres i = some .ok ∨ (s.loc (.S i)).m = .sSwapSent

theorem j1_init (progS : Nat → List Op) (progR : List Op) : J1 (init progS progR) := by
  constructor <;> simp [init, inBody]

theorem j2_init (progS : Nat → List Op) (progR : List Op) : J2 (init progS progR) := by
  constructor <;> simp [init, isEnd]
  intro i hi
  cases i with
  | zero => omega
  | succ n => rfl

theorem j3_init (progS : Nat → List Op) (progR : List Op) : J3 (init progS progR) := by
  constructor <;> simp [init, inRecvBody]

theorem i2_init (progS : Nat → List Op) (progR : List Op) : I2 (init progS progR) := by
  constructor <;> simp [init, inW]

theorem i3_init (progS : Nat → List Op) (progR : List Op) : I3 (init progS progR) := by
  constructor <;> simp [init, inT]

theorem i3b_init (progS : Nat → List Op) (progR : List Op) : I3b (init progS progR) := by
  constructor <;> simp [init]

theorem i4_init (progS : Nat → List Op) (progR : List Op) : I4 (init progS progR) := by
  constructor <;> simp [init]

theorem i4b_init (progS : Nat → List Op) (progR : List Op) : I4b (init progS progR) := by
  constructor <;> simp [init, inBody]

/-! ### proof automation shared by the preservation lemmas -/

/-- unfold one group of the step function in `h : stepX s a = some s'`, split every branch, substitute `s'` -/
syntax "os_split " ident " [" Lean.Parser.Tactic.simpLemma,* "]" : tactic
macro_rules
  | `(tactic| os_split $h [$ls,*]) => `(tactic| (
  simp only [$ls,*, setLoc, sendDone, afterWake, afterClose, afterTry] at $h:ident
  repeat' split at $h:ident
  all_goals (first | (simp at $h:ident <;> try subst $h:ident) | skip)))

/-- final step of `os_close` -/
syntax "os_fin" : tactic
macro_rules
  | `(tactic| os_fin) => `(tactic| (
  (try simp only [upd_apply, updN_apply, if_true, if_false, ne_eq, not_false_eq_true, reduceCtorEq, reduceIte]) <;>
  simp only [inW, inT, inBody, inRecvBody, isEnd, isErrOf, Ag.idx, Ag.isS, allGone_iff, upd_apply, updN_apply,
    List.nil_append, List.append_nil, Option.toList_some, Option.toList_none] at * <;> grind))

/-- close one clause of an invariant about the updated state: case split on "is it the acting handle"
(for clauses about the receiver only: "is the acting handle the receiver"), rewrite the function updates
away, unfold the mic predicates, `grind` -/
syntax "os_close " term:max : tactic
macro_rules
  | `(tactic| os_close $a) => `(tactic| (
  dsimp only
  first
  | assumption
  | (intro b
     by_cases hb : b = $a
     · (try subst hb); os_fin
     · (try simp only [upd_apply, updN_apply, hb, if_false, reduceIte]); os_fin)
  | (by_cases hR : Ag.R = $a
     · (try subst hR); os_fin
     · (try simp only [upd_apply, updN_apply, hR, if_false, reduceIte]); os_fin)))

end Fv.Chan.OneshotB
