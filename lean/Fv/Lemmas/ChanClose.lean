import Fv.Lemmas.ChanTry
/-! Disconnect protocol at Q level: early checks of send / receive forms on the buffered families. -/
namespace Fv.Chan
open List

theorem firstHit_none_of_E {l e o g} (h : firstHit l e o g = none) (hm : Chk.E ∈ l) : e = false := by
  induction l with
  | nil => cases hm
  | cons c r ih =>
    cases c <;> simp only [firstHit] at h
    · split at h
      · cases h
      · rename_i he; simpa using he
    · split at h
      · cases h
      · exact ih h (by simpa using hm)
    · split at h
      · cases h
      · exact ih h (by simpa using hm)

/-- with a non-empty input and the receivers gone, a prelude containing `G` stops at `O` or `G` -/
theorem firstHit_gone {l o} (hm : Chk.G ∈ l) : ∃ c, firstHit l false o true = some c ∧ c ≠ .E := by
  induction l with
  | nil => cases hm
  | cons c r ih =>
    cases c <;> simp only [firstHit]
    · simp only [Bool.false_eq_true, if_false]; exact ih (by simpa using hm)
    · split
      · exact ⟨.O, rfl, by simp⟩
      · exact ih (by simpa using hm)
    · exact ⟨.G, by simp, by simp⟩

/-- with a non-empty input and the own flag set, a prelude containing `O` stops at `O` or `G` -/
theorem firstHit_own {l g} (hm : Chk.O ∈ l) : ∃ c, firstHit l false true g = some c ∧ c ≠ .E := by
  induction l with
  | nil => cases hm
  | cons c r ih =>
    cases c <;> simp only [firstHit]
    · simp only [Bool.false_eq_true, if_false]; exact ih (by simpa using hm)
    · exact ⟨.O, by simp, by simp⟩
    · split
      · exact ⟨.G, rfl, by simp⟩
      · exact ih (by simpa using hm)

theorem sendPrelude_has_G (fam a f) : Chk.G ∈ sendPrelude fam a f := by
  unfold sendPrelude
  split
  · split <;> simp
  · split <;> (try split) <;> simp

theorem sendPrelude_has_O (fam a f) (h : checksOwn fam a f = true) : Chk.O ∈ sendPrelude fam a f := by
  unfold sendPrelude
  split
  · simp [h]
  · split <;> simp [h]

theorem recvPrelude_has_E (fam a f) (h : f.isBatch = true) : Chk.E ∈ recvPrelude fam a f := by
  unfold recvPrelude
  simp only [h, Bool.not_true, Bool.false_eq_true, if_false]
  split <;> (try split) <;> simp

theorem recvPrelude_has_O (fam a f) (h : checksOwn fam a f = true) : Chk.O ∈ recvPrelude fam a f := by
  unfold recvPrelude
  split
  · simp [h]
  · split <;> simp [h]

/-- the senders-gone test a blocking receive form performs after finding the buffer empty -/
def goneFor (_fl : Flavour) (s : St) (_f : Form) (_hd : Handle) : Bool :=
  sendersGone s

theorem recvUnit_pos (fl cfg f n) (hw : recvWant f n [] > 0) : recvUnit fl cfg f n [] > 0 := by
  unfold recvUnit; split <;> omega

/-- A receive that has taken nothing yet cannot move exactly when the buffer is empty, the senders are
not gone and the form is a blocking one — in every configuration. -/
theorem recvStep_none_iff (fl : Flavour) (cfg : Cfg) (s : St) (t : Nat) (f : Form) (hd : Handle) (n : Nat)
    (hw : recvWant f n [] > 0) (hf : f.isSend = false) :
    recvStep fl cfg s t f hd n [] = none ↔ (s.buf = [] ∧ goneFor fl s f hd = false ∧ f.blocking = true) := by
  have hu := recvUnit_pos fl cfg f n hw
  have hk : recvK fl cfg s f n [] = 0 ↔ s.buf = [] := by
    unfold recvK
    constructor
    · intro h0
      have : s.buf.length = 0 := by omega
      exact length_eq_zero_iff.mp this
    · intro hb; simp [hb]
  unfold recvStep
  by_cases hb : s.buf = []
  · simp only [hk.mpr hb, if_true, isEmpty_nil, hb, true_and]
    unfold emptyOutcome goneFor
    simp only []
    split
    · rename_i hg; simp [hg]
    · rename_i hg
      have hg' : sendersGone s = false := by
        simpa using hg
      cases f <;> simp_all [Form.blocking, Form.isSend]
  · have hk' : ¬ recvK fl cfg s f n [] = 0 := fun h => hb (hk.mp h)
    simp only [hk', if_false, hb, false_and, iff_false]
    split <;> simp


theorem findH_flush (fl) (s : St) (h) : findH (mbFlush fl s).hs h = findH s.hs h := by
  unfold mbFlush; split <;> rfl

theorem findH_flushMid (fl) (s : St) (h) : findH (mbFlushMid fl s).hs h = findH s.hs h := by
  unfold mbFlushMid; split <;> rfl

/-- a receive that cannot move stays where it is however long it is run (a bounded-mpsc consumer
flushes its unpublished progress once on the way) -/
theorem runPS_brecv_stuck (fl : Flavour) (cfg : Cfg) (t : Nat) (f : Form) (h : HName) (n : Nat) (hd : Handle)
    (hw : recvWant f n [] > 0) (hform : f.isSend = false) :
    ∀ (fuel : Nat) (s : St), findH s.hs h = some hd → recvStep fl cfg s t f hd n [] = none →
      (runPS fl cfg fuel s (.brecv t f h n [])).2 = .brecv t f h n [] := by
  intro fuel
  induction fuel with
  | zero => intro s _ _; rfl
  | succ k ih =>
    intro s hf hn
    unfold runPS
    simp only [microDet, hf, hn]
    split
    · rfl
    · rename_i s' p' hm
      split at hm
      · cases hm
        refine ih _ (by rw [findH_flush]; exact hf) ?_
        rw [recvStep_none_iff fl cfg _ t f hd n hw hform]
        have := (recvStep_none_iff fl cfg s t f hd n hw hform).mp hn
        obtain ⟨a, b, c, d, e⟩ := mbFlush_fields fl s
        refine ⟨by rw [a]; exact this.1, ?_, this.2.2⟩
        have hg := this.2.1
        unfold goneFor sendersGone at hg ⊢
        have hsc : (mbFlush fl s).sc = s.sc := by simpa [St.shell] using congrArg Shell.sc d
        rw [hsc]; exact hg
      · cases hm

/-- a buffered send form that stops in its early checks fails Closed with everything handed back (or
dropped by `send`) and nothing accepted -/
theorem startSendBuf_closed {fl cfg s t f h hd vs} (hne : vs ≠ [])
    (hc : (hd.closed = true ∧ checksOwn fl.fam hd.isAsync f = true) ∨ receiversGone fl s = true) :
    (startSendBuf fl cfg s (s.create vs) t f h hd vs) = failSend fl (s.create vs) f .closed [] vs := by
  unfold startSendBuf
  have he : vs.isEmpty = false := by cases vs <;> simp_all
  rw [he]
  have : ∃ c, firstHit (sendPrelude fl.fam hd.isAsync f) false hd.closed (receiversGone fl s) = some c ∧ c ≠ .E := by
    rcases hc with ⟨h1, h2⟩ | h1
    · rw [h1]; exact firstHit_own (sendPrelude_has_O _ _ _ h2)
    · rw [h1]; exact firstHit_gone (sendPrelude_has_G _ _ _)
  obtain ⟨c, hc1, hc2⟩ := this
  rw [hc1]
  cases c <;> simp_all


theorem failSend_out (fl s f tag sent rest) :
    ∃ o, (failSend fl s f tag sent rest).2 = .fin o ∧ o.tag = tag ∧ o.sent = sent ∧
      ((o.back = rest ∧ o.lost = []) ∨ (o.back = [] ∧ o.lost = rest)) := by
  unfold failSend
  split
  · exact ⟨_, rfl, rfl, rfl, Or.inr ⟨rfl, rfl⟩⟩
  · exact ⟨_, rfl, rfl, rfl, Or.inl ⟨rfl, rfl⟩⟩

/-- **A send form that meets a closed handle (at a call site that checks it) or a channel whose
receivers are gone fails with Closed, accepts nothing and returns every value** (handed back, or
dropped by the value-less error of `send`). Buffered families, non-empty input. -/
theorem stepOp_send_closed {fl : Flavour} (hrv : fl.fam ≠ .rv) (hos : fl.fam ≠ .os) (s : St) (f : Form) (h : HName)
    (vs : List Val) (hd : Handle) (hf : findH s.hs h = some hd) (hside : hd.name.side = .tx)
    (hform : f.isSend = true) (hsup : supportsForm fl.fam hd.isAsync f = true) (hne : vs ≠ [])
    (hc : (hd.closed = true ∧ checksOwn fl.fam hd.isAsync f = true) ∨ receiversGone fl s = true) :
    let o := (stepOp fl s (.snd f h vs)).2
    o.tag = .closed ∧ o.sent = [] ∧ ((o.back = vs ∧ o.lost = []) ∨ (o.back = [] ∧ o.lost = vs)) := by
  intro o
  have : o = (stepOp fl s (.snd f h vs)).2 := rfl
  unfold stepOp stepOpS at this
  unfold runPS at this
  simp only [microDet, seqCfg, start, Bool.false_eq_true, false_and, if_false] at this
  unfold startSend at this
  simp only [hf, hside, hform, hsup, ne_eq, not_true_eq_false, Bool.not_true, Bool.false_eq_true, or_self,
    if_false] at this
  rw [startSendBuf_closed hne hc] at this
  obtain ⟨o', ho', h1, h2, h3⟩ := failSend_out fl (s.create vs) f .closed [] vs
  rw [ho', runPS_fin] at this
  simp only [P.outOrBlocks] at this
  rw [this]
  exact ⟨h1, h2, h3⟩


/-- a receive prelude (no `G`) that stops at something other than `E` stopped at the own flag -/
theorem firstHit_recv_own {l e o c} (h : firstHit l e o false = some c) (hc : c ≠ .E) : o = true := by
  induction l with
  | nil => simp [firstHit] at h
  | cons d r ih =>
    cases d <;> simp only [firstHit] at h
    · split at h
      · cases h; exact absurd rfl hc
      · exact ih h
    · split at h
      · assumption
      · exact ih h
    · simp only [Bool.false_eq_true, if_false] at h; exact ih h

/-- first step of a receive in sequential mode: it finishes or blocks, and `Disconnected` means the
buffer is empty and the senders are gone -/
theorem recvStep_seq {fl : Flavour} {s t f hd n s' p'} (hw : recvWant f n [] > 0)
    (hs : recvStep fl seqCfg s t f hd n [] = some (s', p')) :
    ∃ o, p' = .fin o ∧ (o.tag = .disconnected → s.buf = [] ∧ s.sc = 0) := by
  unfold recvStep at hs
  have hk : recvK fl seqCfg s f n [] = 0 → s.buf = [] := by
    unfold recvK recvUnit
    simp only [seqCfg, Bool.false_eq_true, false_and, if_false]
    intro h0
    have : s.buf.length = 0 := by omega
    exact length_eq_zero_iff.mp this
  split at hs
  · rename_i h0
    simp only [isEmpty_nil, if_true] at hs
    unfold emptyOutcome at hs
    simp only [] at hs
    split at hs
    · rename_i hg
      cases hs
      refine ⟨_, rfl, fun _ => ⟨hk h0, ?_⟩⟩
      simpa [sendersGone] using hg
    · split at hs <;> first | (cases hs; exact ⟨_, rfl, fun h => by simp at h⟩) | cases hs
  · split at hs
    · cases hs; exact ⟨_, rfl, fun h => by simp at h⟩
    · rename_i hnot
      exfalso; apply hnot; right
      unfold recvUnit; simp [seqCfg]

/-- In EVERY configuration (the concurrent specification included) a receive step that has taken nothing yet
answers `Disconnected` only with the buffer empty and the sender COUNT zero: no receive form looks at
`producer_dropped` (`pd`), so the first half of a two-step spsc close is invisible to the receiver (N6 fixed). -/
theorem recvStep_disconnected_any {fl : Flavour} {cfg : Cfg} {s t f hd n s' o} (hw : recvWant f n [] > 0)
    (hs : recvStep fl cfg s t f hd n [] = some (s', .fin o)) (ht : o.tag = .disconnected) :
    s.buf = [] ∧ s.sc = 0 := by
  have hu := recvUnit_pos fl cfg f n hw
  unfold recvStep at hs
  split at hs
  · rename_i h0
    have hb : s.buf = [] := by
      unfold recvK at h0
      have : s.buf.length = 0 := by omega
      exact length_eq_zero_iff.mp this
    simp only [isEmpty_nil, if_true] at hs
    unfold emptyOutcome at hs
    simp only [] at hs
    split at hs
    · rename_i hg
      exact ⟨hb, by simpa [sendersGone] using hg⟩
    · split at hs <;> first | (cases hs; simp at ht) | cases hs
  · split at hs
    · cases hs; simp at ht
    · cases hs

/-- start of a receive form on a buffered channel, any configuration: `Disconnected` on an open handle means
the buffer is empty and the sender count is zero -/
theorem startRecv_disconnected_any {fl : Flavour} (hrv : fl.fam ≠ .rv) (hos : fl.fam ≠ .os) (cfg : Cfg) (s : St)
    (t : Nat) (f : Form) (h : HName) (n : Nat) (hd : Handle) (hf : findH s.hs h = some hd)
    (hopen : hd.closed = false) {s' o} (hs : startRecv fl cfg s t f h n = (s', .fin o))
    (ht : o.tag = .disconnected) : s.buf = [] ∧ s.sc = 0 := by
  unfold startRecv at hs
  simp only [hf] at hs
  split at hs
  · cases hs; simp at ht
  · split at hs
    · cases hs; simp at ht
    · rename_i c hc
      have := firstHit_recv_own hc (by intro e; subst e; simp_all)
      simp [hopen] at this
    · rename_i hnone
      have hw : recvWant f n [] > 0 := by
        unfold recvWant
        split
        · rename_i hb
          have := firstHit_none_of_E hnone (recvPrelude_has_E _ _ _ hb)
          have : n ≠ 0 := by simpa using this
          simp; omega
        · omega
      split at hs
      · rename_i r hr
        obtain ⟨r1, r2⟩ := r
        cases hs
        exact recvStep_disconnected_any hw hr ht
      · cases hs

/-- **`Disconnected` is reported only after the drain**: a receive form on a buffered channel returns
`Disconnected` only when its own handle was closed by its owner (a checked call site) or the buffer is
empty and the senders are gone (`sender_count = 0` — every receive form tests the count; the spsc async batch
forms tested `producer_dropped` until fix 23f212c, finding N6). -/
theorem stepOp_recv_disconnected {fl : Flavour} (hrv : fl.fam ≠ .rv) (hos : fl.fam ≠ .os) (s : St) (f : Form)
    (h : HName) (n : Nat) (hd : Handle) (hf : findH s.hs h = some hd)
    (ht : (stepOp fl s (.rcv f h n)).2.tag = .disconnected) :
    hd.closed = true ∨ (s.buf = [] ∧ s.sc = 0) := by
  unfold stepOp stepOpS at ht
  unfold runPS at ht
  simp only [microDet, seqCfg, start] at ht
  unfold startRecv at ht
  simp only [hf] at ht
  split at ht
  · rw [runPS_fin] at ht; simp [P.outOrBlocks] at ht
  · rename_i hcond
    have hfm : f.isSend = false := by
      simp only [not_or] at hcond
      simpa using hcond.2.1
    split at ht
    · rw [runPS_fin] at ht; simp [P.outOrBlocks] at ht
    · rename_i c hc
      rw [runPS_fin] at ht
      left
      exact firstHit_recv_own hc (by intro e; subst e; simp_all)
    · rename_i hnone
      right
      have hw : recvWant f n [] > 0 := by
        unfold recvWant
        split
        · rename_i hb
          have := firstHit_none_of_E hnone (recvPrelude_has_E _ _ _ hb)
          have : n ≠ 0 := by simpa using this
          simp; omega
        · omega
      split at ht
      · rename_i r hr
        obtain ⟨o, ho, hdisc⟩ := recvStep_seq hw (show recvStep fl seqCfg s 0 f hd n [] = some (r.1, r.2) from hr)
        rw [ho, runPS_fin] at ht
        exact hdisc ht
      · -- blocked: the loop state cannot move, the outcome is `blocks`
        rename_i hr
        have hst := runPS_brecv_stuck fl seqCfg 0 f h n hd hw hfm ((Op.rcv f h n).size + 3) (mbFlush fl s)
          (by rw [findH_flush]; exact hf)
          (by
            rw [recvStep_none_iff fl seqCfg _ 0 f hd n hw hfm]
            have := (recvStep_none_iff fl seqCfg s 0 f hd n hw hfm).mp hr
            obtain ⟨a, b, c, d, e⟩ := mbFlush_fields fl s
            refine ⟨by rw [a]; exact this.1, ?_, this.2.2⟩
            have hg := this.2.1
            unfold goneFor sendersGone at hg ⊢
            have hsc : (mbFlush fl s).sc = s.sc := by simpa [St.shell] using congrArg Shell.sc d
            rw [hsc]; exact hg)
        have hst' : (runPS fl { hot := true, granular := false } ((Op.rcv f h n).size + 3) (mbFlush fl s) (.brecv 0 f h n [])).2
            = .brecv 0 f h n [] := hst
        simp only [] at ht
        rw [hst'] at ht
        simp [P.outOrBlocks, blocksOut] at ht

/-- with `n ≠ 0` (or a single form) and the own flag set, a receive prelude containing `O` stops at `O` -/
theorem firstHit_recv_closed {l} (hm : Chk.O ∈ l) : ∃ c, firstHit l false true false = some c ∧ c ≠ .E := by
  induction l with
  | nil => cases hm
  | cons c r ih =>
    cases c <;> simp only [firstHit]
    · simp only [Bool.false_eq_true, if_false]; exact ih (by simpa using hm)
    · exact ⟨.O, by simp, by simp⟩
    · simp only [Bool.false_eq_true, if_false]; exact ih (by simpa using hm)

/-- **A receive form on a handle whose own `closed` flag is set is rejected with `Disconnected` and
changes nothing** — at every call site that checks the flag (`checksOwn`). -/
theorem stepOp_recv_own_closed {fl : Flavour} (s : St) (f : Form) (h : HName) (n : Nat) (hd : Handle)
    (hf : findH s.hs h = some hd) (hside : hd.name.side = .rx) (hform : f.isSend = false)
    (hsup : supportsForm fl.fam hd.isAsync f = true) (hn : n ≠ 0) (hc : hd.closed = true)
    (hchk : checksOwn fl.fam hd.isAsync f = true) :
    stepOp fl s (.rcv f h n) = (s, { tag := .disconnected }) := by
  unfold stepOp stepOpS
  unfold runPS
  simp only [microDet, seqCfg, start]
  unfold startRecv
  have hn' : (n == 0) = false := by simpa using hn
  simp only [hf, hside, hform, hsup, ne_eq, not_true_eq_false, Bool.not_true, Bool.false_eq_true, or_self,
    if_false, hn', hc]
  obtain ⟨c, hc1, hc2⟩ := firstHit_recv_closed (recvPrelude_has_O _ _ _ hchk)
  rw [hc1]
  cases c with
  | E => exact absurd rfl hc2
  | O => simp [runPS_fin, P.outOrBlocks]
  | G => simp [runPS_fin, P.outOrBlocks]

end Fv.Chan
