import Fv.Lemmas.SyncRwInv1
/-!
Preservation of the basic `HybridRwLock` invariant, part 2: ownership of stack nodes (writer nodes
are unlinked by their owner only; reader nodes are linked only between the owner's `link_back` and
the end of its park loop and may be unlinked by a waker), the targets of `wake_waiters`, and
"a linked reader node is not `WOKEN`".
-/
namespace Fv.Sync.RwLock
open Fv.Sync
variable {cfg : Cfg} {s s' : State} {t : Tid} {l : Lbl}

set_option maxHeartbeats 16000000 in
theorem thrNode_local (hi : Inv s) (h : Step cfg s t l s') :
    ((s'.th t).cur = none → slowL (s'.th t).pc = true → (s'.th t).wr = true →
        (s'.th t).linked = (s'.wl.node (.thr t)).linked)
    ∧ ((s'.th t).cur = none → slowL (s'.th t).pc = true → (s'.wl.node (.thr t)).isWriter = (s'.th t).wr)
    ∧ ((s'.wl.node (.thr t)).linked = true →
        (s'.th t).cur = none ∧ slowL (s'.th t).pc = true ∧ ((s'.th t).wr = false → rdL (s'.th t).pc = true)) := by
  have a1 := hi.syncCur t; have a2 := hi.asyncCur t; have a3 := hi.syncLinked t; have a4 := hi.thrNode t
  have a5 := hi.ffOk t; have a6 := hi.thrWr t; have c := hi.nodeWoken (.thr t)
  clear hi
  step_cases h
  all_goals (try norm_state)
  all_goals rg

theorem thrNode_step (hi : Inv s) (h : Step cfg s t l s') : PSyncLinked s' ∧ PThrWr s' ∧ PThrNode s' := by
  have key := thrNode_local hi h
  have ho := step_th_other h
  have hn := step_node_thr_other h (fun n hh hw => hi.wf.head_reader hh hw) (fun hp => (hi.wrTgt t hp).2)
  refine ⟨?_, ?_, ?_⟩ <;> intro u <;> by_cases hu : u = t
  · subst hu; exact key.1
  · obtain ⟨n1, -, n3⟩ := hn u hu
    rw [ho u hu]
    intro hc hp hw
    have hiw : (s.wl.node (.thr u)).isWriter = true := by rw [hi.thrWr u hc hp]; exact hw
    rw [n3 hiw]; exact hi.syncLinked u hc hp hw
  · subst hu; exact key.2.1
  · rw [ho u hu, (hn u hu).1]; exact hi.thrWr u
  · subst hu; exact key.2.2
  · rw [ho u hu]
    intro hl
    exact hi.thrNode u ((hn u hu).2.1 hl)

set_option maxHeartbeats 16000000 in
theorem tgt_local (hi : Inv s) (h : Step cfg s t l s') :
    ((s'.th t).pc = .wnStore →
        (s'.wl.node (s'.th t).tgt).linked = true ∧ (s'.wl.node (s'.th t).tgt).isWriter = true)
    ∧ ((s'.th t).pc = .wrStore → (s'.wl.node (s'.th t).tgt).linked = false ∧ s'.wl.writers = 0) := by
  have b1 := hi.wnTgt t; have b2 := hi.wrTgt t
  have fw : ∀ n, s.wl.firstWriter = some n → (s.wl.node n).linked = true ∧ (s.wl.node n).isWriter = true :=
    fun n hf => hi.wf.firstWriter_spec hf
  clear hi
  step_cases h
  all_goals (try norm_state)
  all_goals grind

theorem tgt_step (hi : Inv s) (h : Step cfg s t l s') : PWnTgt s' ∧ PWrTgt s' := by
  have key := tgt_local hi h
  have ho := step_th_other h
  have frozen : ∀ u, u ≠ t → inLL (s.th u).pc = true →
      s'.wl.writers = s.wl.writers
      ∧ ∀ n, (s'.wl.node n).linked = (s.wl.node n).linked
          ∧ ((s.wl.node n).linked = true → (s'.wl.node n).isWriter = (s.wl.node n).isWriter) := by
    intro u hu hin
    obtain ⟨hl, huniq⟩ := hi.ll u hin
    have htn : inLL (s.th t).pc = false := by
      cases hc : inLL (s.th t).pc
      · rfl
      · exact absurd (huniq t hc).symm hu
    exact step_wl_frozen h hl htn (hi.asyncCur t) (fun hl => (hi.thrNode t hl).2.1) hi.futNode (hi.phFresh t)
  constructor <;> intro u <;> by_cases hu : u = t
  · subst hu; exact key.1
  · rw [ho u hu]
    intro hp
    obtain ⟨-, hf⟩ := frozen u hu (by rw [hp]; rfl)
    obtain ⟨q1, q2⟩ := hi.wnTgt u hp
    exact ⟨by rw [(hf _).1]; exact q1, by rw [(hf _).2 q1]; exact q2⟩
  · subst hu; exact key.2
  · rw [ho u hu]
    intro hp
    obtain ⟨hw, hf⟩ := frozen u hu (by rw [hp]; rfl)
    obtain ⟨q1, q2⟩ := hi.wrTgt u hp
    exact ⟨by rw [(hf _).1]; exact q1, by rw [hw]; exact q2⟩

set_option maxHeartbeats 16000000 in
theorem nodeWoken_step (hi : Inv s) (h : Step cfg s t l s') : PNodeWoken s' := by
  intro n
  have b1 := hi.wnTgt t; have b2 := hi.wrTgt t
  have c := hi.nodeWoken n
  clear hi
  step_cases h
  all_goals (try norm_state)
  all_goals (first | exact c | grind)

end Fv.Sync.RwLock
