import Fv.Lemmas.SyncRwWakeL2
/-!
Accounting of `WOKEN` nodes in the rwlock model (`PWk`), part 2: local (stepping-thread) lemmas -
a node becomes `WOKEN` only by `take_and_mark_woken`, whose caller then carries the handle; the
stepping thread does not become blocked on a `WOKEN` node.
-/
namespace Fv.Sync.RwLock
open Fv.Sync
variable {cfg : Cfg} {s s' : State} {t : Tid} {l : Lbl}

set_option maxHeartbeats 16000000 in
/-- a node becomes `WOKEN` only through `take_and_mark_woken`; the caller appends the handle it took
to the handles it carries -/
theorem woken_set_local (hi : Inv s) (h : Step cfg s t l s') :
    ∀ n, (s'.wl.node n).woken = true → (s.wl.node n).woken = false →
      Marks s t n ∧ postWakePc (s'.th t).pc = true
      ∧ ((s'.th t).ws = (s.wl.node n).waiter.toList
          ∨ (s'.th t).ws = (s.th t).ws ++ (s.wl.node n).waiter.toList) := by
  have a1 := hi.syncCur t; have a2 := hi.asyncCur t; have a5 := hi.ffOk t
  unfold Marks
  clear hi
  step_cases h
  all_goals (intro n h1 h2)
  all_goals (try norm_state)
  all_goals wg

set_option maxHeartbeats 16000000 in
/-- the stepping thread does not become blocked on a node that is `WOKEN`; a heap node is
`WAITING` when it is allocated -/
theorem blocked_local (hi : Inv s) (hw : WInv s) (h : Step cfg s t l s') :
    (((s'.th t).pc = .wPark ∧ s'.token t = false) →
        ((s.th t).pc = .wPark ∧ s.token t = false) ∨ (s'.wl.node (.thr t)).woken = false)
    ∧ (∀ f, ((s'.th t).cur = some f ∧ (s'.th t).pc = .boPark ∧ s'.token t = false) →
        ((s.th t).cur = some f ∧ (s.th t).pc = .boPark ∧ s.token t = false)
        ∨ (s'.wl.node (.fut f)).woken = false)
    ∧ (∀ f, (s.th t).cur = some f → futPc (s.th t).pc = true → (s'.fut f).busy = false →
        (s'.fut f).phase ≠ .startedNode ∨ (s'.wl.node (.fut f)).woken = false)
    ∧ (∀ f, (s'.fut f).phase = .startedNode →
        (s.fut f).phase = .startedNode ∨ (s'.wl.node (.fut f)).woken = false) := by
  have a1 := hi.syncCur t; have a2 := hi.asyncCur t; have a5 := hi.ffOk t
  have b3 := hw.qz t
  have b1 : ∀ f, (s.th t).cur = some f → futPc (s.th t).pc = true → (s.fut f).busy = true :=
    fun f hc hp => (hi.busy t f hc hp).1
  have b4 := hi.phNode t; have b5 := hi.futUnl t; have b6 := hi.phFresh t; have b7 := hi.phStarted t
  clear hi hw
  step_cases h
  all_goals (try norm_state)
  all_goals wg

end Fv.Sync.RwLock
