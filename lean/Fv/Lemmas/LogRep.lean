import Fv.Lemmas.LogName
import Fv.Lemmas.LogSort
/-! C20 helper lemmas: the directory of a running roller, described by a list of rolled entries. -/
namespace Fv.Log.Roller
open Fv.Log

/-- a rolled file of this roller: period start (seconds), sequence number, content, stored compressed? -/
structure Entry where
  period : Nat
  seq : Nat
  recs : List (Nat × Nat)
  gz : Bool
  deriving DecidableEq, Repr

/-- what identifies an entry and what it holds (compression only renames and re-encodes) -/
def Entry.core (e : Entry) : Nat × Nat × List (Nat × Nat) := (e.period, e.seq, e.recs)

def entryName (p : Policy) (e : Entry) : Text :=
  if e.gz then rolledName p (stampOfSecs e.period) e.seq ++ gzSuffix p else rolledName p (stampOfSecs e.period) e.seq

def entryFS (p : Policy) (e : Entry) : Text × File := (entryName p e, { recs := e.recs, gz := e.gz })

def toRF (p : Policy) (e : Entry) : RolledFile :=
  { stamp := stampOfSecs e.period, seq := e.seq, name := entryName p e, compressed := e.gz }

/-- the directory: the active file plus one file per rolled entry -/
def canon (p : Policy) (rolled : List Entry) (active : List (Nat × Nat)) : FS :=
  (baseName p, { recs := active, gz := false }) :: rolled.map (entryFS p)

/-- an entry the roller itself can have produced (within the modelled ranges) -/
structure EntryOk (p : Policy) (e : Entry) : Prop where
  aligned : periodStart p.gran e.period = e.period
  inRange : e.period < tMax
  seqRange : e.seq < 4294967296

def entryLt (a b : Entry) : Prop := a.period < b.period ∨ (a.period = b.period ∧ a.seq < b.seq)

theorem EntryOk.stampValid {p : Policy} {e : Entry} (h : EntryOk p e) : (stampOfSecs e.period).Valid :=
  stampOfSecs_valid _ h.inRange

theorem EntryOk.stampAligned {p : Policy} {e : Entry} (h : EntryOk p e) : Aligned p.gran (stampOfSecs e.period) := by
  rw [← h.aligned]; exact aligned_periodStart _ _

theorem parse_entry (p : Policy) (hw : WF p) (e : Entry) (he : EntryOk p e) :
    parseRolledName p (entryName p e) = some (toRF p e) := by
  cases hg : e.gz with
  | false =>
    simp only [entryName, toRF, hg, Bool.false_eq_true, if_false]
    exact parseRolledName_rolledName p hw _ he.stampValid he.stampAligned _ he.seqRange
  | true =>
    simp only [entryName, toRF, hg, if_true]
    exact parseRolledName_rolledName_gz p hw _ he.stampValid he.stampAligned _ he.seqRange

theorem entryName_inj (p : Policy) (hw : WF p) {a b : Entry} (ha : EntryOk p a) (hb : EntryOk p b)
    (h : entryName p a = entryName p b) : a.period = b.period ∧ a.seq = b.seq ∧ a.gz = b.gz := by
  have h1 := parse_entry p hw a ha
  have h2 := parse_entry p hw b hb
  rw [h, h2] at h1
  simp only [Option.some.injEq, toRF, RolledFile.mk.injEq] at h1
  exact ⟨(stampOfSecs_inj h1.1).symm, h1.2.1.symm, h1.2.2.2.symm⟩

theorem entryName_ne_base (p : Policy) (hw : WF p) (e : Entry) (he : EntryOk p e) : entryName p e ≠ baseName p := by
  intro h
  have h1 := parse_entry p hw e he
  rw [h, parseRolledName_baseName p hw] at h1
  cases h1

/-- the name an entry would have with the other compression state is a different name -/
theorem entryName_gz_ne (p : Policy) (hw : WF p) (e : Entry) (he : EntryOk p e) :
    entryName p { e with gz := true } ≠ entryName p { e with gz := false } := by
  intro h
  have := entryName_inj p hw (a := { e with gz := true }) (b := { e with gz := false }) ⟨he.aligned, he.inRange, he.seqRange⟩
    ⟨he.aligned, he.inRange, he.seqRange⟩ h
  simp at this

/-! ### order -/

theorem ltNats_rfKey_of_entryLt (p : Policy) {a b : Entry} (h : entryLt a b) :
    ltNats (rfKey (toRF p a)) (rfKey (toRF p b)) = true := by
  simp only [rfKey, toRF]
  rw [ltNats_snoc _ _ _ _ (by simp [Stamp.key])]
  rcases h with h | ⟨h1, h2⟩
  · have := stampOfSecs_mono _ _ h
    simp only [Stamp.lt] at this
    simp [this]
  · simp [h1, h2]

theorem pairwise_mem_cases {α} {R : α → α → Prop} {l : List α} (h : l.Pairwise R) {a b : α} (ha : a ∈ l) (hb : b ∈ l) :
    a = b ∨ R a b ∨ R b a := by
  induction l with
  | nil => simp at ha
  | cons x xs ih =>
    rw [List.pairwise_cons] at h
    rcases List.mem_cons.mp ha with rfl | ha'
    · rcases List.mem_cons.mp hb with rfl | hb'
      · exact Or.inl rfl
      · exact Or.inr (Or.inl (h.1 b hb'))
    · rcases List.mem_cons.mp hb with rfl | hb'
      · exact Or.inr (Or.inr (h.1 a ha'))
      · exact ih h.2 ha' hb'

/-- the code's `find_rolled_files` result for a directory described by `rolled`: newest first -/
theorem sorted_reverse_toRF (p : Policy) (rolled : List Entry) (hasc : rolled.Pairwise entryLt) :
    ((rolled.map (toRF p)).reverse).Pairwise rfLe ∧
      ∀ a ∈ (rolled.map (toRF p)).reverse, ∀ b ∈ (rolled.map (toRF p)).reverse, rfKey a = rfKey b → a = b := by
  constructor
  · rw [List.pairwise_reverse, List.pairwise_map]
    refine hasc.imp ?_
    intro a b hab
    simp only [rfLe, before_eq]
    exact ltNats_asymm (ltNats_rfKey_of_entryLt p hab)
  · intro a ha b hb hk
    simp only [List.mem_reverse, List.mem_map] at ha hb
    obtain ⟨ea, hea, rfl⟩ := ha
    obtain ⟨eb, heb, rfl⟩ := hb
    rcases pairwise_mem_cases hasc hea heb with rfl | h | h
    · rfl
    · have := ltNats_rfKey_of_entryLt p h; rw [hk, ltNats_irrefl] at this; cases this
    · have := ltNats_rfKey_of_entryLt p h; rw [hk, ltNats_irrefl] at this; cases this

theorem filterMap_parse_entries (p : Policy) (hw : WF p) (rolled : List Entry) (hok : ∀ e ∈ rolled, EntryOk p e) :
    (rolled.map (entryFS p)).filterMap (fun e => parseRolledName p e.1) = rolled.map (toRF p) := by
  induction rolled with
  | nil => rfl
  | cons e rest ih =>
    simp only [List.map_cons, List.filterMap_cons, entryFS, parse_entry p hw e (hok e (by simp))]
    rw [← ih (fun e he => hok e (by simp [he]))]

theorem findRolled_canon (p : Policy) (hw : WF p) (fs : FS) (rolled : List Entry) (active : List (Nat × Nat))
    (hp : fs.Perm (canon p rolled active)) (hok : ∀ e ∈ rolled, EntryOk p e) (hasc : rolled.Pairwise entryLt) :
    findRolled p fs = (rolled.map (toRF p)).reverse := by
  obtain ⟨hs, hk⟩ := sorted_reverse_toRF p rolled hasc
  apply sortRolled_eq_of_perm _ hs hk
  refine (hp.filterMap _).trans ?_
  simp only [canon, List.filterMap_cons, parseRolledName_baseName p hw, filterMap_parse_entries p hw rolled hok]
  exact (List.reverse_perm _).symm

end Fv.Log.Roller
