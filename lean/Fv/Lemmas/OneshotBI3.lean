import Fv.Lemmas.OneshotBBase
/-! Preservation of the taker / slot invariant `I3` of the step-level oneshot model. -/
namespace Fv.Chan.OneshotB

attribute [local grind cases] Ag

set_option maxHeartbeats 4000000 in
theorem i3_send {s s' : State} {a : Ag} (h1 : I1 s) (h2 : I2 s) (hi : I3 s) (h : stepSend s a = some s') : I3 s' := by
  have hTk : s.taker = none ∨ ∃ b, s.taker = some b := by cases s.taker <;> simp
  have hWr : s.writer = none ∨ ∃ j, s.writer = some j := by cases s.writer <;> simp
  have hMv : s.mover = none ∨ ∃ j, s.mover = some j := by cases s.mover <;> simp
  obtain ⟨kSend, bodyK, freshM, freshP, freshG, goneM, finR, finS, finU, freedR, freedS, freedF, ciCl, rdropCl, recvOpen, dcST⟩ := h1
  obtain ⟨wrS, wrU, stW⟩ := h2
  obtain ⟨tkS, tkU, tkSt, tkSl, dead1, dead2, dead3, slotS, slotU, swapSl, casSent, freedSl⟩ := hi
  os_split h [stepSend]
  all_goals (constructor <;> os_close a)

set_option maxHeartbeats 4000000 in
theorem i3_wk {s s' : State} {a : Ag} (h1 : I1 s) (h2 : I2 s) (hi : I3 s) (h : stepWk s a = some s') : I3 s' := by
  have hTk : s.taker = none ∨ ∃ b, s.taker = some b := by cases s.taker <;> simp
  have hWr : s.writer = none ∨ ∃ j, s.writer = some j := by cases s.writer <;> simp
  have hMv : s.mover = none ∨ ∃ j, s.mover = some j := by cases s.mover <;> simp
  obtain ⟨kSend, bodyK, freshM, freshP, freshG, goneM, finR, finS, finU, freedR, freedS, freedF, ciCl, rdropCl, recvOpen, dcST⟩ := h1
  obtain ⟨wrS, wrU, stW⟩ := h2
  obtain ⟨tkS, tkU, tkSt, tkSl, dead1, dead2, dead3, slotS, slotU, swapSl, casSent, freedSl⟩ := hi
  os_split h [stepWk]
  all_goals (constructor <;> os_close a)

set_option maxHeartbeats 4000000 in
theorem i3_cl {s s' : State} {a : Ag} (h1 : I1 s) (h2 : I2 s) (hi : I3 s) (h : stepCl s a = some s') : I3 s' := by
  have hTk : s.taker = none ∨ ∃ b, s.taker = some b := by cases s.taker <;> simp
  have hWr : s.writer = none ∨ ∃ j, s.writer = some j := by cases s.writer <;> simp
  have hMv : s.mover = none ∨ ∃ j, s.mover = some j := by cases s.mover <;> simp
  obtain ⟨kSend, bodyK, freshM, freshP, freshG, goneM, finR, finS, finU, freedR, freedS, freedF, ciCl, rdropCl, recvOpen, dcST⟩ := h1
  obtain ⟨wrS, wrU, stW⟩ := h2
  obtain ⟨tkS, tkU, tkSt, tkSl, dead1, dead2, dead3, slotS, slotU, swapSl, casSent, freedSl⟩ := hi
  os_split h [stepCl]
  all_goals (constructor <;> os_close a)

set_option maxHeartbeats 4000000 in
theorem i3_x {s s' : State} {a : Ag} (h1 : I1 s) (h2 : I2 s) (hi : I3 s) (h : stepX s a = some s') : I3 s' := by
  have hTk : s.taker = none ∨ ∃ b, s.taker = some b := by cases s.taker <;> simp
  have hWr : s.writer = none ∨ ∃ j, s.writer = some j := by cases s.writer <;> simp
  have hMv : s.mover = none ∨ ∃ j, s.mover = some j := by cases s.mover <;> simp
  obtain ⟨kSend, bodyK, freshM, freshP, freshG, goneM, finR, finS, finU, freedR, freedS, freedF, ciCl, rdropCl, recvOpen, dcST⟩ := h1
  obtain ⟨wrS, wrU, stW⟩ := h2
  obtain ⟨tkS, tkU, tkSt, tkSl, dead1, dead2, dead3, slotS, slotU, swapSl, casSent, freedSl⟩ := hi
  os_split h [stepX]
  all_goals (constructor <;> os_close a)

set_option maxHeartbeats 4000000 in
theorem i3_pb {s s' : State} {a : Ag} (h1 : I1 s) (h2 : I2 s) (hi : I3 s) (h : stepPb s a = some s') : I3 s' := by
  have hTk : s.taker = none ∨ ∃ b, s.taker = some b := by cases s.taker <;> simp
  have hWr : s.writer = none ∨ ∃ j, s.writer = some j := by cases s.writer <;> simp
  have hMv : s.mover = none ∨ ∃ j, s.mover = some j := by cases s.mover <;> simp
  obtain ⟨kSend, bodyK, freshM, freshP, freshG, goneM, finR, finS, finU, freedR, freedS, freedF, ciCl, rdropCl, recvOpen, dcST⟩ := h1
  obtain ⟨wrS, wrU, stW⟩ := h2
  obtain ⟨tkS, tkU, tkSt, tkSl, dead1, dead2, dead3, slotS, slotU, swapSl, casSent, freedSl⟩ := hi
  os_split h [stepPb]
  all_goals (constructor <;> os_close a)

set_option maxHeartbeats 4000000 in
theorem i3_try {s s' : State} {a : Ag} (h1 : I1 s) (h2 : I2 s) (hi : I3 s) (h : stepTry s a = some s') : I3 s' := by
  have hTk : s.taker = none ∨ ∃ b, s.taker = some b := by cases s.taker <;> simp
  have hWr : s.writer = none ∨ ∃ j, s.writer = some j := by cases s.writer <;> simp
  have hMv : s.mover = none ∨ ∃ j, s.mover = some j := by cases s.mover <;> simp
  obtain ⟨kSend, bodyK, freshM, freshP, freshG, goneM, finR, finS, finU, freedR, freedS, freedF, ciCl, rdropCl, recvOpen, dcST⟩ := h1
  obtain ⟨wrS, wrU, stW⟩ := h2
  obtain ⟨tkS, tkU, tkSt, tkSl, dead1, dead2, dead3, slotS, slotU, swapSl, casSent, freedSl⟩ := hi
  os_split h [stepTry]
  all_goals (constructor <;> os_close a)

set_option maxHeartbeats 4000000 in
theorem i3_try2 {s s' : State} {a : Ag} (h1 : I1 s) (h2 : I2 s) (hi : I3 s) (h : stepTry2 s a = some s') : I3 s' := by
  have hTk : s.taker = none ∨ ∃ b, s.taker = some b := by cases s.taker <;> simp
  have hWr : s.writer = none ∨ ∃ j, s.writer = some j := by cases s.writer <;> simp
  have hMv : s.mover = none ∨ ∃ j, s.mover = some j := by cases s.mover <;> simp
  obtain ⟨kSend, bodyK, freshM, freshP, freshG, goneM, finR, finS, finU, freedR, freedS, freedF, ciCl, rdropCl, recvOpen, dcST⟩ := h1
  obtain ⟨wrS, wrU, stW⟩ := h2
  obtain ⟨tkS, tkU, tkSt, tkSl, dead1, dead2, dead3, slotS, slotU, swapSl, casSent, freedSl⟩ := hi
  os_split h [stepTry2]
  all_goals (constructor <;> os_close a)

set_option maxHeartbeats 4000000 in
theorem i3_poll {s s' : State} {a : Ag} (h1 : I1 s) (h2 : I2 s) (hi : I3 s) (h : stepPoll s a = some s') : I3 s' := by
  have hTk : s.taker = none ∨ ∃ b, s.taker = some b := by cases s.taker <;> simp
  have hWr : s.writer = none ∨ ∃ j, s.writer = some j := by cases s.writer <;> simp
  have hMv : s.mover = none ∨ ∃ j, s.mover = some j := by cases s.mover <;> simp
  obtain ⟨kSend, bodyK, freshM, freshP, freshG, goneM, finR, finS, finU, freedR, freedS, freedF, ciCl, rdropCl, recvOpen, dcST⟩ := h1
  obtain ⟨wrS, wrU, stW⟩ := h2
  obtain ⟨tkS, tkU, tkSt, tkSl, dead1, dead2, dead3, slotS, slotU, swapSl, casSent, freedSl⟩ := hi
  os_split h [stepPoll]
  all_goals (constructor <;> os_close a)

set_option maxHeartbeats 4000000 in
theorem i3_call {s s' : State} {a : Ag} (h1 : I1 s) (h2 : I2 s) (hi : I3 s) (h : stepCall s a = some s') : I3 s' := by
  have hTk : s.taker = none ∨ ∃ b, s.taker = some b := by cases s.taker <;> simp
  have hWr : s.writer = none ∨ ∃ j, s.writer = some j := by cases s.writer <;> simp
  have hMv : s.mover = none ∨ ∃ j, s.mover = some j := by cases s.mover <;> simp
  obtain ⟨kSend, bodyK, freshM, freshP, freshG, goneM, finR, finS, finU, freedR, freedS, freedF, ciCl, rdropCl, recvOpen, dcST⟩ := h1
  obtain ⟨wrS, wrU, stW⟩ := h2
  obtain ⟨tkS, tkU, tkSt, tkSl, dead1, dead2, dead3, slotS, slotU, swapSl, casSent, freedSl⟩ := hi
  cases a with
  | S i =>
    os_split h [stepCall]
    all_goals (constructor <;> os_close (Ag.S i))
  | R =>
    os_split h [stepCall]
    all_goals (constructor <;> os_close Ag.R)

set_option maxHeartbeats 4000000 in
theorem i3_ret {s s' : State} {a : Ag} (h1 : I1 s) (h2 : I2 s) (hi : I3 s) (h : stepRet s a = some s') : I3 s' := by
  have hTk : s.taker = none ∨ ∃ b, s.taker = some b := by cases s.taker <;> simp
  have hWr : s.writer = none ∨ ∃ j, s.writer = some j := by cases s.writer <;> simp
  have hMv : s.mover = none ∨ ∃ j, s.mover = some j := by cases s.mover <;> simp
  obtain ⟨kSend, bodyK, freshM, freshP, freshG, goneM, finR, finS, finU, freedR, freedS, freedF, ciCl, rdropCl, recvOpen, dcST⟩ := h1
  obtain ⟨wrS, wrU, stW⟩ := h2
  obtain ⟨tkS, tkU, tkSt, tkSl, dead1, dead2, dead3, slotS, slotU, swapSl, casSent, freedSl⟩ := hi
  os_split h [stepRet]
  all_goals (constructor <;> os_close a)

set_option maxHeartbeats 4000000 in
theorem i3_spur {s s' : State} {a : Ag} (h1 : I1 s) (h2 : I2 s) (hi : I3 s) (h : stepSpurious s a = some s') : I3 s' := by
  have hTk : s.taker = none ∨ ∃ b, s.taker = some b := by cases s.taker <;> simp
  have hWr : s.writer = none ∨ ∃ j, s.writer = some j := by cases s.writer <;> simp
  have hMv : s.mover = none ∨ ∃ j, s.mover = some j := by cases s.mover <;> simp
  obtain ⟨kSend, bodyK, freshM, freshP, freshG, goneM, finR, finS, finU, freedR, freedS, freedF, ciCl, rdropCl, recvOpen, dcST⟩ := h1
  obtain ⟨wrS, wrU, stW⟩ := h2
  obtain ⟨tkS, tkU, tkSt, tkSl, dead1, dead2, dead3, slotS, slotU, swapSl, casSent, freedSl⟩ := hi
  os_split h [stepSpurious]
  all_goals (constructor <;> os_close a)

end Fv.Chan.OneshotB
