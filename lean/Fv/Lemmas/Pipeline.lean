import Fv.Log.Pipeline
/-!
Invariants of the C19 delivery pipeline model and the no-loss-at-shutdown argument.
-/
namespace Fv.Log.Pipeline

/-- Inductive invariant of the pipeline (holds after every step sequence from `init`). -/
structure Inv (s : State) : Prop where
  /-- FIFO: what the consumer has taken followed by what is visible is exactly what was accepted -/
  fifo : s.out ++ s.buf = s.accepted
  /-- a thread has at most one send in flight -/
  one : ∀ t, (ofThread t s.inflight).length ≤ 1
  /-- per thread, accepted then in-flight is the order in which the thread claimed its slots -/
  order : ∀ t, ofThread t s.accepted ++ ofThread t s.inflight = ofThread t s.claimed
  /-- `Block` never drops -/
  noDrop : s.policy = .block → s.dropped = []
  /-- the consumer leaves its loop only after shutdown has begun -/
  phase : s.phase ≠ .running → (s.flag = true ∨ s.closed = true)

theorem inv_init (cap : Nat) (p : Overflow) (c : Consumer) : Inv (init cap p c) := by
  constructor <;> simp [init, ofThread]

theorem ofThread_append (t : Nat) (a b : List Msg) : ofThread t (a ++ b) = ofThread t a ++ ofThread t b := by
  simp [ofThread]

theorem threadBusy_false {s : State} {t : Nat} (h : threadBusy s t = false) : ofThread t s.inflight = [] := by
  unfold threadBusy at h
  unfold ofThread
  rw [List.filter_eq_nil_iff]
  intro m hm hmt
  rw [List.any_eq_false] at h
  exact h m hm hmt

theorem ofThread_filter (t : Nat) (l : List Msg) (p : Msg → Bool) :
    ofThread t (l.filter p) = (ofThread t l).filter p := by
  unfold ofThread
  rw [List.filter_filter, List.filter_filter]
  congr 1; funext x; exact Bool.and_comm _ _

theorem inv_sendBegin {s s' : State} (h : Inv s) {m : Msg} (hs : sendBegin s m = some s') : Inv s' := by
  unfold sendBegin at hs
  split at hs
  · cases hs
  · rename_i hbusy
    split at hs
    · cases hs; exact ⟨h.fifo, h.one, h.order, h.noDrop, h.phase⟩
    · split at hs
      · split at hs
        · cases hs
        · rename_i hpol
          cases hs
          exact ⟨h.fifo, h.one, h.order, fun hb => by simp [hpol] at hb, h.phase⟩
      · cases hs
        have hb : ofThread m.thread s.inflight = [] := threadBusy_false (by simpa using hbusy)
        refine ⟨h.fifo, ?_, ?_, h.noDrop, h.phase⟩
        · intro t
          show (ofThread t (s.inflight ++ [m])).length ≤ 1
          rw [ofThread_append]
          by_cases ht : m.thread = t
          · subst ht; rw [hb]; simp only [ofThread, List.nil_append]
            exact List.length_filter_le _ _
          · have : ofThread t [m] = [] := by simp [ofThread, ht]
            rw [this, List.append_nil]; exact h.one t
        · intro t
          show ofThread t s.accepted ++ ofThread t (s.inflight ++ [m]) = ofThread t (s.claimed ++ [m])
          rw [ofThread_append, ofThread_append, ← List.append_assoc, h.order t]

theorem inv_sendEnd {s s' : State} (h : Inv s) {m : Msg} (hs : sendEnd s m = some s') : Inv s' := by
  unfold sendEnd at hs
  split at hs
  · rename_i hmem
    cases hs
    refine ⟨?_, ?_, ?_, h.noDrop, h.phase⟩
    · show s.out ++ (s.buf ++ [m]) = s.accepted ++ [m]
      rw [← List.append_assoc, h.fifo]
    · intro t
      show (ofThread t (s.inflight.filter (fun x => x != m))).length ≤ 1
      rw [ofThread_filter]
      exact Nat.le_trans (List.length_filter_le _ _) (h.one t)
    · intro t
      show ofThread t (s.accepted ++ [m]) ++ ofThread t (s.inflight.filter (fun x => x != m)) = ofThread t s.claimed
      rw [ofThread_filter, ofThread_append, ← h.order t]
      by_cases ht : m.thread = t
      · -- the only in-flight message of thread `t` is `m`
        have hin : m ∈ ofThread t s.inflight := by
          unfold ofThread; rw [List.mem_filter]; exact ⟨hmem, by simp [ht]⟩
        have hone := h.one t
        have heq : ofThread t s.inflight = [m] := by
          cases hl : ofThread t s.inflight with
          | nil => rw [hl] at hin; cases hin
          | cons x xs =>
            rw [hl] at hone hin
            cases xs with
            | nil => simp at hin; rw [hin]
            | cons y ys => simp at hone
        rw [heq]
        have : ofThread t [m] = [m] := by simp [ofThread, ht]
        rw [this]; simp
      · have h1 : ofThread t [m] = [] := by simp [ofThread, ht]
        have h2 : (ofThread t s.inflight).filter (fun x => x != m) = ofThread t s.inflight := by
          rw [List.filter_eq_self]
          intro x hx
          unfold ofThread at hx
          rw [List.mem_filter] at hx
          have hxt : x.thread = t := by simpa using hx.2
          simp only [bne_iff_ne, ne_eq]
          intro hxm; rw [hxm] at hxt; exact ht hxt
        rw [h1, h2, List.append_nil]
  · cases hs

theorem inv_consume {s s' : State} (h : Inv s) (hs : consume s = some s') : Inv s' := by
  unfold consume at hs
  split at hs
  · cases hs
  · cases hs
  · rename_i m rest hbuf _
    cases hs
    refine ⟨?_, h.one, h.order, h.noDrop, h.phase⟩
    show (s.out ++ [m]) ++ rest = s.accepted
    rw [← h.fifo, hbuf]; simp

theorem inv_step {s s' : State} (h : Inv s) {st : Step} (hs : step s st = some s') : Inv s' := by
  cases st with
  | sendBegin m => exact inv_sendBegin h hs
  | sendEnd m => exact inv_sendEnd h hs
  | consume => exact inv_consume h hs
  | seeFlag =>
    simp only [step, seeFlag] at hs
    split at hs
    · rename_i hc; cases hs
      exact ⟨h.fifo, h.one, h.order, h.noDrop, fun _ => Or.inl hc.2.2⟩
    · cases hs
  | seeDisconnected =>
    simp only [step, seeDisconnected] at hs
    split at hs
    · rename_i hc; cases hs
      exact ⟨h.fifo, h.one, h.order, h.noDrop, fun _ => Or.inr hc.2.1⟩
    · cases hs
  | drainDisconnected =>
    simp only [step, drainDisconnected] at hs
    split at hs
    · rename_i hc; cases hs
      exact ⟨h.fifo, h.one, h.order, h.noDrop, fun _ => Or.inr hc.2.2.1⟩
    · cases hs
  | graceExpired =>
    simp only [step, graceExpired] at hs
    split at hs
    · rename_i hc; cases hs
      exact ⟨h.fifo, h.one, h.order, h.noDrop, fun _ => h.phase (by rw [hc.2.1]; decide)⟩
    · cases hs
  | setFlag =>
    simp only [step] at hs; cases hs
    exact ⟨h.fifo, h.one, h.order, h.noDrop, fun _ => Or.inl rfl⟩
  | close =>
    simp only [step] at hs; cases hs
    exact ⟨h.fifo, h.one, h.order, h.noDrop, fun _ => Or.inr rfl⟩

theorem inv_run {s s' : State} (h : Inv s) {tr : List Step} (hs : run s tr = some s') : Inv s' := by
  induction tr generalizing s with
  | nil => simp [run] at hs; subst hs; exact h
  | cons st tr ih =>
    simp only [run] at hs
    cases hst : step s st with
    | none => rw [hst] at hs; cases hs
    | some s1 => rw [hst] at hs; exact ih (inv_step h hst) hs

/-! ### exactly once: nothing is duplicated between claim and delivery -/

/-- every message is accepted-or-in-flight exactly as often as it claimed a slot -/
def CountInv (s : State) : Prop := ∀ m, (s.accepted ++ s.inflight).count m = s.claimed.count m

theorem countInv_init (cap : Nat) (p : Overflow) (c : Consumer) : CountInv (init cap p c) := by
  intro m; simp [init]

theorem count_le_ofThread (l : List Msg) (m : Msg) : l.count m ≤ (ofThread m.thread l).length := by
  induction l with
  | nil => simp [ofThread]
  | cons x l ih =>
    unfold ofThread at ih ⊢
    rw [List.count_cons, List.filter_cons]
    by_cases hx : x = m
    · subst hx; simp; exact ih
    · have : (x == m) = false := by simpa using hx
      rw [this]
      by_cases ht : x.thread = m.thread
      · simp [ht]; omega
      · simp [ht]; exact ih

theorem count_le_one_of_thread {s : State} (h : Inv s) (m : Msg) : s.inflight.count m ≤ 1 :=
  Nat.le_trans (count_le_ofThread s.inflight m) (h.one m.thread)

theorem countInv_step {s s' : State} (h : Inv s) (hc : CountInv s) {st : Step}
    (hs : step s st = some s') : CountInv s' := by
  cases st with
  | sendBegin m =>
    simp only [step, sendBegin] at hs
    split at hs
    · cases hs
    · split at hs
      · cases hs; exact hc
      · split at hs
        · split at hs
          · cases hs
          · cases hs; exact hc
        · cases hs
          intro x
          show (s.accepted ++ (s.inflight ++ [m])).count x = (s.claimed ++ [m]).count x
          rw [← List.append_assoc, List.count_append, List.count_append (l₁ := s.claimed), hc x]
  | sendEnd m =>
    simp only [step, sendEnd] at hs
    split at hs
    · rename_i hmem
      cases hs
      intro x
      show ((s.accepted ++ [m]) ++ s.inflight.filter (fun y => y != m)).count x = s.claimed.count x
      rw [← hc x]
      simp only [List.count_append]
      by_cases hx : x = m
      · subst hx
        have h1 : (s.inflight.filter (fun y => y != x)).count x = 0 := by
          rw [List.count_eq_zero]; intro hin
          have := (List.mem_filter.1 hin).2
          simp at this
        have h2 : s.inflight.count x = 1 := by
          have hle := count_le_one_of_thread h x
          have hpos : 0 < s.inflight.count x := List.count_pos_iff.2 hmem
          omega
        simp [h1, h2]
      · have h1 : (s.inflight.filter (fun y => y != m)).count x = s.inflight.count x := by
          rw [List.count_filter]; simp [hx]
        have h2 : [m].count x = 0 := by
          rw [List.count_eq_zero]; simp [hx]
        rw [h1, h2]; omega
    · cases hs
  | consume =>
    simp only [step, consume] at hs
    split at hs
    · cases hs
    · cases hs
    · cases hs; exact hc
  | seeFlag =>
    simp only [step, seeFlag] at hs
    split at hs
    · cases hs; exact hc
    · cases hs
  | seeDisconnected =>
    simp only [step, seeDisconnected] at hs
    split at hs
    · cases hs; exact hc
    · cases hs
  | drainDisconnected =>
    simp only [step, drainDisconnected] at hs
    split at hs
    · cases hs; exact hc
    · cases hs
  | graceExpired =>
    simp only [step, graceExpired] at hs
    split at hs
    · cases hs; exact hc
    · cases hs
  | setFlag => simp only [step] at hs; cases hs; exact hc
  | close => simp only [step] at hs; cases hs; exact hc

theorem countInv_run {s s' : State} (h : Inv s) (hc : CountInv s) {tr : List Step}
    (hs : run s tr = some s') : CountInv s' := by
  induction tr generalizing s with
  | nil => simp [run] at hs; subst hs; exact hc
  | cons st tr ih =>
    simp only [run] at hs
    cases hst : step s st with
    | none => rw [hst] at hs; cases hs
    | some s1 => rw [hst] at hs; exact ih (inv_step h hst) (countInv_step h hc hst) hs


/-! ### quiescent shutdown: nothing in flight, no new send gets a slot
(holds whether or not the writer's grace deadline expires) -/

/-- nothing is in flight, the accepted list is `A`, and an exited consumer left nothing visible -/
structure Quiet (A : List Msg) (s : State) : Prop where
  noInflight : s.inflight = []
  acc : s.accepted = A
  exitedEmpty : s.phase = .exited → s.buf = []

def Step.isSendBegin : Step → Bool
  | .sendBegin _ => true
  | _ => false

theorem quiet_step {A : List Msg} {s s' : State} (h : Quiet A s) {st : Step}
    (hst : st.isSendBegin = false ∨ s.closed = true) (hs : step s st = some s') :
    Quiet A s' ∧ (s.closed = true → s'.closed = true) := by
  cases st with
  | sendBegin m =>
    rcases hst with hst | hcl
    · cases hst
    · simp only [step, sendBegin] at hs
      split at hs
      · cases hs
      · simp only [hcl] at hs; cases hs
        exact ⟨⟨h.noInflight, h.acc, h.exitedEmpty⟩, fun _ => rfl⟩
  | sendEnd m =>
    simp only [step, sendEnd, h.noInflight] at hs
    simp at hs
  | consume =>
    simp only [step, consume] at hs
    split at hs
    · cases hs
    · cases hs
    · rename_i m rest hbuf hne
      cases hs
      refine ⟨⟨h.noInflight, h.acc, ?_⟩, fun h => h⟩
      intro hex; exact absurd hex (by simpa using hne)
  | seeFlag =>
    simp only [step, seeFlag] at hs
    split at hs
    · cases hs; exact ⟨⟨h.noInflight, h.acc, fun hex => by cases hex⟩, fun h => h⟩
    · cases hs
  | seeDisconnected =>
    simp only [step, seeDisconnected] at hs
    split at hs
    · rename_i hc; cases hs; exact ⟨⟨h.noInflight, h.acc, fun _ => hc.2.2.1⟩, fun h => h⟩
    · cases hs
  | drainDisconnected =>
    simp only [step, drainDisconnected] at hs
    split at hs
    · rename_i hc; cases hs; exact ⟨⟨h.noInflight, h.acc, fun _ => hc.2.2.2.1⟩, fun h => h⟩
    · cases hs
  | graceExpired =>
    simp only [step, graceExpired] at hs
    split at hs
    · rename_i hc; cases hs
      exact ⟨⟨h.noInflight, h.acc, fun _ => hc.2.2.resolve_right (fun hn => hn h.noInflight)⟩, fun h => h⟩
    · cases hs
  | setFlag =>
    simp only [step] at hs; cases hs
    exact ⟨⟨h.noInflight, h.acc, h.exitedEmpty⟩, fun h => h⟩
  | close =>
    simp only [step] at hs; cases hs
    exact ⟨⟨h.noInflight, h.acc, h.exitedEmpty⟩, fun _ => rfl⟩

theorem quiet_run {A : List Msg} {s s' : State} (h : Quiet A s) {tr : List Step}
    (htr : (∀ st ∈ tr, st.isSendBegin = false) ∨ s.closed = true) (hs : run s tr = some s') :
    Quiet A s' ∧ (s.closed = true → s'.closed = true) := by
  induction tr generalizing s with
  | nil => simp [run] at hs; subst hs; exact ⟨h, fun h => h⟩
  | cons st tr ih =>
    simp only [run] at hs
    cases hst : step s st with
    | none => rw [hst] at hs; cases hs
    | some s1 =>
      rw [hst] at hs
      have hst' : st.isSendBegin = false ∨ s.closed = true := by
        rcases htr with h1 | h1
        · exact Or.inl (h1 st List.mem_cons_self)
        · exact Or.inr h1
      obtain ⟨hq, hc⟩ := quiet_step h hst' hst
      have htr' : (∀ st ∈ tr, st.isSendBegin = false) ∨ s1.closed = true := by
        rcases htr with h1 | h1
        · exact Or.inl (fun x hx => h1 x (List.mem_cons_of_mem _ hx))
        · exact Or.inr (hc h1)
      obtain ⟨hq2, hc2⟩ := ih hq htr' hs
      exact ⟨hq2, fun hcl => hc2 (hc hcl)⟩

theorem run_append {s : State} {a b : List Step} :
    run s (a ++ b) = (run s a).bind (fun s' => run s' b) := by
  induction a generalizing s with
  | nil => simp [run]
  | cons x a ih =>
    simp only [List.cons_append, run]
    cases step s x with
    | none => simp
    | some s1 => simp [ih]

/-! ### the repaired final drain: an exit that was not forced by an early `graceExpired`
happened on a `Disconnected` channel, which then stays `Disconnected` -/

/-- a consumer that has exited without an early grace expiry left a closed channel with nothing
visible and nothing in flight -/
def Settled (s : State) : Prop := s.phase = .exited → s.graceEarly = false → Disconnected s

theorem settled_init (cap : Nat) (p : Overflow) (c : Consumer) : Settled (init cap p c) := by
  intro h; cases h

theorem settled_step {s s' : State} (h : Settled s) {st : Step} (hs : step s st = some s') :
    Settled s' := by
  cases st with
  | sendBegin m =>
    simp only [step, sendBegin] at hs
    split at hs
    · cases hs
    · split at hs
      · cases hs; exact h
      · rename_i hncl
        split at hs
        · split at hs
          · cases hs
          · cases hs; exact h
        · cases hs
          intro hex hg
          exact absurd (h hex hg).1 hncl
  | sendEnd m =>
    simp only [step, sendEnd] at hs
    split at hs
    · rename_i hmem
      cases hs
      intro hex hg
      have := (h hex hg).2.2
      rw [this] at hmem; cases hmem
    · cases hs
  | consume =>
    simp only [step, consume] at hs
    split at hs
    · cases hs
    · cases hs
    · rename_i m rest hbuf hne
      cases hs
      intro hex; exact absurd hex (by simpa using hne)
  | seeFlag =>
    simp only [step, seeFlag] at hs
    split at hs
    · cases hs; intro hex; cases hex
    · cases hs
  | seeDisconnected =>
    simp only [step, seeDisconnected] at hs
    split at hs
    · rename_i hc; cases hs; intro _ _; exact hc.2
    · cases hs
  | drainDisconnected =>
    simp only [step, drainDisconnected] at hs
    split at hs
    · rename_i hc; cases hs; intro _ _; exact hc.2.2
    · cases hs
  | graceExpired =>
    simp only [step, graceExpired] at hs
    split at hs
    · cases hs
      intro _ hg
      have hg' : (s.graceEarly || !decide (Disconnected s)) = false := hg
      rw [Bool.or_eq_false_iff] at hg'
      have hd : Disconnected s := by simpa using hg'.2
      exact hd
    · cases hs
  | setFlag =>
    simp only [step] at hs; cases hs; exact h
  | close =>
    simp only [step] at hs; cases hs
    intro hex hg
    have := h hex hg
    exact ⟨rfl, this.2.1, this.2.2⟩

theorem settled_run {s s' : State} (h : Settled s) {tr : List Step} (hs : run s tr = some s') :
    Settled s' := by
  induction tr generalizing s with
  | nil => simp [run] at hs; subst hs; exact h
  | cons st tr ih =>
    simp only [run] at hs
    cases hst : step s st with
    | none => rw [hst] at hs; cases hs
    | some s1 => rw [hst] at hs; exact ih (settled_step h hst) hs

/-- only the `graceExpired` step can raise the `graceEarly` ghost -/
theorem graceEarly_step {s s' : State} {st : Step} (hne : st ≠ .graceExpired)
    (hs : step s st = some s') : s'.graceEarly = s.graceEarly := by
  cases st <;> simp only [step, sendBegin, sendEnd, consume, seeFlag, seeDisconnected, drainDisconnected] at hs
  case graceExpired => exact absurd rfl hne
  all_goals (repeat' split at hs) <;> first | (cases hs; rfl) | cases hs

theorem graceEarly_run {s s' : State} {tr : List Step} (hne : Step.graceExpired ∉ tr)
    (hs : run s tr = some s') : s'.graceEarly = s.graceEarly := by
  induction tr generalizing s with
  | nil => simp [run] at hs; subst hs; rfl
  | cons st tr ih =>
    simp only [run] at hs
    cases hst : step s st with
    | none => rw [hst] at hs; cases hs
    | some s1 =>
      rw [hst] at hs
      rw [ih (fun hm => hne (List.mem_cons_of_mem _ hm)) hs]
      exact graceEarly_step (fun he => hne (he ▸ List.mem_cons_self)) hst

end Fv.Log.Pipeline
