import Fv.Lemmas.ChanStep
/-! `StepOk` for the remaining start functions and for `micro` itself. -/
namespace Fv.Chan
open List

theorem capOk_os_push {fl : Flavour} {s : St} (hf : fl.fam = .os) (hi : Inv fl s) (he : s.os = .empty)
    (v : Val) (s' : St) (hb : s'.buf = s.buf ++ [v]) (hs : s'.sentOk = s.sentOk ++ [v]) (ho : s'.os ≠ .empty) :
    capOk fl s' := by
  have hc := hi.cap
  unfold capOk Flavour.capOf at hc ⊢
  simp only [hf] at hc ⊢
  have h0 := hc.2.2 he
  have hb0 : s.buf = [] := by
    have := hi.seq; rw [h0] at this
    exact (List.append_eq_nil_iff.mp this.symm).2
  exact ⟨by simp [hb, hb0], by simp [hs, h0], fun h => absurd h ho⟩

theorem osSendFinish_ok (fl hd) (s : St) :
    (Inv fl s → Inv fl (osSendFinish hd s)) ∧ SameAcct s (osSendFinish hd s) := by
  unfold osSendFinish
  split
  · exact teardownIfLast_ok ..
  · exact ok_trans (osDecSenders_ok ..) (teardownIfLast_ok ..)

theorem osSendStep_ok (fl : Flavour) (hf : fl.fam = .os) (s h hd v t f q) :
    StepOk fl s (.bsend t f h [] [v] q) (osSendStep s h hd v).1 (osSendStep s h hd v).2 [] := by
  unfold osSendStep
  have back_ok : ∀ tag, StepOk fl s (.bsend t f h [] [v] q)
      (osSendFinish hd ((s.eraseHandle h).giveBack [v])) (.fin { tag := tag, back := [v] }) [] := by
    intro tag
    have h1 : StepOk fl s (.bsend t f h [] [v] q) ((s.eraseHandle h).giveBack [v])
        (.fin { tag := tag, back := [v] }) [] := by
      refine ⟨fun hi => hi.frame (by unfold St.giveBack St.eraseHandle; frame), ?_, ?_, ?_, ?_, ?_⟩ <;>
        (unfold St.eraseHandle; acct)
    exact h1.trans (StepOk.ofSame (osSendFinish_ok fl hd _).1 (osSendFinish_ok fl hd _).2 rfl rfl rfl rfl)
  split
  · exact back_ok _
  · split
    · exact back_ok _
    · rename_i hne
      have he : s.os = .empty := by simpa using hne
      have h1 : StepOk fl s (.bsend t f h [] [v] q)
          ({ ((s.eraseHandle h).push h.idx [v]) with os := .sent })
          (.fin { tag := .ok, sent := [v] }) [] := by
        refine ⟨fun hi => ?_, ?_, ?_, ?_, ?_, ?_⟩
        · have h2 : Inv fl (s.eraseHandle h) := (eraseHandle_ok ..).1 hi
          have hc : capOk fl ({ ((s.eraseHandle h).push h.idx [v]) with os := .sent } : St) :=
            capOk_os_push hf hi he v _ rfl rfl (by simp)
          refine ⟨?_, h2.sub, h2.cons, h2.nodrop, hc, ?_, h2.tagR⟩
          · simp [St.push, St.eraseHandle, hi.seq]
          · simp [St.push, St.eraseHandle, hi.tagS]
        all_goals (unfold St.eraseHandle; acct)
      exact h1.trans (StepOk.ofSame (osSendFinish_ok fl hd _).1 (osSendFinish_ok fl hd _).2 rfl rfl rfl rfl)


theorem osSendFail_ok (fl : Flavour) (s h hd v tag t f q) :
    StepOk fl s (.bsend t f h [] [v] q) (osSendFail s h hd v tag).1 (osSendFail s h hd v tag).2 [] := by
  unfold osSendFail
  have h1 : StepOk fl s (.bsend t f h [] [v] q) ((s.eraseHandle h).giveBack [v])
      (.fin { tag := tag, back := [v] }) [] := by
    refine ⟨fun hi => hi.frame (by unfold St.giveBack St.eraseHandle; frame), ?_, ?_, ?_, ?_, ?_⟩ <;>
      (unfold St.eraseHandle; acct)
  exact h1.trans (StepOk.ofSame (osSendFinish_ok fl hd _).1 (osSendFinish_ok fl hd _).2 rfl rfl rfl rfl)

theorem osSendStart_ok (fl : Flavour) (hf : fl.fam = .os) (cfg s h hd v t f q) :
    StepOk fl s (.bsend t f h [] [v] q) (osSendStart cfg s t h hd v).1 (osSendStart cfg s t h hd v).2 [] := by
  unfold osSendStart
  split
  · split
    · exact osSendFail_ok ..
    · have hk : (Inv fl s → Inv fl ({ (s.eraseHandle h) with osw := true } : St)) ∧
          SameAcct s ({ (s.eraseHandle h) with osw := true } : St) := by
        unfold St.eraseHandle; upd
      exact StepOk.ofSame hk.1 hk.2 rfl rfl rfl rfl
  · exact osSendStep_ok fl hf ..

/-- the later steps of the operations that are several atomic steps in the concurrent specification -/
theorem stgStep_ok {fl : Flavour} {s t k h sent rest s' p'} (hs : stgStep fl s t k h sent rest = some (s', p')) :
    StepOk fl s (.stg t k h sent rest) s' p' [] := by
  unfold stgStep at hs
  split at hs
  · -- 1: second look at `receiver_dropped`
    split at hs
    · cases hs
      have h1 : StepOk fl s (.stg t k h sent rest) (({ s with osw := false } : St).giveBack rest)
          (.fin { tag := .closed, sent := sent, back := rest }) [] := by
        refine ⟨fun hi => hi.frame (by unfold St.giveBack; frame), ?_, ?_, ?_, ?_, ?_⟩ <;> acct
      have h2 := ok_trans (osDecSenders_ok fl (({ s with osw := false } : St).giveBack rest)) (teardownIfLast_ok fl _)
      exact h1.trans (StepOk.ofSame h2.1 h2.2 rfl rfl rfl rfl)
    · cases hs
      exact StepOk.ofSame id (SameAcct.refl s) rfl rfl rfl rfl
  · split at hs
    · -- 2: publish
      rename_i hk
      split at hs
      · rename_i v
        split at hs
        · rename_i he
          cases hs
          refine ⟨fun hi => ?_, ?_, ?_, ?_, ?_, ?_⟩
          · have hc : capOk fl ({ (s.push h.idx [v]) with os := .sent, osw := false } : St) :=
              capOk_os_push hk.2 hi he v _ rfl rfl (by simp)
            refine ⟨?_, hi.sub, hi.cons, hi.nodrop, hc, ?_, hi.tagR⟩
            · simp [St.push, hi.seq]
            · simp [St.push, hi.tagS]
          all_goals acct
        · cases hs
      · cases hs
    · split at hs
      · -- 3: the consumed sender is dropped
        rename_i hk
        cases hs
        obtain ⟨_, _, hr⟩ := hk
        subst hr
        have h2 := ok_trans (osDecSenders_ok fl s) (teardownIfLast_ok fl _)
        exact StepOk.ofSame h2.1 h2.2 rfl rfl rfl rfl
      · split at hs
        · rename_i hk
          cases hs
          obtain ⟨_, hs0, hr⟩ := hk
          subst hs0 hr
          have hu : (Inv fl s → Inv fl ({ s with sc := wdec s.sc } : St)) ∧ SameAcct s ({ s with sc := wdec s.sc } : St) := by upd
          exact StepOk.ofSame hu.1 hu.2 rfl rfl rfl rfl
        · split at hs
          · rename_i hk
            cases hs
            obtain ⟨_, hs0, hr⟩ := hk
            subst hs0 hr
            have hu : (Inv fl s → Inv fl ({ s with sc := wdec s.sc } : St)) ∧ SameAcct s ({ s with sc := wdec s.sc } : St) := by upd
            have h2 := ok_trans hu (teardownIfLast_ok fl _)
            exact StepOk.ofSame h2.1 h2.2 rfl rfl rfl rfl
          · cases hs

theorem create_ok (fl s t op f h vs) :
    StepOk fl s (.fresh t op) (s.create vs) (.bsend t f h [] vs 0) vs := by
  refine ⟨fun hi => hi.frame (frame_create _ _), ?_, ?_, ?_, ?_, ?_⟩ <;> acct

theorem firstHit_E {l e o g} (h : firstHit l e o g = some .E) : e = true := by
  induction l with
  | nil => simp [firstHit] at h
  | cons c r ih =>
    cases c <;> simp only [firstHit] at h
    · split at h
      · assumption
      · exact ih h
    · split at h
      · cases h
      · exact ih h
    · split at h
      · cases h
      · exact ih h

theorem startSend_ok (fl cfg s t f h vs) :
    ∃ δ, (δ = [] ∨ δ = vs) ∧
      StepOk fl s (.fresh t (.snd f h vs)) (startSend fl cfg s t f h vs).1 (startSend fl cfg s t f h vs).2 δ := by
  unfold startSend
  split
  · exact ⟨[], Or.inl rfl, StepOk.ofSameFin (same_ok fl s)⟩
  · split
    · exact ⟨[], Or.inl rfl, StepOk.ofSameFin (same_ok fl s)⟩
    · have hc := create_ok fl s t (.snd f h vs) f h vs
      split
      · -- oneshot
        rename_i hf
        split
        · exact ⟨_, Or.inr rfl, hc.trans (osSendStart_ok fl hf ..)⟩
        · exact ⟨[], Or.inl rfl, StepOk.ofSameFin (same_ok fl s)⟩
      · rename_i hf
        split
        · split
          · exact ⟨_, Or.inr rfl, hc.trans (failSend_ok ..)⟩
          · exact ⟨_, Or.inr rfl, hc.trans (rvSendStep_ok fl hf ..)⟩
        · exact ⟨[], Or.inl rfl, StepOk.ofSameFin (same_ok fl s)⟩
      · unfold startSendBuf
        split
        · rename_i he
          have hv : vs = [] := by simpa using firstHit_E he
          subst hv
          refine ⟨[], Or.inl rfl, ?_⟩
          refine ⟨fun hi => hi.frame (frame_create _ _), ?_, ?_, ?_, ?_, ?_⟩ <;> acct
        · exact ⟨_, Or.inr rfl, hc.trans (failSend_ok ..)⟩
        · split
          · rename_i he
            have hv : vs = [] := by simpa using he
            subst hv
            refine ⟨[], Or.inl rfl, ?_⟩
            refine ⟨fun hi => hi.frame (frame_create _ _), ?_, ?_, ?_, ?_, ?_⟩ <;> acct
          · split
            · exact ⟨_, Or.inr rfl, hc⟩
            · split
              · rename_i r hr
                exact ⟨_, Or.inr rfl, hc.trans (sendStep_ok (by rw [hr]))⟩
              · exact ⟨_, Or.inr rfl, hc⟩


/-! ### receive side -/

theorem StepOk.thenSame {fl s p s1 p1 δ s2} (h1 : StepOk fl s p s1 p1 δ)
    (h2 : (Inv fl s1 → Inv fl s2) ∧ SameAcct s1 s2) : StepOk fl s p s2 p1 δ := by
  have := h1.trans (StepOk.ofSame (p := p1) (p' := p1) h2.1 h2.2 rfl rfl rfl rfl)
  exact this

theorem mbFlush_ok (fl) (s : St) : (Inv fl s → Inv fl (mbFlush fl s)) ∧ SameAcct s (mbFlush fl s) := by
  unfold mbFlush; split
  · upd
  · exact same_ok fl s

theorem mbFlushMid_ok (fl) (s : St) : (Inv fl s → Inv fl (mbFlushMid fl s)) ∧ SameAcct s (mbFlushMid fl s) := by
  unfold mbFlushMid; split
  · upd
  · exact same_ok fl s

theorem mbGot_ok (fl) (s : St) (k b) : (Inv fl s → Inv fl (mbGot fl s k b)) ∧ SameAcct s (mbGot fl s k b) := by
  unfold mbGot; split
  · upd
  · exact same_ok fl s

theorem StepOk.refl' (fl s p) (p' : P) (h1 : P.inHand p' = P.inHand p) (h2 : gotOf p' = gotOf p)
    (h3 : sentOf p' = sentOf p) (h4 : backOf p' = backOf p) : StepOk fl s p s p' [] :=
  StepOk.ofSame id (SameAcct.refl s) h1 h2 h3 h4

theorem emptyOutcome_ok {fl s f hd t h n s' p'} (hs : emptyOutcome fl s f hd = some (s', p')) :
    StepOk fl s (.brecv t f h n []) s' p' [] := by
  unfold emptyOutcome at hs
  simp only [] at hs
  have key : ∀ tag, StepOk fl s (.brecv t f h n []) (mbFlush fl s) (.fin { tag := tag }) [] := fun tag =>
    (StepOk.refl' fl s (.brecv t f h n []) (.fin { tag := tag }) rfl rfl rfl rfl).thenSame (mbFlush_ok fl s)
  split at hs
  · cases hs; exact key _
  · split at hs <;> first | (cases hs; exact key _) | cases hs

theorem capOk_pop {fl : Flavour} {s : St} (h : capOk fl s) (r k) : capOk fl (s.pop r k) := by
  unfold capOk at h ⊢
  cases hk : fl.capOf <;> simp only [hk] at h ⊢ <;> simp_all [St.pop] <;> omega

theorem pop_ok (fl : Flavour) (s : St) (t f h n got k r) (p' : P)
    (hp : P.inHand p' = [] ∧ gotOf p' = got ++ s.buf.take k ∧ sentOf p' = [] ∧ backOf p' = []) :
    StepOk fl s (.brecv t f h n got) (s.pop r k) p' [] := by
  obtain ⟨h1, h2, h3, h4⟩ := hp
  refine ⟨fun hi => hi.pop r k (capOk_pop hi.cap r k), ?_, ?_, ?_, ?_, ?_⟩
  all_goals ((try (intro v; have := count_take_drop' v k s.buf; revert this)) <;> (try simp only [h1, h2, h3, h4]) <;> acct)

theorem recvStep_ok {fl cfg s t f hd n got s' p'} (hs : recvStep fl cfg s t f hd n got = some (s', p')) :
    StepOk fl s (.brecv t f hd.name n got) s' p' [] := by
  unfold recvStep at hs
  generalize recvK fl cfg s f n got = k at hs
  split at hs
  · split at hs
    · rename_i hg
      have : got = [] := by simpa using hg
      subst this
      exact emptyOutcome_ok hs
    · cases hs
      exact (StepOk.refl' fl s (.brecv t f hd.name n got) (.fin { tag := .ok, got := got }) rfl rfl rfl rfl).thenSame (mbFlush_ok fl s)
  · split at hs
    · cases hs
      have h1 := (pop_ok fl s t f hd.name n got k hd.name.idx (.fin { tag := .ok, got := got ++ s.buf.take k })
        ⟨rfl, rfl, rfl, rfl⟩).thenSame (mbGot_ok fl _ k false)
      split
      · exact h1.thenSame (mbFlushMid_ok fl _)
      · exact h1
    · cases hs
      exact (pop_ok fl s t f hd.name n got k hd.name.idx _ ⟨rfl, rfl, rfl, rfl⟩).thenSame (mbGot_ok fl _ k false)


theorem rvRecvStart_ok (fl : Flavour) (hf : fl.fam = .rv) (s t f hd op) :
    StepOk fl s (.fresh t op) (rvRecvStart s t f hd).1 (rvRecvStart s t f hd).2 [] := by
  unfold rvRecvStart
  split
  · rename_i ts p v rest hsw
    refine ⟨fun hi => (hi.handOff hf _ _ _).frame (by unfold St.handOff; frame), ?_, ?_, ?_, ?_, ?_⟩ <;>
      ((try simp only [St.placed, St.parked, St.handOff, hsw]); acct)
  · split
    · exact StepOk.ofSameFin (same_ok fl s)
    · split
      · exact StepOk.ofSameFin (same_ok fl s)
      · exact StepOk.ofSame (fun hi => hi.frame (by frame)) (by same) rfl rfl rfl rfl
      · exact StepOk.ofSame (fun hi => hi.frame (by frame)) (by same) rfl rfl rfl rfl

theorem osTryRecv_ok (fl : Flavour) (s hd t op) :
    StepOk fl s (.fresh t op) (osTryRecv s hd).1 (.fin (osTryRecv s hd).2) [] := by
  unfold osTryRecv
  split
  · have h1 := pop_ok fl s t .tryRecv hd.name 0 [] 1 hd.name.idx (.fin { tag := .ok, got := s.buf.take 1 })
      ⟨rfl, by simp [gotOf], rfl, rfl⟩
    have h2 : (Inv fl (s.pop hd.name.idx 1) → Inv fl { (s.pop hd.name.idx 1) with os := .taken }) ∧
        SameAcct (s.pop hd.name.idx 1) { (s.pop hd.name.idx 1) with os := .taken } := by upd
    have h3 := h1.thenSame h2
    refine ⟨h3.inv, h3.created, ?_, ?_, ?_, ?_⟩
    · intro v; have := h3.tok v; simpa [P.inHand] using this
    · intro v; have := h3.recv v; simpa [gotOf] using this
    · intro v; have := h3.sent v; simpa [sentOf] using this
    · intro v; have := h3.back v; simpa [backOf] using this
  · exact StepOk.ofSame id (SameAcct.refl s) rfl rfl rfl rfl
  · exact StepOk.ofSame id (SameAcct.refl s) rfl rfl rfl rfl
  · split
    · exact StepOk.ofSame (fun hi => hi.frame (by frame)) (by same) rfl rfl rfl rfl
    · exact StepOk.ofSame id (SameAcct.refl s) rfl rfl rfl rfl


/-- re-target a `StepOk` to another source operation state with the same (empty) accounts -/
theorem StepOk.retarget {fl s p s' p' δ} (q : P) (h : StepOk fl s p s' p' δ)
    (h1 : P.inHand q = P.inHand p) (h2 : gotOf q = gotOf p) (h3 : sentOf q = sentOf p) (h4 : backOf q = backOf p) :
    StepOk fl s q s' p' δ :=
  ⟨h.inv, h.created, by simpa [h1] using h.tok, by simpa [h2] using h.recv, by simpa [h3] using h.sent,
   by simpa [h4] using h.back⟩

theorem osRecvStep_ok {fl : Flavour} {s hd s' p'} (q : P)
    (hq : P.inHand q = [] ∧ gotOf q = [] ∧ sentOf q = [] ∧ backOf q = [])
    (hs : osRecvStep s hd = some (s', p')) : StepOk fl s q s' p' [] := by
  unfold osRecvStep at hs
  have h0 := (osTryRecv_ok fl s hd 0 (.close ⟨.tx, 0⟩)).retarget q hq.1 hq.2.1 hq.2.2.1 hq.2.2.2
  split at hs
  · cases hs; exact h0
  · split at hs
    · cases hs
      have h2 : StepOk fl s q (osTryRecv s hd).1 (.fin { tag := .disconnected }) [] := by
        have := h0
        rename_i hne _
        have ht : (osTryRecv s hd).2.tag = .empty := by simpa using hne
        -- the failed try consumed nothing
        have hg : (osTryRecv s hd).2.got = [] ∧ (osTryRecv s hd).2.sent = [] ∧ (osTryRecv s hd).2.back = [] := by
          unfold osTryRecv at ht ⊢
          split <;> simp_all
          split <;> simp_all
        refine ⟨this.inv, this.created, ?_, ?_, ?_, ?_⟩
        · intro v; simpa [P.inHand] using this.tok v
        · intro v; have := this.recv v; simpa [gotOf, hg.1] using this
        · intro v; have := this.sent v; simpa [sentOf, hg.2.1] using this
        · intro v; have := this.back v; simpa [backOf, hg.2.2] using this
      refine h2.thenSame ⟨fun hi => hi.frame ?_, by same⟩
      refine ⟨rfl, rfl, rfl, rfl, rfl, rfl, rfl, ?_⟩
      by_cases he : (osTryRecv s hd).1.os = .empty
      · right; simp [he]
      · left; simp [he]
    · cases hs

theorem startRecv_ok (fl cfg s t f h n) :
    StepOk fl s (.fresh t (.rcv f h n)) (startRecv fl cfg s t f h n).1 (startRecv fl cfg s t f h n).2 [] := by
  unfold startRecv
  split
  · exact StepOk.ofSameFin (same_ok fl s)
  · split
    · exact StepOk.ofSameFin (same_ok fl s)
    · split
      · exact StepOk.ofSameFin (same_ok fl s)
      · exact StepOk.ofSameFin (same_ok fl s)
      · split
        · split
          · exact osTryRecv_ok ..
          · split
            · rename_i r hr
              exact osRecvStep_ok _ ⟨rfl, rfl, rfl, rfl⟩ (by rw [hr])
            · exact StepOk.ofSame id (SameAcct.refl s) rfl rfl rfl rfl
        · rename_i hf
          exact rvRecvStart_ok fl hf ..
        · split
          · rename_i r hr
            have := recvStep_ok (by rw [hr] : recvStep fl cfg s t f _ n [] = some (r.1, r.2))
            exact this.retarget _ rfl rfl rfl rfl
          · exact StepOk.ofSame (mbFlush_ok fl s).1 (mbFlush_ok fl s).2 rfl rfl rfl rfl

end Fv.Chan
