import Fv.Lemmas.SpscBRingStep
/-! Preservation of the ring invariant by the four ring actions (`tail`/`head` loads and stores);
`Reach → CInv ∧ RInv`. -/
namespace Fv.Chan.SpscB

attribute [local grind =] upd_apply updN_apply
attribute [local grind] isPush isPop constrained
attribute [local grind cases] Role

theorem getD_of_some {o : Option Nat} {v : Nat} (h : o = some v) : o.getD 0 = v := by simp [h]

/-- the other clauses after a step of `r` that put `r` at an unconstrained position and kept all
other threads' locals: they reduce to the old clauses for `q ≠ r`. -/
theorem isPush_of_eq {m : Mic} (h : m = .pushLdHead ∨ m = .pushStTail ∨ m = .pushLdTail) : isPush m = true := by
  rcases h with h | h | h <;> simp [h, isPush]
theorem isPop_of_eq {m : Mic} (h : m = .popLdHead ∨ m = .popLdTail ∨ m = .popStHead) : isPop m = true := by
  rcases h with h | h | h <;> simp [h, isPop]

/-- case split `q = r` on a goal/hypothesis about `upd s.loc r l q`; first block for `q = r`, second for `q ≠ r` -/
syntax "upd_cases " ident ident ident ident " => " "(" tacticSeq ")" "(" tacticSeq ")" : tactic
macro_rules
  | `(tactic| upd_cases $q $hq $r $e => ($t1) ($t2)) => `(tactic| (
      simp only [upd_apply] at $hq:ident ⊢
      by_cases $e:ident : $q = $r
      · simp only [$e:ident, ↓reduceIte] at $hq:ident ⊢
        all_goals ($t1)
      · simp only [$e:ident, ↓reduceIte] at $hq:ident ⊢
        all_goals ($t2)))

set_option maxHeartbeats 1000000 in
theorem rinv_ldTail {s s' : State} {r : Role} (hc : CInv s) (hi : RInv s) (h : stepLdTail s r = some s') : RInv s' := by
  obtain ⟨h1, h2, h3, h4, h5, h6, h7, h8, h9, h10, h11, h12⟩ := hi
  have hPu : ∀ q, isPush (s.loc q).m = true → isPush (s.loc r).m = true → q = r := fun q a b => by
    rw [push_P hc a, push_P hc b]
  have hPo : ∀ q, isPop (s.loc q).m = true → isPop (s.loc r).m = true → q = r := fun q a b => pop_unique hc a b
  simp only [stepLdTail, setLoc] at h
  repeat' split at h
  all_goals (first | (simp at h <;> try subst h) | skip)
  · -- push: cached head says full → refresh
    refine ⟨h1, h2, h3, h4, h5, h6, h7, h8, ?_, ?_, ?_, ?_⟩ <;> (dsimp only; grind)
  · -- push: room by the cached head → slot written
    rename_i hm hroom
    have hlt : s.tail - s.head < s.cap := by omega
    have hw := window_write_tail (sl := s.slots) (phys := s.phys) (some (s.loc r).v) h3 (by omega : s.tail - s.head < s.phys)
    have hne : s.head < s.tail → s.head % s.phys ≠ s.tail % s.phys := fun hl => mod_ne_of_lt hl (by omega)
    have hpr : isPush (s.loc r).m = true := by simp [hm, isPush]
    refine ⟨h1, h2, h3, h4, h5, h6, h7, ?_, ?_, ?_, ?_, ?_⟩ <;> dsimp only
    · rw [hw]; exact h8
    · intro q hq
      upd_cases q hq r e =>
        (simp at hq)
        (exact h9 q hq)
    · intro q hq
      upd_cases q hq r e =>
        (exact ⟨trivial, hlt, by simp [updN_apply]⟩)
        (exact absurd (hPu q (by simp [hq, isPush]) hpr) e)
    · intro q hq
      upd_cases q hq r e =>
        (simp at hq)
        (exact h11 q hq)
    · intro q hq
      upd_cases q hq r e =>
        (simp at hq)
        (obtain ⟨a, b, c⟩ := h12 q hq
         refine ⟨a, b, ?_⟩
         rw [updN_apply, if_neg (hne (by omega))]; exact c)
  · -- pop: refresh finds the ring empty
    rename_i hm hemp
    have hnc := afterPop_nc (s.loc r) none
    refine ⟨h1, h2, h3, h4, h5, ?_, ?_, h8, ?_, ?_, ?_, ?_⟩ <;> dsimp only
    · exact h3
    · exact Nat.le_refl _
    · intro q hq
      upd_cases q hq r e =>
        (simp [hq, constrained] at hnc)
        (exact h9 q hq)
    · intro q hq
      upd_cases q hq r e =>
        (simp [hq, constrained] at hnc)
        (exact h10 q hq)
    · intro q hq
      upd_cases q hq r e =>
        (simp [hq, constrained] at hnc)
        (exact h11 q hq)
    · intro q hq
      upd_cases q hq r e =>
        (simp [hq, constrained] at hnc)
        (exact absurd (hPo q (by simp [hq, isPop]) (by simp [hm, isPop])) e)
  · -- pop: refresh finds an item → slot read
    rename_i hm hne
    have hh := h11 r hm
    have hlt : s.head < s.tail := by omega
    obtain ⟨v, hv⟩ := window_head_some h8 (by omega : 0 < s.tail - s.head)
    refine ⟨h1, h2, h3, h4, h5, ?_, ?_, h8, ?_, ?_, ?_, ?_⟩ <;> dsimp only
    · exact h3
    · exact Nat.le_refl _
    · intro q hq
      upd_cases q hq r e =>
        (simp at hq)
        (exact h9 q hq)
    · intro q hq
      upd_cases q hq r e =>
        (simp at hq)
        (exact h10 q hq)
    · intro q hq
      upd_cases q hq r e =>
        (simp at hq)
        (exact h11 q hq)
    · intro q hq
      upd_cases q hq r e =>
        (refine ⟨hh, hlt, ?_⟩
         rw [hh, hv]; simp)
        (exact absurd (hPo q (by simp [hq, isPop]) (by simp [hm, isPop])) e)
  · -- len
    refine ⟨h1, h2, h3, h4, h5, h6, h7, h8, ?_, ?_, ?_, ?_⟩ <;> (dsimp only; grind)


set_option maxHeartbeats 1000000 in
theorem rinv_ldHead {s s' : State} {r : Role} (hc : CInv s) (hi : RInv s) (h : stepLdHead s r = some s') : RInv s' := by
  obtain ⟨h1, h2, h3, h4, h5, h6, h7, h8, h9, h10, h11, h12⟩ := hi
  have hPu : ∀ q, isPush (s.loc q).m = true → isPush (s.loc r).m = true → q = r := fun q a b => by
    rw [push_P hc a, push_P hc b]
  have hPo : ∀ q, isPop (s.loc q).m = true → isPop (s.loc r).m = true → q = r := fun q a b => pop_unique hc a b
  simp only [stepLdHead, setLoc] at h
  repeat' split at h
  all_goals (first | (simp at h <;> try subst h) | skip)
  · -- push: refresh confirms full
    rename_i hm hfull
    have hnc := afterPush_nc (s.loc r) false
    refine ⟨h1, h2, h3, h4, Nat.le_refl _, h6, h7, h8, ?_, ?_, ?_, ?_⟩ <;> dsimp only
    · intro q hq
      upd_cases q hq r e =>
        (simp [hq, constrained] at hnc)
        (exact absurd (hPu q (by simp [hq, isPush]) (by simp [hm, isPush])) e)
    · intro q hq
      upd_cases q hq r e =>
        (simp [hq, constrained] at hnc)
        (exact absurd (hPu q (by simp [hq, isPush]) (by simp [hm, isPush])) e)
    · intro q hq
      upd_cases q hq r e =>
        (simp [hq, constrained] at hnc)
        (exact h11 q hq)
    · intro q hq
      upd_cases q hq r e =>
        (simp [hq, constrained] at hnc)
        (exact h12 q hq)
  · -- push: refresh finds room → slot written
    rename_i hm hroom
    have ht := h9 r hm
    rw [ht] at hroom ⊢
    have hlt : s.tail - s.head < s.cap := by omega
    have hw := window_write_tail (sl := s.slots) (phys := s.phys) (some (s.loc r).v) h3 (by omega : s.tail - s.head < s.phys)
    have hne : s.head < s.tail → s.head % s.phys ≠ s.tail % s.phys := fun hl => mod_ne_of_lt hl (by omega)
    have hpr : isPush (s.loc r).m = true := by simp [hm, isPush]
    refine ⟨h1, h2, h3, h4, Nat.le_refl _, h6, h7, ?_, ?_, ?_, ?_, ?_⟩ <;> dsimp only
    · rw [hw]; exact h8
    · intro q hq
      upd_cases q hq r e =>
        (simp at hq)
        (exact h9 q hq)
    · intro q hq
      upd_cases q hq r e =>
        (exact ⟨trivial, hlt, by simp [updN_apply]⟩)
        (exact absurd (hPu q (by simp [hq, isPush]) hpr) e)
    · intro q hq
      upd_cases q hq r e =>
        (simp at hq)
        (exact h11 q hq)
    · intro q hq
      upd_cases q hq r e =>
        (simp at hq)
        (obtain ⟨a, b, c⟩ := h12 q hq
         refine ⟨a, b, ?_⟩
         rw [updN_apply, if_neg (hne (by omega))]; exact c)
  · -- pop: cached tail says empty → refresh
    rename_i hm hemp
    refine ⟨h1, h2, h3, h4, h5, h6, h7, h8, ?_, ?_, ?_, ?_⟩ <;> dsimp only
    · intro q hq
      upd_cases q hq r e =>
        (simp at hq)
        (exact h9 q hq)
    · intro q hq
      upd_cases q hq r e =>
        (simp at hq)
        (exact h10 q hq)
    · intro q hq
      upd_cases q hq r e =>
        (trivial)
        (exact h11 q hq)
    · intro q hq
      upd_cases q hq r e =>
        (simp at hq)
        (exact h12 q hq)
  · -- pop: item visible through the cached tail → slot read
    rename_i hm hne
    have hlt : s.head < s.cachedTail := by omega
    obtain ⟨v, hv⟩ := window_head_some h8 (by omega : 0 < s.tail - s.head)
    refine ⟨h1, h2, h3, h4, h5, h6, h7, h8, ?_, ?_, ?_, ?_⟩ <;> dsimp only
    · intro q hq
      upd_cases q hq r e =>
        (simp at hq)
        (exact h9 q hq)
    · intro q hq
      upd_cases q hq r e =>
        (simp at hq)
        (exact h10 q hq)
    · intro q hq
      upd_cases q hq r e =>
        (simp at hq)
        (exact h11 q hq)
    · intro q hq
      upd_cases q hq r e =>
        (refine ⟨trivial, hlt, ?_⟩
         rw [hv]; simp)
        (exact absurd (hPo q (by simp [hq, isPop]) (by simp [hm, isPop])) e)
  · -- len
    refine ⟨h1, h2, h3, h4, h5, h6, h7, h8, ?_, ?_, ?_, ?_⟩ <;> (dsimp only; grind)

set_option maxHeartbeats 1000000 in
theorem rinv_stTail {s s' : State} {r : Role} (hc : CInv s) (hi : RInv s) (h : stepStTail s r = some s') : RInv s' := by
  obtain ⟨h1, h2, h3, h4, h5, h6, h7, h8, h9, h10, h11, h12⟩ := hi
  have hPu : ∀ q, isPush (s.loc q).m = true → isPush (s.loc r).m = true → q = r := fun q a b => by
    rw [push_P hc a, push_P hc b]
  simp only [stepStTail, setLoc] at h
  repeat' split at h
  all_goals (first | (simp at h <;> try subst h) | skip)
  rename_i hm
  obtain ⟨ht, hlt, hsl⟩ := h10 r hm
  have hnc := afterPush_nc (s.loc r) true
  rw [ht]
  refine ⟨h1, h2, ?_, ?_, h5, h6, ?_, ?_, ?_, ?_, ?_, ?_⟩ <;> dsimp only
  · omega
  · omega
  · omega
  · rw [window_publish _ _ h3, hsl, List.map_append, h8]; simp
  · intro q hq
    upd_cases q hq r e =>
      (simp [hq, constrained] at hnc)
      (exact absurd (hPu q (by simp [hq, isPush]) (by simp [hm, isPush])) e)
  · intro q hq
    upd_cases q hq r e =>
      (simp [hq, constrained] at hnc)
      (exact absurd (hPu q (by simp [hq, isPush]) (by simp [hm, isPush])) e)
  · intro q hq
    upd_cases q hq r e =>
      (simp [hq, constrained] at hnc)
      (exact h11 q hq)
  · intro q hq
    upd_cases q hq r e =>
      (simp [hq, constrained] at hnc)
      (exact h12 q hq)

set_option maxHeartbeats 1000000 in
theorem rinv_stHead {s s' : State} {r : Role} (hc : CInv s) (hi : RInv s) (h : stepStHead s r = some s') : RInv s' := by
  obtain ⟨h1, h2, h3, h4, h5, h6, h7, h8, h9, h10, h11, h12⟩ := hi
  have hPo : ∀ q, isPop (s.loc q).m = true → isPop (s.loc r).m = true → q = r := fun q a b => pop_unique hc a b
  simp only [stepStHead, setLoc] at h
  repeat' split at h
  all_goals (first | (simp at h <;> try subst h) | skip)
  all_goals (
    rename_i hm hk
    obtain ⟨hh, hct, hsl⟩ := h12 r hm
    have hlt : s.head < s.tail := by omega
    have hnc := afterPop_nc (s.loc r) (some (s.loc r).v)
    rw [hh])
  · -- drain
    refine ⟨h1, h2, ?_, ?_, ?_, ?_, h7, ?_, ?_, ?_, ?_, ?_⟩ <;> dsimp only
    · omega
    · omega
    · omega
    · omega
    · rw [h8, window_consume _ _ hlt (by omega), hsl]; simp
    · intro q hq
      upd_cases q hq r e =>
        (simp [hq, constrained] at hnc)
        (exact h9 q hq)
    · intro q hq
      upd_cases q hq r e =>
        (simp [hq, constrained] at hnc)
        (obtain ⟨a, b, c⟩ := h10 q hq
         have hne : s.head % s.phys ≠ s.tail % s.phys := mod_ne_of_lt hlt (by omega)
         refine ⟨a, by omega, ?_⟩
         rw [updN_apply, if_neg (Ne.symm hne)]; exact c)
    · intro q hq
      upd_cases q hq r e =>
        (simp [hq, constrained] at hnc)
        (exact absurd (hPo q (by simp [hq, isPop]) (by simp [hm, isPop])) e)
    · intro q hq
      upd_cases q hq r e =>
        (simp [hq, constrained] at hnc)
        (exact absurd (hPo q (by simp [hq, isPop]) (by simp [hm, isPop])) e)
  · -- normal pop
    have hd : s.drained = [] := drained_nil_of_pop hc (r := r) (by simp [hm, isPop]) hk
    refine ⟨h1, h2, ?_, ?_, ?_, ?_, h7, ?_, ?_, ?_, ?_, ?_⟩ <;> dsimp only
    · omega
    · omega
    · omega
    · omega
    · rw [h8, window_consume _ _ hlt (by omega), hsl, hd]; simp
    · intro q hq
      upd_cases q hq r e =>
        (simp [hq, constrained] at hnc)
        (exact h9 q hq)
    · intro q hq
      upd_cases q hq r e =>
        (simp [hq, constrained] at hnc)
        (obtain ⟨a, b, c⟩ := h10 q hq
         have hne : s.head % s.phys ≠ s.tail % s.phys := mod_ne_of_lt hlt (by omega)
         refine ⟨a, by omega, ?_⟩
         rw [updN_apply, if_neg (Ne.symm hne)]; exact c)
    · intro q hq
      upd_cases q hq r e =>
        (simp [hq, constrained] at hnc)
        (exact absurd (hPo q (by simp [hq, isPop]) (by simp [hm, isPop])) e)
    · intro q hq
      upd_cases q hq r e =>
        (simp [hq, constrained] at hnc)
        (exact absurd (hPo q (by simp [hq, isPop]) (by simp [hm, isPop])) e)

end Fv.Chan.SpscB
