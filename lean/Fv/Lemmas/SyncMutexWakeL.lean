import Fv.Lemmas.SyncMutexWake
/-!
Wake invariant of the mutex model, per-thread conjuncts (`PBoc`, `PBoPark`, `PQw`, `PQz`, `PPk`,
`PT1`, `PHl`): the stepping thread by one pass over the step cases, the others by frames.
-/
namespace Fv.Sync.Mutex
open Fv.Sync
variable {cfg : Cfg} {s s' : State} {t : Tid} {l : Lbl}

set_option maxHeartbeats 16000000 in
theorem wake_local (hi : Inv s) (hw : WInv s) (h : Step cfg s t l s') :
    (∀ f, (s'.th t).cur = some f → futPc (s'.th t).pc = true → (s'.th t).blockOn = (s'.fut f).bo)
    ∧ ((s'.th t).pc = .boPark → (s'.th t).blockOn = true)
    ∧ ((s'.th t).pc = .qRearm → (s'.wl.node (me t (s'.th t))).waiter = some (myWaiter t (s'.th t)))
    ∧ (armedPc (s'.th t).pc = true →
        (s'.wl.node (me t (s'.th t))).linked = true ∧ (s'.wl.node (me t (s'.th t))).woken = false)
    ∧ (((s'.th t).pc = .wLoad ∨ (s'.th t).pc = .wPark ∨ (s'.th t).pc = .boPark) →
        (s'.wl.node (me t (s'.th t))).linked = true)
    ∧ ((s'.th t).pc = .wnStore → s'.wl.queue.head? = some (s'.th t).tgt)
    ∧ (holdUnlinkPc (s'.th t).pc = true → (t, true) ∈ s'.holders) := by
  have a1 := hi.syncCur t; have a2 := hi.asyncCur t; have a5 := hi.ffOk t; have a3 := hi.syncLinked t
  have c0 := hw.bb
  unfold PBb at c0
  have b0 := hw.boc t; have b1 := hw.boPark t; have b2 := hw.qw t; have b3 := hw.qz t
  have b4 := hw.pk t; have b5 := hw.t1 t; have b6 := hw.hl t
  clear hi hw
  step_cases h
  all_goals (try simp only [myWaiter] at *)
  all_goals (try norm_state)
  all_goals wg

end Fv.Sync.Mutex
