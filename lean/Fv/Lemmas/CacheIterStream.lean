import Fv.Lemmas.CacheIter
/-
Helper lemmas for C17, the hand-polled `IterStream` with a contended refill
(`refillLoopL`, `streamPoll`, `streamRun` of `Fv/Cache/Iter.lean`): whatever the lock situation
during each poll is, the items handed out so far plus what is buffered (in the stream or in the
parked refill future) are the live entries of the keys the cursor has passed — so the parked
future's completion advances the cursor exactly once — and with no lock held a poll is never
`Pending`.
-/
namespace Fv.Cache.C17L
variable {P : Type}

/-- the loop of the refill future keeps the cursor invariant, parked or not -/
theorem refillLoopL_inv (nshards batch : Nat) (keysOf : Nat → List Nat) (m : List (Nat × Entry)) (now : Nat)
    (tti : Option Nat) (locked : Nat → Bool) (acc : List (Nat × Nat)) :
    ∀ (fuel : Nat) (it : IterSt), CurInv nshards keysOf m now tti it acc →
      CurInv nshards keysOf m now tti (refillLoopL nshards batch keysOf m now tti locked fuel it).1 acc := by
  intro fuel
  induction fuel with
  | zero => intro it h; exact h
  | succ fuel ih =>
    intro it h
    rw [refillLoopL]
    split
    · next hc =>
      split
      · exact h
      · dsimp only
        split
        · next hs =>
          refine ih _ ⟨?_, ?_, ?_⟩
          · dsimp only; rw [consumed_next_shard keysOf it.shard it.seen hs]; exact h.live
          · dsimp only; omega
          · intro _; rfl
        · next hs =>
          refine ih _ ⟨?_, ?_, ?_⟩
          · dsimp only
            rw [consumed_advance, liveOf_append, h.live, List.append_assoc, take_length_take]
          · exact h.le
          · intro he; dsimp only at he; omega
    · exact h

/-- a parked future is parked at a locked shard -/
theorem refillLoopL_parked (nshards batch : Nat) (keysOf : Nat → List Nat) (m : List (Nat × Entry)) (now : Nat)
    (tti : Option Nat) (locked : Nat → Bool) :
    ∀ (fuel : Nat) (it : IterSt), (refillLoopL nshards batch keysOf m now tti locked fuel it).2 = true →
      locked (refillLoopL nshards batch keysOf m now tti locked fuel it).1.shard = true ∧
      (refillLoopL nshards batch keysOf m now tti locked fuel it).1.shard < nshards := by
  intro fuel
  induction fuel with
  | zero => intro it h; simp [refillLoopL] at h
  | succ fuel ih =>
    intro it
    rw [refillLoopL]
    split
    · next hc =>
      split
      · next hl => intro _; exact ⟨hl, hc.1⟩
      · dsimp only
        split
        · exact ih _
        · exact ih _
    · intro h; simp at h

/-- with no lock held the future is never parked -/
theorem refillLoopL_noLock (nshards batch : Nat) (keysOf : Nat → List Nat) (m : List (Nat × Entry)) (now : Nat)
    (tti : Option Nat) (fuel : Nat) (it : IterSt) :
    (refillLoopL nshards batch keysOf m now tti noLock fuel it).2 = false := by
  cases h : (refillLoopL nshards batch keysOf m now tti noLock fuel it).2 with
  | false => rfl
  | true => have := (refillLoopL_parked nshards batch keysOf m now tti noLock fuel it h).1; simp [noLock] at this

/-- a future that completes (is not parked) with enough fuel has a full batch or has left the last shard -/
theorem refillLoopL_exit (nshards batch : Nat) (keysOf : Nat → List Nat) (m : List (Nat × Entry)) (now : Nat)
    (tti : Option Nat) (locked : Nat → Bool) :
    ∀ (fuel : Nat) (it : IterSt),
      (nshards - it.shard) + ((allKeys nshards keysOf).length - (consumed keysOf it.shard it.seen).length) ≤ fuel →
      (refillLoopL nshards batch keysOf m now tti locked fuel it).2 = false →
      ¬ ((refillLoopL nshards batch keysOf m now tti locked fuel it).1.shard < nshards ∧
         (refillLoopL nshards batch keysOf m now tti locked fuel it).1.buffer.length < batch) := by
  intro fuel
  induction fuel with
  | zero =>
    intro it h _; rw [refillLoopL]
    show ¬ (it.shard < nshards ∧ it.buffer.length < batch)
    omega
  | succ fuel ih =>
    intro it h
    rw [refillLoopL]
    split
    · next hc =>
      split
      · intro hp; simp at hp
      · dsimp only
        split
        · next hs =>
          apply ih
          dsimp only
          rw [consumed_next_shard keysOf it.shard it.seen hs]
          omega
        · next hs =>
          apply ih
          dsimp only
          have h1 := consumed_length_le keysOf (it.seen + (List.take (batch - it.buffer.length) (List.drop it.seen (keysOf it.shard))).length) hc.1
          rw [consumed_advance, List.length_append] at h1 ⊢
          have h2 : (List.take (List.take (batch - it.buffer.length) (List.drop it.seen (keysOf it.shard))).length (List.drop it.seen (keysOf it.shard))).length ≥ 1 := by
            simp only [List.length_take, List.length_drop]; omega
          omega
    · next hc => intro _; exact hc

/-- what is true of a hand-polled stream between two polls, `acc` being the items handed out so
    far.  No refill parked: the stream's own cursor satisfies the cursor invariant.  A refill
    parked: the stream's buffer is empty, it is not finished, and the FUTURE's local cursor and
    local buffer satisfy the cursor invariant — the stream's own cursor is stale until the future
    completes and is taken over. -/
def SInv (nshards : Nat) (keysOf : Nat → List Nat) (m : List (Nat × Entry)) (now : Nat) (tti : Option Nat)
    (st : StreamSt) (acc : List (Nat × Nat)) : Prop :=
  match st.inflight with
  | none => CurInv nshards keysOf m now tti st.cur acc ∧ (st.cur.finished = true → st.cur.shard = nshards)
  | some f => st.cur.buffer = [] ∧ st.cur.finished = false ∧ CurInv nshards keysOf m now tti f acc

theorem SInv_init (nshards : Nat) (keysOf : Nat → List Nat) (m : List (Nat × Entry)) (now : Nat) (tti : Option Nat) :
    SInv nshards keysOf m now tti {} [] := by
  refine ⟨⟨?_, Nat.zero_le _, fun _ => rfl⟩, ?_⟩
  · simp [consumed, allKeys, liveOf]
  · intro h; cases h

/-- everything handed out so far is a prefix of the live entries in cursor order -/
theorem SInv.length_le {nshards : Nat} {keysOf : Nat → List Nat} {m : List (Nat × Entry)} {now : Nat} {tti : Option Nat}
    {st : StreamSt} {acc : List (Nat × Nat)} (h : SInv nshards keysOf m now tti st acc) :
    acc.length ≤ (liveOf m now tti (allKeys nshards keysOf)).length := by
  unfold SInv at h
  split at h
  · have := h.1.length_le; omega
  · have := h.2.2.length_le; omega

theorem SInv.prefix {nshards : Nat} {keysOf : Nat → List Nat} {m : List (Nat × Entry)} {now : Nat} {tti : Option Nat}
    {st : StreamSt} {acc : List (Nat × Nat)} (h : SInv nshards keysOf m now tti st acc) :
    ∃ t, liveOf m now tti (allKeys nshards keysOf) = acc ++ t := by
  unfold SInv at h
  split at h
  · obtain ⟨t, ht⟩ := consumed_prefix keysOf (seen := st.cur.seen) h.1.le h.1.atEnd
    exact ⟨st.cur.buffer ++ liveOf m now tti t, by rw [ht, liveOf_append, h.1.live, List.append_assoc]⟩
  · next f _ =>
    obtain ⟨t, ht⟩ := consumed_prefix keysOf (seen := f.seen) h.2.2.le h.2.2.atEnd
    exact ⟨f.buffer ++ liveOf m now tti t, by rw [ht, liveOf_append, h.2.2.live, List.append_assoc]⟩

/-- result of one poll, as a proposition about the new stream state -/
def PollPost (nshards : Nat) (keysOf : Nat → List Nat) (m : List (Nat × Entry)) (now : Nat) (tti : Option Nat)
    (locked : Nat → Bool) (acc : List (Nat × Nat)) (r : StreamSt × Poll) : Prop :=
  match r.2 with
  | .item k v => SInv nshards keysOf m now tti r.1 (acc ++ [(k, v)])
  | .pending => SInv nshards keysOf m now tti r.1 acc ∧ ∃ i, i < nshards ∧ locked i = true
  | .done => SInv nshards keysOf m now tti r.1 acc ∧ liveOf m now tti (allKeys nshards keysOf) = acc

theorem streamAbsorb_spec (nshards batch : Nat) (keysOf : Nat → List Nat) (m : List (Nat × Entry)) (now : Nat)
    (tti : Option Nat) (locked : Nat → Bool) (acc : List (Nat × Nat)) (st : StreamSt) (f : IterSt) (hb : 1 ≤ batch)
    (hbuf : st.cur.buffer = []) (hinv : CurInv nshards keysOf m now tti f acc)
    (hx : ¬ (f.shard < nshards ∧ f.buffer.length < batch)) :
    PollPost nshards keysOf m now tti locked acc (streamAbsorb nshards st f) := by
  unfold streamAbsorb
  rw [hbuf, List.nil_append]
  have hle := hinv.le
  split
  · next x rest hfb =>
    dsimp only [PollPost]
    unfold SInv
    dsimp only
    refine ⟨⟨?_, hinv.le, hinv.atEnd⟩, ?_⟩
    · show liveOf m now tti (consumed keysOf f.shard f.seen) = (acc ++ [(x.1, x.2)]) ++ rest
      rw [hinv.live, hfb]; simp
    · intro hfin
      have : f.shard ≥ nshards := by simpa using hfin
      omega
  · next hfb =>
    have hs : f.shard = nshards := by
      rw [hfb] at hx; simp only [List.length_nil] at hx; omega
    dsimp only [PollPost]
    refine ⟨?_, ?_⟩
    · unfold SInv
      dsimp only
      refine ⟨⟨?_, hinv.le, hinv.atEnd⟩, fun _ => hs⟩
      show liveOf m now tti (consumed keysOf f.shard f.seen) = acc ++ []
      rw [hinv.live, hfb]
    · have := hinv.atEnd_all hs
      rw [hfb, List.append_nil] at this
      exact this

/-- the future a poll runs satisfies the cursor invariant (when the stream's buffer is empty) -/
theorem start_inv (nshards : Nat) (keysOf : Nat → List Nat) (m : List (Nat × Entry)) (now : Nat)
    (tti : Option Nat) (acc : List (Nat × Nat)) (st : StreamSt) (hbuf : st.cur.buffer = [])
    (h : SInv nshards keysOf m now tti st acc) : CurInv nshards keysOf m now tti st.start acc := by
  unfold SInv at h
  unfold StreamSt.start
  cases hi : st.inflight with
  | some f => rw [hi] at h; exact h.2.2
  | none =>
    rw [hi] at h; dsimp only at h ⊢
    refine ⟨?_, h.1.le, h.1.atEnd⟩
    show liveOf m now tti (consumed keysOf st.cur.shard st.cur.seen) = acc ++ []
    rw [h.1.live, hbuf]

/-- ONE POLL, any lock situation: the invariant is kept; an item extends the handed-out list by
    exactly that item; `Pending` happens only while some shard is locked; the end is reported only
    when everything live has been handed out. -/
theorem streamPoll_spec (nshards batch : Nat) (keysOf : Nat → List Nat) (m : List (Nat × Entry)) (now : Nat)
    (tti : Option Nat) (locked : Nat → Bool) (acc : List (Nat × Nat)) (st : StreamSt)
    (hall : (allKeys nshards keysOf).length ≤ m.length) (hb : 1 ≤ batch)
    (h : SInv nshards keysOf m now tti st acc) :
    PollPost nshards keysOf m now tti locked acc (streamPoll nshards batch keysOf m now tti locked st) := by
  unfold streamPoll
  split
  · next x rest hbuf =>
    -- fast path: the buffer is non-empty, so no refill is parked
    dsimp only [PollPost]
    unfold SInv at h ⊢
    cases hi : st.inflight with
    | some f => rw [hi] at h; dsimp only at h; rw [h.1] at hbuf; cases hbuf
    | none =>
      rw [hi] at h; dsimp only at h ⊢
      refine ⟨⟨?_, h.1.le, h.1.atEnd⟩, h.2⟩
      show liveOf m now tti (consumed keysOf st.cur.shard st.cur.seen) = (acc ++ [(x.1, x.2)]) ++ rest
      rw [h.1.live, hbuf]; simp
  · next hbuf =>
    split
    · next hfin =>
      -- finished: only possible with nothing parked
      dsimp only [PollPost]
      have h' := h
      unfold SInv at h'
      cases hi : st.inflight with
      | some f => rw [hi] at h'; dsimp only at h'; rw [h'.2.1] at hfin; cases hfin
      | none =>
        rw [hi] at h'; dsimp only at h'
        refine ⟨h, ?_⟩
        have := h'.1.atEnd_all (h'.2 hfin)
        rw [hbuf, List.append_nil] at this
        exact this
    · next hfin =>
      -- refill: resume the parked future or start a new one from the stream's cursor
      have hstart := start_inv nshards keysOf m now tti acc st hbuf h
      have hinv := refillLoopL_inv nshards batch keysOf m now tti locked acc (nshards + m.length + 1) st.start hstart
      have hpark := refillLoopL_parked nshards batch keysOf m now tti locked (nshards + m.length + 1) st.start
      have hexit := refillLoopL_exit nshards batch keysOf m now tti locked (nshards + m.length + 1) st.start (by omega)
      dsimp only
      generalize refillLoopL nshards batch keysOf m now tti locked (nshards + m.length + 1) st.start = r at hinv hpark hexit
      split
      · next hp =>
        dsimp only [PollPost]
        refine ⟨?_, ⟨r.1.shard, (hpark hp).2, (hpark hp).1⟩⟩
        unfold SInv
        exact ⟨hbuf, by simpa using hfin, hinv⟩
      · next hp =>
        exact streamAbsorb_spec nshards batch keysOf m now tti locked acc st r.1 hb hbuf hinv (hexit (by simpa using hp))

/-- with no lock held a poll is never `Pending` -/
theorem streamPoll_noLock (nshards batch : Nat) (keysOf : Nat → List Nat) (m : List (Nat × Entry)) (now : Nat)
    (tti : Option Nat) (acc : List (Nat × Nat)) (st : StreamSt)
    (hall : (allKeys nshards keysOf).length ≤ m.length) (hb : 1 ≤ batch)
    (h : SInv nshards keysOf m now tti st acc) :
    (streamPoll nshards batch keysOf m now tti noLock st).2 ≠ .pending := by
  have hs := streamPoll_spec nshards batch keysOf m now tti noLock acc st hall hb h
  intro hp
  generalize streamPoll nshards batch keysOf m now tti noLock st = r at hs hp
  obtain ⟨st', p⟩ := r
  dsimp only at hp
  subst hp
  dsimp only [PollPost] at hs
  obtain ⟨_, i, _, hl⟩ := hs
  simp [noLock] at hl

/-- ANY SCHEDULE: after polling under an arbitrary list of lock situations the invariant holds for
    the items handed out so far, and if the end was reported they are exactly the live entries -/
theorem streamRun_spec (nshards batch : Nat) (keysOf : Nat → List Nat) (m : List (Nat × Entry)) (now : Nat)
    (tti : Option Nat) (hall : (allKeys nshards keysOf).length ≤ m.length) (hb : 1 ≤ batch) :
    ∀ (locks : List (Nat → Bool)) (st : StreamSt) (acc : List (Nat × Nat)), SInv nshards keysOf m now tti st acc →
      SInv nshards keysOf m now tti (streamRun nshards batch keysOf m now tti st locks acc).1
        (streamRun nshards batch keysOf m now tti st locks acc).2.1 ∧
      ((streamRun nshards batch keysOf m now tti st locks acc).2.2 = true →
        (streamRun nshards batch keysOf m now tti st locks acc).2.1 = liveOf m now tti (allKeys nshards keysOf)) := by
  intro locks
  induction locks with
  | nil => intro st acc h; exact ⟨h, by simp [streamRun]⟩
  | cons l ls ih =>
    intro st acc h
    have hs := streamPoll_spec nshards batch keysOf m now tti l acc st hall hb h
    rw [streamRun]
    generalize streamPoll nshards batch keysOf m now tti l st = r at hs
    obtain ⟨st', p⟩ := r
    cases p with
    | item k v => exact ih st' _ hs
    | pending => dsimp only [PollPost] at hs; exact ih st' _ hs.1
    | done => dsimp only [PollPost] at hs; exact ⟨hs.1, fun _ => hs.2.symm⟩

/-- a run that has ended stays what it is when more polls are scheduled after it -/
theorem streamRun_append (nshards batch : Nat) (keysOf : Nat → List Nat) (m : List (Nat × Entry)) (now : Nat)
    (tti : Option Nat) :
    ∀ (a b : List (Nat → Bool)) (st : StreamSt) (acc : List (Nat × Nat)),
      streamRun nshards batch keysOf m now tti st (a ++ b) acc =
        if (streamRun nshards batch keysOf m now tti st a acc).2.2 then streamRun nshards batch keysOf m now tti st a acc
        else streamRun nshards batch keysOf m now tti (streamRun nshards batch keysOf m now tti st a acc).1 b
          (streamRun nshards batch keysOf m now tti st a acc).2.1 := by
  intro a
  induction a with
  | nil => intro b st acc; simp [streamRun]
  | cons l ls ih =>
    intro b st acc
    rw [List.cons_append, streamRun, streamRun]
    generalize streamPoll nshards batch keysOf m now tti l st = r
    obtain ⟨st', p⟩ := r
    cases p with
    | item k v => exact ih b st' _
    | pending => exact ih b st' _
    | done => simp

/-- PROGRESS: polled with no lock held often enough (one poll per live entry not yet handed out,
    plus one), the stream reports its end, having handed out exactly the live entries -/
theorem streamRun_noLock (nshards batch : Nat) (keysOf : Nat → List Nat) (m : List (Nat × Entry)) (now : Nat)
    (tti : Option Nat) (hall : (allKeys nshards keysOf).length ≤ m.length) (hb : 1 ≤ batch) :
    ∀ (n : Nat) (st : StreamSt) (acc : List (Nat × Nat)), SInv nshards keysOf m now tti st acc →
      (liveOf m now tti (allKeys nshards keysOf)).length + 1 ≤ n + acc.length →
      (streamRun nshards batch keysOf m now tti st (List.replicate n noLock) acc).2 =
        (liveOf m now tti (allKeys nshards keysOf), true) := by
  intro n
  induction n with
  | zero => intro st acc h hn; have := h.length_le; omega
  | succ n ih =>
    intro st acc h hn
    have hs := streamPoll_spec nshards batch keysOf m now tti noLock acc st hall hb h
    have hnp := streamPoll_noLock nshards batch keysOf m now tti acc st hall hb h
    rw [List.replicate_succ, streamRun]
    generalize streamPoll nshards batch keysOf m now tti noLock st = r at hs hnp
    obtain ⟨st', p⟩ := r
    cases p with
    | item k v =>
      apply ih st' _ hs
      simp only [List.length_append, List.length_singleton]; omega
    | pending => exact absurd rfl hnp
    | done => dsimp only [PollPost] at hs; dsimp only; rw [hs.2]

/-- THE STREAM WITH ARBITRARY PENDING / RESUME POINTS.  Poll under any list of lock situations
    (each poll may find any set of shards locked by others, so refills get parked and resumed at
    arbitrary points, on the first refill, on a middle shard or on the last one), then poll with no
    lock held once per live entry plus one: the stream ends and has handed out exactly the live
    entries of all shards in cursor order — what the uncontended cursor yields. -/
theorem streamRun_exact (nshards batch : Nat) (keysOf : Nat → List Nat) (m : List (Nat × Entry)) (now : Nat)
    (tti : Option Nat) (hall : (allKeys nshards keysOf).length ≤ m.length) (hb : 1 ≤ batch)
    (locks : List (Nat → Bool)) (n : Nat) (hn : (liveOf m now tti (allKeys nshards keysOf)).length + 1 ≤ n) :
    (streamRun nshards batch keysOf m now tti {} (locks ++ List.replicate n noLock) []).2 =
      (liveOf m now tti (allKeys nshards keysOf), true) := by
  rw [streamRun_append]
  have h := streamRun_spec nshards batch keysOf m now tti hall hb locks {} [] (SInv_init ..)
  split
  · next he =>
    have := h.2 he
    generalize streamRun nshards batch keysOf m now tti {} locks [] = r at this he
    obtain ⟨st, items, e⟩ := r
    dsimp only at this he
    rw [this, he]
  · exact streamRun_noLock nshards batch keysOf m now tti hall hb n _ _ h.1 (by omega)

end Fv.Cache.C17L
