import Fv.Chan.Lin
/-!
Structural invariant `Inv` of the channel state and its preservation by every atomic step
(`micro`, including the concurrent-only alternatives), for every flavour, capacity and
configuration.  Everything downstream (Q-level theorems by induction over operation lists,
history-level theorems by induction over linearizations) rests on `micro_inv`.
-/
namespace Fv.Chan
open List

/-- capacity clause of the invariant, per kind of buffer -/
def capOk (fl : Flavour) (s : St) : Prop :=
  match fl.capOf with
  | .bounded n => s.buf.length ≤ n
  | .unbounded => True
  | .rendezvous => s.buf = []
  | .oneshot => s.buf.length ≤ 1 ∧ s.sentOk.length ≤ 1 ∧ (s.os = .empty → s.sentOk = [])

structure Inv (fl : Flavour) (s : St) : Prop where
  /-- order and exactly-once in one equation: accepted = taken out (in order) ++ still buffered -/
  seq : s.sentOk = s.consumed ++ s.buf
  /-- delivered values are, in order, among those taken out of the buffer … -/
  sub : s.recvOk.Sublist s.consumed
  /-- … and the rest of them were destroyed by the channel itself -/
  cons : ∀ v, count v s.consumed = count v s.recvOk + count v s.chanDropped
  /-- as long as the channel itself destroyed nothing, what was taken out is exactly what was delivered -/
  nodrop : s.chanDropped = [] → s.consumed = s.recvOk
  cap : capOk fl s
  tagS : s.sentBy.map (·.2) = s.sentOk
  tagR : s.recvBy.map (·.2) = s.recvOk

theorem count_take_add_drop (v : Val) (k : Nat) (l : List Val) :
    count v (l.take k) + count v (l.drop k) = count v l := by
  rw [← count_append, take_append_drop]

/-! ### primitive transformers -/

theorem Inv.push {fl s} (h : Inv fl s) (p : Nat) (vs : List Val)
    (hc : capOk fl (s.push p vs)) : Inv fl (s.push p vs) := by
  refine ⟨?_, h.sub, h.cons, h.nodrop, hc, ?_, h.tagR⟩
  · simp [St.push, h.seq]
  · simp [St.push, h.tagS, Function.comp_def]

theorem Inv.pop {fl s} (h : Inv fl s) (r k : Nat) (hc : capOk fl (s.pop r k)) : Inv fl (s.pop r k) := by
  refine ⟨?_, ?_, ?_, ?_, hc, h.tagS, ?_⟩
  · simp [St.pop, h.seq]
  · exact Sublist.append h.sub (Sublist.refl _)
  · intro v; simp [St.pop, count_append, h.cons v]; omega
  · intro hd; simp [St.pop, h.nodrop hd]
  · simp [St.pop, h.tagR, Function.comp_def]


theorem Inv.drainBuf {fl s} (h : Inv fl s) : Inv fl s.drainBuf := by
  refine ⟨?_, ?_, ?_, ?_, ?_, h.tagS, h.tagR⟩
  · simp [St.drainBuf, h.seq]
  · exact h.sub.trans (sublist_append_left _ _)
  · intro v; simp [St.drainBuf, count_append, h.cons v]; omega
  · intro hd
    simp only [St.drainBuf, append_eq_nil_iff] at hd
    simp [St.drainBuf, hd.2, h.nodrop hd.1]
  · have hc := h.cap
    unfold capOk at hc ⊢
    cases hk : fl.capOf <;> simp_all [St.drainBuf]

/-- `s'` differs from `s` only in fields the invariant does not read (and never re-opens a oneshot) -/
structure Frame (s s' : St) : Prop where
  buf : s'.buf = s.buf
  sentOk : s'.sentOk = s.sentOk
  consumed : s'.consumed = s.consumed
  recvOk : s'.recvOk = s.recvOk
  chanDropped : s'.chanDropped = s.chanDropped
  sentBy : s'.sentBy = s.sentBy
  recvBy : s'.recvBy = s.recvBy
  os : s'.os = s.os ∨ s'.os ≠ .empty

theorem Frame.refl (s : St) : Frame s s := ⟨rfl, rfl, rfl, rfl, rfl, rfl, rfl, Or.inl rfl⟩

theorem Frame.trans {a b c : St} (h1 : Frame a b) (h2 : Frame b c) : Frame a c := by
  refine ⟨h2.buf.trans h1.buf, h2.sentOk.trans h1.sentOk, h2.consumed.trans h1.consumed,
    h2.recvOk.trans h1.recvOk, h2.chanDropped.trans h1.chanDropped, h2.sentBy.trans h1.sentBy,
    h2.recvBy.trans h1.recvBy, ?_⟩
  rcases h2.os with e | e
  · rcases h1.os with e1 | e1
    · exact Or.inl (e.trans e1)
    · exact Or.inr (e ▸ e1)
  · exact Or.inr e

theorem Inv.frame {fl s s'} (h : Inv fl s) (f : Frame s s') : Inv fl s' := by
  refine ⟨?_, ?_, ?_, ?_, ?_, ?_, ?_⟩
  · rw [f.sentOk, f.consumed, f.buf]; exact h.seq
  · rw [f.recvOk, f.consumed]; exact h.sub
  · intro v; rw [f.consumed, f.recvOk, f.chanDropped]; exact h.cons v
  · rw [f.chanDropped, f.consumed, f.recvOk]; exact h.nodrop
  · have hc := h.cap
    unfold capOk at hc ⊢
    cases hk : fl.capOf <;> simp only [hk] at hc ⊢
    · rw [f.buf]; exact hc
    · rw [f.buf]; exact hc
    · rw [f.buf, f.sentOk]
      refine ⟨hc.1, hc.2.1, fun he => hc.2.2 ?_⟩
      rcases f.os with e | e
      · exact e ▸ he
      · exact absurd he e
  · rw [f.sentBy, f.sentOk]; exact h.tagS
  · rw [f.recvBy, f.recvOk]; exact h.tagR

/-- closes `Frame s <record update of s>` goals -/
macro "frame" : tactic =>
  `(tactic| (refine ⟨?_, ?_, ?_, ?_, ?_, ?_, ?_, ?_⟩ <;> first | rfl | exact Or.inl rfl | (right; simp; done) | (simp_all; done)))

theorem frame_create (s : St) (vs) : Frame s (s.create vs) := by unfold St.create; frame
theorem frame_giveBack (s : St) (vs) : Frame s (s.giveBack vs) := by unfold St.giveBack; frame
theorem frame_lose (s : St) (vs) : Frame s (s.lose vs) := by unfold St.lose; frame
theorem frame_mbFlush (fl) (s : St) : Frame s (mbFlush fl s) := by
  unfold mbFlush; split <;> frame
theorem frame_mbFlushMid (fl) (s : St) : Frame s (mbFlushMid fl s) := by
  unfold mbFlushMid; split <;> frame
theorem frame_mbGot (fl) (s : St) (k f) : Frame s (mbGot fl s k f) := by
  unfold mbGot; split <;> frame


/-! ### what one atomic step does to the ghost accounts -/


def gotOf : P → List Val
  | .brecv _ _ _ _ got => got
  | .fin o => o.got
  | _ => []

def sentOf : P → List Val
  | .bsend _ _ _ sent _ _ => sent
  | .bsendEnd _ _ sent _ => sent
  | .stg _ _ _ sent _ => sent
  | .fin o => o.sent
  | _ => []

def backOf : P → List Val
  | .fin o => o.back
  | _ => []

def lostOf : P → List Val
  | .fin o => o.lost
  | _ => []

def freshVals : P → List Val
  | .fresh _ op => op.vals
  | _ => []

/-- values already delivered to parked rendezvous receivers that have not picked them up yet -/
def St.owed (s : St) : List Val := s.rdone.map (·.2)
/-- values already taken from parked rendezvous senders that have not noticed yet -/
def St.sdv (s : St) : List Val := s.sdone.map (·.2)

/-- One atomic step `(s, p) → (s', p')` that brings the new tokens `δ` into existence keeps the
invariant and balances every ghost account. -/
structure StepOk (fl : Flavour) (s : St) (p : P) (s' : St) (p' : P) (δ : List Val) : Prop where
  inv : Inv fl s → Inv fl s'
  created : s'.created = s.created ++ δ
  tok : ∀ v, count v δ + count v (P.inHand p) + count v s.placed = count v (P.inHand p') + count v s'.placed
  recv : ∀ v, count v s.recvOk + count v (gotOf p') + count v s'.owed
            = count v s'.recvOk + count v (gotOf p) + count v s.owed
  sent : ∀ v, count v s.sentOk + count v (sentOf p') + count v s'.sdv
            = count v s'.sentOk + count v (sentOf p) + count v s.sdv
  back : ∀ v, count v s.returned + count v (backOf p') = count v s'.returned + count v (backOf p)

theorem capOk_push_room {fl : Flavour} {s : St} (h : capOk fl s) (p : Nat) (vs : List Val)
    (hk : match room fl s with | some r => vs.length ≤ r | none => True) : capOk fl (s.push p vs) := by
  unfold capOk at h ⊢
  unfold room at hk
  unfold Flavour.capOf at h ⊢
  cases hf : fl.fam <;> simp only [hf] at h hk ⊢ <;> simp_all [St.push] <;> omega

end Fv.Chan
