import Fv.Lemmas.SyncRwInv3
/-!
Preservation of the basic `HybridRwLock` invariant, part 4: the wait-list invariant; assembly of
`Inv_step`, `Inv_init`, `Inv_reach`, and the corollaries `mutual_exclusion`, `reader_count`, `list_wf`.
-/
namespace Fv.Sync.RwLock
open Fv.Sync
variable {cfg : Cfg} {s s' : State} {t : Tid} {l : Lbl}

macro "wf_chain " hwf:ident : tactic => `(tactic| repeat' (first
  | exact $hwf
  | apply WaitList.WF.setLocked
  | apply WaitList.WF.setWaiter
  | apply WaitList.WF.setWoken
  | apply WaitList.WF.takeAndMark
  | apply WaitList.WF.unlink
  | apply WaitList.WF.linkBack
  | apply WaitList.WF.putNode))

section
-- keep the unifier from matching `X.WF` against `(?wl.setLocked ?b).WF` by structure eta
attribute [local irreducible] WaitList.setLocked WaitList.putNode WaitList.setWaiter WaitList.setWoken
  WaitList.takeAndMark WaitList.linkBack WaitList.unlink

set_option maxHeartbeats 16000000 in
theorem wf_step (hi : Inv s) (h : Step cfg s t l s') : s'.wl.WF := by
  have hWf := hi.wf
  have a1 := hi.syncCur t; have a2 := hi.asyncCur t; have a5 := hi.ffOk t
  have a3 := hi.syncLinked t; have a4 := hi.thrNode t
  have b2 := hi.phFresh t; have b3 := hi.phStarted t
  have c := hi.futNode
  unfold PFutNode at c
  clear hi
  step_cases h
  all_goals (try simp only [withPc, setTh])
  all_goals (wf_chain hWf)
  all_goals (clear hWf)
  all_goals (try norm_state)
  all_goals rg
end

theorem Inv_step (hi : Inv s) (h : Step cfg s t l s') : Inv s' := by
  obtain ⟨m1, m2⟩ := mx_step hi h
  obtain ⟨p1, p2, p3, p4⟩ := pure_local_step hi h
  obtain ⟨n1, n2, n3⟩ := thrNode_step hi h
  obtain ⟨t1, t2⟩ := tgt_step hi h
  obtain ⟨q0, q1, q2, q3, q4⟩ := ph_step hi h
  exact { wlHeld := m1, free := m2, svOk := p1, relHolds := relHolds_step hi h, ll := ll_step hi h,
          wf := wf_step hi h, syncCur := p2, asyncCur := p3, ffOk := p4, syncLinked := n1, thrWr := n2,
          thrNode := n3, nodeWoken := nodeWoken_step hi h, wnTgt := t1, wrTgt := t2,
          futNode := futNode_step hi h, futNodeWr := futNodeWr_step hi h, busy := busy_step hi h,
          futWr := q0, phFresh := q1, phStarted := q2, phNode := q3, futUnl := q4 }

theorem Inv_init (prog : Tid → List ROp) : Inv (init prog) := by
  constructor
  case wf => exact WaitList.WF.init
  all_goals
    simp [init, PWlHeld, PFree, PSvOk, PRelHolds, PLl, PSyncCur, PAsyncCur, PFfOk, PSyncLinked, PThrWr, PThrNode,
      PNodeWoken, PWnTgt, PWrTgt, PFutNode, PFutNodeWr, PBusy, PFutWr, PPhFresh, PPhStarted, PPhNode, PFutUnl,
      inLL, isCas, syncOnly, asyncOnly, slowL, futPc, futNodePc, futUnlPc]

/-- the basic invariant holds in every reachable state -/
theorem Inv_reach {s : State} (h : Reach cfg s) : Inv s := by
  refine ReachOf.inv Inv ?_ ?_ s h
  · rintro s ⟨prog, rfl⟩; exact Inv_init prog
  · intro s t l s' hi hm; exact Inv_step hi (step_of_mem hm)

/-- C10(a) for the rwlock: a write guard excludes every other guard (readers may coexist) -/
theorem mutual_exclusion {s : State} (hr : Reach cfg s) :
    ∀ h ∈ s.holders, h.2 = true → s.holders = [h] := by
  have hi := Inv_reach hr
  intro h hm ht
  cases hl : s.word.wl
  · have := (hi.free hl).1 h hm
    rw [ht] at this; cases this
  · obtain ⟨⟨u, hu⟩, -⟩ := hi.wlHeld hl
    rw [hu] at hm ⊢
    simp at hm
    rw [hm]

/-- … and the reader count of the state word is the number of read guards -/
theorem reader_count {s : State} (hr : Reach cfg s) (hl : s.word.wl = false) :
    (∀ h ∈ s.holders, h.2 = false) ∧ s.holders.length = s.word.readers :=
  (Inv_reach hr).free hl

/-- C10(d) for the rwlock: the wait-list invariant -/
theorem list_wf {s : State} (hr : Reach cfg s) : s.wl.WF := (Inv_reach hr).wf

/-! ### non-vacuity: reachable states with a write guard / with two read guards -/

def progEx : Tid → List ROp := fun u => if u = 0 then [.write, .unwrite, .read] else if u = 1 then [.read] else []

/-- thread 0 takes the write lock on the fast path -/
def schedW : List (Tid × Nat) := [(0,0),(0,0),(0,0)]
/-- … releases it, then both threads take a read lock -/
def schedRR : List (Tid × Nat) := schedW ++ [(0,0),(0,0),(0,0),(0,0),(0,0),(0,0),(0,0),(1,0),(1,0),(1,0)]

theorem exec_some {sched : List (Tid × Nat)} {α : Type} {g : State → α} {a : α}
    (h : ((exec {} (init progEx) sched).map g) = some a) : ∃ s, Reach {} s ∧ g s = a := by
  cases he : exec {} (init progEx) sched with
  | none => rw [he] at h; cases h
  | some s =>
    rw [he] at h
    simp only [Option.map_some, Option.some.injEq] at h
    exact ⟨s, execOf_reach _ _ _ (ReachOf.init ⟨progEx, rfl⟩) he, h⟩

example : ∃ s, Reach {} s ∧ (s.holders, s.word.wl) = ([(0, true)], true) :=
  exec_some (sched := schedW) (g := fun s => (s.holders, s.word.wl)) (by decide)

example : ∃ s, Reach {} s ∧ (s.holders, s.word.wl, s.word.readers) = ([(1, false), (0, false)], false, 2) :=
  exec_some (sched := schedRR) (g := fun s => (s.holders, s.word.wl, s.word.readers)) (by decide)

end Fv.Sync.RwLock
