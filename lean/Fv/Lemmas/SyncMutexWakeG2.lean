import Fv.Lemmas.SyncMutexWakeG
/-!
Wake invariant of the mutex model: `PM2` (HAS_QUEUED vs. queue) and `PW1` (the registered handle
of a queued node wakes its owner).
-/
namespace Fv.Sync.Mutex
open Fv.Sync
variable {cfg : Cfg} {s s' : State} {t : Tid} {l : Lbl}

set_option maxHeartbeats 8000000 in
theorem step_qFetchOr (h : Step cfg s t l s') (hp : (s.th t).pc = .qFetchOr) : s'.word.hq = true := by
  cases h <;> simp_all [withPc, setTh]

theorem m2_step (hi : Inv s) (hw : WInv s) (h : Step cfg s t l s') : PM2 s' := by
  intro hq'
  have ho := step_th_other h
  have old : s.word.hq = false → s'.wl.queue = s.wl.queue ∨ True → 
      s'.wl.queue = [] ∨ ∃ u, (s'.th u).pc = .qFetchOr ∧ s'.wl.queue = [me u (s'.th u)] := by
    intro hq _
    rcases hw.m2 hq with he | ⟨u, hu, hqu⟩
    · rcases step_queue h with hq1 | ⟨-, hp2, hme, hq2⟩ | ⟨hq3, -⟩
      · left; rw [hq1, he]
      · right; exact ⟨t, hp2, by rw [hq2, he, hme]; rfl⟩
      · left; rw [hq3, he]; rfl
    · by_cases hut : u = t
      · subst hut
        have := step_qFetchOr h hu
        rw [this] at hq'; cases hq'
      · right
        refine ⟨u, by rw [ho u hut]; exact hu, ?_⟩
        rw [ho u hut, queue_frozen hi h hut (by rw [hu]; rfl)]; exact hqu
  rcases step_hq h with h1 | h1 | ⟨-, hlen, hq2, -⟩
  · exact old (by rw [← h1]; exact hq') (Or.inr trivial)
  · rw [h1] at hq'; cases hq'
  · left
    rw [hq2]
    have := hi.wf.len
    rw [hlen] at this
    exact List.length_eq_zero_iff.1 this.symm

set_option maxHeartbeats 32000000 in
theorem w1_thr (hi : Inv s) (hw : WInv s) (h : Step cfg s t l s') :
    ∀ u w, (s'.wl.node (.thr u)).linked = true → (s'.wl.node (.thr u)).waiter = some w → w = .thread u := by
  intro u w
  have a1 := hi.syncCur t; have a2 := hi.asyncCur t; have a5 := hi.ffOk t
  have b2 := hw.qw t
  have c : (s.wl.node (.thr u)).linked = true → (s.wl.node (.thr u)).waiter = some w → w = .thread u := by
    intro h1 h2; have := hw.w1 (.thr u) w h1 h2
    cases w <;> simp_all [Targets]
  clear hi hw
  step_cases h
  all_goals (try simp only [myWaiter] at *)
  all_goals (try norm_state)
  all_goals (first | exact c | wg)

set_option maxHeartbeats 32000000 in
theorem w1_fut (hi : Inv s) (hw : WInv s) (h : Step cfg s t l s') :
    ∀ f w, (s'.wl.node (.fut f)).linked = true → (s'.wl.node (.fut f)).waiter = some w →
      Targets s' w (.fut f) := by
  intro f w
  have a1 := hi.syncCur t; have a2 := hi.asyncCur t; have a5 := hi.ffOk t
  have b0 := hw.boc t
  have b2 := hw.qw t
  have b3 := hi.futNode f
  have b4 := hi.phNode t; have b5 := hi.futUnl t; have b6 := hi.phFresh t; have b7 := hi.phStarted t
  have c := hw.w1 (.fut f) w
  clear hi hw
  cases w
  all_goals (unfold Targets at c ⊢; simp only at c ⊢)
  all_goals step_cases h
  all_goals (try simp only [myWaiter] at *)
  all_goals (try norm_state)
  all_goals (first | exact c | wg)


theorem w1_step (hi : Inv s) (hw : WInv s) (h : Step cfg s t l s') : PW1 s' := by
  intro n w hl hwt
  cases n with
  | thr u =>
    have := w1_thr hi hw h u w hl hwt
    subst this; simp [Targets]
  | fut f => exact w1_fut hi hw h f w hl hwt

end Fv.Sync.Mutex
