import Fv.Lemmas.OneshotBBase2
/-! Preservation of `Cnt` (`sender_count` = number of sender handles that have not decremented it; (c3):
EMPTY ∧ count 0 ⇒ the closer is in flight) by every step of the step-level oneshot model. -/
namespace Fv.Chan.OneshotB

attribute [local grind cases] Ag

/-- a sender in the body of `send` has not decremented: `sender_count ≥ 1` while a writer exists -/
theorem writer_counts {s : State} (hJ2 : J2 s) (hI2 : I2 s) (hC5 : C5 s) (hc : s.scount = cntF s.dec s.nextH) :
    ∀ i, s.writer = some i → 1 ≤ s.scount := by
  intro i hi
  have hw := hI2.wrU i hi
  have hd : s.dec i = false := hC5.bodyDec (.S i) (by simp only [inW] at hw; simp only [inBody]; grind) (by simp only [inW] at hw; grind)
  have hlt : i < s.nextH := by
    apply Nat.lt_of_not_le
    intro hle
    have := hJ2.freshM i hle
    simp only [inW] at hw; grind
  rw [hc]; exact cntF_pos _ _ _ hlt hd

theorem fsub_cnt {s : State} {a : Ag} (hJ2 : J2 s) (hC5 : C5 s) (hm : (s.loc a).m = .dcFsub) :
    cntF (updN s.dec a.idx true) s.nextH + 1 = cntF s.dec s.nextH := by
  obtain ⟨hS, hd, _⟩ := hC5.fsubDec a hm
  cases a with
  | R => simp [Ag.isS] at hS
  | S i =>
    have hlt : i < s.nextH := by
      apply Nat.lt_of_not_le
      intro hle
      have := hJ2.freshM i hle
      rw [hm] at this; cases this
    exact cntF_set _ _ _ hlt hd

theorem clone_cnt {s : State} (hC5 : C5 s) : cntF s.dec (s.nextH + 1) = cntF s.dec s.nextH + 1 := by
  simp [cntF, hC5.freshD s.nextH (Nat.le_refl _)]

set_option maxHeartbeats 4000000 in
theorem cnt_send {s s' : State} {a : Ag} (hJ1 : J1 s) (hJ2 : J2 s) (hI2 : I2 s) (hC5 : C5 s) (hi : Cnt s) (h : stepSend s a = some s') : Cnt s' := by
  have hw := writer_counts hJ2 hI2 hC5 hi.cntEq
  have hF := @fsub_cnt s a hJ2 hC5
  have hP := clone_cnt hC5
  obtain ⟨kSend, bodyK⟩ := hJ1
  obtain ⟨wrS, wrU, stW⟩ := hI2
  obtain ⟨cntEq, c3⟩ := hi
  clear hJ2 hC5
  os_split h [stepSend]
  all_goals (refine ⟨?_, ?_⟩ <;> first | (dsimp only; assumption) | (dsimp only; have := hF (by assumption); omega) | (dsimp only; omega) | os_close2 a)

set_option maxHeartbeats 4000000 in
theorem cnt_wk {s s' : State} {a : Ag} (hJ1 : J1 s) (hJ2 : J2 s) (hI2 : I2 s) (hC5 : C5 s) (hi : Cnt s) (h : stepWk s a = some s') : Cnt s' := by
  have hw := writer_counts hJ2 hI2 hC5 hi.cntEq
  have hF := @fsub_cnt s a hJ2 hC5
  have hP := clone_cnt hC5
  obtain ⟨kSend, bodyK⟩ := hJ1
  obtain ⟨wrS, wrU, stW⟩ := hI2
  obtain ⟨cntEq, c3⟩ := hi
  clear hJ2 hC5
  os_split h [stepWk]
  all_goals (refine ⟨?_, ?_⟩ <;> first | (dsimp only; assumption) | (dsimp only; have := hF (by assumption); omega) | (dsimp only; omega) | os_close2 a)

set_option maxHeartbeats 4000000 in
theorem cnt_cl {s s' : State} {a : Ag} (hJ1 : J1 s) (hJ2 : J2 s) (hI2 : I2 s) (hC5 : C5 s) (hi : Cnt s) (h : stepCl s a = some s') : Cnt s' := by
  have hw := writer_counts hJ2 hI2 hC5 hi.cntEq
  have hF := @fsub_cnt s a hJ2 hC5
  have hP := clone_cnt hC5
  obtain ⟨kSend, bodyK⟩ := hJ1
  obtain ⟨wrS, wrU, stW⟩ := hI2
  obtain ⟨cntEq, c3⟩ := hi
  clear hJ2 hC5
  os_split h [stepCl]
  all_goals (refine ⟨?_, ?_⟩ <;> first | (dsimp only; assumption) | (dsimp only; have := hF (by assumption); omega) | (dsimp only; omega) | os_close2 a)

set_option maxHeartbeats 4000000 in
theorem cnt_x {s s' : State} {a : Ag} (hJ1 : J1 s) (hJ2 : J2 s) (hI2 : I2 s) (hC5 : C5 s) (hi : Cnt s) (h : stepX s a = some s') : Cnt s' := by
  have hw := writer_counts hJ2 hI2 hC5 hi.cntEq
  have hF := @fsub_cnt s a hJ2 hC5
  have hP := clone_cnt hC5
  obtain ⟨kSend, bodyK⟩ := hJ1
  obtain ⟨wrS, wrU, stW⟩ := hI2
  obtain ⟨cntEq, c3⟩ := hi
  clear hJ2 hC5
  os_split h [stepX]
  all_goals (refine ⟨?_, ?_⟩ <;> first | (dsimp only; assumption) | (dsimp only; have := hF (by assumption); omega) | (dsimp only; omega) | os_close2 a)

set_option maxHeartbeats 4000000 in
theorem cnt_pb {s s' : State} {a : Ag} (hJ1 : J1 s) (hJ2 : J2 s) (hI2 : I2 s) (hC5 : C5 s) (hi : Cnt s) (h : stepPb s a = some s') : Cnt s' := by
  have hw := writer_counts hJ2 hI2 hC5 hi.cntEq
  have hF := @fsub_cnt s a hJ2 hC5
  have hP := clone_cnt hC5
  obtain ⟨kSend, bodyK⟩ := hJ1
  obtain ⟨wrS, wrU, stW⟩ := hI2
  obtain ⟨cntEq, c3⟩ := hi
  clear hJ2 hC5
  os_split h [stepPb]
  all_goals (refine ⟨?_, ?_⟩ <;> first | (dsimp only; assumption) | (dsimp only; have := hF (by assumption); omega) | (dsimp only; omega) | os_close2 a)

set_option maxHeartbeats 4000000 in
theorem cnt_try {s s' : State} {a : Ag} (hJ1 : J1 s) (hJ2 : J2 s) (hI2 : I2 s) (hC5 : C5 s) (hi : Cnt s) (h : stepTry s a = some s') : Cnt s' := by
  have hw := writer_counts hJ2 hI2 hC5 hi.cntEq
  have hF := @fsub_cnt s a hJ2 hC5
  have hP := clone_cnt hC5
  obtain ⟨kSend, bodyK⟩ := hJ1
  obtain ⟨wrS, wrU, stW⟩ := hI2
  obtain ⟨cntEq, c3⟩ := hi
  clear hJ2 hC5
  os_split h [stepTry]
  all_goals (refine ⟨?_, ?_⟩ <;> first | (dsimp only; assumption) | (dsimp only; have := hF (by assumption); omega) | (dsimp only; omega) | os_close2 a)

set_option maxHeartbeats 4000000 in
theorem cnt_try2 {s s' : State} {a : Ag} (hJ1 : J1 s) (hJ2 : J2 s) (hI2 : I2 s) (hC5 : C5 s) (hi : Cnt s) (h : stepTry2 s a = some s') : Cnt s' := by
  have hw := writer_counts hJ2 hI2 hC5 hi.cntEq
  have hF := @fsub_cnt s a hJ2 hC5
  have hP := clone_cnt hC5
  obtain ⟨kSend, bodyK⟩ := hJ1
  obtain ⟨wrS, wrU, stW⟩ := hI2
  obtain ⟨cntEq, c3⟩ := hi
  clear hJ2 hC5
  os_split h [stepTry2]
  all_goals (refine ⟨?_, ?_⟩ <;> first | (dsimp only; assumption) | (dsimp only; have := hF (by assumption); omega) | (dsimp only; omega) | os_close2 a)

set_option maxHeartbeats 4000000 in
theorem cnt_poll {s s' : State} {a : Ag} (hJ1 : J1 s) (hJ2 : J2 s) (hI2 : I2 s) (hC5 : C5 s) (hi : Cnt s) (h : stepPoll s a = some s') : Cnt s' := by
  have hw := writer_counts hJ2 hI2 hC5 hi.cntEq
  have hF := @fsub_cnt s a hJ2 hC5
  have hP := clone_cnt hC5
  obtain ⟨kSend, bodyK⟩ := hJ1
  obtain ⟨wrS, wrU, stW⟩ := hI2
  obtain ⟨cntEq, c3⟩ := hi
  clear hJ2 hC5
  os_split h [stepPoll]
  all_goals (refine ⟨?_, ?_⟩ <;> first | (dsimp only; assumption) | (dsimp only; have := hF (by assumption); omega) | (dsimp only; omega) | os_close2 a)

set_option maxHeartbeats 4000000 in
theorem cnt_call {s s' : State} {a : Ag} (hJ1 : J1 s) (hJ2 : J2 s) (hI2 : I2 s) (hC5 : C5 s) (hi : Cnt s) (h : stepCall s a = some s') : Cnt s' := by
  have hw := writer_counts hJ2 hI2 hC5 hi.cntEq
  have hF := @fsub_cnt s a hJ2 hC5
  have hP := clone_cnt hC5
  obtain ⟨kSend, bodyK⟩ := hJ1
  obtain ⟨wrS, wrU, stW⟩ := hI2
  obtain ⟨cntEq, c3⟩ := hi
  clear hJ2 hC5
  cases a with
  | S i =>
    os_split h [stepCall]
    all_goals (refine ⟨?_, ?_⟩ <;> first | (dsimp only; assumption) | (dsimp only; omega) | os_close2 (Ag.S i))
  | R =>
    os_split h [stepCall]
    all_goals (refine ⟨?_, ?_⟩ <;> first | (dsimp only; assumption) | (dsimp only; omega) | os_close2 Ag.R)

set_option maxHeartbeats 4000000 in
theorem cnt_ret {s s' : State} {a : Ag} (hJ1 : J1 s) (hJ2 : J2 s) (hI2 : I2 s) (hC5 : C5 s) (hi : Cnt s) (h : stepRet s a = some s') : Cnt s' := by
  have hw := writer_counts hJ2 hI2 hC5 hi.cntEq
  have hF := @fsub_cnt s a hJ2 hC5
  have hP := clone_cnt hC5
  obtain ⟨kSend, bodyK⟩ := hJ1
  obtain ⟨wrS, wrU, stW⟩ := hI2
  obtain ⟨cntEq, c3⟩ := hi
  clear hJ2 hC5
  os_split h [stepRet]
  all_goals (refine ⟨?_, ?_⟩ <;> first | (dsimp only; assumption) | (dsimp only; have := hF (by assumption); omega) | (dsimp only; omega) | os_close2 a)

set_option maxHeartbeats 4000000 in
theorem cnt_spur {s s' : State} {a : Ag} (hJ1 : J1 s) (hJ2 : J2 s) (hI2 : I2 s) (hC5 : C5 s) (hi : Cnt s) (h : stepSpurious s a = some s') : Cnt s' := by
  have hw := writer_counts hJ2 hI2 hC5 hi.cntEq
  have hF := @fsub_cnt s a hJ2 hC5
  have hP := clone_cnt hC5
  obtain ⟨kSend, bodyK⟩ := hJ1
  obtain ⟨wrS, wrU, stW⟩ := hI2
  obtain ⟨cntEq, c3⟩ := hi
  clear hJ2 hC5
  os_split h [stepSpurious]
  all_goals (refine ⟨?_, ?_⟩ <;> first | (dsimp only; assumption) | (dsimp only; have := hF (by assumption); omega) | (dsimp only; omega) | os_close2 a)

end Fv.Chan.OneshotB
