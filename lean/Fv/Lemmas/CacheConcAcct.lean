import Fv.Lemmas.CacheConc
/-! Accounting invariant of the concurrent cache model:
`current_cost + (adjustments in-flight operations still owe) = Σ resident cost + drift`,
where the ghost `drift` changes in exactly two kinds of step (a `clear` overlapping in-flight
adjustments; a capacity pass whose policy-reported released cost differs from what it removed),
and `dirty = false → drift = 0`. -/
namespace Fv.Cache.Conc

structure InvA (c : Cfg) (s : State) : Prop where
  fresh : ∀ t, c.nThreads ≤ t → s.pc t = .idle
  domNodup : s.dom.Nodup
  domCover : ∀ k, s.map k ≠ none → k ∈ s.dom
  acct : s.cur + pendingAdj c s = residentCost s + s.drift
  clean : s.dirty = false → s.drift = 0

theorem invA_init (c : Cfg) : InvA c init := by
  refine ⟨by simp [init], by simp [init], by simp [init], ?_, by simp [init]⟩
  simp only [pendingAdj, residentCost, init]
  rw [sumF_zero (by intros; rfl)]; rfl

@[simp] theorem adj_idle  : adj (.idle ) = 0 := rfl
@[simp] theorem adj_done {r} : adj (.done r) = 0 := rfl
@[simp] theorem adj_rd {k p} : adj (.rd k p) = 0 := rfl
@[simp] theorem adj_ins {k v c e l} : adj (.ins k v c e l) = 0 := rfl
@[simp] theorem adj_insSub {k} {c} {old} : adj (.insSub k c old) = (c : Int) - old := rfl
@[simp] theorem adj_insEv {k} {c} : adj (.insEv k c) = (c : Int) := rfl
@[simp] theorem adj_insAdd {k} {c} : adj (.insAdd k c) = (c : Int) := rfl
@[simp] theorem adj_insMaint {k} : adj (.insMaint k) = 0 := rfl
@[simp] theorem adj_rm {k} : adj (.rm k) = 0 := rfl
@[simp] theorem adj_rmPol {k} {v} {c} {rid} : adj (.rmPol k v c rid) = - (c : Int) := rfl
@[simp] theorem adj_rmSub {k} {v} {c} {rid} : adj (.rmSub k v c rid) = - (c : Int) := rfl
@[simp] theorem adj_rmNote {k} {v} {rid} : adj (.rmNote k v rid) = 0 := rfl
@[simp] theorem adj_cmp {k} {d} {l} : adj (.cmp k d l) = 0 := rfl
@[simp] theorem adj_oi {k} {v} {c} : adj (.oi k v c) = 0 := rfl
@[simp] theorem adj_oiEv {k} {v} {c} : adj (.oiEv k v c) = (c : Int) := rfl
@[simp] theorem adj_oiAdd {k} {v} {c} : adj (.oiAdd k v c) = (c : Int) := rfl
@[simp] theorem adj_clr {a p} : adj (.clr a p) = 0 := rfl
@[simp] theorem adj_mLock {a} {b} {f} : adj (.mLock a b f) = 0 := rfl
@[simp] theorem adj_mDrain {m} {l} {a} : adj (.mDrain m l a) = 0 := rfl
@[simp] theorem adj_mAdmit {m} {ws} : adj (.mAdmit m ws) = 0 := rfl
@[simp] theorem adj_mVictim {m} {ws} {vs} {tot} {ns} : adj (.mVictim m ws vs tot ns) = - (tot : Int) := rfl
@[simp] theorem adj_mSub {m} {ws} {tot} {ns} : adj (.mSub m ws tot ns) = - (tot : Int) := rfl
@[simp] theorem adj_mNote {m} {ws} {ns} : adj (.mNote m ws ns) = 0 := rfl
@[simp] theorem adj_mTtl {m} : adj (.mTtl m) = 0 := rfl
@[simp] theorem adj_mTtlMap {m} {e} : adj (.mTtlMap m e) = 0 := rfl
@[simp] theorem adj_mTti {m} : adj (.mTti m) = 0 := rfl
@[simp] theorem adj_mCapLoad {m} : adj (.mCapLoad m) = 0 := rfl
@[simp] theorem adj_mCapEvict {m} {n} : adj (.mCapEvict m n) = 0 := rfl
@[simp] theorem adj_mCapMap {m} {v} {r} : adj (.mCapMap m v r) = 0 := rfl
@[simp] theorem adj_mCapSub {m} {r} : adj (.mCapSub m r) = - (r : Int) := rfl
@[simp] theorem adj_mUnlock {m} : adj (.mUnlock m) = 0 := rfl
@[simp] theorem adj_afterWrites (m : MCtx) : adj (afterWrites m) = 0 := by unfold afterWrites; split <;> rfl
@[simp] theorem adj_nextAdmit (m : MCtx) (ws) : adj (nextAdmit m ws) = 0 := by
  unfold nextAdmit; split <;> first | exact adj_afterWrites _ | rfl
@[simp] theorem adj_startDrain (m : MCtx) (l) : adj (startDrain m l) = 0 := by
  unfold startDrain; split <;> first | exact adj_nextAdmit _ _ | rfl
@[simp] theorem adj_afterSub (m : MCtx) (ws ns) : adj (afterSub m ws ns) = 0 := by
  unfold afterSub; split <;> first | exact adj_nextAdmit _ _ | rfl
@[simp] theorem adj_afterVictim (m : MCtx) (ws vs tot ns) : adj (afterVictim m ws vs tot ns) = - (tot : Int) := by
  unfold afterVictim; split <;> rfl
@[simp] theorem adj_startPC (c : Cfg) (n : Nat) (op : Op) : adj (startPC c n op) = 0 := by cases op <;> rfl

theorem pend_upd (n : Nat) (pc : Nat → PC) (t : Nat) (x : PC) (ht : t < n) :
    sumF (List.range n) (fun u => adj (upd pc t x u)) = sumF (List.range n) (fun u => adj (pc u)) - adj (pc t) + adj x := by
  have e : (fun u => adj (upd pc t x u)) = upd (fun u => adj (pc u)) t (adj x) := by
    funext u; simp only [upd]; split <;> rfl
  rw [e, sumF_upd_of_mem (nodup_range n) (by simp [ht])]

theorem addDom_nodup {d : List Nat} (k : Nat) (h : d.Nodup) : (addDom d k).Nodup := by
  unfold addDom; split
  · exact h
  · exact List.nodup_cons.mpr ⟨by assumption, h⟩

theorem mem_addDom {d : List Nat} {k j : Nat} : j ∈ addDom d k ↔ j = k ∨ j ∈ d := by
  unfold addDom; split
  · constructor
    · exact Or.inr
    · rintro (rfl | h) <;> assumption
  · simp

/-- resident-cost effect of a single-key map update (with the key added to the domain) -/
theorem res_upd (dom : List Nat) (m : Nat → Option Entry) (k : Nat) (e : Option Entry)
    (hn : dom.Nodup) (hc : ∀ j, m j ≠ none → j ∈ dom) :
    sumF (addDom dom k) (fun j => costAt (upd m k e j)) = sumF dom (fun j => costAt (m j)) - costAt (m k) + costAt e := by
  have e1 : (fun j => costAt (upd m k e j)) = upd (fun j => costAt (m j)) k (costAt e) := by
    funext j; simp only [upd]; split <;> rfl
  rw [e1]
  unfold addDom; split
  · rename_i hk; rw [sumF_upd_of_mem hn hk]
  · rename_i hk
    have : m k = none := by
      cases hmk : m k with
      | none => rfl
      | some x => exact absurd (hc k (by simp [hmk])) hk
    simp only [sumF_cons, upd_same]
    rw [sumF_upd_of_not_mem hk, this]; simp [costAt]; omega

theorem tlt {c : Cfg} {s : State} (hi : InvA c s) {t : Nat} (h : s.pc t ≠ .idle) : t < c.nThreads := by
  apply Classical.byContradiction; intro hn
  exact h (hi.fresh t (by omega))

/-- a step that changes (at most) `pc t`, `cur` and non-accounting fields -/
theorem invA_nomap {c : Cfg} {s s' : State} (hi : InvA c s) {t : Nat} (ht : t < c.nThreads) (x : PC)
    (hpc : s'.pc = upd s.pc t x) (hm : s'.map = s.map) (hd : s'.dom = s.dom)
    (hdr : s'.drift = s.drift) (hdi : s'.dirty = s.dirty)
    (hc : s'.cur + adj x = s.cur + adj (s.pc t)) : InvA c s' := by
  obtain ⟨h1, h2, h3, h4, h5⟩ := hi
  refine ⟨?_, by rw [hd]; exact h2, by rw [hm, hd]; exact h3, ?_, by rw [hdi, hdr]; exact h5⟩
  · intro u hu; rw [hpc, upd_other _ _ _ _ (by omega)]; exact h1 u hu
  · simp only [pendingAdj, residentCost] at *
    rw [hpc, pend_upd _ _ _ _ ht, hm, hd, hdr]; omega

/-- a step that updates the map at one key -/
theorem invA_upd1 {c : Cfg} {s s' : State} (hi : InvA c s) {t : Nat} (ht : t < c.nThreads) (x : PC)
    (hpc : s'.pc = upd s.pc t x) (k : Nat) (e : Option Entry) (hm : s'.map = upd s.map k e)
    (hd : s'.dom = addDom s.dom k)
    (hdr : s'.drift = s.drift) (hdi : s'.dirty = s.dirty)
    (hc : s'.cur + adj x + costAt (s.map k) = s.cur + adj (s.pc t) + costAt e) : InvA c s' := by
  obtain ⟨h1, h2, h3, h4, h5⟩ := hi
  refine ⟨?_, by rw [hd]; exact addDom_nodup k h2, ?_, ?_, by rw [hdi, hdr]; exact h5⟩
  · intro u hu; rw [hpc, upd_other _ _ _ _ (by omega)]; exact h1 u hu
  · intro j hj; rw [hd, mem_addDom]; rw [hm, upd_apply] at hj
    split at hj
    · left; assumption
    · right; exact h3 j hj
  · simp only [pendingAdj, residentCost] at *
    rw [hpc, pend_upd _ _ _ _ ht, hm, hd, hdr, res_upd _ _ _ _ h2 h3]; omega

theorem addDom_of_res {c : Cfg} {s : State} (hi : InvA c s) {k : Nat} {e : Entry} (h : s.map k = some e) :
    s.dom = addDom s.dom k := by
  have := hi.domCover k (by simp [h])
  simp [addDom, this]

/-- a step that removes a list of keys through `removeKeys` -/
theorem invA_removeKeys {c : Cfg} {s s' : State} (hi : InvA c s) {t : Nat} (ht : t < c.nThreads) (x : PC)
    (hpc : s'.pc = upd s.pc t x) (nsh sh : Nat) (ks : List Nat)
    (hm : s'.map = (removeKeys nsh sh s.map ks).1) (hd : s'.dom = s.dom)
    (hc : s'.cur + adj x + removedCost (removeKeys nsh sh s.map ks).2 + s.drift = s.cur + adj (s.pc t) + s'.drift)
    (hdi : s'.dirty = false → s'.drift = 0) : InvA c s' := by
  obtain ⟨h1, h2, h3, h4, h5⟩ := hi
  refine ⟨?_, by rw [hd]; exact h2, ?_, ?_, hdi⟩
  · intro u hu; rw [hpc, upd_other _ _ _ _ (by omega)]; exact h1 u hu
  · intro j hj; rw [hd]; apply h3; intro h0; apply hj; rw [hm]; exact removeKeys_none _ _ _ _ _ h0
  · simp only [pendingAdj, residentCost] at *
    rw [hpc, pend_upd _ _ _ _ ht, hm, hd, removeKeys_cost _ _ _ _ _ h2 h3]; omega

end Fv.Cache.Conc

namespace Fv.Cache.Conc

syntax "inva_close " ident ident ident : tactic
macro_rules | `(tactic| inva_close $hi $c $t) => `(tactic|
  first
  | exact $hi
  | (have ht : $t < Cfg.nThreads $c := by first | assumption | exact tlt $hi (by simp_all)
     first
     | (refine invA_nomap $hi ht _ rfl rfl rfl rfl rfl ?_
        simp_all
        done)
     | (refine invA_nomap $hi ht _ rfl rfl rfl rfl rfl ?_
        simp_all
        omega)
     | (refine invA_upd1 $hi ht _ rfl _ _ rfl ?_ rfl rfl ?_
        · first | rfl | exact addDom_of_res $hi (by assumption)
        · simp_all [costAt]
          try omega)))

syntax "inva_step " ident ident ident ident ident : tactic
macro_rules | `(tactic| inva_step $hi $h $f $c $t) => `(tactic|
  (unfold $f at $h:ident
   repeat' split at $h:ident
   all_goals (simp at $h:ident; try subst $h:ident)
   all_goals inva_close $hi $c $t))

theorem invA_clear {c : Cfg} {s s' : State} {t : Nat} (hi : InvA c s) (h : stepClear c s t = some s') : InvA c s' := by
  unfold stepClear at h
  split at h
  · rename_i acq pend hpc
    split at h
    case isFalse => simp at h
    simp at h; subst h
    have ht : t < c.nThreads := tlt hi (by simp_all)
    obtain ⟨h1, h2, h3, h4, h5⟩ := hi
    refine ⟨?_, h2, by simp, ?_, h5⟩
    · intro u hu; simp only []; rw [upd_other _ _ _ _ (by omega)]; exact h1 u hu
    · simp only [pendingAdj, residentCost] at *
      have z : sumF s.dom (fun _ => costAt (none : Option Entry)) = 0 := sumF_zero (by intros; rfl)
      rw [pend_upd _ _ _ _ ht, hpc, z]
      simp; omega
  · simp at h

theorem invA_ttlMap {c : Cfg} {s s' : State} {t : Nat} {sent : Bool} (hi : InvA c s)
    (h : stepTtlMap c s t sent = some s') : InvA c s' := by
  unfold stepTtlMap at h
  split at h
  · rename_i m expired hpc
    simp at h; subst h
    have ht : t < c.nThreads := tlt hi (by simp_all)
    refine invA_removeKeys hi ht _ rfl c.nShards m.sh expired rfl rfl ?_ hi.clean
    simp [hpc]
  · simp at h

theorem invA_ttiMap {c : Cfg} {s s' : State} {t : Nat} {vs : List Nat} {sent : Bool} (hi : InvA c s)
    (h : stepTtiMap c s t vs sent = some s') : InvA c s' := by
  unfold stepTtiMap at h
  split at h
  · rename_i m hpc
    have ht : t < c.nThreads := tlt hi (by simp_all)
    split at h
    · simp at h; subst h
      refine invA_nomap hi ht _ rfl rfl rfl rfl rfl ?_
      simp [hpc]
    · simp at h; subst h
      refine invA_removeKeys hi ht _ rfl c.nShards m.sh (expiredOf c s vs) rfl rfl ?_ hi.clean
      simp [hpc]
  · simp at h

theorem invA_capMap {c : Cfg} {s s' : State} {t : Nat} {sent : Bool} (hi : InvA c s)
    (h : stepCapMap c s t sent = some s') : InvA c s' := by
  unfold stepCapMap at h
  split at h
  · rename_i m victims released hpc
    simp at h; subst h
    have ht : t < c.nThreads := tlt hi (by simp_all)
    refine invA_removeKeys hi ht _ rfl c.nShards m.sh victims rfl rfl ?_ ?_
    · simp [hpc]; omega
    · intro hh; simp at hh
      have := hi.clean hh.1
      have e := hh.2
      simp only []; omega
  · simp at h

theorem invA_step {c : Cfg} {s s' : State} {t : Nat} {l : Label} (hi : InvA c s) (h : step c s t l = some s') :
    InvA c s' := by
  replace h := step_step0 h
  cases l <;> simp only [step0] at h
  case call op a => inva_step hi h stepCall c t
  case advance d => simp at h; subst h; exact ⟨hi.fresh, hi.domNodup, hi.domCover, hi.acct, hi.clean⟩
  case read => inva_step hi h stepRead c t
  case insMap => inva_step hi h stepInsMap c t
  case insSub => inva_step hi h stepInsSub c t
  case insEv => inva_step hi h stepInsEv c t
  case insAdd => inva_step hi h stepInsAdd c t
  case coopSkip => inva_step hi h stepCoopSkip c t
  case coopLock => inva_step hi h stepCoopLock c t
  case rmMap => inva_step hi h stepRmMap c t
  case rmPol => inva_step hi h stepRmPol c t
  case rmSub => inva_step hi h stepRmSub c t
  case rmNote sent => inva_step hi h stepRmNote c t
  case compute fail => inva_step hi h stepCompute c t
  case oiMap => inva_step hi h stepOiMap c t
  case oiEv => inva_step hi h stepOiEv c t
  case oiAdd => inva_step hi h stepOiAdd c t
  case clear => exact invA_clear hi h
  case clrAcq i => inva_step hi h stepClrAcq c t
  case clrGet i => inva_step hi h stepClrGet c t
  case mLock => inva_step hi h stepMLock c t
  case recv => inva_step hi h stepRecv c t
  case admit d => inva_step hi h stepAdmit c t
  case victim => inva_step hi h stepVictim c t
  case evSub => inva_step hi h stepEvSub c t
  case evNote sent => inva_step hi h stepEvNote c t
  case ttlAdvance e => inva_step hi h stepTtlAdvance c t
  case ttlMap sent => exact invA_ttlMap hi h
  case ttiMap vs sent => exact invA_ttiMap hi h
  case capLoad => inva_step hi h stepCapLoad c t
  case capEvict v r => inva_step hi h stepCapEvict c t
  case capMap sent => exact invA_capMap hi h
  case capSub => inva_step hi h stepCapSub c t
  case unlock => inva_step hi h stepUnlock c t

theorem invA_reach {c : Cfg} {s : State} (h : Reach c s) : InvA c s := by
  induction h with
  | init => exact invA_init c
  | step _ hs ih => exact invA_step ih hs

end Fv.Cache.Conc
