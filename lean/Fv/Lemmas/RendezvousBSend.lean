import Fv.Lemmas.RendezvousB
/-! Group `InvRS` of the rendezvous B-model (every reachable state): a send reports Ok only after its token was
handed over (`handed`), and an enqueued sender's slot holds exactly its own token. Generated boilerplate. -/
namespace Fv.Chan.RendezvousB
set_option linter.unusedVariables false

theorem recvIn_not_sendReg {p : PC} {r : Nat} (h : recvIn p = some r) : sendReg p = none := by
  cases p <;> simp_all [sendReg, recvIn]

structure InvRS (s : State) : Prop where
  ok1 : ∀ t v, s.pc t = .done (.sendOk v) → v ∈ s.handed
  ok2 : ∀ t a v, s.pc t = .wakeThen a (.sendOk v) → v ∈ s.handed
  reg_tok : ∀ t r, sendReg (s.pc t) = some r → s.slot r = none ∨ s.slot r = sendTok (s.pc t)
  reg_done : ∀ t r v, sendReg (s.pc t) = some r → sendTok (s.pc t) = some v → s.st r = .done → v ∈ s.handed

theorem invRS_init : InvRS init := by
  constructor <;> simp [init, sendReg]

attribute [local grind] recOf unregS sendReg sendTok recvIn
attribute [local grind =] upd_apply bump_apply List.Nodup.mem_erase_iff optL_mem
attribute [local grind →] List.mem_of_mem_erase unregS_recOf sendReg_recOf recvIn_recOf unregS_not_sendReg recvIn_not_sendReg
attribute [local grind cases] RS

theorem invRS_wakeThen {s : State} {t : Nat} {a : Nat} {res : Res} (hk : InvRK s) (hi : InvRS s) (hpc : s.pc t = .wakeThen a res) : InvRS (stepWakeThen s t a res) := by
  have hk_owner := hk.owner
  have hk_lt_sq := hk.lt_sq
  have hk_lt_rq := hk.lt_rq
  have hk_nd_sq := hk.nd_sq
  have hk_unreg_s := hk.unreg_s
  have hk_sq_owner := hk.sq_owner
  have hk_rq_owner := hk.rq_owner
  have hk_un_st_s := hk.un_st_s
  clear hk
  obtain ⟨h1, h2, h3, h4⟩ := hi
  simp only [stepWakeThen, giveTo, takeFrom, finishRecv]
  repeat' split
  all_goals rk_fin

theorem invRS_sLock {s : State} {t : Nat} {v : Nat} {r : Nat} (hk : InvRK s) (hi : InvRS s) (hpc : s.pc t = .sLock v r) : InvRS (stepSLock s t v r) := by
  have hk_owner := hk.owner
  have hk_lt_sq := hk.lt_sq
  have hk_lt_rq := hk.lt_rq
  have hk_nd_sq := hk.nd_sq
  have hk_unreg_s := hk.unreg_s
  have hk_sq_owner := hk.sq_owner
  have hk_rq_owner := hk.rq_owner
  have hk_un_st_s := hk.un_st_s
  clear hk
  obtain ⟨h1, h2, h3, h4⟩ := hi
  simp only [stepSLock, giveTo, takeFrom, finishRecv]
  repeat' split
  all_goals rk_fin

theorem invRS_sWait {s : State} {t : Nat} {v : Nat} {r : Nat} (hk : InvRK s) (hi : InvRS s) (hpc : s.pc t = .sWait v r) : InvRS (stepSWait s t v r) := by
  have hk_owner := hk.owner
  have hk_lt_sq := hk.lt_sq
  have hk_lt_rq := hk.lt_rq
  have hk_nd_sq := hk.nd_sq
  have hk_unreg_s := hk.unreg_s
  have hk_sq_owner := hk.sq_owner
  have hk_rq_owner := hk.rq_owner
  have hk_un_st_s := hk.un_st_s
  clear hk
  obtain ⟨h1, h2, h3, h4⟩ := hi
  simp only [stepSWait, giveTo, takeFrom, finishRecv]
  repeat' split
  all_goals rk_fin

theorem invRS_tsLock {s : State} {t : Nat} {v : Nat} (hk : InvRK s) (hi : InvRS s) (hpc : s.pc t = .tsLock v) : InvRS (stepTsLock s t v) := by
  have hk_owner := hk.owner
  have hk_lt_sq := hk.lt_sq
  have hk_lt_rq := hk.lt_rq
  have hk_nd_sq := hk.nd_sq
  have hk_unreg_s := hk.unreg_s
  have hk_sq_owner := hk.sq_owner
  have hk_rq_owner := hk.rq_owner
  have hk_un_st_s := hk.un_st_s
  clear hk
  obtain ⟨h1, h2, h3, h4⟩ := hi
  simp only [stepTsLock, giveTo, takeFrom, finishRecv]
  repeat' split
  all_goals rk_fin

theorem invRS_rLock {s : State} {t : Nat} {r : Nat} (hk : InvRK s) (hi : InvRS s) (hpc : s.pc t = .rLock r) : InvRS (stepRLock s t r) := by
  have hk_owner := hk.owner
  have hk_lt_sq := hk.lt_sq
  have hk_lt_rq := hk.lt_rq
  have hk_nd_sq := hk.nd_sq
  have hk_unreg_s := hk.unreg_s
  have hk_sq_owner := hk.sq_owner
  have hk_rq_owner := hk.rq_owner
  have hk_un_st_s := hk.un_st_s
  clear hk
  obtain ⟨h1, h2, h3, h4⟩ := hi
  simp only [stepRLock, giveTo, takeFrom, finishRecv]
  repeat' split
  all_goals rk_fin

theorem invRS_rWait {s : State} {t : Nat} {r : Nat} (hk : InvRK s) (hi : InvRS s) (hpc : s.pc t = .rWait r) : InvRS (stepRWait s t r) := by
  have hk_owner := hk.owner
  have hk_lt_sq := hk.lt_sq
  have hk_lt_rq := hk.lt_rq
  have hk_nd_sq := hk.nd_sq
  have hk_unreg_s := hk.unreg_s
  have hk_sq_owner := hk.sq_owner
  have hk_rq_owner := hk.rq_owner
  have hk_un_st_s := hk.un_st_s
  clear hk
  obtain ⟨h1, h2, h3, h4⟩ := hi
  simp only [stepRWait, giveTo, takeFrom, finishRecv]
  repeat' split
  all_goals rk_fin

theorem invRS_trLock {s : State} {t : Nat} (hk : InvRK s) (hi : InvRS s) (hpc : s.pc t = .trLock) : InvRS (stepTrLock s t ) := by
  have hk_owner := hk.owner
  have hk_lt_sq := hk.lt_sq
  have hk_lt_rq := hk.lt_rq
  have hk_nd_sq := hk.nd_sq
  have hk_unreg_s := hk.unreg_s
  have hk_sq_owner := hk.sq_owner
  have hk_rq_owner := hk.rq_owner
  have hk_un_st_s := hk.un_st_s
  clear hk
  obtain ⟨h1, h2, h3, h4⟩ := hi
  simp only [stepTrLock, giveTo, takeFrom, finishRecv]
  repeat' split
  all_goals rk_fin

theorem invRS_toLock {s : State} {t : Nat} {r : Nat} (hk : InvRK s) (hi : InvRS s) (hpc : s.pc t = .toLock r) : InvRS (stepToLock s t r) := by
  have hk_owner := hk.owner
  have hk_lt_sq := hk.lt_sq
  have hk_lt_rq := hk.lt_rq
  have hk_nd_sq := hk.nd_sq
  have hk_unreg_s := hk.unreg_s
  have hk_sq_owner := hk.sq_owner
  have hk_rq_owner := hk.rq_owner
  have hk_un_st_s := hk.un_st_s
  clear hk
  obtain ⟨h1, h2, h3, h4⟩ := hi
  simp only [stepToLock, giveTo, takeFrom, finishRecv]
  repeat' split
  all_goals rk_fin

theorem invRS_toLoad {s : State} {t : Nat} {r : Nat} (hk : InvRK s) (hi : InvRS s) (hpc : s.pc t = .toLoad r) : InvRS (stepToLoad s t r) := by
  have hk_owner := hk.owner
  have hk_lt_sq := hk.lt_sq
  have hk_lt_rq := hk.lt_rq
  have hk_nd_sq := hk.nd_sq
  have hk_unreg_s := hk.unreg_s
  have hk_sq_owner := hk.sq_owner
  have hk_rq_owner := hk.rq_owner
  have hk_un_st_s := hk.un_st_s
  clear hk
  obtain ⟨h1, h2, h3, h4⟩ := hi
  simp only [stepToLoad, giveTo, takeFrom, finishRecv]
  repeat' split
  all_goals rk_fin

theorem invRS_toCas {s : State} {t : Nat} {r : Nat} (hk : InvRK s) (hi : InvRS s) (hpc : s.pc t = .toCas r) : InvRS (stepToCas s t r) := by
  have hk_owner := hk.owner
  have hk_lt_sq := hk.lt_sq
  have hk_lt_rq := hk.lt_rq
  have hk_nd_sq := hk.nd_sq
  have hk_unreg_s := hk.unreg_s
  have hk_sq_owner := hk.sq_owner
  have hk_rq_owner := hk.rq_owner
  have hk_un_st_s := hk.un_st_s
  clear hk
  obtain ⟨h1, h2, h3, h4⟩ := hi
  simp only [stepToCas, giveTo, takeFrom, finishRecv]
  repeat' split
  all_goals rk_fin

theorem invRS_toUnl {s : State} {t : Nat} {r : Nat} (hk : InvRK s) (hi : InvRS s) (hpc : s.pc t = .toUnl r) : InvRS (stepToUnl s t r) := by
  have hk_owner := hk.owner
  have hk_lt_sq := hk.lt_sq
  have hk_lt_rq := hk.lt_rq
  have hk_nd_sq := hk.nd_sq
  have hk_unreg_s := hk.unreg_s
  have hk_sq_owner := hk.sq_owner
  have hk_rq_owner := hk.rq_owner
  have hk_un_st_s := hk.un_st_s
  clear hk
  obtain ⟨h1, h2, h3, h4⟩ := hi
  simp only [stepToUnl, giveTo, takeFrom, finishRecv]
  repeat' split
  all_goals rk_fin

theorem invRS_toFin {s : State} {t : Nat} {r : Nat} (hk : InvRK s) (hi : InvRS s) (hpc : s.pc t = .toFin r) : InvRS (stepToFin s t r) := by
  have hk_owner := hk.owner
  have hk_lt_sq := hk.lt_sq
  have hk_lt_rq := hk.lt_rq
  have hk_nd_sq := hk.nd_sq
  have hk_unreg_s := hk.unreg_s
  have hk_sq_owner := hk.sq_owner
  have hk_rq_owner := hk.rq_owner
  have hk_un_st_s := hk.un_st_s
  clear hk
  obtain ⟨h1, h2, h3, h4⟩ := hi
  simp only [stepToFin, giveTo, takeFrom, finishRecv]
  repeat' split
  all_goals rk_fin

theorem invRS_asLock {s : State} {t : Nat} {v : Nat} {r : Nat} (hk : InvRK s) (hi : InvRS s) (hpc : s.pc t = .asLock v r) : InvRS (stepAsLock s t v r) := by
  have hk_owner := hk.owner
  have hk_lt_sq := hk.lt_sq
  have hk_lt_rq := hk.lt_rq
  have hk_nd_sq := hk.nd_sq
  have hk_unreg_s := hk.unreg_s
  have hk_sq_owner := hk.sq_owner
  have hk_rq_owner := hk.rq_owner
  have hk_un_st_s := hk.un_st_s
  clear hk
  obtain ⟨h1, h2, h3, h4⟩ := hi
  simp only [stepAsLock, giveTo, takeFrom, finishRecv]
  repeat' split
  all_goals rk_fin

theorem invRS_asRef {s : State} {t : Nat} {v : Nat} {r : Nat} (hk : InvRK s) (hi : InvRS s) (hpc : s.pc t = .asRef v r) : InvRS (stepAsRef s t v r) := by
  have hk_owner := hk.owner
  have hk_lt_sq := hk.lt_sq
  have hk_lt_rq := hk.lt_rq
  have hk_nd_sq := hk.nd_sq
  have hk_unreg_s := hk.unreg_s
  have hk_sq_owner := hk.sq_owner
  have hk_rq_owner := hk.rq_owner
  have hk_un_st_s := hk.un_st_s
  clear hk
  obtain ⟨h1, h2, h3, h4⟩ := hi
  simp only [stepAsRef, giveTo, takeFrom, finishRecv]
  repeat' split
  all_goals rk_fin

theorem invRS_asFin {s : State} {t : Nat} {v : Nat} {r : Nat} (hk : InvRK s) (hi : InvRS s) (hpc : s.pc t = .asFin v r) : InvRS (stepAsFin s t v r) := by
  have hk_owner := hk.owner
  have hk_lt_sq := hk.lt_sq
  have hk_lt_rq := hk.lt_rq
  have hk_nd_sq := hk.nd_sq
  have hk_unreg_s := hk.unreg_s
  have hk_sq_owner := hk.sq_owner
  have hk_rq_owner := hk.rq_owner
  have hk_un_st_s := hk.un_st_s
  clear hk
  obtain ⟨h1, h2, h3, h4⟩ := hi
  simp only [stepAsFin, giveTo, takeFrom, finishRecv]
  repeat' split
  all_goals rk_fin

theorem invRS_fdUnlS {s : State} {t : Nat} {v : Nat} {r : Nat} (hk : InvRK s) (hi : InvRS s) (hpc : s.pc t = .fdUnlS v r) : InvRS (stepFdUnlS s t v r) := by
  have hk_owner := hk.owner
  have hk_lt_sq := hk.lt_sq
  have hk_lt_rq := hk.lt_rq
  have hk_nd_sq := hk.nd_sq
  have hk_unreg_s := hk.unreg_s
  have hk_sq_owner := hk.sq_owner
  have hk_rq_owner := hk.rq_owner
  have hk_un_st_s := hk.un_st_s
  clear hk
  obtain ⟨h1, h2, h3, h4⟩ := hi
  simp only [stepFdUnlS, giveTo, takeFrom, finishRecv]
  repeat' split
  all_goals rk_fin

theorem invRS_arLock {s : State} {t : Nat} {r : Nat} (hk : InvRK s) (hi : InvRS s) (hpc : s.pc t = .arLock r) : InvRS (stepArLock s t r) := by
  have hk_owner := hk.owner
  have hk_lt_sq := hk.lt_sq
  have hk_lt_rq := hk.lt_rq
  have hk_nd_sq := hk.nd_sq
  have hk_unreg_s := hk.unreg_s
  have hk_sq_owner := hk.sq_owner
  have hk_rq_owner := hk.rq_owner
  have hk_un_st_s := hk.un_st_s
  clear hk
  obtain ⟨h1, h2, h3, h4⟩ := hi
  simp only [stepArLock, giveTo, takeFrom, finishRecv]
  repeat' split
  all_goals rk_fin

theorem invRS_arRef {s : State} {t : Nat} {r : Nat} (hk : InvRK s) (hi : InvRS s) (hpc : s.pc t = .arRef r) : InvRS (stepArRef s t r) := by
  have hk_owner := hk.owner
  have hk_lt_sq := hk.lt_sq
  have hk_lt_rq := hk.lt_rq
  have hk_nd_sq := hk.nd_sq
  have hk_unreg_s := hk.unreg_s
  have hk_sq_owner := hk.sq_owner
  have hk_rq_owner := hk.rq_owner
  have hk_un_st_s := hk.un_st_s
  clear hk
  obtain ⟨h1, h2, h3, h4⟩ := hi
  simp only [stepArRef, giveTo, takeFrom, finishRecv]
  repeat' split
  all_goals rk_fin

theorem invRS_arFin {s : State} {t : Nat} {r : Nat} (hk : InvRK s) (hi : InvRS s) (hpc : s.pc t = .arFin r) : InvRS (stepArFin s t r) := by
  have hk_owner := hk.owner
  have hk_lt_sq := hk.lt_sq
  have hk_lt_rq := hk.lt_rq
  have hk_nd_sq := hk.nd_sq
  have hk_unreg_s := hk.unreg_s
  have hk_sq_owner := hk.sq_owner
  have hk_rq_owner := hk.rq_owner
  have hk_un_st_s := hk.un_st_s
  clear hk
  obtain ⟨h1, h2, h3, h4⟩ := hi
  simp only [stepArFin, giveTo, takeFrom, finishRecv]
  repeat' split
  all_goals rk_fin

theorem invRS_fdUnlR {s : State} {t : Nat} {r : Nat} (hk : InvRK s) (hi : InvRS s) (hpc : s.pc t = .fdUnlR r) : InvRS (stepFdUnlR s t r) := by
  have hk_owner := hk.owner
  have hk_lt_sq := hk.lt_sq
  have hk_lt_rq := hk.lt_rq
  have hk_nd_sq := hk.nd_sq
  have hk_unreg_s := hk.unreg_s
  have hk_sq_owner := hk.sq_owner
  have hk_rq_owner := hk.rq_owner
  have hk_un_st_s := hk.un_st_s
  clear hk
  obtain ⟨h1, h2, h3, h4⟩ := hi
  simp only [stepFdUnlR, giveTo, takeFrom, finishRecv]
  repeat' split
  all_goals rk_fin

theorem invRS_hWake {s : State} {t : Nat} {ws : List Nat} (hk : InvRK s) (hi : InvRS s) (hpc : s.pc t = .hWake ws) : InvRS (stepHWake s t ws) := by
  have hk_owner := hk.owner
  have hk_lt_sq := hk.lt_sq
  have hk_lt_rq := hk.lt_rq
  have hk_nd_sq := hk.nd_sq
  have hk_unreg_s := hk.unreg_s
  have hk_sq_owner := hk.sq_owner
  have hk_rq_owner := hk.rq_owner
  have hk_un_st_s := hk.un_st_s
  clear hk
  obtain ⟨h1, h2, h3, h4⟩ := hi
  simp only [stepHWake, giveTo, takeFrom, finishRecv]
  repeat' split
  all_goals rk_fin

theorem invRS_sPark {s s' : State} {t : Nat} {v : Nat} {r : Nat} (hk : InvRK s) (hi : InvRS s) (hpc : s.pc t = .sPark v r) (h : stepSPark s t v r = some s') : InvRS s' := by
  have hk_owner := hk.owner
  have hk_lt_sq := hk.lt_sq
  have hk_lt_rq := hk.lt_rq
  have hk_nd_sq := hk.nd_sq
  have hk_unreg_s := hk.unreg_s
  have hk_sq_owner := hk.sq_owner
  have hk_rq_owner := hk.rq_owner
  have hk_un_st_s := hk.un_st_s
  clear hk
  obtain ⟨h1, h2, h3, h4⟩ := hi
  unfold stepSPark at h
  repeat' split at h
  all_goals (simp at h; try subst h)
  all_goals (try generalize List.map s.owner _ = wsl)
  all_goals rk_fin

theorem invRS_rPark {s s' : State} {t : Nat} {r : Nat} (hk : InvRK s) (hi : InvRS s) (hpc : s.pc t = .rPark r) (h : stepRPark s t r = some s') : InvRS s' := by
  have hk_owner := hk.owner
  have hk_lt_sq := hk.lt_sq
  have hk_lt_rq := hk.lt_rq
  have hk_nd_sq := hk.nd_sq
  have hk_unreg_s := hk.unreg_s
  have hk_sq_owner := hk.sq_owner
  have hk_rq_owner := hk.rq_owner
  have hk_un_st_s := hk.un_st_s
  clear hk
  obtain ⟨h1, h2, h3, h4⟩ := hi
  unfold stepRPark at h
  repeat' split at h
  all_goals (simp at h; try subst h)
  all_goals (try generalize List.map s.owner _ = wsl)
  all_goals rk_fin

theorem invRS_closeS {s s' : State} {t : Nat} (hk : InvRK s) (hi : InvRS s) (hpc : s.pc t = .hCloseS) (h : stepCloseS s t  = some s') : InvRS s' := by
  have hk_owner := hk.owner
  have hk_lt_sq := hk.lt_sq
  have hk_lt_rq := hk.lt_rq
  have hk_nd_sq := hk.nd_sq
  have hk_unreg_s := hk.unreg_s
  have hk_sq_owner := hk.sq_owner
  have hk_rq_owner := hk.rq_owner
  have hk_un_st_s := hk.un_st_s
  clear hk
  obtain ⟨h1, h2, h3, h4⟩ := hi
  unfold stepCloseS at h
  repeat' split at h
  all_goals (simp at h; try subst h)
  all_goals (try generalize List.map s.owner _ = wsl)
  all_goals rk_fin

theorem invRS_closeR {s s' : State} {t : Nat} (hk : InvRK s) (hi : InvRS s) (hpc : s.pc t = .hCloseR) (h : stepCloseR s t  = some s') : InvRS s' := by
  have hk_owner := hk.owner
  have hk_lt_sq := hk.lt_sq
  have hk_lt_rq := hk.lt_rq
  have hk_nd_sq := hk.nd_sq
  have hk_unreg_s := hk.unreg_s
  have hk_sq_owner := hk.sq_owner
  have hk_rq_owner := hk.rq_owner
  have hk_un_st_s := hk.un_st_s
  clear hk
  obtain ⟨h1, h2, h3, h4⟩ := hi
  unfold stepCloseR at h
  repeat' split at h
  all_goals (simp at h; try subst h)
  all_goals (try generalize List.map s.owner _ = wsl)
  all_goals rk_fin

theorem invRS_adv {s s' : State} {t : Nat} (hk : InvRK s) (hi : InvRS s) (h : stepAdv s t = some s') : InvRS s' := by
  unfold stepAdv at h
  split at h
  all_goals (first | (simp at h; done) | skip)
  all_goals rename_i hpc
  case h_1 => simp at h; subst h; exact invRS_wakeThen hk hi hpc
  case h_2 => simp at h; subst h; exact invRS_sLock hk hi hpc
  case h_3 => simp at h; subst h; exact invRS_sWait hk hi hpc
  case h_4 => exact invRS_sPark hk hi hpc h
  case h_5 => simp at h; subst h; exact invRS_tsLock hk hi hpc
  case h_6 => simp at h; subst h; exact invRS_rLock hk hi hpc
  case h_7 => simp at h; subst h; exact invRS_rWait hk hi hpc
  case h_8 => exact invRS_rPark hk hi hpc h
  case h_9 => simp at h; subst h; exact invRS_trLock hk hi hpc
  case h_10 => simp at h; subst h; exact invRS_toLock hk hi hpc
  case h_11 => simp at h; subst h; exact invRS_toLoad hk hi hpc
  case h_12 => simp at h; subst h; exact invRS_toCas hk hi hpc
  case h_13 => simp at h; subst h; exact invRS_toUnl hk hi hpc
  case h_14 => simp at h; subst h; exact invRS_toFin hk hi hpc
  case h_15 => simp at h; subst h; exact invRS_asLock hk hi hpc
  case h_16 => simp at h; subst h; exact invRS_asRef hk hi hpc
  case h_17 => simp at h; subst h; exact invRS_asFin hk hi hpc
  case h_18 => simp at h; subst h; exact invRS_fdUnlS hk hi hpc
  case h_19 => simp at h; subst h; exact invRS_arLock hk hi hpc
  case h_20 => simp at h; subst h; exact invRS_arRef hk hi hpc
  case h_21 => simp at h; subst h; exact invRS_arFin hk hi hpc
  case h_22 => simp at h; subst h; exact invRS_fdUnlR hk hi hpc
  case h_23 =>
    simp at h; subst h
    have hk_owner := hk.owner
    have hk_lt_sq := hk.lt_sq
    have hk_lt_rq := hk.lt_rq
    have hk_nd_sq := hk.nd_sq
    have hk_unreg_s := hk.unreg_s
    have hk_sq_owner := hk.sq_owner
    have hk_rq_owner := hk.rq_owner
    have hk_un_st_s := hk.un_st_s
    clear hk
    obtain ⟨h1, h2, h3, h4⟩ := hi
    rk_fin
  case h_24 =>
    simp at h; subst h
    have hk_owner := hk.owner
    have hk_lt_sq := hk.lt_sq
    have hk_lt_rq := hk.lt_rq
    have hk_nd_sq := hk.nd_sq
    have hk_unreg_s := hk.unreg_s
    have hk_sq_owner := hk.sq_owner
    have hk_rq_owner := hk.rq_owner
    have hk_un_st_s := hk.un_st_s
    clear hk
    obtain ⟨h1, h2, h3, h4⟩ := hi
    rk_fin
  case h_25 => exact invRS_closeS hk hi hpc h
  case h_26 => exact invRS_closeR hk hi hpc h
  case h_27 => simp at h; subst h; exact invRS_hWake hk hi hpc

set_option maxHeartbeats 1600000 in
theorem invRS_call {s s' : State} {t : Nat} {op : Op} (hk : InvRK s) (hi : InvRS s) (h : stepCall s t op = some s') : InvRS s' := by
  have hk_owner := hk.owner
  have hk_lt_sq := hk.lt_sq
  have hk_lt_rq := hk.lt_rq
  have hk_nd_sq := hk.nd_sq
  have hk_unreg_s := hk.unreg_s
  have hk_sq_owner := hk.sq_owner
  have hk_rq_owner := hk.rq_owner
  have hk_un_st_s := hk.un_st_s
  clear hk
  obtain ⟨h1, h2, h3, h4⟩ := hi
  unfold stepCall at h
  split at h
  · rename_i hr
    have hr' : s.pc t = .idle ∨ ∃ x, s.pc t = .done x := by
      cases hp : s.pc t <;> simp_all [PC.atRest]
    cases op <;> simp only [] at h
    all_goals (repeat' split at h)
    all_goals (simp at h; try subst h)
    all_goals rk_fin
  · simp at h

set_option maxHeartbeats 1600000 in
theorem invRS_poll {s s' : State} {t : Nat} (hk : InvRK s) (hi : InvRS s) (h : stepPoll s t = some s') : InvRS s' := by
  have hk_owner := hk.owner
  have hk_lt_sq := hk.lt_sq
  have hk_lt_rq := hk.lt_rq
  have hk_nd_sq := hk.nd_sq
  have hk_unreg_s := hk.unreg_s
  have hk_sq_owner := hk.sq_owner
  have hk_rq_owner := hk.rq_owner
  have hk_un_st_s := hk.un_st_s
  clear hk
  obtain ⟨h1, h2, h3, h4⟩ := hi
  unfold stepPoll at h
  repeat' split at h
  all_goals (simp at h; try subst h)
  all_goals (try simp only [giveTo, takeFrom, finishRecv])
  all_goals (repeat' split)
  all_goals rk_fin

set_option maxHeartbeats 1600000 in
theorem invRS_dropFut {s s' : State} {t : Nat} (hk : InvRK s) (hi : InvRS s) (h : stepDropFut s t = some s') : InvRS s' := by
  have hk_owner := hk.owner
  have hk_lt_sq := hk.lt_sq
  have hk_lt_rq := hk.lt_rq
  have hk_nd_sq := hk.nd_sq
  have hk_unreg_s := hk.unreg_s
  have hk_sq_owner := hk.sq_owner
  have hk_rq_owner := hk.rq_owner
  have hk_un_st_s := hk.un_st_s
  clear hk
  obtain ⟨h1, h2, h3, h4⟩ := hi
  unfold stepDropFut at h
  repeat' split at h
  all_goals (simp at h; try subst h)
  all_goals skip
  all_goals rk_fin

theorem invRS_spurious {s s' : State} {t : Nat} (hk : InvRK s) (hi : InvRS s) (h : stepSpurious s t = some s') : InvRS s' := by
  have hk_owner := hk.owner
  have hk_lt_sq := hk.lt_sq
  have hk_lt_rq := hk.lt_rq
  have hk_nd_sq := hk.nd_sq
  have hk_unreg_s := hk.unreg_s
  have hk_sq_owner := hk.sq_owner
  have hk_rq_owner := hk.rq_owner
  have hk_un_st_s := hk.un_st_s
  clear hk
  obtain ⟨h1, h2, h3, h4⟩ := hi
  unfold stepSpurious at h
  repeat' split at h
  all_goals (simp at h; try subst h)
  all_goals rk_fin

theorem invRS_step {s s' : State} {t : Nat} {l : Label} (hk : InvRK s) (hi : InvRS s) (h : step s t l = some s') : InvRS s' := by
  cases l <;> simp only [step] at h
  · exact invRS_call hk hi h
  · exact invRS_adv hk hi h
  · exact invRS_poll hk hi h
  · exact invRS_dropFut hk hi h
  · exact invRS_spurious hk hi h


theorem invRS_reach {s : State} (h : Reach s) : InvRS s := by
  induction h with
  | init => exact invRS_init
  | step hr hs ih => exact invRS_step (invRK_reach hr) ih hs

end Fv.Chan.RendezvousB
