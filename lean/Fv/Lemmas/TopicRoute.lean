import Fv.Lemmas.TopicStep
/-! Routing invariant: the topic lists and the receivers' own subscription sets agree; as long as
`subscribe` is not called on a closed handle, a closed receiver holds no subscription. -/
namespace Fv.Chan.Topic

/-- per live receiver `x` with id `r`. The second clause needs a history in which `subscribe` is
never called on a closed handle; it is guarded by `P` (`P := True` for such histories,
`P := False` for arbitrary ones). -/
def RxOk (P : Prop) (s : St) (r : Nat) (x : Rx) : Prop :=
  (x.hasDisp = false → dispAlive s = false) ∧
  (P → dispAlive s = true → x.closed = true → x.subs = []) ∧
  (dispAlive s = true → ∀ t, (t, r) ∈ s.regs → t ∈ x.subs ∧ x.hasDisp = true) ∧
  (x.hasDisp = true → dispAlive s = true → ∀ t, t ∈ x.subs → (t, r) ∈ s.regs)

structure RI (P : Prop) (s : St) : Prop where
  inRange : ∀ t r, (t, r) ∈ s.regs → r < s.rxs.length
  ok : ∀ r x, s.rxs[r]? = some x → x.live = true → RxOk P s r x

/-- what the frame lemma needs from the old entry `x` for a new live entry `y` -/
def CoreLe (x y : Rx) : Prop :=
  x.live = true ∧ y.hasDisp = x.hasDisp ∧ y.subs = x.subs ∧ (y.closed = true → x.closed = true)

/-- operations that do not touch `regs`, the subscription sets, or resurrect anything -/
theorem RI_frame (s s' : St) (hr : s'.regs = s.regs) (hlen : s.rxs.length ≤ s'.rxs.length)
    (hd : dispAlive s' = true → dispAlive s = true)
    (hx : ∀ (r : Nat) (y : Rx), s'.rxs[r]? = some y → y.live = true → ∃ x, s.rxs[r]? = some x ∧ CoreLe x y)
    {P : Prop} (h : RI P s) : RI P s' := by
  refine ⟨fun t r hm => Nat.lt_of_lt_of_le (h.inRange t r (hr ▸ hm)) hlen, ?_⟩
  intro r y hy hl
  obtain ⟨x, hx1, hxl, hxd, hxs, hxc⟩ := hx r y hy hl
  obtain ⟨a, b, c, d⟩ := h.ok r x hx1 hxl
  refine ⟨?_, ?_, ?_, ?_⟩
  · intro h1
    cases hda : dispAlive s' with
    | false => rfl
    | true => rw [hxd] at h1; rw [a h1] at hd; exact absurd (hd hda) (by simp)
  · intro hP h2 hc; rw [hxs]; exact b hP (hd h2) (hxc hc)
  · intro h2 t ht; rw [hr] at ht; rw [hxd, hxs]; exact c (hd h2) t ht
  · intro h1 h2 t ht; rw [hr]; rw [hxd] at h1; rw [hxs] at ht; exact d h1 (hd h2) t ht

theorem dispAlive_congr (s s' : St) (h : s'.txs = s.txs) : dispAlive s' = dispAlive s := by
  unfold dispAlive; rw [h]

theorem upgradable_iff (s : St) (x : Rx) : upgradable s x = true ↔ x.hasDisp = true ∧ dispAlive s = true := by
  simp [upgradable]

theorem isLive_of_get (rxs : List Rx) (q : Nat) (y : Rx) (hy : rxs[q]? = some y) : isLive rxs q = y.live := by
  simp [isLive, hy]

theorem RI_subscribeCore (s : St) (r : Nat) (t : Topic) (x0 : Rx) (hx0 : s.rxs[r]? = some x0) (hl0 : x0.live = true)
    {P : Prop} (hc0 : P → x0.closed = false) (h : RI P s) : RI P (subscribeCore s r t) := by
  by_cases hm : t ∈ x0.subs
  · rw [subscribeCore_of_mem s r t x0 hx0 hm]; exact h
  have hrxs := subscribeCore_rxs_of_not_mem s r t x0 hx0 hm
  have hda : dispAlive (subscribeCore s r t) = dispAlive s := dispAlive_congr _ _ (subscribeCore_txs s r t)
  obtain ⟨a0, b0, c0, d0⟩ := h.ok r x0 hx0 hl0
  cases hu : upgradable s x0 with
  | true =>
    have hu' := (upgradable_iff s x0).1 hu
    have hmem := mem_subscribeCore_regs s r t x0 hx0 hm hu
    refine ⟨?_, ?_⟩
    · intro u q hq
      rw [hrxs, length_modAt]
      rcases (hmem u q).1 hq with ⟨hq, _⟩ | hq
      · exact h.inRange u q hq
      · cases hq; exact (List.getElem?_eq_some_iff.1 hx0).1
    · intro q y hy hl
      rw [hrxs, getElem?_modAt] at hy
      unfold RxOk; rw [hda]
      by_cases hq : r = q
      · subst hq
        simp only [if_true, hx0, Option.map_some, Option.some.injEq] at hy
        subst hy
        refine ⟨fun h1 => by simp [hu'.1] at h1, (fun hP _ hc => by rw [hc0 hP] at hc; cases hc), ?_, ?_⟩
        · intro _ u hq
          rcases (hmem u r).1 hq with ⟨hq, _⟩ | hq
          · exact ⟨List.mem_append_left _ (c0 hu'.2 u hq).1, hu'.1⟩
          · cases hq; exact ⟨by simp, hu'.1⟩
        · intro _ _ u hq
          simp only [List.mem_append, List.mem_singleton] at hq
          rcases hq with hq | hq
          · exact (hmem u r).2 (Or.inl ⟨d0 hu'.1 hu'.2 u hq, Or.inr (by rw [isLive_of_get _ _ _ hx0]; exact hl0)⟩)
          · subst hq; exact (hmem u r).2 (Or.inr rfl)
      · simp only [hq, if_false] at hy
        obtain ⟨a, b, c, d⟩ := h.ok q y hy hl
        refine ⟨a, b, ?_, ?_⟩
        · intro h2 u hm'
          rcases (hmem u q).1 hm' with ⟨hm', _⟩ | hm'
          · exact c h2 u hm'
          · cases hm'; exact absurd rfl hq
        · intro h1 h2 u hm'
          exact (hmem u q).2 (Or.inl ⟨d h1 h2 u hm', Or.inr (by rw [isLive_of_get _ _ _ hy]; exact hl)⟩)
  | false =>
    have hregs := subscribeCore_regs_not_upg s r t x0 hx0 hu
    refine ⟨fun u q hq => by rw [hrxs, length_modAt]; exact h.inRange u q (hregs ▸ hq), ?_⟩
    intro q y hy hl
    rw [hrxs, getElem?_modAt] at hy
    unfold RxOk; rw [hda, hregs]
    by_cases hq : r = q
    · subst hq
      simp only [if_true, hx0, Option.map_some, Option.some.injEq] at hy
      subst hy
      refine ⟨a0, (fun hP _ hc => by rw [hc0 hP] at hc; cases hc), ?_, ?_⟩
      · intro h2 u hq; exact ⟨List.mem_append_left _ (c0 h2 u hq).1, (c0 h2 u hq).2⟩
      · intro h1 h2
        have : upgradable s x0 = true := (upgradable_iff s x0).2 ⟨h1, h2⟩
        rw [hu] at this; cases this
    · simp only [hq, if_false] at hy
      exact h.ok q y hy hl

theorem RI_unsubscribeCore (s : St) (r : Nat) (t : Topic) (x0 : Rx) (hx0 : s.rxs[r]? = some x0) (hl0 : x0.live = true)
    {P : Prop} (h : RI P s) : RI P (unsubscribeCore s r t) := by
  by_cases hm : t ∈ x0.subs
  · have hrxs : (unsubscribeCore s r t).rxs =
        modAt s.rxs r (fun x => { x with subs := x.subs.filter (fun u => u != t) }) := by
      rcases unsubscribeCore_rxs' s r t x0 hx0 with hrxs | ⟨hn, _⟩
      · exact hrxs
      · exact absurd hm hn
    have hda : dispAlive (unsubscribeCore s r t) = dispAlive s := dispAlive_congr _ _ (unsubscribeCore_txs s r t)
    obtain ⟨a0, b0, c0, d0⟩ := h.ok r x0 hx0 hl0
    cases hu : upgradable s x0 with
    | true =>
      have hu' := (upgradable_iff s x0).1 hu
      have hmem := mem_unsubscribeCore_regs s r t x0 hx0 hm hu
      refine ⟨fun u q hq => by rw [hrxs, length_modAt]; exact h.inRange u q ((hmem u q).1 hq).1, ?_⟩
      intro q y hy hl
      rw [hrxs, getElem?_modAt] at hy
      unfold RxOk; rw [hda]
      by_cases hq : r = q
      · subst hq
        simp only [if_true, hx0, Option.map_some, Option.some.injEq] at hy
        subst hy
        refine ⟨a0, (fun hP h2 hc => by have := b0 hP h2 hc; simp [this]), ?_, ?_⟩
        · intro _ u hq
          obtain ⟨hq1, hq2⟩ := (hmem u r).1 hq
          refine ⟨?_, hu'.1⟩
          simp only [List.mem_filter, bne_iff_ne, ne_eq]
          refine ⟨(c0 hu'.2 u hq1).1, ?_⟩
          rcases hq2 with hq2 | ⟨_, hq2⟩
          · exact hq2
          · exact absurd rfl hq2
        · intro _ _ u hq
          simp only [List.mem_filter, bne_iff_ne, ne_eq] at hq
          exact (hmem u r).2 ⟨d0 hu'.1 hu'.2 u hq.1, Or.inl hq.2⟩
      · simp only [hq, if_false] at hy
        obtain ⟨a, b, c, d⟩ := h.ok q y hy hl
        refine ⟨a, b, fun h2 u hm' => c h2 u ((hmem u q).1 hm').1, ?_⟩
        intro h1 h2 u hm'
        exact (hmem u q).2 ⟨d h1 h2 u hm', Or.inr ⟨by rw [isLive_of_get _ _ _ hy]; exact hl, fun e => hq e.symm⟩⟩
    | false =>
      have hregs := unsubscribeCore_regs_not_upg s r t x0 hx0 hu
      refine ⟨fun u q hq => by rw [hrxs, length_modAt]; exact h.inRange u q (hregs ▸ hq), ?_⟩
      intro q y hy hl
      rw [hrxs, getElem?_modAt] at hy
      unfold RxOk; rw [hda, hregs]
      by_cases hq : r = q
      · subst hq
        simp only [if_true, hx0, Option.map_some, Option.some.injEq] at hy
        subst hy
        refine ⟨a0, (fun hP h2 hc => by have := b0 hP h2 hc; simp [this]), ?_, ?_⟩
        · intro h2 u hq
          have : upgradable s x0 = true := (upgradable_iff s x0).2 ⟨(c0 h2 u hq).2, h2⟩
          rw [hu] at this; cases this
        · intro h1 h2
          have : upgradable s x0 = true := (upgradable_iff s x0).2 ⟨h1, h2⟩
          rw [hu] at this; cases this
      · simp only [hq, if_false] at hy
        exact h.ok q y hy hl
  · rw [unsubscribeCore_noop s r t x0 hx0 hm]; exact h


theorem RI_weaken (s : St) {P Q : Prop} (hqp : Q → P) (h : RI P s) : RI Q s :=
  ⟨h.inRange, fun r x hx hl => ⟨(h.ok r x hx hl).1, fun hq => (h.ok r x hx hl).2.1 (hqp hq), (h.ok r x hx hl).2.2.1,
    (h.ok r x hx hl).2.2.2⟩⟩

end Fv.Chan.Topic
