import Fv.Lemmas.SyncRwWakeI
/-!
Wake invariant of the rwlock model, per-thread conjuncts (`PBoc`, `PBoPark`, `PQw`, `PQz`, `PHl`):
the stepping thread by one pass over the step cases.
-/
namespace Fv.Sync.RwLock
open Fv.Sync
variable {cfg : Cfg} {s s' : State} {t : Tid} {l : Lbl}

set_option maxHeartbeats 16000000 in
theorem wake_local (hi : Inv s) (hw : WInv s) (h : Step cfg s t l s') :
    (∀ f, (s'.th t).cur = some f → futPc (s'.th t).pc = true → (s'.th t).blockOn = (s'.fut f).bo)
    ∧ ((s'.th t).pc = .boPark →
        (s'.th t).blockOn = true ∧ ∀ f, (s'.th t).cur = some f → (s'.fut f).phase = .startedNode)
    ∧ ((s'.th t).pc = .qRearm → (s'.wl.node (me t (s'.th t))).waiter = some (myWaiter t (s'.th t)))
    ∧ (armedPc (s'.th t).pc = true →
        (s'.wl.node (me t (s'.th t))).linked = true ∧ (s'.wl.node (me t (s'.th t))).woken = false)
    ∧ (holdUnlinkPc (s'.th t).pc = true → (t, (s'.th t).wr) ∈ s'.holders) := by
  have a1 := hi.syncCur t; have a2 := hi.asyncCur t; have a5 := hi.ffOk t; have a3 := hi.syncLinked t
  have a4 := hi.phNode t
  have c0 := hw.bb
  unfold PBb at c0
  have b0 := hw.boc t; have b1 := hw.boPark t; have b2 := hw.qw t; have b3 := hw.qz t
  have b6 := hw.hl t
  clear hi hw
  step_cases h
  all_goals (try simp only [myWaiter] at *)
  all_goals (try norm_state)
  all_goals wg

end Fv.Sync.RwLock
