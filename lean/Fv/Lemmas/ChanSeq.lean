import Fv.Lemmas.ChanAcc
/-!
Q-level consequences: `stepOp` / `runOps` (one thread, operations run to completion) keep the
invariant, keep the operation shape (`PInv`) and balance the token ledger.
-/
namespace Fv.Chan
open List

theorem microDet_mem {fl cfg s p x} (h : microDet fl cfg s p = some x) : x ∈ micro fl cfg s p := by
  unfold micro; rw [mem_append]; left; rw [Option.mem_toList]; exact h

theorem StepOk.rfl' (fl s p) : StepOk fl s p s p [] :=
  StepOk.ofSame id (SameAcct.refl s) rfl rfl rfl rfl

theorem runPS_ok (fl cfg) (op : Op) : ∀ (fuel : Nat) (s : St) (p : P), PInv op p →
    ∃ δ, (δ = [] ∨ δ = freshVals p) ∧
      StepOk fl s p (runPS fl cfg fuel s p).1 (runPS fl cfg fuel s p).2 δ ∧
      PInv op (runPS fl cfg fuel s p).2 := by
  intro fuel
  induction fuel with
  | zero => intro s p hp; exact ⟨[], Or.inl rfl, StepOk.rfl' .., hp⟩
  | succ fuel ih =>
    intro s p hp
    unfold runPS
    split
    · exact ⟨[], Or.inl rfl, StepOk.rfl' .., hp⟩
    · split
      · exact ⟨[], Or.inl rfl, StepOk.rfl' .., hp⟩
      · rename_i s' p' hm
        have hmem := microDet_mem hm
        obtain ⟨δ, hδ, hok⟩ := micro_ok hmem
        have hp' := micro_pinv hp hmem
        obtain ⟨δ', hδ', hok', hp''⟩ := ih s' p' hp'
        have hnf := micro_freshVals hmem
        have : δ' = [] := by rcases hδ' with h | h; exact h; rw [h, hnf]
        subst this
        exact ⟨δ, hδ, hok.trans hok', hp''⟩

theorem stepOpS_ok (fl : Flavour) (s : St) (op : Op) :
    ∃ δ, (δ = [] ∨ δ = op.vals) ∧
      StepOk fl s (.fresh 0 op) (stepOpS fl s op).1 (stepOpS fl s op).2 δ ∧
      PInv op (stepOpS fl s op).2 :=
  runPS_ok fl seqCfg op _ s (.fresh 0 op) rfl

theorem init_inv (fl : Flavour) : Inv fl (init fl) := by
  refine ⟨rfl, Sublist.slnil, fun _ => rfl, fun _ => rfl, ?_, rfl, rfl⟩
  unfold capOk
  cases fl.capOf <;> simp [init]

theorem stepOp_inv {fl s} (h : Inv fl s) (op : Op) : Inv fl (stepOp fl s op).1 := by
  obtain ⟨_, _, hok, _⟩ := stepOpS_ok fl s op
  exact hok.inv h

theorem runOps_inv {fl} : ∀ (ops : List Op) {s : St}, Inv fl s → Inv fl (runOps fl s ops)
  | [], _, h => h
  | op :: r, _, h => runOps_inv r (stepOp_inv h op)

/-- token ledger of a sequential program: every value ever offered is in exactly one place -/
def Ledger (s : St) (strandedVals : List Val) : Prop :=
  ∀ v, count v s.created = count v strandedVals + count v s.placed

theorem runOps_ledger (fl) : ∀ (ops : List Op) {s : St} {X : List Val}, Ledger s X →
    Ledger (runOps fl s ops) (X ++ stranded fl s ops)
  | [], _, _, h => by simpa [runOps, stranded] using h
  | op :: r, s, X, h => by
    obtain ⟨δ, _, hok, _⟩ := stepOpS_ok fl s op
    have h1 : Ledger (stepOp fl s op).1 (X ++ (stepOpS fl s op).2.inHand) := by
      intro v
      have a := h v
      have b := hok.tok v
      have c := hok.created
      simp only [stepOp]
      rw [c]
      have e : count v (P.inHand (.fresh 0 op)) = 0 := rfl
      simp only [count_append] at b ⊢
      omega
    have := runOps_ledger fl r h1
    simpa [runOps, stranded, List.append_assoc] using this

theorem init_ledger (fl : Flavour) : Ledger (init fl) [] := by
  intro v; simp [init, St.placed, St.parked]

/-- how much of the program's offered values were actually created -/
theorem runOps_created_le (fl) : ∀ (ops : List Op) (s : St) (v : Val),
    count v (runOps fl s ops).created ≤ count v s.created + count v (ops.flatMap Op.vals)
  | [], _, _ => by simp [runOps]
  | op :: r, s, v => by
    obtain ⟨δ, hδ, hok, _⟩ := stepOpS_ok fl s op
    have ih := runOps_created_le fl r (stepOp fl s op).1 v
    have c : (stepOp fl s op).1.created = s.created ++ δ := hok.created
    rw [c] at ih
    simp only [runOps, flatMap_cons, count_append] at ih ⊢
    rcases hδ with rfl | rfl <;> simp at ih ⊢ <;> omega

end Fv.Chan
