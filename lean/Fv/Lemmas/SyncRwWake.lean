import Fv.Lemmas.SyncRwFlags2
/-!
`HybridRwLock` model, wake accounting (C10(c), C10(d) wake conservation): vocabulary and frame
lemmas (the rwlock version of `SyncMutexWake.lean`; no invariant yet).

`wake_waiters` either marks the first queued writer (which stays linked) - `wnStore` - or unlinks
and marks every queued reader - the `wrStore` loop - collecting the handles in `ws : List Waiter`,
which are delivered after the guard drop (`llRel .wake` → `wnWake`*; counting wakers are delivered
by `drain`, folded into the preceding visible step).  There are two releasing RMWs (`relSub`,
`relAnd`); the lock is free when `wl = false ∧ readers = 0`.

* `PreWake s t`   — `t` is inside a `wake_waiters` that may still mark queued nodes (it released
  the lock having read `HAS_QUEUED`, or it is dropping a future whose node is `WOKEN` and has not
  yet forwarded the wake);
* `PostWake s t n` — `t` carries an undelivered waiter handle that unblocks the owner of node `n`;
* `OwnerActive s n` — the owner of `n` is running its own acquisition attempt / re-check phase;
* `OwnerBlocked s n` — the owner of `n` is parked without a token (sync thread or `block_on`
  executor), or is a manually polled future that is `Pending` with no wake recorded.
-/
namespace Fv.Sync.RwLock
open Fv.Sync
variable {cfg : Cfg} {s s' : State} {t : Tid} {l : Lbl}

def preWakePc : Pc → Bool
  | .llSwap k | .llLoad k | .llSpin k => (match k with
      | .wake => true | .queue | .spinUnlink | .finish | .drop => false)
  | .wnStore | .wrStore => true
  | .idle | .taLoad _ | .taCas _ | .spinYield | .qRearm | .qFetchOr | .qLoad | .qCas | .ff1 _ | .ff2 _ | .llRel _
  | .wLoad | .wPark | .relSub | .relAnd | .wnWake | .dLoad | .boPark | .ret _ => false

def dropPc : Pc → Bool
  | .llSwap k | .llLoad k | .llSpin k => (match k with
      | .drop => true | .queue | .spinUnlink | .finish | .wake => false)
  | .ff1 a | .ff2 a | .llRel a => (match a with
      | .dropLoad => true | .retOk | .retReady | .parkLoad | .pending | .wake => false)
  | .dLoad => true
  | .idle | .taLoad _ | .taCas _ | .spinYield | .qRearm | .qFetchOr | .qLoad | .qCas
  | .wLoad | .wPark | .relSub | .relAnd | .wnStore | .wrStore | .wnWake | .boPark | .ret _ => false

def activePc : Pc → Bool
  | .taLoad k | .taCas k => (match k with
      | .spin | .pollTry => true | .fast | .try_ | .asyncFirst => false)
  | .llSwap k | .llLoad k | .llSpin k => (match k with
      | .queue => true | .spinUnlink | .finish | .drop | .wake => false)
  | .spinYield | .qRearm | .qFetchOr | .qLoad | .qCas => true
  | .idle | .ff1 _ | .ff2 _ | .llRel _ | .wLoad | .wPark | .relSub | .relAnd | .wnStore | .wrStore | .wnWake
  | .dLoad | .boPark | .ret _ => false

/-- the thread carries collected waiter handles (`ws`) that it has not delivered yet -/
def postWakePc : Pc → Bool
  | .ff1 a | .ff2 a | .llRel a => (match a with
      | .wake => true | .retOk | .retReady | .parkLoad | .pending | .dropLoad => false)
  | .wrStore | .wnWake => true
  | .idle | .taLoad _ | .taCas _ | .spinYield | .llSwap _ | .llLoad _ | .llSpin _ | .qRearm | .qFetchOr | .qLoad
  | .qCas | .wLoad | .wPark | .relSub | .relAnd | .wnStore | .dLoad | .boPark | .ret _ => false

/-- the list lock is held and the own node was re-armed in this critical section -/
def armedPc : Pc → Bool
  | .llRel a => (match a with
      | .parkLoad | .pending => true | .retOk | .retReady | .wake | .dropLoad => false)
  | .qFetchOr | .qLoad | .qCas => true
  | .idle | .taLoad _ | .taCas _ | .spinYield | .llSwap _ | .llLoad _ | .llSpin _ | .qRearm
  | .ff1 _ | .ff2 _ | .wLoad | .wPark | .relSub | .relAnd | .wnStore | .wrStore | .wnWake | .dLoad | .boPark
  | .ret _ => false

/-- the guard was obtained lock-free and the own node is about to be unlinked -/
def holdUnlinkPc : Pc → Bool
  | .llSwap k | .llLoad k | .llSpin k => (match k with
      | .spinUnlink | .finish => true | .queue | .drop | .wake => false)
  | .idle | .taLoad _ | .taCas _ | .spinYield | .qRearm | .qFetchOr | .qLoad | .qCas | .ff1 _ | .ff2 _ | .llRel _
  | .wLoad | .wPark | .relSub | .relAnd | .wnStore | .wrStore | .wnWake | .dLoad | .boPark | .ret _ => false

/-- no guard exists -/
def LockFree (s : State) : Prop := s.word.wl = false ∧ s.word.readers = 0

def PreWake (s : State) (t : Tid) : Prop :=
  preWakePc (s.th t).pc = true ∨ (dropPc (s.th t).pc = true ∧ (s.wl.node (me t (s.th t))).woken = true)

def OwnerActive (s : State) (n : Nid) : Prop := ∃ u, me u (s.th u) = n ∧ activePc (s.th u).pc = true

/-- delivering handle `w` unblocks the owner of node `n` -/
def Targets (s : State) (w : Waiter) (n : Nid) : Prop :=
  match w, n with
  | .thread u, .thr u' => u = u'
  | .thread u, .fut f => (s.fut f).bo = true ∧ (s.th u).cur = some f ∧ futPc (s.th u).pc = true
  | .task f, .fut f' => f = f' ∧ (s.fut f).bo = false
  | .task _, .thr _ => False

def PostWake (s : State) (t : Tid) (n : Nid) : Prop :=
  postWakePc (s.th t).pc = true ∧ ∃ w ∈ (s.th t).ws, Targets s w n

def OwnerBlocked (s : State) (n : Nid) : Prop :=
  match n with
  | .thr u => (s.th u).pc = .wPark ∧ s.token u = false
  | .fut f =>
    if (s.fut f).bo then ∃ u, (s.th u).cur = some f ∧ (s.th u).pc = .boPark ∧ s.token u = false
    else (s.fut f).busy = false ∧ s.wakes f = 0

macro "wg" : tactic => `(tactic| grind [isCas, inLL, slowL, rdL, syncOnly, asyncOnly, futPc, futNodePc, futUnlPc,
  TaK.sync, After.sync, After.async, preWakePc, dropPc, activePc, postWakePc, armedPc, holdUnlinkPc])

/-! ### `drain`: delivery of the leading counting-waker handles -/

theorem drain_le (w : Fid → Nat) (ws : List Waiter) (f : Fid) : w f ≤ (drain w ws).1 f := by
  induction ws generalizing w with
  | nil => simp [drain]
  | cons x r ih =>
    cases x with
    | thread u => simp [drain]
    | task g =>
      simp only [drain]
      refine Nat.le_trans ?_ (ih _)
      simp only [upd_apply]; split
      · next h => subst h; omega
      · exact Nat.le_refl _

/-- what `drain` leaves starts with a thread handle -/
theorem drain_rest (w : Fid → Nat) (ws : List Waiter) :
    (drain w ws).2 = [] ∨ ∃ u r, (drain w ws).2 = .thread u :: r := by
  induction ws generalizing w with
  | nil => simp [drain]
  | cons x r ih =>
    cases x with
    | thread u => exact Or.inr ⟨u, r, by simp [drain]⟩
    | task g => simp only [drain]; exact ih _

/-- every handle is either still to be delivered or was a counting waker whose count has grown -/
theorem drain_cover (w : Fid → Nat) (ws : List Waiter) (x : Waiter) (hx : x ∈ ws) :
    x ∈ (drain w ws).2 ∨ ∃ f, x = .task f ∧ w f < (drain w ws).1 f := by
  induction ws generalizing w with
  | nil => cases hx
  | cons y r ih =>
    cases y with
    | thread u => exact Or.inl (by simpa [drain] using hx)
    | task g =>
      simp only [drain]
      rcases List.mem_cons.1 hx with rfl | hr
      · refine Or.inr ⟨g, rfl, Nat.lt_of_lt_of_le ?_ (drain_le _ _ _)⟩
        simp
      · rcases ih (upd w g (w g + 1)) hr with h | ⟨f, rfl, hf⟩
        · exact Or.inl h
        · refine Or.inr ⟨f, rfl, Nat.lt_of_le_of_lt ?_ hf⟩
          simp only [upd_apply]; split
          · next h => subst h; omega
          · exact Nat.le_refl _

theorem drain_mem (w : Fid → Nat) (ws : List Waiter) (x : Waiter) (hx : x ∈ (drain w ws).2) : x ∈ ws := by
  induction ws generalizing w with
  | nil => simp [drain] at hx
  | cons y r ih =>
    cases y with
    | thread u => simpa [drain] using hx
    | task g => simp only [drain] at hx; exact List.mem_cons_of_mem _ (ih _ hx)

theorem drain_le_of_eq {w w' : Fid → Nat} {ws r : List Waiter} (h : drain w ws = (w', r)) (f : Fid) :
    w f ≤ w' f := by
  have := drain_le w ws f; rw [h] at this; exact this

/-! ### frame lemmas: what one step of `t` can change -/

/-- the step unlinks the queue head `n` in the reader loop of `wake_waiters`; `n` becomes the node
to be marked next -/
def UnlinksHead (s s' : State) (t : Tid) (n : Nid) : Prop :=
  s.wl.queue.head? = some n ∧ (s'.th t).pc = .wrStore ∧ (s'.th t).tgt = n
  ∧ ((s.th t).pc = .wrStore ∨ ((s.th t).pc = .llSwap .wake ∧ s.wl.locked = false ∧ s.wl.writers = 0))

/-- the step marks `n` (`take_and_mark_woken`) -/
def Marks (s : State) (t : Tid) (n : Nid) : Prop :=
  ((s.th t).pc = .wnStore ∨ (s.th t).pc = .wrStore) ∧ n = (s.th t).tgt

/-- a node the stepping thread does not own: `is_writer` is kept; `linked` is kept unless the node
is the queue head unlinked by the reader loop; handle and state are kept unless the node is the one
marked by `take_and_mark_woken` (handle taken, `WOKEN` stored) -/
def NodeKept (s s' : State) (t : Tid) (n : Nid) : Prop :=
  (s'.wl.node n).isWriter = (s.wl.node n).isWriter
  ∧ ((s'.wl.node n).linked = (s.wl.node n).linked ∨ (UnlinksHead s s' t n ∧ (s'.wl.node n).linked = false))
  ∧ (((s'.wl.node n).waiter = (s.wl.node n).waiter ∧ (s'.wl.node n).woken = (s.wl.node n).woken)
      ∨ (Marks s t n ∧ (s'.wl.node n).waiter = none ∧ (s'.wl.node n).woken = true))

set_option maxHeartbeats 16000000 in
/-- another thread's stack node -/
theorem step_node_thr (h : Step cfg s t l s') : ∀ u, u ≠ t → NodeKept s s' t (.thr u) := by
  unfold NodeKept UnlinksHead Marks
  step_cases h
  all_goals (intro u hu)
  all_goals (try norm_state)
  all_goals (first | exact ⟨rfl, Or.inl rfl, Or.inl ⟨rfl, rfl⟩⟩ | grind)

set_option maxHeartbeats 16000000 in
/-- the heap node of a busy future that the stepping thread is not operating on -/
theorem step_node_fut (h : Step cfg s t l s')
    (a1 : syncOnly (s.th t).pc = true → (s.th t).cur = none)
    (a2 : asyncOnly (s.th t).pc = true → (s.th t).cur ≠ none) :
    ∀ f, (s.fut f).busy = true → ¬ opOn s t f → NodeKept s s' t (.fut f) := by
  unfold NodeKept UnlinksHead Marks opOn
  step_cases h
  all_goals (intro f hb hop)
  all_goals (try norm_state)
  all_goals first
    | exact ⟨rfl, Or.inl rfl, Or.inl ⟨rfl, rfl⟩⟩
    | grind [syncOnly, asyncOnly, futPc, TaK.sync, After.sync, After.async]

end Fv.Sync.RwLock
