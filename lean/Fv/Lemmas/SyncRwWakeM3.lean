import Fv.Lemmas.SyncRwWakeL2
/-!
Wake invariant of the rwlock model: local (stepping-thread) lemmas for `PPk` and `PTw`.
-/
namespace Fv.Sync.RwLock
open Fv.Sync
variable {cfg : Cfg} {s s' : State} {t : Tid} {l : Lbl}

set_option maxHeartbeats 16000000 in
/-- a thread outside the list lock: a parked sync waiter whose node is `WAITING` stays parked; it
gets to `dLoad` only from `dLoad`; it does not end the life of a heap node it is not dropping -/
theorem frozen_local (hi : Inv s) (h : Step cfg s t l s') (hn : inLL (s.th t).pc = false) :
    (((s.th t).pc = .wLoad ∨ (s.th t).pc = .wPark) → (s.wl.node (me t (s.th t))).woken = false →
        ((s'.th t).pc = .wLoad ∨ (s'.th t).pc = .wPark) ∧ (s'.th t).cur = (s.th t).cur)
    ∧ ((s'.th t).pc = .dLoad → (s.th t).pc = .dLoad ∧ (s'.th t).cur = (s.th t).cur)
    ∧ (∀ f, (s.fut f).phase = .startedNode → ((s.th t).pc = .dLoad → (s.th t).cur ≠ some f) →
        (s'.fut f).phase = .startedNode) := by
  have a1 := hi.syncCur t; have a2 := hi.asyncCur t; have a5 := hi.ffOk t
  have b6 := hi.phFresh t; have b7 := hi.phStarted t
  clear hi
  step_cases h
  all_goals (try norm_state)
  all_goals wg

set_option maxHeartbeats 16000000 in
/-- arrival at `wrStore`: the head of the queue has just been unlinked; nothing else was touched -/
theorem tw_arrive (hi : Inv s) (h : Step cfg s t l s') (hp : (s'.th t).pc = .wrStore) :
    UnlinksHead s s' t (s'.th t).tgt ∧ s'.fut = s.fut ∧ s.wl.writers = 0
    ∧ (s'.wl.node (s'.th t).tgt).waiter = (s.wl.node (s'.th t).tgt).waiter
    ∧ (s'.wl.node (s'.th t).tgt).woken = (s.wl.node (s'.th t).tgt).woken := by
  have b0 := hi.wrTgt t
  have d : ∀ n, s.wl.queue.head? = some n → (s.wl.node n).linked = true :=
    fun n hn => (hi.wf.linked n).2 (List.mem_of_mem_head? hn)
  unfold UnlinksHead
  clear hi
  revert hp
  step_cases h
  all_goals (try norm_state)
  all_goals grind

set_option maxHeartbeats 16000000 in
/-- the stepping thread in the park loop / parked `block_on` executor: its node is queued (it has
just finished its re-check), or `WOKEN`, or it was parked before with the same node untouched -/
theorem pk_local (hi : Inv s) (hw : WInv s) (h : Step cfg s t l s') :
    ((s'.th t).pc = .wLoad ∨ (s'.th t).pc = .wPark ∨ (s'.th t).pc = .boPark) →
      (s'.wl.node (me t (s'.th t))).linked = true
      ∨ (((s.th t).pc = .wLoad ∨ (s.th t).pc = .wPark ∨ (s.th t).pc = .boPark)
          ∧ me t (s'.th t) = me t (s.th t) ∧ s'.wl.node (me t (s.th t)) = s.wl.node (me t (s.th t))) := by
  have a1 := hi.syncCur t; have a2 := hi.asyncCur t; have a5 := hi.ffOk t
  have b3 := hw.qz t
  clear hi hw
  step_cases h
  all_goals (try norm_state)
  all_goals wg

end Fv.Sync.RwLock
