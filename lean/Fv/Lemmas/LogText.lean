import Fv.Log.Text
/-! Helper lemmas about `Text` for C20. -/
namespace Fv.Log

theorem isDigit_eq (c : Char) : isDigit c = c.isDigit := by
  simp [isDigit, Char.isDigit, UInt32.le_iff_toNat_le]

theorem dec_all_isDigit (n : Nat) : ∀ c ∈ dec n, isDigit c = true := by
  intro c hc
  rw [isDigit_eq]
  exact Nat.isDigit_of_mem_toDigits (by decide) (by decide) hc

theorem dec_ne_nil (n : Nat) : dec n ≠ [] := Nat.toDigits_ne_nil

theorem digitsVal_dec (n : Nat) : digitsVal (dec n) = n := by
  simp [digitsVal, dec]

theorem takeWhile_append_stop {α} {p : α → Bool} {a : List α} {c : α} {r : List α}
    (ha : ∀ x ∈ a, p x = true) (hc : p c = false) :
    (a ++ c :: r).takeWhile p = a ∧ (a ++ c :: r).dropWhile p = c :: r := by
  induction a with
  | nil => simp [hc]
  | cons x xs ih =>
    have hx : p x = true := ha x (by simp)
    have := ih (fun y hy => ha y (by simp [hy]))
    simp [hx, this.1, this.2]

theorem takeWhile_all {α} {p : α → Bool} {a : List α} (ha : ∀ x ∈ a, p x = true) :
    a.takeWhile p = a ∧ a.dropWhile p = [] := by
  induction a with
  | nil => simp
  | cons x xs ih =>
    have hx : p x = true := ha x (by simp)
    have := ih (fun y hy => ha y (by simp [hy]))
    simp [hx, this.1, this.2]

end Fv.Log
