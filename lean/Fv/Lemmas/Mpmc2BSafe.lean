import Fv.Chan.Mpmc2B
/-! Safety invariant of the mpmc v2 B-model: capacity, linearisation equation, token accounting.
Holds on every reachable state (no hypothesis on polls / drops). -/
namespace Fv.Chan.Mpmc2B

@[simp] theorem upd_same {α} (f : Nat → α) (i : Nat) (a : α) : upd f i a i = a := by simp [upd]
theorem upd_apply {α} (f : Nat → α) (i j : Nat) (a : α) : upd f i a j = if j = i then a else f j := rfl
theorem bump_apply (w : Nat → Nat) (a j : Nat) : bump w a j = if j = a then w a + 1 else w j := rfl

/-- the token an agent currently owns (it is neither in the channel nor handed back yet) -/
def holds : PC → Option Nat
  | .sTry v _ => some v
  | .sReg v _ => some v
  | .sWait v _ => some v
  | .sPark v _ => some v
  | .sUnl v _ _ => some v
  | .tsTry v => some v
  | .asNew v _ => some v
  | .asTry v _ => some v
  | .asReg v _ => some v
  | .asPend v _ => some v
  | .asUnl v _ _ => some v
  | .asRef v _ => some v
  | .fdUnlS v _ => some v
  | _ => none

structure InvS (s : State) : Prop where
  cap_ok : s.queue.length ≤ s.cap
  lin : s.sent = s.recvd ++ s.queue
  held_fresh : ∀ t v, holds (s.pc t) = some v → v ∈ s.offered ∧ v ∉ s.sent ∧ v ∉ s.returned ∧ v ∉ s.dropped
  held_unique : ∀ t1 t2 v, holds (s.pc t1) = some v → holds (s.pc t2) = some v → t1 = t2
  sent_off : ∀ v, v ∈ s.sent → v ∈ s.offered
  ret_off : ∀ v, v ∈ s.returned → v ∈ s.offered
  drop_off : ∀ v, v ∈ s.dropped → v ∈ s.offered
  sent_nodup : s.sent.Nodup
  ret_nodup : s.returned.Nodup
  drop_nodup : s.dropped.Nodup
  disj_sent : ∀ v, v ∈ s.sent → v ∉ s.returned ∧ v ∉ s.dropped
  disj_ret : ∀ v, v ∈ s.returned → v ∉ s.dropped
  res_ok : ∀ t v, s.pc t = .done (.sendOk v) → v ∈ s.sent
  res_full : ∀ t v, s.pc t = .done (.sendFull v) → v ∈ s.returned
  res_closed : ∀ t v, s.pc t = .done (.sendClosed v) → v ∈ s.returned
  res_drop : ∀ t v, s.pc t = .done (.sendClosedDrop v) → v ∈ s.dropped
  res_recv : ∀ t v, s.pc t = .done (.recvOk v) → v ∈ s.recvd

theorem nodup_snoc {l : List Nat} {v : Nat} : (l ++ [v]).Nodup ↔ l.Nodup ∧ v ∉ l := by
  rw [List.nodup_append]; simp
  intro _; constructor
  · intro h hv; exact h v hv rfl
  · intro h a ha e; subst e; exact h ha

theorem invS_init (cap : Nat) : InvS (init cap) := by
  constructor <;> simp [init, holds]

/-- what the locked body of `try_send_core` does to the safety-relevant components -/
theorem sendCore_some {s s1 : State} {v : Nat} (h : sendCore s v = some s1) (hc : s.queue.length ≤ s.cap) :
    s1.queue = s.queue ++ [v] ∧ s1.sent = s.sent ++ [v] ∧ s.queue.length < s.cap ∧ s1.recvd = s.recvd ∧
    s1.returned = s.returned ∧ s1.dropped = s.dropped ∧ s1.offered = s.offered ∧ s1.pc = s.pc ∧ s1.cap = s.cap := by
  unfold sendCore at h
  repeat' split at h
  all_goals (simp at h; try subst h)
  all_goals (simp; omega)

theorem recvCore_some {s s1 : State} {v : Nat} (h : recvCore s = some (v, s1)) :
    s.queue = v :: s1.queue ∧ s1.recvd = s.recvd ++ [v] ∧ s1.sent = s.sent ∧
    s1.returned = s.returned ∧ s1.dropped = s.dropped ∧ s1.offered = s.offered ∧ s1.pc = s.pc ∧ s1.cap = s.cap := by
  unfold recvCore at h
  repeat' split at h
  all_goals (simp at h; try (obtain ⟨h1, h2⟩ := h; subst h1; subst h2))
  all_goals simp_all

end Fv.Chan.Mpmc2B

namespace Fv.Chan.Mpmc2B
attribute [local grind] holds
attribute [local grind =] nodup_snoc upd_apply

/-- PCs that are not a send/recv result -/
def PC.plain : PC → Bool
  | .done (.sendOk _) => false
  | .done (.sendFull _) => false
  | .done (.sendClosed _) => false
  | .done (.sendClosedDrop _) => false
  | .done (.recvOk _) => false
  | _ => true

/-- the safety-relevant components are unchanged -/
structure SameS (s s' : State) : Prop where
  cap : s'.cap = s.cap
  queue : s'.queue = s.queue
  sent : s'.sent = s.sent
  recvd : s'.recvd = s.recvd
  returned : s'.returned = s.returned
  dropped : s'.dropped = s.dropped
  offered : s'.offered = s.offered

/-- shape 1: only the agent's control state moves, it keeps the token it had (or none). -/
theorem invS_move {s s' : State} {t : Nat} {p' : PC} (hi : InvS s) (hs : SameS s s')
    (hpc : s'.pc = upd s.pc t p') (hh : holds p' = holds (s.pc t)) (hp : p'.plain = true) : InvS s' := by
  obtain ⟨h1, h2, h3, h4, h5, h6, h7, h8, h9, h10, h11, h12, h13, h14, h15, h16, h17⟩ := hi
  obtain ⟨e1, e2, e3, e4, e5, e6, e7⟩ := hs
  constructor <;> (simp only [e1, e2, e3, e4, e5, e6, e7, hpc]; try assumption)
  all_goals grind [PC.plain]

/-- shape 2: the agent's token is pushed (linearisation point of a successful send). -/
theorem invS_push {s s' : State} {t v : Nat} (hi : InvS s) (hv : holds (s.pc t) = some v)
    (e1 : s'.cap = s.cap) (e2 : s'.queue = s.queue ++ [v]) (e3 : s'.sent = s.sent ++ [v]) (hlt : s.queue.length < s.cap)
    (e4 : s'.recvd = s.recvd) (e5 : s'.returned = s.returned) (e6 : s'.dropped = s.dropped) (e7 : s'.offered = s.offered)
    (hpc : s'.pc = upd s.pc t (.done (.sendOk v))) : InvS s' := by
  obtain ⟨h1, h2, h3, h4, h5, h6, h7, h8, h9, h10, h11, h12, h13, h14, h15, h16, h17⟩ := hi
  have := h3 t v hv
  constructor <;> (simp only [e1, e2, e3, e4, e5, e6, e7, hpc]; try assumption)
  all_goals grind

/-- shape 3: a failed try_send hands the token back. -/
theorem invS_ret {s s' : State} {t v : Nat} {p' : PC} (hi : InvS s) (hv : holds (s.pc t) = some v)
    (e1 : s'.cap = s.cap) (e2 : s'.queue = s.queue) (e3 : s'.sent = s.sent)
    (e4 : s'.recvd = s.recvd) (e5 : s'.returned = s.returned ++ [v]) (e6 : s'.dropped = s.dropped) (e7 : s'.offered = s.offered)
    (hpc : s'.pc = upd s.pc t p') (hp : p' = .done (.sendFull v) ∨ p' = .done (.sendClosed v)) : InvS s' := by
  obtain ⟨h1, h2, h3, h4, h5, h6, h7, h8, h9, h10, h11, h12, h13, h14, h15, h16, h17⟩ := hi
  have := h3 t v hv
  constructor <;> (simp only [e1, e2, e3, e4, e5, e6, e7, hpc]; try assumption)
  all_goals grind

/-- shape 4: the token is dropped by the implementation (blocking send / future on a closed channel,
or a future dropped with its item). -/
theorem invS_drop {s s' : State} {t v : Nat} {p' : PC} (hi : InvS s) (hv : holds (s.pc t) = some v)
    (e1 : s'.cap = s.cap) (e2 : s'.queue = s.queue) (e3 : s'.sent = s.sent)
    (e4 : s'.recvd = s.recvd) (e5 : s'.returned = s.returned) (e6 : s'.dropped = s.dropped ++ [v]) (e7 : s'.offered = s.offered)
    (hpc : s'.pc = upd s.pc t p') (hp : p' = .done (.sendClosedDrop v) ∨ p' = .done .futDropped) : InvS s' := by
  obtain ⟨h1, h2, h3, h4, h5, h6, h7, h8, h9, h10, h11, h12, h13, h14, h15, h16, h17⟩ := hi
  have := h3 t v hv
  constructor <;> (simp only [e1, e2, e3, e4, e5, e6, e7, hpc]; try assumption)
  all_goals grind

/-- shape 5: the front of the buffer is popped by an agent that holds no token. -/
theorem invS_pop {s s' : State} {t v : Nat} (hi : InvS s) (hv : holds (s.pc t) = none)
    (e1 : s'.cap = s.cap) (e2 : s.queue = v :: s'.queue) (e3 : s'.sent = s.sent)
    (e4 : s'.recvd = s.recvd ++ [v]) (e5 : s'.returned = s.returned) (e6 : s'.dropped = s.dropped) (e7 : s'.offered = s.offered)
    (hpc : s'.pc = upd s.pc t (.done (.recvOk v))) : InvS s' := by
  obtain ⟨h1, h2, h3, h4, h5, h6, h7, h8, h9, h10, h11, h12, h13, h14, h15, h16, h17⟩ := hi
  constructor <;> (simp only [e1, e3, e4, e5, e6, e7, hpc]; try assumption)
  all_goals grind

/-- shape 6: the environment hands a fresh token to an agent at rest. -/
theorem invS_offer {s s' : State} {t v : Nat} {p' : PC} (hi : InvS s) (hv : holds (s.pc t) = none)
    (hf : v ∉ s.offered) (hs : s'.cap = s.cap ∧ s'.queue = s.queue ∧ s'.sent = s.sent ∧ s'.recvd = s.recvd ∧
      s'.returned = s.returned ∧ s'.dropped = s.dropped) (e7 : s'.offered = s.offered ++ [v])
    (hpc : s'.pc = upd s.pc t p') (hh : holds p' = some v) (hp : p'.plain = true) : InvS s' := by
  obtain ⟨h1, h2, h3, h4, h5, h6, h7, h8, h9, h10, h11, h12, h13, h14, h15, h16, h17⟩ := hi
  obtain ⟨e1, e2, e3, e4, e5, e6⟩ := hs
  constructor <;> (simp only [e1, e2, e3, e4, e5, e6, e7, hpc]; try assumption)
  all_goals grind [PC.plain]

end Fv.Chan.Mpmc2B
