import Fv.Chan.MpmcUB
import Fv.Lemmas.ChainBAll
/-!
`MpmcUB` embeds `ChainB`: every step of the channel model leaves the chain component unchanged
or performs exactly one step of the chain model on it.
-/
namespace Fv.Chan.MpmcUB
set_option maxHeartbeats 2000000

def ChainMove (cfg : Cfg) (s s' : State) : Prop :=
  s'.ch = s.ch ∨ ∃ a cl, ChainB.step cfg.chain s.ch a cl = some s'.ch

syntax "proj_close2 " ident : tactic
macro_rules | `(tactic| proj_close2 $h) => `(tactic|
  first
    | (exfalso; simp at $h:ident; done)
    | (cases $h:ident; exact Or.inl rfl)
    | (obtain ⟨c, hc, he⟩ := Option.map_eq_some_iff.1 $h:ident
       first
         | (subst he; exact Or.inr ⟨_, _, hc⟩)
         | (split at he <;> subst he <;> exact Or.inr ⟨_, _, hc⟩))
    | (obtain ⟨c, hc, he⟩ := Option.bind_eq_some_iff.1 $h:ident
       first
         | (cases he; exact Or.inr ⟨_, _, hc⟩)
         | (split at he <;> first | (exfalso; simp at he; done) | (cases he; exact Or.inr ⟨_, _, hc⟩))))

theorem callS_chain {cfg : Cfg} {s s' : State} {t h : Nat} {op : SOp}
    (hs : stepCallS cfg s t h op = some s') : ChainMove cfg s s' := by
  unfold stepCallS at hs
  dsimp only [sArcRelease] at hs
  repeat' split at hs
  all_goals proj_close2 hs

theorem startCancel_ch (s : State) (r : Nat) (p : RPC) : (startCancel s r p).ch = s.ch := by
  unfold startCancel; split <;> rfl

theorem callR_chain {cfg : Cfg} {s s' : State} {t r : Nat} {op : ROp}
    (hs : stepCallR s t r op = some s') : ChainMove cfg s s' := by
  unfold stepCallR at hs
  repeat' split at hs
  all_goals first
    | proj_close2 hs
    | (cases hs; left; rw [startCancel_ch])

theorem ret_chain {cfg : Cfg} {s s' : State} {t : Nat} (hs : stepRet s t = some s') : ChainMove cfg s s' := by
  unfold stepRet at hs
  repeat' split at hs
  all_goals proj_close2 hs

theorem env_chain {cfg : Cfg} {s s' : State} {t : Nat} {b : Bool} (hs : stepEnv s t b = some s') : ChainMove cfg s s' := by
  unfold stepEnv at hs
  repeat' split at hs
  all_goals proj_close2 hs

theorem stepS_chain' {cfg : Cfg} {s s' : State} {t h : Nat} (hs : stepS cfg s t h = some s') : ChainMove cfg s s' := by
  unfold stepS stepS_chk stepS_chain stepS_rec stepS_nLock stepS_wLock stepS_state stepS_cnt stepS_unlock stepS_fire
    stepS_fireUnpark stepS_closeChain stepS_fin at hs
  dsimp only [sArcRelease, sAfterClose] at hs
  repeat' split at hs
  all_goals proj_close2 hs

theorem unlockWith_ch (s : State) (r : Nat) (res : Res) (a : After) : (unlockWith s r res a).ch = s.ch := rfl

theorem gotItems_ch (s : State) (r : Nat) (vs : List Nat) : (gotItems s r vs).ch = s.ch := by
  unfold gotItems; dsimp only [unlockWith]; repeat' split
  all_goals rfl

theorem gotDisc_ch (s : State) (r : Nat) : (gotDisc s r).ch = s.ch := by
  unfold gotDisc; dsimp only [unlockWith]; repeat' split
  all_goals rfl

theorem afterRemove_ch (s : State) (r : Nat) : (afterRemove s r).ch = s.ch := by
  unfold afterRemove; split
  · rw [gotItems_ch]
  · rfl

theorem removeReg_ch (s : State) (r : Nat) : (removeReg s r).ch = s.ch := by
  unfold removeReg; repeat' split
  all_goals first | rfl | (rw [afterRemove_ch])

theorem toRegister_ch (s : State) (r : Nat) : (toRegister s r).ch = s.ch := by
  unfold toRegister; repeat' split
  all_goals rfl

theorem popNone_ch (s : State) (r : Nat) : (popNone s r).ch = s.ch := by
  unfold popNone; dsimp only [unlockWith]; repeat' split
  all_goals first | rfl | (rw [gotItems_ch]) | (rw [gotDisc_ch])

theorem inPop_chain {cfg : Cfg} {s s' : State} {r : Nat} (hs : stepR_inPop cfg s r = some s') : ChainMove cfg s s' := by
  unfold stepR_inPop at hs
  split at hs
  · rename_i res hcpc
    obtain ⟨c, hc, he⟩ := Option.map_eq_some_iff.1 hs
    subst he
    right; refine ⟨0, .cRet, ?_⟩
    cases res with
    | some v => exact hc
    | none => simp only []; rw [popNone_ch]; exact hc
  · split at hs
    · obtain ⟨c, hc, he⟩ := Option.map_eq_some_iff.1 hs
      subst he; exact Or.inr ⟨_, _, hc⟩
    · simp at hs

theorem stepR_chain' {cfg : Cfg} {s s' : State} {t r : Nat} (hs : stepR cfg s t r = some s') : ChainMove cfg s s' := by
  unfold stepR at hs
  split at hs
  all_goals (try (exfalso; simp at hs; done))
  all_goals (try (exact inPop_chain hs))
  all_goals (try unfold stepR_closedLoad at hs)
  all_goals (try unfold stepR_lock at hs)
  all_goals (try unfold stepR_pop at hs)
  all_goals (try unfold stepR_cons at hs)
  all_goals (try unfold stepR_senders at hs)
  all_goals (try unfold stepR_rmCnt at hs)
  all_goals (try unfold stepR_regCnt at hs)
  all_goals (try unfold stepR_unlock at hs)
  all_goals (try unfold stepR_park at hs)
  all_goals (try unfold stepR_stLoad at hs)
  all_goals (try unfold stepR_termLoad at hs)
  all_goals (try unfold stepR_tfLock at hs)
  all_goals (try unfold stepR_cwLock at hs)
  all_goals (try unfold stepR_selfWake at hs)
  all_goals (try unfold stepR_selfUnpark at hs)
  all_goals (try unfold stepR_rcntDec at hs)
  all_goals (try unfold stepR_fin at hs)
  all_goals (try dsimp only [rArcRelease, unlockWith] at hs)
  all_goals (try (repeat' split at hs))
  all_goals first
    | proj_close2 hs
    | (cases hs; left; first | rw [gotItems_ch] | rw [removeReg_ch] | rw [afterRemove_ch] | rw [toRegister_ch] | rw [gotDisc_ch])
    | (obtain ⟨c, hc, he⟩ := Option.map_eq_some_iff.1 hs
       subst he
       right; exact ⟨_, _, hc⟩)

theorem step_chain {cfg : Cfg} {s s' : State} {t : Nat} {l : Label} (hs : step cfg s t l = some s') :
    ChainMove cfg s s' := by
  cases l <;> simp only [step] at hs
  · exact callS_chain hs
  · exact callR_chain hs
  · unfold stepAdv at hs
    repeat' split at hs
    all_goals first | (exfalso; simp at hs; done) | exact stepS_chain' hs | exact stepR_chain' hs
  · exact ret_chain hs
  · exact env_chain hs

/-- **Embedding.** The chain component of every reachable channel state is a reachable state of
the chain model. -/
theorem reach_chain {cfg : Cfg} {s : State} (h : Reach cfg s) : ChainB.Reach cfg.chain s.ch := by
  induction h with
  | init => exact ChainB.Reach.init
  | step _ hs ih =>
    rcases step_chain hs with e | ⟨a, cl, hc⟩
    · rw [e]; exact ih
    · exact ChainB.Reach.step ih hc

theorem chain_inv {cfg : Cfg} {s : State} (hN : 0 < cfg.chain.N) (h : Reach cfg s) : ChainB.Inv cfg.chain s.ch :=
  ChainB.inv_reach hN (reach_chain h)

theorem reach_run {cfg : Cfg} (tr : List (Nat × Label)) (s0 s : State) (h0 : Reach cfg s0)
    (h : run cfg s0 tr = some s) : Reach cfg s := by
  induction tr generalizing s0 with
  | nil => simp [run] at h; subst h; exact h0
  | cons x rest ih =>
    obtain ⟨a, l⟩ := x
    simp only [run, Option.bind] at h
    split at h
    · simp at h
    · rename_i s1 hs1; exact ih s1 (Reach.step h0 hs1) h


/-! ### only `call` / `ret` of a thread change which handle that thread operates -/

theorem gotItems_tpc (s : State) (r : Nat) (vs : List Nat) : (gotItems s r vs).tpc = s.tpc := by
  unfold gotItems; dsimp only [unlockWith]; repeat' split
  all_goals rfl
theorem gotDisc_tpc (s : State) (r : Nat) : (gotDisc s r).tpc = s.tpc := by
  unfold gotDisc; dsimp only [unlockWith]; repeat' split
  all_goals rfl
theorem afterRemove_tpc (s : State) (r : Nat) : (afterRemove s r).tpc = s.tpc := by
  unfold afterRemove; split
  · rw [gotItems_tpc]
  · rfl
theorem removeReg_tpc (s : State) (r : Nat) : (removeReg s r).tpc = s.tpc := by
  unfold removeReg; repeat' split
  all_goals first | rfl | (rw [afterRemove_tpc])
theorem toRegister_tpc (s : State) (r : Nat) : (toRegister s r).tpc = s.tpc := by
  unfold toRegister; repeat' split
  all_goals rfl
theorem popNone_tpc (s : State) (r : Nat) : (popNone s r).tpc = s.tpc := by
  unfold popNone; dsimp only [unlockWith]; repeat' split
  all_goals first | rfl | (rw [gotItems_tpc]) | (rw [gotDisc_tpc])
theorem startCancel_tpc (s : State) (r : Nat) (p : RPC) : (startCancel s r p).tpc = s.tpc := by
  unfold startCancel; split <;> rfl

syntax "tpc_close " ident : tactic
macro_rules | `(tactic| tpc_close $h) => `(tactic|
  first
    | (exfalso; simp at $h:ident; done)
    | (cases $h:ident; rfl)
    | (obtain ⟨c, hc, he⟩ := Option.map_eq_some_iff.1 $h:ident
       first
         | (subst he; rfl)
         | (split at he <;> subst he <;> rfl))
    | (obtain ⟨c, hc, he⟩ := Option.bind_eq_some_iff.1 $h:ident
       first
         | (cases he; rfl)
         | (split at he <;> first | (exfalso; simp at he; done) | (cases he; rfl))))

theorem stepS_tpc {cfg : Cfg} {s s' : State} {t h : Nat} (hs : stepS cfg s t h = some s') : s'.tpc = s.tpc := by
  unfold stepS stepS_chk stepS_chain stepS_rec stepS_nLock stepS_wLock stepS_state stepS_cnt stepS_unlock stepS_fire
    stepS_fireUnpark stepS_closeChain stepS_fin at hs
  dsimp only [sArcRelease, sAfterClose] at hs
  repeat' split at hs
  all_goals tpc_close hs

theorem inPop_tpc {cfg : Cfg} {s s' : State} {r : Nat} (hs : stepR_inPop cfg s r = some s') : s'.tpc = s.tpc := by
  unfold stepR_inPop at hs
  split at hs
  · rename_i res hcpc
    obtain ⟨c, hc, he⟩ := Option.map_eq_some_iff.1 hs
    subst he
    cases res with
    | some v => rfl
    | none => simp only []; rw [popNone_tpc]
  · split at hs
    · obtain ⟨c, hc, he⟩ := Option.map_eq_some_iff.1 hs
      subst he; rfl
    · simp at hs

theorem stepR_tpc {cfg : Cfg} {s s' : State} {t r : Nat} (hs : stepR cfg s t r = some s') : s'.tpc = s.tpc := by
  unfold stepR at hs
  split at hs
  all_goals (try (exfalso; simp at hs; done))
  all_goals (try (exact inPop_tpc hs))
  all_goals (try unfold stepR_closedLoad at hs)
  all_goals (try unfold stepR_lock at hs)
  all_goals (try unfold stepR_pop at hs)
  all_goals (try unfold stepR_cons at hs)
  all_goals (try unfold stepR_senders at hs)
  all_goals (try unfold stepR_rmCnt at hs)
  all_goals (try unfold stepR_regCnt at hs)
  all_goals (try unfold stepR_unlock at hs)
  all_goals (try unfold stepR_park at hs)
  all_goals (try unfold stepR_stLoad at hs)
  all_goals (try unfold stepR_termLoad at hs)
  all_goals (try unfold stepR_tfLock at hs)
  all_goals (try unfold stepR_cwLock at hs)
  all_goals (try unfold stepR_selfWake at hs)
  all_goals (try unfold stepR_selfUnpark at hs)
  all_goals (try unfold stepR_rcntDec at hs)
  all_goals (try unfold stepR_fin at hs)
  all_goals (try dsimp only [rArcRelease, unlockWith] at hs)
  all_goals (try (repeat' split at hs))
  all_goals first
    | tpc_close hs
    | (cases hs; first | rw [gotItems_tpc] | rw [removeReg_tpc] | rw [afterRemove_tpc] | rw [toRegister_tpc] | rw [gotDisc_tpc])

/-- a step of thread `t` does not change which handle another thread operates -/
theorem step_tpc_other {cfg : Cfg} {s s' : State} {t : Nat} {l : Label} (hs : step cfg s t l = some s')
    (u : Nat) (hu : u ≠ t) : s'.tpc u = s.tpc u := by
  cases l <;> simp only [step] at hs
  · unfold stepCallS at hs
    dsimp only [sArcRelease] at hs
    repeat' split at hs
    all_goals first
      | (exfalso; simp at hs; done)
      | (cases hs; simp [upd, ChainB.upd, hu])
      | (obtain ⟨c, hc, he⟩ := Option.map_eq_some_iff.1 hs; subst he; simp [upd, ChainB.upd, hu])
  · unfold stepCallR at hs
    repeat' split at hs
    all_goals first
      | (exfalso; simp at hs; done)
      | (cases hs; simp [upd, ChainB.upd, hu]; done)
      | (cases hs; rw [startCancel_tpc]; simp [upd, ChainB.upd, hu])
  · unfold stepAdv at hs
    repeat' split at hs
    all_goals first
      | (exfalso; simp at hs; done)
      | (rw [stepS_tpc hs])
      | (rw [stepR_tpc hs])
  · unfold stepRet at hs
    repeat' split at hs
    all_goals first
      | (exfalso; simp at hs; done)
      | (cases hs; simp [upd, ChainB.upd, hu])
  · unfold stepEnv at hs
    repeat' split at hs
    all_goals first
      | (exfalso; simp at hs; done)
      | (cases hs; rfl)

/-- along a run of thread `t0` alone, every other thread stays where it was -/
theorem run_tpc_other {cfg : Cfg} (t0 : Nat) (tr : List (Nat × Label)) (htr : ∀ x ∈ tr, x.1 = t0) (s0 s : State)
    (h : run cfg s0 tr = some s) (u : Nat) (hu : u ≠ t0) : s.tpc u = s0.tpc u := by
  induction tr generalizing s0 with
  | nil => simp [run] at h; subst h; rfl
  | cons x rest ih =>
    obtain ⟨a, l⟩ := x
    have ha : a = t0 := htr (a, l) (by simp)
    subst ha
    simp only [run, Option.bind] at h
    split at h
    · simp at h
    · rename_i s1 hs1
      rw [ih (fun y hy => htr y (by simp [hy])) s1 h, step_tpc_other hs1 u hu]

end Fv.Chan.MpmcUB
