import Fv.Lemmas.SyncRwWakeA
import Fv.Lemmas.SyncRwWakeQ
/-!
C10(c)/(d) theorems about the `HybridRwLock` model derived from the wake invariant
(re-exported by `Fv/Props/C10.lean`): no lost wakeup, wake conservation, blocked waiters are
covered, forwarding of a consumed wake by a dropped future, quiescent deadlock freedom.
-/
namespace Fv.Sync.RwLock
open Fv.Sync
variable {cfg : Cfg} {s s' : State} {t : Tid} {l : Lbl}

/-- a thread parked without a token: a sync waiter in the park loop of `read_slow` / `write_slow`,
or the harness executor of a `read_async` / `write_async` future that returned `Pending` -/
def ParkedBlocked (s : State) (u : Tid) : Prop :=
  ((s.th u).pc = .wPark ∨ (s.th u).pc = .boPark) ∧ s.token u = false

/-- a manually polled future that returned `Pending` (its node is allocated), is not being polled
or dropped right now, and has no wake recorded since its last poll -/
def PendingBlocked (s : State) (f : Fid) : Prop :=
  (s.fut f).phase = .startedNode ∧ (s.fut f).busy = false ∧ s.wakes f = 0

/-- wake conservation: a `WOKEN` node (queued writer, or reader already unlinked by the waker)
whose owner's frame / allocation is alive is accounted for -/
theorem woken_node_accounted (hr : Reach cfg s) {n : Nid} (hlive : Live s n)
    (hwk : (s.wl.node n).woken = true) : ¬ OwnerBlocked s n ∨ ∃ t, PostWake s t n := by
  obtain ⟨-, -, hw⟩ := WInv_reach hr
  by_cases hb : OwnerBlocked s n
  · exact Or.inr (hw.wk n hwk hlive hb)
  · exact Or.inl hb

/-- NO LOST WAKEUP -/
theorem no_lost_wakeup (hr : Reach cfg s) (hfree : LockFree s) (hq : s.wl.queue ≠ []) :
    (∃ t, PreWake s t)
    ∨ ∃ n ∈ s.wl.queue,
        ((s.wl.node n).isWriter = true ∨ ∀ m ∈ s.wl.queue, (s.wl.node m).isWriter = false)
        ∧ (((s.wl.node n).woken = true ∧ (¬ OwnerBlocked s n ∨ ∃ t, PostWake s t n)) ∨ OwnerActive s n) := by
  obtain ⟨hi, -, hw⟩ := WInv_reach hr
  rcases hw.nlw hfree hq with h1 | ⟨n, hn, hwz, hcov⟩
  · exact Or.inl h1
  · right
    refine ⟨n, hn, ?_, ?_⟩
    · rcases hwz with h1 | h1
      · exact Or.inl h1
      · right
        intro m hm
        have := hi.wf.writers
        rw [h1] at this
        simpa using List.countP_eq_zero.1 this.symm m hm
    · rcases hcov with h1 | h1
      · exact Or.inl ⟨h1, woken_node_accounted hr (live_of_linked hi ((hi.wf.linked n).2 hn)) h1⟩
      · exact Or.inr h1

/-- the node of a blocked waiter is still queued (then `no_lost_wakeup` applies), or it is `WOKEN`
and the handle that unblocks its owner is carried by a waker, or a waker in the reader loop of
`wake_waiters` has unlinked it and is about to mark it -/
theorem blocked_waiter_covered (hr : Reach cfg s) :
    (∀ u, ParkedBlocked s u →
      me u (s.th u) ∈ s.wl.queue
      ∨ ((s.wl.node (me u (s.th u))).woken = true ∧ ∃ t, PostWake s t (me u (s.th u)))
      ∨ MarkPending s (me u (s.th u)))
    ∧ (∀ f, PendingBlocked s f →
      .fut f ∈ s.wl.queue
      ∨ ((s.wl.node (.fut f)).woken = true ∧ ∃ t, PostWake s t (.fut f))
      ∨ MarkPending s (.fut f)) := by
  obtain ⟨hi, -, hw⟩ := WInv_reach hr
  constructor
  · intro u ⟨hp, htk⟩
    rcases hw.pk u (by rcases hp with hp | hp <;> simp [hp]) with h1 | h1 | h1
    · exact Or.inl ((hi.wf.linked _).1 h1)
    · refine Or.inr (Or.inl ⟨h1, ?_⟩)
      rcases hp with hp | hp
      · have hc : (s.th u).cur = none := hi.syncCur u (by rw [hp]; rfl)
        have hme : me u (s.th u) = .thr u := by simp [me, hc]
        rw [hme] at h1 ⊢
        exact hw.wk (.thr u) h1 trivial ⟨hp, htk⟩
      · obtain ⟨f, hc⟩ := Option.ne_none_iff_exists'.1 (hi.asyncCur u (by rw [hp]; rfl))
        have hme : me u (s.th u) = .fut f := by simp [me, hc]
        rw [hme] at h1 ⊢
        obtain ⟨hbl, hph⟩ := hw.boPark u hp
        have hbo : (s.fut f).bo = true := by rw [← hw.boc u f hc (by rw [hp]; rfl)]; exact hbl
        refine hw.wk (.fut f) h1 (hph f hc) ?_
        unfold OwnerBlocked
        simp only [hbo, if_true]
        exact ⟨u, hc, hp, htk⟩
    · exact Or.inr (Or.inr h1)
  · intro f ⟨hph, hbz, hwz⟩
    rcases hw.fl f hph hbz with h1 | h1 | h1
    · exact Or.inl ((hi.wf.linked _).1 h1)
    · refine Or.inr (Or.inl ⟨h1, hw.wk (.fut f) h1 hph ?_⟩)
      have hbo : (s.fut f).bo = false := by
        cases hb : (s.fut f).bo with
        | false => rfl
        | true =>
          rcases hw.bb f hb with h2 | h2
          · rw [hbz] at h2; cases h2
          · rw [hph] at h2; cases h2
      unfold OwnerBlocked
      simp only [hbo, Bool.false_eq_true, if_false]
      exact ⟨hbz, hwz⟩
    · exact Or.inr (Or.inr h1)

/-- a future dropped while its node is `WOKEN` is a `PreWake` thread from the start of the drop; the
step after its `state.load` enters `wake_waiters` -/
theorem drop_woken_forwards (h : (l, s') ∈ next cfg s t) (hpc : (s.th t).pc = .dLoad)
    (hwk : (s.wl.node (.fut (curF (s.th t)))).woken = true) :
    (s'.th t).pc = .llSwap .wake ∧ PreWake s' t := by
  have hs := step_of_mem h
  cases hs <;> simp_all [withPc, setTh, PreWake, preWakePc]

/-- no thread has an enabled step other than a spurious return from `park` -/
def Quiescent (cfg : Cfg) (s : State) : Prop := ∀ t l s', (l, s') ∈ next cfg s t → l = .parkSpur

theorem runnable_of_ne {pc : Pc} (h1 : pc ≠ .idle) (h2 : pc ≠ .wPark) (h3 : pc ≠ .boPark) (h4 : pc ≠ .wnWake) :
    runnablePc pc = true := by
  cases pc <;> first | rfl | exact absurd rfl h1 | exact absurd rfl h2 | exact absurd rfl h3 | exact absurd rfl h4

/-- QUIESCENT DEADLOCK FREEDOM -/
theorem quiescent_no_blocked_waiter (hr : Reach cfg s) (hq : Quiescent cfg s) (hfree : LockFree s)
    (hexec : ∀ g, (s.fut g).bo = false → (s.fut g).phase = .startedNode → (s.fut g).busy = false → s.wakes g = 0) :
    s.wl.queue = [] ∧ (∀ u, ¬ ParkedBlocked s u) ∧ (∀ f, ¬ PendingBlocked s f) := by
  obtain ⟨hi, -, hw⟩ := WInv_reach hr
  obtain ⟨hwn, hbe⟩ := extra_reach hr
  have stuck : ∀ t, (∃ l s', (l, s') ∈ next cfg s t ∧ l ≠ .parkSpur) → False := by
    rintro t ⟨l, s', hm, hne⟩; exact hne (hq t l s' hm)
  have act : ∀ u, activePc (s.th u).pc = true → False := fun u ha =>
    stuck u (runnable_enabled (by cases hp : (s.th u).pc <;> rw [hp] at ha <;> first | rfl | cases ha))
  have pre : ∀ u, PreWake s u → False := by
    intro u hp
    refine stuck u (runnable_enabled ?_)
    rcases hp with hp | ⟨hp, _⟩ <;> cases hpc : (s.th u).pc <;> rw [hpc] at hp <;> first | rfl | cases hp
  have post : ∀ u n, PostWake s u n → False := by
    rintro u n ⟨hp, w, hw0, _⟩
    by_cases hpc : (s.th u).pc = .wnWake
    · obtain ⟨v, r, hv⟩ := hwn u hpc
      exact stuck u (wnWake_enabled hpc hv)
    · refine stuck u (runnable_enabled ?_)
      cases hpc' : (s.th u).pc <;> rw [hpc'] at hp hpc <;> first | rfl | exact absurd rfl hpc | cases hp
  have mark : ∀ n, MarkPending s n → False := by
    rintro n ⟨v, hv, -⟩
    exact stuck v (runnable_enabled (by rw [hv]; rfl))
  -- the owner of a live node is blocked (it cannot be running)
  have blocked : ∀ n, Live s n →
      (match n with
        | .thr v => (s.th v).cur = none ∧ ((s.th v).pc = .wLoad ∨ (s.th v).pc = .wPark ∨ activePc (s.th v).pc = true)
        | .fut _ => True) → OwnerBlocked s n := by
    intro n hlive hown
    cases n with
    | thr v =>
      obtain ⟨-, hpv⟩ := hown
      have hp : (s.th v).pc = .wPark := by
        rcases hpv with h1 | h1 | h1
        · exact (stuck v (runnable_enabled (by rw [h1]; rfl))).elim
        · exact h1
        · exact (act v h1).elim
      refine ⟨hp, ?_⟩
      cases htk : s.token v with
      | false => rfl
      | true => exact (stuck v (park_enabled (Or.inl hp) htk)).elim
    | fut g =>
      have hph : (s.fut g).phase = .startedNode := hlive
      cases hbo : (s.fut g).bo with
      | true =>
        simp only [OwnerBlocked, hbo, ↓reduceIte]
        have hbusy : (s.fut g).busy = true := by
          rcases hw.bb g hbo with h1 | h1
          · exact h1
          · rw [hph] at h1; cases h1
        obtain ⟨v, hc, hp⟩ := hbe g hbusy
        by_cases hpb : (s.th v).pc = .boPark
        · refine ⟨v, hc, hpb, ?_⟩
          cases htk : s.token v with
          | false => rfl
          | true => exact (stuck v (park_enabled (Or.inr hpb) htk)).elim
        · exfalso
          refine stuck v (runnable_enabled ?_)
          cases hpc : (s.th v).pc <;> rw [hpc] at hp hpb <;> first | rfl | exact absurd rfl hpb | cases hp
      | false =>
        simp only [OwnerBlocked, hbo, Bool.false_eq_true, ↓reduceIte]
        have hnb : (s.fut g).busy = false := by
          cases hbz : (s.fut g).busy with
          | false => rfl
          | true =>
            exfalso
            obtain ⟨v, hc, hp⟩ := hbe g hbz
            have hbk : (s.th v).pc ≠ .boPark := by
              intro hpb
              have := (hw.boPark v hpb).1
              rw [hw.boc v g hc hp, hbo] at this; cases this
            refine stuck v (runnable_enabled ?_)
            cases hpc : (s.th v).pc <;> rw [hpc] at hp hbk <;> first | rfl | exact absurd rfl hbk | cases hp
        exact ⟨hnb, hexec g hbo hph hnb⟩
  -- a `WOKEN` live node is impossible: its owner would be blocked with the handle in flight
  have nowoken : ∀ n, Live s n → (s.wl.node n).woken = true →
      (match n with
        | .thr v => (s.th v).cur = none ∧ ((s.th v).pc = .wLoad ∨ (s.th v).pc = .wPark ∨ activePc (s.th v).pc = true)
        | .fut _ => True) → False := by
    intro n hlive hwk hown
    obtain ⟨u, hu⟩ := hw.wk n hwk hlive (blocked n hlive hown)
    exact post u n hu
  have hempty : s.wl.queue = [] := by
    cases hqe : s.wl.queue with
    | nil => rfl
    | cons hd rest =>
      exfalso
      rcases hw.nlw hfree (by rw [hqe]; simp) with ⟨u, hu⟩ | ⟨n, hn, -, hwk | ⟨u, _, hu⟩⟩
      · exact pre u hu
      · have hl := (hi.wf.linked n).2 hn
        refine nowoken n (live_of_linked hi hl) hwk ?_
        cases n with
        | thr v =>
          obtain ⟨hcv, hsl, -⟩ := hi.thrNode v hl
          refine ⟨hcv, ?_⟩
          by_cases h1 : (s.th v).pc = .wLoad
          · exact Or.inl h1
          · by_cases h2 : (s.th v).pc = .wPark
            · exact Or.inr (Or.inl h2)
            · exfalso
              refine stuck v (runnable_enabled ?_)
              cases hpc : (s.th v).pc <;> rw [hpc] at hsl h1 h2 <;>
                first | rfl | exact absurd rfl h1 | exact absurd rfl h2 | cases hsl
        | fut g => trivial
      · exact act u hu
  refine ⟨hempty, ?_, ?_⟩
  · intro u ⟨hp, htk⟩
    rcases hw.pk u (by rcases hp with hp | hp <;> simp [hp]) with h1 | h1 | h1
    · have := (hi.wf.linked _).1 h1
      rw [hempty] at this; cases this
    · rcases hp with hp | hp
      · have hc : (s.th u).cur = none := hi.syncCur u (by rw [hp]; rfl)
        have hme : me u (s.th u) = .thr u := by simp [me, hc]
        rw [hme] at h1
        exact nowoken (.thr u) trivial h1 ⟨hc, Or.inr (Or.inl hp)⟩
      · obtain ⟨f, hc⟩ := Option.ne_none_iff_exists'.1 (hi.asyncCur u (by rw [hp]; rfl))
        have hme : me u (s.th u) = .fut f := by simp [me, hc]
        rw [hme] at h1
        exact nowoken (.fut f) ((hw.boPark u hp).2 f hc) h1 trivial
    · exact mark _ h1
  · intro f ⟨hph, hbz, _⟩
    rcases hw.fl f hph hbz with h1 | h1 | h1
    · have := (hi.wf.linked _).1 h1
      rw [hempty] at this; cases this
    · exact nowoken (.fut f) hph h1 trivial
    · exact mark _ h1

end Fv.Sync.RwLock
