import Fv.Lemmas.MpscUBProj
import Fv.Lemmas.ChainBFrame
/-!
Channel-level invariants of `MpscUB`, group A: the values handed to receive calls are exactly the
values taken out of the chain, in order (`taken ++ rout ++ pending = ch.recvd`).
-/
namespace Fv.Chan.MpscUB
open Fv.Chan.ChainB (cPend prod_frame cons_frame cWork_recvd popLoad_recvd cRet_recvd)
set_option maxHeartbeats 1000000

theorem pNext_isProd {cfg : Cfg} {c : ChainB.State} {h : Nat} {l : ChainB.Label} (e : pNext cfg c h = some l) :
    l.isProd = true := by
  unfold pNext at e
  repeat' split at e
  all_goals (first | (simp at e; done) | (cases e; rfl))

theorem cNext_work {c : ChainB.State} {l : ChainB.Label} (e : cNext c = some l) :
    l = .cRetDec ∨ l = .cRelFence ∨ l = .cRelLock ∨ l = .cRelUnlock ∨ l = .cFinLoad ∨ l = .cFinStart := by
  unfold cNext at e
  repeat' split at e
  all_goals (first | (simp at e; done) | (cases e; simp))

def popPhase : RPC → Bool
  | .pop | .inPop | .cons | .senders => true
  | _ => false

structure InvA (s : State) : Prop where
  out : s.ch.recvd = s.taken ++ s.rout ++ cPend s.ch.cpc
  quiet : popPhase s.rpc = false → s.rout = []
  send0 : s.rpc = .senders → s.rout = []
  pend : s.rpc ≠ .inPop → cPend s.ch.cpc = []

theorem invA_init : InvA init := by
  constructor <;> simp [init, ChainB.init, cPend, popPhase]

/-- the receiver-side fields group A talks about -/
def sameR (s s' : State) : Prop :=
  s'.rpc = s.rpc ∧ s'.rout = s.rout ∧ s'.taken = s.taken

/-- a step that leaves the receiver alone and moves the chain only on the producer side or along
the final walk preserves group A -/
theorem invA_of_frame {s s' : State} (hi : InvA s) (hr : sameR s s')
    (hc : s'.ch.recvd = s.ch.recvd ∧ cPend s'.ch.cpc = cPend s.ch.cpc) : InvA s' := by
  obtain ⟨h1, h2, h3⟩ := hr
  obtain ⟨c1, c2⟩ := hc
  constructor
  · rw [c1, c2, h2, h3]; exact hi.out
  · rw [h1, h2]; exact hi.quiet
  · rw [h1, h2]; exact hi.send0
  · rw [h1, c2]; exact hi.pend

syntax "chainfact " ident : tactic
macro_rules | `(tactic| chainfact $hc) => `(tactic|
  first
    | (have hf := prod_frame (by first | rfl | exact pNext_isProd (by assumption)) $hc; exact ⟨hf.1, by rw [hf.2.1]⟩)
    | (have hf := cWork_recvd (by first | (simp; done) | exact cNext_work (by assumption)) $hc; exact hf))

/-- sender-side steps: receiver fields untouched, chain moved only by producer / walk labels -/
theorem stepS_frame {cfg : Cfg} {s s' : State} {h : Nat} (hs : stepS cfg s h = some s') :
    sameR s s' ∧ s'.ch.recvd = s.ch.recvd ∧ cPend s'.ch.cpc = cPend s.ch.cpc := by
  unfold stepS stepS_chk stepS_chain stepS_rec stepS_nLoadS stepS_nLockS stepS_nUnlockS stepS_nUnparkS stepS_nLoadA
    stepS_nLockA stepS_nUnlockA stepS_wakeA stepS_unparkA stepS_closeChain stepS_wLockS stepS_wUnparkS stepS_wLockA
    stepS_fin at hs
  dsimp only [sArcRelease, sAfterClose] at hs
  repeat' split at hs
  all_goals first
    | (exfalso; simp at hs; done)
    | (cases hs; exact ⟨⟨rfl, rfl, rfl⟩, rfl, rfl⟩)
    | (obtain ⟨c, hc, he⟩ := Option.map_eq_some_iff.1 hs
       first
         | (subst he; exact ⟨⟨rfl, rfl, rfl⟩, by chainfact hc⟩)
         | (split at he <;> subst he <;> exact ⟨⟨rfl, rfl, rfl⟩, by chainfact hc⟩))
    | (obtain ⟨c, hc, he⟩ := Option.bind_eq_some_iff.1 hs
       first
         | (cases he; exact ⟨⟨rfl, rfl, rfl⟩, by chainfact hc⟩)
         | (split at he <;> first | (exfalso; simp at he; done) | (cases he; exact ⟨⟨rfl, rfl, rfl⟩, by chainfact hc⟩)))

theorem callS_frame {cfg : Cfg} {s s' : State} {t h : Nat} {op : SOp} (hs : stepCallS cfg s t h op = some s') :
    sameR s s' ∧ s'.ch.recvd = s.ch.recvd ∧ cPend s'.ch.cpc = cPend s.ch.cpc := by
  unfold stepCallS at hs
  dsimp only [sArcRelease] at hs
  repeat' split at hs
  all_goals first
    | (exfalso; simp at hs; done)
    | (cases hs; exact ⟨⟨rfl, rfl, rfl⟩, rfl, rfl⟩)
    | (obtain ⟨c, hc, he⟩ := Option.map_eq_some_iff.1 hs
       subst he; exact ⟨⟨rfl, rfl, rfl⟩, by chainfact hc⟩)


theorem invA_callR {s s' : State} {t : Nat} {op : ROp} (hi : InvA s) (hs : stepCallR s t op = some s') : InvA s' := by
  unfold stepCallR at hs
  split at hs
  · rename_i hg
    have hq := hi.quiet (by rw [hg.2.1]; rfl)
    have hp := hi.pend (by rw [hg.2.1]; simp)
    have ho := hi.out
    repeat' split at hs
    all_goals first
      | (exfalso; simp at hs; done)
      | (cases hs; constructor <;> simp_all [popPhase])
  · simp at hs

theorem invA_ret {s s' : State} {t : Nat} (hi : InvA s) (hs : stepRet s t = some s') : InvA s' := by
  unfold stepRet at hs
  repeat' split at hs
  all_goals first
    | (exfalso; simp at hs; done)
    | (cases hs; exact invA_of_frame hi ⟨rfl, rfl, rfl⟩ ⟨rfl, rfl⟩)
    | (cases hs
       rename_i hd
       have hq := hi.quiet (by rw [hd]; rfl)
       have hp := hi.pend (by rw [hd]; simp)
       have ho := hi.out
       constructor <;> simp_all [popPhase])

/-- `triDone` from a state whose pending list is empty -/
theorem invA_triDone {s s' : State} {res : TRes} (hout : s.ch.recvd = s.taken ++ s.rout)
    (hp : cPend s.ch.cpc = []) (hres : ∀ vs, res = .ok vs → vs = s.rout) (hne : (∀ vs, res ≠ .ok vs) → s.rout = [])
    (hs : triDone s res = some s') : InvA s' := by
  unfold triDone at hs
  dsimp only [rTry] at hs
  cases res with
  | ok vs =>
    have := hres vs rfl
    subst this
    clear hres hne
    repeat' split at hs
    all_goals first
      | (exfalso; simp at hs; done)
      | (cases hs; constructor <;> simp_all [popPhase])
  | empty =>
    have hr := hne (by simp)
    clear hres hne
    repeat' split at hs
    all_goals first
      | (exfalso; simp at hs; done)
      | (cases hs; constructor <;> simp_all [popPhase])
  | disc =>
    have hr := hne (by simp)
    clear hres hne
    repeat' split at hs
    all_goals first
      | (exfalso; simp at hs; done)
      | (cases hs; constructor <;> simp_all [popPhase])


theorem invA_stepR {cfg : Cfg} {s s' : State} (hi : InvA s) (hs : stepR cfg s = some s') : InvA s' := by
  have ho := hi.out
  unfold stepR at hs
  split at hs
  all_goals (try (exfalso; simp at hs; done))
  case _ hpc =>  -- closedLoad
    have hq := hi.quiet (by rw [hpc]; rfl)
    have hp := hi.pend (by rw [hpc]; simp)
    unfold stepR_closedLoad at hs; dsimp only [rTry] at hs
    repeat' split at hs
    all_goals (cases hs; constructor <;> simp_all [popPhase])
  case _ hpc =>  -- pop
    have hp := hi.pend (by rw [hpc]; simp)
    unfold stepR_pop at hs
    obtain ⟨c, hc, he⟩ := Option.map_eq_some_iff.1 hs
    subst he
    have hf := popLoad_recvd hc
    constructor <;> simp_all [popPhase]
  case _ hpc =>  -- inPop
    unfold stepR_inPop at hs
    split at hs
    · rename_i r hcpc
      obtain ⟨c, hc, he⟩ := Option.bind_eq_some_iff.1 hs
      have hf := cRet_recvd hc
      cases r with
      | some v =>
        simp at he; subst he
        constructor <;> simp_all [popPhase]
      | none =>
        simp only at he
        split at he
        · rename_i hne
          refine invA_triDone (s := { s with ch := c }) ?_ ?_ ?_ ?_ he
          · simp_all
          · simp_all
          · intro vs e; cases e; rfl
          · intro h; exact absurd rfl (h s.rout)
        · rename_i hne
          have hr : s.rout = [] := by simpa using hne
          split at he
          · refine invA_triDone (s := { s with ch := c }) ?_ ?_ ?_ ?_ he
            · simp_all
            · simp_all
            · intro vs e; cases e
            · intro _; exact hr
          · cases he; constructor <;> simp_all [popPhase]
    · split at hs
      · rename_i l hl
        obtain ⟨c, hc, he⟩ := Option.map_eq_some_iff.1 hs
        subst he
        have hf := cWork_recvd (cNext_work hl) hc
        have := hi.quiet; have := hi.send0; have := hi.pend
        constructor <;> simp_all [popPhase]
      · simp at hs
  case _ hpc =>  -- cons
    have hp := hi.pend (by rw [hpc]; simp)
    unfold stepR_cons at hs
    split at hs
    · cases hs; constructor <;> simp_all [popPhase]
    · refine invA_triDone (s := { s with consumed := s.consumed + 1 }) ?_ ?_ ?_ ?_ hs
      · simp_all
      · simp_all
      · intro vs e; cases e; rfl
      · intro h; exact absurd rfl (h s.rout)
  case _ hpc =>  -- senders
    have hp := hi.pend (by rw [hpc]; simp)
    have h0 := hi.send0 hpc
    unfold stepR_senders at hs
    repeat' split at hs
    · refine invA_triDone ?_ ?_ ?_ ?_ hs
      · simp_all
      · simp_all
      · intro vs e; cases e
      · intro _; exact h0
    · cases hs; constructor <;> simp_all [popPhase]
    · cases hs; constructor <;> simp_all [popPhase]
  all_goals (rename_i hpc)
  all_goals (have hq := hi.quiet (by rw [hpc]; rfl))
  all_goals (have hp := hi.pend (by rw [hpc]; simp))
  all_goals (try unfold stepR_park at hs)
  all_goals (try unfold stepR_swapFlag at hs)
  all_goals (try unfold stepR_uCntA at hs)
  all_goals (try unfold stepR_closeCas at hs)
  all_goals (try unfold stepR_closeSwap at hs)
  all_goals (try unfold stepR_dropStore at hs)
  all_goals (try unfold stepR_emptyLoad at hs)
  all_goals (try unfold stepR_fin at hs)
  all_goals (try dsimp only [rTry, rArcRelease] at hs)
  all_goals (try (repeat' split at hs))
  all_goals first
    | (exfalso; simp at hs; done)
    | (cases hs; constructor <;> simp_all [popPhase])
    | (obtain ⟨c, hc, he⟩ := Option.map_eq_some_iff.1 hs
       have hf := cWork_recvd (by first | (simp; done) | exact cNext_work (by assumption)) hc
       first
         | (split at he <;> subst he <;> constructor <;> simp_all [popPhase])
         | (subst he; constructor <;> simp_all [popPhase]))

theorem invA_step {cfg : Cfg} {s s' : State} {t : Nat} {l : Label} (hi : InvA s) (hs : step cfg s t l = some s') :
    InvA s' := by
  cases l <;> simp only [step] at hs
  · have := callS_frame hs; exact invA_of_frame hi this.1 this.2
  · exact invA_callR hi hs
  · unfold stepAdv at hs
    repeat' split at hs
    all_goals first
      | (exfalso; simp at hs; done)
      | (have := stepS_frame hs; exact invA_of_frame hi this.1 this.2)
      | exact invA_stepR hi hs
  · exact invA_ret hi hs

theorem invA_reach {cfg : Cfg} {s : State} (h : Reach cfg s) : InvA s := by
  induction h with
  | init => exact invA_init
  | step _ hs ih => exact invA_step ih hs

end Fv.Chan.MpscUB
