import Fv.Lemmas.LogJsonEvent
/-! C20 helper lemmas: event-level round trip and single-line output of `JsonLinesFormatter`. -/
namespace Fv.Log.Json
open Fv.Log

/-- the float renderings supplied for finite floats are number tokens (serde_json always prints a
`.` or an exponent, so they are never integer tokens) -/
def FloatsOk (ev : Event) : Prop := ∀ k r d, (k, LogValue.float (some r) d) ∈ ev.fields → FloatTok r

/-- `fields` is a `HashMap`: keys are distinct -/
def KeysDistinct (ev : Event) : Prop := (ev.fields.map (·.1)).Nodup

theorem cleanScalar_toJson {ev : Event} (hf : FloatsOk ev) {k : Text} {v : LogValue} (h : (k, v) ∈ ev.fields) :
    CleanScalar (toJson v) := by
  cases v with
  | float j d =>
    cases j with
    | none => trivial
    | some r => exact hf k r d h
  | _ => trivial

theorem clean_record (fl : Bool) (ev : Event) (hf : FloatsOk ev) : ∀ e ∈ record fl ev, CleanValue e.2 := by
  intro e he
  have hcore : ∀ e ∈ coreMap ev, CleanValue e.2 := by
    intro e he
    obtain ⟨_, s, hs⟩ := mem_coreMap he
    rw [hs]; trivial
  simp only [record] at he
  split at he
  · exact hcore e he
  · split at he
    · rcases mem_flattenInto he with h | ⟨k, v, hm, rfl⟩
      · exact hcore e h
      · exact cleanScalar_toJson hf hm
    · rcases mem_insertKV he with rfl | h
      · intro e' he'
        rcases mem_nestedFields he' with h | ⟨k, v, hm, rfl⟩
        · simp at h
        · exact cleanScalar_toJson hf hm
      · exact hcore e h

/-- the decoder reads back exactly the map `format_event` serialised -/
theorem parseLine_formatEvent (fl : Bool) (ev : Event) (hf : FloatsOk ev) :
    parseLine (formatEvent fl ev) = some (record fl ev) :=
  parseLine_serObj _ (clean_record fl ev hf)

theorem optionMatch_eq_map {α β} (o : Option α) (f : α → β) :
    (match o with | some v => some (f v) | none => none) = o.map f := by
  cases o <;> rfl

theorem viewOf_nested (ev : Event) (hk : KeysDistinct ev) :
    ∃ v, viewOf false (record false ev) = some v ∧ v.level = ev.level.text ∧ v.target = ev.target ∧
      v.message = ev.message ∧ ∀ k, lookup k v.fields = (lookup k ev.fields).map toJson := by
  by_cases hempty : ev.fields.isEmpty = true
  · have hnil : ev.fields = [] := by simpa using hempty
    simp only [record, hempty, if_true, viewOf, lookup_coreMap_level, lookup_coreMap_target, strOf, lookup_coreMap_message,
      lookup_coreMap_fields, Bool.false_eq_true, if_false]
    refine ⟨_, rfl, rfl, rfl, ?_, ?_⟩
    · cases ev.message <;> rfl
    · intro k; simp [hnil, lookup]
  · have hl : lookup kLevel (insertKV kFields (Value.obj (nestedFields ev.fields [])) (coreMap ev)) = some (.scalar (.str ev.level.text)) := by
      rw [lookup_insertKV, lookup_coreMap_level]; simp (decide := true)
    have ht : lookup kTarget (insertKV kFields (Value.obj (nestedFields ev.fields [])) (coreMap ev)) = some (.scalar (.str ev.target)) := by
      rw [lookup_insertKV, lookup_coreMap_target]; simp (decide := true)
    have hm : lookup kMessage (insertKV kFields (Value.obj (nestedFields ev.fields [])) (coreMap ev)) = ev.message.map (fun s => .scalar (.str s)) := by
      rw [lookup_insertKV, lookup_coreMap_message]; simp (decide := true)
    have hfz : lookup kFields (insertKV kFields (Value.obj (nestedFields ev.fields [])) (coreMap ev)) = some (.obj (nestedFields ev.fields [])) := by
      rw [lookup_insertKV]; simp
    simp only [record, hempty, Bool.false_eq_true, if_false, viewOf, hl, ht, hm, hfz, strOf]
    refine ⟨_, rfl, rfl, rfl, ?_, ?_⟩
    · cases ev.message <;> rfl
    · intro k
      show lookup k (nestedFields ev.fields []) = _
      rw [lookup_nestedFields _ hk]
      cases lookup k ev.fields <;> rfl

/-! ### flattened records -/

theorem lookup_flatFields (rec : List (Text × Value)) (hs : ∀ e ∈ rec, ∃ s, e.2 = .scalar s) (k : Text) :
    lookup k (flatFields rec) =
      if coreKeys.contains k then none
      else match lookup k rec with
        | some (.scalar s) => some s
        | _ => none := by
  induction rec with
  | nil => simp [flatFields, lookup]
  | cons e rest ih =>
    obtain ⟨k2, v2⟩ := e
    obtain ⟨s, hs2⟩ := hs (k2, v2) (by simp)
    simp only at hs2
    subst hs2
    have ih' := ih (fun e he => hs e (by simp [he]))
    simp only [flatFields]
    by_cases hc : coreKeys.contains k2 = true
    · simp only [hc, if_true, ih', lookup]
      by_cases hkk : k = k2
      · subst hkk
        have hc' : k ∈ coreKeys := by simpa using hc
        simp [hc']
      · simp [hkk]
    · simp only [hc, Bool.false_eq_true, if_false, lookup]
      by_cases hkk : k = k2
      · subst hkk
        have hc' : k ∉ coreKeys := by simpa using hc
        simp [hc']
      · simp only [hkk, if_false, ih']

theorem containsKey_coreMap_false {ev : Event} {k : Text} (h : coreKeys.contains k = false) : containsKey k (coreMap ev) = false := by
  rw [containsKey_eq_lookup]
  rw [lookup_eq_none_of_not_mem]
  · rfl
  · intro hm
    obtain ⟨e, he, hk⟩ := List.mem_map.mp hm
    have := (mem_coreMap he).1
    rw [hk] at this
    have : coreKeys.contains k = true := by simpa using this
    rw [h] at this; exact absurd this (by decide)

theorem viewOf_flat (ev : Event) (hk : KeysDistinct ev) (hres : ∀ k ∈ ev.fields.map (·.1), coreKeys.contains k = false) :
    ∃ v, viewOf true (record true ev) = some v ∧ v.level = ev.level.text ∧ v.target = ev.target ∧
      v.message = ev.message ∧ ∀ k, lookup k v.fields = (lookup k ev.fields).map toJson := by
  have hrec : record true ev = flattenInto (coreMap ev) ev.fields := by
    simp only [record]
    split
    · rename_i h
      have : ev.fields = [] := by simpa using h
      rw [this]; rfl
    · rfl
  have hnot : ∀ k, coreKeys.contains k = true → k ∉ ev.fields.map (·.1) := by
    intro k hc hm
    have := hres k hm
    rw [hc] at this; exact absurd this (by decide)
  have hl : lookup kLevel (record true ev) = some (.scalar (.str ev.level.text)) := by
    rw [hrec, lookup_flattenInto_not_mem _ _ _ (hnot _ (by decide)), lookup_coreMap_level]
  have ht : lookup kTarget (record true ev) = some (.scalar (.str ev.target)) := by
    rw [hrec, lookup_flattenInto_not_mem _ _ _ (hnot _ (by decide)), lookup_coreMap_target]
  have hm : lookup kMessage (record true ev) = ev.message.map (fun s => .scalar (.str s)) := by
    rw [hrec, lookup_flattenInto_not_mem _ _ _ (hnot _ (by decide)), lookup_coreMap_message]
  have hscal : ∀ e ∈ record true ev, ∃ s, e.2 = Value.scalar s := by
    intro e he
    rw [hrec] at he
    rcases mem_flattenInto he with h | ⟨k, v, _, rfl⟩
    · obtain ⟨_, s, hs⟩ := mem_coreMap h
      exact ⟨_, hs⟩
    · exact ⟨_, rfl⟩
  simp only [viewOf, hl, ht, hm, strOf, if_true]
  refine ⟨_, rfl, rfl, rfl, ?_, ?_⟩
  · cases ev.message <;> rfl
  · intro k
    show lookup k (flatFields (record true ev)) = _
    rw [lookup_flatFields _ hscal]
    by_cases hc : coreKeys.contains k = true
    · simp only [hc, if_true]
      rw [lookup_eq_none_of_not_mem _ _ (hnot k hc)]; rfl
    · have hc' : coreKeys.contains k = false := by simpa using hc
      simp only [hc', Bool.false_eq_true, if_false]
      rw [hrec, lookup_flattenInto _ hk _ _ (containsKey_coreMap_false hc')]
      cases lookup k ev.fields <;> rfl

/-! ### one line -/

theorem numChar_ge {c : Char} (h : numChar c = true) : 0x20 ≤ c.toNat := by
  simp only [numChar, Bool.or_eq_true, decide_eq_true_eq] at h
  rcases h with ((((h | h) | h) | h) | h) | h
  · simp only [isDigit, Bool.and_eq_true, decide_eq_true_eq] at h; omega
  all_goals subst h; decide

theorem serScalar_no_control (v : Scalar) (hv : CleanScalar v) : ∀ c ∈ serScalar v, 0x20 ≤ c.toNat := by
  intro c hc
  cases v with
  | str s => exact encodeString_no_control s c hc
  | int i => exact numChar_ge (decInt_numChar i c hc)
  | bool b =>
    cases b
    · have : serScalar (.bool false) = ['f', 'a', 'l', 's', 'e'] := rfl
      rw [this] at hc; simp at hc
      rcases hc with rfl | rfl | rfl | rfl | rfl <;> decide
    · have : serScalar (.bool true) = ['t', 'r', 'u', 'e'] := rfl
      rw [this] at hc; simp at hc
      rcases hc with rfl | rfl | rfl | rfl <;> decide
  | null =>
    have : serScalar .null = ['n', 'u', 'l', 'l'] := rfl
    rw [this] at hc; simp at hc
    rcases hc with rfl | rfl | rfl <;> decide
  | num r => exact numChar_ge (hv.2.1 c hc)

theorem serMembersWith_no_control {α} (sv : α → Text) (kvs : List (Text × α))
    (h : ∀ e ∈ kvs, ∀ c ∈ sv e.2, 0x20 ≤ c.toNat) : ∀ c ∈ serMembersWith sv kvs, 0x20 ≤ c.toNat := by
  induction kvs with
  | nil => simp [serMembersWith]
  | cons e tail ih =>
    obtain ⟨k, v⟩ := e
    have hv := h (k, v) (by simp)
    cases tail with
    | nil =>
      intro c hc
      rw [serMembersWith_single] at hc
      simp only [List.mem_append, List.mem_cons] at hc
      rcases hc with hc | rfl | hc
      · exact encodeString_no_control k c hc
      · decide
      · exact hv c hc
    | cons e2 tail2 =>
      intro c hc
      rw [serMembersWith_cons2] at hc
      simp only [List.mem_append, List.mem_cons] at hc
      rcases hc with (hc | rfl | hc) | rfl | hc
      · exact encodeString_no_control k c hc
      · decide
      · exact hv c hc
      · decide
      · exact ih (fun e he => h e (by simp [he])) c hc

theorem serObjWith_no_control {α} (sv : α → Text) (kvs : List (Text × α))
    (h : ∀ e ∈ kvs, ∀ c ∈ sv e.2, 0x20 ≤ c.toNat) : ∀ c ∈ serObjWith sv kvs, 0x20 ≤ c.toNat := by
  intro c hc
  simp only [serObjWith, List.mem_cons, List.mem_append, List.not_mem_nil, or_false] at hc
  rcases hc with rfl | hc | rfl
  · decide
  · exact serMembersWith_no_control sv kvs h c hc
  · decide

theorem serValue_no_control (v : Value) (hv : CleanValue v) : ∀ c ∈ serValue v, 0x20 ≤ c.toNat := by
  cases v with
  | scalar s => exact serScalar_no_control s hv
  | obj kvs => exact serObjWith_no_control serScalar kvs (fun e he => serScalar_no_control e.2 (hv e he))

/-- a JSON-lines record is `body ++ "\n"` where `body` has no character below 0x20 -/
theorem formatEvent_one_line (fl : Bool) (ev : Event) (hf : FloatsOk ev) :
    ∃ body, formatEvent fl ev = body ++ ['\n'] ∧ ∀ c ∈ body, 0x20 ≤ c.toNat :=
  ⟨serObj (record fl ev), rfl,
    serObjWith_no_control serValue _ (fun e he => serValue_no_control e.2 (clean_record fl ev hf e he))⟩

end Fv.Log.Json
