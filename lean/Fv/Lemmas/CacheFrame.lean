import Fv.Lemmas.CacheBasic
/-
Frame facts shared by the cache property proofs: what maintenance can do to the map and the
clock.  Every maintenance function only ever REMOVES entries from the map (it never adds a
binding and never changes an entry), and never touches the clock.  Stated for every policy and
every oracle.
-/
namespace Fv.Cache
variable {P : Type}

/-- `m' ⊑ m`: every binding of `m'` is a binding of `m` (same entry) -/
def MapSub (m' m : List (Nat × Entry)) : Prop := ∀ p, p ∈ m' → p ∈ m

theorem MapSub.refl (m : List (Nat × Entry)) : MapSub m m := fun _ h => h
theorem MapSub.trans {a b c : List (Nat × Entry)} (h1 : MapSub a b) (h2 : MapSub b c) : MapSub a c :=
  fun p h => h2 p (h1 p h)
theorem erase_sub (m : List (Nat × Entry)) (k : Nat) : MapSub (erase m k) m := by
  intro p h; unfold erase at h; exact (List.mem_filter.1 h).1

/-- the part of a state the map/clock frame lemmas talk about -/
def Frame (s' s : State P) : Prop := MapSub s'.map s.map ∧ s'.now = s.now

theorem Frame.refl (s : State P) : Frame s s := ⟨MapSub.refl _, rfl⟩
theorem Frame.trans {a b c : State P} (h1 : Frame a b) (h2 : Frame b c) : Frame a c :=
  ⟨h1.1.trans h2.1, h1.2.trans h2.2⟩

/-- a fold of frame-preserving steps preserves the frame -/
theorem foldl_frame {α} (f : State P → α → State P) (hf : ∀ s a, Frame (f s a) s) :
    ∀ (l : List α) (s : State P), Frame (l.foldl f s) s := by
  intro l
  induction l with
  | nil => intro s; exact Frame.refl s
  | cons a rest ih => intro s; exact (ih (f s a)).trans (hf s a)

/-! ### primitives: map and clock untouched -/
@[simp] theorem modAux_map (s : State P) (i : Nat) (f : Aux P → Aux P) : (s.modAux i f).map = s.map := rfl
@[simp] theorem modAux_now (s : State P) (i : Nat) (f : Aux P → Aux P) : (s.modAux i f).now = s.now := rfl
@[simp] theorem modAux_aux_len (s : State P) (i : Nat) (f : Aux P → Aux P) : (s.modAux i f).aux.length = s.aux.length := by
  simp only [State.modAux]
  generalize s.aux = l
  induction l generalizing i with
  | nil => simp [modAt]
  | cons a rest ih => cases i <;> simp [modAt, ih]
@[simp] theorem cancelTimer_map (s : State P) (i : Nat) (h : Option Nat) : (s.cancelTimer i h).map = s.map := rfl
@[simp] theorem cancelTimer_now (s : State P) (i : Nat) (h : Option Nat) : (s.cancelTimer i h).now = s.now := rfl
@[simp] theorem subCost_map (s : State P) (c : Nat) : (s.subCost c).map = s.map := rfl
@[simp] theorem subCost_now (s : State P) (c : Nat) : (s.subCost c).now = s.now := rfl
@[simp] theorem addCost_map (s : State P) (c : Nat) : (s.addCost c).map = s.map := rfl
@[simp] theorem addCost_now (s : State P) (c : Nat) : (s.addCost c).now = s.now := rfl
@[simp] theorem logRemoved_map (s : State P) (k : Nat) (e : Entry) (r : Reason) : (s.logRemoved k e r).map = s.map := rfl
@[simp] theorem logRemoved_now (s : State P) (k : Nat) (e : Entry) (r : Reason) : (s.logRemoved k e r).now = s.now := rfl
@[simp] theorem pushEvent_map (cfg : Cfg) (s : State P) (k c : Nat) : (s.pushEvent cfg k c).map = s.map := rfl
@[simp] theorem pushEvent_now (cfg : Cfg) (s : State P) (k c : Nat) : (s.pushEvent cfg k c).now = s.now := rfl
@[simp] theorem polAccess_map (ops : PolicyOps P) (s : State P) (i k c : Nat) : (s.polAccess ops i k c).map = s.map := rfl
@[simp] theorem polAccess_now (ops : PolicyOps P) (s : State P) (i k c : Nat) : (s.polAccess ops i k c).now = s.now := rfl
@[simp] theorem polRemove_map (ops : PolicyOps P) (s : State P) (i k : Nat) : (s.polRemove ops i k).map = s.map := rfl
@[simp] theorem polRemove_now (ops : PolicyOps P) (s : State P) (i k : Nat) : (s.polRemove ops i k).now = s.now := rfl
@[simp] theorem polClear_map (ops : PolicyOps P) (s : State P) (i : Nat) : (s.polClear ops i).map = s.map := rfl
@[simp] theorem polClear_now (ops : PolicyOps P) (s : State P) (i : Nat) : (s.polClear ops i).now = s.now := rfl

theorem notify_map (cfg : Cfg) (s : State P) (n : Notif) : (s.notify cfg n).map = s.map := by
  unfold State.notify; dsimp only; (repeat' split) <;> rfl
theorem notify_now (cfg : Cfg) (s : State P) (n : Notif) : (s.notify cfg n).now = s.now := by
  unfold State.notify; dsimp only; (repeat' split) <;> rfl
theorem notify_frame (cfg : Cfg) (s : State P) (n : Notif) : Frame (s.notify cfg n) s :=
  ⟨by rw [notify_map]; exact MapSub.refl _, notify_now cfg s n⟩

theorem polAdmit_map (ops : PolicyOps P) (s : State P) (i k c : Nat) : (s.polAdmit ops i k c).1.map = s.map := by
  unfold State.polAdmit; split <;> rfl
theorem polAdmit_now (ops : PolicyOps P) (s : State P) (i k c : Nat) : (s.polAdmit ops i k c).1.now = s.now := by
  unfold State.polAdmit; split <;> rfl
theorem polEvict_map (ops : PolicyOps P) (s : State P) (i n : Nat) (h : List Nat) : (s.polEvict ops i n h).1.map = s.map := by
  unfold State.polEvict; dsimp only; (repeat' split) <;> rfl
theorem polEvict_now (ops : PolicyOps P) (s : State P) (i n : Nat) (h : List Nat) : (s.polEvict ops i n h).1.now = s.now := by
  unfold State.polEvict; dsimp only; (repeat' split) <;> rfl

theorem notifyAll_frame (cfg : Cfg) : ∀ (ns : List Notif) (s : State P), Frame (State.notifyAll cfg s ns) s := by
  intro ns
  induction ns with
  | nil => intro s; exact Frame.refl s
  | cons n rest ih => intro s; exact (ih _).trans (notify_frame cfg s n)

theorem applyAccesses_frame (ops : PolicyOps P) (i : Nat) :
    ∀ (l : List (Nat × Nat)) (s : State P), Frame (State.applyAccesses ops i s l) s := by
  intro l
  induction l with
  | nil => intro s; exact Frame.refl s
  | cons a rest ih =>
    intro s
    obtain ⟨k, c⟩ := a
    exact (ih _).trans ⟨by simp; exact MapSub.refl _, by simp⟩

/-! ### removals -/
theorem evictVictim_frame (cfg : Cfg) (ops : PolicyOps P) (s : State P) (v : Nat) :
    Frame (s.evictVictim cfg ops v).1 s := by
  unfold State.evictVictim
  split
  · exact ⟨by simpa using erase_sub s.map v, rfl⟩
  · exact Frame.refl s

theorem evictVictims_frame (cfg : Cfg) (ops : PolicyOps P) :
    ∀ (vs : List Nat) (s : State P) (rel : Nat) (ns : List Notif),
      Frame (State.evictVictims cfg ops s vs rel ns).1 s := by
  intro vs
  induction vs with
  | nil => intro s rel ns; exact Frame.refl s
  | cons v rest ih =>
    intro s rel ns
    have hv := evictVictim_frame cfg ops s v
    unfold State.evictVictims
    split
    · next s' c n heq => rw [heq] at hv; exact (ih _ _ _).trans hv
    · next s' c heq => rw [heq] at hv; exact (ih _ _ _).trans hv

theorem applyWrite_frame (cfg : Cfg) (ops : PolicyOps P) (s : State P) (i : Nat) (w : Nat × Nat) :
    Frame (s.applyWrite cfg ops i w) s := by
  have ha : Frame (s.polAdmit ops i w.1 w.2).1 s :=
    ⟨by rw [polAdmit_map]; exact MapSub.refl _, polAdmit_now ops s i w.1 w.2⟩
  unfold State.applyWrite
  generalize s.polAdmit ops i w.1 w.2 = r at ha
  obtain ⟨s1, d⟩ := r
  cases d with
  | admit => exact ha
  | reject => exact ha
  | admitAndEvict vs =>
    simp only
    have hv := evictVictims_frame cfg ops vs s1 0 []
    generalize State.evictVictims cfg ops s1 vs 0 [] = r at hv
    obtain ⟨s2, rel, ns⟩ := r
    exact ((notifyAll_frame cfg ns _).trans ⟨by simpa using hv.1, by simpa using hv.2⟩).trans ha

theorem applyWrites_frame (cfg : Cfg) (ops : PolicyOps P) (i : Nat) :
    ∀ (ws : List (Nat × Nat)) (s : State P), Frame (State.applyWrites cfg ops i s ws) s := by
  intro ws
  induction ws with
  | nil => intro s; exact Frame.refl s
  | cons w rest ih => intro s; exact (ih _).trans (applyWrite_frame cfg ops s i w)

theorem performShard_frame (cfg : Cfg) (ops : PolicyOps P) (o : Oracle) (s : State P) (i limit : Nat) :
    Frame (s.performShard cfg ops o i limit) s := by
  unfold State.performShard
  split
  · exact Frame.refl s
  · next a _ =>
    refine (applyAccesses_frame ops i _ _).trans ?_
    refine (applyWrites_frame cfg ops i _ _).trans ?_
    exact (applyAccesses_frame ops i _ _).trans ⟨MapSub.refl _, rfl⟩

theorem ttlRemove_frame (cfg : Cfg) (ops : PolicyOps P) (i : Nat) (s : State P) (k : Nat) :
    Frame (State.ttlRemove cfg ops i s k) s := by
  unfold State.ttlRemove
  split
  · refine ⟨?_, ?_⟩
    · simp only [logRemoved_map, notify_map, subCost_map, polRemove_map]; exact erase_sub _ _
    · simp only [logRemoved_now, notify_now, subCost_now, polRemove_now]
  · exact Frame.refl s

theorem cleanupTtl_frame (cfg : Cfg) (ops : PolicyOps P) (o : Oracle) (s : State P) (i : Nat) :
    Frame (s.cleanupTtl cfg ops o i) s := by
  unfold State.cleanupTtl
  split
  · exact Frame.refl s
  · exact (foldl_frame _ (ttlRemove_frame cfg ops i) _ _).trans ⟨MapSub.refl _, rfl⟩

theorem ttiRemove_frame (cfg : Cfg) (ops : PolicyOps P) (i : Nat) (s : State P) (k : Nat) :
    Frame (State.ttiRemove cfg ops i s k) s := by
  unfold State.ttiRemove
  split
  · refine ⟨?_, ?_⟩
    · simp only [notify_map, cancelTimer_map, subCost_map, polRemove_map, logRemoved_map]; exact erase_sub _ _
    · simp only [notify_now, cancelTimer_now, subCost_now, polRemove_now, logRemoved_now]
  · exact Frame.refl s

theorem cleanupTti_frame (cfg : Cfg) (ops : PolicyOps P) (o : Oracle) (s : State P) (i : Nat) :
    Frame (s.cleanupTti cfg ops o i) s := by
  unfold State.cleanupTti
  split
  · exact Frame.refl s
  · exact foldl_frame _ (ttiRemove_frame cfg ops i) _ _

theorem capRemove_frame (cfg : Cfg) (i : Nat) (s : State P) (k : Nat) : Frame (State.capRemove cfg i s k) s := by
  unfold State.capRemove
  split
  · split
    · refine ⟨?_, ?_⟩
      · simp only [notify_map, logRemoved_map]; exact erase_sub _ _
      · simp only [notify_now, logRemoved_now]
    · exact Frame.refl s
  · exact Frame.refl s

theorem cleanupCapacity_frame (cfg : Cfg) (ops : PolicyOps P) (o : Oracle) (s : State P) (i : Nat) :
    Frame (s.cleanupCapacity cfg ops o i) s := by
  unfold State.cleanupCapacity
  simp only
  split
  · exact Frame.refl s
  · have he : Frame (s.polEvict ops i (s.met.currentCost - cfg.capacity) (o.evictHint.getD i [])).1 s :=
      ⟨by rw [polEvict_map]; exact MapSub.refl _, polEvict_now ..⟩
    generalize s.polEvict ops i (s.met.currentCost - cfg.capacity) (o.evictHint.getD i []) = r at he
    obtain ⟨s1, victims, released⟩ := r
    simp only
    split
    · exact he
    · exact (Frame.trans ⟨MapSub.refl _, rfl⟩ (foldl_frame _ (capRemove_frame cfg i) victims s1)).trans he

theorem runMaintenance_frame (cfg : Cfg) (ops : PolicyOps P) (o : Oracle) (s : State P) :
    Frame (s.runMaintenance cfg ops o) s := by
  unfold State.runMaintenance
  apply foldl_frame
  intro s i
  exact (cleanupCapacity_frame cfg ops o _ i).trans
    ((cleanupTti_frame cfg ops o _ i).trans
      ((cleanupTtl_frame cfg ops o _ i).trans (performShard_frame cfg ops o s i cfg.drainLimit)))

theorem flush_frame (cfg : Cfg) (ops : PolicyOps P) (o : Oracle) (s : State P) : Frame (s.flush cfg ops o) s := by
  unfold State.flush
  split
  · apply foldl_frame; intro s i; exact performShard_frame cfg ops o s i U64
  · exact Frame.refl s

theorem opportunistic_frame (cfg : Cfg) (ops : PolicyOps P) (o : Oracle) (s : State P) (k : Nat) :
    Frame (s.opportunistic cfg ops o k) s := by
  unfold State.opportunistic
  split
  · exact performShard_frame ..
  · exact Frame.refl s

end Fv.Cache
