import Fv.Lemmas.ChanHist
/-!
The accounting theorem: along every linearization the model's ghost accounts, the operations
still in progress and the observable results of the operations that already returned add up.
-/
namespace Fv.Chan
open List LinCore

/-- the operations of the pending entries (what the raw history knows about them) -/
def opsOf (pend : Pend PL) : List (Nat × Op) := pend.map (fun x => (x.1, x.2.1))

theorem lookup_opsOf {t : Nat} {pend : Pend PL} :
    LinCore.lookup t (opsOf pend) = (LinCore.lookup t pend).map (·.1) := by
  induction pend with
  | nil => rfl
  | cons a r ih =>
    obtain ⟨u, p⟩ := a
    simp only [opsOf, map_cons, LinCore.lookup] at ih ⊢
    split <;> simp_all [opsOf]

theorem erase_opsOf {t : Nat} {pend : Pend PL} : LinCore.erase t (opsOf pend) = opsOf (LinCore.erase t pend) := by
  induction pend with
  | nil => rfl
  | cons a r ih =>
    obtain ⟨u, p⟩ := a
    simp only [opsOf, map_cons, LinCore.erase] at ih ⊢
    split <;> simp_all [opsOf]

theorem setP_opsOf {u : Nat} {op : Op} {p p' : P} {pend : Pend PL} (h : LinCore.lookup u pend = some (op, p)) :
    opsOf (LinCore.setP u (op, p') pend) = opsOf pend := by
  induction pend with
  | nil => rfl
  | cons a r ih =>
    obtain ⟨w, q⟩ := a
    simp only [LinCore.lookup] at h
    simp only [LinCore.setP]
    split
    · rename_i hw
      simp only [hw, if_true] at h
      cases h
      simp [opsOf, hw]
    · rename_i hw
      simp only [hw, if_false] at h
      simp [opsOf] at ih ⊢
      exact ih h

structure Acc (fl : Flavour) (s : St) (pend : Pend PL) (OFF RG RB RS : List Val) : Prop where
  inv : Inv fl s
  pinv : ∀ x ∈ pend, PInv x.2.1 x.2.2
  off : ∀ v, count v s.created + pendSum freshVals v pend ≤ count v OFF
  tok : ∀ v, count v s.created = pendSum P.inHand v pend + count v s.placed
  recv : ∀ v, count v s.recvOk = count v RG + pendSum gotOf v pend + count v s.owed
  sent : ∀ v, count v RS + pendSum sentOf v pend + count v s.sdv ≤ count v s.sentOk
  back : ∀ v, count v s.returned = count v RB + pendSum backOf v pend

/-- `p` is past its first step -/
def NF (p : P) : Prop := ∀ t op, p ≠ .fresh t op

macro "nf" : tactic => `(tactic| (intro t op h; cases h))

theorem failSend_nf (fl s f tag sent rest) : NF (failSend fl s f tag sent rest).2 := by
  unfold failSend; split <;> nf

theorem trySendEnd_nf (fl cfg s t f sent rest) : NF (trySendEnd fl cfg s t f sent rest).2 := by
  unfold trySendEnd; split
  · nf
  · split
    · nf
    · exact failSend_nf _ _ _ _ _ _

theorem sendStep_nf {fl cfg s t f h sent rest q spur s' p'}
    (hs : sendStep fl cfg s t f h sent rest q spur = some (s', p')) : NF p' := by
  unfold sendStep at hs
  split at hs
  · split at hs
    · cases hs; nf
    · obtain ⟨_, rfl⟩ := of_some_eq hs; exact failSend_nf _ _ _ _ _ _
  · split at hs
    · cases hs; nf
    · split at hs
      · cases hs; nf
      · split at hs
        · split at hs
          · cases hs
          · obtain ⟨_, rfl⟩ := of_some_eq hs; exact trySendEnd_nf _ _ _ _ _ _ _
        · simp only [] at hs
          split at hs
          · cases hs; nf
          · obtain ⟨_, rfl⟩ := of_some_eq hs; exact trySendEnd_nf _ _ _ _ _ _ _

theorem recvStep_nf {fl cfg s t f hd n got s' p'} (hs : recvStep fl cfg s t f hd n got = some (s', p')) : NF p' := by
  unfold recvStep at hs
  split at hs
  · split at hs
    · unfold emptyOutcome at hs
      simp only [] at hs
      split at hs
      · cases hs; nf
      · split at hs <;> first | (cases hs; nf) | cases hs
    · cases hs; nf
  · split at hs <;> (cases hs; nf)

theorem osRecvStep_nf {s hd s' p'} (hs : osRecvStep s hd = some (s', p')) : NF p' := by
  unfold osRecvStep at hs
  split at hs
  · cases hs; nf
  · split at hs
    · cases hs; nf
    · cases hs

theorem start_nf (fl cfg s t op) : NF (start fl cfg s t op).2 := by
  cases op with
  | snd f h vs =>
    simp only [start]; unfold startSend
    split
    · nf
    · split
      · nf
      · split
        · split
          · unfold osSendStart
            split
            · split
              · unfold osSendFail; nf
              · nf
            · unfold osSendStep; split
              · nf
              · split <;> nf
          · nf
        · split
          · split
            · exact failSend_nf _ _ _ _ _ _
            · unfold rvSendStep; split
              · exact failSend_nf _ _ _ _ _ _
              · split
                · split <;> nf
                · split
                  · nf
                  · exact failSend_nf _ _ _ _ _ _
          · nf
        · unfold startSendBuf
          split
          · nf
          · exact failSend_nf _ _ _ _ _ _
          · split
            · nf
            · split
              · nf
              · split
                · rename_i r hr
                  exact sendStep_nf (by rw [hr] : _ = some (r.1, r.2))
                · nf
  | rcv f h n =>
    simp only [start]; unfold startRecv
    split
    · nf
    · split
      · nf
      · split
        · nf
        · nf
        · split
          · split
            · nf
            · split
              · rename_i r hr
                exact osRecvStep_nf (by rw [hr] : _ = some (r.1, r.2))
              · nf
          · unfold rvRecvStart
            split
            · nf
            · split
              · nf
              · split <;> nf
          · split
            · rename_i r hr
              exact recvStep_nf (by rw [hr] : _ = some (r.1, r.2))
            · nf
  | clone h h' =>
    simp only [start]; unfold startClone
    split <;> (try split) <;> nf
  | close h =>
    simp only [start]
    split
    · unfold startCloseSb
      split <;> (try split) <;> nf
    · unfold startClose
      split <;> (try split) <;> nf
  | drop h =>
    simp only [start]
    split
    · unfold startDropSb
      split <;> (try split) <;> nf
    · unfold startDrop
      split <;> nf
  | probe p h =>
    simp only [start]; unfold startProbe
    split <;> (try split) <;> nf
  | toAsync h =>
    simp only [start]; unfold startConvert
    split <;> (try split) <;> nf
  | toSync h =>
    simp only [start]; unfold startConvert
    split <;> (try split) <;> nf

theorem micro_nf {fl cfg s p s' p'} (hs : (s', p') ∈ micro fl cfg s p) : NF p' := by
  unfold micro at hs
  rw [mem_append] at hs
  rcases hs with hs | hs
  · rw [Option.mem_toList] at hs
    cases p with
    | fresh t op =>
      simp only [microDet] at hs
      obtain ⟨_, rfl⟩ := of_some_eq hs
      exact start_nf _ _ _ _ _
    | bsend t f h sent rest q => exact sendStep_nf hs
    | bsendEnd t f sent rest =>
      simp only [microDet] at hs
      obtain ⟨_, rfl⟩ := of_some_eq hs
      exact failSend_nf _ _ _ _ _ _
    | brecv t f h n got =>
      simp only [microDet] at hs
      split at hs
      · cases hs
      · split at hs
        · rename_i hr; cases hs; exact recvStep_nf hr
        · split at hs
          · cases hs; nf
          · cases hs
    | rvSend t v =>
      simp only [microDet] at hs
      split at hs
      · cases hs; nf
      · split at hs <;> cases hs; nf
    | rvRecv t =>
      simp only [microDet] at hs
      split at hs
      · cases hs; nf
      · split at hs <;> cases hs; nf
    | rvTo t stage =>
      simp only [microDet] at hs
      split at hs
      · split at hs
        · cases hs; nf
        · split at hs <;> (cases hs; nf)
      · cases hs; nf
    | osRecv t h =>
      simp only [microDet] at hs
      split at hs
      · cases hs
      · exact osRecvStep_nf hs
    | stg t k h sent rest =>
      simp only [microDet] at hs
      unfold stgStep at hs
      split at hs
      · split at hs <;> (cases hs; nf)
      · split at hs
        · split at hs
          · split at hs <;> first | (cases hs; nf) | cases hs
          · cases hs
        · split at hs
          · cases hs; nf
          · split at hs
            · cases hs; nf
            · split at hs <;> first | (cases hs; nf) | cases hs
    | fin o => simp [microDet] at hs
  · split at hs
    · cases p with
      | fresh t op =>
        cases op with
        | rcv f h n =>
          simp only [microSpur] at hs
          split at hs
          · split at hs
            · split at hs
              · simp only [mem_singleton, Prod.mk.injEq] at hs
                obtain ⟨_, rfl⟩ := hs; nf
              · simp at hs
            · split at hs
              · simp only [mem_singleton, Prod.mk.injEq] at hs
                obtain ⟨_, rfl⟩ := hs; nf
              · simp at hs
            · simp at hs
          · simp at hs
        | _ => simp [microSpur] at hs
      | bsend t f h sent rest q =>
        simp only [microSpur, mem_append] at hs
        rcases hs with hs | hs
        · split at hs
          · rw [Option.mem_toList] at hs
            exact sendStep_nf hs
          · simp at hs
        · split at hs
          · simp only [mem_singleton] at hs
            have e2 : p' = (failSend fl s f .closed sent rest).2 := by rw [← hs]
            subst e2
            exact failSend_nf _ _ _ _ _ _
          · simp at hs
      | brecv t f h n got =>
        simp only [microSpur, mem_append] at hs
        rcases hs with hs | hs
        · split at hs
          · simp only [mem_singleton, Prod.mk.injEq] at hs
            obtain ⟨_, rfl⟩ := hs; nf
          · simp at hs
        · split at hs
          · split at hs
            · simp only [mem_singleton, Prod.mk.injEq] at hs
              obtain ⟨_, rfl⟩ := hs; nf
            · simp at hs
          · simp at hs
      | _ => simp [microSpur] at hs
    · simp at hs

theorem micro_freshVals {fl cfg s p s' p'} (hs : (s', p') ∈ micro fl cfg s p) : freshVals p' = [] := by
  have := micro_nf hs
  cases p' <;> simp_all [freshVals, NF]


theorem retire_ok (fl cfg) (s : St) (op) : (Inv fl s → Inv fl (retire fl cfg s op)) ∧ SameAcct s (retire fl cfg s op) := by
  unfold retire
  split
  · split
    · upd
    · exact same_ok fl s
  · exact same_ok fl s

theorem Acc.ofSame {fl s s' pend OFF RG RB RS} (h : Acc fl s pend OFF RG RB RS)
    (hs : (Inv fl s → Inv fl s') ∧ SameAcct s s') : Acc fl s' pend OFF RG RB RS := by
  refine ⟨hs.1 h.inv, h.pinv, ?_, ?_, ?_, ?_, ?_⟩
  · intro v; rw [hs.2.created]; exact h.off v
  · intro v; rw [hs.2.created, hs.2.placed v]; exact h.tok v
  · intro v; simp only [hs.2.recvOk, St.owed, hs.2.rdone]; exact h.recv v
  · intro v; simp only [hs.2.sentOk, St.sdv, hs.2.sdone]; exact h.sent v
  · intro v; rw [hs.2.returned]; exact h.back v

theorem take_length_append (a b : List Val) : (a ++ b).take a.length = a := by simp

/-- what a finished operation shows to its caller, against the model's `Out` -/
theorem observed_fin {fl : Flavour} {op : Op} {o : Out} (hp : PInv op (.fin o)) (v : Val) :
    count v (recvVals (op, normRes fl op (observe op o))) = count v o.got ∧
    count v (backVals (op, normRes fl op (observe op o))) = count v o.back ∧
    count v (acceptedVals (op, normRes fl op (observe op o))) ≤ count v o.sent := by
  have hn : ∀ r : Res, (normRes fl op r).vals = r.vals ∧ (normRes fl op r).cnt = r.cnt := by
    intro r; unfold normRes; split
    · exact ⟨rfl, rfl⟩
    · split <;> exact ⟨rfl, rfl⟩
  simp only [PInv] at hp
  cases op with
  | snd f h vs =>
    have h1 := hp.1 rfl
    simp only [recvVals, backVals, acceptedVals, isRecvOp, isSendOp, hn, observe, if_true, Op.vals]
    refine ⟨by simp [h1.2], by simp, ?_⟩
    split
    · simp
    · rcases h1.1 with e | e
      · simp only [Op.vals] at e
        rw [e, List.append_assoc, take_length_append]; exact Nat.le_refl _
      · simp [e.2.1]
  | rcv f h n =>
    have h1 := hp.2.1 rfl
    simp [recvVals, backVals, acceptedVals, isRecvOp, isSendOp, hn, observe, h1]
  | _ =>
    have h1 := hp.2.2 rfl rfl
    simp [recvVals, backVals, acceptedVals, isRecvOp, isSendOp, hn, observe, h1]

/-- **Accounting along a linearization.** -/
theorem lin_acc {fl : Flavour} {cfg : Cfg} {s : St} {pend : Pend PL} {evs : History} {sf : St} {pf : Pend PL}
    (hl : Lin (sem fl cfg) s pend evs sf pf) :
    ∀ {OFF RG RB RS : List Val}, NodupKeys pend → Acc fl s pend OFF RG RB RS →
      Acc fl sf pf (OFF ++ offered evs)
        (RG ++ (completedFrom (opsOf pend) evs).flatMap recvVals)
        (RB ++ (completedFrom (opsOf pend) evs).flatMap backVals)
        (RS ++ (completedFrom (opsOf pend) evs).flatMap acceptedVals) := by
  induction hl with
  | nil s pend => intro OFF RG RB RS _ h; simpa [offered, completedFrom] using h
  | @call s pend t op rest sf pf hlk _ ih =>
    intro OFF RG RB RS hn h
    have h' : Acc fl s ((t, (sem fl cfg).fresh t op) :: pend) (OFF ++ op.vals) RG RB RS := by
      refine ⟨h.inv, ?_, ?_, ?_, ?_, ?_, ?_⟩
      · intro x hx
        rcases mem_cons.mp hx with rfl | hx
        · simp [sem, PInv]
        · exact h.pinv x hx
      · intro v; have := h.off v
        simp only [pendSum, sem, freshVals, count_append]; omega
      · intro v; have := h.tok v; simp only [pendSum, sem, P.inHand]; simpa using this
      · intro v; have := h.recv v; simp only [pendSum, sem, gotOf]; simpa using this
      · intro v; have := h.sent v; simp only [pendSum, sem, sentOf]; simpa using this
      · intro v; have := h.back v; simp only [pendSum, sem, backOf]; simpa using this
    have := ih (hn.cons hlk _) h'
    simpa [offered, completedFrom, opsOf, sem, List.append_assoc] using this
  | @ret s pend t p out rest sf pf hlk hfin _ ih =>
    intro OFF RG RB RS hn h
    obtain ⟨op, pp⟩ := p
    have hpin := h.pinv (t, (op, pp)) (mem_of_lookup hlk)
    -- the operation is finished: `pp = .fin o` and `out` is what the caller observes of `o`
    have hfin' : ∃ o, pp = .fin o ∧ out = normRes fl op (observe op o) := by
      simp only [sem, Option.map_eq_some_iff] at hfin
      obtain ⟨o, ho, rfl⟩ := hfin
      cases pp <;> simp [P.out?] at ho
      exact ⟨o, by rw [ho], rfl⟩
    obtain ⟨o, rfl, rfl⟩ := hfin'
    have hobs := observed_fin (fl := fl) (op := op) (o := o) hpin
    have hA : Acc fl ((sem fl cfg).retire s (op, .fin o)) (LinCore.erase t pend) OFF
        (RG ++ recvVals (op, normRes fl op (observe op o)))
        (RB ++ backVals (op, normRes fl op (observe op o)))
        (RS ++ acceptedVals (op, normRes fl op (observe op o))) := by
      have hbase : Acc fl s (LinCore.erase t pend) OFF
          (RG ++ recvVals (op, normRes fl op (observe op o)))
          (RB ++ backVals (op, normRes fl op (observe op o)))
          (RS ++ acceptedVals (op, normRes fl op (observe op o))) := by
        refine ⟨h.inv, fun x hx => h.pinv x (mem_of_mem_erase hx), ?_, ?_, ?_, ?_, ?_⟩
        · intro v; have := h.off v; have e := pendSum_erase freshVals v hlk
          simp only [freshVals] at e; omega
        · intro v; have := h.tok v; have e := pendSum_erase P.inHand v hlk
          simp only [P.inHand] at e; simp at e; omega
        · intro v; have := h.recv v; have e := pendSum_erase gotOf v hlk
          have := (hobs v).1
          simp only [gotOf] at e; simp only [count_append]; omega
        · intro v; have := h.sent v; have e := pendSum_erase sentOf v hlk
          have := (hobs v).2.2
          simp only [sentOf] at e; simp only [count_append]; omega
        · intro v; have := h.back v; have e := pendSum_erase backOf v hlk
          have := (hobs v).2.1
          simp only [backOf] at e; simp only [count_append]; omega
      exact hbase.ofSame (retire_ok fl cfg s op)
    have := ih (hn.erase _) hA
    have hlo : LinCore.lookup t (opsOf pend) = some op := by rw [lookup_opsOf, hlk]; rfl
    simpa [offered, completedFrom, hlo, erase_opsOf, List.append_assoc] using this
  | @step s pend u pu s' pu' evs sf pf hlk hmic _ ih =>
    intro OFF RG RB RS hn h
    obtain ⟨op, p⟩ := pu
    obtain ⟨op', p'⟩ := pu'
    simp only [sem, mem_map, Prod.mk.injEq] at hmic
    obtain ⟨r, hr, rfl, rfl, rfl⟩ := hmic
    have hpin := h.pinv (u, (op, p)) (mem_of_lookup hlk)
    obtain ⟨δ, hδ, hok⟩ := micro_ok hr
    have hnf := micro_freshVals hr
    have hA : Acc fl r.1 (LinCore.setP u (op, r.2) pend) OFF RG RB RS := by
      refine ⟨hok.inv h.inv, ?_, ?_, ?_, ?_, ?_, ?_⟩
      · intro x hx
        rcases mem_setP hx with hx | rfl
        · exact h.pinv x hx
        · exact micro_pinv hpin hr
      · intro v; have := h.off v; have e := pendSum_setP freshVals v (p' := r.2) hlk
        rw [hnf] at e
        rw [hok.created]
        rcases hδ with rfl | rfl <;> simp only [count_append, count_nil] at e ⊢ <;> omega
      · intro v; have := h.tok v; have e := pendSum_setP P.inHand v (p' := r.2) hlk
        have := hok.tok v
        rw [hok.created]; simp only [count_append]; omega
      · intro v; have := h.recv v; have e := pendSum_setP gotOf v (p' := r.2) hlk
        have := hok.recv v; omega
      · intro v; have := h.sent v; have e := pendSum_setP sentOf v (p' := r.2) hlk
        have := hok.sent v; omega
      · intro v; have := h.back v; have e := pendSum_setP backOf v (p' := r.2) hlk
        have := hok.back v; omega
    have := ih (hn.setP _ _) hA
    rwa [setP_opsOf hlk] at this

end Fv.Chan
