import Fv.Lemmas.SyncRwWake
/-!
`HybridRwLock` model, wake accounting: frame lemmas for the queue, the state word (guards and the
two queue flags), park tokens and wake counters.
-/
namespace Fv.Sync.RwLock
open Fv.Sync
variable {cfg : Cfg} {s s' : State} {t : Tid} {l : Lbl}

set_option maxHeartbeats 16000000 in
/-- the queue is changed only by the link in `rearm`'s critical section, by unlinking the own node,
and by the reader loop of `wake_waiters` (which removes the head) -/
theorem step_queue (h : Step cfg s t l s') :
    s'.wl.queue = s.wl.queue
    ∨ ((s.th t).pc = .qRearm ∧ (s'.th t).pc = .qFetchOr ∧ me t (s'.th t) = me t (s.th t)
        ∧ s'.wl.queue = s.wl.queue ++ [me t (s.th t)])
    ∨ (s'.wl.queue = s.wl.queue.erase (me t (s.th t)) ∧ (s.wl.node (me t (s.th t))).linked = true
        ∧ ((s.th t).pc = .qCas
            ∨ (s.wl.locked = false ∧ ∃ k, (s.th t).pc = .llSwap k ∧ (k = .spinUnlink ∨ k = .finish ∨ k = .drop))))
    ∨ (∃ n, UnlinksHead s s' t n ∧ (s.wl.node n).linked = true ∧ s'.wl.queue = s.wl.queue.erase n) := by
  unfold UnlinksHead
  step_cases h
  all_goals (try norm_state)
  all_goals (first | exact Or.inl rfl | grind)

set_option maxHeartbeats 16000000 in
/-- `WRITE_LOCKED` and the reader count: changed by a successful acquiring CAS (the thread then holds
the new guard) and by the two releasing RMWs, which leave the wait list and the queue flags alone
and decide whether `wake_waiters` runs -/
theorem step_word (h : Step cfg s t l s') :
    (s'.word.wl = s.word.wl ∧ s'.word.readers = s.word.readers)
    ∨ (s.word.wl = false ∧ s'.word.wl = true ∧ s'.word.readers = s.word.readers
        ∧ isCas (s.th t).pc = true ∧ s'.holders = (t, true) :: s.holders)
    ∨ (s'.word.wl = s.word.wl ∧ s'.word.readers = s.word.readers + 1
        ∧ isCas (s.th t).pc = true ∧ s'.holders = (t, false) :: s.holders)
    ∨ (s.word.wl = true ∧ s'.word.wl = false ∧ s'.word.readers = s.word.readers ∧ (s.th t).pc = .relAnd
        ∧ s'.wl = s.wl ∧ s'.word.hq = s.word.hq ∧ s'.word.wp = s.word.wp
        ∧ (s.word.hq = true → (s'.th t).pc = .llSwap .wake))
    ∨ (s'.word.wl = s.word.wl ∧ s'.word.readers = s.word.readers - 1 ∧ (s.th t).pc = .relSub
        ∧ s'.wl = s.wl ∧ s'.word.hq = s.word.hq ∧ s'.word.wp = s.word.wp
        ∧ (s.word.readers = 1 → s.word.hq = true → (s'.th t).pc = .llSwap .wake)) := by
  step_cases h
  all_goals (try norm_state)
  all_goals (first | exact Or.inl ⟨rfl, rfl⟩ | grind [isCas])

set_option maxHeartbeats 16000000 in
/-- `HAS_QUEUED`: set by the `fetch_or` after linking / by `fix_flags` on a non-empty list, cleared
by the second RMW of `fix_flags` when `len = 0` -/
theorem step_hq (h : Step cfg s t l s') :
    s'.word.hq = s.word.hq
    ∨ (s'.word.hq = true)
    ∨ (s'.word.hq = false ∧ s.wl.len = 0 ∧ s'.wl.queue = s.wl.queue ∧ ∃ a, (s.th t).pc = .ff2 a) := by
  step_cases h
  all_goals (try norm_state)
  all_goals (first | exact Or.inl rfl | grind)

set_option maxHeartbeats 16000000 in
/-- `WRITER_PENDING`: set by a writer's `fetch_or` after linking / by `fix_flags` with a queued
writer, cleared by the first RMW of `fix_flags` when `writers = 0` -/
theorem step_wp (h : Step cfg s t l s') :
    s'.word.wp = s.word.wp
    ∨ (s'.word.wp = true)
    ∨ (s'.word.wp = false ∧ s.wl.writers = 0 ∧ s'.wl.queue = s.wl.queue ∧ ∃ a, (s.th t).pc = .ff1 a) := by
  step_cases h
  all_goals (try norm_state)
  all_goals (first | exact Or.inl rfl | grind)

set_option maxHeartbeats 16000000 in
/-- park tokens: set by `unpark`, consumed only by the parking thread itself -/
theorem step_token (h : Step cfg s t l s') :
    ∀ u, s'.token u = s.token u
      ∨ (s'.token u = true)
      ∨ (u = t ∧ s.token u = true ∧ ((s.th t).pc = .wPark ∨ (s.th t).pc = .boPark)) := by
  step_cases h
  all_goals (intro u)
  all_goals (try norm_state)
  all_goals (first | exact Or.inl rfl | grind)

set_option maxHeartbeats 16000000 in
/-- wake counters: only grow, except for the reset at the start of a poll (the future then is busy) -/
theorem step_wakes (h : Step cfg s t l s') :
    ∀ f, s.wakes f ≤ s'.wakes f ∨ ((s.fut f).busy = false ∧ (s'.fut f).busy = true) := by
  step_cases h
  all_goals (intro f)
  all_goals (try norm_state)
  all_goals (first | exact Or.inl (Nat.le_refl _) | grind [drain_le])

end Fv.Sync.RwLock
