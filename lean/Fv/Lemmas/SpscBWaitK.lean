import Fv.Lemmas.SpscBWaitC2
/-! The Dekker-style handshake invariant `WK` (register; fence; re-check ‖ publish; fence; read gate):
while a registered waiter is past its re-check and its slot is still armed, a notifier that makes
the waiter's condition true is inside a section that ends in taking the slot. -/
namespace Fv.Chan.SpscB

/-- the thread at `(k, m)` has published and will read the other side's gate (possibly after its own
`unregister`), or has read it non-zero and is about to lock the other side's slot -/
def owesNf (k : K) : Mic → Prop
  | .nfFence | .nfLdGate => True
  | .wkLock => k ≠ .cl ∧ k ≠ .dr
  | .urLock | .urStGate | .urUnlock => k = .sOk ∨ k = .rOk
  | _ => False

/-- the thread at `(k, m)` is closing / dropping its handle: its `dropped` flag is set and its wake
of the other side is still ahead -/
def dropSec (k : K) (m : Mic) : Prop := (k = .cl ∨ k = .dr) ∧ (m = .subCount ∨ m = .wkLock)

structure WK (s : State) : Prop where
  kp1 : (s.loc .P).k = .sL → (s.loc .P).m = .park → s.tail - s.head < s.cap → s.slot .P ≠ none →
          owesNf (s.loc .C).k (s.loc .C).m
  kp2 : (s.loc .P).k = .sL → (s.loc .P).reg = true →
          ((s.loc .P).m = .pushLdTail ∨ (s.loc .P).m = .pushLdHead ∨ (s.loc .P).m = .park) →
          s.dropped .C = true → s.slot .P ≠ none → dropSec (s.loc .C).k (s.loc .C).m
  kc1 : (s.loc .C).k = .rL → (s.loc .C).reg = true → ((s.loc .C).m = .ldCount ∨ (s.loc .C).m = .park) →
          s.head < s.tail → s.slot .C ≠ none → owesNf (s.loc .P).k (s.loc .P).m
  kc2 : (s.loc .C).k = .rL → (s.loc .C).m = .park → s.count .P = 0 → s.slot .C ≠ none →
          ((s.loc .P).k = .cl ∨ (s.loc .P).k = .dr) ∧ (s.loc .P).m = .wkLock

theorem WA.b1' {s : State} (ha : WA s) : ∀ q, s.slot q ≠ none → s.gate q = 1 ∨ (s.loc q).m = .rgStGate := by
  intro q hq
  cases hs : s.slot q with
  | none => exact absurd hs hq
  | some f => exact ha.b1 q f hs

theorem wk_init (cap : Nat) (pp pc : List Op) : WK (init cap pp pc) := by
  constructor <;> simp [init]

attribute [local grind =] upd_apply
attribute [local grind] owesNf dropSec okAt inNotify isRet
attribute [local grind cases] Role

syntax "wk_step " ident ident ident ident ident ident ident " [" Lean.Parser.Tactic.simpLemma,* "]" : tactic
macro_rules
  | `(tactic| wk_step $hc $hr $ha $hw $hd $hi $h [$ls,*]) => `(tactic| (
  obtain ⟨kp1, kp2, kc1, kc2⟩ := $hi
  have ok := CInv.ok $hc
  have gq := CInv.goneQuiet $hc
  have dO := CInv.drnOther $hc
  have pLh := RInv.pushLh $hr
  have pLt := RInv.popLt $hr
  have b1 := WA.b1' $ha
  have c8 := WC.c8 $hw
  have d2 := WD.d2 $hd
  simp only [$ls,*, setLoc, afterWake, afterClose] at $h:ident
  repeat' split at $h:ident
  all_goals (first | (simp at $h:ident <;> try subst $h:ident) | skip)
  all_goals (refine ⟨?_, ?_, ?_, ?_⟩ <;>
    (dsimp only; (try simp only [afterNotify, afterUnreg, afterPush, afterPop, loopTop, waitStep]); grind))))

set_option maxHeartbeats 4000000 in
theorem wk_call {s s' : State} {r : Role} (hc : CInv s) (hr : RInv s) (ha : WA s) (hw : WC s) (hd : WD s) (hi : WK s)
    (h : stepCall s r = some s') : WK s' := by
  wk_step hc hr ha hw hd hi h [stepCall]

set_option maxHeartbeats 4000000 in
theorem wk_ret {s s' : State} {r : Role} (hc : CInv s) (hr : RInv s) (ha : WA s) (hw : WC s) (hd : WD s) (hi : WK s)
    (h : stepRet s r = some s') : WK s' := by
  cases r <;> wk_step hc hr ha hw hd hi h [stepRet]

set_option maxHeartbeats 4000000 in
theorem wk_ldTail {s s' : State} {r : Role} (hc : CInv s) (hr : RInv s) (ha : WA s) (hw : WC s) (hd : WD s) (hi : WK s)
    (h : stepLdTail s r = some s') : WK s' := by
  cases r <;> wk_step hc hr ha hw hd hi h [stepLdTail]

set_option maxHeartbeats 4000000 in
theorem wk_ldHead {s s' : State} {r : Role} (hc : CInv s) (hr : RInv s) (ha : WA s) (hw : WC s) (hd : WD s) (hi : WK s)
    (h : stepLdHead s r = some s') : WK s' := by
  cases r <;> wk_step hc hr ha hw hd hi h [stepLdHead]

set_option maxHeartbeats 4000000 in
theorem wk_stTail {s s' : State} {r : Role} (hc : CInv s) (hr : RInv s) (ha : WA s) (hw : WC s) (hd : WD s) (hi : WK s)
    (h : stepStTail s r = some s') : WK s' := by
  cases r <;> wk_step hc hr ha hw hd hi h [stepStTail]

set_option maxHeartbeats 4000000 in
theorem wk_stHead {s s' : State} {r : Role} (hc : CInv s) (hr : RInv s) (ha : WA s) (hw : WC s) (hd : WD s) (hi : WK s)
    (h : stepStHead s r = some s') : WK s' := by
  cases r <;> wk_step hc hr ha hw hd hi h [stepStHead]

set_option maxHeartbeats 4000000 in
theorem wk_fence {s s' : State} {r : Role} (hc : CInv s) (hr : RInv s) (ha : WA s) (hw : WC s) (hd : WD s) (hi : WK s)
    (h : stepFence s r = some s') : WK s' := by
  cases r <;> wk_step hc hr ha hw hd hi h [stepFence]

set_option maxHeartbeats 4000000 in
theorem wk_ldGate {s s' : State} {r : Role} (hc : CInv s) (hr : RInv s) (ha : WA s) (hw : WC s) (hd : WD s) (hi : WK s)
    (h : stepLdGate s r = some s') : WK s' := by
  cases r <;> wk_step hc hr ha hw hd hi h [stepLdGate]

set_option maxHeartbeats 4000000 in
theorem wk_lock {s s' : State} {r : Role} (hc : CInv s) (hr : RInv s) (ha : WA s) (hw : WC s) (hd : WD s) (hi : WK s)
    (h : stepLock s r = some s') : WK s' := by
  cases r <;> wk_step hc hr ha hw hd hi h [stepLock]

set_option maxHeartbeats 4000000 in
theorem wk_stGate {s s' : State} {r : Role} (hc : CInv s) (hr : RInv s) (ha : WA s) (hw : WC s) (hd : WD s) (hi : WK s)
    (h : stepStGate s r = some s') : WK s' := by
  cases r <;> wk_step hc hr ha hw hd hi h [stepStGate]

set_option maxHeartbeats 4000000 in
theorem wk_stFlag {s s' : State} {r : Role} (hc : CInv s) (hr : RInv s) (ha : WA s) (hw : WC s) (hd : WD s) (hi : WK s)
    (h : stepStFlag s r = some s') : WK s' := by
  cases r <;> wk_step hc hr ha hw hd hi h [stepStFlag]

set_option maxHeartbeats 4000000 in
theorem wk_unlock {s s' : State} {r : Role} (hc : CInv s) (hr : RInv s) (ha : WA s) (hw : WC s) (hd : WD s) (hi : WK s)
    (h : stepUnlock s r = some s') : WK s' := by
  cases r <;> wk_step hc hr ha hw hd hi h [stepUnlock]

end Fv.Chan.SpscB
