import Fv.Lemmas.SyncRwWakeL2
/-!
Wake invariant of the rwlock model: the global bookkeeping conjuncts `PBb`, `PW2`, `PM2`.
-/
namespace Fv.Sync.RwLock
open Fv.Sync
variable {cfg : Cfg} {s s' : State} {t : Tid} {l : Lbl}

set_option maxHeartbeats 16000000 in
theorem bb_step (hi : Inv s) (hw : WInv s) (h : Step cfg s t l s') : PBb s' := by
  intro f
  have a1 := hi.syncCur t; have a2 := hi.asyncCur t; have a5 := hi.ffOk t
  have b0 := hw.boc t
  have b1 : ∀ f, (s.th t).cur = some f → futPc (s.th t).pc = true → (s.fut f).busy = true :=
    fun f hc hp => (hi.busy t f hc hp).1
  have c := hw.bb f
  clear hi hw
  step_cases h
  all_goals (try norm_state)
  all_goals (first | exact c | wg)

set_option maxHeartbeats 16000000 in
theorem w2_step (hi : Inv s) (hw : WInv s) (h : Step cfg s t l s') : PW2 s' := by
  intro n
  have a1 := hi.syncCur t; have a2 := hi.asyncCur t; have a5 := hi.ffOk t
  have b2 := hw.qw t
  have c := hw.w2 n
  clear hi hw
  step_cases h
  all_goals (try simp only [myWaiter] at *)
  all_goals (try norm_state)
  all_goals (first | exact c | wg)

set_option maxHeartbeats 8000000 in
theorem step_qFetchOr (h : Step cfg s t l s') (hp : (s.th t).pc = .qFetchOr) : s'.word.hq = true := by
  cases h <;> simp_all [withPc, setTh]

theorem m2_step (hi : Inv s) (hw : WInv s) (h : Step cfg s t l s') : PM2 s' := by
  intro hq'
  have ho := step_th_other h
  have old : s.word.hq = false →
      s'.wl.queue = [] ∨ ∃ u, (s'.th u).pc = .qFetchOr ∧ s'.wl.queue = [me u (s'.th u)] := by
    intro hq
    rcases hw.m2 hq with he | ⟨u, hu, hqu⟩
    · rcases step_queue h with hq1 | ⟨-, hp2, hme, hq2⟩ | ⟨hq3, -⟩ | ⟨n, -, -, hq4⟩
      · left; rw [hq1, he]
      · right; exact ⟨t, hp2, by rw [hq2, he, hme]; rfl⟩
      · left; rw [hq3, he]; rfl
      · left; rw [hq4, he]; rfl
    · by_cases hut : u = t
      · subst hut
        have := step_qFetchOr h hu
        rw [this] at hq'; cases hq'
      · right
        refine ⟨u, by rw [ho u hut]; exact hu, ?_⟩
        rw [ho u hut, queue_frozen hi h hut (by rw [hu]; rfl)]; exact hqu
  rcases step_hq h with h1 | h1 | ⟨-, hlen, hq2, -⟩
  · exact old (by rw [← h1]; exact hq')
  · rw [h1] at hq'; cases hq'
  · left
    rw [hq2]
    have := hi.wf.len
    rw [hlen] at this
    exact List.length_eq_zero_iff.1 this.symm

end Fv.Sync.RwLock
