import Fv.Lemmas.OneshotBBase
/-!
Second layer of invariants of the step-level oneshot model: decrement bookkeeping and the `sender_count`
link (`C5`, `Cnt`), the Disconnected invariant (`D6`), the quiet-call invariant (`E7`) and the WAKE
INVARIANT (`W8`), written down here in words:

  Let "registered" mean `waker = some w` and "armed" mean that the poll which registered `w` has answered
  Pending (`armed`, set by the second `try_recv` of a poll answering Empty, cleared by `register` and by
  `wake`). A wake is IN FLIGHT when some handle is at `wake` (about to take the waker), at `wkUnpark t`
  (has taken the executor waker of thread `t`), or — for the move to CLOSED — in the tail of
  `decrement_senders` that ends in `wake` (`inPW`), or is the `closer` (took `sender_count` to 0, has not
  yet tried EMPTY→CLOSED). Then, in every reachable state:
  (w1)  a receiver executing `recv` on thread `t` that has registered in this poll (stage 2) or is parked
        has its park token, or its waker is still registered, or some handle is at `wkUnpark t`;
  (w1a) a parked receiver whose waker is still registered is armed;
  (c2s) registered ∧ armed(ish) ∧ state = SENT  ⇒ some handle is at `wake`;
  (c2c) registered ∧ armed(ish) ∧ receiver not closed ∧ state = CLOSED ⇒ the receiver closed it itself, or
        a wake is in flight (`inPW`);
  (c3)  state = EMPTY ∧ sender_count = 0 ⇒ the `closer` is in flight (it will CAS EMPTY→CLOSED and wake);
  where armed(ish) also covers the window between the second try's state load (EMPTY) and its
  `sender_count` load. NOT covered — and false on the code, finding F18 —: state = TAKEN ∧
  sender_count = 0 ⇒ wake in flight (`decrement_senders` skips the wake when it finds TAKEN).
-/
namespace Fv.Chan.OneshotB

/-- the tail of `decrement_senders` that ends in `receiver_waker.wake()` once the state is CLOSED -/
def inPW (m : Mic) : Prop := m = .wake ∨ m = .dcLdState ∨ m = .dcLdState3 ∨ m = .dcLdState4

/-! ### counting -/

theorem cntF_updN_ge (d : Nat → Bool) (x : Bool) : ∀ n i, n ≤ i → cntF (updN d i x) n = cntF d n := by
  intro n
  induction n with
  | zero => intros; rfl
  | succ n ih =>
    intro i hi
    have : n ≠ i := by omega
    simp [cntF, ih i (by omega), updN_apply, this]

theorem cntF_set (d : Nat → Bool) : ∀ n i, i < n → d i = false → cntF (updN d i true) n + 1 = cntF d n := by
  intro n
  induction n with
  | zero => intro i hi; omega
  | succ n ih =>
    intro i hi hd
    by_cases h : i = n
    · subst h
      simp [cntF, cntF_updN_ge, updN_apply, hd]
    · have hne : n ≠ i := fun e => h e.symm
      have := ih i (by omega) hd
      simp only [cntF, updN_apply, hne, if_false]
      omega

theorem cntF_pos (d : Nat → Bool) : ∀ n i, i < n → d i = false → 1 ≤ cntF d n := by
  intro n
  induction n with
  | zero => intro i hi; omega
  | succ n ih =>
    intro i hi hd
    by_cases h : i = n
    · subst h; simp [cntF, hd]
    · have := ih i (by omega) hd
      simp only [cntF]; omega

theorem cntF_zero (d : Nat → Bool) (n : Nat) (h : cntF d n = 0) : ∀ i, i < n → d i = true := by
  intro i hi
  cases hd : d i with
  | true => rfl
  | false => have := cntF_pos d n i hi hd; omega

/-- C5: decrement bookkeeping -/
structure C5 (s : State) : Prop where
  freshD : ∀ i, s.nextH ≤ i → s.dec i = false
  decCl : ∀ i, s.dec i = true → s.closed (.S i) = true
  fsubDec : ∀ a, (s.loc a).m = .dcFsub → a.isS = true ∧ s.dec a.idx = false ∧ s.closed a = true
  pbS : ∀ a, (s.loc a).m = .clFadd → a.isS = true
  bodyDec : ∀ a, inBody (s.loc a).m → (s.loc a).m ≠ .sLdOwn → s.dec a.idx = false
  closerAt : ∀ i, s.closer = some i → (s.loc (.S i)).m = .dcCasEC

/-- Cnt: `sender_count` is the number of sender handles that have not yet decremented it; (c3) -/
structure Cnt (s : State) : Prop where
  cntEq : s.scount = cntF s.dec s.nextH
  c3 : s.st = .empty → s.scount = 0 → s.closer ≠ none

/-- D6: where `Disconnected` comes from (after fix a886a91 a failed CAS EMPTY→CLOSED that finds SENT / WRITING
makes the receiver look again, so `Disconnected` is only answered from a closed receiver handle or from
state CLOSED / TAKEN) -/
structure D6 (s : State) : Prop where
  dA : (s.loc .R).m = .pLdCountA → s.st = .taken ∨ s.st = .closed
  dU : (s.loc .R).m = .tUnlock → ∃ v, (s.loc .R).res = .okV v
  dD : ((s.loc .R).m = .ret .disc ∨ Res.disc ∈ s.results .R) →
        s.closed .R = true ∨ s.st = .closed ∨ s.st = .taken
  dN : Res.disc ∈ s.results .R → (s.loc .R).m ≠ .tCasST ∧ (s.loc .R).m ≠ .tLock
  rciSt : s.rClosedIt = true → s.st = .closed
  tkRd : ∀ b, s.taker = some b → b = .R ∨ s.rdrop = true
  ciR : ((s.loc .R).m = .ciStRdrop ∨ (s.loc .R).m = .ciCasEC ∨ (s.loc .R).m = .ciCasST ∨ (s.loc .R).m = .xLock ∨
         (s.loc .R).m = .xUnlock) → s.closed .R = true

/-- E7: a receive called when nothing was sent and nothing can be (no closed handle is ever cloned) -/
structure E7 (s : State) : Prop where
  qInv : s.reopened = false → (s.loc .R).q = true → s.st = .closed ∨ (s.scount = 0 ∧ s.st = .empty)
  qMic : s.reopened = false → (s.loc .R).q = true →
    (s.loc .R).m = .rLdOwn ∨ (s.loc .R).m = .tLdState ∨ (s.loc .R).m = .tLdCount ∨ (s.loc .R).m = .tCasEC ∨
    (s.loc .R).m = .ret .disc
  qCnt : s.reopened = false → (s.loc .R).q = true → ((s.loc .R).m = .tLdCount ∨ (s.loc .R).m = .tCasEC) → s.scount = 0

/-- W8: the wake invariant (see the header) -/
structure W8 (s : State) : Prop where
  w1 : ∀ t, (s.loc .R).k = .recv t → (2 ≤ (s.loc .R).stage ∨ (s.loc .R).m = .park) →
        s.tok t = true ∨ s.waker = some (.task t) ∨ ∃ b, (s.loc b).m = .wkUnpark t
  w1a : (s.loc .R).m = .park → s.waker ≠ none → s.armed = true
  pns : ((s.loc .R).m = .park ∨ (2 ≤ (s.loc .R).stage ∧ (s.loc .R).m = .tLdCount)) → s.rClosedIt = false
  c2s : s.waker ≠ none → (s.armed = true ∨ (2 ≤ (s.loc .R).stage ∧ (s.loc .R).m = .tLdCount)) →
        s.st = .sent → ∃ b, (s.loc b).m = .wake
  c2c : s.waker ≠ none → (s.armed = true ∨ (2 ≤ (s.loc .R).stage ∧ (s.loc .R).m = .tLdCount)) →
        s.closed .R = false → s.st = .closed → s.rClosedIt = true ∨ ∃ b, inPW (s.loc b).m

theorem c5_init (progS : Nat → List Op) (progR : List Op) : C5 (init progS progR) := by
  constructor <;> simp [init, inBody]

theorem cnt_init (progS : Nat → List Op) (progR : List Op) : Cnt (init progS progR) := by
  constructor <;> simp [init, cntF]

theorem d6_init (progS : Nat → List Op) (progR : List Op) : D6 (init progS progR) := by
  constructor <;> simp [init]

theorem e7_init (progS : Nat → List Op) (progR : List Op) : E7 (init progS progR) := by
  constructor <;> simp [init]

theorem w8_init (progS : Nat → List Op) (progR : List Op) : W8 (init progS progR) := by
  constructor <;> simp [init]

/-! ### the same automation with a larger simp set -/

syntax "os_fin2" : tactic
macro_rules
  | `(tactic| os_fin2) => `(tactic| (
  (try simp only [upd_apply, updN_apply, if_true, if_false, ne_eq, not_false_eq_true, reduceCtorEq, reduceIte]) <;>
  simp only [inW, inT, inBody, inRecvBody, inPW, isEnd, isErrOf, Ag.idx, Ag.isS, allGone_iff, upd_apply, updN_apply,
    List.nil_append, List.append_nil, Option.toList_some, Option.toList_none, List.mem_append, List.mem_singleton,
    List.mem_cons, List.append_eq_nil_iff, and_false, false_and, quiet, decide_eq_true_eq, Bool.or_eq_false_iff, Bool.or_eq_true] at * <;> grind))

syntax "os_close2 " term:max : tactic
macro_rules
  | `(tactic| os_close2 $a) => `(tactic| (
  dsimp only
  first
  | assumption
  | (intro b
     by_cases hb : b = $a
     · (try subst hb); os_fin2
     · (try simp only [upd_apply, updN_apply, hb, if_false, reduceIte]); os_fin2)
  | (by_cases hR : Ag.R = $a
     · (try subst hR); os_fin2
     · (try simp only [upd_apply, updN_apply, hR, if_false, reduceIte]); os_fin2)))

end Fv.Chan.OneshotB
