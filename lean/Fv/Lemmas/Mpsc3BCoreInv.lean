import Fv.Lemmas.Mpsc3BCore
/-! Preservation of the ticket-level invariants `CInv` by every core transition. -/
namespace Fv.Chan.Mpsc3B

theorem wlt_true {a b cap : Nat} (h : wlt a b cap = true) : b ≤ a ∧ a - b < cap := by
  simpa [wlt] using h

theorem tkSlot_ne_empty (sk : Bool) (g : Option Tok) : tkSlot sk g ≠ .empty := by
  cases sk <;> cases g <;> simp [tkSlot]

theorem collect_succ (log : Nat → Option Tok) (n : Nat) : collect log (n + 1) = collect log n ++ (log n).toList := rfl

attribute [local grind =] upd_apply
attribute [local grind] pend tkSlot tkRecv tkSlot_ne_empty

/-- the old claimant still claims the ticket -/
syntax "cd_old " ident : tactic
macro_rules | `(tactic| cd_old $cd) => `(tactic|
  (intro t h1 h2 h3
   obtain ⟨q, ch, hq⟩ := $cd t (by grind) (by grind) (by grind)
   exact ⟨q, ch, by grind⟩))

theorem cinv_fadd {c k p} (hi : CInv c k) (h : k.claim p = none) :
    CInv c { k with gtail := k.gtail + 1, claim := upd k.claim p (some ⟨k.gtail, none⟩) } := by
  obtain ⟨o1, o2, o3, pe, bl, ab, cr, cu, cd, cs, oc, ls, re, lb, sk, ff, lc, pr, pt, ue, p1, p2, pd⟩ := hi
  refine ⟨?o1, ?o2, ?o3, ?pe, ?bl, ?ab, ?cr, ?cu, ?cd, ?cs, ?oc, ?ls, ?re, ?lb, ?sk, ?ff, ?lc, ?pr, ?pt, ?ue, ?p1, ?p2, ?pd⟩
  all_goals (simp only []; try assumption)
  case cd =>
    intro t h1 h2 h3
    by_cases e : t = k.gtail
    · exact ⟨p, none, by simp [e]⟩
    · obtain ⟨q, ch, hq⟩ := cd t h1 (by omega) h3
      exact ⟨q, ch, by grind⟩
  all_goals (clear cd; grind)

theorem cinv_cred {c k p tk} (cold : Bool) (hi : CInv c k) (h : k.claim p = some ⟨tk, none⟩) :
    CInv c { k with claim := upd k.claim p (some ⟨tk, some (wlt tk (if cold then k.drained else k.progress) c.cap)⟩) } := by
  obtain ⟨o1, o2, o3, pe, bl, ab, cr, cu, cd, cs, oc, ls, re, lb, sk, ff, lc, pr, pt, ue, p1, p2, pd⟩ := hi
  refine ⟨?o1, ?o2, ?o3, ?pe, ?bl, ?ab, ?cr, ?cu, ?cd, ?cs, ?oc, ?ls, ?re, ?lb, ?sk, ?ff, ?lc, ?pr, ?pt, ?ue, ?p1, ?p2, ?pd⟩
  all_goals (simp only []; try assumption)
  case cd =>
    intro t h1 h2 h3
    obtain ⟨q, ch, hq⟩ := cd t h1 h2 h3
    by_cases e : q = p
    · subst e; rw [h] at hq; simp at hq; exact ⟨q, _, by simp [hq.1]; rfl⟩
    · exact ⟨q, ch, by grind⟩
  case oc =>
    intro q tk' hq
    by_cases e : q = p
    · subst e
      simp at hq
      obtain ⟨e1, e2⟩ := hq
      subst e1
      have h1 := wlt_true e2
      have h2 := (cr q tk none h).1
      cases cold <;> simp at h1 <;> omega
    · exact oc q tk' (by grind)
  all_goals (clear cd; grind)

theorem cinv_wset {c k p tk v} (hi : CInv c k) (h : k.claim p = some ⟨tk, some true⟩) :
    CInv c { k with slot := upd k.slot tk (.set ⟨p, k.seq p, v⟩), log := upd k.log tk (some ⟨p, k.seq p, v⟩),
                    seq := upd k.seq p (k.seq p + 1), claim := upd k.claim p none } := by
  have hr := hi.claimRange p tk _ h
  have hlog : k.log tk = none := by
    cases e : k.log tk with
    | none => rfl
    | some x => have := (hi.logSlot tk x hr.1).2 e; rw [hr.2.2] at this; simp at this
  obtain ⟨o1, o2, o3, pe, bl, ab, cr, cu, cd, cs, oc, ls, re, lb, sk, ff, lc, pr, pt, ue, p1, p2, pd⟩ := hi
  refine ⟨?o1, ?o2, ?o3, ?pe, ?bl, ?ab, ?cr, ?cu, ?cd, ?cs, ?oc, ?ls, ?re, ?lb, ?sk, ?ff, ?lc, ?pr, ?pt, ?ue, ?p1, ?p2, ?pd⟩
  all_goals (simp only []; try assumption)
  case cr =>
    intro q tk' ch hq
    by_cases e : q = p
    · subst e; simp at hq
    · rw [upd_other _ _ _ _ e] at hq
      have h1 := cr q tk' ch hq
      have hne : tk' ≠ tk := fun e2 => e (cu q p tk _ _ (e2 ▸ hq) h)
      exact ⟨h1.1, h1.2.1, by rw [upd_other _ _ _ _ hne]; exact h1.2.2⟩
  case cd => cd_old cd
  case re => rw [collect_upd_ge _ _ _ _ hr.1]; exact re
  case sk =>
    intro t x hx
    by_cases e : t = tk
    · subst e; simp at hx; subst hx; simp
    · rw [upd_other _ _ _ _ e] at hx
      have := sk t x hx
      by_cases e2 : x.p = p
      · rw [e2] at this ⊢; simp; omega
      · rw [upd_other _ _ _ _ e2]; exact this
  case ff =>
    intro t1 t2 x1 x2 h1 h2 hp hlt
    by_cases e1 : t1 = tk <;> by_cases e2 : t2 = tk
    · omega
    · subst e1
      simp [upd_apply, e2] at h1 h2
      have := lc t2 x2 t1 (some true) h2 (by rw [← hp, ← h1]; exact h)
      omega
    · subst e2
      simp [upd_apply, e1] at h1 h2
      have := sk t1 x1 h1
      rw [← h2]; simp; rw [hp, ← h2] at this; simpa using this
    · simp [upd_apply, e1, e2] at h1 h2
      exact ff t1 t2 x1 x2 h1 h2 hp hlt
  all_goals (clear cd; grind)

theorem cinv_wskip {c k p tk} (hi : CInv c k) (h : k.claim p = some ⟨tk, some false⟩) :
    CInv c { k with slot := upd k.slot tk .skip, claim := upd k.claim p none } := by
  have hr := hi.claimRange p tk _ h
  obtain ⟨o1, o2, o3, pe, bl, ab, cr, cu, cd, cs, oc, ls, re, lb, sk, ff, lc, pr, pt, ue, p1, p2, pd⟩ := hi
  refine ⟨?o1, ?o2, ?o3, ?pe, ?bl, ?ab, ?cr, ?cu, ?cd, ?cs, ?oc, ?ls, ?re, ?lb, ?sk, ?ff, ?lc, ?pr, ?pt, ?ue, ?p1, ?p2, ?pd⟩
  all_goals (simp only []; try assumption)
  case cr =>
    intro q tk' ch hq
    by_cases e : q = p
    · subst e; simp at hq
    · rw [upd_other _ _ _ _ e] at hq
      have h1 := cr q tk' ch hq
      have hne : tk' ≠ tk := fun e2 => e (cu q p tk _ _ (e2 ▸ hq) h)
      exact ⟨h1.1, h1.2.1, by rw [upd_other _ _ _ _ hne]; exact h1.2.2⟩
  case cd => cd_old cd
  all_goals (clear cd; grind)

theorem cinv_toRetire {c k} (hi : CInv c k) (h : k.cph = .other) (hx : k.idx = c.chunkCap) : CInv c { k with cph := .retire } := by
  obtain ⟨o1, o2, o3, pe, bl, ab, cr, cu, cd, cs, oc, ls, re, lb, sk, ff, lc, pr, pt, ue, p1, p2, pd⟩ := hi
  refine ⟨?o1, ?o2, ?o3, ?pe, ?bl, ?ab, ?cr, ?cu, ?cd, ?cs, ?oc, ?ls, ?re, ?lb, ?sk, ?ff, ?lc, ?pr, ?pt, ?ue, ?p1, ?p2, ?pd⟩
  all_goals (simp only []; try assumption)
  all_goals (clear cd; grind)

theorem cinv_retire {c k} (hi : CInv c k) (h : k.cph = .retire) : CInv c { k with cid := k.cid + 1, idx := 0, cph := .other } := by
  obtain ⟨o1, o2, o3, pe, bl, ab, cr, cu, cd, cs, oc, ls, re, lb, sk, ff, lc, pr, pt, ue, p1, p2, pd⟩ := hi
  have hx := pr h
  refine ⟨?o1, ?o2, ?o3, ?pe, ?bl, ?ab, ?cr, ?cu, ?cd, ?cs, ?oc, ?ls, ?re, ?lb, ?sk, ?ff, ?lc, ?pr, ?pt, ?ue, ?p1, ?p2, ?pd⟩
  all_goals (simp only []; try assumption)
  case pe => rw [pe, hx, Nat.add_mul]; simp
  all_goals (clear cd; grind)

theorem cinv_look {c k sk g} (hi : CInv c k) (h : k.cph = .other) (hs : k.slot (k.cid * c.chunkCap + k.idx) = tkSlot sk g) :
    CInv c { k with cph := .taking sk g } := by
  obtain ⟨o1, o2, o3, pe, bl, ab, cr, cu, cd, cs, oc, ls, re, lb, sk', ff, lc, pr, pt, ue, p1, p2, pd⟩ := hi
  rw [← pe] at hs
  refine ⟨?o1, ?o2, ?o3, ?pe, ?bl, ?ab, ?cr, ?cu, ?cd, ?cs, ?oc, ?ls, ?re, ?lb, ?sk, ?ff, ?lc, ?pr, ?pt, ?ue, ?p1, ?p2, ?pd⟩
  all_goals (simp only []; try assumption)
  all_goals (clear cd; grind)

/-- common part of the two drain transitions (`ph`/`u` = the new phase and `unpublished`) -/
theorem cinv_drain {c k sk g} (ph : CPh) (u : Nat) (hi : CInv c k) (h : k.cph = .taking sk g)
    (hu : k.progress + u + pend ph = k.pos + 1) (h1 : ∀ f, ph = .pub1 f → u = 0) (h2 : ∀ f, ph ≠ .pub2 f)
    (h3 : ph ≠ .retire) (h4 : ∀ a b, ph ≠ .taking a b) :
    CInv c { k with slot := upd k.slot (k.cid * c.chunkCap + k.idx) .empty, idx := k.idx + 1, pos := k.pos + 1,
                    unpub := u, recvd := tkRecv k.recvd sk g, cph := ph } := by
  obtain ⟨o1, o2, o3, pe, bl, ab, cr, cu, cd, cs, oc, ls, re, lb, sk', ff, lc, pr, pt, ue, p1, p2, pd⟩ := hi
  have hs := pt sk g h
  have hne : k.slot k.pos ≠ .empty := by rw [hs]; exact tkSlot_ne_empty sk g
  have hlt : k.pos < k.gtail := by
    rcases Nat.lt_or_ge k.pos k.gtail with h | h
    · exact h
    · exact absurd (ab _ h) hne
  rw [← pe]
  refine ⟨?o1, ?o2, ?o3, ?pe, ?bl, ?ab, ?cr, ?cu, ?cd, ?cs, ?oc, ?ls, ?re, ?lb, ?sk, ?ff, ?lc, ?pr, ?pt, ?ue, ?p1, ?p2, ?pd⟩
  all_goals (simp only []; try assumption)
  case pe => omega
  case cr =>
    intro q tk ch hq
    have := cr q tk ch hq
    have hne2 : tk ≠ k.pos := fun e => hne (e ▸ this.2.2)
    exact ⟨by omega, this.2.1, by rw [upd_other _ _ _ _ hne2]; exact this.2.2⟩
  case cd =>
    intro t h1 h2 h3
    have hne2 : t ≠ k.pos := by omega
    rw [upd_other _ _ _ _ hne2] at h3
    exact cd t (by omega) h2 h3
  case re =>
    rw [collect_succ, ← re]
    cases sk <;> cases g <;> simp [tkSlot] at hs <;> simp [tkRecv]
    all_goals first
      | (have := (ls k.pos _ (Nat.le_refl _)).1 hs; simp [this])
      | (cases e : k.log k.pos with
         | none => simp
         | some x => have := (ls k.pos x (Nat.le_refl _)).2 e; rw [hs] at this; simp at this)
  all_goals (clear cd; grind)

theorem cinv_flushPub {c k} (hi : CInv c k) (h : k.cph = .other) : CInv c { k with unpub := 0, cph := .pub1 k.unpub } := by
  obtain ⟨o1, o2, o3, pe, bl, ab, cr, cu, cd, cs, oc, ls, re, lb, sk, ff, lc, pr, pt, ue, p1, p2, pd⟩ := hi
  refine ⟨?o1, ?o2, ?o3, ?pe, ?bl, ?ab, ?cr, ?cu, ?cd, ?cs, ?oc, ?ls, ?re, ?lb, ?sk, ?ff, ?lc, ?pr, ?pt, ?ue, ?p1, ?p2, ?pd⟩
  all_goals (simp only []; try assumption)
  all_goals (clear cd; grind)

theorem cinv_pubDr {c k f} (hi : CInv c k) (h : k.cph = .pub1 f) : CInv c { k with drained := k.pos, cph := .pub2 f } := by
  obtain ⟨o1, o2, o3, pe, bl, ab, cr, cu, cd, cs, oc, ls, re, lb, sk, ff, lc, pr, pt, ue, p1, p2, pd⟩ := hi
  refine ⟨?o1, ?o2, ?o3, ?pe, ?bl, ?ab, ?cr, ?cu, ?cd, ?cs, ?oc, ?ls, ?re, ?lb, ?sk, ?ff, ?lc, ?pr, ?pt, ?ue, ?p1, ?p2, ?pd⟩
  all_goals (simp only []; try assumption)
  all_goals (clear cd; grind)

theorem cinv_pubPr {c k f} (hi : CInv c k) (h : k.cph = .pub2 f) : CInv c { k with progress := k.pos, cph := .other } := by
  obtain ⟨o1, o2, o3, pe, bl, ab, cr, cu, cd, cs, oc, ls, re, lb, sk, ff, lc, pr, pt, ue, p1, p2, pd⟩ := hi
  refine ⟨?o1, ?o2, ?o3, ?pe, ?bl, ?ab, ?cr, ?cu, ?cd, ?cs, ?oc, ?ls, ?re, ?lb, ?sk, ?ff, ?lc, ?pr, ?pt, ?ue, ?p1, ?p2, ?pd⟩
  all_goals (simp only []; try assumption)
  all_goals (clear cd; grind)

theorem cinv_mirror {c k} (hi : CInv c k) (h : k.cph = .other) : CInv c { k with drained := k.pos } := by
  obtain ⟨o1, o2, o3, pe, bl, ab, cr, cu, cd, cs, oc, ls, re, lb, sk, ff, lc, pr, pt, ue, p1, p2, pd⟩ := hi
  refine ⟨?o1, ?o2, ?o3, ?pe, ?bl, ?ab, ?cr, ?cu, ?cd, ?cs, ?oc, ?ls, ?re, ?lb, ?sk, ?ff, ?lc, ?pr, ?pt, ?ue, ?p1, ?p2, ?pd⟩
  all_goals (simp only []; try assumption)
  all_goals (clear cd; grind)

theorem cinv_step {c k k'} (hi : CInv c k) (h : CStep c k k') : CInv c k' := by
  cases h with
  | fadd p h => exact cinv_fadd hi h
  | cred p tk cold h => exact cinv_cred cold hi h
  | wset p tk v h => exact cinv_wset hi h
  | wskip p tk h => exact cinv_wskip hi h
  | toRetire h hx => exact cinv_toRetire hi h hx
  | retire h => exact cinv_retire hi h
  | lookSet y h hs => exact cinv_look (sk := false) (g := some y) hi h (by simpa [tkSlot] using hs)
  | lookSkip g h hs => exact cinv_look (sk := true) (g := g) hi h (by simpa [tkSlot] using hs)
  | drainKeep sk g h =>
    exact cinv_drain .other (k.unpub + 1) hi h (by have := hi.unpubEq; rw [h] at this; simp [pend] at this ⊢; omega)
      (by simp) (by simp) (by simp) (by simp)
  | drainPub sk g h =>
    exact cinv_drain (.pub1 (k.unpub + 1)) 0 hi h (by have := hi.unpubEq; rw [h] at this; simp [pend] at this ⊢; omega)
      (by simp) (by simp) (by simp) (by simp)
  | flushPub h => exact cinv_flushPub hi h
  | pubDr f h => exact cinv_pubDr hi h
  | pubPr f h => exact cinv_pubPr hi h
  | mirror h => exact cinv_mirror hi h

end Fv.Chan.Mpsc3B
