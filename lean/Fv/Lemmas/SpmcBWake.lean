import Fv.Lemmas.SpmcBWake3R
/-! Wake-up invariants: calls, spurious park returns, teardown, initial state, reachability. -/
namespace Fv.Chan.SpmcB
open Fv.Chan.LeftRightB (upd upd_apply upd_same)

theorem free_class {p : PC} (h : isFree p = true) : preCasPC p = false ∧ upkPC p = none ∧ csmPC p = false ∧
    (∀ q, p ≠ .snd q) ∧ (∀ r q, p ≠ .rcv r q) := by
  cases p <;> simp_all [isFree, preCasPC, upkPC, csmPC]

/-- a step of a thread that is not inside a sender operation before or after, keeps the park flag,
the handle, and does not enter CONSUMING -/
theorem invW2_free {s s' : State} {t : Nat} {p' : PC} (h2 : InvW2 s) (hfree : isFree (s.pc t) = true)
    (hpc : s'.pc = upd s.pc t p') (hso : s'.sOwner = s.sOwner) (hns : ∀ q, p' ≠ .snd q) (hni : csmPC p' = false)
    (hcap : s'.cap = s.cap) (hflag : s'.flag = s.flag) (hpth : s'.pthread = s.pthread) (htok : s'.token = s.token)
    (hupk : s'.upk = s.upk) (hwit : ∀ q0, witPC s q0 → witPC s' q0) : InvW2 s' := by
  have ⟨_, _, _, f4, f5⟩ := free_class hfree
  have same : ∀ u q', s'.pc u = .snd q' → s.pc u = .snd q' := by
    intro u q' h
    rw [hpc] at h
    by_cases hut : u = t
    · subst hut; rw [upd_same] at h; exact absurd h (hns q')
    · simp only [upd_apply, if_neg hut] at h; exact h
  refine ⟨?_, ?_, ?_, ?_, ?_, ?_, ?_, ?_⟩
  · intro u q' h hf; rw [hflag] at hf; rw [hpth]; exact h2.parked u q' (same u q' h) hf
  · intro h; rw [hso] at h; rw [hflag]; exact h2.idle0 h
  · intro u q' h hf; rw [hflag] at hf; exact h2.consuming u q' (same u q' h) hf
  · intro u r' k th p q' hu hpq
    rw [hpc] at hu
    by_cases hut : u = t
    · subst hut; rw [upd_same] at hu; rw [hu] at hni; cases hni
    · simp only [upd_apply, if_neg hut] at hu; exact h2.idle_th u r' k th p q' hu (same p q' hpq)
  · intro u q' h ha0 hf; rw [hflag] at hf; rw [htok, hupk]; exact h2.handed u q' (same u q' h) ha0 hf
  · intro u q' h hf; rw [hflag] at hf; exact hwit q' (h2.wit u q' (same u q' h) hf)
  · intro u q' h; rw [hcap]; exact h2.kcap u q' (same u q' h)
  · intro u k h; exact h2.shead u k (same u _ h)

/-- a free thread enters a sender operation -/
theorem invW2_callS {s s' : State} {t : Nat} {q : SPC} (ha : InvA s) (h1 : InvW1 s) (h2 : InvW2 s) (hno : s.sOwner = none)
    (hpc : s'.pc = upd s.pc t (.snd q)) (hflag : s'.flag = s.flag)
    (hq0 : armed0 q = false) (hk : kOf q = 0) (hsh : ∀ k, q = .sHead k → rk k = false) : InvW2 s' := by
  have h0 := h2.idle0 hno
  have only : ∀ u q', s'.pc u = .snd q' → u = t ∧ q' = q := by
    intro u q' h
    rw [hpc] at h
    by_cases hut : u = t
    · subst hut; rw [upd_same] at h; cases h; exact ⟨rfl, rfl⟩
    · simp only [upd_apply, if_neg hut] at h
      have := (ha.sown u).2 (by rw [h]; rfl)
      rw [hno] at this; cases this
  refine ⟨?_, ?_, ?_, ?_, ?_, ?_, ?_, ?_⟩
  · intro u q' _ hf; rw [hflag, h0] at hf; cases hf
  · intro _; rw [hflag]; exact h0
  · intro u q' _ hf; rw [hflag, h0] at hf; cases hf
  · intro u r' k th p q' hu hpq
    obtain ⟨rfl, rfl⟩ := only p q' hpq
    rw [hpc] at hu
    by_cases hut : u = p
    · subst hut; rw [upd_same] at hu; cases hu
    · simp only [upd_apply, if_neg hut] at hu
      -- nobody holds the flag in CONSUMING while it is IDLE: impossible
      have hc := (h1.csm_iff u).2 (by rw [hu]; rfl)
      have := h1.flag_csm.2 (by rw [hc]; simp)
      rw [h0] at this; cases this
  · intro u q' h ha0; obtain ⟨rfl, rfl⟩ := only u q' h; rw [hq0] at ha0; cases ha0
  · intro u q' _ hf; rw [hflag, h0] at hf; cases hf
  · intro u q' h; obtain ⟨rfl, rfl⟩ := only u q' h; rw [hk]; exact Nat.zero_le _
  · intro u k h; obtain ⟨rfl, e⟩ := only u _ h; exact hsh k e.symm


/-- part 3 across a step of a free thread that only changes fields the waiters do not read -/
theorem invW3_free {s s' : State} {t : Nat} {p' : PC} (h3 : InvW3 s) (hfree : isFree (s.pc t) = true)
    (hpc : s'.pc = upd s.pc t p') (hcap : s'.cap = s.cap) (hcur : s'.cur = s.cur) (hsent : s'.sent = s.sent)
    (hpd : s'.pdropped = s.pdropped) (hwk : s'.wk = s.wk) (htok : s'.token = s.token)
    (hnew : ∀ r q', p' = .rcv r q' → wstage q' = none)
    (hfresh : ∀ r x, p' = .rcv r (.rFlag x) → x.reg = false) : InvW3 s' := by
  have ⟨_, _, _, f4, f5⟩ := free_class hfree
  have sndk : ∀ p q0, s.pc p = .snd q0 → s'.pc p = .snd q0 := by
    intro p q0 h
    rw [hpc]; simp only [upd_apply]; rw [if_neg]; exact h
    intro e; subst e; exact absurd h (f4 q0)
  refine ⟨?_, ?_⟩
  · intro u r q hu
    rw [hpc] at hu
    by_cases hut : u = t
    · subst hut; rw [upd_same] at hu; exact W3thread_none (hnew r q hu)
    · simp only [upd_apply, if_neg hut] at hu
      exact W3thread_move (h3.all u r q hu) (fun n hn => ⟨n, hn, Nat.le_refl _⟩) hcap (by rw [hcur]) hsent hpd
        (fun j a => by rw [hwk]; exact a) (fun a => by rw [htok]; exact a) sndk
  · intro u r x hu
    rw [hpc] at hu
    by_cases hut : u = t
    · subst hut; rw [upd_same] at hu; exact hfresh r x hu
    · simp only [upd_apply, if_neg hut] at hu; exact h3.fresh u r x hu

theorem wake_call {s s' : State} {t : Nat} {op : Op} (ha : InvA s) (hw : InvW s)
    (h : stepCall s t op = some s') : InvW s' := by
  unfold stepCall at h
  split at h
  · rename_i hc
    simp only [Bool.and_eq_true] at hc
    obtain ⟨hfree, _⟩ := hc
    have ⟨c1, c2, c3, c4, c5⟩ := free_class hfree
    -- a free thread enters a sender operation
    have goS : ∀ (q : SPC) (s1 : State), s.sOwner = none → s1.pc = upd s.pc t (.snd q) → s1.cap = s.cap → s1.flag = s.flag →
        s1.wq = s.wq → s1.upk = s.upk → s1.csm = s.csm → s1.cur = s.cur → s1.sent = s.sent → s1.pdropped = s.pdropped →
        s1.wk = s.wk → s1.token = s.token →
        armed0 q = false → kOf q = 0 → (∀ k, q = .sHead k → rk k = false) → InvW s1 := by
      intro q s1 hno e1 e2 e3 e4 e5 e6 e7 e8 e9 e10 e11 a0 ak ash
      exact ⟨invW1_frame hw.w1 e1 e4 e5 e6 (by rw [e3]) (by rw [c1]; rfl) (by rw [c2]; rfl) (by rw [c3]; rfl),
        invW2_callS ha hw.w1 hw.w2 hno e1 e3 a0 ak ash,
        invW3_free hw.w3 hfree e1 e2 e7 e8 e9 e10 e11 (fun r q' e => by cases e) (fun r x e => by cases e)⟩
    -- … or an operation on a receiver handle, or a zero-action operation
    have goO : ∀ (p' : PC) (s1 : State), s1.pc = upd s.pc t p' → s1.sOwner = s.sOwner → s1.cap = s.cap → s1.flag = s.flag →
        s1.pthread = s.pthread → s1.wq = s.wq → s1.upk = s.upk → s1.csm = s.csm → s1.cur = s.cur → s1.sent = s.sent →
        s1.pdropped = s.pdropped → s1.wk = s.wk → s1.token = s.token → s1.argm = s.argm → s1.lr = s.lr → s1.head = s.head →
        preCasPC p' = false → upkPC p' = none → csmPC p' = false → (∀ q, p' ≠ .snd q) →
        (∀ r q', p' = .rcv r q' → wstage q' = none) → (∀ r x, p' = .rcv r (.rFlag x) → x.reg = false) → InvW s1 := by
      intro p' s1 e1 e2 e3 e4 e5 e6 e7 e8 e9 e10 e11 e12 e13 e14 e15 e16 k1 k2 k3 k4 k5 k6
      exact ⟨invW1_frame hw.w1 e1 e6 e7 e8 (by rw [e4]) (by rw [c1, k1]) (by rw [c2, k2]) (by rw [c3, k3]),
        invW2_free hw.w2 hfree e1 e2 k4 k3 e3 e4 e5 e13 e7 (fun q0 h => witPC_congr e14 e15 e9 e6 e3 e16 h),
        invW3_free hw.w3 hfree e1 e3 e9 e10 e11 e12 e13 k5 k6⟩
    cases op <;> simp only [] at h
    case send v =>
      split at h
      · rename_i hf; simp only [sFreeH, Bool.and_eq_true, Option.isNone_iff_eq_none] at hf
        cases h; exact goS _ _ hf.2 rfl rfl rfl rfl rfl rfl rfl rfl rfl rfl rfl rfl rfl (fun k e => by cases e)
      · cases h
    case trySend v =>
      split at h
      · rename_i hf; simp only [sFreeH, Bool.and_eq_true, Option.isNone_iff_eq_none] at hf
        cases h; exact goS _ _ hf.2 rfl rfl rfl rfl rfl rfl rfl rfl rfl rfl rfl rfl rfl (fun k e => by cases e)
      · cases h
    case sendBatch vs blk =>
      split at h
      · rename_i hf; simp only [sFreeH, Bool.and_eq_true, Option.isNone_iff_eq_none] at hf
        split at h
        · cases h
          exact goO _ _ rfl rfl rfl rfl rfl rfl rfl rfl rfl rfl rfl rfl rfl rfl rfl rfl rfl rfl rfl (fun q e => by cases e)
            (fun r q' e => by cases e) (fun r x e => by cases e)
        · cases h; exact goS _ _ hf.2 rfl rfl rfl rfl rfl rfl rfl rfl rfl rfl rfl rfl rfl (fun k e => by cases e)
      · cases h
    case sClose =>
      split at h
      · rename_i hf; simp only [sFreeH, Bool.and_eq_true, Option.isNone_iff_eq_none] at hf
        cases h; exact goS _ _ hf.2 rfl rfl rfl rfl rfl rfl rfl rfl rfl rfl rfl rfl rfl (fun k e => by cases e)
      · cases h
    case sDrop =>
      split at h
      · rename_i hf; simp only [sFreeH, Bool.and_eq_true, Option.isNone_iff_eq_none] at hf
        cases h; exact goS _ _ hf.2 rfl rfl rfl rfl rfl rfl rfl rfl rfl rfl rfl rfl rfl (fun k e => by cases e)
      · cases h
    case sProbe p =>
      split at h
      · rename_i hf; simp only [sFreeH, Bool.and_eq_true, Option.isNone_iff_eq_none] at hf
        cases h
        by_cases hp : p = .isClosed
        · simp only [hp, if_true]
          exact goS _ _ hf.2 rfl rfl rfl rfl rfl rfl rfl rfl rfl rfl rfl rfl rfl (fun k e => by cases e)
        · simp only [hp, if_false]
          exact goS _ _ hf.2 rfl rfl rfl rfl rfl rfl rfl rfl rfl rfl rfl rfl rfl (fun k e => by cases e; rfl)
      · cases h
    case sConv =>
      split at h
      · cases h
        exact goO _ _ rfl rfl rfl rfl rfl rfl rfl rfl rfl rfl rfl rfl rfl rfl rfl rfl rfl rfl rfl (fun q e => by cases e)
          (fun r q' e => by cases e) (fun r x e => by cases e)
      · cases h
    case recv r kind max =>
      split at h
      · split at h
        · cases h
          exact goO _ _ rfl rfl rfl rfl rfl rfl rfl rfl rfl rfl rfl rfl rfl rfl rfl rfl rfl rfl rfl (fun q e => by cases e)
            (fun r q' e => by cases e) (fun r x e => by cases e)
        · cases h
          exact goO _ _ rfl rfl rfl rfl rfl rfl rfl rfl rfl rfl rfl rfl rfl rfl rfl rfl rfl rfl rfl (fun q e => by cases e)
            (fun r q' e => by cases e; rfl) (fun r x e => by cases e; rfl)
      · cases h
    case clone r =>
      split at h
      · cases h
        exact goO _ _ rfl rfl rfl rfl rfl rfl rfl rfl rfl rfl rfl rfl rfl rfl rfl rfl rfl rfl rfl (fun q e => by cases e)
          (fun r q' e => by cases e; rfl) (fun r x e => by cases e)
      · cases h
    case rClose r =>
      split at h
      · cases h
        exact goO _ _ rfl rfl rfl rfl rfl rfl rfl rfl rfl rfl rfl rfl rfl rfl rfl rfl rfl rfl rfl (fun q e => by cases e)
          (fun r q' e => by cases e; rfl) (fun r x e => by cases e)
      · cases h
    case rDrop r =>
      split at h
      · cases h
        exact goO _ _ rfl rfl rfl rfl rfl rfl rfl rfl rfl rfl rfl rfl rfl rfl rfl rfl rfl rfl rfl (fun q e => by cases e)
          (fun r q' e => by cases e; rfl) (fun r x e => by cases e)
      · cases h
    case rProbe r p =>
      split at h
      · cases h
        by_cases hp : p = .isClosed
        · exact goO (.rcv r (if p = .isClosed then .qDrop else .qHead p)) _ rfl rfl rfl rfl rfl rfl rfl rfl rfl rfl rfl rfl rfl rfl rfl rfl
            (by simp [hp, preCasPC, preCas]) (by simp [hp, upkPC]) (by simp [hp, csmPC]) (fun q e => by cases e)
            (fun r q' e => by cases e; simp [hp, wstage]) (fun r x e => by simp only [hp, if_true] at e; cases e)
        · exact goO (.rcv r (if p = .isClosed then .qDrop else .qHead p)) _ rfl rfl rfl rfl rfl rfl rfl rfl rfl rfl rfl rfl rfl rfl rfl rfl
            (by simp [hp, preCasPC, preCas]) (by simp [hp, upkPC]) (by simp [hp, csmPC]) (fun q e => by cases e)
            (fun r q' e => by cases e; simp [hp, wstage]) (fun r x e => by simp only [hp, if_false] at e; cases e)
      · cases h
    case rConv r =>
      split at h
      · cases h
        exact goO _ _ rfl rfl rfl rfl rfl rfl rfl rfl rfl rfl rfl rfl rfl rfl rfl rfl rfl rfl rfl (fun q e => by cases e)
          (fun r q' e => by cases e) (fun r x e => by cases e)
      · cases h
  · cases h


theorem wake_spurious {s s' : State} {t : Nat} (ha : InvA s) (hs : Safe s) (hw : InvW s)
    (h : stepSpurious s t = some s') : InvW s' := by
  unfold stepSpurious at h
  split at h
  · rename_i x hq
    cases h
    refine ⟨invW1_S hw.w1 hq rfl (by okS_tac) rfl rfl rfl Iff.rfl, ?_, ?_⟩
    · refine invW2_S ha hw.w2 hq rfl rfl (by okS_tac) rfl ?_ ?_ ?_ ?_ ?_ ?_ ?_
      · intro q' e hf
        have := hw.w2.parked t _ hq hf
        refine ⟨?_, this.2⟩
        unfold afterPark at e; split at e <;> cases e <;> rfl
      · intro res e; unfold afterPark at e; split at e <;> cases e
      · intro q' e _; unfold afterPark at e; split at e <;> cases e <;> rfl
      · intro q' e ha0; unfold afterPark at e; split at e <;> cases e <;> cases ha0
      · intro q' e _; unfold afterPark at e; split at e <;> cases e <;> trivial
      · intro q' e; unfold afterPark at e; split at e <;> cases e <;> exact Nat.zero_le _
      · intro k' e; unfold afterPark at e; split at e <;> cases e
    · exact invW3_S_cold ha hw.w3 hq rfl (by okS_tac) rfl (fun _ h => h) (fun _ h => h) rfl rfl rfl rfl rfl (fun _ _ h => h)
  · rename_i r x hq
    cases h
    have ⟨c1, c2, c3⟩ := class_afterRPark r x
    refine ⟨invW1_frame hw.w1 rfl rfl rfl rfl Iff.rfl (by rw [hq, c1]; rfl) (by rw [hq, c2]; rfl) (by rw [hq, c3]; rfl), ?_, ?_⟩
    · refine invW2_R hw.w2 hq rfl rfl (by okR_tac) rfl rfl rfl (fun _ _ h => h) (fun _ _ h => Or.inl h) ?_
        (fun q0 _ h => witPC_congr rfl rfl rfl rfl rfl rfl h)
      intro k th e; rw [e] at c3; cases c3
    · refine invW3_R ha hs hw.w3 hq rfl (by okR_tac) rfl rfl rfl (fun _ _ _ => rfl) (fun _ _ a => a) (fun _ _ a => a) ?_ (by nf_tac)
      intro q' e; exact W3thread_none (by
        cases hn : wstage q' with
        | none => rfl
        | some n => exact (stage_afterRPark e hn).elim)
  · cases h

theorem wake_teardown {s s' : State} (hw : InvW s) (h : stepTeardown s = some s') : InvW s' := by
  unfold stepTeardown at h
  split at h
  · cases h
    obtain ⟨⟨a1, a2, a3, a4, a5, a6⟩, ⟨b1, b2, b3, b4, b5, b6, b7, b8⟩, ⟨c1, c2⟩⟩ := hw
    refine ⟨⟨a1, a2, a3, a4, a5, a6⟩, ⟨b1, b2, b3, b4, b5, ?_, b7, b8⟩, ⟨c1, c2⟩⟩
    intro p q hp hf
    exact witPC_congr rfl rfl rfl rfl rfl rfl (b6 p q hp hf)
  · cases h

theorem wake_init (cap : Nat) : InvW (init cap) := by
  refine ⟨?_, ?_, ?_⟩
  · constructor <;> simp [init, preCasPC, upkPC, csmPC]
  · constructor <;> simp [init]
  · constructor <;> simp [init]

theorem wake_step {s s' : State} {t : Nat} {l : Label} (ha : InvA s) (hl : LRI s) (hs : Safe s) (hw : InvW s)
    (h : step s t l = some s') : InvW s' := by
  cases l <;> simp only [step] at h
  · exact wake_call ha hw h
  · exact wake3_act ha hl hs hw h
  · exact wake_spurious ha hs hw h
  · exact wake_teardown hw h

/-- **The wake-up invariants hold in every reachable state of an untainted run.** -/
theorem wake_reach {cap : Nat} (hc : 0 < cap) {s : State} (h : Reach cap s) (hnt : s.taint = false) : InvW s := by
  induction h with
  | init => exact wake_init cap
  | step hr hst ih =>
    have h0 := taint_mono hst hnt
    exact wake_step (invA_reach hr) (lri_reach hr) (safe_reach hc hr h0) (ih h0) hst

end Fv.Chan.SpmcB
