import Fv.Lemmas.PolicySpec
/-!
# Helper lemmas for C14: back-draining loops, LRU and FIFO
-/
namespace Fv.Cache.Policy

theorem concat_eq_append_cases {α} {p a b : List α} {x : α} (h : p ++ [x] = a ++ b) :
    (b = [] ∧ a = p ++ [x]) ∨ ∃ b', b = b' ++ [x] ∧ p = a ++ b' := by
  rcases List.eq_nil_or_concat b with rfl | ⟨b', y, rfl⟩
  · left; simp at h; exact ⟨rfl, h.symm⟩
  · right
    rw [List.concat_eq_append, ← List.append_assoc] at h
    have := List.append_inj' h (by simp)
    refine ⟨b', ?_, this.1⟩
    simp at this; rw [List.concat_eq_append, this.2]

/-- costs read off a sub-collection `q` of `t` agree with looking the keys up in `t` -/
theorem costSum_eq_lookup_sum {t q : List (Nat × Nat)} (hnd : (keys t).Nodup)
    (hsub : ∀ p ∈ q, p ∈ t) :
    costSum q = ((keys q).map (fun k => (costOf t k).getD 0)).sum := by
  simp only [costSum, keys, List.map_map]
  congr 1
  apply List.map_congr_left
  intro p hp
  have : costOf t p.1 = some p.2 := (costOf_eq_some_iff hnd).2 (hsub p hp)
  simp [this]

@[simp] theorem costSum_reverse (l : List (Nat × Nat)) : costSum l.reverse = costSum l :=
  costSum_perm (List.reverse_perm l)

theorem keys_reverse (l : List (Nat × Nat)) : keys l.reverse = (keys l).reverse := by
  simp [keys]

/-! ### `Lru.evictLoop` -/

theorem Lru.evictLoop_spec : ∀ (fuel : Nat) (l : LruList) (need : Nat) (vs : List Nat) (freed : Nat),
    l.WF → l.items.length < fuel →
    ∃ popped l', Lru.evictLoop fuel l need vs freed
        = (l', vs ++ keys popped.reverse, freed + costSum popped)
      ∧ l.items = l'.items ++ popped ∧ l'.WF
      ∧ (need ≤ freed + costSum popped ∨ l'.items = [])
      ∧ (∀ a b, popped = a ++ b → a ≠ [] → freed + costSum b < need) := by
  intro fuel
  induction fuel with
  | zero => intro l _ _ _ _ hf; omega
  | succ fuel ih =>
    intro l need vs freed hw hf
    unfold Lru.evictLoop
    by_cases hlt : freed < need
    · simp only [hlt, if_true]
      rcases List.eq_nil_or_concat l.items with hnil | ⟨init, ⟨k, c⟩, hc⟩
      · rw [LruList.popBack_nil hnil]
        refine ⟨[], l, by simp, by simp, hw, Or.inr hnil, ?_⟩
        intro a b hab; simp at hab; simp [hab.1]
      · rw [List.concat_eq_append] at hc
        rw [LruList.popBack_concat hw hc]
        have hw' := LruList.popBack_concat_WF hw hc
        have hlen : init.length < fuel := by simp [hc] at hf; omega
        obtain ⟨popped, l', he, hs, hw2, hdone, hmin⟩ :=
          ih { items := init, cost := l.cost - c } need (vs ++ [k]) (freed + c) hw' hlen
        refine ⟨popped ++ [(k, c)], l', ?_, ?_, hw2, ?_, ?_⟩
        · simp only [he]; simp [keys_reverse, Nat.add_assoc, Nat.add_comm c]
        · rw [hc]; simp only at hs; rw [hs, List.append_assoc]
        · rcases hdone with h | h
          · left; simp; omega
          · right; exact h
        · intro a b hab hane
          rcases concat_eq_append_cases hab with ⟨rfl, _⟩ | ⟨b', rfl, hp⟩
          · simpa using hlt
          · have := hmin a b' hp hane; simp; omega
    · simp only [hlt, if_false]
      refine ⟨[], l, by simp, by simp, hw, Or.inl (by simp; omega), ?_⟩
      intro a b hab; simp at hab; simp [hab.1]

/-! ### `drainBack` (FIFO, SLRU) -/

theorem drainBack_spec : ∀ (fuel : Nat) (l : LruList) (need : Nat) (vs : List Nat) (freed : Nat),
    l.WF → l.items.length < fuel →
    ∃ popped l', drainBack fuel l need vs freed
        = (l', need - costSum popped, vs ++ keys popped.reverse, freed + costSum popped)
      ∧ l.items = l'.items ++ popped ∧ l'.WF
      ∧ (need ≤ costSum popped ∨ l'.items = [])
      ∧ (∀ a b, popped = a ++ b → a ≠ [] → costSum b < need) := by
  intro fuel
  induction fuel with
  | zero => intro l _ _ _ _ hf; omega
  | succ fuel ih =>
    intro l need vs freed hw hf
    unfold drainBack
    by_cases hlt : need > 0
    · simp only [hlt, if_true]
      rcases List.eq_nil_or_concat l.items with hnil | ⟨init, ⟨k, c⟩, hc⟩
      · rw [LruList.popBack_nil hnil]
        refine ⟨[], l, by simp, by simp, hw, Or.inr hnil, ?_⟩
        intro a b hab; simp at hab; simp [hab.1]
      · rw [List.concat_eq_append] at hc
        rw [LruList.popBack_concat hw hc]
        have hw' := LruList.popBack_concat_WF hw hc
        have hlen : init.length < fuel := by simp [hc] at hf; omega
        obtain ⟨popped, l', he, hs, hw2, hdone, hmin⟩ :=
          ih { items := init, cost := l.cost - c } (need - c) (vs ++ [k]) (freed + c) hw' hlen
        refine ⟨popped ++ [(k, c)], l', ?_, ?_, hw2, ?_, ?_⟩
        · simp only [he]; simp [keys_reverse, Nat.add_assoc, Nat.add_comm c, Nat.sub_sub]
        · rw [hc]; simp only at hs; rw [hs, List.append_assoc]
        · rcases hdone with h | h
          · left; simp; omega
          · right; exact h
        · intro a b hab hane
          rcases concat_eq_append_cases hab with ⟨rfl, _⟩ | ⟨b', rfl, hp⟩
          · simpa using hlt
          · have := hmin a b' hp hane; simp; omega
    · simp only [hlt, if_false]
      refine ⟨[], l, by simp, by simp, hw, Or.inl (by omega), ?_⟩
      intro a b hab; simp at hab; simp [hab.1]

/-- what popping `popped` off the back of a duplicate-free tracked list means for the contract -/
theorem EvictSound.of_back {t t' popped : List (Nat × Nat)} (hnd : (keys t).Nodup)
    (hs : t = t' ++ popped) : EvictSound t t' (keys popped.reverse) (costSum popped) := by
  have := EvictSound.of_perm (t := t) (t' := t') (popped := popped.reverse) hnd
    (by rw [hs]; exact (List.reverse_perm popped).symm.append_left t')
  simpa using this

/-- order facts for a back-pop of a list sorted (head = largest) by some key measure -/
theorem back_order {R : Nat → Nat → Prop} {t t' popped : List (Nat × Nat)} (hs : t = t' ++ popped)
    (hp : t.Pairwise (fun p q => R q.1 p.1)) :
    (keys popped.reverse).Pairwise R ∧ ∀ v ∈ keys popped.reverse, ∀ x ∈ keys t', R v x := by
  rw [hs, List.pairwise_append] at hp
  refine ⟨?_, ?_⟩
  · simp only [keys, List.pairwise_map, List.pairwise_reverse]; exact hp.2.1
  · intro v hv x hx
    simp only [keys, List.mem_map, List.mem_reverse] at hv hx
    obtain ⟨q, hq, rfl⟩ := hv
    obtain ⟨p, hp', rfl⟩ := hx
    exact hp.2.2 p hp' q hq

/-- the loop stops as soon as the request is met: all victims but the last are worth `< n` -/
theorem back_minimal {t t' popped : List (Nat × Nat)} {n : Nat} (hnd : (keys t).Nodup)
    (hs : t = t' ++ popped) (hm : ∀ a b, popped = a ++ b → a ≠ [] → costSum b < n) :
    ∀ vs0 v, keys popped.reverse = vs0 ++ [v] →
      (vs0.map (fun k => (costOf t k).getD 0)).sum < n := by
  intro vs0 v hv
  cases popped with
  | nil => simp at hv
  | cons p0 b =>
    have h1 : keys (p0 :: b).reverse = keys b.reverse ++ [p0.1] := by simp [keys]
    rw [h1] at hv
    have h2 := (List.append_inj' hv (by simp)).1
    have h3 := hm [p0] b (by simp) (by simp)
    have h4 : costSum b.reverse = ((keys b.reverse).map (fun k => (costOf t k).getD 0)).sum :=
      costSum_eq_lookup_sum hnd (by intro p hp; rw [hs]; simp at hp; simp [hp])
    rw [← h2, ← h4]; simpa using h3

/-! ### LRU -/
namespace Lru

theorem Inv_init : Inv init := LruList.WF_empty

theorem evict_spec {s : State} (h : Inv s) (n : Nat) :
    ∃ popped l', evict s n = (l', keys popped.reverse, costSum popped)
      ∧ s.items = l'.items ++ popped ∧ l'.WF
      ∧ (n ≤ costSum popped ∨ l'.items = [])
      ∧ (∀ a b, popped = a ++ b → a ≠ [] → costSum b < n) := by
  obtain ⟨popped, l', he, hs, hw, hd, hm⟩ := evictLoop_spec (s.items.length + 1) s n [] 0 h (by omega)
  exact ⟨popped, l', by simpa [evict] using he, hs, hw, by simpa using hd, by simpa using hm⟩

theorem Inv_step {s : State} (h : Inv s) (op : Op) : Inv (step s op) := by
  cases op with
  | admit k c => exact LruList.pushFront_WF h k c
  | access k c => exact LruList.moveToFront_WF h k
  | remove k => exact LruList.remove_WF h k
  | evict n picks =>
    obtain ⟨popped, l', he, _, hw, _⟩ := evict_spec h n
    simp only [step, he]; exact hw
  | clear => exact LruList.WF_empty

theorem run_snoc (ops : List Op) (op : Op) : run (ops ++ [op]) = step (run ops) op := by
  simp [run]

/-- The list is ordered by recency of use: head = most recently used. -/
def RecencySorted (ops : List Op) (l : List (Nat × Nat)) : Prop :=
  l.Pairwise (fun p q => lastUse ops q.1 < lastUse ops p.1)

theorem recency_untouched {ops : List Op} {op : Op} {l : List (Nat × Nat)}
    (h : RecencySorted ops l) (hu : ∀ p ∈ l, op.touches p.1 = false) :
    RecencySorted (ops ++ [op]) l := by
  unfold RecencySorted at *
  refine h.imp_of_mem ?_
  intro p q hp hq hr
  simp [lastUse_snoc, hu p hp, hu q hq, hr]

theorem recency_sublist {ops : List Op} {l l' : List (Nat × Nat)} (h : RecencySorted ops l)
    (hs : l'.Sublist l) : RecencySorted ops l' := List.Pairwise.sublist hs h

theorem recency_touch_front {ops : List Op} {op : Op} {l : List (Nat × Nat)} {k c : Nat}
    (h : RecencySorted ops l) (hk : op.touches k = true)
    (hu : ∀ x, op.touches x = true → x = k) :
    RecencySorted (ops ++ [op]) ((k, c) :: LruList.without l k) := by
  have hunt : ∀ p ∈ LruList.without l k, op.touches p.1 = false := by
    intro p hp
    have := (mem_without.1 hp).2
    cases ht : op.touches p.1
    · rfl
    · exact absurd (hu _ ht) this
  refine List.pairwise_cons.2 ⟨?_, recency_untouched (recency_sublist h (without_sublist l k)) hunt⟩
  intro p hp
  have := lastUse_le ops p.1
  simp [lastUse_snoc, hk, hunt p hp]; omega

theorem touches_admit (k c x) : (Op.admit k c).touches x = true ↔ x = k := by
  simp only [Op.touches, beq_iff_eq]; exact eq_comm
theorem touches_access (k c x) : (Op.access k c).touches x = true ↔ x = k := by
  simp only [Op.touches, beq_iff_eq]; exact eq_comm

theorem recencySorted_run (ops : List Op) : RecencySorted ops (run ops).items := by
  induction ops using snoc_induction with
  | nil => simp [RecencySorted, run, init]
  | snoc ops op ih =>
    have hinv : Inv (run ops) := foldl_inv step Inv (fun s a h => Inv_step h a) ops init Inv_init
    rw [run_snoc]
    cases op with
    | admit k c =>
      simp only [step, admit]; rw [LruList.pushFront_items]
      exact recency_touch_front ih ((touches_admit k c k).2 rfl) (fun x hx => (touches_admit k c x).1 hx)
    | access k c =>
      simp only [step, access]; rw [LruList.moveToFront_items]
      split
      · exact recency_touch_front ih ((touches_access k c k).2 rfl)
          (fun x hx => (touches_access k c x).1 hx)
      · next hnone =>
        refine recency_untouched ih ?_
        intro p hp
        have hk : k ∉ keys (run ops).items := costOf_eq_none_iff.1 hnone
        cases ht : (Op.access k c).touches p.1
        · rfl
        · exact absurd ((touches_access k c p.1).1 ht ▸ mem_keys_of_mem hp) hk
    | remove k =>
      simp only [step, remove]; rw [LruList.remove_items]
      exact recency_untouched (recency_sublist ih (without_sublist _ k)) (by simp [Op.touches])
    | evict n picks =>
      obtain ⟨popped, l', he, hs, _⟩ := evict_spec hinv n
      simp only [step, he]
      refine recency_untouched (recency_sublist ih ?_) (by simp [Op.touches])
      rw [hs]; exact List.sublist_append_left _ _
    | clear => simp [step, clear, RecencySorted]

end Lru

/-! ### FIFO -/
namespace Fifo

theorem Inv_init : Inv init := LruList.WF_empty

theorem evict_spec {s : State} (h : Inv s) (n : Nat) :
    ∃ popped l', evict s n = (l', keys popped.reverse, costSum popped)
      ∧ s.items = l'.items ++ popped ∧ l'.WF
      ∧ (n ≤ costSum popped ∨ l'.items = [])
      ∧ (∀ a b, popped = a ++ b → a ≠ [] → costSum b < n) := by
  obtain ⟨popped, l', he, hs, hw, hd, hm⟩ := drainBack_spec (s.items.length + 1) s n [] 0 h (by omega)
  exact ⟨popped, l', by simp [evict, he], hs, hw, hd, hm⟩

theorem admit_fst (s : State) (k c) :
    (admit s k c).1 = if k ∈ keys s.items then s else s.pushFront k c := by
  simp only [admit]
  by_cases h : k ∈ keys s.items
  · simp [h, (LruList.contains_iff s k).2 h]
  · simp [h, (LruList.contains_false_iff s k).2 h]

theorem Inv_step {s : State} (h : Inv s) (op : Op) : Inv (step s op) := by
  cases op with
  | admit k c =>
    simp only [step, admit_fst]; split
    · exact h
    · exact LruList.pushFront_WF h k c
  | access k c => exact h
  | remove k => exact LruList.remove_WF h k
  | evict n picks =>
    obtain ⟨popped, l', he, _, hw, _⟩ := evict_spec h n
    simp only [step, he]; exact hw
  | clear => exact LruList.WF_empty

theorem runT_snoc (ops : List Op) (op : Op) : runT (ops ++ [op]) = stepT (runT ops) op := by
  simp [runT]

theorem runT_fst (ops : List Op) : (runT ops).1 = run ops := by
  induction ops using snoc_induction with
  | nil => rfl
  | snoc ops op ih => rw [runT_snoc]; simp [run, stepT, ih]

theorem runT_clock (ops : List Op) : (runT ops).2.2 = ops.length := by
  induction ops using snoc_induction with
  | nil => rfl
  | snoc ops op ih => rw [runT_snoc]; simp [stepT, ih]

theorem run_snoc (ops : List Op) (op : Op) : run (ops ++ [op]) = step (run ops) op := by
  simp [run]

theorem insertedAt_snoc (ops : List Op) (op : Op) (x : Nat) :
    insertedAt (ops ++ [op]) x =
      match op with
      | .admit k _ => if k ∈ keys (run ops).items then insertedAt ops x
                      else if x = k then ops.length + 1 else insertedAt ops x
      | _ => insertedAt ops x := by
  simp only [insertedAt, runT_snoc, stepT, runT_fst, runT_clock]
  cases op with
  | admit k c =>
    by_cases h : k ∈ keys (run ops).items
    · simp [h, (LruList.contains_iff _ k).2 h]
    · simp [h, (LruList.contains_false_iff _ k).2 h]
  | _ => rfl

/-- head = most recently inserted -/
def InsertionSorted (ops : List Op) (l : List (Nat × Nat)) : Prop :=
  l.Pairwise (fun p q => insertedAt ops q.1 < insertedAt ops p.1) ∧
  ∀ p ∈ l, insertedAt ops p.1 ≤ ops.length

theorem insertion_sublist {ops : List Op} {l l' : List (Nat × Nat)} (h : InsertionSorted ops l)
    (hs : l'.Sublist l) : InsertionSorted ops l' :=
  ⟨List.Pairwise.sublist hs h.1, fun p hp => h.2 p (hs.subset hp)⟩

theorem insertion_same {ops : List Op} {op : Op} {l : List (Nat × Nat)} (h : InsertionSorted ops l)
    (he : ∀ p ∈ l, insertedAt (ops ++ [op]) p.1 = insertedAt ops p.1) :
    InsertionSorted (ops ++ [op]) l := by
  refine ⟨h.1.imp_of_mem ?_, ?_⟩
  · intro p q hp hq hr; rw [he p hp, he q hq]; exact hr
  · intro p hp; rw [he p hp]; have := h.2 p hp; simp; omega

theorem insertionSorted_run (ops : List Op) : InsertionSorted ops (run ops).items := by
  induction ops using snoc_induction with
  | nil => simp [InsertionSorted, run, init]
  | snoc ops op ih =>
    have hinv : Inv (run ops) := foldl_inv step Inv (fun s a h => Inv_step h a) ops init Inv_init
    rw [run_snoc]
    cases op with
    | admit k c =>
      simp only [step, admit_fst]
      by_cases hk : k ∈ keys (run ops).items
      · simp only [hk, if_true]
        exact insertion_same ih (fun p _ => by simp [insertedAt_snoc, hk])
      · simp only [hk, if_false]
        rw [LruList.pushFront_items, without_eq_self hk]
        have hne : ∀ p ∈ (run ops).items, p.1 ≠ k := fun p hp e => hk (e ▸ mem_keys_of_mem hp)
        have hsame : ∀ p ∈ (run ops).items,
            insertedAt (ops ++ [Op.admit k c]) p.1 = insertedAt ops p.1 := by
          intro p hp; simp [insertedAt_snoc, hk, hne p hp]
        have := insertion_same ih hsame
        refine ⟨List.pairwise_cons.2 ⟨?_, this.1⟩, ?_⟩
        · intro p hp
          rw [hsame p hp]
          have := ih.2 p hp
          simp [insertedAt_snoc, hk]; omega
        · intro p hp
          rcases List.mem_cons.1 hp with rfl | hp
          · simp [insertedAt_snoc, hk]
          · exact this.2 p hp
    | access k c => exact insertion_same ih (fun p _ => by simp [insertedAt_snoc])
    | remove k =>
      simp only [step, remove]; rw [LruList.remove_items]
      exact insertion_same (insertion_sublist ih (without_sublist _ k))
        (fun p _ => by simp [insertedAt_snoc])
    | evict n picks =>
      obtain ⟨popped, l', he, hs, _⟩ := evict_spec hinv n
      simp only [step, he]
      refine insertion_same (insertion_sublist ih ?_) (fun p _ => by simp [insertedAt_snoc])
      rw [hs]; exact List.sublist_append_left _ _
    | clear => simp [step, clear, InsertionSorted]

end Fifo

end Fv.Cache.Policy
