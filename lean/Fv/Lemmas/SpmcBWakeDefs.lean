import Fv.Lemmas.SpmcBSafe
/-!
Wake-up invariants of `Fv.Chan.SpmcB` (C05 in safety form): definitions.

* `InvW1` — the ghost sets (`wq`, `upk`, `csm`) mirror the control states;
* `InvW2` — the producer's three-state park flag: who may be where for each flag value, the
  hand-off of the thread handle, and the Dekker argument (`witPC`): while the flag is PARKED, either
  the cursor that made the re-check say "full" is still published and unchanged, or a consumer that
  changed it has not yet tested the flag;
* `InvW3` — the receivers' slot waker lists: a registered waiter is in its slot's list, or has a
  token, or sits in the sender's to-wake list; once an item (or the drop of the sender) arrived after
  its re-check, the sender is still before the drain of that slot.
-/
namespace Fv.Chan.SpmcB
open Fv.Chan.LeftRightB (upd upd_apply upd_same)

/-- consumer control states between the cursor store / the publication of an unregistration and
the test of the producer's park flag -/
def preCas : RPC → Bool
  | .wpFence _ => true
  | .wpLoad _ => true
  | .wpCas _ => true
  | .mMod .unreg (.wWait _ _) => true
  | .mMod .unreg (.wSpin _ _) => true
  | .mMod .unreg (.wMut2 _ _) => true
  | .mMod .unreg .wUnlock => true
  | .mUnlock .unreg => true
  | _ => false

def preCasPC : PC → Bool
  | .rcv _ q => preCas q
  | _ => false

/-- the thread is about to unpark `p` -/
def upkPC : PC → Option Nat
  | .rcv _ (.wpUnpark _ p) => some p
  | _ => none

/-- the thread holds the park flag in CONSUMING -/
def csmPC : PC → Bool
  | .rcv _ (.wpIdle _ _) => true
  | _ => false

structure InvW1 (s : State) : Prop where
  wq_iff : ∀ u, u ∈ s.wq ↔ preCasPC (s.pc u) = true
  wq_nodup : s.wq.Nodup
  upk_iff : ∀ u p, (u, p) ∈ s.upk ↔ upkPC (s.pc u) = some p
  upk_nodup : s.upk.Nodup
  csm_iff : ∀ u, s.csm = some u ↔ csmPC (s.pc u) = true
  flag_csm : s.flag = 2 ↔ s.csm ≠ none

/-- scans made by the re-check after arming -/
def rk : ScanK → Bool
  | .recheck _ => true
  | .recheckB _ => true
  | _ => false

/-- armed, and a completed hand-off means the wake is in flight -/
def armed0 : SPC → Bool
  | .aFence _ => true
  | .sEnter k _ _ => rk k
  | .sScan k _ _ _ _ _ => rk k
  | .sHead2 k _ _ _ => rk k
  | .sExit k _ _ _ _ => rk k
  | .pPark _ => true
  | _ => false

/-- where the producer can be while the flag is PARKED -/
def armed1 : SPC → Bool
  | .dCas _ => true
  | .pHead _ => true
  | .pLoad _ => true
  | .pCas _ => true
  | q => armed0 q

/-- where the producer can be while the flag is CONSUMING -/
def armed2 : SPC → Bool
  | .dSpin _ => true
  | .dLoad _ => true
  | .dSpin2 _ => true
  | .pSpin _ => true
  | q => armed1 q

/-- Dekker witness: the cursor that is (so far) the minimum of the re-check is still published and
unchanged — or some consumer has changed the list / a cursor and not yet tested the flag -/
def witPC (s : State) : SPC → Prop
  | .sScan k _ _ _ _ (some mv) => rk k = true → (s.argm ∈ s.pub ∧ s.cur s.argm = mv) ∨ s.wq ≠ []
  | .sHead2 k _ _ mv => rk k = true → (s.argm ∈ s.pub ∧ s.cur s.argm = mv) ∨ s.wq ≠ []
  | .sExit k _ _ _ (some mv) => rk k = true → (s.argm ∈ s.pub ∧ s.cur s.argm = mv) ∨ s.wq ≠ []
  | .pPark _ => (s.argm ∈ s.pub ∧ s.cur s.argm + s.cap ≤ s.head) ∨ s.wq ≠ []
  | _ => True

/-- number of slots of the write in progress -/
def kOf : SPC → Nat
  | .bHead _ k => k
  | .wSeqLd _ _ _ k => k
  | .wVal _ _ _ k _ => k
  | .wSeqSt _ _ _ k => k
  | .wHeadSt _ _ k => k
  | .wLockW _ _ _ k _ => k
  | .wUnlockW _ _ _ k _ => k
  | _ => 0

structure InvW2 (s : State) : Prop where
  parked : ∀ p q, s.pc p = .snd q → s.flag = 1 → armed1 q = true ∧ s.pthread = some p
  idle0 : s.sOwner = none → s.flag = 0
  consuming : ∀ p q, s.pc p = .snd q → s.flag = 2 → armed2 q = true
  idle_th : ∀ u r k th p q, s.pc u = .rcv r (.wpIdle k th) → s.pc p = .snd q → th = some p
  handed : ∀ p q, s.pc p = .snd q → armed0 q = true → s.flag = 0 → s.token p = true ∨ ∃ u, (u, p) ∈ s.upk
  wit : ∀ p q, s.pc p = .snd q → s.flag = 1 → witPC s q
  kcap : ∀ p q, s.pc p = .snd q → kOf q ≤ s.cap
  shead : ∀ p k, s.pc p = .snd (.sHead k) → rk k = false

/-- wakers the sender-side thread has taken out of a slot list and not yet woken -/
def accOf : SPC → List Nat
  | .wLockW _ _ _ _ acc => acc
  | .wUnlockW _ _ _ _ acc => acc
  | .wWake _ _ acc => acc
  | .cWake _ ws => ws
  | _ => []

/-- the producer is still before the drain of the slot of index `c` -/
def willDrain (q : SPC) (c : Nat) : Prop :=
  match q with
  | .wSeqLd _ h _ k => h ≤ c ∧ c < h + k
  | .wVal _ h _ k _ => h ≤ c ∧ c < h + k
  | .wSeqSt _ h _ k => h ≤ c ∧ c < h + k
  | .wHeadSt _ h k => h ≤ c ∧ c < h + k
  | .wLockW _ h j k _ => h + j ≤ c ∧ c < h + k
  | .wUnlockW _ h j k _ => h + j < c ∧ c < h + k
  | _ => False

/-- the closing sender is still before the drain of slot `j` -/
def willDrainC (q : SPC) (j : Nat) : Prop :=
  match q with
  | .cLock j0 => j0 ≤ j
  | .cWake j0 _ => j0 < j
  | .cUnlock j0 => j0 < j
  | _ => False

/-- a wake of `t` is already under way: token, or in the sender's to-wake list -/
def OwedL (s : State) (t : Nat) : Prop := s.token t = true ∨ ∃ p q, s.pc p = .snd q ∧ t ∈ accOf q

/-- stage of a blocking receive after it registered its waker: 0 = before the re-check's load,
1 = the re-check found nothing, 2 = past the `producer_dropped` test -/
def wstage : RPC → Option Nat
  | .gUnlock _ _ => some 0
  | .rCur x => if x.reg then some 0 else none
  | .rSeq x _ => if x.reg then some 0 else none
  | .bHd x _ => if x.reg then some 0 else none
  | .rDrop x _ => if x.reg then some 1 else none
  | .rHead x _ => if x.reg then some 1 else none
  | .bDrop x _ => if x.reg then some 1 else none
  | .bHd2 x _ => if x.reg then some 1 else none
  | .eDrop _ => some 2
  | .eHead _ => some 2
  | .eCur _ _ => some 2
  | .kPark _ => some 2
  | _ => none

/-- what a blocking receive that has registered its waker can rely on -/
def W3thread (s : State) (t r : Nat) (q : RPC) : Prop :=
  (∀ n, wstage q = some n → t ∈ s.wk (s.cur r % s.cap) ∨ OwedL s t) ∧
  (∀ n, wstage q = some n → 1 ≤ n → s.cur r < s.sent.length →
      OwedL s t ∨ (t ∈ s.wk (s.cur r % s.cap) ∧ ∃ p q', s.pc p = .snd q' ∧ willDrain q' (s.cur r))) ∧
  (wstage q = some 2 → s.pdropped = true →
      OwedL s t ∨ (t ∈ s.wk (s.cur r % s.cap) ∧ ∃ p q', s.pc p = .snd q' ∧ willDrainC q' (s.cur r % s.cap)))

structure InvW3 (s : State) : Prop where
  all : ∀ t r q, s.pc t = .rcv r q → W3thread s t r q
  fresh : ∀ t r x, s.pc t = .rcv r (.rFlag x) → x.reg = false

structure InvW (s : State) : Prop where
  w1 : InvW1 s
  w2 : InvW2 s
  w3 : InvW3 s

end Fv.Chan.SpmcB
