import Fv.Lemmas.SyncMutexStep
import Fv.Lemmas.SyncWaitList
/-!
Basic inductive invariant of the `HybridMutex` model: mutual exclusion (ghost `holders` vs. the
`LOCKED` bit), exclusion of the list spinlock, the wait-list invariant, node ownership (every
queued node belongs to a live waiter), future bookkeeping.
-/
namespace Fv.Sync.Mutex
open Fv.Sync

/-- the thread holds the list spinlock -/
def inLL : Pc → Bool
  | .qRearm | .qFetchOr | .qLoad | .qCas | .ff _ | .llRel _ | .wnStore => true
  | _ => false

/-- `lock_slow`, from its entry up to (not including) the unlink of the stack node
(meaningful when `cur = none`) -/
def slowL : Pc → Bool
  | .taLoad .lockSpin | .taCas .lockSpin | .spinYield
  | .llSwap .queue | .llLoad .queue | .llSpin .queue
  | .llSwap .spinUnlink | .llLoad .spinUnlink | .llSpin .spinUnlink
  | .qRearm | .qFetchOr | .qLoad | .qCas | .llRel .parkLoad | .wLoad | .wPark => true
  | _ => false

/-- pcs that only occur on the sync path (`cur = none`) -/
def syncOnly : Pc → Bool
  | .taLoad .lockFast | .taCas .lockFast | .taLoad .lockSpin | .taCas .lockSpin
  | .taLoad .tryLock | .taCas .tryLock | .spinYield
  | .llSwap .spinUnlink | .llLoad .spinUnlink | .llSpin .spinUnlink
  | .ff .retOk | .llRel .retOk | .llRel .parkLoad | .wLoad | .wPark => true
  | _ => false

/-- pcs that only occur while polling / dropping a future (`cur = some f`) -/
def asyncOnly : Pc → Bool
  | .taLoad .asyncFirst | .taCas .asyncFirst | .taLoad .pollTry | .taCas .pollTry | .boPark
  | .llSwap .finish | .llLoad .finish | .llSpin .finish
  | .llSwap .drop | .llLoad .drop | .llSpin .drop
  | .ff .retReady | .ff .dropLoad | .llRel .retReady | .llRel .dropLoad | .llRel .pending | .dLoad => true
  | _ => false

/-- pcs at which a thread with `cur = some f` is operating on future `f` -/
def futPc : Pc → Bool
  | .taLoad .asyncFirst | .taCas .asyncFirst | .taLoad .pollTry | .taCas .pollTry | .boPark
  | .llSwap .finish | .llLoad .finish | .llSpin .finish
  | .llSwap .drop | .llLoad .drop | .llSpin .drop
  | .llSwap .queue | .llLoad .queue | .llSpin .queue
  | .qRearm | .qFetchOr | .qLoad | .qCas
  | .ff .retReady | .ff .dropLoad | .llRel .retReady | .llRel .dropLoad | .llRel .pending | .dLoad => true
  | _ => false

/-- … and the future's node exists (`node` non-null) -/
def futNodePc : Pc → Bool
  | .llSwap .finish | .llLoad .finish | .llSpin .finish
  | .llSwap .drop | .llLoad .drop | .llSpin .drop
  | .llSwap .queue | .llLoad .queue | .llSpin .queue
  | .qRearm | .qFetchOr | .qLoad | .qCas
  | .ff .retReady | .ff .dropLoad | .llRel .retReady | .llRel .dropLoad | .llRel .pending | .dLoad => true
  | _ => false

/-- … and the node has just been unlinked by this thread -/
def futUnlPc : Pc → Bool
  | .ff .retReady | .ff .dropLoad | .llRel .retReady | .llRel .dropLoad | .dLoad => true
  | _ => false

def PLockedHeld (s : State) : Prop := s.word.locked = true → ∃ u, s.holders = [(u, true)]
def PFreeEmpty (s : State) : Prop := s.word.locked = false → s.holders = []
def PSvFree (s : State) : Prop :=
  ∀ t, ((∃ k, (s.th t).pc = .taCas k) ∨ (s.th t).pc = .qCas) → (s.th t).sv.locked = false
def PRelHolds (s : State) : Prop := ∀ t, (s.th t).pc = .relAnd → (t, true) ∈ s.holders
def PLl (s : State) : Prop :=
  ∀ t, inLL (s.th t).pc = true → s.wl.locked = true ∧ ∀ u, inLL (s.th u).pc = true → u = t
def PSyncCur (s : State) : Prop := ∀ t, syncOnly (s.th t).pc = true → (s.th t).cur = none
def PAsyncCur (s : State) : Prop := ∀ t, asyncOnly (s.th t).pc = true → ∃ f, (s.th t).cur = some f
def PSyncLinked (s : State) : Prop :=
  ∀ t, (s.th t).cur = none → slowL (s.th t).pc = true → (s.th t).linked = (s.wl.node (.thr t)).linked
def PThrNode (s : State) : Prop :=
  ∀ t, (s.wl.node (.thr t)).linked = true → (s.th t).cur = none ∧ slowL (s.th t).pc = true
def PFutNode (s : State) : Prop := ∀ f, (s.wl.node (.fut f)).linked = true → (s.fut f).phase = .started true
def PBusy (s : State) : Prop :=
  ∀ t f, (s.th t).cur = some f → futPc (s.th t).pc = true →
    (s.fut f).busy = true ∧ ∀ u, (s.th u).cur = some f → futPc (s.th u).pc = true → u = t
def PPhFresh (s : State) : Prop :=
  ∀ t f, (s.th t).cur = some f → ((s.th t).pc = .taLoad .asyncFirst ∨ (s.th t).pc = .taCas .asyncFirst) →
    (s.fut f).phase = .fresh
def PPhStarted (s : State) : Prop :=
  ∀ t f, (s.th t).cur = some f →
    ((s.th t).pc = .taLoad .pollTry ∨ (s.th t).pc = .taCas .pollTry ∨ (s.th t).pc = .boPark) →
    ∃ b, (s.fut f).phase = .started b
def PPhNode (s : State) : Prop :=
  ∀ t f, (s.th t).cur = some f → futNodePc (s.th t).pc = true → (s.fut f).phase = .started true
def PFutUnl (s : State) : Prop :=
  ∀ t f, (s.th t).cur = some f → futUnlPc (s.th t).pc = true → (s.wl.node (.fut f)).linked = false

structure Inv (s : State) : Prop where
  lockedHeld : PLockedHeld s
  freeEmpty : PFreeEmpty s
  svFree : PSvFree s
  relHolds : PRelHolds s
  ll : PLl s
  wf : s.wl.WF
  syncCur : PSyncCur s
  asyncCur : PAsyncCur s
  syncLinked : PSyncLinked s
  thrNode : PThrNode s
  futNode : PFutNode s
  busy : PBusy s
  phFresh : PPhFresh s
  phStarted : PPhStarted s
  phNode : PPhNode s
  futUnl : PFutUnl s

macro "step_cases " h:ident : tactic => `(tactic| (
  cases $h:ident
  all_goals (try simp only [taFail, taSucc, llEnter, afterRel, callStep, spinHead, pollHead, pollDone])
  all_goals (repeat' split)))

variable {cfg : Cfg} {s s' : State} {t : Tid} {l : Lbl}


/-- unfold the facts of the invariant into the context -/
macro "inv_facts " hi:ident : tactic => `(tactic| (
  have hLockedHeld := ($hi).lockedHeld; have hFreeEmpty := ($hi).freeEmpty; have hSvFree := ($hi).svFree
  have hRelHolds := ($hi).relHolds; have hLl := ($hi).ll; have hSyncCur := ($hi).syncCur
  have hAsyncCur := ($hi).asyncCur; have hSyncLinked := ($hi).syncLinked; have hThrNode := ($hi).thrNode
  have hFutNode := ($hi).futNode; have hBusy := ($hi).busy; have hPhFresh := ($hi).phFresh
  have hPhStarted := ($hi).phStarted; have hPhNode := ($hi).phNode; have hFutUnl := ($hi).futUnl
  unfold PLockedHeld at hLockedHeld; unfold PFreeEmpty at hFreeEmpty; unfold PSvFree at hSvFree
  unfold PRelHolds at hRelHolds; unfold PLl at hLl; unfold PSyncCur at hSyncCur; unfold PAsyncCur at hAsyncCur
  unfold PSyncLinked at hSyncLinked; unfold PThrNode at hThrNode; unfold PFutNode at hFutNode
  unfold PBusy at hBusy; unfold PPhFresh at hPhFresh; unfold PPhStarted at hPhStarted
  unfold PPhNode at hPhNode; unfold PFutUnl at hFutUnl))

macro "fin_tac" : tactic => `(tactic| (
  intros
  (try simp [withPc, setTh, upd_apply, me, curF] at *) <;>
    grind [inLL, slowL, syncOnly, asyncOnly, futPc, futNodePc, futUnlPc, me, curF]))

set_option maxHeartbeats 4000000 in
theorem lockedHeld_step (hi : Inv s) (h : Step cfg s t l s') : PLockedHeld s' := by
  have h1 := hi.lockedHeld; have h2 := hi.freeEmpty; have h3 := hi.svFree; have h4 := hi.relHolds
  unfold PLockedHeld at h1; unfold PFreeEmpty at h2; unfold PSvFree at h3; unfold PRelHolds at h4
  step_cases h
  all_goals (unfold PLockedHeld; fin_tac)

set_option maxHeartbeats 4000000 in
theorem freeEmpty_step (hi : Inv s) (h : Step cfg s t l s') : PFreeEmpty s' := by
  have h1 := hi.lockedHeld; have h2 := hi.freeEmpty; have h3 := hi.svFree; have h4 := hi.relHolds
  unfold PLockedHeld at h1; unfold PFreeEmpty at h2; unfold PSvFree at h3; unfold PRelHolds at h4
  step_cases h
  all_goals (unfold PFreeEmpty; fin_tac)

set_option maxHeartbeats 4000000 in
theorem svFree_step (hi : Inv s) (h : Step cfg s t l s') : PSvFree s' := by
  have h3 := hi.svFree
  unfold PSvFree at h3
  step_cases h
  all_goals (unfold PSvFree; fin_tac)

set_option maxHeartbeats 4000000 in
theorem relHolds_step (hi : Inv s) (h : Step cfg s t l s') : PRelHolds s' := by
  have h4 := hi.relHolds
  unfold PRelHolds at h4
  step_cases h
  all_goals (unfold PRelHolds; fin_tac)

set_option maxHeartbeats 4000000 in
theorem ll_step (hi : Inv s) (h : Step cfg s t l s') : PLl s' := by
  have hll := hi.ll
  unfold PLl at hll
  step_cases h
  all_goals (unfold PLl; intro u hu; simp [withPc, setTh, upd_apply] at hu ⊢ <;> grind [inLL])

set_option maxHeartbeats 4000000 in
theorem syncCur_step (hi : Inv s) (h : Step cfg s t l s') : PSyncCur s' := by
  have h1 := hi.syncCur; have h2 := hi.asyncCur
  unfold PSyncCur at h1; unfold PAsyncCur at h2
  step_cases h
  all_goals (unfold PSyncCur; fin_tac)

set_option maxHeartbeats 4000000 in
theorem asyncCur_step (hi : Inv s) (h : Step cfg s t l s') : PAsyncCur s' := by
  have h1 := hi.syncCur; have h2 := hi.asyncCur
  unfold PSyncCur at h1; unfold PAsyncCur at h2
  step_cases h
  all_goals (unfold PAsyncCur; fin_tac)

end Fv.Sync.Mutex
