import Fv.Lemmas.SyncMutexStep
import Fv.Lemmas.SyncWaitList
/-!
Basic inductive invariant of the `HybridMutex` model: mutual exclusion (ghost `holders` vs. the
`LOCKED` bit), exclusion of the list spinlock, the wait-list invariant, node ownership (every
queued node belongs to a live waiter), future bookkeeping.  This file: definitions and proof
macros; the preservation proofs are in `SyncMutexInv*.lean`.

Region predicates are written without wildcard patterns so that their equation lemmas are
unconditional rewrite rules (cheap for `simp`/`grind`).
-/
namespace Fv.Sync.Mutex
open Fv.Sync

def TaK.sync : TaK → Bool
  | .lockFast | .lockSpin | .tryLock => true
  | .asyncFirst | .pollTry => false

def After.sync : After → Bool
  | .retOk | .parkLoad => true
  | .retReady | .dropLoad | .pending | .wake => false

def After.async : After → Bool
  | .retReady | .dropLoad | .pending => true
  | .retOk | .parkLoad | .wake => false

/-- the thread holds the list spinlock -/
def inLL : Pc → Bool
  | .qRearm | .qFetchOr | .qLoad | .qCas | .ff _ | .llRel _ | .wnStore => true
  | .idle | .taLoad _ | .taCas _ | .spinYield | .llSwap _ | .llLoad _ | .llSpin _ | .wLoad | .wPark
  | .relAnd | .wnWake | .dLoad | .boPark | .ret _ => false

/-- `lock_slow`, from its entry up to (not including) the unlink of the stack node
(meaningful when `cur = none`) -/
def slowL : Pc → Bool
  | .taLoad k | .taCas k => (match k with
      | .lockSpin => true | .lockFast | .tryLock | .asyncFirst | .pollTry => false)
  | .llSwap k | .llLoad k | .llSpin k => (match k with
      | .queue | .spinUnlink => true | .wakeNext | .finish | .drop => false)
  | .llRel a => (match a with
      | .parkLoad => true | .retOk | .retReady | .dropLoad | .pending | .wake => false)
  | .spinYield | .qRearm | .qFetchOr | .qLoad | .qCas | .wLoad | .wPark => true
  | .idle | .ff _ | .relAnd | .wnStore | .wnWake | .dLoad | .boPark | .ret _ => false

/-- pcs that only occur on the sync path (`cur = none`) -/
def syncOnly : Pc → Bool
  | .taLoad k | .taCas k => k.sync
  | .llSwap k | .llLoad k | .llSpin k => (match k with
      | .spinUnlink => true | .queue | .wakeNext | .finish | .drop => false)
  | .ff a | .llRel a => a.sync
  | .spinYield | .wLoad | .wPark => true
  | .idle | .qRearm | .qFetchOr | .qLoad | .qCas | .relAnd | .wnStore | .wnWake | .dLoad | .boPark | .ret _ => false

/-- pcs that only occur while polling / dropping a future (`cur = some f`) -/
def asyncOnly : Pc → Bool
  | .taLoad k | .taCas k => !k.sync
  | .llSwap k | .llLoad k | .llSpin k => (match k with
      | .finish | .drop => true | .queue | .wakeNext | .spinUnlink => false)
  | .ff a | .llRel a => a.async
  | .dLoad | .boPark => true
  | .idle | .spinYield | .qRearm | .qFetchOr | .qLoad | .qCas | .wLoad | .wPark | .relAnd | .wnStore | .wnWake
  | .ret _ => false

/-- pcs at which a thread with `cur = some f` is operating on future `f` -/
def futPc : Pc → Bool
  | .taLoad k | .taCas k => !k.sync
  | .llSwap k | .llLoad k | .llSpin k => (match k with
      | .finish | .drop | .queue => true | .wakeNext | .spinUnlink => false)
  | .ff a | .llRel a => a.async
  | .qRearm | .qFetchOr | .qLoad | .qCas | .dLoad | .boPark => true
  | .idle | .spinYield | .wLoad | .wPark | .relAnd | .wnStore | .wnWake | .ret _ => false

/-- … and the future's node exists (`node` non-null) -/
def futNodePc : Pc → Bool
  | .llSwap k | .llLoad k | .llSpin k => (match k with
      | .finish | .drop | .queue => true | .wakeNext | .spinUnlink => false)
  | .ff a | .llRel a => a.async
  | .qRearm | .qFetchOr | .qLoad | .qCas | .dLoad => true
  | .idle | .taLoad _ | .taCas _ | .spinYield | .wLoad | .wPark | .relAnd | .wnStore | .wnWake | .boPark
  | .ret _ => false

/-- … and the node has just been unlinked by this thread -/
def futUnlPc : Pc → Bool
  | .ff a | .llRel a => (match a with
      | .retReady | .dropLoad => true | .retOk | .parkLoad | .pending | .wake => false)
  | .dLoad => true
  | .idle | .taLoad _ | .taCas _ | .spinYield | .llSwap _ | .llLoad _ | .llSpin _ | .qRearm | .qFetchOr | .qLoad
  | .qCas | .wLoad | .wPark | .relAnd | .wnStore | .wnWake | .boPark | .ret _ => false

def isCas : Pc → Bool
  | .taCas _ | .qCas => true
  | .idle | .taLoad _ | .spinYield | .llSwap _ | .llLoad _ | .llSpin _ | .qRearm | .qFetchOr | .qLoad
  | .ff _ | .llRel _ | .wLoad | .wPark | .relAnd | .wnStore | .wnWake | .dLoad | .boPark | .ret _ => false

def PLockedHeld (s : State) : Prop := s.word.locked = true → ∃ u, s.holders = [(u, true)]
def PFreeEmpty (s : State) : Prop := s.word.locked = false → s.holders = []
def PSvFree (s : State) : Prop := ∀ t, isCas (s.th t).pc = true → (s.th t).sv.locked = false
def PRelHolds (s : State) : Prop := ∀ t, (s.th t).pc = .relAnd → (t, true) ∈ s.holders
def PLl (s : State) : Prop :=
  ∀ t, inLL (s.th t).pc = true → s.wl.locked = true ∧ ∀ u, inLL (s.th u).pc = true → u = t
def PSyncCur (s : State) : Prop := ∀ t, syncOnly (s.th t).pc = true → (s.th t).cur = none
def PAsyncCur (s : State) : Prop := ∀ t, asyncOnly (s.th t).pc = true → (s.th t).cur ≠ none
def PSyncLinked (s : State) : Prop :=
  ∀ t, (s.th t).cur = none → slowL (s.th t).pc = true → (s.th t).linked = (s.wl.node (.thr t)).linked
def PThrNode (s : State) : Prop :=
  ∀ t, (s.wl.node (.thr t)).linked = true → (s.th t).cur = none ∧ slowL (s.th t).pc = true
def PFutNode (s : State) : Prop := ∀ f, (s.wl.node (.fut f)).linked = true → (s.fut f).phase = .startedNode
def PBusy (s : State) : Prop :=
  ∀ t f, (s.th t).cur = some f → futPc (s.th t).pc = true →
    (s.fut f).busy = true ∧ ∀ u, (s.th u).cur = some f → futPc (s.th u).pc = true → u = t
def PPhFresh (s : State) : Prop :=
  ∀ t f, (s.th t).cur = some f → ((s.th t).pc = .taLoad .asyncFirst ∨ (s.th t).pc = .taCas .asyncFirst) →
    (s.fut f).phase = .fresh
def PPhStarted (s : State) : Prop :=
  ∀ t f, (s.th t).cur = some f →
    ((s.th t).pc = .taLoad .pollTry ∨ (s.th t).pc = .taCas .pollTry ∨ (s.th t).pc = .boPark) →
    ((s.fut f).phase = .startedNoNode ∨ (s.fut f).phase = .startedNode)
def PPhNode (s : State) : Prop :=
  ∀ t f, (s.th t).cur = some f → futNodePc (s.th t).pc = true → (s.fut f).phase = .startedNode
def PFfOk (s : State) : Prop := ∀ t, (s.th t).pc ≠ .ff .parkLoad ∧ (s.th t).pc ≠ .ff .pending
def PFutUnl (s : State) : Prop :=
  ∀ t f, (s.th t).cur = some f → futUnlPc (s.th t).pc = true → (s.wl.node (.fut f)).linked = false

structure Inv (s : State) : Prop where
  lockedHeld : PLockedHeld s
  freeEmpty : PFreeEmpty s
  svFree : PSvFree s
  relHolds : PRelHolds s
  ll : PLl s
  wf : s.wl.WF
  syncCur : PSyncCur s
  asyncCur : PAsyncCur s
  syncLinked : PSyncLinked s
  thrNode : PThrNode s
  futNode : PFutNode s
  busy : PBusy s
  phFresh : PPhFresh s
  phStarted : PPhStarted s
  phNode : PPhNode s
  futUnl : PFutUnl s
  ffOk : PFfOk s

/-- case analysis of a step down to branch-free successor states -/
macro "step_rest" : tactic => `(tactic| (
  all_goals (try simp only [taFail, taSucc, llEnter, afterRel, callStep, spinHead, pollHead, pollDone])
  all_goals (repeat' split)
  all_goals (try clear ‹TaK›)
  all_goals (try clear ‹LlK›)
  all_goals (try clear ‹After›)
  all_goals (try cases ‹TaK›)
  all_goals (try cases ‹LlK›)
  all_goals (try cases ‹After›)))

macro "step_cases " h:ident : tactic => `(tactic| (cases $h:ident; step_rest))

/-- the region predicates, for `grind` -/
macro "inv_grind" : tactic => `(tactic| grind [isCas, inLL, slowL, syncOnly, asyncOnly, futPc, futNodePc, futUnlPc,
  TaK.sync, After.sync, After.async])

/-- all facts of the invariant, unfolded, as hypotheses -/
macro "inv_facts " hi:ident : tactic => `(tactic| (
  have hLockedHeld := ($hi).lockedHeld; have hFreeEmpty := ($hi).freeEmpty; have hSvFree := ($hi).svFree
  have hRelHolds := ($hi).relHolds; have hLl := ($hi).ll; have hSyncCur := ($hi).syncCur
  have hAsyncCur := ($hi).asyncCur; have hSyncLinked := ($hi).syncLinked; have hThrNode := ($hi).thrNode
  have hFutNode := ($hi).futNode; have hBusy := ($hi).busy; have hPhFresh := ($hi).phFresh
  have hPhStarted := ($hi).phStarted; have hPhNode := ($hi).phNode; have hFutUnl := ($hi).futUnl
  have hWf := ($hi).wf; have hFfOk := ($hi).ffOk; unfold PFfOk at hFfOk
  unfold PLockedHeld at hLockedHeld; unfold PFreeEmpty at hFreeEmpty; unfold PSvFree at hSvFree
  unfold PRelHolds at hRelHolds; unfold PLl at hLl; unfold PSyncCur at hSyncCur; unfold PAsyncCur at hAsyncCur
  unfold PSyncLinked at hSyncLinked; unfold PThrNode at hThrNode; unfold PFutNode at hFutNode
  unfold PBusy at hBusy; unfold PPhFresh at hPhFresh; unfold PPhStarted at hPhStarted
  unfold PPhNode at hPhNode; unfold PFutUnl at hFutUnl
  clear $hi))

/-- normalise the projections of an explicit successor state -/
macro "norm_state" : tactic => `(tactic| (
  simp only [withPc, setTh, upd_apply, me, curF, Option.getD, ↓reduceIte, if_true, if_false,
    Thread.ite_pc, Thread.ite_sv, Thread.ite_linked, Thread.ite_i, Thread.ite_cur, Thread.ite_blockOn,
    Thread.ite_tgt, Thread.ite_w, Fut.ite_phase, Fut.ite_busy, Fut.ite_bo,
    Node.ite_woken, Node.ite_waiter, Node.ite_isWriter, Node.ite_linked,
    WaitList.setLocked_locked, WaitList.setLocked_queue, WaitList.setLocked_writers, WaitList.setLocked_len,
    WaitList.setLocked_node, WaitList.putNode_locked, WaitList.putNode_queue, WaitList.putNode_writers,
    WaitList.putNode_len, WaitList.putNode_node, WaitList.setWaiter_locked, WaitList.setWaiter_queue,
    WaitList.setWaiter_writers, WaitList.setWaiter_len, WaitList.setWaiter_node, WaitList.setWoken_locked,
    WaitList.setWoken_queue, WaitList.setWoken_writers, WaitList.setWoken_len, WaitList.setWoken_node,
    WaitList.takeAndMark_locked, WaitList.takeAndMark_queue, WaitList.takeAndMark_writers,
    WaitList.takeAndMark_len, WaitList.takeAndMark_node, WaitList.linkBack_locked, WaitList.linkBack_queue,
    WaitList.linkBack_len, WaitList.linkBack_node, WaitList.linkBack_writers, WaitList.unlink_locked,
    WaitList.unlink_queue, WaitList.unlink_len, WaitList.unlink_writers, WaitList.unlink_node,
    WaitList.wasLinked_eq, Node.fresh] at *))

/-- same, goal only -/
macro "norm_goal" : tactic => `(tactic| (
  simp only [withPc, setTh, upd_apply, me, curF, Option.getD, ↓reduceIte, if_true, if_false,
    Thread.ite_pc, Thread.ite_sv, Thread.ite_linked, Thread.ite_i, Thread.ite_cur, Thread.ite_blockOn,
    Thread.ite_tgt, Thread.ite_w, Fut.ite_phase, Fut.ite_busy, Fut.ite_bo,
    Node.ite_woken, Node.ite_waiter, Node.ite_isWriter, Node.ite_linked,
    WaitList.setLocked_locked, WaitList.setLocked_queue, WaitList.setLocked_writers, WaitList.setLocked_len,
    WaitList.setLocked_node, WaitList.putNode_locked, WaitList.putNode_queue, WaitList.putNode_writers,
    WaitList.putNode_len, WaitList.putNode_node, WaitList.setWaiter_locked, WaitList.setWaiter_queue,
    WaitList.setWaiter_writers, WaitList.setWaiter_len, WaitList.setWaiter_node, WaitList.setWoken_locked,
    WaitList.setWoken_queue, WaitList.setWoken_writers, WaitList.setWoken_len, WaitList.setWoken_node,
    WaitList.takeAndMark_locked, WaitList.takeAndMark_queue, WaitList.takeAndMark_writers,
    WaitList.takeAndMark_len, WaitList.takeAndMark_node, WaitList.linkBack_locked, WaitList.linkBack_queue,
    WaitList.linkBack_len, WaitList.linkBack_node, WaitList.linkBack_writers, WaitList.unlink_locked,
    WaitList.unlink_queue, WaitList.unlink_len, WaitList.unlink_writers, WaitList.unlink_node,
    WaitList.wasLinked_eq, Node.fresh]))

end Fv.Sync.Mutex
