import Fv.Lemmas.SyncRwWakeL2
/-!
Wake invariant of the rwlock model: `PW1` (the registered handle of a queued node wakes its owner),
stack nodes.
-/
namespace Fv.Sync.RwLock
open Fv.Sync
variable {cfg : Cfg} {s s' : State} {t : Tid} {l : Lbl}

set_option maxHeartbeats 32000000 in
theorem w1_thr (hi : Inv s) (hw : WInv s) (h : Step cfg s t l s') :
    ∀ u w, (s'.wl.node (.thr u)).linked = true → (s'.wl.node (.thr u)).waiter = some w → w = .thread u := by
  intro u w
  have a1 := hi.syncCur t; have a2 := hi.asyncCur t; have a5 := hi.ffOk t
  have b2 := hw.qw t
  have c : (s.wl.node (.thr u)).linked = true → (s.wl.node (.thr u)).waiter = some w → w = .thread u := by
    intro h1 h2; have := hw.w1 (.thr u) w h1 h2
    cases w <;> simp_all [Targets]
  clear hi hw
  step_cases h
  all_goals (try simp only [myWaiter] at *)
  all_goals (try norm_state)
  all_goals (first | exact c | wg)

end Fv.Sync.RwLock
