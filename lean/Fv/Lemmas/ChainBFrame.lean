import Fv.Lemmas.ChainBAll
/-! Frame lemmas of the slab-chain model: what producer-side / consumer-side steps leave unchanged. -/
namespace Fv.Chan.ChainB
set_option maxHeartbeats 1000000

def Label.isProd : Label → Bool
  | .pStart _ | .pBump | .pSealDec | .pRelFence | .pRelLock | .pRelUnlock | .pAcqLock | .pAcqUnlock
  | .pRearmRem | .pRearmNode | .pAlloc | .pPrelink | .pSwap | .pLink | .pClose | .pDropDec | .pClone _ => true
  | _ => false

/-- the value a running `pop_node` has already taken out of the chain -/
def cPend : CPC → List Nat
  | .retDec _ (.pop v) => [v] | .relFence _ (.pop v) => [v] | .relLock _ (.pop v) => [v]
  | .relUnlock _ (.pop v) => [v] | .done (some v) => [v] | _ => []

def ccPend : CCont → List Nat
  | .pop v => [v] | _ => []
@[simp] theorem cPend_retDec (n : NodeId) (c : CCont) : cPend (.retDec n c) = ccPend c := by cases c <;> rfl
@[simp] theorem cPend_relFence (b : Nat) (c : CCont) : cPend (.relFence b c) = ccPend c := by cases c <;> rfl
@[simp] theorem cPend_relLock (b : Nat) (c : CCont) : cPend (.relLock b c) = ccPend c := by cases c <;> rfl
@[simp] theorem cPend_relUnlock (b : Nat) (c : CCont) : cPend (.relUnlock b c) = ccPend c := by cases c <;> rfl
@[simp] theorem cPend_cAfter (c : CCont) : cPend (cAfter c) = ccPend c := by cases c <;> rfl
@[simp] theorem cPend_idle : cPend .idle = [] := rfl
@[simp] theorem cPend_finLoad : cPend .finLoad = [] := rfl
@[simp] theorem cPend_finished : cPend .finished = [] := rfl
@[simp] theorem cPend_done_none : cPend (.done none) = [] := rfl
@[simp] theorem cPend_done_some (v : Nat) : cPend (.done (some v)) = [v] := rfl

/-- producer-side steps do not touch the consumer side -/
theorem prod_frame {cfg : Cfg} {c c' : State} {a : Nat} {l : Label} (hl : l.isProd = true)
    (hs : step cfg c a l = some c') :
    c'.recvd = c.recvd ∧ c'.cpc = c.cpc ∧ c'.tail = c.tail ∧ c'.k = c.k ∧ c'.dropped = c.dropped ∧
    c'.fin = c.fin ∧ c'.tailGone = c.tailGone := by
  cases l <;> simp [Label.isProd] at hl <;> simp only [step] at hs
  case pStart => unfold stepPStart at hs; step_elim hs; all_goals simp
  case pBump => unfold stepPBump at hs; step_elim hs; all_goals simp
  case pSealDec => unfold stepPSealDec sealDec at hs; step_elim hs; all_goals simp
  case pRelFence => unfold stepPRelFence at hs; step_elim hs; all_goals simp
  case pRelLock => unfold stepPRelLock at hs; step_elim hs; all_goals simp
  case pRelUnlock => unfold stepPRelUnlock at hs; step_elim hs; all_goals simp
  case pAcqLock => unfold stepPAcqLock at hs; step_elim hs; all_goals simp
  case pAcqUnlock => unfold stepPAcqUnlock at hs; step_elim hs; all_goals simp
  case pRearmRem => unfold stepPRearmRem at hs; step_elim hs; all_goals simp
  case pRearmNode => unfold stepPRearmNode at hs; step_elim hs; all_goals simp
  case pAlloc => unfold stepPAlloc at hs; step_elim hs; all_goals simp
  case pPrelink => unfold stepPPrelink at hs; step_elim hs; all_goals simp
  case pSwap => unfold stepPSwap at hs; step_elim hs; all_goals simp
  case pLink => unfold stepPLink at hs; step_elim hs; all_goals simp
  case pClose => unfold stepPClose at hs; step_elim hs; all_goals simp
  case pDropDec => unfold stepPDropDec at hs; step_elim hs; all_goals simp
  case pClone => unfold stepPClone at hs; step_elim hs; all_goals simp

/-- consumer-side steps do not touch the producers, the sender count or the published sequence -/
theorem cons_frame {cfg : Cfg} {c c' : State} {a : Nat} {l : Label} (hl : l.isProd = false)
    (hs : step cfg c a l = some c') :
    c'.senders = c.senders ∧ c'.sent = c.sent ∧ c'.ppc = c.ppc ∧ c'.hst = c.hst ∧ c'.liveS = c.liveS ∧ c'.len = c.len := by
  cases l <;> simp [Label.isProd] at hl <;> simp only [step] at hs
  case cPopLoad => unfold stepCPopLoad leaveNode at hs; step_elim hs; all_goals simp
  case cRetDec => unfold stepCRetDec at hs; step_elim hs; all_goals simp
  case cRelFence => unfold stepCRelFence at hs; step_elim hs; all_goals simp
  case cRelLock => unfold stepCRelLock at hs; step_elim hs; all_goals simp
  case cRelUnlock => unfold stepCRelUnlock at hs; step_elim hs; all_goals simp
  case cRet => unfold stepCRet at hs; step_elim hs; all_goals simp
  case cFinStart => unfold stepCFinStart at hs; step_elim hs; all_goals simp
  case cFinLoad => unfold stepCFinLoad leaveNode at hs; step_elim hs; all_goals simp

/-- effect of `pop_node`'s load on the received sequence -/
theorem popLoad_recvd {cfg : Cfg} {c c' : State} {a : Nat} (hs : step cfg c a .cPopLoad = some c') :
    c.cpc = .idle ∧ c'.recvd = c.recvd ++ cPend c'.cpc ∧ c'.cpc ≠ .idle := by
  simp only [step] at hs
  unfold stepCPopLoad leaveNode at hs
  step_elim hs
  all_goals simp_all [cPend]

/-- retire / release / walk steps neither deliver nor forget a value -/
theorem cWork_recvd {cfg : Cfg} {c c' : State} {a : Nat} {l : Label}
    (hl : l = .cRetDec ∨ l = .cRelFence ∨ l = .cRelLock ∨ l = .cRelUnlock ∨ l = .cFinLoad ∨ l = .cFinStart)
    (hs : step cfg c a l = some c') : c'.recvd = c.recvd ∧ cPend c'.cpc = cPend c.cpc := by
  rcases hl with e | e | e | e | e | e <;> subst e <;> simp only [step] at hs
  · unfold stepCRetDec at hs; step_elim hs
    all_goals (simp_all; try (split <;> simp))
  · unfold stepCRelFence at hs; step_elim hs
    all_goals simp_all
  · unfold stepCRelLock at hs; step_elim hs
    all_goals simp_all
  · unfold stepCRelUnlock at hs; step_elim hs
    all_goals simp_all
  · unfold stepCFinLoad leaveNode at hs; step_elim hs
    all_goals simp_all [ccPend]
  · unfold stepCFinStart at hs; step_elim hs
    all_goals simp_all

theorem cRet_recvd {cfg : Cfg} {c c' : State} {a : Nat} (hs : step cfg c a .cRet = some c') :
    c'.recvd = c.recvd ∧ c'.cpc = .idle ∧ ∃ r, c.cpc = .done r := by
  simp only [step] at hs
  unfold stepCRet at hs
  step_elim hs
  all_goals simp_all

end Fv.Chan.ChainB
