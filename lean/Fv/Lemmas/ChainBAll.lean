import Fv.Lemmas.ChainBStepS
/-! The invariant of the slab-chain model holds in every reachable state. -/
namespace Fv.Chan.ChainB

theorem inv_step {cfg : Cfg} {s s' : State} {a : Nat} {l : Label} (hN : 0 < cfg.N) (hi : Inv cfg s)
    (h : step cfg s a l = some s') : Inv cfg s' := by
  cases l <;> simp only [step] at h
  · exact ⟨invH_pStart hN hi h, invP_pStart hN hi h, invC_pStart hN hi h, invS_pStart hN hi h⟩
  · exact ⟨invH_pBump hN hi h, invP_pBump hN hi h, invC_pBump hN hi h, invS_pBump hN hi h⟩
  · exact ⟨invH_pSealDec hN hi h, invP_pSealDec hN hi h, invC_pSealDec hN hi h, invS_pSealDec hN hi h⟩
  · exact ⟨invH_pRelFence hN hi h, invP_pRelFence hN hi h, invC_pRelFence hN hi h, invS_pRelFence hN hi h⟩
  · exact ⟨invH_pRelLock hN hi h, invP_pRelLock hN hi h, invC_pRelLock hN hi h, invS_pRelLock hN hi h⟩
  · exact ⟨invH_pRelUnlock hN hi h, invP_pRelUnlock hN hi h, invC_pRelUnlock hN hi h, invS_pRelUnlock hN hi h⟩
  · exact ⟨invH_pAcqLock hN hi h, invP_pAcqLock hN hi h, invC_pAcqLock hN hi h, invS_pAcqLock hN hi h⟩
  · exact ⟨invH_pAcqUnlock hN hi h, invP_pAcqUnlock hN hi h, invC_pAcqUnlock hN hi h, invS_pAcqUnlock hN hi h⟩
  · exact ⟨invH_pRearmRem hN hi h, invP_pRearmRem hN hi h, invC_pRearmRem hN hi h, invS_pRearmRem hN hi h⟩
  · exact ⟨invH_pRearmNode hN hi h, invP_pRearmNode hN hi h, invC_pRearmNode hN hi h, invS_pRearmNode hN hi h⟩
  · exact ⟨invH_pAlloc hN hi h, invP_pAlloc hN hi h, invC_pAlloc hN hi h, invS_pAlloc hN hi h⟩
  · exact ⟨invH_pPrelink hN hi h, invP_pPrelink hN hi h, invC_pPrelink hN hi h, invS_pPrelink hN hi h⟩
  · exact ⟨invH_pSwap hN hi h, invP_pSwap hN hi h, invC_pSwap hN hi h, invS_pSwap hN hi h⟩
  · exact ⟨invH_pLink hN hi h, invP_pLink hN hi h, invC_pLink hN hi h, invS_pLink hN hi h⟩
  · exact ⟨invH_pClose hN hi h, invP_pClose hN hi h, invC_pClose hN hi h, invS_pClose hN hi h⟩
  · exact ⟨invH_pDropDec hN hi h, invP_pDropDec hN hi h, invC_pDropDec hN hi h, invS_pDropDec hN hi h⟩
  · exact ⟨invH_pClone hN hi h, invP_pClone hN hi h, invC_pClone hN hi h, invS_pClone hN hi h⟩
  · exact ⟨invH_cPopLoad hN hi h, invP_cPopLoad hN hi h, invC_cPopLoad hN hi h, invS_cPopLoad hN hi h⟩
  · exact ⟨invH_cRetDec hN hi h, invP_cRetDec hN hi h, invC_cRetDec hN hi h, invS_cRetDec hN hi h⟩
  · exact ⟨invH_cRelFence hN hi h, invP_cRelFence hN hi h, invC_cRelFence hN hi h, invS_cRelFence hN hi h⟩
  · exact ⟨invH_cRelLock hN hi h, invP_cRelLock hN hi h, invC_cRelLock hN hi h, invS_cRelLock hN hi h⟩
  · exact ⟨invH_cRelUnlock hN hi h, invP_cRelUnlock hN hi h, invC_cRelUnlock hN hi h, invS_cRelUnlock hN hi h⟩
  · exact ⟨invH_cRet hN hi h, invP_cRet hN hi h, invC_cRet hN hi h, invS_cRet hN hi h⟩
  · exact ⟨invH_cFinStart hN hi h, invP_cFinStart hN hi h, invC_cFinStart hN hi h, invS_cFinStart hN hi h⟩
  · exact ⟨invH_cFinLoad hN hi h, invP_cFinLoad hN hi h, invC_cFinLoad hN hi h, invS_cFinLoad hN hi h⟩

theorem inv_reach {cfg : Cfg} {s : State} (hN : 0 < cfg.N) (h : Reach cfg s) : Inv cfg s := by
  induction h with
  | init => exact inv_init cfg
  | step _ hs ih => exact inv_step hN ih hs

/-- `run` stays inside `Reach`. -/
theorem reach_run {cfg : Cfg} (tr : List (Nat × Label)) (s0 s : State) (h0 : Reach cfg s0)
    (h : run cfg s0 tr = some s) : Reach cfg s := by
  induction tr generalizing s0 with
  | nil => simp [run] at h; subst h; exact h0
  | cons x rest ih =>
    obtain ⟨a, l⟩ := x
    simp only [run, Option.bind] at h
    split at h
    · simp at h
    · rename_i s1 hs1; exact ih s1 (Reach.step h0 hs1) h

theorem run_append (cfg : Cfg) (s : State) (a b : List (Nat × Label)) :
    run cfg s (a ++ b) = (run cfg s a).bind (fun s' => run cfg s' b) := by
  induction a generalizing s with
  | nil => simp [run]
  | cons x rest ih =>
    obtain ⟨t, l⟩ := x
    simp only [List.cons_append, run]
    cases step cfg s t l with
    | none => simp
    | some s1 => simp [ih]

end Fv.Chan.ChainB
