import Fv.Lemmas.ChanOrder
/-!
From the checker's verdict to the final accounts: `linearize … = some sf` yields a declarative
linearization from the initial state, hence (by `lin_acc`) the accounts of `sf`.
-/
namespace Fv.Chan
open List LinCore

theorem init_acc (fl : Flavour) : Acc fl (init fl) [] [] [] [] [] := by
  refine ⟨init_inv fl, by simp, ?_, ?_, ?_, ?_, ?_⟩ <;> intro v <;>
    simp [init, pendSum, St.placed, St.parked, St.owed, St.sdv]

/-- what an accepted history guarantees about the final model state `sf` -/
theorem linearize_acc {fl : Flavour} {cfg : Cfg} {h : History} {q : Bool} {sf : St}
    (hl : linearize fl cfg h q = some sf) :
    ∃ pf, Acc fl sf pf (offered h) (received h) (handedBack h) (accepted h) ∧
      (q = true → Quiescent (sem fl cfg) sf pf) := by
  unfold linearize linearizeP at hl
  obtain ⟨⟨sf', pf⟩, hsp, hsf⟩ := Option.map_eq_some_iff.mp hl
  simp only at hsf
  subst hsf
  have hs : LinCore.search (sem fl cfg) q h.fuel {} (init fl) [] h = (some (sf', pf), (LinCore.search (sem fl cfg) q h.fuel {} (init fl) [] h).2) := by
    rw [← hsp]
  obtain ⟨hlin, hq⟩ := search_sound (sem fl cfg) q _ _ _ _ _ _ _ _ (by simp [NodupKeys]) hs
  have := lin_acc hlin (by simp [NodupKeys]) (init_acc fl)
  refine ⟨pf, ?_, hq⟩
  simpa [received, handedBack, accepted, completed, opsOf] using this

theorem linearizable_acc {fl : Flavour} {cfg : Cfg} {h : History} {q : Bool}
    (hl : linearizable fl cfg h q = true) :
    ∃ sf pf, linearize fl cfg h q = some sf ∧
      Acc fl sf pf (offered h) (received h) (handedBack h) (accepted h) := by
  unfold linearizable at hl
  obtain ⟨sf, hsf⟩ := Option.isSome_iff_exists.mp hl
  obtain ⟨pf, ha, _⟩ := linearize_acc hsf
  exact ⟨sf, pf, hsf, ha⟩

/-- everything the ledger implies for a value offered once -/
theorem Acc.bounds {fl s pend OFF RG RB RS} (h : Acc fl s pend OFF RG RB RS) (v : Val) :
    count v RG + count v RB + count v s.buf + count v s.chanDropped + count v s.lost ≤ count v OFF := by
  have a := h.off v
  have b := h.tok v
  have c := h.recv v
  have d := h.back v
  simp only [St.placed, count_append] at b
  omega

end Fv.Chan
