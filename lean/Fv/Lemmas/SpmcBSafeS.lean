import Fv.Lemmas.SpmcBSafeG
/-! Safety invariant of `Fv.Chan.SpmcB`: preservation by the steps of the sender operations. -/
namespace Fv.Chan.SpmcB
open Fv.Chan.LeftRightB (upd upd_apply upd_same)

def inWr : SPC → Bool
  | .wSeqLd _ _ _ _ => true
  | .wVal _ _ _ _ _ => true
  | .wSeqSt _ _ _ _ => true
  | .wHeadSt _ _ _ => true
  | _ => false

/-- control states that are certainly part of a send (the handle is not closed) -/
def sendQ : SPC → Bool
  | .sFlag _ => false
  | .sHead _ => false
  | .sEnter _ _ _ => false
  | .sScan _ _ _ _ _ _ => false
  | .sHead2 _ _ _ _ => false
  | .sExit _ _ _ _ _ => false
  | .cFlag _ => false
  | .cStore => false
  | .cLock _ => false
  | .cWake _ _ => false
  | .cUnlock _ => false
  | _ => true

theorem idle_of_sFact {c : Core} {q : SPC} (h : sFact c q) (hw : inWr q = false) : idleLike c := by
  cases q <;> simp only [sFact, inWr] at h hw <;> first | exact h | exact h.1 | cases hw

theorem open_of_sFact {c : Core} {q : SPC} (h : sFact c q) (hw : sendQ q = true) : c.sclosed = false := by
  cases q <;> simp only [sFact, sendQ] at h hw <;> first | exact h.2 | exact h.2.1 | exact h.2.2.2.2.2 | exact h.2.2.2.2.2.2 | exact h.2.2.2 | cases hw

/-- a control state that needs to know only "no write in progress, handle open" -/
def PlainPC (p : PC) : Prop := ∀ c q', p = .snd q' → idleLike c → c.sclosed = false → sFact c q'

/-- a control state of the close path -/
def PlainC (p : PC) : Prop := ∀ c q', p = .snd q' → idleLike c → sFact c q'

theorem plain_ret (res : Res) : PlainPC (.ret res) := by intro c q' e; cases e
theorem plainC_ret (res : Res) : PlainC (.ret res) := by intro c q' e; cases e

syntax "plain_snd" : tactic
macro_rules | `(tactic| plain_snd) => `(tactic|
  (intro c q' e hi hc; cases e; simp only [sFact]; first | exact ⟨hi, hc⟩ | exact ⟨hi, fun _ => hc⟩ | exact hi))
syntax "plainC_snd" : tactic
macro_rules | `(tactic| plainC_snd) => `(tactic|
  (intro c q' e hi; cases e; simp only [sFact]; exact hi))

theorem plain_retryPC (x : SCtx) : PlainPC (retryPC x) := by unfold retryPC; split <;> plain_snd
theorem plain_dkCont (d : DK) : PlainPC (dkCont d) := by
  unfold dkCont; split <;> first | apply plain_ret | apply plain_retryPC
theorem plain_afterPark (x : SCtx) : PlainPC (afterPark x) := by unfold afterPark; split <;> plain_snd
theorem plain_afterWrite (x k) : PlainPC (afterWrite x k) := by
  unfold afterWrite; repeat' split
  all_goals first | apply plain_ret | plain_snd
theorem plain_wakeOr (x k acc) : PlainPC (wakeOr x k acc) := by
  unfold wakeOr; split <;> first | apply plain_afterWrite | plain_snd

syntax "plain_tac" : tactic
macro_rules | `(tactic| plain_tac) => `(tactic|
  first | apply plain_ret | apply plain_retryPC | apply plain_dkCont | apply plain_afterPark
        | apply plain_afterWrite | apply plain_wakeOr | plain_snd)
syntax "plainC_tac" : tactic
macro_rules | `(tactic| plainC_tac) => `(tactic| first | apply plainC_ret | plainC_snd)

/-- sender step that leaves the core alone and moves to a plain control state -/
theorem safe_S_plain {s s' : State} {t : Nat} {q : SPC} {p : PC} (ha : InvA s) (hs : Safe s) (hpc : s.pc t = .snd q)
    (hpc' : s'.pc = upd s.pc t p) (hso : s'.sOwner = if isRet p then none else s.sOwner)
    (hro : s'.rOwner = s.rOwner) (hrv : s'.resv = s.resv) (hcore : s'.core = s.core) (hp : okS p)
    (hpl : PlainPC p) (hw : inWr q = false) (hcl : s.core.sclosed = false) : Safe s' := by
  have hi := idle_of_sFact (hs.sf t q hpc) hw
  refine safe_S ha hs hpc hpc' hso hro hrv hp (hcore ▸ hs.g) ?_ ?_ ?_
  · intro q' e; rw [hcore]; exact hpl _ q' e hi hcl
  · intro res _
    have : s'.core.head = s'.core.sent.length ∧ s'.core.dirty = false := by rw [hcore]; exact hi
    exact this
  · intro u r q' h; rw [hcore]; exact h

theorem safe_S_plainC {s s' : State} {t : Nat} {q : SPC} {p : PC} (ha : InvA s) (hs : Safe s) (hpc : s.pc t = .snd q)
    (hpc' : s'.pc = upd s.pc t p) (hso : s'.sOwner = if isRet p then none else s.sOwner)
    (hro : s'.rOwner = s.rOwner) (hrv : s'.resv = s.resv) (hcore : s'.core = s.core) (hp : okS p)
    (hpl : PlainC p) (hw : inWr q = false) : Safe s' := by
  have hi := idle_of_sFact (hs.sf t q hpc) hw
  refine safe_S ha hs hpc hpc' hso hro hrv hp (hcore ▸ hs.g) ?_ ?_ ?_
  · intro q' e; rw [hcore]; exact hpl _ q' e hi
  · intro res _
    have : s'.core.head = s'.core.sent.length ∧ s'.core.dirty = false := by rw [hcore]; exact hi
    exact this
  · intro u r q' h; rw [hcore]; exact h

theorem hOK_self (k : ScanK) (h : Nat) : hOK k h h := by cases k <;> simp [hOK]
theorem hOK2_self (k : ScanK) (h : Nat) : hOK2 k h h := by cases k <;> simp [hOK2]

theorem sent_ext_refl {a b : List Nat} (h : b = a) : ∃ e, b = a ++ e := ⟨[], by rw [h, List.append_nil]⟩

/-- receivers' facts across a sender step, in terms of the states -/
theorem rFact_S_of {s s' : State} (hn : s'.nextCell = s.nextCell) (hrv : s'.resv = s.resv)
    (hcl : s'.rclosed = s.rclosed) (hcur : s'.cur = s.cur) (hc0 : s'.c0 = s.c0) (hgot : s'.got = s.got)
    (hdata : s'.lr.data = s.lr.data) (hsent : ∃ e, s'.sent = s.sent ++ e) (hhead : s.head ≤ s'.head)
    (hpd : s.pdropped = true → s'.pdropped = true ∧ s'.head = s.head) :
    ∀ u r q, rFact s.core u r q → rFact s'.core u r q :=
  fun _ _ _ h => rFact_mono_S (c := s.core) (c' := s'.core) hn hrv hcl hcur hc0 hgot hdata hsent hhead hpd h

/-- … when the step touches none of `sent`, `head`, `producer_dropped` -/
syntax "rf_same" : tactic
macro_rules | `(tactic| rf_same) => `(tactic|
  exact rFact_S_of rfl rfl rfl rfl rfl rfl rfl (sent_ext_refl rfl) (Nat.le_refl _) (fun h => ⟨h, rfl⟩))

/-- an open sender handle means the producer has not been dropped -/
theorem not_dropped {c : Core} (hg : GFact c) (h : c.sclosed = false) : c.pdropped = false := by
  cases hp : c.pdropped
  · rfl
  · have := hg.pd_closed hp; rw [h] at this; cases this

/-- plain step from a control state of the send path -/
syntax "plainS " ident ident ident : tactic
macro_rules | `(tactic| plainS $ha $hs $hpc) => `(tactic|
  exact safe_S_plain $ha $hs $hpc rfl rfl rfl rfl rfl (by okS_tac) (by plain_tac) rfl
    (open_of_sFact (Safe.sf $hs _ _ $hpc) rfl))
syntax "plainCS " ident ident ident : tactic
macro_rules | `(tactic| plainCS $ha $hs $hpc) => `(tactic|
  exact safe_S_plainC $ha $hs $hpc rfl rfl rfl rfl rfl (by okS_tac) (by plainC_tac) rfl)

theorem safe_sEnter {s s' : State} {t : Nat} {k : ScanK} {h0 : Nat} {p : LPC} (ha : InvA s) (hs : Safe s)
    (hpc : s.pc t = .snd (.sEnter k h0 p)) (h : stepSEnter s t k h0 p = some s') : Safe s' := by
  have hf := hs.sf t _ hpc
  simp only [sFact] at hf
  obtain ⟨f1, f2, f3, f4⟩ := hf
  unfold stepSEnter at h
  cases p <;> simp only [isRd] at f4 <;> (first | cases f4 | skip) <;> simp only [lrLabel, LeftRightB.step] at h
  case rLoad =>
    cases h
    refine safe_S ha hs hpc rfl rfl rfl rfl (by okS_tac) hs.g ?_ (fun _ e => by cases e) (fun _ _ _ h => h)
    intro q' e; cases e; exact ⟨f1, f2, f3, rfl⟩
  case rInc i =>
    cases h
    refine safe_S ha hs hpc rfl rfl rfl rfl (by okS_tac) hs.g ?_ (fun _ e => by cases e) (fun _ _ _ h => h)
    intro q' e; cases e; exact ⟨f1, f2, f3, rfl⟩
  case rChk i =>
    by_cases hl : s.lr.live = i
    · simp only [hl, if_true] at h
      cases h
      refine safe_S ha hs hpc rfl rfl rfl rfl (by okS_tac) hs.g ?_ ?_ (fun _ _ _ h => h)
      · intro q' e
        unfold commitPC at e
        repeat' split at e
        all_goals (cases e; show sFact s.core _; dsimp only [sFact])
        · exact ⟨f1, f2, fun _ hv => by simp at hv⟩
        · exact ⟨f1, f2, fun _ hv => by simp at hv⟩
        · exact ⟨f1, f2, f3, fun _ hr => by simp at hr, fun _ hv => by simp at hv, fun _ => rfl⟩
      · intro res e
        unfold commitPC at e
        repeat' split at e
        all_goals cases e
    · simp only [hl, if_false] at h
      cases h
      refine safe_S ha hs hpc rfl rfl rfl rfl (by okS_tac) hs.g ?_ (fun _ e => by cases e) (fun _ _ _ h => h)
      intro q' e; cases e; exact ⟨f1, f2, f3, rfl⟩
  case rBack i =>
    cases h
    refine safe_S ha hs hpc rfl rfl rfl rfl (by okS_tac) hs.g ?_ (fun _ e => by cases e) (fun _ _ _ h => h)
    intro q' e; cases e; exact ⟨f1, f2, f3, rfl⟩

theorem safe_sScan {s s' : State} {t : Nat} {k : ScanK} {h0 i : Nat} {done todo : List Nat} {m : Option Nat}
    (ha : InvA s) (hl : LRI s) (hs : Safe s)
    (hpc : s.pc t = .snd (.sScan k h0 i done todo m)) (h : stepSScan s t k h0 i done todo m = some s') : Safe s' := by
  have hf := hs.sf t _ hpc
  simp only [sFact] at hf
  obtain ⟨f1, f2, f3, f4, f5, f6⟩ := hf
  have hst := hl.stage t
  simp only [hpc, lrpc, lrpcS, LeftRightB.stageOK] at hst
  obtain ⟨hi2, hdata⟩ := hst
  unfold stepSScan at h
  cases todo with
  | nil => cases h
  | cons r rest =>
    have hr : r < s.core.nextCell := hs.g.cells i r (by show r ∈ s.lr.data i; rw [hdata]; simp)
    have hdone : ∀ x, x ∈ done ++ [r] → x < s.core.nextCell := by
      intro x hx; rcases List.mem_append.1 hx with hx | hx
      · exact f4 x hx
      · simp at hx; subst hx; exact hr
    have hlbs : ∀ x, x ∈ done ++ [r] → omin m (s.cur r) ≤ s.core.cur x := by
      intro x hx; rcases List.mem_append.1 hx with hx | hx
      · cases hm : m with
        | none => rw [f6 hm] at hx; simp at hx
        | some v => subst hm; have := (f5 v rfl).1 x hx; have := omin_le_left (m := some v) (v := s.cur r) rfl; omega
      · simp at hx; subst hx; exact omin_le_right _ _
    have hleN : omin m (s.cur r) ≤ s.core.sent.length := by
      have := omin_le_right m (s.cur r); have := hs.g.cur_le r; show _ ≤ s.core.sent.length
      have e : s.cur r = s.core.cur r := rfl
      omega
    cases rest with
    | nil =>
      simp only [] at h
      have hlb := lb_all hl hs hpc
      have hg' := gfact_lim hs.g hlb
      split at h
      · cases h
        refine safe_S ha hs hpc rfl rfl rfl rfl (by okS_tac) hg' ?_ (fun _ e => by cases e) (by rf_same)
        intro q' e; cases e
        show sFact { s.core with lim := max s.core.lim (omin m (s.cur r) + s.core.cap) } _
        simp only [sFact]; exact ⟨f1, f2, by omega, hleN⟩
      · rename_i hha
        cases h
        refine safe_S ha hs hpc rfl rfl rfl rfl (by okS_tac) hg' ?_ (fun _ e => by cases e) (by rf_same)
        intro q' e; cases e
        show sFact { s.core with lim := max s.core.lim (omin m (s.cur r) + s.core.cap) } _
        simp only [sFact]
        refine ⟨f1, f2, ?_⟩
        intro v hv; cases hv
        refine ⟨?_, by omega, hleN⟩
        cases k <;> simp_all [hOK2, hOK, headAfter]
    | cons r2 rest2 =>
      simp only [] at h
      cases h
      refine safe_S ha hs hpc rfl rfl rfl rfl (by okS_tac) hs.g ?_ (fun _ e => by cases e) (fun _ _ _ h => h)
      intro q' e; cases e
      show sFact s.core _
      simp only [sFact]
      refine ⟨f1, f2, f3, hdone, ?_, fun hv => by cases hv⟩
      intro v hv; cases hv; exact ⟨hlbs, hleN⟩

theorem safe_sExit {s s' : State} {t : Nat} {k : ScanK} {h0 i : Nat} {L : List Nat} {m : Option Nat}
    (ha : InvA s) (hs : Safe s)
    (hpc : s.pc t = .snd (.sExit k h0 i L m)) (h : stepSExit s t k h0 i L m = some s') : Safe s' := by
  have hf := hs.sf t _ hpc
  simp only [sFact] at hf
  obtain ⟨f1, f2, f3⟩ := hf
  unfold stepSExit at h
  simp only [LeftRightB.step] at h
  cases h
  refine safe_S ha hs hpc rfl rfl rfl rfl (by okS_tac) hs.g ?_ ?_ (fun _ _ _ h => h)
  · intro q' e
    show sFact s.core q'
    unfold afterScan at e
    split at e
    all_goals (try split at e)
    all_goals (try split at e)
    all_goals (cases e <;> simp only [sFact])
    all_goals first | exact ⟨f1, f2 rfl⟩ | skip
    · rename_i x mv hlt
      have ⟨a, b, _⟩ := f3 mv rfl
      simp only [hOK2] at a
      exact ⟨a.symm, by have := f1.1; omega, by omega,
        by show h0 + 1 ≤ s.core.lim; have : s.cap = s.core.cap := rfl; omega, f1.2, f2 rfl⟩
    · rename_i x mv hk
      have ⟨a, b, _⟩ := f3 mv rfl
      simp only [hOK2] at a
      refine ⟨f1, f2 rfl, by omega, ?_⟩
      unfold spaceK at *
      have : s.cap = s.core.cap := rfl
      omega
  · intro res e
    exact f1

theorem safe_actS {s s' : State} {t : Nat} {p : SPC} (ha : InvA s) (hl : LRI s) (hs : Safe s)
    (hpc : s.pc t = .snd p) (h : actS s t p = some s') : Safe s' := by
  cases p <;> simp only [actS] at h
  case sFlag x =>
    cases h; unfold stepSFlag
    have hi : idleLike s.core := hs.sf t _ hpc
    split
    · exact safe_S_plainC ha hs hpc rfl rfl rfl rfl rfl (by okS_tac) (by plainC_tac) rfl
    · rename_i hc
      exact safe_S_plain ha hs hpc rfl rfl rfl rfl rfl (by okS_tac) (by plain_tac) rfl
        (by show s.sclosed = false; simpa using hc)
  case sHead k =>
    cases h
    have hf := hs.sf t _ hpc
    simp only [sFact] at hf
    refine safe_S ha hs hpc rfl rfl rfl rfl (by okS_tac) hs.g ?_ (fun _ e => by cases e) (fun _ _ _ h => h)
    intro q' e; cases e; exact ⟨hf.1, hf.2, hOK_self _ _, rfl⟩
  case sEnter k h0 p => exact safe_sEnter ha hs hpc h
  case sScan k h0 i done todo m => exact safe_sScan ha hl hs hpc h
  case sHead2 k i L m =>
    cases h
    have hf := hs.sf t _ hpc
    simp only [sFact] at hf
    refine safe_S ha hs hpc rfl rfl rfl rfl (by okS_tac) hs.g ?_ (fun _ e => by cases e) (fun _ _ _ h => h)
    intro q' e; cases e
    show sFact s.core _
    simp only [sFact]
    exact ⟨hf.1, hf.2.1, fun v hv => by cases hv; exact ⟨hOK2_self _ _, hf.2.2.1, hf.2.2.2⟩⟩
  case sExit k h0 i L m => exact safe_sExit ha hs hpc h
  case bHead x k =>
    cases h
    have hf := hs.sf t _ hpc
    simp only [sFact] at hf
    obtain ⟨f1, f2, f3, f4⟩ := hf
    refine safe_S ha hs hpc rfl rfl rfl rfl (by okS_tac) hs.g ?_ (fun _ e => by cases e) (fun _ _ _ h => h)
    intro q' e; cases e
    show sFact s.core _
    dsimp only [sFact]
    have e1 : s.head = s.core.head := rfl
    exact ⟨rfl, by have := f1.1; omega, f3, by rw [e1]; exact f4, f1.2, f2⟩
  case wSeqLd x h0 j k =>
    cases h
    have hf := hs.sf t _ hpc
    simp only [sFact] at hf
    refine safe_S ha hs hpc rfl rfl rfl rfl (by okS_tac) hs.g ?_ (fun _ e => by cases e) (fun _ _ _ h => h)
    intro q' e; cases e
    show sFact s.core _
    dsimp only [sFact]
    exact ⟨hf.1, hf.2.1, hf.2.2.1, hf.2.2.2.1, hf.2.2.2.2.1, rfl, hf.2.2.2.2.2⟩
  case wVal x h0 j k q =>
    cases h
    have hf := hs.sf t _ hpc
    simp only [sFact] at hf
    obtain ⟨f1, f2, f3, f4, f5, f6, f7⟩ := hf
    have hN : s.core.sent.length = h0 + j := f2
    have hg' := gfact_wVal (v := x.items.getD j 0) hs.g (by omega)
    rw [hN] at hg'
    refine safe_S ha hs hpc rfl rfl rfl rfl (by okS_tac) hg' ?_ (fun _ e => by cases e) (by rf_same)
    intro q' e; cases e
    show sFact { s.core with val := upd s.core.val ((h0 + j) % s.core.cap) (x.items.getD j 0), dirty := true } _
    dsimp only [sFact]
    exact ⟨f1, f2, f3, f4, rfl, by simp, f7⟩
  case wSeqSt x h0 j k =>
    cases h
    have hf := hs.sf t _ hpc
    simp only [sFact] at hf
    obtain ⟨f1, f2, f3, f4, f5, f6, f7⟩ := hf
    have hN : s.core.sent.length = h0 + j := f2
    have hg' := gfact_wSeqSt (v := x.items.getD j 0) hs.g f5 (by rw [hN]; exact f6)
    rw [hN] at hg'
    have hnd := not_dropped hs.g f7
    unfold stepWSeqSt
    split
    · refine safe_S ha hs hpc rfl rfl rfl rfl (by okS_tac) hg' ?_ (fun _ e => by cases e) ?_
      · intro q' e; cases e
        show sFact { s.core with seq := upd s.core.seq ((h0 + j) % s.core.cap) (2 * (h0 + j) + 1), sent := s.core.sent ++ [x.items.getD j 0], dirty := false } _
        dsimp only [sFact]; simp only [List.length_append, List.length_singleton]
        exact ⟨f1, by omega, by omega, f4, trivial, f7⟩
      · exact rFact_S_of rfl rfl rfl rfl rfl rfl rfl ⟨[x.items.getD j 0], rfl⟩ (Nat.le_refl _) (fun h => ⟨h, rfl⟩)
    · refine safe_S ha hs hpc rfl rfl rfl rfl (by okS_tac) hg' ?_ (fun _ e => by cases e) ?_
      · intro q' e; cases e
        show sFact { s.core with seq := upd s.core.seq ((h0 + j) % s.core.cap) (2 * (h0 + j) + 1), sent := s.core.sent ++ [x.items.getD j 0], dirty := false } _
        dsimp only [sFact]; simp only [List.length_append, List.length_singleton]
        exact ⟨f1, by omega, trivial, f7⟩
      · exact rFact_S_of rfl rfl rfl rfl rfl rfl rfl ⟨[x.items.getD j 0], rfl⟩ (Nat.le_refl _) (fun h => ⟨h, rfl⟩)
  case wHeadSt x h0 k =>
    cases h
    have hf := hs.sf t _ hpc
    simp only [sFact] at hf
    obtain ⟨f1, f2, f3, f4⟩ := hf
    have hg' := gfact_head (h := h0 + k) hs.g (by omega)
    have hnd : s.pdropped = false := not_dropped hs.g f4
    refine safe_S ha hs hpc rfl rfl rfl rfl (by okS_tac) hg' ?_ (fun _ e => by cases e) ?_
    · intro q' e; cases e
      show sFact { s.core with head := h0 + k } _
      dsimp only [sFact]
      exact ⟨⟨f2.symm, f3⟩, f4⟩
    · exact rFact_S_of rfl rfl rfl rfl rfl rfl rfl (sent_ext_refl rfl) (by show s.core.head ≤ h0 + k; omega)
        (fun h => by rw [hnd] at h; cases h)
  case wLockW x h0 j k acc =>
    unfold stepWLockW at h
    split at h
    · cases h; plainS ha hs hpc
    · cases h
  case wUnlockW x h0 j k acc => cases h; unfold stepWUnlockW; split <;> plainS ha hs hpc
  case wWake x k acc =>
    unfold stepWWake at h
    split at h
    · cases h
    · cases h; plainS ha hs hpc
  case slHead x => cases h; plainS ha hs hpc
  case aStore x => cases h; plainS ha hs hpc
  case aFence x =>
    cases h
    have hf := hs.sf t _ hpc
    simp only [sFact] at hf
    refine safe_S ha hs hpc rfl rfl rfl rfl (by okS_tac) hs.g ?_ (fun _ e => by cases e) (fun _ _ _ h => h)
    intro q' e; cases e
    show sFact s.core _
    dsimp only [sFact]
    refine ⟨hf.1, fun _ => hf.2, ?_, rfl⟩
    split <;> simp [hOK]
  case dCas d =>
    cases h; unfold stepDCas
    repeat' split
    all_goals plainS ha hs hpc
  case dSpin d => cases h; plainS ha hs hpc
  case dLoad x => cases h; unfold stepDLoad; split <;> plainS ha hs hpc
  case dSpin2 x => cases h; plainS ha hs hpc
  case pPark x =>
    unfold stepPPark at h
    split at h
    · cases h; plainS ha hs hpc
    · cases h
  case pHead x => cases h; plainS ha hs hpc
  case pLoad x => cases h; unfold stepPLoad; repeat' split
                  all_goals plainS ha hs hpc
  case pCas x => cases h; unfold stepPCas; split <;> plainS ha hs hpc
  case pSpin x => cases h; plainS ha hs hpc
  case cFlag d =>
    cases h; unfold stepCFlag; split
    · plainCS ha hs hpc
    · have hi : idleLike s.core := hs.sf t _ hpc
      refine safe_S ha hs hpc rfl rfl rfl rfl (by okS_tac) (gfact_sclosed hs.g) ?_ (fun _ e => by cases e) (by rf_same)
      intro q' e; cases e
      show sFact { s.core with sclosed := true } _
      dsimp only [sFact]; exact ⟨hi, rfl⟩
  case cStore =>
    cases h
    have hf := hs.sf t _ hpc
    simp only [sFact] at hf
    refine safe_S ha hs hpc rfl rfl rfl rfl (by okS_tac) (gfact_pdropped hs.g hf.2) ?_ (fun _ e => by cases e) ?_
    · intro q' e; cases e
      show sFact { s.core with pdropped := true } _
      dsimp only [sFact]; exact hf.1
    · exact rFact_S_of rfl rfl rfl rfl rfl rfl rfl (sent_ext_refl rfl) (Nat.le_refl _) (fun _ => ⟨rfl, rfl⟩)
  case cLock j =>
    unfold stepCLock at h
    split at h
    · cases h; split <;> plainCS ha hs hpc
    · cases h
  case cWake j ws =>
    unfold stepCWake at h
    split at h
    · cases h
    · cases h; split <;> plainCS ha hs hpc
  case cUnlock j => cases h; unfold stepCUnlock; split <;> plainCS ha hs hpc

end Fv.Chan.SpmcB
