import Fv.Lemmas.SyncRwProps
/-!
Writer preference of the rwlock model, the direction that matters for non-starvation and holds in
EVERY reachable state (list critical sections included): while a writer node is queued,
`WRITER_PENDING` is set - the only exception is the single step between a writer's `link_back` and
its own `fetch_or(HAS_QUEUED | WRITER_PENDING)`, taken under the list lock.  (`fix_flags` clears the
flag only after reading `queued_writers() == 0` under the list lock.)
-/
namespace Fv.Sync.RwLock
open Fv.Sync
variable {cfg : Cfg} {s s' : State} {t : Tid} {l : Lbl}

def PWpDir (s : State) : Prop :=
  0 < s.wl.writers → s.word.wp = true ∨ ∃ t, (s.th t).pc = .qFetchOr ∧ (s.th t).wr = true

set_option maxHeartbeats 16000000 in
theorem wpdir_local (hi : Inv s) (h : Step cfg s t l s')
    (c : 0 < s.wl.writers → s.word.wp = true ∨ ((s.th t).pc = .qFetchOr ∧ (s.th t).wr = true)) :
    0 < s'.wl.writers → s'.word.wp = true ∨ ((s'.th t).pc = .qFetchOr ∧ (s'.th t).wr = true) := by
  have e1 := hi.thrWr t; have e2 := hi.phNode t; have e3 := hi.futWr t; have e4 := hi.futNodeWr
  have e5 := hi.syncLinked t
  have g1 : ∀ n, (s.wl.node n).linked = true → (s.wl.node n).isWriter = true → 0 < s.wl.writers :=
    fun n hl hw => hi.wf.writers_pos hl hw
  unfold PFutNodeWr at e4
  clear hi
  step_cases h
  all_goals (try norm_state)
  all_goals grind [inLL, slowL, futPc, futNodePc, TaK.sync, After.async]

theorem wpdir_step (hi : Inv s) (hp : PWpDir s) (h : Step cfg s t l s') : PWpDir s' := by
  have ho := step_th_other h
  by_cases hx : ∃ u, u ≠ t ∧ (s.th u).pc = .qFetchOr ∧ (s.th u).wr = true
  · -- another thread is between its link and its `fetch_or`: it holds the list lock
    obtain ⟨u, hut, hpc, hwr⟩ := hx
    intro _
    exact Or.inr ⟨u, by rw [ho u hut]; exact hpc, by rw [ho u hut]; exact hwr⟩
  · intro hpos'
    have c : 0 < s.wl.writers → s.word.wp = true ∨ ((s.th t).pc = .qFetchOr ∧ (s.th t).wr = true) := by
      intro hpos
      rcases hp hpos with h1 | ⟨u, hpc, hwr⟩
      · exact Or.inl h1
      · by_cases hut : u = t
        · subst hut; exact Or.inr ⟨hpc, hwr⟩
        · exact absurd ⟨u, hut, hpc, hwr⟩ hx
    rcases wpdir_local hi h c hpos' with h1 | h1
    · exact Or.inl h1
    · exact Or.inr ⟨t, h1⟩

theorem wpdir_reach {s : State} (h : Reach cfg s) : PWpDir s := by
  refine ReachOf.inv (fun s => Inv s ∧ PWpDir s) ?_ ?_ s h |>.2
  · rintro s ⟨prog, rfl⟩
    exact ⟨Inv_init prog, by intro hp; simp [init] at hp⟩
  · intro s t l s' ⟨hi, h1⟩ hm
    have hs := step_of_mem hm
    exact ⟨Inv_step hi hs, wpdir_step hi h1 hs⟩

/-- WRITER PREFERENCE: in every reachable state with a queued writer node, `WRITER_PENDING` is set,
unless a writer is exactly between its `link_back` and its `fetch_or` (one step, list lock held) -/
theorem writer_queued_pending (hr : Reach cfg s) {n : Nid} (hn : n ∈ s.wl.queue)
    (hnw : (s.wl.node n).isWriter = true) :
    s.word.wp = true ∨ ∃ t, (s.th t).pc = .qFetchOr ∧ (s.th t).wr = true :=
  wpdir_reach hr ((Inv_reach hr).wf.writers_pos (((Inv_reach hr).wf.linked n).2 hn) hnw)

/-- … hence no reader can acquire the lock while a writer is queued (list critical sections open or
not), outside that one-step window -/
theorem writer_preference (hr : Reach cfg s) {n : Nid} (hn : n ∈ s.wl.queue)
    (hnw : (s.wl.node n).isWriter = true) (hwin : ∀ u, (s.th u).pc = .qFetchOr → (s.th u).wr = false)
    (h : (l, s') ∈ next cfg s t) (hw : (s.th t).wr = false)
    {w : Bool} {old new : Nat} : l ≠ .cas .state w .acquire .relaxed old new true := by
  intro hlab
  have hwp : s.word.wp = true := by
    rcases writer_queued_pending hr hn hnw with h1 | ⟨u, hpc, hwr⟩
    · exact h1
    · rw [hwin u hpc] at hwr; cases hwr
  have := (reader_cas_needs_flag_clear hr h hlab hw).1
  rw [hwp] at this; cases this

end Fv.Sync.RwLock
